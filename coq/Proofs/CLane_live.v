(* CLane_live.v — third invariant of the concurrent-lane model: somebody is always responsible for a non-empty list, a
   granted waiter is woken, a waiting thread's item is on the list or in the hands of the lock owner; consequence: a state
   in which nothing can move has no item left, no thread waiting and the idle word (no lost wakeup, no lost barrier). *)
From Coq Require Import ZArith Bool List Lia Sorted.
From Verif Require Import Word Bits Fields DqFields Conc Gen_consts Gen_dqstate Lane_fields CLane_fields CLane CLane_inv CLane_proofs
  CLane_steps1 CLane_main CLane_order.
Import ListNotations.
Local Open Scope Z_scope.

(* an enqueuer that found the list empty and still owes the wakeup (DISPATCH_WAKEUP_MAKE_DIRTY), or a sync waiter before
   its push_waiter rmw *)
Definition pusher (p : pc) : bool :=
  match p with A_probe _ fl | A_wake _ fl => fl =? 3 | SW_rmw _ _ => true | _ => false end.
(* the lock owner has decided, from a list it saw empty, to give the lock back *)
Definition past_look (p : pc) : bool :=
  match p with
  | W_unlock _ d => d =? 1 | BC_class _ e => e =? 0 | DN_fin _ _ nx | DN_wake _ _ _ nx => nx =? 0
  | _ => false
  end.
(* the drainer gives the lock back although items are left (no width for the head item) *)
Definition gives_up (p : pc) : bool := match p with W_unlock _ d => d =? 0 | _ => false end.
Definition waker (p : pc) (u : Z) : bool :=
  match p with DN_wake _ _ v _ | W_wake _ _ v | DBW_wake _ v => v =? u | _ => false end.
Definition qos_ok (p : pc) : Prop :=
  match p with
  | A_tail _ q _ | A_acq q _ | A_xchg _ q _ => 0 <= q < 8
  | A_probe q fl | A_wake q fl => 0 <= q < 8 /\ (fl = 1 \/ fl = 3)
  | W_unlock _ d => d = 0 \/ d = 1
  | _ => True
  end.

Definition resp (s : gst) : Prop :=
  1 <= rootq s \/ tokh s <> None \/ 1 <= U s \/ lockh s <> None \/ exists u, pusher (pcs s u) = true.

Record Inv3 (s : gst) : Prop := {
  k_resp : lst s <> [] -> resp s;
  k_look : forall t, past_look (pcs s t) = true -> lst s <> [] -> dirty s = 1 \/ exists u, pusher (pcs s u) = true;
  k_giveup : forall t, gives_up (pcs s t) = true -> dirty s = 1 \/ 1 <= U s;
  k_wake : forall u, grant s u <> GNone -> woken s u = true \/ exists t, waker (pcs s t) u = true;
  k_item : forall t i b, wait_item (pcs s t) = Some (i, b) -> grant s t = GNone ->
             (exists x, In x (lst s) /\ i_id x = i /\ i_wt x = t) \/ exists u k e, pcs s u = DBW_xfer k e t i;
  k_dirty : dirty s = 1 -> lockh s <> None \/ 1 <= rootq s \/ tokh s <> None \/ 1 <= U s;
  k_popb : forall t op, pcs s t = W_popb op -> exists x l, lst s = x :: l /\ i_wt x = 0;
  k_qos : forall t, qos_ok (pcs s t);
  k_zero : pcs s 0 = Idle
}.

Lemma past_look_owns p : past_look p = true -> owns p = true.
Proof. destruct p; cbn; intros; try discriminate; reflexivity. Qed.
Lemma gives_up_owns p : gives_up p = true -> owns p = true.
Proof. destruct p; cbn; intros; try discriminate; reflexivity. Qed.

Lemma owner_unique W s t u : Inv W s -> owns (pcs s t) = true -> owns (pcs s u) = true -> t = u.
Proof.
  intros (_ & _ & T) A B. destruct (T t) as [_ T2 _ _ _ _]. destruct (T u) as [_ U2 _ _ _ _].
  assert (lockh s = Some t) by (apply T2; auto). assert (lockh s = Some u) by (apply U2; auto). congruence.
Qed.

Lemma no_owner_pc W s t : Inv W s -> lockh s = None -> owns (pcs s t) = false.
Proof.
  intros (_ & _ & T) L. destruct (T t) as [_ T2 _ _ _ _]. destruct (owns (pcs s t)) eqn:E; [|reflexivity].
  assert (lockh s = Some t) by (apply T2; auto). congruence.
Qed.

(* ---- frame: a step that only moves the program counter of t ---- *)
Definition same3 (s s' : gst) : Prop :=
  lst s' = lst s /\ rootq s' = rootq s /\ tokh s' = tokh s /\ holders s' = holders s /\ rq s' = rq s /\ lockh s' = lockh s /\
  grant s' = grant s /\ woken s' = woken s /\ st s' = st s.

Lemma same3_U s s' : holders s' = holders s -> rq s' = rq s -> U s' = U s.
Proof. intros A B. unfold U. rewrite A, B. reflexivity. Qed.

Lemma frame3 s s' t p' : Inv3 s -> t <> 0 -> same3 s s' -> pcs s' = upd (pcs s) t p' ->
  (pusher (pcs s t) = true -> pusher p' = true \/ lst s = []) ->
  (past_look p' = true -> past_look (pcs s t) = true \/ lst s = []) ->
  (gives_up p' = true -> gives_up (pcs s t) = true \/ dirty s = 1 \/ 1 <= U s) ->
  (forall u, waker (pcs s t) u = true -> waker p' u = true) ->
  wait_item p' = wait_item (pcs s t) -> hand (pcs s t) = None ->
  (forall op, p' = W_popb op -> (exists op', pcs s t = W_popb op') \/ exists x l, lst s = x :: l /\ i_wt x = 0) -> qos_ok p' -> Inv3 s'.
Proof.
  intros I T0 (E1 & E2 & E3 & E4 & E5 & E6 & E7 & E8 & E9) Ep Hpu Hpl Hgu Hwk Hwi Hh Hpb Hq. destruct I.
  assert (EU : U s' = U s) by (apply same3_U; assumption).
  assert (ED : dirty s' = dirty s) by (apply dirty_same; exact E9).
  assert (Po : forall u, u <> t -> pcs s' u = pcs s u) by (intros u Hne; rewrite Ep; apply upd_other; exact Hne).
  assert (Pt : pcs s' t = p') by (rewrite Ep; apply upd_same).
  assert (PU : (exists u, pusher (pcs s u) = true) -> lst s <> [] -> exists u, pusher (pcs s' u) = true).
  { intros (u & Hu) NE. destruct (Z.eq_dec u t) as [->|Ne].
    - destruct (Hpu Hu) as [X|X]; [|contradiction]. exists t. rewrite Pt. exact X.
    - exists u. rewrite Po by exact Ne. exact Hu. }
  constructor; rewrite ?E1, ?E2, ?E3, ?EU, ?E6, ?E7, ?E8, ?ED.
  - intros NE. destruct (k_resp0 NE) as [X|[X|[X|[X|X]]]]; unfold resp; rewrite ?E2, ?E3, ?EU, ?E6; auto.
    right; right; right; right. auto.
  - intros u Hu NE. destruct (Z.eq_dec u t) as [->|Ne].
    + rewrite Pt in Hu. destruct (Hpl Hu) as [X|X]; [|contradiction]. destruct (k_look0 t X NE); auto.
    + rewrite Po in Hu by exact Ne. destruct (k_look0 u Hu NE); auto.
  - intros u Hu. destruct (Z.eq_dec u t) as [->|Ne].
    + rewrite Pt in Hu. destruct (Hgu Hu) as [X|[X|X]]; [exact (k_giveup0 t X)|left; exact X|right; exact X].
    + rewrite Po in Hu by exact Ne. exact (k_giveup0 u Hu).
  - intros u Hu. destruct (k_wake0 u Hu) as [X|(v & X)]; [left; exact X|]. right. destruct (Z.eq_dec v t) as [->|Ne].
    + exists t. rewrite Pt. auto.
    + exists v. rewrite Po by exact Ne. exact X.
  - intros u i b Hu Gu. assert (Hu' : wait_item (pcs s u) = Some (i, b)).
    { destruct (Z.eq_dec u t) as [->|Ne]; [rewrite Pt in Hu; congruence|rewrite Po in Hu by exact Ne; exact Hu]. }
    destruct (k_item0 u i b Hu' Gu) as [X|(v & k & e & X)]; [left; exact X|]. right. exists v, k, e.
    rewrite Po; [exact X|]. intros ->. rewrite X in Hh. discriminate.
  - exact k_dirty0.
  - intros u op Hu. destruct (Z.eq_dec u t) as [->|Ne].
    + rewrite Pt in Hu. destruct (Hpb op Hu) as [(op' & X)|X]; [exact (k_popb0 t op' X)|exact X].
    + rewrite Po in Hu by exact Ne. exact (k_popb0 u op Hu).
  - intros u. destruct (Z.eq_dec u t) as [->|Ne]; [rewrite Pt; exact Hq|rewrite Po by exact Ne; apply k_qos0].
  - rewrite Po by (intros X; apply T0; symmetry; exact X). exact k_zero0.
Qed.

(* ---- transport of the single clauses ---- *)
Section Transport.
Variables (s s' : gst) (t : Z) (p' : pc).
Hypothesis Ep : pcs s' = upd (pcs s) t p'.

Lemma po u : u <> t -> pcs s' u = pcs s u.
Proof. intros Hne. rewrite Ep. apply upd_other. exact Hne. Qed.
Lemma pt : pcs s' t = p'.
Proof. rewrite Ep. apply upd_same. Qed.

Lemma t_wake : Inv3 s ->
  (forall u, grant s' u <> GNone -> grant s u <> GNone \/ waker p' u = true \/ woken s' u = true) ->
  (forall u, woken s u = true -> woken s' u = true \/ grant s' u = GNone) ->
  (forall u, waker (pcs s t) u = true -> waker p' u = true \/ woken s' u = true \/ grant s' u = GNone) ->
  forall u, grant s' u <> GNone -> woken s' u = true \/ exists v, waker (pcs s' v) u = true.
Proof.
  intros I H1 H2 H3 u Gu. destruct (H1 u Gu) as [X|[X|X]]; [|right; exists t; rewrite pt; exact X|left; exact X].
  destruct (k_wake s I u X) as [Y|(v & Y)].
  - destruct (H2 u Y); [auto|contradiction].
  - destruct (Z.eq_dec v t) as [->|Ne].
    + destruct (H3 u Y) as [Z1|[Z1|Z1]]; [right; exists t; rewrite pt; exact Z1|left; exact Z1|contradiction].
    + right. exists v. rewrite po by exact Ne. exact Y.
Qed.

Lemma t_item : Inv3 s -> t <> 0 ->
  (forall i b, wait_item p' = Some (i, b) -> grant s' t = GNone ->
     (wait_item (pcs s t) = Some (i, b) /\ grant s t = GNone) \/ exists x, In x (lst s') /\ i_id x = i /\ i_wt x = t) ->
  (forall u, u <> t -> grant s' u = GNone -> grant s u = GNone) ->
  (forall x, In x (lst s) -> i_wt x <> 0 ->
     In x (lst s') \/ grant s' (i_wt x) <> GNone \/ exists k e, p' = DBW_xfer k e (i_wt x) (i_id x)) ->
  (forall k e u i, pcs s t = DBW_xfer k e u i -> grant s' u <> GNone \/ p' = DBW_xfer k e u i) ->
  forall u i b, wait_item (pcs s' u) = Some (i, b) -> grant s' u = GNone ->
    (exists x, In x (lst s') /\ i_id x = i /\ i_wt x = u) \/ exists v k e, pcs s' v = DBW_xfer k e u i.
Proof.
  intros I T0 H1 H2 H3 H4 u i b Hu Gu.
  assert (U0 : u <> 0).
  { intros ->. rewrite po in Hu by (intros X; apply T0; symmetry; exact X). rewrite (k_zero s I) in Hu. discriminate. }
  assert (X : (wait_item (pcs s u) = Some (i, b) /\ grant s u = GNone) \/ exists x, In x (lst s') /\ i_id x = i /\ i_wt x = u).
  { destruct (Z.eq_dec u t) as [->|Ne]; [rewrite pt in Hu; exact (H1 i b Hu Gu)|]. rewrite po in Hu by exact Ne. left. auto. }
  destruct X as [[Hu0 Gu0]|X]; [|left; exact X].
  destruct (k_item s I u i b Hu0 Gu0) as [(x & Hx & <- & <-)|(v & k & e & Hv)].
  - destruct (H3 x Hx U0) as [Y|[Y|(k & e & Y)]].
    + left. exists x. auto.
    + contradiction.
    + right. exists t, k, e. rewrite pt. exact Y.
  - destruct (Z.eq_dec v t) as [->|Ne].
    + destruct (H4 k e u i Hv) as [Y|Y]; [contradiction|]. right. exists t, k, e. rewrite pt. exact Y.
    + right. exists v, k, e. rewrite po by exact Ne. exact Hv.
Qed.
End Transport.

(* ---- the general update: what has to be shown for the moving thread t, and for the others only when one of them is a
   lock owner past its last look / giving up / about to run the head inline ---- *)
Lemma master s s' t p' : Inv3 s -> t <> 0 -> pcs s' = upd (pcs s) t p' ->
  (lst s' <> [] -> resp s') ->
  (past_look p' = true -> lst s' <> [] -> dirty s' = 1 \/ exists u, pusher (pcs s' u) = true) ->
  ((exists u, u <> t /\ past_look (pcs s u) = true) ->
     (dirty s = 1 -> dirty s' = 1) /\ (pusher (pcs s t) = true -> pusher p' = true \/ dirty s' = 1 \/ lst s' = []) /\
     (lst s' <> [] -> lst s <> [] \/ pusher p' = true \/ dirty s' = 1)) ->
  (gives_up p' = true -> dirty s' = 1 \/ 1 <= U s') ->
  ((exists u, u <> t /\ gives_up (pcs s u) = true) -> (dirty s = 1 -> dirty s' = 1) /\ (U s' < U s -> dirty s' = 1)) ->
  (forall u, grant s' u <> GNone -> grant s u <> GNone \/ waker p' u = true \/ woken s' u = true) ->
  (forall u, woken s u = true -> woken s' u = true \/ grant s' u = GNone) ->
  (forall u, waker (pcs s t) u = true -> waker p' u = true \/ woken s' u = true \/ grant s' u = GNone) ->
  (forall i b, wait_item p' = Some (i, b) -> grant s' t = GNone ->
     (wait_item (pcs s t) = Some (i, b) /\ grant s t = GNone) \/ exists x, In x (lst s') /\ i_id x = i /\ i_wt x = t) ->
  (forall u, u <> t -> grant s' u = GNone -> grant s u = GNone) ->
  (forall x, In x (lst s) -> i_wt x <> 0 ->
     In x (lst s') \/ grant s' (i_wt x) <> GNone \/ exists k e, p' = DBW_xfer k e (i_wt x) (i_id x)) ->
  (forall k e u i, pcs s t = DBW_xfer k e u i -> grant s' u <> GNone \/ p' = DBW_xfer k e u i) ->
  (dirty s' = 1 -> lockh s' <> None \/ 1 <= rootq s' \/ tokh s' <> None \/ 1 <= U s') ->
  (forall op, p' = W_popb op -> exists x l, lst s' = x :: l /\ i_wt x = 0) ->
  ((exists u op, u <> t /\ pcs s u = W_popb op) -> forall x l, lst s = x :: l -> exists l', lst s' = x :: l') ->
  qos_ok p' -> Inv3 s'.
Proof.
  intros I T0 Ep Mr Mlt Mlo Mgt Mgo Mw1 Mw2 Mw3 Mi1 Mi2 Mi3 Mi4 Md Mpt Mpo Mq.
  assert (Po := po s s' t p' Ep). assert (Pt := pt s s' t p' Ep).
  constructor.
  - exact Mr.
  - intros u Hu NE. destruct (Z.eq_dec u t) as [->|Ne]; [rewrite Pt in Hu; exact (Mlt Hu NE)|].
    rewrite Po in Hu by exact Ne. destruct Mlo as (A & B & C); [exists u; auto|].
    destruct (C NE) as [X|[X|X]]; [|right; exists t; rewrite Pt; exact X|left; exact X].
    destruct (k_look s I u Hu X) as [Y|(v & Y)]; [left; auto|].
    destruct (Z.eq_dec v t) as [->|Nv].
    + destruct (B Y) as [Z1|[Z1|Z1]]; [right; exists t; rewrite Pt; exact Z1|left; exact Z1|contradiction].
    + right. exists v. rewrite Po by exact Nv. exact Y.
  - intros u Hu. destruct (Z.eq_dec u t) as [->|Ne]; [rewrite Pt in Hu; exact (Mgt Hu)|].
    rewrite Po in Hu by exact Ne. destruct Mgo as (A & B); [exists u; auto|].
    destruct (k_giveup s I u Hu) as [X|X]; [left; auto|]. destruct (Z_lt_dec (U s') (U s)); [left; auto|right; lia].
  - exact (t_wake s s' t p' Ep I Mw1 Mw2 Mw3).
  - exact (t_item s s' t p' Ep I T0 Mi1 Mi2 Mi3 Mi4).
  - exact Md.
  - intros u op Hu. destruct (Z.eq_dec u t) as [->|Ne]; [rewrite Pt in Hu; exact (Mpt op Hu)|].
    rewrite Po in Hu by exact Ne. destruct (k_popb s I u op Hu) as (x & l & E & X).
    destruct (Mpo (ex_intro _ u (ex_intro _ op (conj Ne Hu))) x l E) as (l' & E'). exists x, l'. auto.
  - intros u. destruct (Z.eq_dec u t) as [->|Ne]; [rewrite Pt; exact Mq|rewrite Po by exact Ne; apply (k_qos s I)].
  - rewrite Po by (intros X; apply T0; symmetry; exact X). exact (k_zero s I).
Qed.

Lemma other_owner_absurd W s t u : Inv W s -> owns (pcs s t) = true -> u <> t -> owns (pcs s u) = true -> False.
Proof. intros HI A Ne B. apply Ne. symmetry. exact (owner_unique W s t u HI A B). Qed.

Lemma free_no_owner W s u : Inv W s -> lockh s = None -> owns (pcs s u) = true -> False.
Proof. intros HI L A. rewrite (no_owner_pc W s u HI L) in A. discriminate. Qed.

Lemma is_nil_true {A} (l : list A) : is_nil l = true -> l = [].
Proof. destruct l; [reflexivity|discriminate]. Qed.

(* ---- the lock owner moves and keeps the lock; list, grants, wake flags unchanged ---- *)
Lemma owner_keep W s s' t p' : Inv W s -> Inv3 s -> t <> 0 -> owns (pcs s t) = true -> pcs s' = upd (pcs s) t p' ->
  lst s' = lst s -> grant s' = grant s -> woken s' = woken s -> lockh s' = lockh s ->
  (past_look p' = true -> lst s = []) ->
  (gives_up p' = true -> dirty s' = 1 \/ 1 <= U s') ->
  (forall u, waker (pcs s t) u = true -> waker p' u = true) -> wait_item p' = wait_item (pcs s t) -> hand (pcs s t) = None ->
  (forall op, p' <> W_popb op) -> qos_ok p' -> Inv3 s'.
Proof.
  intros HI I T0 Ow Ep El Eg Ew Elk Hpl Hgu Hwk Hwi Hh Hpb Hq.
  destruct (owner_facts W s t HI Ow) as (L & _ & _).
  apply (master s s' t p' I T0 Ep).
  - intros _. right; right; right; left. rewrite Elk, L. discriminate.
  - intros X NE. rewrite El in NE. exfalso. apply NE. exact (Hpl X).
  - intros (u & Ne & X). exfalso. exact (other_owner_absurd W s t u HI Ow Ne (past_look_owns _ X)).
  - exact Hgu.
  - intros (u & Ne & X). exfalso. exact (other_owner_absurd W s t u HI Ow Ne (gives_up_owns _ X)).
  - intros u X. left. rewrite Eg in X. exact X.
  - intros u X. left. rewrite Ew. exact X.
  - intros u X. left. auto.
  - intros i b X G. left. rewrite Eg in G. split; congruence.
  - intros u _ X. rewrite Eg in X. exact X.
  - intros x Hx _. left. rewrite El. exact Hx.
  - intros k e u i X. rewrite X in Hh. discriminate.
  - intros _. left. rewrite Elk, L. discriminate.
  - intros op X. exfalso. exact (Hpb op X).
  - intros (u & op & Ne & X). exfalso. apply (other_owner_absurd W s t u HI Ow Ne). rewrite X. reflexivity.
  - exact Hq.
Qed.

(* ---- field-level facts about single steps ---- *)
Lemma ginv_basic W s r : ginv W s r -> 2 <= W <= 4094 ->
  wfr r /\ st s = enc r /\ dirty s = f_d r /\ pb s = f_pb r.
Proof.
  intros G HW. pose proof (g_wf _ _ _ G) as Wf. pose proof (g_enc _ _ _ G) as E.
  split; [exact Wf|]. split; [exact E|]. split; [apply dirty_st; assumption|apply pb_st; assumption].
Qed.

(* the reader fast paths do not touch DIRTY *)
Lemma rsv_dirty W s t tl s' : Inv W s -> pcs s t = S_rsv tl -> gstep W s t = Some s' -> dirty s' = dirty s.
Proof.
  intros (HW & (r & G) & T) Hpc Hs. destruct (ginv_basic W s r G HW) as (Wf & E & _). pose proof Wf as Wf'. unfold wfr in Wf'.
  unfold gstep in Hs. rewrite Hpc, E in Hs. rewrite reserve_sync_fields in Hs by (assumption || lia).
  destruct (nz tl); [apply Some_inj in Hs; subst s'; apply dirty_same; reflexivity|].
  destruct (sync_ok r W) eqn:S; [|apply Some_inj in Hs; subst s'; apply dirty_same; reflexivity].
  apply Some_inj in Hs. subst s'. unfold sync_ok in S. rewrite !andb_true_iff in S. destruct S as [_ S]. apply Z.ltb_lt in S.
  eapply dirty_eq; [exact E|exact Wf|gcbn; reflexivity|apply set_wq_wf; [exact Wf|lia]|reflexivity].
Qed.

Lemma acq_dirty W s s' new ret : Inv W s -> f_dispatch_queue_try_acquire_async 0 (st s) = Commit new ret ->
  st s' = new -> dirty s' = dirty s.
Proof.
  intros (HW & (r & G) & T) Hs E'. destruct (ginv_basic W s r G HW) as (Wf & E & _). pose proof Wf as Wf'. unfold wfr in Wf'.
  rewrite E, acquire_async_fields in Hs by exact Wf. destruct (async_ok r) eqn:S; [|discriminate].
  injection Hs as <- _. unfold async_ok in S. rewrite !andb_true_iff in S. destruct S as [[[_ S] _] _]. apply Z.ltb_lt in S.
  eapply dirty_eq; [exact E|exact Wf|exact E'|apply set_wq_wf; [exact Wf|lia]|reflexivity].
Qed.

(* _dispatch_lane_non_barrier_complete: under a lock it leaves DIRTY; the last reader of an unlocked queue takes the lock *)
Lemma NBC_facts W s t s' : Inv W s -> valid_tid t -> pcs s t = NBC -> gstep W s t = Some s' ->
  (lockh s <> None -> dirty s' = 1) /\ (lockh s = None -> U s = 1 -> lockh s' = Some t).
Proof.
  intros HI Vt Hpc Hs. unfold gstep in Hs. rewrite Hpc in Hs.
  pose proof HI as (HW & (r & G) & T). pose proof (g_wf _ _ _ G) as Wf. pose proof Wf as Wf'. unfold wfr in Wf'.
  destruct (T t) as [T1 _ _ _ _ _]. rewrite Hpc in T1. cbn [holds] in T1.
  assert (Hin : In t (holders s)) by (apply T1; auto).
  assert (U1 : 1 <= Z.of_nat (length (holders s))) by (destruct (holders s); [destruct Hin | cbn [length]; lia]).
  pose proof (g_dw _ _ _ G) as [D0 DN]. pose proof (g_wq _ _ _ G) as Hwq. pose proof (g_bound _ _ _ G) as Hbd.
  pose proof (g_ib _ _ _ G) as Hib. pose proof (g_owner _ _ _ G) as Hown. pose proof (g_hi _ _ _ G) as Hhi.
  assert (Hq1 : 1 <= f_wq r) by (unfold U in Hwq; nia).
  rewrite (g_enc _ _ _ G) in Hs. rewrite nbc_fields in Hs by (assumption || lia).
  assert (W1 : wfr (set_wq r (f_wq r - 1))) by (apply set_wq_wf; [assumption|lia]).
  unfold nbc_rec in Hs. cbv zeta in Hs.
  destruct (Z.eqb_spec (f_owner r) 0) as [Ho|Ho]; cbn [negb] in Hs.
  - assert (LN : lockh s = None) by (destruct (lockh s) as [o|] eqn:E; [pose proof (g_ownv _ _ _ G o E) as V; unfold valid_tid in V; lia | reflexivity]).
    split; [intros X; contradiction|]. intros _ HU1.
    destruct (DN LN) as [Dw0 Bm0]. rewrite Bm0 in Hib. rewrite Hhi, Hib in Hs. cbn [Z.eqb andb] in Hs. rewrite Dw0 in Hwq.
    assert (Pb : f_pb r = 0 \/ f_pb r = 1) by lia.
    destruct (Z.ltb_spec (f_wq r - 1) 4096) as [Hq|Hq]; [|exfalso; destruct Pb as [P|P]; rewrite P in Hwq; lia].
    unfold tl_rec, tl_take in Hs. fcbn_in Hs.
    assert (Take : (if f_pb r =? 1 then f_wq r - 1 + 1 =? 4096 else f_wq r - 1 + W =? 4096) = true).
    { destruct Pb as [P|P]; rewrite P in *; cbn [Z.eqb]; apply Z.eqb_eq; lia. }
    rewrite Take in Hs.
    assert (Wl : wfr (locked_bar (set_wq r (f_wq r - 1)) t)) by (unfold locked_bar; fcbn; unfold valid_tid in Vt; wf_mk).
    unfold changed, IN_BARRIER in Hs. rewrite changed_ib_f in Hs by assumption. fcbn_in Hs. rewrite Hib in Hs.
    cbn [Z.eqb negb] in Hs. apply Some_inj in Hs. subst s'. reflexivity.
  - assert (LS : lockh s <> None) by (intros X; rewrite X in Hown; contradiction).
    split; [|intros X; contradiction]. intros _.
    assert (Wd : wfr (set_d (set_wq r (f_wq r - 1)) 1)) by (unfold set_d; fcbn; wf_mk).
    unfold changed, IN_BARRIER, ENQUEUED in Hs. rewrite changed_ib_f, changed_enq_f in Hs by assumption. fcbn_in Hs.
    rewrite !Z.eqb_refl in Hs. cbn [negb] in Hs. apply Some_inj in Hs. subst s'.
    match goal with |- dirty ?s2 = 1 => rewrite (dirty_st s2 _ eq_refl Wd) end. reflexivity.
Qed.

(* ---- a step that leaves list, grants and wake flags alone ---- *)
Lemma plain_step s s' t p' : Inv3 s -> t <> 0 -> pcs s' = upd (pcs s) t p' ->
  lst s' = lst s -> grant s' = grant s -> woken s' = woken s ->
  (lst s <> [] -> resp s') ->
  past_look p' = false -> gives_up p' = false ->
  ((exists u, u <> t /\ owns (pcs s u) = true) ->
     (dirty s = 1 -> dirty s' = 1) /\ (U s' < U s -> dirty s' = 1) /\ (pusher (pcs s t) = true -> pusher p' = true \/ dirty s' = 1)) ->
  (forall u, waker (pcs s t) u = true -> waker p' u = true) -> wait_item p' = wait_item (pcs s t) -> hand (pcs s t) = None ->
  (dirty s' = 1 -> lockh s' <> None \/ 1 <= rootq s' \/ tokh s' <> None \/ 1 <= U s') ->
  (forall op, p' <> W_popb op) -> qos_ok p' -> Inv3 s'.
Proof.
  intros I T0 Ep El Eg Ew Hr Hpl Hgu Hoth Hwk Hwi Hh Hd Hpb Hq.
  apply (master s s' t p' I T0 Ep).
  - rewrite El. exact Hr.
  - intros X. congruence.
  - intros (u & Ne & X). destruct Hoth as (A & B & C); [exists u; split; [exact Ne|exact (past_look_owns _ X)]|].
    split; [exact A|]. split; [intros Y; destruct (C Y); auto|]. rewrite El. auto.
  - intros X. congruence.
  - intros (u & Ne & X). destruct Hoth as (A & B & C); [exists u; split; [exact Ne|exact (gives_up_owns _ X)]|]. auto.
  - intros u X. left. rewrite Eg in X. exact X.
  - intros u X. left. rewrite Ew. exact X.
  - intros u X. left. auto.
  - intros i b X G. left. rewrite Eg in G. split; congruence.
  - intros u _ X. rewrite Eg in X. exact X.
  - intros x Hx _. left. rewrite El. exact Hx.
  - intros k e u i X. rewrite X in Hh. discriminate.
  - exact Hd.
  - intros op X. exfalso. exact (Hpb op X).
  - intros _ x l X. rewrite El. eauto.
  - exact Hq.
Qed.

(* _dispatch_lane_class_barrier_complete: with no target it commits only when DIRTY is clear and leaves it clear; with a
   target the lane ends up enqueued *)
Lemma BC_class_facts W s t k e new ret : Inv W s -> pcs s t = BC_class k e ->
  class_barrier_complete_loop 0 0 0 (if e =? 0 then 0 else 1) (IN_BARRIER + W * INTERVAL) (st s) e = Commit new ret ->
  (e = 0 -> dirty s = 0 /\ forall s2, st s2 = new -> dirty s2 = 0) /\
  (e <> 0 -> changed (st s) new e = false -> 1 <= rootq s \/ tokh s <> None).
Proof.
  intros HI Hpc Hs. inv_pc HI t Hpc. destruct Hi as (Bm & He).
  pose proof HI as (HW & (r & G) & T). pose proof (g_wf _ _ _ G) as Wf. pose proof Wf as Wf'. unfold wfr in Wf'.
  destruct (g_bm _ _ _ G Bm) as (_ & Dw & U0 & P0).
  pose proof (g_wq _ _ _ G) as Hwq. rewrite Dw, U0, P0 in Hwq.
  pose proof (g_ib _ _ _ G) as Hib. rewrite Bm in Hib. pose proof (g_hi _ _ _ G) as Hhi.
  pose proof (g_enq _ _ _ G) as [Henq Hrq].
  destruct (unbar_enc r W Wf Hib ltac:(lia) ltac:(lia)) as [_ Wu].
  rewrite (g_enc _ _ _ G) in Hs. unfold IN_BARRIER, INTERVAL in Hs.
  rewrite (dirty_st s r (g_enc _ _ _ G) Wf).
  destruct He as [->| ->].
  - split; [|intros X; contradiction]. intros _.
    cbn [Z.eqb] in Hs. rewrite class_complete_none_fields in Hs by (assumption || lia).
    destruct (Z.eqb_spec (f_d r) 1) as [Hd|Hd]; [discriminate|].
    cbv zeta in Hs. rewrite merged_zero in Hs by exact Wu. injection Hs as <- _.
    split; [lia|]. intros s2 E2. erewrite (dirty_st s2 _ E2); [fcbn; lia|]. unfold released, unbar. fcbn. wf_mk.
  - split; [intros X; discriminate|]. intros _ Hc.
    change (ENQUEUED =? 0) with false in Hs. cbv iota in Hs. unfold ENQUEUED in *.
    rewrite class_complete_enq_fields in Hs by (assumption || lia).
    cbv zeta in Hs. rewrite merged_zero in Hs by exact Wu.
    pose proof (g_em _ _ _ G) as Hem. rewrite Hem in Hs. rewrite Z.eqb_refl, andb_true_r in Hs. injection Hs as <- _.
    rewrite (g_enc _ _ _ G) in Hc.
    destruct (Z.eqb_spec (f_enq r) 0) as [E0|E0].
    + exfalso. assert (Wn : wfr (set_enq1 (released (unbar r W)))) by (unfold set_enq1, released, unbar; fcbn; wf_mk).
      unfold changed in Hc. rewrite changed_enq_f in Hc by assumption. fcbn_in Hc. rewrite E0 in Hc. discriminate.
    + destruct (tokh s); [right; discriminate|left; lia].
Qed.

(* ---- the lock owner takes the head off the list ---- *)
Lemma pop_step3 W s s' t p' x l : Inv W s -> Inv3 s -> t <> 0 -> owns (pcs s t) = true -> pcs s' = upd (pcs s) t p' ->
  lst s = x :: l -> lst s' = l -> woken s' = woken s -> lockh s' = lockh s ->
  ((i_wt x = 0 /\ grant s' = grant s) \/
   (i_wt x <> 0 /\ grant s' = upd (grant s) (i_wt x) GReader /\ waker p' (i_wt x) = true) \/
   (i_wt x <> 0 /\ grant s' = grant s /\ exists k e, p' = DBW_xfer k e (i_wt x) (i_id x))) ->
  (past_look p' = true -> l = []) -> gives_up p' = false -> (forall u, waker (pcs s t) u = false) ->
  wait_item p' = wait_item (pcs s t) -> hand (pcs s t) = None -> (forall op, p' <> W_popb op) -> qos_ok p' -> Inv3 s'.
Proof.
  intros HI I T0 Ow Ep El El' Ew Elk Hc Hpl Hgu Hwk Hwi Hh Hpb Hq.
  destruct (owner_facts W s t HI Ow) as (L & _ & _).
  assert (Gs : forall u, grant s' u = grant s u \/ (u = i_wt x /\ i_wt x <> 0 /\ grant s' u = GReader /\ waker p' u = true)).
  { intros u. destruct Hc as [(_ & ->)|[(N & -> & Wk)|(_ & -> & _)]]; auto. unfold upd. destruct (Z.eqb_spec u (i_wt x)) as [->|]; auto. }
  apply (master s s' t p' I T0 Ep).
  - intros _. right; right; right; left. rewrite Elk, L. discriminate.
  - intros X NE. rewrite El' in NE. exfalso. apply NE. exact (Hpl X).
  - intros (u & Ne & X). exfalso. exact (other_owner_absurd W s t u HI Ow Ne (past_look_owns _ X)).
  - intros X. congruence.
  - intros (u & Ne & X). exfalso. exact (other_owner_absurd W s t u HI Ow Ne (gives_up_owns _ X)).
  - intros u X. destruct (Gs u) as [E|(_ & _ & _ & Wk)]; [left; rewrite <- E; exact X|right; left; exact Wk].
  - intros u X. left. rewrite Ew. exact X.
  - intros u X. rewrite Hwk in X. discriminate.
  - intros i b X G. left. split; [congruence|]. destruct (Gs t) as [E|(_ & _ & E & _)]; congruence.
  - intros u _ G. destruct (Gs u) as [E|(_ & _ & E & _)]; congruence.
  - intros x0 Hx0 N0. rewrite El in Hx0. destruct Hx0 as [<-|Hx0]; [|left; rewrite El'; exact Hx0].
    destruct Hc as [(Z0 & _)|[(_ & E & _)|(_ & _ & k & e & E)]]; [contradiction| |right; right; exists k, e; exact E].
    right; left. rewrite E, upd_same. discriminate.
  - intros k e u i X. rewrite X in Hh. discriminate.
  - intros _. left. rewrite Elk, L. discriminate.
  - intros op X. exfalso. exact (Hpb op X).
  - intros (u & op & Ne & X). exfalso. apply (other_owner_absurd W s t u HI Ow Ne). rewrite X. reflexivity.
  - exact Hq.
Qed.

(* ---- a wake-up is delivered ---- *)
Lemma wake_step3 s s' t p' u : Inv3 s -> t <> 0 -> pcs s' = upd (pcs s) t p' ->
  lst s' = lst s -> rootq s' = rootq s -> tokh s' = tokh s -> holders s' = holders s -> rq s' = rq s -> lockh s' = lockh s ->
  grant s' = grant s -> st s' = st s -> woken s' = upd (woken s) u true ->
  (forall v, waker (pcs s t) v = true -> v = u) ->
  (past_look p' = true -> past_look (pcs s t) = true \/ lst s = []) -> gives_up p' = false -> pusher (pcs s t) = false ->
  wait_item p' = wait_item (pcs s t) -> hand (pcs s t) = None -> (forall op, p' <> W_popb op) -> qos_ok p' -> Inv3 s'.
Proof.
  intros I T0 Ep E1 E2 E3 E4 E5 E6 E7 E9 E8 Hwk Hpl Hgu Hpu Hwi Hh Hpb Hq.
  assert (EU : U s' = U s) by (apply same3_U; assumption).
  assert (ED : dirty s' = dirty s) by (apply dirty_same; exact E9).
  assert (Po := po s s' t p' Ep).
  assert (PU : (exists v, pusher (pcs s v) = true) -> exists v, pusher (pcs s' v) = true).
  { intros (v & Hv). exists v. rewrite Po; [exact Hv|]. intros ->. congruence. }
  apply (master s s' t p' I T0 Ep).
  - rewrite E1. intros NE. destruct (k_resp s I NE) as [X|[X|[X|[X|X]]]]; unfold resp; rewrite ?E2, ?E3, ?EU, ?E6; auto.
    right; right; right; right. auto.
  - intros X NE. rewrite E1 in NE. rewrite ED. destruct (Hpl X) as [Y|Y]; [|contradiction].
    destruct (k_look s I t Y NE) as [Z1|Z1]; auto.
  - intros _. rewrite ED, E1. split; [auto|]. split; [intros X; congruence|auto].
  - intros X. congruence.
  - intros _. rewrite ED, EU. split; [auto|lia].
  - intros v X. left. rewrite E7 in X. exact X.
  - intros v X. left. rewrite E8. unfold upd. destruct (v =? u); auto.
  - intros v X. right; left. rewrite (Hwk v X), E8. apply upd_same.
  - intros i b X G. left. rewrite E7 in G. split; congruence.
  - intros v _ X. rewrite E7 in X. exact X.
  - intros x Hx _. left. rewrite E1. exact Hx.
  - intros k e v i X. rewrite X in Hh. discriminate.
  - rewrite ED, E6, E2, E3, EU. exact (k_dirty s I).
  - intros op X. exfalso. exact (Hpb op X).
  - intros _ x l X. rewrite E1. eauto.
  - exact Hq.
Qed.

(* the final rmw loop of _dispatch_lane_drain_non_barriers, when it gives the lock back: with nothing left to hand out it
   commits only with DIRTY clear and leaves it clear; with a next item, readers are still in flight *)
Lemma DN_fin_facts W s t k ow nx new ret : Inv W s -> valid_tid t -> pcs s t = DN_fin k ow nx ->
  let owned := if nx =? 2 then f_dispatch_queue_adjust_owned 0 (ow * INTERVAL) 1 W 1 else ow * INTERVAL in
  drain_non_barriers_loop 0 (if nx =? 0 then 0 else 1) 0 (st s) owned t W = Commit new ret ->
  changed (u64 (st s - owned)) new IN_BARRIER = false ->
  (nx = 0 -> dirty s = 0 /\ forall s2, st s2 = new -> dirty s2 = 0) /\ (nx <> 0 -> 1 <= U s).
Proof.
  intros HI Vt Hpc owned Hs Hch. subst owned.
  inv_pc HI t Hpc. destruct Hi as (Bm & Dw & O & P0 & Hnx & Hn1 & Hn2).
  pose proof HI as (HW & (r & G) & T). pose proof (g_wf _ _ _ G) as Wf. pose proof Wf as Wf'. unfold wfr in Wf'.
  rewrite (pb_of W s r G) in P0.
  pose proof (g_wq _ _ _ G) as Hwq. rewrite Dw, P0 in Hwq. pose proof (CLane_proofs.U_nonneg s) as Un.
  pose proof (g_bound _ _ _ G) as Hbd. rewrite Dw in Hbd.
  pose proof (g_ib _ _ _ G) as Hib. rewrite Bm in Hib. pose proof (g_hi _ _ _ G) as Hhi.
  rewrite (dirty_st s r (g_enc _ _ _ G) Wf).
  rewrite (g_enc _ _ _ G) in Hs, Hch. unfold INTERVAL in Hs, Hch.
  set (pbn := if nx =? 2 then 1 else 0) in *.
  set (r0 := mk (f_owner r) (f_tr r) (f_enq r) (f_mq r) (f_ov r) (f_role r) (f_em r) (f_d r) pbn
                (4096 - W + U s + (W - 1) * pbn) (f_ib r) (f_hi r)).
  assert (W0 : wfr r0) by (subst r0 pbn; destruct (nx =? 2); wf_mk).
  pose proof W0 as W0'. unfold wfr in W0'.
  assert (E0 : u64 (enc r - (if nx =? 2 then f_dispatch_queue_adjust_owned 0 (ow * 2199023255552) 1 W 1 else ow * 2199023255552)) = enc r0).
  { subst r0 pbn. destruct (Z.eqb_spec nx 2) as [E2|E2].
    - rewrite sub_adjusted by (assumption || lia). f_equal. unfold mk. f_equal; lia.
    - replace (enc r - ow * 2199023255552) with (enc r + (- ow) * 2199023255552) by lia.
      rewrite add_wq by (assumption || lia). unfold set_wq. f_equal. unfold mk. f_equal; lia. }
  rewrite (drain_nb_fields r r0) in Hs; try assumption; try lia;
    try (subst r0; cbn [mk f_ib f_hi f_pb f_wq]; lia); try (unfold valid_tid in Vt; lia).
  cbv zeta in Hs. rewrite E0 in Hch.
  set (r2 := mk 0 0 (f_enq r0) (f_mq r0) 0 (f_role r0) (f_em r0) 0 (f_pb r0) (f_wq r0) 0 0) in *.
  assert (W2 : wfr r2) by (subst r2 r0 pbn; destruct (nx =? 2); wf_mk).
  assert (R0f : f_ib r0 = 0 /\ f_pb r0 = pbn /\ f_wq r0 = 4096 - W + U s + (W - 1) * pbn)
    by (subst r0; cbn [mk f_ib f_hi f_pb f_wq f_enq f_role f_em]; repeat split; auto).
  destruct R0f as (F1 & F3 & F4).
  assert (Pbn : pbn = 0 \/ pbn = 1) by (subst pbn; destruct (nx =? 2); auto).
  destruct (Z.eqb_spec nx 0) as [N0|N0].
  - split; [|intros X; contradiction]. intros _.
    change (nz 0) with false in Hs. cbv iota in Hs.
    destruct (Z.eqb_spec (f_d r) 1) as [Hd|Hd]; [discriminate|]. injection Hs as <- _.
    split; [lia|]. intros s2 E2. rewrite (dirty_st s2 r2 E2 W2). reflexivity.
  - split; [intros X; contradiction|]. intros _.
    cbv iota in Hs. change (nz 1) with true in Hs. cbv iota in Hs.
    unfold tl_rec, tl_take in Hs. subst r2. fcbn_in Hs. rewrite F3, F4 in Hs.
    assert (Take : (if pbn =? 1 then 4096 - W + U s + (W - 1) * pbn + 1 =? 4096 else 4096 - W + U s + (W - 1) * pbn + W =? 4096)
                   = (U s =? 0)).
    { destruct Pbn as [->| ->]; cbn [Z.eqb].
      - destruct (Z.eqb_spec (4096 - W + U s + (W - 1) * 0 + W) 4096); destruct (Z.eqb_spec (U s) 0); try reflexivity; lia.
      - destruct (Z.eqb_spec (4096 - W + U s + (W - 1) * 1 + 1) 4096); destruct (Z.eqb_spec (U s) 0); try reflexivity; lia. }
    rewrite Take in Hs.
    destruct (Z.eqb_spec (U s) 0) as [U0|U0]; [|lia]. exfalso.
    set (rl := locked_bar (mk 0 0 (f_enq r0) (f_mq r0) 0 (f_role r0) (f_em r0) 1 pbn (4096 - W + U s + (W - 1) * pbn) 0 0) t) in *.
    assert (Wl : wfr rl) by (subst rl; unfold locked_bar; fcbn; unfold valid_tid in Vt; destruct Pbn as [->| ->]; wf_mk).
    injection Hs as <- _. unfold changed, IN_BARRIER in Hch. rewrite changed_ib_f in Hch by assumption.
    subst rl. fcbn_in Hch. rewrite F1 in Hch. discriminate.
Qed.

(* ---- an item is pushed ---- *)
Lemma push_step3 s s' t p' x : Inv3 s -> t <> 0 -> pcs s' = upd (pcs s) t p' ->
  lst s' = lst s ++ [x] -> rootq s' = rootq s -> tokh s' = tokh s -> holders s' = holders s -> rq s' = rq s -> lockh s' = lockh s ->
  grant s' = grant s -> woken s' = woken s -> st s' = st s ->
  pusher (pcs s t) = false -> (lst s = [] -> pusher p' = true) -> past_look p' = false -> gives_up p' = false ->
  (forall u, waker (pcs s t) u = false) -> wait_item (pcs s t) = None ->
  (wait_item p' = None \/ exists b, wait_item p' = Some (i_id x, b) /\ i_wt x = t) -> hand (pcs s t) = None ->
  (forall op, p' <> W_popb op) -> qos_ok p' -> Inv3 s'.
Proof.
  intros I T0 Ep E1 E2 E3 E4 E5 E6 E7 E8 E9 Hpu Hnew Hpl Hgu Hwk Hw0 Hw1 Hh Hpb Hq.
  assert (EU : U s' = U s) by (apply same3_U; assumption).
  assert (ED : dirty s' = dirty s) by (apply dirty_same; exact E9).
  assert (Po := po s s' t p' Ep). assert (Pt := pt s s' t p' Ep).
  assert (PU : (exists v, pusher (pcs s v) = true) -> exists v, pusher (pcs s' v) = true).
  { intros (v & Hv). exists v. rewrite Po; [exact Hv|]. intros ->. congruence. }
  apply (master s s' t p' I T0 Ep).
  - intros _. destruct (lst s) as [|x0 l0] eqn:El.
    + right; right; right; right. exists t. rewrite Pt. auto.
    + assert (NE : lst s <> []) by (rewrite El; discriminate). rewrite <- El in *.
      destruct (k_resp s I NE) as [X|[X|[X|[X|X]]]]; unfold resp; rewrite ?E2, ?E3, ?EU, ?E6; auto.
      right; right; right; right. auto.
  - intros X. congruence.
  - intros _. rewrite ED. split; [auto|]. split; [intros X; congruence|]. intros _.
    destruct (lst s) eqn:El; [right; left; auto|left; discriminate].
  - intros X. congruence.
  - intros _. rewrite ED, EU. split; [auto|lia].
  - intros v X. left. rewrite E7 in X. exact X.
  - intros v X. left. rewrite E8. exact X.
  - intros v X. rewrite Hwk in X. discriminate.
  - intros i b X G. destruct Hw1 as [Y|(b0 & Y & Z)]; [congruence|]. right. exists x. rewrite E1. split; [apply in_or_app; right; left; reflexivity|].
    split; [congruence|exact Z].
  - intros v _ X. rewrite E7 in X. exact X.
  - intros x0 Hx0 _. left. rewrite E1. apply in_or_app. left. exact Hx0.
  - intros k e v i X. rewrite X in Hh. discriminate.
  - rewrite ED, E6, E2, E3, EU. exact (k_dirty s I).
  - intros op X. exfalso. exact (Hpb op X).
  - intros _ x0 l X. rewrite E1, X. cbn. eauto.
  - exact Hq.
Qed.

(* _dispatch_queue_wakeup: MAKE_DIRTY leaves DIRTY; when it does not enqueue the lane, the lane is enqueued already or locked *)
Lemma A_wake_facts W s q fl new ret : Inv W s -> 0 <= q < 8 -> (fl = 1 \/ fl = 3) ->
  wakeup_loop 0 q fl 1 (st s) ENQUEUED = Commit new ret ->
  (fl = 3 -> forall s2, st s2 = new -> dirty s2 = 1) /\ (fl = 1 -> forall s2, st s2 = new -> dirty s2 = dirty s) /\
  (changed (st s) new ENQUEUED = false -> lockh s <> None \/ 1 <= rootq s \/ tokh s <> None).
Proof.
  intros HI Q Hfl Hs.
  pose proof HI as (HW & (r & G) & T). pose proof (g_wf _ _ _ G) as Wf. pose proof Wf as Wf'. unfold wfr in Wf'.
  pose proof (g_enq _ _ _ G) as [Henq Hrq].
  pose proof (g_hi _ _ _ G) as Hhi. pose proof (g_em _ _ _ G) as Hem. pose proof (g_role _ _ _ G) as Hro.
  pose proof (g_owner _ _ _ G) as Hown.
  rewrite (dirty_st s r (g_enc _ _ _ G) Wf). rewrite (g_enc _ _ _ G) in *.
  pose proof (merged_wf r q Wf Q) as Wm. pose proof Wm as Wm'. unfold wfr in Wm'.
  assert (Same : f_owner (merged r q) = f_owner r /\ f_tr (merged r q) = f_tr r /\ f_enq (merged r q) = f_enq r /\
                 f_em (merged r q) = f_em r /\ f_hi (merged r q) = f_hi r /\ f_d (merged r q) = f_d r /\
                 f_pb (merged r q) = f_pb r /\ f_wq (merged r q) = f_wq r /\ f_ib (merged r q) = f_ib r /\
                 f_role (merged r q) = f_role r).
  { unfold merged. destruct (f_mq r <? q); cbn; repeat split; reflexivity. }
  destruct Same as (S1 & S2 & S3 & S4 & S5 & S6 & S7 & S8 & S9 & S10).
  assert (NC : can_enqueue r = false -> lockh s <> None \/ 1 <= rootq s \/ tokh s <> None).
  { unfold can_enqueue. rewrite Hhi, Hem, Hro. cbn [Z.eqb Z.leb Z.compare andb orb]. rewrite andb_true_r, orb_false_r.
    intros C. apply andb_false_iff in C. destruct C as [C|C]; apply Z.eqb_neq in C.
    - destruct (tokh s); [right; right; discriminate|right; left; lia].
    - left. intros X. rewrite X in Hown. contradiction. }
  assert (Ch : forall d', (d' = 0 \/ d' = 1) ->
     let r' := mk (f_owner r) (f_tr r) (if can_enqueue r then 1 else f_enq r) (f_mq (merged r q)) (f_ov (merged r q)) (f_role r)
                  (f_em r) d' (f_pb r) (f_wq r) (f_ib r) (f_hi r) in
     wfr r' /\ (changed (enc r) (enc r') ENQUEUED = false -> can_enqueue r = false)).
  { intros d' Hd' r'. assert (Wr' : wfr r') by (subst r'; destruct (can_enqueue r); wf_mk). split; [exact Wr'|].
    unfold changed, ENQUEUED. rewrite changed_enq_f by assumption. subst r'. fcbn. destruct (can_enqueue r) eqn:C; [|reflexivity].
    unfold can_enqueue in C. rewrite !andb_true_iff in C. destruct C as [[[_ C] _] _]. apply Z.eqb_eq in C. rewrite C. discriminate. }
  destruct Hfl as [-> | ->].
  - rewrite wakeup_nodirty_fields in Hs by (assumption || reflexivity). cbv zeta in Hs.
    rewrite S1, S2, S3, S4, S5, S6, S7, S8, S9, S10 in Hs.
    match type of Hs with (if ?c then _ else _) = _ => destruct c; [discriminate|] end. injection Hs as <- _.
    destruct (Ch (f_d r) ltac:(lia)) as [Wr' Hc]. cbv zeta in Hc.
    split; [intros X; discriminate|]. split; [|intros X; exact (NC (Hc X))].
    intros _ s2 E2. rewrite (dirty_st s2 _ E2 Wr'). reflexivity.
  - rewrite wakeup_fields in Hs by (assumption || reflexivity). cbv zeta in Hs.
    rewrite S1, S2, S3, S4, S5, S7, S8, S9, S10 in Hs. injection Hs as <- _.
    destruct (Ch 1 ltac:(lia)) as [Wr' Hc]. cbv zeta in Hc.
    split; [|split; [intros X; discriminate|intros X; exact (NC (Hc X))]].
    intros _ s2 E2. rewrite (dirty_st s2 _ E2 Wr'). reflexivity.
Qed.

Lemma A_wake_dirty_commits W s q : Inv W s -> 0 <= q < 8 -> exists new ret, wakeup_loop 0 q 3 1 (st s) ENQUEUED = Commit new ret.
Proof.
  intros (HW & (r & G) & T) Q. rewrite (g_enc _ _ _ G). unfold ENQUEUED.
  rewrite wakeup_fields by (try apply (g_wf _ _ _ G); assumption || reflexivity). cbv zeta. eauto.
Qed.

(* _dispatch_lane_push_waiter: when the waiter does not take the lock itself it leaves DIRTY, and the queue is locked or has
   readers in flight *)
Lemma SW_rmw_facts W s t new ret : Inv W s -> valid_tid t ->
  push_waiter_loop 0 0 0 (st s) (u64 (u64 (s32 (W - 1)) * INTERVAL)) (Z.lor (Z.lor t FULL_BIT) IN_BARRIER) = Commit new ret ->
  changed (st s) new IN_BARRIER = false ->
  (forall s2, st s2 = new -> dirty s2 = 1) /\ (lockh s <> None \/ 1 <= U s).
Proof.
  intros HI Vt Hs Hch.
  pose proof HI as (HW & (r & G) & T). pose proof (g_wf _ _ _ G) as Wf. pose proof Wf as Wf'. unfold wfr in Wf'.
  pose proof (g_role _ _ _ G) as Hro. pose proof (g_owner _ _ _ G) as Hown. pose proof (g_hi _ _ _ G) as Hhi.
  pose proof (g_ib _ _ _ G) as Hib. pose proof (g_wq _ _ _ G) as Hwq. pose proof (g_dw _ _ _ G) as [D0 DN].
  rewrite (g_enc _ _ _ G) in Hs, Hch. unfold INTERVAL, FULL_BIT, IN_BARRIER in Hs.
  rewrite push_waiter_fields in Hs by (assumption || lia || (unfold valid_tid in Vt; lia)).
  cbv zeta in Hs. rewrite merged_zero in Hs by exact Wf. injection Hs as <- _.
  destruct (pw_take r W) eqn:PT.
  - exfalso. unfold pw_take in PT. rewrite !andb_true_iff in PT. destruct PT as [[[[P1 P2] P3] P4] P5]. apply Z.eqb_eq in P3.
    assert (Wn : wfr (mk t 0 (f_enq r) (f_mq r) 0 (f_role r) (f_em r) 0 0 4096 1 0)) by (unfold valid_tid in Vt; wf_mk).
    unfold changed, IN_BARRIER in Hch. rewrite changed_ib_f in Hch by assumption. fcbn_in Hch. rewrite P3 in Hch. discriminate.
  - assert (Wn : wfr (set_d r 1)) by (unfold set_d; wf_mk).
    split; [intros s2 E2; rewrite (dirty_st s2 _ E2 Wn); reflexivity|].
    destruct (lockh s) as [o|] eqn:L; [left; discriminate|right]. destruct (DN eq_refl) as [Dw0 Bm0].
    rewrite Bm0 in Hib. rewrite Dw0 in Hwq. unfold pw_take in PT. rewrite Hown, Hhi, Hib in PT. cbn [Z.eqb andb] in PT.
    pose proof (CLane_proofs.U_nonneg s) as Un.
    apply andb_false_iff in PT. destruct PT as [PT|PT].
    + apply Z.ltb_ge in PT. assert (f_pb r = 0 \/ f_pb r = 1) as [P|P] by lia; rewrite P in Hwq; lia.
    + apply orb_false_iff in PT. destruct PT as [P1 P2]. apply Z.eqb_neq in P1. apply Z.ltb_ge in P2.
      assert (P0 : f_pb r = 0) by lia. rewrite P0 in Hwq. lia.
Qed.

Lemma SW_rmw_take W s t new ret : Inv W s -> valid_tid t ->
  push_waiter_loop 0 0 0 (st s) (u64 (u64 (s32 (W - 1)) * INTERVAL)) (Z.lor (Z.lor t FULL_BIT) IN_BARRIER) = Commit new ret ->
  changed (st s) new IN_BARRIER = true -> lockh s = None.
Proof.
  intros HI Vt Hs Hch.
  pose proof HI as (HW & (r & G) & T). pose proof (g_wf _ _ _ G) as Wf. pose proof Wf as Wf'. unfold wfr in Wf'.
  pose proof (g_role _ _ _ G) as Hro. pose proof (g_owner _ _ _ G) as Hown.
  rewrite (g_enc _ _ _ G) in Hs, Hch. unfold INTERVAL, FULL_BIT, IN_BARRIER in Hs.
  rewrite push_waiter_fields in Hs by (assumption || lia || (unfold valid_tid in Vt; lia)).
  cbv zeta in Hs. rewrite merged_zero in Hs by exact Wf. injection Hs as <- _.
  destruct (pw_take r W) eqn:PT.
  - unfold pw_take in PT. rewrite !andb_true_iff in PT. destruct PT as [[[[P1 _] _] _] _]. apply Z.eqb_eq in P1.
    destruct (lockh s) as [o|] eqn:L; [|reflexivity]. pose proof (g_ownv _ _ _ G o L) as V. unfold valid_tid in V. lia.
  - exfalso. assert (Wn : wfr (set_d r 1)) by (unfold set_d; wf_mk).
    unfold changed, IN_BARRIER in Hch. rewrite changed_ib_f in Hch by assumption. fcbn_in Hch. rewrite Z.eqb_refl in Hch. discriminate.
Qed.

(* ---- a woken waiter consumes its grant ---- *)
Lemma consume_step3 s s' t p' : Inv3 s -> t <> 0 -> pcs s' = upd (pcs s) t p' ->
  lst s' = lst s -> rootq s' = rootq s -> tokh s' = tokh s -> holders s' = holders s -> rq s' = rq s -> lockh s' = lockh s ->
  st s' = st s -> grant s' = upd (grant s) t GNone -> woken s' = upd (woken s) t false ->
  pusher (pcs s t) = false -> (forall u, waker (pcs s t) u = false) -> hand (pcs s t) = None ->
  past_look p' = false -> gives_up p' = false -> wait_item p' = None -> (forall op, p' <> W_popb op) -> qos_ok p' -> Inv3 s'.
Proof.
  intros I T0 Ep E1 E2 E3 E4 E5 E6 E9 E7 E8 Hpu Hwk Hh Hpl Hgu Hwi Hpb Hq.
  assert (EU : U s' = U s) by (apply same3_U; assumption).
  assert (ED : dirty s' = dirty s) by (apply dirty_same; exact E9).
  assert (Po := po s s' t p' Ep).
  assert (PU : (exists v, pusher (pcs s v) = true) -> exists v, pusher (pcs s' v) = true).
  { intros (v & Hv). exists v. rewrite Po; [exact Hv|]. intros ->. congruence. }
  apply (master s s' t p' I T0 Ep).
  - rewrite E1. intros NE. destruct (k_resp s I NE) as [X|[X|[X|[X|X]]]]; unfold resp; rewrite ?E2, ?E3, ?EU, ?E6; auto.
    right; right; right; right. auto.
  - intros X. congruence.
  - intros _. rewrite ED, E1. split; [auto|]. split; [intros X; congruence|auto].
  - intros X. congruence.
  - intros _. rewrite ED, EU. split; [auto|lia].
  - intros v X. left. rewrite E7 in X. unfold upd in X. destruct (v =? t); [contradiction|exact X].
  - intros v X. rewrite E7, E8. unfold upd. destruct (v =? t); auto.
  - intros v X. rewrite Hwk in X. discriminate.
  - intros i b X. congruence.
  - intros v Ne X. rewrite E7, upd_other in X by exact Ne. exact X.
  - intros x Hx _. left. rewrite E1. exact Hx.
  - intros k e v i X. rewrite X in Hh. discriminate.
  - rewrite ED, E6, E2, E3, EU. exact (k_dirty s I).
  - intros op X. exfalso. exact (Hpb op X).
  - intros _ x l X. rewrite E1. eauto.
  - exact Hq.
Qed.

(* _dispatch_queue_drain_try_lock failing (it returns 0 and drops the enqueued bit): the queue is locked or readers are in
   flight; DIRTY is not touched *)
Lemma W_lock_facts W s t floor new : Inv W s -> valid_tid t -> pcs s t = W_lock floor ->
  f_dispatch_queue_drain_try_lock 0 0 W t floor (st s) 0 = Commit new 0 ->
  (lockh s <> None \/ 1 <= U s) /\ forall s2, st s2 = new -> dirty s2 = dirty s.
Proof.
  intros HI Vt Hpc Hs.
  pose proof HI as (HW & (r & G) & T). pose proof (g_wf _ _ _ G) as Wf. pose proof Wf as Wf'. unfold wfr in Wf'.
  pose proof (g_enq _ _ _ G) as [Henq Hrq].
  destruct (T t) as [_ _ T3 _ _ _]. rewrite Hpc in T3. cbn [toks] in T3.
  assert (Tk : tokh s = Some t) by (apply T3; reflexivity). rewrite Tk in Henq.
  assert (E1 : f_enq r = 1) by lia.
  pose proof (g_dw _ _ _ G) as [D0 DN]. pose proof (g_wq _ _ _ G) as Hwq. pose proof (CLane_proofs.U_nonneg s) as Un.
  pose proof (g_owner _ _ _ G) as Hown. pose proof (g_ib _ _ _ G) as Hib. pose proof (g_hi _ _ _ G) as Hhi. pose proof (g_em _ _ _ G) as Hem.
  rewrite (dirty_st s r (g_enc _ _ _ G) Wf).
  rewrite (g_enc _ _ _ G) in Hs. rewrite lock_fields_w in Hs by (assumption || lia || (unfold valid_tid in Vt; lia)).
  destruct (lock_free r) eqn:LF.
  - exfalso. destruct ((f_role r mod 2 =? 1) && (floor <? f_mq r)); [discriminate|].
    unfold lock_free in LF. rewrite !andb_true_iff in LF. destruct LF as [[[[L1 L2] L3] L4] L5].
    apply Z.eqb_eq in L1, L2, L4, L5. apply Z.ltb_lt in L3.
    assert (Ow : forall a b c d, Commit a b = Commit c d -> b = d) by (intros; congruence). apply Ow in Hs. clear Ow.
    rewrite E1 in Hs. unfold lock_ib in Hs. destruct ((f_pb r =? 1) || (f_wq r + W - 1 <? 4096)); lia.
  - assert (Nw : forall a b c d, Commit a b = Commit c d -> a = c) by (intros; congruence). apply Nw in Hs. clear Nw. subst new.
    set (r' := mk (f_owner r) (f_tr r) (1 - f_enq r) (f_mq r) (f_ov r) (f_role r) (f_em r) (f_d r) (f_pb r) (f_wq r) (f_ib r) (f_hi r)).
    assert (Wn : wfr r') by (subst r'; wf_mk).
    split; [|intros s2 E2; rewrite (dirty_st s2 r' E2 Wn); reflexivity].
    destruct (lockh s) as [o|] eqn:L; [left; discriminate|right]. destruct (DN eq_refl) as [Dw0 Bm0].
    rewrite Bm0 in Hib. rewrite Dw0 in Hwq. unfold lock_free in LF. rewrite Hown, Hem, Hib, Hhi in LF. cbn [Z.eqb andb] in LF.
    rewrite ?andb_true_r in LF. apply Z.ltb_ge in LF.
    assert (f_pb r = 0 \/ f_pb r = 1) as [P|P] by lia; rewrite P in Hwq; lia.
Qed.

(* the drainer finds no room for the sync waiter at the head only when readers are in flight *)
Lemma no_room_U W s t op : Inv W s -> pcs s t = W_head op 0 ->
  nz (f_dq_state_has_sync_width_room (st s) W) = false -> 1 <= U s.
Proof.
  intros HI Hpc Hr. inv_pc HI t Hpc. destruct Hi as (_ & Hi).
  pose proof HI as (HW & (r & G) & T). pose proof (g_wf _ _ _ G) as Wf. pose proof Wf as Wf'. unfold wfr in Wf'.
  pose proof (g_wq _ _ _ G) as Hwq. pose proof (g_ib _ _ _ G) as Hib. pose proof (g_hi _ _ _ G) as Hhi.
  pose proof (CLane_proofs.U_nonneg s) as Un. pose proof (g_dw _ _ _ G) as [D0 _].
  rewrite (g_enc _ _ _ G), has_room_f in Hr by (assumption || lia).
  destruct Hi as [(_ & X)|(Bm & Dw & _)]; [unfold IN_BARRIER in X; discriminate|].
  rewrite Bm in Hib. rewrite Hhi, Hib in Hr. cbn [Z.eqb andb] in Hr. apply Z.ltb_ge in Hr.
  assert (Dw0 : dw s = 0) by (unfold INTERVAL in Dw; lia). rewrite Dw0 in Hwq.
  assert (f_pb r = 0 \/ f_pb r = 1) as [P|P] by lia; rewrite P in Hwq; lia.
Qed.

(* _dispatch_queue_try_upgrade_full_width fails only when readers are in flight *)
Lemma W_upg_fail W s t op owned new ret : Inv W s -> pcs s t = W_upg op owned ->
  f_dispatch_queue_try_upgrade_full_width 0 owned W (st s) = Commit new ret -> nz ret = false -> 1 <= U s.
Proof.
  intros HI Hpc Hs Hr. inv_pc HI t Hpc. destruct Hi as (E & Bm & Ow & Pd & Hb).
  pose proof HI as (HW & (r & G) & T). pose proof (g_wf _ _ _ G) as Wf. pose proof Wf as Wf'. unfold wfr in Wf'.
  pose proof (dw_range W s r G) as Dr. rewrite (pb_of W s r G) in Pd.
  pose proof (g_wq _ _ _ G) as Hwq. pose proof (CLane_proofs.U_nonneg s) as Un. pose proof (g_bound _ _ _ G) as Hbd.
  pose proof (g_ib _ _ _ G) as Hib. rewrite Bm in Hib. pose proof (g_hi _ _ _ G) as Hhi.
  assert (Uq : upg_wq r (dw s) W = 4095 + U s).
  { unfold upg_wq. destruct (Z.eqb_spec (f_pb r) 1) as [P|P].
    - rewrite P in Hwq. rewrite (Pd P) in *. lia.
    - assert (P0 : f_pb r = 0) by lia. rewrite P0 in Hwq. lia. }
  rewrite (g_enc _ _ _ G) in Hs. subst owned. unfold INTERVAL in Hs.
  rewrite upgrade_fields in Hs by (assumption || lia). rewrite Uq in Hs.
  assert (Rt : forall a b c d, Commit a b = Commit c d -> b = d) by (intros; congruence). apply Rt in Hs. subst ret.
  destruct (Z.ltb_spec (4095 + U s) 4096); [discriminate|lia].
Qed.

(* the drainer cannot get width for the head item only when DIRTY is set or readers are in flight *)
Lemma W_acq_fail W s t op ret ex : Inv W s -> pcs s t = W_acq op ->
  f_dispatch_queue_try_acquire_async 0 (st s) = NoCommit ret ex -> dirty s = 1 \/ 1 <= U s.
Proof.
  intros HI Hpc Hs. inv_pc HI t Hpc. destruct Hi as (_ & Bm & Dw & P0 & _).
  pose proof HI as (HW & (r & G) & T). pose proof (g_wf _ _ _ G) as Wf. pose proof Wf as Wf'. unfold wfr in Wf'.
  rewrite (pb_of W s r G) in P0. pose proof (g_wq _ _ _ G) as Hwq. rewrite Dw, P0 in Hwq.
  pose proof (g_ib _ _ _ G) as Hib. rewrite Bm in Hib. pose proof (g_hi _ _ _ G) as Hhi.
  rewrite (dirty_st s r (g_enc _ _ _ G) Wf).
  rewrite (g_enc _ _ _ G), acquire_async_fields in Hs by exact Wf.
  destruct (async_ok r) eqn:A; [discriminate|]. unfold async_ok in A. rewrite Hhi, Hib, P0 in A. cbn [Z.eqb andb negb] in A.
  rewrite andb_true_r in A. apply andb_false_iff in A. destruct A as [A|A].
  - apply Z.ltb_ge in A. right. lia.
  - apply negb_false_iff, Z.eqb_eq in A. left. exact A.
Qed.

(* _dispatch_queue_drain_try_unlock commits only with DIRTY clear; when done it leaves it clear *)
Lemma W_unlock_facts W s t op done new ret : Inv W s -> pcs s t = W_unlock op done ->
  f_dispatch_queue_drain_try_unlock 0 op done (st s) = Commit new ret ->
  dirty s = 0 /\ (nz done = true -> forall s2, st s2 = new -> dirty s2 = 0).
Proof.
  intros HI Hpc Hs. inv_pc HI t Hpc. destruct Hi as (Hop & HpU).
  pose proof HI as (HW & (r & G) & T). pose proof (g_wf _ _ _ G) as Wf. pose proof Wf as Wf'. unfold wfr in Wf'.
  pose proof (g_enq _ _ _ G) as [Henq Hrq]. pose proof (g_hi _ _ _ G) as Hhi.
  pose proof (g_wq _ _ _ G) as Hwq. pose proof (g_ib _ _ _ G) as Hib. pose proof (CLane_proofs.U_nonneg s) as Un.
  pose proof (dw_range W s r G) as Dr.
  destruct (T t) as [_ _ T3 _ _ _]. rewrite Hpc in T3. cbn [toks] in T3.
  assert (Tk : tokh s = Some t) by (apply T3; reflexivity). rewrite Tk in Henq. assert (E1 : f_enq r = 1) by lia.
  assert (Sub : exists r0, wfr r0 /\ u64 (enc r - op) = enc r0 /\ f_d r0 = f_d r).
  { destruct Hop as (d & b & -> & Hd & [(-> & Bm & ->)|(-> & Bm & -> & Pd)]).
    - destruct (g_bm _ _ _ G Bm) as (_ & Dw & U0 & P0). rewrite Bm in Hib. rewrite Dw, U0, P0 in Hwq.
      exists (mk (f_owner r) (f_tr r) 0 (f_mq r) (f_ov r) (f_role r) (f_em r) (f_d r) (f_pb r) (4096 - W) 0 (f_hi r)).
      split; [wf_mk|]. split; [|reflexivity].
      rewrite !enc_linear. unfold mk, ENQUEUED, INTERVAL, IN_BARRIER. cbn [f_owner f_tr f_enq f_mq f_ov f_role f_em f_d f_pb f_wq f_ib f_hi].
      rewrite E1, Hib. rewrite u64_id'' by lia. lia.
    - rewrite Bm in Hib.
      exists (mk (f_owner r) (f_tr r) 0 (f_mq r) (f_ov r) (f_role r) (f_em r) (f_d r) (f_pb r) (f_wq r - dw s) 0 (f_hi r)).
      split; [wf_mk|]. split; [|reflexivity].
      rewrite !enc_linear. unfold mk, ENQUEUED, INTERVAL, IN_BARRIER. cbn [f_owner f_tr f_enq f_mq f_ov f_role f_em f_d f_pb f_wq f_ib f_hi].
      rewrite E1, Hib. rewrite u64_id'' by lia. lia. }
  destruct Sub as (r0 & W0 & E0 & F8). pose proof W0 as W0'. unfold wfr in W0'.
  rewrite (dirty_st s r (g_enc _ _ _ G) Wf).
  rewrite (g_enc _ _ _ G) in Hs. rewrite (unlock_fields_w r r0) in Hs by assumption.
  destruct (Z.eqb_spec (f_d r) 1) as [Hd|Hd]; [discriminate|].
  assert (Nw : forall a b c d, Commit a b = Commit c d -> a = c) by (intros; congruence). apply Nw in Hs. clear Nw. subst new.
  split; [lia|]. intros Dn s2 E2. rewrite Dn in E2.
  erewrite (dirty_st s2 _ E2); [fcbn; lia|wf_mk].
Qed.

(* ---- every step ---- *)
Ltac fld := gcbn; reflexivity.
Ltac side Hpc :=
  rewrite ?Hpc;
  repeat (match goal with
   | |- context [match ?l with [] => _ | _ :: _ => _ end] => destruct l eqn:?
   | |- context [if ?c then _ else _] => destruct c eqn:?
   | |- context [after ?k] => is_var k; destruct k
   | |- context [dn_cont _ _ _] => unfold dn_cont end);
  cbn [pusher past_look gives_up waker wait_item hand qos_ok ret_item after is_nil];
  intros; try discriminate; try reflexivity; try tauto; auto; try (right; apply is_nil_true; assumption).

Ltac fr3 t H3 T0 Hpc :=
  eapply (frame3 _ _ t _ H3 T0);
    [ unfold same3; gcbn; repeat split; reflexivity | gcbn; reflexivity | side Hpc | side Hpc | side Hpc | side Hpc | side Hpc
    | side Hpc | side Hpc | side Hpc ].
Ltac ok3 W t HI H3 T0 Hpc :=
  eapply (owner_keep W _ _ t _ HI H3 T0);
    [ rewrite Hpc; reflexivity | gcbn; reflexivity | gcbn; reflexivity | gcbn; reflexivity | gcbn; reflexivity | gcbn; reflexivity
    | side Hpc | side Hpc | side Hpc | side Hpc | side Hpc | side Hpc | side Hpc ].
Lemma gstep_preserves3 W s t s' : Inv W s -> Inv2 s -> Inv3 s -> valid_tid t -> gstep W s t = Some s' -> Inv3 s'.
Proof.
  intros HI H2 H3 Vt Hs. assert (HI' : Inv W s') by (eapply gstep_preserves; eassumption).
  assert (T0 : t <> 0) by (unfold valid_tid in Vt; lia).
  pose proof (k_qos s H3 t) as Q. pose proof Hs as Hs0.
  destruct (pcs s t) eqn:Hpc; unfold gstep in Hs; rewrite Hpc in Hs; cbn [qos_ok] in Q.
  all: lazy beta iota zeta in Hs; try discriminate Hs.
  all: try (solve [gcases Hs; subst s'; fr3 t H3 T0 Hpc]).
  all: try (solve [gcases Hs; subst s'; ok3 W t HI H3 T0 Hpc]).
  - (* S_rsv *) gcases Hs; subst s'; [|fr3 t H3 T0 Hpc]. pose proof (rsv_dirty W s t tl _ HI Hpc Hs0) as Hd.
    eapply (plain_step s _ t _ H3 T0); try fld; try (rewrite Hpc; reflexivity); try reflexivity; try (solve [side Hpc]).
    + intros _. right; right; left. unfold U. gcbn. cbn [length]. lia.
    + intros _. split; [intros X; rewrite Hd; exact X|]. split; [unfold U; gcbn; cbn [length]; lia|rewrite Hpc; discriminate].
    + intros _. right; right; right. unfold U. gcbn. cbn [length]. lia.
  - (* NBC *) destruct (NBC_facts W s t s' HI Vt Hpc Hs0) as [Fa Fb].
    pose proof HI as (_ & _ & T). destruct (T t) as [T1 _ _ _ _ _]. rewrite Hpc in T1. cbn [holds] in T1.
    assert (Hin : In t (holders s)) by (apply T1; auto).
    assert (UL : Z.of_nat (length (remove_z t (holders s))) = Z.of_nat (length (holders s)) - 1) by (apply remove_z_length; exact Hin).
    assert (U1 : 1 <= U s) by (unfold U; destruct (holders s); [destruct Hin|cbn [length]; lia]).
    gcases Hs; subst s'.
    + assert (LN : lockh s = None).
      { eapply (lock_taken W s _ t HI HI'); try fld; try (rewrite Hpc; reflexivity).
        - intros u Ne. gcbn. apply upd_other. exact Ne.
        - apply (nowait_grant W s t HI). rewrite Hpc. reflexivity. }
      eapply (plain_step s _ t _ H3 T0); try fld; try (rewrite Hpc; reflexivity); try reflexivity; try (solve [side Hpc]).
      * intros _. right; right; right; left. gcbn. discriminate.
      * intros (u & _ & X). exfalso. exact (free_no_owner W s u HI LN X).
      * intros _. left. gcbn. discriminate.
    + eapply (plain_step s _ t _ H3 T0); try fld; try (rewrite Hpc; reflexivity); try reflexivity; try (solve [side Hpc]).
      * intros _. right; left. gcbn. discriminate.
      * intros (u & _ & X). assert (LS : lockh s <> None) by (destruct (owner_facts W s u HI X) as (L & _); congruence).
        pose proof (Fa LS) as D1. split; [auto|]. split; [auto|]. rewrite Hpc. discriminate.
      * intros _. right; right; left. gcbn. discriminate.
    + assert (Key : lockh s <> None \/ 2 <= U s).
      { destruct (lockh s) eqn:L; [left; discriminate|right]. destruct (Z.eq_dec (U s) 1) as [E1|E1]; [|lia].
        pose proof (Fb eq_refl E1) as X. gcbn in X. congruence. }
      eapply (plain_step s _ t _ H3 T0); try fld; try (rewrite Hpc; reflexivity); try reflexivity; try (solve [side Hpc]).
      * intros _. destruct Key as [K|K]; [right; right; right; left; gcbn; exact K|]. right; right; left. unfold U in *. gcbn. lia.
      * intros (u & _ & X). assert (LS : lockh s <> None) by (destruct (owner_facts W s u HI X) as (L & _); congruence).
        pose proof (Fa LS) as D1. split; [auto|]. split; [auto|]. rewrite Hpc. discriminate.
      * intros _. destruct Key as [K|K]; [left; gcbn; exact K|]. right; right; right. unfold U in *. gcbn. lia.
  - (* X_rootpush *) gcases Hs; subst s'. pose proof HI as (_ & (r & G) & _). pose proof (g_enq _ _ _ G) as [_ Rq].
    eapply (plain_step s _ t _ H3 T0); try fld; try (rewrite Hpc; reflexivity); try (solve [side Hpc]).
    + intros _. left. gcbn. lia.
    + intros _. split; [intros X; rewrite <- X; apply dirty_same; reflexivity|]. split; [unfold U; gcbn; lia|rewrite Hpc; discriminate].
    + intros _. right; left. gcbn. lia.
  - (* B_acq *) gcases Hs; subst s'; [|fr3 t H3 T0 Hpc].
    assert (LN : lockh s = None).
    { eapply (lock_taken W s _ t HI HI'); try fld; try (rewrite Hpc; reflexivity).
      - intros u Ne. gcbn. apply upd_other. exact Ne.
      - apply (nowait_grant W s t HI). rewrite Hpc. reflexivity. }
    eapply (plain_step s _ t _ H3 T0); try fld; try (rewrite Hpc; reflexivity); try reflexivity; try (solve [side Hpc]).
    + intros _. right; right; right; left. gcbn. discriminate.
    + intros (u & _ & X). exfalso. exact (free_no_owner W s u HI LN X).
    + intros _. left. gcbn. discriminate.
  - (* BC_class *)
    assert (Ow : owns (pcs s t) = true) by (rewrite Hpc; reflexivity).
    assert (NoOth : (exists u, u <> t /\ owns (pcs s u) = true) -> False).
    { intros (u & Ne & X). exact (other_owner_absurd W s t u HI Ow Ne X). }
    match type of Hs with match ?c with _ => _ end = _ => destruct c as [new ret| | |] eqn:Hcl; try discriminate Hs end.
    2: { apply Some_inj in Hs. subst s'. fr3 t H3 T0 Hpc. }
    destruct (BC_class_facts W s t k enq new ret HI Hpc Hcl) as [F0 F1].
    gcases Hs; subst s'.
    + eapply (plain_step s _ t _ H3 T0); try fld; try (rewrite Hpc; reflexivity); try reflexivity; try (solve [side Hpc]).
      * intros _. right; left. gcbn. discriminate.
      * intros _. right; right; left. gcbn. discriminate.
    + eapply (plain_step s _ t _ H3 T0); try fld; try (rewrite Hpc; reflexivity); try reflexivity; try (solve [side Hpc]).
      * intros NE. destruct (Z.eq_dec enq 0) as [E0|E0].
        -- destruct (F0 E0) as [D0 _]. destruct (k_look s H3 t) as [X|(u & X)]; [rewrite Hpc; cbn; rewrite E0; reflexivity|exact NE|lia|].
           right; right; right; right. exists u. gcbn. rewrite upd_other; [exact X|]. intros ->. rewrite Hpc in X. discriminate.
        -- assert (Hch : changed (st s) new enq = false).
           { apply andb_false_iff in Hc. destruct Hc as [Hc|Hc]; [|exact Hc]. apply negb_false_iff, Z.eqb_eq in Hc. contradiction. }
           destruct (F1 E0 Hch) as [X|X]; [left; gcbn; exact X|right; left; gcbn; exact X].
      * intros D1. destruct (Z.eq_dec enq 0) as [E0|E0].
        -- destruct (F0 E0) as [_ D0]. rewrite D0 in D1 by fld. discriminate.
        -- assert (Hch : changed (st s) new enq = false).
           { apply andb_false_iff in Hc. destruct Hc as [Hc|Hc]; [|exact Hc]. apply negb_false_iff, Z.eqb_eq in Hc. contradiction. }
           destruct (F1 E0 Hch) as [X|X]; [right; left; gcbn; exact X|right; right; left; gcbn; exact X].
  - (* DBW_pop *) gcases Hs; subst s'. inv_pc HI t Hpc. destruct Hi as (_ & _ & Hb & Hw). unfold head_wt in Hw. rewrite Hl in Hw.
    eapply (pop_step3 W s _ t _ i l HI H3 T0); try fld; try (rewrite Hpc; reflexivity); try exact Hl; try (solve [side Hpc]).
    right; right. split; [exact Hw|]. split; [fld|eauto].
  - (* DBW_xfer *) gcases Hs; subst s'.
    assert (Ow : owns (pcs s t) = true) by (rewrite Hpc; reflexivity).
    assert (NoOth : forall v, v <> t -> owns (pcs s v) = true -> False) by (intros v Ne X; exact (other_owner_absurd W s t v HI Ow Ne X)).
    assert (X : forall s1, lst s1 = lst s -> woken s1 = woken s -> grant s1 = upd (grant s) u GOwner -> lockh s1 = Some u ->
                 pcs s1 = pcs s -> Inv3 (set_pc s1 t (DBW_wake k u))).
    { intros s1 A1 A2 A3 A4 A5.
      apply (master s (set_pc s1 t (DBW_wake k u)) t (DBW_wake k u) H3 T0); gcbn; rewrite ?A1, ?A2, ?A3, ?A4, ?A5; try reflexivity.
      - intros _. unfold resp. gcbn. rewrite A4. right; right; right; left. discriminate.
      - cbn. discriminate.
      - intros (v & Ne & Y). destruct (NoOth v Ne (past_look_owns _ Y)).
      - cbn. discriminate.
      - intros (v & Ne & Y). destruct (NoOth v Ne (gives_up_owns _ Y)).
      - intros v Y. unfold upd in Y. destruct (Z.eqb_spec v u) as [E|E]; [right; left; cbn; apply Z.eqb_eq; symmetry; exact E|left; exact Y].
      - intros v Y. left. exact Y.
      - rewrite Hpc. intros v Y. discriminate.
      - rewrite Hpc. intros j b Y G. left. split; [exact Y|]. unfold upd in G. destruct (t =? u); [discriminate|exact G].
      - intros v _ G. unfold upd in G. destruct (v =? u); [discriminate|exact G].
      - intros x Hx _. left. exact Hx.
      - rewrite Hpc. intros k0 e0 u0 i0 Y. injection Y as -> -> -> ->. left. rewrite upd_same. discriminate.
      - intros _. left. discriminate.
      - intros op Y. discriminate Y.
      - intros _ x l Y. eauto. }
    destruct (enqb =? 0); apply X; fld.
  - (* DBW_wake *) gcases Hs; subst s'.
    eapply (wake_step3 s _ t _ u H3 T0); try fld; try (rewrite Hpc; reflexivity); try (solve [side Hpc]).
    rewrite Hpc. cbn. intros v Y. apply Z.eqb_eq in Y. auto.
  - (* DN_pop *) inv_pc HI t Hpc. destruct Hi as (_ & _ & _ & _ & Hb).
    gcases Hs; subst s'.
    + eapply (pop_step3 W s _ t _ i l HI H3 T0); try fld; try (rewrite Hpc; reflexivity); try exact Hl; try (solve [side Hpc]).
      * left. apply Z.eqb_eq in Hc. split; [exact Hc|fld].
      * unfold dn_cont. destruct l; cbn; [reflexivity|]. destruct (i_bar i0); cbn; discriminate.
    + eapply (pop_step3 W s _ t _ i l HI H3 T0); try fld; try (rewrite Hpc; reflexivity); try exact Hl; try (solve [side Hpc]).
      * right; left. apply Z.eqb_neq in Hc. split; [exact Hc|]. split; [fld|]. cbn. apply Z.eqb_refl.
      * cbn. destruct l; cbn; [reflexivity|]. destruct (i_bar i0); cbn; discriminate.
  - (* DN_wake *) gcases Hs; subst s'.
    eapply (wake_step3 s _ t _ u H3 T0); try fld; try (rewrite Hpc; reflexivity); try (solve [side Hpc]).
    + rewrite Hpc. cbn. intros v Y. apply Z.eqb_eq in Y. auto.
  - (* DN_fin *)
    assert (Ow : owns (pcs s t) = true) by (rewrite Hpc; reflexivity).
    assert (NoOth : (exists u, u <> t /\ owns (pcs s u) = true) -> False).
    { intros (u & Ne & X). exact (other_owner_absurd W s t u HI Ow Ne X). }
    match type of Hs with match ?c with _ => _ end = _ => destruct c as [new ret| |ex|] eqn:Hcl; try discriminate Hs end.
    2: { apply Some_inj in Hs. subst s'. fr3 t H3 T0 Hpc. }
    match type of Hs with (if ?c then _ else _) = _ => destruct c eqn:Hib end.
    { apply Some_inj in Hs. subst s'. ok3 W t HI H3 T0 Hpc. }
    destruct (DN_fin_facts W s t k ow nx new ret HI Vt Hpc Hcl Hib) as [F0 F1].
    gcases Hs; subst s'.
    + eapply (plain_step s _ t _ H3 T0); try fld; try (rewrite Hpc; reflexivity); try reflexivity; try (solve [side Hpc]).
      * intros _. right; left. gcbn. discriminate.
      * intros _. right; right; left. gcbn. discriminate.
    + eapply (plain_step s _ t _ H3 T0); try fld; try (rewrite Hpc; reflexivity); try reflexivity; try (solve [side Hpc]).
      * intros NE. destruct (Z.eq_dec nx 0) as [N0|N0].
        -- destruct (F0 N0) as [D0 _]. destruct (k_look s H3 t) as [X|(u & X)]; [rewrite Hpc; cbn; rewrite N0; reflexivity|exact NE|lia|].
           right; right; right; right. exists u. gcbn. rewrite upd_other; [exact X|]. intros ->. rewrite Hpc in X. discriminate.
        -- right; right; left. unfold U in *. gcbn. exact (F1 N0).
      * intros D1. destruct (Z.eq_dec nx 0) as [N0|N0].
        -- destruct (F0 N0) as [_ D0]. rewrite D0 in D1 by fld. discriminate.
        -- right; right; right. unfold U in *. gcbn. exact (F1 N0).
  - (* DN_xor *) gcases Hs; subst s'.
    eapply (owner_keep W _ _ t _ HI H3 T0); try fld; try (rewrite Hpc; reflexivity).
    + unfold dn_cont. destruct (lst s) as [|x l]; cbn; [reflexivity|]. destruct (i_bar x); cbn; discriminate.
    + unfold dn_cont. destruct (lst s) as [|x l]; cbn; [discriminate|]. destruct (i_bar x); cbn; discriminate.
    + rewrite Hpc. cbn. discriminate.
    + rewrite Hpc. unfold dn_cont. destruct (lst s) as [|x l]; cbn; [reflexivity|]. destruct (i_bar x); cbn; reflexivity.
    + unfold dn_cont. destruct (lst s) as [|x l]; cbn; [discriminate|]. destruct (i_bar x); cbn; discriminate.
    + unfold dn_cont. destruct (lst s) as [|x l]; cbn; [exact I|]. destruct (i_bar x); cbn; exact I.
  - (* A_acq *)
    match type of Hs with match ?c with _ => _ end = _ => destruct c as [new ret|r0 ex| |] eqn:Hcl; try discriminate Hs end.
    2: { apply Some_inj in Hs. subst s'. fr3 t H3 T0 Hpc. }
    apply Some_inj in Hs. subst s'.
    assert (Hd : forall s2, st s2 = new -> dirty s2 = dirty s) by (intros s2 E2; exact (acq_dirty W s s2 new ret HI Hcl E2)).
    eapply (plain_step s _ t _ H3 T0); try fld; try (rewrite Hpc; reflexivity); try reflexivity; try (solve [side Hpc]).
    + intros _. right; right; left. unfold U. gcbn. cbn [length]. lia.
    + intros _. split; [intros X; rewrite Hd by fld; exact X|]. split; [unfold U; gcbn; cbn [length]; lia|rewrite Hpc; discriminate].
    + intros _. right; right; right. unfold U. gcbn. cbn [length]. lia.
  - (* A_xchg *) gcases Hs; subst s'.
    eapply (push_step3 s _ t _ _ H3 T0); try fld; try (rewrite Hpc; reflexivity); try (solve [side Hpc]).
    intros E. rewrite E. reflexivity.
  - (* A_wake *) destruct Q as [Q1 Q2].
    match type of Hs with (if ?c then _ else _) = _ => destruct c; [|discriminate Hs] end.
    match type of Hs with match ?c with _ => _ end = _ => destruct c as [new ret|r0 ex| |] eqn:Hcl; try discriminate Hs end.
    2: { apply Some_inj in Hs. subst s'. destruct Q2 as [-> | ->]; [fr3 t H3 T0 Hpc|].
         destruct (A_wake_dirty_commits W s q HI Q1) as (n1 & r1 & E1). congruence. }
    destruct (A_wake_facts W s q fl new ret HI Q1 Q2 Hcl) as (F3 & F1 & Fe).
    assert (Dm : forall s2, st s2 = new -> (dirty s = 1 -> dirty s2 = 1) /\ (pusher (pcs s t) = true -> dirty s2 = 1)).
    { intros s2 E2. rewrite Hpc. cbn [pusher]. destruct Q2 as [-> | ->].
      - rewrite (F1 eq_refl s2 E2). split; [auto|discriminate].
      - rewrite (F3 eq_refl s2 E2). auto. }
    gcases Hs; subst s'.
    + eapply (plain_step s _ t _ H3 T0); try fld; try (rewrite Hpc; reflexivity); try reflexivity; try (solve [side Hpc]).
      * intros _. right; left. gcbn. discriminate.
      * intros _. destruct (Dm (set_pc (set_tokh (set_st s new) (Some t)) t (X_rootpush RIdle)) eq_refl) as [D1 D2].
        split; [exact D1|]. split; [unfold U; gcbn; lia|auto].
      * intros _. right; right; left. gcbn. discriminate.
    + eapply (plain_step s _ t _ H3 T0); try fld; try (rewrite Hpc; reflexivity); try reflexivity; try (solve [side Hpc]).
      * intros _. destruct (Fe eq_refl) as [X|[X|X]]; unfold resp; gcbn; auto.
      * intros _. destruct (Dm (set_pc (set_st s new) t Idle) eq_refl) as [D1 D2].
        split; [exact D1|]. split; [unfold U; gcbn; lia|auto].
  - (* SW_xchg *) gcases Hs; subst s'.
    eapply (push_step3 s _ t _ _ H3 T0); try fld; try (rewrite Hpc; reflexivity); try (solve [side Hpc]).
    + intros E. rewrite E. reflexivity.
    + right. exists b. cbn [i_id i_wt]. split; [destruct (is_nil (lst s)); reflexivity|reflexivity].
  - (* SW_rmw *)
    match type of Hs with match ?c with _ => _ end = _ => destruct c as [new ret| | |] eqn:Hcl; try discriminate Hs end.
    match type of Hs with (if ?c then _ else _) = _ => destruct c eqn:Hib end; apply Some_inj in Hs; subst s'.
    + pose proof (SW_rmw_take W s t new ret HI Vt Hcl Hib) as LN.
      eapply (plain_step s _ t _ H3 T0); try fld; try (rewrite Hpc; reflexivity); try reflexivity; try (solve [side Hpc]).
      * intros _. right; right; right; left. gcbn. discriminate.
      * intros (u & _ & X). exfalso. exact (free_no_owner W s u HI LN X).
      * intros _. left. gcbn. discriminate.
    + destruct (SW_rmw_facts W s t new ret HI Vt Hcl Hib) as [Fd Fr].
      eapply (plain_step s _ t _ H3 T0); try fld; try (rewrite Hpc; reflexivity); try reflexivity; try (solve [side Hpc]).
      intros _. destruct Fr as [X|X]; unfold resp, U in *; gcbn; auto.
  - (* SW_wait *) gcases Hs; subst s';
      (eapply (consume_step3 s _ t _ H3 T0); try fld; try (rewrite Hpc; reflexivity); try reflexivity; try (solve [side Hpc])).
  - (* W_lock *)
    match type of Hs with match ?c with _ => _ end = _ => destruct c as [new owned| |ex|] eqn:Hcl; try discriminate Hs end.
    2: { apply Some_inj in Hs. subst s'. fr3 t H3 T0 Hpc. }
    match type of Hs with (if ?c then _ else _) = _ => destruct c eqn:Hz end; apply Some_inj in Hs; subst s'.
    + apply Z.eqb_eq in Hz. subst owned. destruct (W_lock_facts W s t floor new HI Vt Hpc Hcl) as [Fr Fd].
      eapply (plain_step s _ t _ H3 T0); try fld; try (rewrite Hpc; reflexivity); try reflexivity; try (solve [side Hpc]).
      * intros _. destruct Fr as [X|X]; unfold resp, U in *; gcbn; auto.
      * intros _. assert (Fd' : dirty (set_pc (set_tokh (set_st s new) None) t Idle) = dirty s) by (apply Fd; reflexivity).
        rewrite Fd'. split; [auto|]. split; [unfold U; gcbn; lia|rewrite Hpc; discriminate].
    + assert (LN : lockh s = None).
      { eapply (lock_taken W s _ t HI HI'); try fld; try (rewrite Hpc; reflexivity).
        - intros u Ne. gcbn. apply upd_other. exact Ne.
        - apply (nowait_grant W s t HI). rewrite Hpc. reflexivity. }
      eapply (plain_step s _ t _ H3 T0); try fld; try (rewrite Hpc; reflexivity); try reflexivity; try (solve [side Hpc]).
      * intros _. right; right; right; left. gcbn. discriminate.
      * intros (u & _ & X). exfalso. exact (free_no_owner W s u HI LN X).
      * intros _. left. gcbn. discriminate.
  - (* W_head *) gcases Hs; subst s'.
    eapply (frame3 _ _ t _ H3 T0);
      [ unfold same3; gcbn; repeat split; reflexivity | gcbn; reflexivity | side Hpc | side Hpc | | side Hpc | side Hpc | side Hpc | | side Hpc ].
    + destruct (i_bar i) eqn:Bi.
      * side Hpc.
      * destruct ((owned =? 0) && negb (i_wt i =? 0) && negb (nz (f_dq_state_has_sync_width_room (st s) W))) eqn:C; [|side Hpc].
        intros _. right; right. apply andb_true_iff in C. destruct C as [C C3]. apply andb_true_iff in C. destruct C as [C1 C2].
        apply Z.eqb_eq in C1. subst owned. apply negb_true_iff in C3. exact (no_room_U W s t op HI Hpc C3).
    + intros op' X. right. exists i, l. split; [exact Hl|].
      destruct (i_bar i); [|repeat (match type of X with context [if ?c then _ else _] => destruct c end); discriminate X].
      destruct (negb (owned =? IN_BARRIER)); [discriminate X|]. destruct (i_wt i =? 0) eqn:Z0; [apply Z.eqb_eq; exact Z0|cbn [negb] in X; discriminate X].
  - (* W_upg *)
    match type of Hs with match ?c with _ => _ end = _ => destruct c as [new ret| | |] eqn:Hcl; try discriminate Hs end.
    match type of Hs with (if ?c then _ else _) = _ => destruct c eqn:Hz end; apply Some_inj in Hs; subst s'.
    + ok3 W t HI H3 T0 Hpc.
    + pose proof (W_upg_fail W s t op owned new ret HI Hpc Hcl Hz) as U1.
      eapply (owner_keep W _ _ t _ HI H3 T0); try fld; try (rewrite Hpc; reflexivity); try (solve [side Hpc]).
  - (* W_acq *)
    match type of Hs with match ?c with _ => _ end = _ => destruct c as [new ret|r0 ex| |] eqn:Hcl; try discriminate Hs end;
      apply Some_inj in Hs; subst s'.
    + ok3 W t HI H3 T0 Hpc.
    + pose proof (W_acq_fail W s t op r0 ex HI Hpc Hcl) as F.
      eapply (frame3 _ _ t _ H3 T0);
      [ unfold same3; gcbn; repeat split; reflexivity | gcbn; reflexivity | side Hpc | side Hpc | | side Hpc | side Hpc | side Hpc | side Hpc | side Hpc ].
      intros _. right. exact F.
  - (* W_popn *) gcases Hs; subst s'.
    + eapply (pop_step3 W s _ t _ i l HI H3 T0); try fld; try (rewrite Hpc; reflexivity); try exact Hl; try (solve [side Hpc]).
      left. apply Z.eqb_eq in Hc. split; [exact Hc|fld].
    + eapply (pop_step3 W s _ t _ i l HI H3 T0); try fld; try (rewrite Hpc; reflexivity); try exact Hl; try (solve [side Hpc]).
      right; left. apply Z.eqb_neq in Hc. split; [exact Hc|]. split; [fld|]. cbn. apply Z.eqb_refl.
  - (* W_wake *) gcases Hs; subst s'.
    eapply (wake_step3 s _ t _ u H3 T0); try fld; try (rewrite Hpc; reflexivity); try (solve [side Hpc]).
    rewrite Hpc. cbn. intros v Y. apply Z.eqb_eq in Y. auto.
  - (* W_popb *) gcases Hs; subst s'. destruct (k_popb s H3 t op Hpc) as (x0 & l0 & E0 & Z0). rewrite Hl in E0. injection E0 as <- <-.
    eapply (pop_step3 W s _ t _ i l HI H3 T0); try fld; try (rewrite Hpc; reflexivity); try exact Hl; try (solve [side Hpc]).
  - (* W_unlock *)
    assert (Ow : owns (pcs s t) = true) by (rewrite Hpc; reflexivity).
    assert (NoOth : (exists u, u <> t /\ owns (pcs s u) = true) -> False).
    { intros (u & Ne & X). exact (other_owner_absurd W s t u HI Ow Ne X). }
    match type of Hs with match ?c with _ => _ end = _ => destruct c as [new ret|r0 ex| |] eqn:Hcl; try discriminate Hs end;
      apply Some_inj in Hs; subst s'; [|fr3 t H3 T0 Hpc].
    destruct (W_unlock_facts W s t op done new ret HI Hpc Hcl) as [D0 Dd].
    eapply (plain_step s _ t _ H3 T0); try fld; try (rewrite Hpc; reflexivity); try reflexivity; try (solve [side Hpc]).
    + intros NE. destruct Q as [-> | ->].
      * destruct (k_giveup s H3 t) as [X|X]; [rewrite Hpc; reflexivity|lia|]. right; right; left. unfold U in *. gcbn. exact X.
      * destruct (k_look s H3 t) as [X|(u & X)]; [rewrite Hpc; reflexivity|exact NE|lia|].
        right; right; right; right. exists u. gcbn. rewrite upd_other; [exact X|]. intros ->. rewrite Hpc in X. discriminate.
    + intros D1. destruct Q as [-> | ->].
      * destruct (k_giveup s H3 t) as [X|X]; [rewrite Hpc; reflexivity|lia|]. right; right; right. unfold U in *. gcbn. exact X.
      * rewrite Dd in D1 by (reflexivity || fld). discriminate.
Qed.

Lemma begin_preserves3 W s t c s' : Inv W s -> Inv3 s -> valid_tid t -> begin s t c = Some s' -> Inv3 s'.
Proof.
  intros HI H3 Vt Hs. assert (T0 : t <> 0) by (unfold valid_tid in Vt; lia).
  unfold begin in Hs. destruct (pcs s t) eqn:Hpc; try discriminate Hs. destruct c.
  - gcases Hs; subst s'. fr3 t H3 T0 Hpc.
  - gcases Hs; subst s'. fr3 t H3 T0 Hpc.
  - gcases Hs; subst s'. apply andb_true_iff in Hc. destruct Hc as [Q1 Q2]. apply Z.leb_le in Q1. apply Z.ltb_lt in Q2.
    fr3 t H3 T0 Hpc.
  - gcases Hs; subst s'. apply Z.ltb_lt in Hc.
    assert (ED : dirty (set_pc (set_tokh (set_rootq s (rootq s - 1)) (Some t)) t (W_lock floor)) = dirty s) by (apply dirty_same; reflexivity).
    eapply (plain_step s _ t _ H3 T0); try fld; try (rewrite Hpc; reflexivity); try reflexivity; try (solve [side Hpc]).
    + intros _. right; left. gcbn. discriminate.
    + intros _. rewrite ED. split; [auto|]. split; [unfold U; gcbn; lia|rewrite Hpc; discriminate].
    + intros _. right; right; left. gcbn. discriminate.
  - gcases Hs; subst s'. apply mem_z_in in Hc.
    assert (EU : U (set_pc (set_holders (set_rq s (remove_z i (rq s))) (t :: holders s)) t (R_call i)) = U s).
    { unfold U. gcbn. cbn [length]. rewrite (remove_z_length i (rq s) Hc). lia. }
    assert (ED : dirty (set_pc (set_holders (set_rq s (remove_z i (rq s))) (t :: holders s)) t (R_call i)) = dirty s) by (apply dirty_same; reflexivity).
    eapply (plain_step s _ t _ H3 T0); try fld; try (rewrite Hpc; reflexivity); try reflexivity; try (solve [side Hpc]).
    + intros NE. destruct (k_resp s H3 NE) as [X|[X|[X|[X|(u & X)]]]]; unfold resp; rewrite ?EU; gcbn; auto.
      right; right; right; right. exists u. rewrite upd_other; [exact X|]. intros ->. rewrite Hpc in X. discriminate.
    + intros _. rewrite ED, EU. split; [auto|]. split; [lia|rewrite Hpc; discriminate].
    + rewrite ED, EU. gcbn. exact (k_dirty s H3).
Qed.

Lemma Inv3_init W : 2 <= W <= 4094 -> Inv3 (init_state W).
Proof.
  intros HW.
  assert (D0 : dirty (init_state W) = 0).
  { assert (E : st (init_state W) = enc (mk 0 0 0 0 0 1 0 0 0 (4096 - W) 0 0)).
    { unfold init_state. gcbn. rewrite enc_linear. unfold INTERVAL, ROLE_BASE_ANON, mk.
      cbn [f_owner f_tr f_enq f_mq f_ov f_role f_em f_d f_pb f_wq f_ib f_hi]. lia. }
    rewrite (dirty_st _ _ E); [reflexivity|wf_mk]. }
  constructor; try (rewrite D0; discriminate); unfold init_state; gcbn; cbn; intros; try discriminate; try contradiction; auto.
Qed.

Theorem step_preserves3 W s a s' : Inv W s -> Inv2 s -> Inv3 s -> step W s a s' -> Inv3 s'.
Proof.
  intros HI H2 H3 Hs. destruct a as [t c|t]; destruct Hs as [Vt Hs].
  - eapply begin_preserves3; eassumption.
  - eapply gstep_preserves3; eassumption.
Qed.

Theorem inv3_reach W s : 2 <= W <= 4094 -> reach W s -> Inv W s /\ Inv2 s /\ Inv3 s.
Proof.
  intros HW. apply (invariant_lift _ _ (fun s => Inv W s /\ Inv2 s /\ Inv3 s)).
  - intros s0 ->. split; [apply Inv_init; exact HW|]. split; [apply Inv2_init|apply Inv3_init; exact HW].
  - intros s0 a s1 (HI & H2 & H3) Hs. split; [eapply step_preserves; eassumption|].
    split; [eapply step_preserves2; eassumption|eapply step_preserves3; eassumption].
Qed.

(* ---- consequences ---- *)
Lemma gstep_frame W s t s' u : gstep W s t = Some s' -> u <> t -> pcs s' u = pcs s u.
Proof.
  intros Hs Ne. unfold gstep in Hs. destruct (pcs s t) eqn:Hpc; lazy beta iota zeta in Hs; try discriminate Hs.
  all: gcases Hs; subst s'.
  all: try (destruct (enqb =? 0)).
  all: gcbn; apply upd_other; exact Ne.
Qed.

Lemma begin_frame s t c s' u : begin s t c = Some s' -> u <> t -> pcs s' u = pcs s u.
Proof.
  intros Hs Ne. unfold begin in Hs. destruct (pcs s t); try discriminate Hs. destruct c; gcases Hs; subst s'; gcbn; apply upd_other; exact Ne.
Qed.

Lemma nonidle_valid W s : reach W s -> forall t, pcs s t <> Idle -> valid_tid t.
Proof.
  apply (invariant_lift _ _ (fun s0 => forall t, pcs s0 t <> Idle -> valid_tid t)).
  - intros s0 -> t H. exfalso. apply H. reflexivity.
  - intros s1 a s2 IH St t H. destruct a as [u c|u]; destruct St as [V B]; destruct (Z.eq_dec t u) as [->|N]; try exact V.
    + rewrite (begin_frame s1 u c s2 t B N) in H. apply IH. exact H.
    + rewrite (gstep_frame W s1 u s2 t B N) in H. apply IH. exact H.
Qed.

Definition resting (p : pc) : Prop := p = Idle \/ exists i b, p = SW_wait i b.

(* 4. no stuck state.  A reachable state in which no thread is in the middle of an operation (every thread has returned or
   is parked in the wait of a sync call), no parked thread can continue, the lane is not on its root queue and no
   redirected item is pending, is completely drained: the list is empty, nobody is parked, the word is the idle word, and
   every item ever submitted has finished.  So a barrier (or any item) is never lost, a sync waiter is never forgotten,
   no width leaks. *)
Theorem stuck_state_is_drained W s : 2 <= W <= 4094 -> reach W s ->
  (forall t, resting (pcs s t)) -> (forall t, valid_tid t -> gstep W s t = None) -> rootq s = 0 -> rq s = [] ->
  lst s = [] /\ (forall t, pcs s t = Idle) /\ lockh s = None /\ holders s = [] /\ tokh s = None /\
  (forall i, 0 <= i < nextid s -> In i (finished s)) /\
  (let r := dec (st s) in f_owner r = 0 /\ f_enq r = 0 /\ f_d r = 0 /\ f_pb r = 0 /\ f_ib r = 0 /\ f_wq r = 4096 - W).
Proof.
  intros HW R Hrest Hstuck R0 Rq0. destruct (inv3_reach W s HW R) as (HI & H2 & H3).
  pose proof HI as (_ & (r & G) & T). pose proof H2 as [O OT].
  assert (NoW : forall v u, waker (pcs s v) u = false) by (intros v u; destruct (Hrest v) as [->|(i & b & ->)]; reflexivity).
  assert (NoP : forall v, pusher (pcs s v) = false) by (intros v; destruct (Hrest v) as [->|(i & b & ->)]; reflexivity).
  assert (NoO : forall v, owns (pcs s v) = false) by (intros v; destruct (Hrest v) as [->|(i & b & ->)]; reflexivity).
  assert (NoH : forall v, holds (pcs s v) = false) by (intros v; destruct (Hrest v) as [->|(i & b & ->)]; reflexivity).
  assert (NoK : forall v, toks (pcs s v) = false) by (intros v; destruct (Hrest v) as [->|(i & b & ->)]; reflexivity).
  (* nobody holds a grant: a granted waiter has been woken, so it could continue *)
  assert (GN : forall t, grant s t = GNone).
  { intros t. destruct (grant s t) eqn:Eg; [reflexivity| |]; exfalso.
    all: assert (Gn : grant s t <> GNone) by (rewrite Eg; discriminate).
    all: destruct (T t) as [_ _ _ T4 _ _]; pose proof (T4 Gn) as Wp.
    all: destruct (Hrest t) as [E|(i & b & E)]; [rewrite E in Wp; discriminate|].
    all: assert (Vt : valid_tid t) by (apply (nonidle_valid W s R); rewrite E; discriminate).
    all: destruct (k_wake s H3 t Gn) as [Wk|(v & Wk)]; [|rewrite NoW in Wk; discriminate].
    all: pose proof (Hstuck t Vt) as X; unfold gstep in X; rewrite E, Wk, Eg in X; discriminate. }
  assert (LN : lockh s = None).
  { destruct (lockh s) as [t|] eqn:L; [|reflexivity]. destruct (T t) as [_ T2 _ _ _ _]. apply T2 in L. rewrite NoO, GN in L.
    destruct L; discriminate. }
  assert (HN : holders s = []).
  { destruct (holders s) as [|t l] eqn:Eh; [reflexivity|]. destruct (T t) as [T1 _ _ _ _ _].
    assert (X : In t (holders s)) by (rewrite Eh; left; reflexivity). apply T1 in X. rewrite NoH, GN in X. destruct X; discriminate. }
  assert (KN : tokh s = None).
  { destruct (tokh s) as [t|] eqn:K; [|reflexivity]. destruct (T t) as [_ _ T3 _ _ _]. apply T3 in K. rewrite NoK in K. discriminate. }
  assert (U0 : U s = 0) by (unfold U; rewrite HN, Rq0; reflexivity).
  assert (LE : lst s = []).
  { destruct (lst s) eqn:El; [reflexivity|]. exfalso.
    destruct (k_resp s H3) as [X|[X|[X|[X|(u & X)]]]]; [rewrite El; discriminate|lia|contradiction|lia|contradiction|].
    rewrite NoP in X. discriminate. }
  assert (AI : forall t, pcs s t = Idle).
  { intros t. destruct (Hrest t) as [E|(i & b & E)]; [exact E|]. exfalso.
    destruct (k_item s H3 t i b) as [(x & Hx & _)|(u & k & e & Hu)]; [rewrite E; reflexivity|apply GN| |].
    - rewrite LE in Hx. exact Hx.
    - destruct (Hrest u) as [E'|(i' & b' & E')]; rewrite E' in Hu; discriminate. }
  split; [exact LE|]. split; [exact AI|]. split; [exact LN|]. split; [exact HN|]. split; [exact KN|]. split.
  - intros i Hi. assert (Ai : acquired s i).
    { split; [exact Hi|]. destruct (In_dec Z.eq_dec i (pushed s)) as [P|P]; [left|right; exact P].
      pose proof (q_seq s O) as Q. rewrite LE in Q. cbn in Q. rewrite app_nil_r in Q. rewrite in_rev, <- Q, <- in_rev. exact P. }
    destruct (kinds s i) eqn:K.
    + destruct (q_barriers s O i Ai K) as [F|(t & L & _)]; [exact F|congruence].
    + destruct (q_readers s O i Ai K) as [F|[X|(t & [X|[X _]])]]; [exact F| | |].
      * rewrite Rq0 in X. destruct X.
      * rewrite AI in X. discriminate.
      * rewrite AI in X. discriminate.
  - cbv zeta. pose proof (g_wf _ _ _ G) as Wf. pose proof Wf as Wf'. unfold wfr in Wf'.
    rewrite (g_enc _ _ _ G), dec_enc by exact Wf.
    pose proof (g_owner _ _ _ G) as Ho. rewrite LN in Ho. pose proof (g_enq _ _ _ G) as [He _]. rewrite R0, KN in He.
    pose proof (g_dw _ _ _ G) as [_ DN]. destruct (DN LN) as [Dw0 Bm0]. pose proof (g_ib _ _ _ G) as Hib. rewrite Bm0 in Hib.
    pose proof (g_pbU _ _ _ G LN) as HpU. pose proof (g_wq _ _ _ G) as Hwq. rewrite U0, Dw0 in Hwq.
    assert (P0 : f_pb r = 0) by (destruct (Z.eq_dec (f_pb r) 1) as [E|E]; [specialize (HpU E); lia|lia]). rewrite P0 in Hwq.
    assert (D0 : f_d r = 0).
    { destruct (Z.eq_dec (f_d r) 1) as [E|E]; [|lia]. exfalso.
      destruct (k_dirty s H3) as [X|[X|[X|X]]]; [rewrite (dirty_st s r (g_enc _ _ _ G) Wf); exact E|contradiction|lia|contradiction|lia]. }
    repeat split; try assumption; lia.
Qed.

(* the hypotheses of the theorem are satisfiable after real work: the run of ordering_nonvacuous (two sync readers, a barrier
   pushed behind them, an async item behind the barrier; width 4) continued until nothing moves *)
Definition ex_acts5 : list action := ex_acts4 ++ repeat (AStep 7) 2 ++ repeat (AStep 5) 5.
Lemma drained_nonvacuous :
  exists s, reach 4 s /\ (forall t, resting (pcs s t)) /\ (forall t, valid_tid t -> gstep 4 s t = None) /\ rootq s = 0 /\ rq s = [] /\
            nextid s = 4 /\ finished s = [3; 2; 1; 0] /\ st s = st (init_state 4).
Proof.
  destruct (run 4 (init_state 4) ex_acts5) as [s|] eqn:E; [|vm_compute in E; discriminate].
  exists s. split.
  - apply (run_reach 4 ex_acts5 (init_state 4) s); [apply reach_init; reflexivity | vm_compute; reflexivity | exact E].
  - vm_compute in E.
    assert (AI : forall t, pcs s t = Idle).
    { injection E as <-. intros t. cbn. repeat (match goal with |- context [if ?c then _ else _] => destruct c end); reflexivity. }
    split; [intros t; left; apply AI|]. split; [intros t _; unfold gstep; rewrite AI; reflexivity|].
    injection E as <-. repeat split; reflexivity.
Qed.

(* ---- every program point other than the wait of a sync call has an enabled step ---- *)
(* the drainer at the head test has a head: only the lock owner takes items off the list *)
Definition at_head (p : pc) : bool := match p with W_head _ _ => true | _ => false end.

Lemma lst_step W s t s' : gstep W s t = Some s' -> (lst s <> [] -> lst s' <> []) \/ owns (pcs s t) = true.
Proof.
  intros Hs. unfold gstep in Hs. destruct (pcs s t) eqn:Hpc; lazy beta iota zeta in Hs; try discriminate Hs.
  all: try (right; reflexivity).
  all: gcases Hs; subst s'.
  all: left; gcbn; try (intros X; exact X).
  all: intros _ X; destruct (lst s); discriminate X.
Qed.

Lemma lst_begin s t c s' : begin s t c = Some s' -> lst s' = lst s.
Proof. intros Hs. unfold begin in Hs. destruct (pcs s t); try discriminate Hs. destruct c; gcases Hs; subst s'; reflexivity. Qed.

Definition Inv4 (s : gst) : Prop := forall t, at_head (pcs s t) = true -> lst s <> [].

Lemma inv4_reach W s : 2 <= W <= 4094 -> reach W s -> Inv W s /\ Inv4 s.
Proof.
  intros HW. apply (invariant_lift _ _ (fun s => Inv W s /\ Inv4 s)).
  - intros s0 ->. split; [apply Inv_init; exact HW|]. intros t X. discriminate X.
  - intros s0 a s1 [HI H4] Hs. split; [eapply step_preserves; eassumption|]. intros u Hu.
    destruct a as [t c|t]; destruct Hs as [Vt Hs].
    + rewrite (lst_begin s0 t c s1 Hs). destruct (Z.eq_dec u t) as [->|Ne].
      * exfalso. unfold begin in Hs. destruct (pcs s0 t); try discriminate Hs. destruct c; gcases Hs; subst s1; gcbn in Hu; rewrite upd_same in Hu; discriminate Hu.
      * rewrite (begin_frame s0 t c s1 u Hs Ne) in Hu. exact (H4 u Hu).
    + destruct (Z.eq_dec u t) as [->|Ne].
      * (* t itself arrives at (or stays away from) the head test *)
        unfold gstep in Hs. destruct (pcs s0 t) eqn:Hpc; lazy beta iota zeta in Hs; try discriminate Hs.
        all: gcases Hs; subst s1; gcbn in Hu; rewrite upd_same in Hu; gcbn.
        all: try discriminate Hu.
        all: try (destruct k; discriminate Hu).
        all: try (unfold dn_cont in Hu; repeat (match type of Hu with context [if ?c then _ else _] => destruct c end); discriminate Hu).
        all: try (repeat (match type of Hu with context [if ?c then _ else _] => destruct c eqn:? end); try discriminate Hu).
        all: try (intros X; match goal with H : is_nil (lst _) = false |- _ => rewrite X in H; discriminate H end).
        all: try (inv_pc HI t Hpc).
        all: idtac.
        -- destruct (lst s0) as [|x l]; [discriminate Hu|]. repeat (match type of Hu with context [if ?c then _ else _] => destruct c end); discriminate Hu.
        -- destruct Hi as (_ & _ & _ & _ & Hb). unfold head_bar in Hb. destruct (lst s0); [contradiction|discriminate].
        -- destruct Hi as (_ & _ & Hb). unfold head_nb in Hb. destruct (lst s0); [contradiction|discriminate].
      * rewrite (gstep_frame W s0 t s1 u Hs Ne) in Hu. pose proof (H4 u Hu) as NE.
        destruct (lst_step W s0 t s1 Hs) as [X|X]; [exact (X NE)|]. exfalso.
        assert (Ou : owns (pcs s0 u) = true) by (destruct (pcs s0 u); try discriminate Hu; reflexivity).
        exact (other_owner_absurd W s0 t u HI X Ne Ou).
Qed.


Ltac triv := lazy beta iota zeta;
  repeat (match goal with
          | |- context [if ?c then _ else _] => destruct c
          | |- context [match ?l with [] => _ | _ :: _ => _ end] => destruct l
          end; lazy beta iota zeta); eexists; reflexivity.

Theorem nonresting_enabled W s t : 2 <= W <= 4094 -> reach W s -> valid_tid t -> ~ resting (pcs s t) ->
  exists s', gstep W s t = Some s'.
Proof.
  intros HW R Vt NR. destruct (inv3_reach W s HW R) as (HI & H2 & H3). destruct (inv4_reach W s HW R) as [_ H4].
  pose proof (k_qos s H3 t) as Q. pose proof (H4 t) as Hh.
  unfold gstep. destruct (pcs s t) eqn:Hpc; cbn [qos_ok at_head] in Q, Hh.
  all: try (exfalso; apply NR; left; reflexivity).
  all: try (exfalso; apply NR; right; eauto; fail).
  all: try (solve [triv]).
  all: pose proof HI as (_ & (r & G) & T); pose proof (g_wf _ _ _ G) as Wf; pose proof Wf as Wf'; unfold wfr in Wf'.
  - (* S_rsv *) rewrite (g_enc _ _ _ G), reserve_sync_fields by (assumption || lia). triv.
  - (* NBC *) destruct (T t) as [T1 _ _ _ _ _]. rewrite Hpc in T1. cbn [holds] in T1.
    assert (Hin : In t (holders s)) by (apply T1; auto).
    assert (U1 : 1 <= Z.of_nat (length (holders s))) by (destruct (holders s); [destruct Hin | cbn [length]; lia]).
    pose proof (g_dw _ _ _ G) as [D0 DN]. pose proof (g_wq _ _ _ G) as Hwq.
    assert (Hq1 : 1 <= f_wq r) by (unfold U in Hwq; nia).
    rewrite (g_enc _ _ _ G), nbc_fields by (assumption || lia). triv.
  - (* B_acq *) rewrite (g_enc _ _ _ G), acquire_barrier_fields by (assumption || lia || (unfold valid_tid in Vt; lia)). triv.
  - (* BC_class *) inv_pc HI t Hpc. destruct Hi as (Bm & He).
    destruct (g_bm _ _ _ G Bm) as (_ & Dw & U0 & P0). pose proof (g_wq _ _ _ G) as Hwq. rewrite Dw, U0, P0 in Hwq.
    pose proof (g_ib _ _ _ G) as Hib. rewrite Bm in Hib. pose proof (g_hi _ _ _ G) as Hhi.
    rewrite (g_enc _ _ _ G). unfold IN_BARRIER, INTERVAL. destruct He as [->| ->].
    + cbn [Z.eqb]. rewrite class_complete_none_fields by (assumption || lia). triv.
    + change (ENQUEUED =? 0) with false. cbv iota. unfold ENQUEUED. rewrite class_complete_enq_fields by (assumption || lia). triv.
  - (* DBW_pop *) inv_pc HI t Hpc. destruct Hi as (_ & _ & Hb & _). unfold head_bar in Hb. destruct (lst s); [contradiction|eexists; reflexivity].
  - (* DBW_xfer *) inv_pc HI t Hpc. destruct Hi as (Bm & He & Vu & _).
    pose proof (g_enq _ _ _ G) as [Henq Hrq]. pose proof (g_role _ _ _ G) as Hro.
    rewrite (g_enc _ _ _ G). unfold f_dispatch_lock_value_from_tid. destruct He as [->| ->].
    + rewrite barrier_waiter_fields0 by (assumption || lia || (unfold valid_tid in Vu; lia)). triv.
    + destruct (T t) as [_ _ T3 _ _ _]. rewrite Hpc in T3. cbn [toks] in T3.
      assert (Tk : tokh s = Some t) by (apply T3; reflexivity). rewrite Tk in Henq.
      unfold ENQUEUED. rewrite barrier_waiter_fields1 by (assumption || lia || (unfold valid_tid in Vu; lia)). triv.
  - (* DN_loop *) inv_pc HI t Hpc. destruct Hi as (_ & _ & _ & _ & Hb). unfold head_nb in Hb. destruct (lst s); [contradiction|eexists; reflexivity].
  - (* DN_acq *) rewrite (g_enc _ _ _ G), acquire_async_fields by exact Wf. triv.
  - (* DN_pop *) inv_pc HI t Hpc. destruct Hi as (_ & _ & _ & _ & Hb). unfold head_nb in Hb. destruct (lst s); [contradiction|triv].
  - (* DN_fin *) inv_pc HI t Hpc. destruct Hi as (Bm & Dw & O & P0 & Hnx & Hn1 & Hn2).
    rewrite (pb_of W s r G) in P0.
    pose proof (g_wq _ _ _ G) as Hwq. rewrite Dw, P0 in Hwq. pose proof (CLane_proofs.U_nonneg s) as Un.
    pose proof (g_bound _ _ _ G) as Hbd. rewrite Dw in Hbd.
    pose proof (g_ib _ _ _ G) as Hib. rewrite Bm in Hib. pose proof (g_hi _ _ _ G) as Hhi.
    rewrite (g_enc _ _ _ G). unfold INTERVAL.
    set (pbn := if nx =? 2 then 1 else 0) in *.
    set (r0 := mk (f_owner r) (f_tr r) (f_enq r) (f_mq r) (f_ov r) (f_role r) (f_em r) (f_d r) pbn
                  (4096 - W + U s + (W - 1) * pbn) (f_ib r) (f_hi r)).
    assert (W0 : wfr r0) by (subst r0 pbn; destruct (nx =? 2); wf_mk).
    pose proof W0 as W0'. unfold wfr in W0'.
    assert (E0 : u64 (enc r - (if nx =? 2 then f_dispatch_queue_adjust_owned 0 (ow * 2199023255552) 1 W 1 else ow * 2199023255552)) = enc r0).
    { subst r0 pbn. destruct (Z.eqb_spec nx 2) as [E2|E2].
      - rewrite sub_adjusted by (assumption || lia). f_equal. unfold mk. f_equal; lia.
      - replace (enc r - ow * 2199023255552) with (enc r + (- ow) * 2199023255552) by lia.
        rewrite add_wq by (assumption || lia). unfold set_wq. f_equal. unfold mk. f_equal; lia. }
    rewrite (drain_nb_fields r r0); try assumption; try lia;
      try (subst r0; cbn [mk f_ib f_hi f_pb f_wq]; lia); try (unfold valid_tid in Vt; lia).
    triv.
  - (* A_acq *) rewrite (g_enc _ _ _ G), acquire_async_fields by exact Wf. triv.
  - (* A_wake *) destruct Q as [Q1 Q2]. assert (Qb : (0 <=? q) && (q <? 8) = true) by (apply andb_true_iff; split; [apply Z.leb_le|apply Z.ltb_lt]; lia).
    rewrite Qb. rewrite (g_enc _ _ _ G). unfold ENQUEUED. destruct Q2 as [-> | ->].
    + rewrite wakeup_nodirty_fields by (assumption || reflexivity). triv.
    + rewrite wakeup_fields by (assumption || reflexivity). triv.
  - (* SW_rmw *) pose proof (g_role _ _ _ G) as Hro. rewrite (g_enc _ _ _ G). unfold INTERVAL, FULL_BIT, IN_BARRIER.
    rewrite push_waiter_fields by (assumption || lia || (unfold valid_tid in Vt; lia)). triv.
  - (* W_lock *) rewrite (g_enc _ _ _ G), lock_fields_w by (assumption || lia || (unfold valid_tid in Vt; lia)). triv.
  - (* W_head *) destruct (lst s); [exfalso; apply Hh; reflexivity|eexists; reflexivity].
  - (* W_upg *) inv_pc HI t Hpc. destruct Hi as (E & Bm & Ow & Pd & Hb).
    pose proof (dw_range W s r G) as Dr. rewrite (pb_of W s r G) in Pd.
    pose proof (g_wq _ _ _ G) as Hwq. pose proof (CLane_proofs.U_nonneg s) as Un. pose proof (g_bound _ _ _ G) as Hbd.
    pose proof (g_ib _ _ _ G) as Hib. rewrite Bm in Hib. pose proof (g_hi _ _ _ G) as Hhi.
    assert (Uq : upg_wq r (dw s) W = 4095 + U s).
    { unfold upg_wq. destruct (Z.eqb_spec (f_pb r) 1) as [P|P].
      - rewrite P in Hwq. rewrite (Pd P) in *. lia.
      - assert (P0 : f_pb r = 0) by lia. rewrite P0 in Hwq. lia. }
    rewrite (g_enc _ _ _ G). subst owned. unfold INTERVAL. rewrite upgrade_fields by (assumption || lia). triv.
  - (* W_acq *) rewrite (g_enc _ _ _ G), acquire_async_fields by exact Wf. triv.
  - (* W_popn *) inv_pc HI t Hpc. destruct Hi as (_ & _ & _ & _ & _ & Hb). unfold head_nb in Hb. destruct (lst s); [contradiction|triv].
  - (* W_popb *) inv_pc HI t Hpc. destruct Hi as (_ & _ & Hb). unfold head_bar in Hb. destruct (lst s); [contradiction|eexists; reflexivity].
  - (* W_unlock *) inv_pc HI t Hpc. destruct Hi as (Hop & HpU).
    pose proof (g_enq _ _ _ G) as [Henq Hrq]. pose proof (g_hi _ _ _ G) as Hhi.
    pose proof (g_wq _ _ _ G) as Hwq. pose proof (g_ib _ _ _ G) as Hib. pose proof (CLane_proofs.U_nonneg s) as Un.
    pose proof (dw_range W s r G) as Dr.
    destruct (T t) as [_ _ T3 _ _ _]. rewrite Hpc in T3. cbn [toks] in T3.
    assert (Tk : tokh s = Some t) by (apply T3; reflexivity). rewrite Tk in Henq. assert (E1 : f_enq r = 1) by lia.
    assert (Sub : exists r0, wfr r0 /\ u64 (enc r - op) = enc r0).
    { destruct Hop as (d & b & -> & Hd & [(-> & Bm & ->)|(-> & Bm & -> & Pd)]).
      - destruct (g_bm _ _ _ G Bm) as (_ & Dw & U0 & P0). rewrite Bm in Hib. rewrite Dw, U0, P0 in Hwq.
        exists (mk (f_owner r) (f_tr r) 0 (f_mq r) (f_ov r) (f_role r) (f_em r) (f_d r) (f_pb r) (4096 - W) 0 (f_hi r)).
        split; [wf_mk|].
        rewrite !enc_linear. unfold mk, ENQUEUED, INTERVAL, IN_BARRIER. cbn [f_owner f_tr f_enq f_mq f_ov f_role f_em f_d f_pb f_wq f_ib f_hi].
        rewrite E1, Hib. rewrite u64_id'' by lia. lia.
      - rewrite Bm in Hib.
        exists (mk (f_owner r) (f_tr r) 0 (f_mq r) (f_ov r) (f_role r) (f_em r) (f_d r) (f_pb r) (f_wq r - dw s) 0 (f_hi r)).
        split; [wf_mk|].
        rewrite !enc_linear. unfold mk, ENQUEUED, INTERVAL, IN_BARRIER. cbn [f_owner f_tr f_enq f_mq f_ov f_role f_em f_d f_pb f_wq f_ib f_hi].
        rewrite E1, Hib. rewrite u64_id'' by lia. lia. }
    destruct Sub as (r0 & W0 & E0).
    rewrite (g_enc _ _ _ G). rewrite (unlock_fields_w r r0) by assumption. triv.
Qed.

(* hence: when no thread at all can take a step (and the root queue holds neither the lane nor a redirected item),
   everything is drained *)
Theorem terminal_state_is_drained W s : 2 <= W <= 4094 -> reach W s ->
  (forall t, valid_tid t -> gstep W s t = None) -> rootq s = 0 -> rq s = [] ->
  lst s = [] /\ (forall t, pcs s t = Idle) /\ lockh s = None /\ holders s = [] /\ tokh s = None /\
  (forall i, 0 <= i < nextid s -> In i (finished s)) /\
  (let r := dec (st s) in f_owner r = 0 /\ f_enq r = 0 /\ f_d r = 0 /\ f_pb r = 0 /\ f_ib r = 0 /\ f_wq r = 4096 - W).
Proof.
  intros HW R Hstuck R0 Rq0. apply (stuck_state_is_drained W s HW R); try assumption.
  intros t. assert (D : resting (pcs s t) \/ ~ resting (pcs s t)).
  { unfold resting. destruct (pcs s t); try (left; left; reflexivity); try (left; right; eauto; fail);
      right; intros [X|(i0 & b0 & X)]; discriminate X. }
  destruct D as [D|D]; [exact D|]. exfalso.
  assert (Vt : valid_tid t).
  { apply (nonidle_valid W s R). intros X. apply D. left. exact X. }
  destruct (nonresting_enabled W s t HW R Vt D) as (s1 & E). rewrite (Hstuck t Vt) in E. discriminate.
Qed.

(* ---- the clauses of Inv3 about parked waiters and about responsibility, as statements of their own ---- *)
Theorem granted_waiter_is_woken W s u : 2 <= W <= 4094 -> reach W s -> grant s u <> GNone ->
  woken s u = true \/ exists t, waker (pcs s t) u = true.
Proof. intros HW R. destruct (inv3_reach W s HW R) as (_ & _ & H3). exact (k_wake s H3 u). Qed.

Theorem parked_item_is_queued W s t i b : 2 <= W <= 4094 -> reach W s -> wait_item (pcs s t) = Some (i, b) -> grant s t = GNone ->
  (exists x, In x (lst s) /\ i_id x = i /\ i_wt x = t) \/ exists u k e, pcs s u = DBW_xfer k e t i.
Proof. intros HW R. destruct (inv3_reach W s HW R) as (_ & _ & H3). exact (k_item s H3 t i b). Qed.

Theorem nonempty_list_has_responsible W s : 2 <= W <= 4094 -> reach W s -> lst s <> [] -> resp s.
Proof. intros HW R. destruct (inv3_reach W s HW R) as (_ & _ & H3). exact (k_resp s H3). Qed.

Theorem parked_waiters_and_responsibility W s : 2 <= W <= 4094 -> reach W s ->
  (forall u, grant s u <> GNone -> woken s u = true \/ exists t, waker (pcs s t) u = true) /\
  (forall t i b, wait_item (pcs s t) = Some (i, b) -> grant s t = GNone ->
     (exists x, In x (lst s) /\ i_id x = i /\ i_wt x = t) \/ exists u k e, pcs s u = DBW_xfer k e t i) /\
  (lst s <> [] -> resp s).
Proof. intros HW R. destruct (inv3_reach W s HW R) as (_ & _ & H3). split; [exact (k_wake s H3)|]. split; [exact (k_item s H3)|exact (k_resp s H3)]. Qed.
