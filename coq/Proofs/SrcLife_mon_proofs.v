(* SrcLife_mon_proofs.v — link between the global model and the per-thread conformance monitor SrcLife.mon_step:
   every step of SrcLife.gstep taken by a thread, seen as the events SrcLife.emit (operations on dq_atomic_flags with the
   five modelled bits as values, futex calls, callout marks), is accepted by the monitor of that thread, and the relation
   between the model's view of the thread and the monitor's state is maintained; the monitors of the other threads are not
   concerned.  So the monitor never rejects a behaviour of the model.  The converse is false and not claimed: the monitor
   watches one thread and one word; it cannot see enabling conditions that depend on other words or other threads (that is
   what the global replay, Model/SrcLifeR.v, is for). *)
From Coq Require Import ZArith Bool List Lia.
From Verif Require Import Word Bits Conc Gen_consts Gen_fields Gen_srclife SrcLife SrcLife_phase_proofs SrcLife_proofs.
Import ListNotations.
Local Open Scope Z_scope.

Section Mon.
  Variable k : kind.
  Let kt := b2z (k_timer k). Let kd := b2z (k_direct k).

  Fixpoint mrun (m : mst) (evs : list event) : option mst :=
    match evs with
    | [] => Some m
    | e :: r => match mon_step kt kd m e with Some m' => mrun m' r | None => None end
    end.
  Lemma mrun_app m a b : mrun m (a ++ b) = match mrun m a with Some m' => mrun m' b | None => None end.
  Proof. revert m. induction a as [|e a IH]; intros m; cbn; [reflexivity|]. destruct (mon_step kt kd m e); auto. Qed.
  Lemma mrun_run_trace : forall evs m m' i, mrun m evs = Some m' -> run_trace (mon_step kt kd) m evs i = (m', -1).
  Proof.
    induction evs as [|e r IH]; intros m m' i H; cbn in *.
    - injection H as <-. reflexivity.
    - destruct (mon_step kt kd m e) as [m1|]; [|discriminate]. apply IH. exact H.
  Qed.
End Mon.

(* ------------------------------------------------------------------ the five bits *)
Ltac all_flags f := destruct f as [[] [] [] [] []].

Lemma has_enc f : has (enc f) BIT_CANCELED = canceled f /\ has (enc f) BIT_WAITER = waiter f /\
  has (enc f) BIT_NEEDS_EVENT = needs_event f /\ has (enc f) BIT_DELETED = deleted f /\ has (enc f) BIT_RELEASED = released f.
Proof. all_flags f; vm_compute; repeat split. Qed.
Lemma dec_enc f : dec (enc f) = f.
Proof. all_flags f; vm_compute; reflexivity. Qed.
Lemma fin_commits f : deleted f = false ->
  is_commit (flags_set_and_clear_loop 0 DSF_DELETED (Z.lor DSF_NEEDS_EVENT DSF_CANCEL_WAITER) (enc f)) (fin_new f) = true.
Proof. all_flags f; intros H; try discriminate H; vm_compute; reflexivity. Qed.
Lemma ne_commits f : needs_event f || deleted f = false -> is_commit (refs_unregister_loop 0 0 (enc f)) (ne_new f) = true.
Proof. all_flags f; intros H; try discriminate H; vm_compute; reflexivity. Qed.
Lemma caw_commits k f f' : m_caw_loop k f = Some f' ->
  is_commit (cancel_and_wait_loop 0 (enc f) (b2z (k_timer k)) (b2z (k_direct k))) (caw_new k f) = true.
Proof. destruct k as [[] [] []]; all_flags f; intros H; try discriminate H; vm_compute; reflexivity. Qed.

(* ------------------------------------------------------------------ what the monitor does with the events of the actions *)
Definition ok_eh (v : Z) : bool := negb (has v BIT_CANCELED) && negb (has v BIT_RELEASED).
Definition ok_ch (v : Z) : bool := has v BIT_CANCELED && has v BIT_DELETED.
Lemma ok_eh_enc d : canc_or_rel d = false -> ok_eh (enc d) = true.
Proof. all_flags d; cbn; intros H; try discriminate H; vm_compute; reflexivity. Qed.
Lemma ok_ch_enc d : canceled d = true -> deleted d = true -> ok_ch (enc d) = true.
Proof. all_flags d; cbn; intros H1 H2; try discriminate; vm_compute; reflexivity. Qed.

Opaque flags_set_and_clear_loop cancel_and_wait_loop refs_unregister_loop enc fin_new ne_new caw_new has Z.lor Z.testbit.

(* mon_step on each kind of event, for arbitrary values *)
Section Steps.
  Variables kt kd : Z.
  Lemma ms_load l v : mon_step kt kd (mkM l false) (E_load v) = Some (mkM (Some v) false).
  Proof. reflexivity. Qed.
  Lemma ms_casw old new :
    mon_step kt kd (mkM (Some old) false) (E_ DV_CASW old new 1) =
    (let fin := is_commit (flags_set_and_clear_loop 0 DSF_DELETED (Z.lor DSF_NEEDS_EVENT DSF_CANCEL_WAITER) old) new in
     if fin || is_commit (cancel_and_wait_loop 0 old kt kd) new || is_commit (refs_unregister_loop 0 0 old) new
     then Some (mkM (Some new) (fin && has old BIT_WAITER)) else None).
  Proof.
    unfold mon_step, E_. cbn [m_wake m_last ek ea eb eok].
    change (DV_CASW =? DV_LOAD) with false. change (DV_CASW =? DV_OR) with false. change (DV_CASW =? DV_AND) with false.
    change (DV_CASW =? DV_CASW) with true. change (1 =? 1) with true. cbv zeta. cbn iota.
    rewrite Z.eqb_refl. reflexivity.
  Qed.
  Lemma ms_wake l : mon_step kt kd (mkM l true) (E_ DV_FUTEX_WAKE 0 0 1) = Some (mkM l false).
  Proof. reflexivity. Qed.
  Lemma ms_cb v a : mon_step kt kd (mkM (Some v) false) (E_ DVU_CALLOUT_BEGIN a 1 1) =
    if a =? 0 then (if negb (has v BIT_CANCELED) && negb (has v BIT_RELEASED) then Some (mkM None false) else None)
    else if a =? 2 then Some (mkM (Some v) false)
    else (if has v BIT_CANCELED && has v BIT_DELETED then Some (mkM None false) else None).
  Proof. reflexivity. Qed.
  Lemma ms_ce l a : mon_step kt kd (mkM l false) (E_ DVU_CALLOUT_END a 0 1) = Some (mkM l false).
  Proof. reflexivity. Qed.
  Lemma ms_or l old op : mon_step kt kd (mkM l false) (E_ DV_OR old op 1) =
    if (op =? DSF_CANCELED) || (op =? DQF_RELEASED) then Some (mkM None false)
    else if (op =? DQF_BARRIER_BIT) || (op =? DQF_TARGETED) || (op =? DSF_WLH_CHANGED) then Some (mkM l false) else None.
  Proof. reflexivity. Qed.
  Lemma ms_cas old seen new ok :
    mon_step kt kd (mkM (Some old) false) (E_ DV_CAS seen new ok) =
    if (new =? Z.lor old DSF_CANCEL_WAITER) && negb (has old BIT_DELETED) && negb (has old BIT_WAITER) then
      if ok =? 1 then (if seen =? old then Some (mkM (Some new) false) else None) else Some (mkM (Some seen) false)
    else None.
  Proof. reflexivity. Qed.
  Lemma ms_fwait l v : mon_step kt kd (mkM l false) (E_ DV_FUTEX_WAIT v 0 1) =
    if has v BIT_WAITER && negb (has v BIT_DELETED) then Some (mkM l false) else None.
  Proof. reflexivity. Qed.
  Lemma ms_fret l : mon_step kt kd (mkM l false) (E_ DV_FUTEX_WAIT_RET 0 0 1) = Some (mkM l false).
  Proof. reflexivity. Qed.
End Steps.

Section Rules.
  Variable k : kind.
  Notation mrun := (mrun k).
  Lemma r_load l v r : mrun (mkM l false) (E_load v :: r) = mrun (mkM (Some v) false) r.
  Proof. reflexivity. Qed.
  Lemma r_fin l f tw r : deleted f = false ->
    mrun (mkM l false) (emit_action f (AFinalize (waiter f) tw) ++ r) = mrun (mkM (Some (fin_new f)) false) r.
  Proof.
    intros D. destruct (has_enc f) as (_ & W & _). unfold emit_action.
    destruct (waiter f) eqn:Wf; cbn [app]; rewrite r_load; cbn [SrcLife_mon_proofs.mrun]; rewrite ms_casw; cbv zeta;
      rewrite (fin_commits f D), W; cbn [orb andb].
    - rewrite ms_wake. reflexivity.
    - reflexivity.
  Qed.
  Lemma r_ne l f r : mrun (mkM l false) (emit_action f ANeedsEvent ++ r) =
    mrun (mkM (Some (if needs_event f || deleted f then enc f else ne_new f)) false) r.
  Proof.
    unfold emit_action. destruct (needs_event f || deleted f) eqn:E; cbn [app]; rewrite r_load; [reflexivity|].
    cbn [SrcLife_mon_proofs.mrun]. rewrite ms_casw. cbv zeta. rewrite (ne_commits f E), !orb_true_r.
    assert (X : is_commit (flags_set_and_clear_loop 0 DSF_DELETED (Z.lor DSF_NEEDS_EVENT DSF_CANCEL_WAITER) (enc f)) (ne_new f) &&
                has (enc f) BIT_WAITER = false).
    { apply orb_false_iff in E as [E1 E2]. revert E1 E2. Transparent flags_set_and_clear_loop refs_unregister_loop enc ne_new has Z.lor Z.testbit.
      all_flags f; cbn [needs_event deleted]; intros; try discriminate; vm_compute; reflexivity. }
    rewrite X. reflexivity.
  Qed.
  Opaque flags_set_and_clear_loop refs_unregister_loop enc ne_new has Z.lor Z.testbit.
  Lemma r_cb0 v r : ok_eh v = true -> mrun (mkM (Some v) false) (E_ DVU_CALLOUT_BEGIN 0 1 1 :: r) = mrun (mkM None false) r.
  Proof. intros H. cbn [SrcLife_mon_proofs.mrun]. rewrite ms_cb. unfold ok_eh in H. rewrite H. reflexivity. Qed.
  Lemma r_cb1 v r : ok_ch v = true -> mrun (mkM (Some v) false) (E_ DVU_CALLOUT_BEGIN 1 1 1 :: r) = mrun (mkM None false) r.
  Proof. intros H. cbn [SrcLife_mon_proofs.mrun]. rewrite ms_cb. unfold ok_ch in H. rewrite H. reflexivity. Qed.
  Lemma r_cb2 v r : mrun (mkM (Some v) false) (E_ DVU_CALLOUT_BEGIN 2 1 1 :: r) = mrun (mkM (Some v) false) r.
  Proof. reflexivity. Qed.
  Lemma r_ce l a r : mrun (mkM l false) (E_ DVU_CALLOUT_END a 0 1 :: r) = mrun (mkM l false) r.
  Proof. reflexivity. Qed.
End Rules.

Section Rules2.
  Variable k : kind.
  Notation mrun := (mrun k).
  Lemma r_fin_t l f r : waiter f = true -> deleted f = false ->
    mrun (mkM l false) (E_load (enc f) :: E_ DV_CASW (enc f) (fin_new f) 1 :: E_ DV_FUTEX_WAKE 0 0 1 :: r) =
    mrun (mkM (Some (fin_new f)) false) r.
  Proof. intros W D. pose proof (r_fin k l f false r D) as X. unfold emit_action in X. rewrite W in X. exact X. Qed.
  Lemma r_fin_f l f r : waiter f = false -> deleted f = false ->
    mrun (mkM l false) (E_load (enc f) :: E_ DV_CASW (enc f) (fin_new f) 1 :: r) = mrun (mkM (Some (fin_new f)) false) r.
  Proof. intros W D. pose proof (r_fin k l f false r D) as X. unfold emit_action in X. rewrite W in X. exact X. Qed.
  Lemma r_ne_c l f r : needs_event f || deleted f = false ->
    mrun (mkM l false) (E_load (enc f) :: E_ DV_CASW (enc f) (ne_new f) 1 :: r) = mrun (mkM (Some (ne_new f)) false) r.
  Proof. intros E. pose proof (r_ne k l f r) as X. unfold emit_action in X. rewrite E in X. exact X. Qed.
End Rules2.

(* ------------------------------------------------------------------ one phase of the lock owner *)
Definition needs_last (p : opc) : bool := match p with OLatch | OP3 | OP4 => true | _ => false end.
(* up to the registration callout the monitor has the read of _dispatch_queue_class_invoke *)
Definition needs_some (p : opc) : bool := match p with OA1 | OA2 | OA3 => true | _ => false end.
(* what the monitor of the lock owner knows at program point p, the owner's copy of the flags being dqf *)
Definition prel (p : opc) (dqf : flags) (m : mst) : Prop :=
  m_wake m = false /\ (needs_some p = true -> exists v, m_last m = Some v) /\ (needs_last p = true -> m_last m = Some (enc dqf)).

Ltac mon_rw k :=
  repeat first
    [ rewrite (r_fin_t k) by reflexivity | rewrite (r_fin_f k) by reflexivity | rewrite (r_ne_c k) by reflexivity
    | rewrite (r_load k) | rewrite (r_ce k) | rewrite (r_cb2 k)
    | rewrite (r_cb0 k) by (apply ok_eh_enc; auto) | rewrite (r_cb1 k) by (apply ok_ch_enc; reflexivity) ].

Lemma phase_mon k q o i m :
  let p := phase k q o i in let s := i_src i in
  prel (i_pc i) (i_dqf i) m ->
  (i_pc i = OLatch -> canc_or_rel (i_dqf i) = false) ->
  (released (i_dqf i) = true -> canceled (i_dqf i) = canceled (fl s)) ->
  existsb is_fin_twice (res_acts p) = false ->
  (in_cd (i_pc i) = true -> h_ca s = false) ->
  exists m', mrun k m (emit_phase k o (i_pc i) (fl s) (res_acts p)) = Some m' /\ prel (res_pc p) (res_dqf' p) m'.
Proof.
  cbv zeta. intros (Mw & Ml & Mn) Hl Hr Hf Hc. destruct m as [ml mw]. cbn in Mw. subst mw.
  destruct (phase k q o i) eqn:H; cbn [res_src res_pc res_acts res_dqf'] in *.
  all: open_i i; destruct k as [kt kd kre]; destruct o as [o1 o2 o3 o4 o5 o6 o7 o8]; unf H; destruct pc.
  all: cbn [i_pc i_dqf i_src fl] in *.
  all: split_ifs H.
  all: try discriminate.
  all: first [injection H as <- <- | injection H as <- <- <-].
  (* the finalize / deferred-unregistration CAS is judged on the five bits: all cases *)
  all: try match goal with
           | |- context [AFinalize _ _] => try destruct fc; try destruct fw; try destruct fn; try destruct fd; try destruct fr
           | |- context [ANeedsEvent] => try destruct fc; try destruct fw; try destruct fn; try destruct fd; try destruct fr
           | |- context [AChBegin] => try destruct fc; try destruct fd; try destruct fr
           | |- context [ARegCallout _] => try destruct fc; try destruct fr
           end.
  all: cbn [existsb is_fin_twice orb] in Hf; try discriminate Hf.
  all: try (specialize (Hc eq_refl); discriminate Hc).
  all: try (specialize (Hr eq_refl); discriminate Hr).
  all: unfold emit_phase; cbn [reads_flags andb flat_map emit_action app needs_event deleted orb].
  all: first [ specialize (Mn eq_refl); cbn in Mn; subst ml | destruct (Ml eq_refl) as [v0 Ev]; cbn in Ev; subst ml | idtac ].
  all: match goal with |- exists m', mrun ?K _ _ = _ /\ _ => eexists; split; [mon_rw K; reflexivity|] end.
  all: unfold prel; cbn; repeat split; intros; try discriminate; eauto.
Qed.

(* where the owner's copy of the flags comes from *)
Lemma phase_dqf k q o i :
  let p := phase k q o i in
  (res_dqf' p = i_dqf i \/ res_dqf' p = fl (i_src i) \/ res_dqf' p = f0) /\
  (res_pc p = OLatch -> res_dqf' p = fl (i_src i)).
Proof.
  cbv zeta. destruct (phase k q o i) eqn:H; cbn [res_pc res_dqf'].
  all: open_i i; destruct k as [kt kd kre]; destruct o as [o1 o2 o3 o4 o5 o6 o7 o8]; unf H; destruct pc.
  all: split_ifs H.
  all: try discriminate.
  all: first [injection H as <- <- | injection H as <- <- <-]; cbn; split; intros; try discriminate; auto.
Qed.

(* ------------------------------------------------------------------ two more facts about the owner's copy of the flags *)
Definition XInv (g : gst) : Prop :=
  (o_pc g = OLatch -> canc_or_rel (o_dqf g) = false) /\
  (released (o_dqf g) = true -> canceled (o_dqf g) = canceled (fl (g_s g))).

Lemma XInv_frame g g' : XInv g -> o_pc g' = o_pc g -> o_dqf g' = o_dqf g ->
  (released (o_dqf g) = true -> canceled (fl (g_s g')) = canceled (fl (g_s g))) -> XInv g'.
Proof. intros (X1 & X2) E1 E2 E3. unfold XInv. rewrite E1, E2. split; [exact X1|]. intros R. rewrite (E3 R). apply X2. exact R. Qed.

Lemma step_X g t a g' acts : Inv2 g -> XInv g -> gstep g t a = Some (g', acts) -> XInv g'.
Proof.
  intros [HI HH] HX H. pose proof HI as [HG HT]. pose proof HG as (_ & _ & _ & (_ & _ & HD3 & _) & _).
  assert (NoRel : released (fl (g_s g)) = false -> released (o_dqf g) = true -> False).
  { intros A B. rewrite (HD3 B) in A. discriminate. }
  destruct a; unfold gstep in H.
  - destruct (activated g || released (fl (g_s g))) eqn:E; [discriminate|]. apply orb_false_iff in E as [Na Nr].
    destruct (activate_src (g_k g) o (g_s g)) as [s1 a] eqn:Ea. injection H as <- _.
    apply (XInv_frame g); auto. intros R. exfalso. apply (NoRel Nr R).
  - destruct (released (fl (g_s g))) eqn:Nr; [discriminate|].
    match type of H with (if ?c then _ else _) = _ => destruct c end; [discriminate|]. injection H as <- _.
    apply (XInv_frame g); auto. intros R. exfalso. apply (NoRel eq_refl R).
  - destruct (released (fl (g_s g))); [discriminate|]. injection H as <- _. apply (XInv_frame g); auto.
  - destruct (released (fl (g_s g))); [discriminate|]. injection H as <- _. apply (XInv_frame g); auto.
  - match type of H with (if ?c then _ else _) = _ => destruct c eqn:E end; [|discriminate]. injection H as <- _.
    apply andb_true_iff in E as [E _]. apply andb_true_iff in E as [E _]. apply andb_true_iff in E as [Kr _].
    destruct HG as ((HA1 & _) & _). destruct (event_du_facts (g_k g) stay_armed (g_s g) HA1 Kr) as (_ & _ & E1 & _).
    apply (XInv_frame g); auto. cbn. rewrite E1. auto.
  - match type of H with (if ?c then _ else _) = _ => destruct c end; [|discriminate]. injection H as <- _. apply (XInv_frame g); auto.
  - destruct (step_hmerge g t g' acts HI HH H) as [_ ->].
    destruct (m_hup g); [|discriminate]. cbv zeta in H.
    match type of H with (if ?c then _ else _) = _ => destruct c end.
    + destruct (finalize (with_pending (g_s g) true)) as [s2 a2] eqn:F. injection H as <- E2.
      unfold finalize in F. injection F as <- <-. discriminate E2.
    + injection H as <-. apply (XInv_frame g); auto.
  - destruct (owner g); [discriminate|]. destruct (activated g); [|discriminate]. cbn [andb] in H.
    match type of H with (if ?c then _ else _) = _ => destruct c end; [|discriminate]. injection H as <- _.
    unfold XInv. cbn. split; intros X; discriminate.
  - (* GPhase *)
    pose proof (gstep_phase g t o g' acts H) as S. cbv zeta in S.
    set (i0 := mkI (g_s g) (o_pc g) (o_dqf g) (o_retq g) (o_avoid g)) in *. set (p := phase (g_k g) (o_q g) o i0) in *.
    destruct S as (Ow & Ea & Es & Epc & Edqf & _).
    pose proof (phase_facts (g_k g) (o_q g) o i0) as F. cbv zeta in F. fold p in F. cbn [i_src i_pc i_dqf i0] in F.
    destruct F as (_ & (F2c & _) & _ & _ & F5 & _).
    pose proof (phase_dqf (g_k g) (o_q g) o i0) as D. cbv zeta in D. fold p in D. cbn [i_src i_pc i_dqf i0] in D.
    destruct D as (D1 & D2). destruct HX as (X1 & X2).
    unfold XInv. rewrite Epc, Edqf, Es, F2c. split.
    + intros P. rewrite (D2 P). destruct (F5 P) as (_ & _ & C & R & _). unfold canc_or_rel. rewrite C, R. reflexivity.
    + destruct D1 as [D|[D|D]]; rewrite D; [exact X2 | reflexivity | intros X; discriminate].
  - destruct (cpc g t); try discriminate.
    destruct (h_ca (g_s g) || released (fl (g_s g)) || is_owner g t) eqn:E; [discriminate|].
    apply orb_false_iff in E as [E _]. apply orb_false_iff in E as [_ Nr].
    destruct (m_caw_loop (g_k g) (fl (g_s g))); injection H as <- _; apply (XInv_frame g); auto.
    intros R. exfalso. apply (NoRel Nr R).
  - destruct (cpc g t) as [ | oldf newf | | | d | d | | ] eqn:Ec; try discriminate.
    + destruct (deleted oldf); [injection H as <- _; apply (XInv_frame g); auto|].
      destruct (waiter newf); [injection H as <- _; apply (XInv_frame g); auto|].
      destruct (activated g) eqn:Na; cbn [negb] in H.
      * destruct lock.
        -- destruct (owner g); [discriminate|]. injection H as <- _. unfold XInv. cbn. split; intros X; discriminate.
        -- injection H as <- _. apply (XInv_frame g); auto.
      * destruct (canceled (fl (g_s g))) eqn:Cc; [|discriminate].
        destruct (activate_src (g_k g) o (g_s g)) as [s1 a] eqn:Ea. injection H as <- _.
        apply (XInv_frame g); auto. intros R. cbn.
        destruct HG as ((HA1 & HA2 & _) & _).
        assert (Ni : installed (g_s g) = false).
        { destruct (installed (g_s g)) eqn:E; [|reflexivity]. rewrite (HA2 eq_refl) in Na. discriminate. }
        destruct (activate_src_eff (g_k g) o (g_s g) HA1 Ni) as (_ & _ & E3 & _). rewrite Ea in E3. exact E3.
    + injection H as <- _. apply (XInv_frame g); auto.
    + destruct (deleted d); [injection H as <- _; apply (XInv_frame g); auto|].
      destruct (negb (waiter d)); [|injection H as <- _; apply (XInv_frame g); auto].
      destruct (flags_eqb (fl (g_s g)) d) eqn:Fe; injection H as <- _; apply (XInv_frame g); auto.
      apply flags_eqb_eq in Fe. subst d. cbn. auto.
    + destruct (flags_eqb (fl (g_s g)) d && lock); injection H as <- _; apply (XInv_frame g); auto.
    + injection H as <- _. apply (XInv_frame g); auto.
  - destruct (cpc g t); try discriminate. injection H as <- _. apply (XInv_frame g); auto.
Qed.

Theorem XInv_reach k ev ca rg g : reach k ev ca rg g -> XInv g.
Proof.
  intros R. induction R as [s Hi | s [t a] s' R IH [acts Hs]].
  - subst s. unfold XInv, init_state. cbn. split; intros X; discriminate.
  - eapply step_X; [apply (Inv2_reach _ _ _ _ _ R) | exact IH | exact Hs].
Qed.

(* ------------------------------------------------------------------ the link *)
(* what the monitor of thread t knows, given the model's view of t *)
Definition mrel (g : gst) (t : Z) (m : mst) : Prop :=
  m_wake m = false /\
  (is_owner g t = true -> prel (o_pc g) (o_dqf g) m) /\
  (forall d, cpc g t = CWTest d -> m_last m = Some (enc d)).
(* a thread is in one call at a time: a thread inside cancel_and_wait's wait loop neither activates nor invokes the source *)
Definition thread_ok (g : gst) (t : Z) (a : act) : Prop :=
  match a with
  | GActivate _ | GInvoke _ | GPhase _ => forall d, cpc g t <> CWTest d
  | GCawStep _ _ | GFutexRet => is_owner g t = false     (* the wait loop runs outside the drain lock *)
  (* cancel / release are calls of their own: not from inside the wait loop, and from inside an invoke only out of a callout *)
  | GCancel cx => (forall d, cpc g t <> CWTest d) /\ (cx <> CxHandler -> is_owner g t = false)
  | GRelease => (forall d, cpc g t <> CWTest d) /\ is_owner g t = false
  | _ => True
  end.

Lemma mrel_same g g' t m :
  mrel g t m -> is_owner g' t = is_owner g t -> o_pc g' = o_pc g -> o_dqf g' = o_dqf g -> cpc g' t = cpc g t -> mrel g' t m.
Proof. unfold mrel. intros (A & B & C) -> -> -> ->. auto. Qed.

Lemma mrun_activate k l s acts : deleted (fl s) = false ->
  (acts = [] \/ acts = [AInstall true] \/ acts = [AFinalize (waiter (fl s)) (deleted (fl s))] \/
   acts = [AInstall false; AFinalize (waiter (fl s)) (deleted (fl s))]) ->
  exists l', mrun k (mkM l false) (E_load (enc (fl s)) :: flat_map (emit_action (fl s)) acts) = Some (mkM l' false).
Proof.
  intros D [E | [E | [E | E]]]; subst acts; rewrite r_load; cbn [flat_map].
  - eexists; reflexivity.
  - eexists; reflexivity.
  - rewrite (r_fin k _ (fl s) (deleted (fl s)) [] D). eexists; reflexivity.
  - change (emit_action (fl s) (AInstall false) ++ emit_action (fl s) (AFinalize (waiter (fl s)) (deleted (fl s))) ++ [])
      with (emit_action (fl s) (AFinalize (waiter (fl s)) (deleted (fl s))) ++ []).
    rewrite (r_fin k _ (fl s) (deleted (fl s)) [] D). eexists; reflexivity.
Qed.

Lemma activate_acts_shape k o s : canceled (fl s) = true \/ installed s = false ->
  let acts := snd (activate_src k o s) in
  acts = [] \/ acts = [AInstall true] \/ acts = [AFinalize (waiter (fl s)) (deleted (fl s))] \/
  acts = [AInstall false; AFinalize (waiter (fl s)) (deleted (fl s))].
Proof.
  intros _. cbv zeta. unfold activate_src. destruct (canceled (fl s)); [right; right; left; reflexivity|].
  destruct ((k_direct k || k_timer k) && negb (installed s) && c_ovc o); [|left; reflexivity].
  unfold install. destruct (c_reg_ok o || k_timer k || k_direct k && negb (k_rearm k)); [right; left; reflexivity|].
  right; right; right. reflexivity.
Qed.

Theorem step_mon kk ev ca rg g t a g' acts m :
  reach kk ev ca rg g -> mrel g t m -> thread_ok g t a -> gstep g t a = Some (g', acts) ->
  exists m', mrun (g_k g) m (emit g t a acts) = Some m' /\ mrel g' t m'.
Proof.
  intros Hr (Mw & Mo & Mc) Tok H.
  pose proof (Inv2_reach _ _ _ _ _ Hr) as [HI HH]. pose proof HI as [HG HT]. pose proof (XInv_reach _ _ _ _ _ Hr) as (X1 & X2).
  destruct m as [ml mw]. cbn in Mw. subst mw.
  assert (Same : forall g1, is_owner g1 t = is_owner g t -> o_pc g1 = o_pc g -> o_dqf g1 = o_dqf g -> cpc g1 t = cpc g t ->
                 mrel g1 t (mkM ml false)).
  { intros g1 E1 E2 E3 E4. apply (mrel_same g); auto. split; [reflexivity|]. split; assumption. }
  assert (NotDel : activated g = false -> deleted (fl (g_s g)) = false).
  { intros Na. destruct HG as ((HA1 & HA2 & _) & _). destruct (deleted (fl (g_s g))) eqn:D; [|reflexivity].
    destruct HA1 as (S1 & _). destruct (S1 D) as (_ & _ & I & _). rewrite (HA2 I) in Na. discriminate. }
  assert (NoOwner : activated g = false -> owner g = None).
  { intros Na. destruct HG as ((_ & _ & HA3 & _) & _). destruct (owner g) eqn:E; [|reflexivity].
    assert (X : Some z <> None) by discriminate. rewrite (HA3 X) in Na. discriminate. }
  destruct a; unfold emit; pose proof H as H0; unfold gstep in H.
  - (* GActivate *)
    destruct (activated g || released (fl (g_s g))) eqn:E; [discriminate|]. apply orb_false_iff in E as [Na _].
    destruct (activate_src (g_k g) o (g_s g)) as [s1 a] eqn:Ea. injection H as <- <-.
    destruct (mrun_activate (g_k g) ml (g_s g) a (NotDel Na)) as [l' X].
    { change a with (snd (s1, a)). rewrite <- Ea. apply activate_acts_shape. right.
      destruct HG as ((_ & HA2 & _) & _). destruct (installed (g_s g)) eqn:I; [|reflexivity]. rewrite (HA2 eq_refl) in Na. discriminate. }
    exists (mkM l' false). split; [exact X|]. split; [reflexivity|]. split.
    + intros O. unfold is_owner in O. cbn in O. rewrite (NoOwner Na) in O. discriminate.
    + intros d C. cbn in C. exfalso. apply (Tok d C).
  - (* GCancel: the monitor forgets what the thread had read; nothing is needed at the program points a callout is at *)
    destruct Tok as [TokC TokO].
    destruct (released (fl (g_s g))); [discriminate|].
    match type of H with (if negb ?c then _ else _) = _ => destruct c eqn:Al end; [|discriminate]. cbn [negb] in H.
    injection H as <- <-.
    exists (mkM None false). split; [reflexivity|]. split; [reflexivity|]. split.
    + intros O. change (is_owner g t = true) in O. change (prel (o_pc g) (o_dqf g) (mkM None false)).
      match goal with x : cctx |- _ => destruct x end.
      * rewrite (TokO ltac:(discriminate)) in O. discriminate.
      * apply andb_prop in Al as [_ Al]. unfold prel. cbn [m_wake m_last]. split; [reflexivity|].
        destruct (o_pc g); try discriminate; split; intros X; discriminate.
      * rewrite (TokO ltac:(discriminate)) in O. discriminate.
    + intros d C. exfalso. apply (TokC d C).
  - (* GRelease *)
    destruct Tok as [TokC TokO].
    destruct (released (fl (g_s g))); [discriminate|]. injection H as <- <-.
    exists (mkM None false). split; [reflexivity|]. split; [reflexivity|]. split.
    + intros O. change (is_owner g t = true) in O. rewrite TokO in O. discriminate.
    + intros d C. exfalso. apply (TokC d C).
  - destruct (released (fl (g_s g))); [discriminate|]. injection H as <- <-.
    exists (mkM ml false). split; [reflexivity|]. apply Same; reflexivity.
  - match type of H with (if ?c then _ else _) = _ => destruct c end; [|discriminate]. injection H as <- <-.
    exists (mkM ml false). split; [reflexivity|]. apply Same; reflexivity.
  - match type of H with (if ?c then _ else _) = _ => destruct c end; [|discriminate]. injection H as <- <-.
    exists (mkM ml false). split; [reflexivity|]. apply Same; reflexivity.
  - (* GEvMerge *)
    destruct (step_hmerge g t g' acts HI HH H0) as [_ ->].
    destruct (m_hup g); [|discriminate]. cbv zeta in H.
    match type of H with (if ?c then _ else _) = _ => destruct c end.
    + destruct (finalize (with_pending (g_s g) true)) as [s2 a2] eqn:F. injection H as <- E2.
      unfold finalize in F. injection F as <- <-. discriminate E2.
    + injection H as <-. exists (mkM ml false). split; [reflexivity|]. apply Same; reflexivity.
  - (* GInvoke *)
    destruct (owner g) eqn:Ow; [discriminate|]. destruct (activated g); [|discriminate]. cbn [andb] in H.
    match type of H with (if ?c then _ else _) = _ => destruct c end; [|discriminate]. injection H as <- <-.
    exists (mkM (Some (enc (fl (g_s g)))) false). split; [reflexivity|]. split; [reflexivity|]. split.
    + intros _. cbn. unfold prel. cbn. split; [reflexivity|]. split; [intros _; eexists; reflexivity | intros X; discriminate].
    + intros d C. cbn in C. exfalso. apply (Tok d C).
  - (* GPhase *)
    pose proof (gstep_phase g t o g' acts H0) as S. cbv zeta in S.
    set (i0 := mkI (g_s g) (o_pc g) (o_dqf g) (o_retq g) (o_avoid g)) in *. set (p := phase (g_k g) (o_q g) o i0) in *.
    destruct S as (Ow & Ea & Es & Epc & Edqf & _ & _ & _ & Eow & _ & _ & _ & _ & _ & _ & _ & _ & Ecpt).
    assert (Io : is_owner g t = true) by (unfold is_owner; rewrite Ow; apply Z.eqb_refl).
    pose proof (finalized_once kk ev ca rg g t (GPhase o) g' acts Hr H0) as Fo.
    destruct HG as ((_ & _ & _ & _ & _ & _ & HA7) & _).
    destruct (phase_mon (g_k g) (o_q g) o i0 (mkM ml false)) as [m' [R1 R2]].
    + apply Mo. exact Io.
    + exact X1.
    + exact X2.
    + fold p. rewrite <- Ea. exact Fo.
    + intros C. apply HA7. exact C.
    + exists m'. fold p in R1, R2. rewrite <- Ea in R1. split; [exact R1|].
      split; [destruct R2; assumption|]. split.
      * intros _. rewrite Epc, Edqf. exact R2.
      * intros d C. destruct Ecpt as [E|[E1 E2]]; [rewrite E in C; exfalso; apply (Tok d C) | rewrite E2 in C; discriminate].
  - (* GCawEnter *)
    destruct (cpc g t) eqn:Ec; try discriminate.
    match type of H with (if ?c then _ else _) = _ => destruct c eqn:Pre end; [discriminate|].
    apply orb_false_iff in Pre as [_ No].
    destruct (m_caw_loop (g_k g) (fl (g_s g))) as [f'|] eqn:L; injection H as <- <-.
    + destruct (caw_loop_some _ _ _ L) as (W0 & _).
      eexists. split.
      * rewrite r_load. cbn [SrcLife_mon_proofs.mrun]. rewrite ms_casw. cbv zeta. rewrite (caw_commits _ _ _ L), orb_true_r. cbn [orb].
        destruct (has_enc (fl (g_s g))) as (_ & W & _). rewrite W, W0, andb_false_r. reflexivity.
      * split; [reflexivity|]. split.
        -- intros O. unfold is_owner in O. cbn in O. unfold is_owner in No. rewrite No in O. discriminate.
        -- intros d C. cbn in C. rewrite upd_same in C. discriminate.
    + eexists. split; [reflexivity|]. split; [reflexivity|]. split.
      * intros O. unfold is_owner in O. cbn in O. unfold is_owner in No. rewrite No in O. discriminate.
      * intros d C. cbn in C. rewrite upd_same in C. discriminate.
  - (* GCawStep *)
    destruct (HT t) as (_ & _ & _ & T4 & _). cbn in Tok.
    assert (NoO : forall g1 p, owner g1 = owner g -> is_owner (set_cpc g1 t p) t = true -> False).
    { intros g1 p E O. unfold is_owner in O, Tok. cbn in O. rewrite E in O. rewrite O in Tok. discriminate. }
    destruct (cpc g t) as [ | oldf newf | | | d | d | | ] eqn:Ec; try discriminate.
    + destruct (deleted oldf) eqn:Do; cbn [orb].
      { injection H as <- <-. exists (mkM ml false). split; [reflexivity|]. split; [reflexivity|]. split.
        - intros O. exfalso. apply (NoO g CRet eq_refl O).
        - intros d C. cbn in C. rewrite upd_same in C. discriminate. }
      destruct (waiter newf) eqn:Wn; cbn [orb].
      { injection H as <- <-. exists (mkM ml false). split; [reflexivity|]. split; [reflexivity|]. split.
        - intros O. exfalso. apply (NoO g CWLoad eq_refl O).
        - intros d C. cbn in C. rewrite upd_same in C. discriminate. }
      destruct (activated g) eqn:Na; cbn [negb] in H.
      * destruct lock.
        -- destruct (owner g) eqn:Ow; [discriminate|]. injection H as <- <-.
           exists (mkM ml false). split; [reflexivity|]. split; [reflexivity|]. split.
           ++ intros _. cbn. unfold prel. cbn. split; [reflexivity|]. split; intros X; discriminate.
           ++ intros d C. cbn in C. rewrite upd_same in C. discriminate.
        -- injection H as <- <-. exists (mkM ml false). split; [reflexivity|]. split; [reflexivity|]. split.
           ++ intros O. exfalso. apply (NoO g CWLoad eq_refl O).
           ++ intros d C. cbn in C. rewrite upd_same in C. discriminate.
      * destruct (canceled (fl (g_s g))) eqn:Cc; [|discriminate].
        destruct (activate_src (g_k g) o (g_s g)) as [s1 a] eqn:Ea. injection H as <- <-.
        destruct (mrun_activate (g_k g) ml (g_s g) a (NotDel eq_refl)) as [l' X].
        { change a with (snd (s1, a)). rewrite <- Ea. apply activate_acts_shape. left. exact Cc. }
        exists (mkM l' false). split; [exact X|]. split; [reflexivity|]. split.
        -- intros O. unfold is_owner in O. cbn in O. rewrite (NoOwner eq_refl) in O. discriminate.
        -- intros d C. cbn in C. rewrite upd_same in C. discriminate.
    + (* CWLoad *)
      injection H as <- <-. exists (mkM (Some (enc (fl (g_s g)))) false). split; [reflexivity|]. split; [reflexivity|]. split.
      * intros O. exfalso. apply (NoO g (CWTest (fl (g_s g))) eq_refl O).
      * intros d C. cbn in C. rewrite upd_same in C. injection C as <-. reflexivity.
    + (* CWTest *)
      pose proof (Mc d eq_refl) as Ml. cbn in Ml. subst ml.
      destruct (deleted d) eqn:Dd; cbn [orb].
      { injection H as <- <-. exists (mkM (Some (enc d)) false). split; [reflexivity|]. split; [reflexivity|]. split.
        - intros O. exfalso. apply (NoO g CRet eq_refl O).
        - intros d' C. cbn in C. rewrite upd_same in C. discriminate. }
      destruct (waiter d) eqn:Wd; cbn [negb orb] in *.
      { injection H as <- <-. exists (mkM (Some (enc d)) false). split; [reflexivity|]. split; [reflexivity|]. split.
        - intros O. exfalso. apply (NoO g (CWFutex d) eq_refl O).
        - intros d' C. cbn in C. rewrite upd_same in C. discriminate. }
      destruct (has_enc d) as (_ & Hw & _ & Hd & _).
      destruct (flags_eqb (fl (g_s g)) d) eqn:Fe.
      * apply flags_eqb_eq in Fe. injection H as <- <-. rewrite Fe.
        eexists. split.
        -- cbn [SrcLife_mon_proofs.mrun]. rewrite ms_cas, Z.eqb_refl, Hd, Hw, Dd, Wd. cbn [negb andb]. change (1 =? 1) with true. cbn iota.
           rewrite Z.eqb_refl. reflexivity.
        -- split; [reflexivity|]. split.
           ++ intros O. exfalso. apply (NoO (set_src g (with_fl (g_s g) (set_waiter d)) []) (CWFutex (set_waiter d)) eq_refl O).
           ++ intros d' C. cbn in C. rewrite upd_same in C. discriminate.
      * injection H as <- <-. eexists. split.
        -- cbn [SrcLife_mon_proofs.mrun]. rewrite ms_cas, Z.eqb_refl, Hd, Hw, Dd, Wd. cbn [negb andb]. change (0 =? 1) with false. cbn iota. reflexivity.
        -- split; [reflexivity|]. split.
           ++ intros O. exfalso. apply (NoO g (CWTest (fl (g_s g))) eq_refl O).
           ++ intros d' C. cbn in C. rewrite upd_same in C. injection C as <-. reflexivity.
    + (* CWFutex *)
      destruct (T4 d eq_refl) as [Wd Dd]. destruct (has_enc d) as (_ & Hw & _ & Hd & _).
      assert (X : mrun (g_k g) (mkM ml false) [E_ DV_FUTEX_WAIT (enc d) 0 1] = Some (mkM ml false)).
      { cbn [SrcLife_mon_proofs.mrun]. rewrite ms_fwait, Hw, Hd, Wd, Dd. reflexivity. }
      destruct (flags_eqb (fl (g_s g)) d && lock); injection H as <- <-; exists (mkM ml false); (split; [exact X|]);
        (split; [reflexivity|]); split.
      * intros O. exfalso. unfold is_owner in O, Tok. cbn in O. rewrite O in Tok. discriminate.
      * intros d' C. cbn in C. rewrite upd_same in C. discriminate.
      * intros O. exfalso. apply (NoO g CWLoad eq_refl O).
      * intros d' C. cbn in C. rewrite upd_same in C. discriminate.
    + (* CRet *)
      injection H as <- <-. exists (mkM ml false). split; [reflexivity|]. split; [reflexivity|]. split.
      * intros O. exfalso. unfold is_owner in O, Tok. cbn in O. rewrite O in Tok. discriminate.
      * intros d' C. cbn in C. rewrite upd_same in C. discriminate.
  - (* GFutexRet *)
    cbn in Tok. destruct (cpc g t) eqn:Ec; try discriminate. injection H as <- <-.
    exists (mkM ml false). split; [reflexivity|]. split; [reflexivity|]. split.
    + intros O. exfalso. unfold is_owner in O, Tok. cbn in O. rewrite O in Tok. discriminate.
    + intros d' C. cbn in C. rewrite upd_same in C. discriminate.
Qed.

(* the monitors of the other threads are not concerned by a step of t *)
Ltac brk H :=
  repeat match type of H with
         | (if ?c then _ else _) = _ => destruct c
         | (match ?c with _ => _ end) = _ => destruct c
         | (let '(_, _) := ?c in _) = _ => destruct c
         end; try discriminate.

Lemma gstep_other g t a g' acts u : gstep g t a = Some (g', acts) -> u <> t ->
  cpc g' u = cpc g u /\ (is_owner g' u = true -> is_owner g u = true /\ o_pc g' = o_pc g /\ o_dqf g' = o_dqf g).
Proof.
  intros H Ne.
  assert (Neb : (t =? u) = false) by (apply Z.eqb_neq; congruence).
  destruct a.
  9: { pose proof (gstep_phase g t o g' acts H) as S. cbv zeta in S.
       destruct S as (Ow & _ & _ & _ & _ & _ & _ & _ & Eow & _ & _ & _ & _ & _ & _ & _ & Ecpo & _).
       split; [apply Ecpo; exact Ne|]. intros O. exfalso. unfold is_owner in O. rewrite Eow in O.
       destruct (phase _ _ _ _); [rewrite Ow, Neb in O; discriminate | discriminate]. }
  all: unfold gstep in H; cbv zeta in H; brk H; injection H as <- _; cbn; unfold is_owner; cbn; rewrite ?upd_other by exact Ne;
    (split; [reflexivity|]); intros O; try rewrite Neb in O; try discriminate O; auto.
Qed.

Theorem step_mon_other g t a g' acts u m : gstep g t a = Some (g', acts) -> u <> t -> mrel g u m -> mrel g' u m.
Proof.
  intros H Ne (A & B & C). destruct (gstep_other g t a g' acts u H Ne) as [Ec Eo].
  split; [exact A|]. split.
  - intros O. destruct (Eo O) as (O' & E1 & E2). rewrite E1, E2. apply B. exact O'.
  - intros d. rewrite Ec. apply C.
Qed.

(* the monitor of a thread that has done nothing yet *)
Lemma mrel_init k ev ca rg t : mrel (init_state k ev ca rg) t (mkM None false).
Proof. split; [reflexivity|]. split; intros; discriminate. Qed.
