(* SrcLife_mon_proofs.v — link between the global model and the per-thread conformance monitor SrcLife.mon_step:
   every step of SrcLife.gstep taken by a thread, seen as the events SrcLife.emit (operations on dq_atomic_flags with the
   five modelled bits as values, futex calls, callout marks), is accepted by the monitor of that thread, and the relation
   between the model's view of the thread and the monitor's state is maintained; the monitors of the other threads are not
   concerned.  So the monitor never rejects a behaviour of the model.  The converse is false and not claimed: the monitor
   watches one thread and one word; it cannot see enabling conditions that depend on other words or other threads (that is
   what the global replay, Model/SrcLifeR.v, is for). *)
From Coq Require Import ZArith Bool List Lia.
From Verif Require Import Word Bits Conc Gen_consts Gen_fields Gen_srclife SrcLife SrcLife_phase_proofs SrcLife_proofs.
Import ListNotations.
Local Open Scope Z_scope.

Section Mon.
  Variable k : kind.
  Let kt := b2z (k_timer k). Let kd := b2z (k_direct k).

  Fixpoint mrun (m : mst) (evs : list event) : option mst :=
    match evs with
    | [] => Some m
    | e :: r => match mon_step kt kd m e with Some m' => mrun m' r | None => None end
    end.
  Lemma mrun_app m a b : mrun m (a ++ b) = match mrun m a with Some m' => mrun m' b | None => None end.
  Proof. revert m. induction a as [|e a IH]; intros m; cbn; [reflexivity|]. destruct (mon_step kt kd m e); auto. Qed.
  Lemma mrun_run_trace : forall evs m m' i, mrun m evs = Some m' -> run_trace (mon_step kt kd) m evs i = (m', -1).
  Proof.
    induction evs as [|e r IH]; intros m m' i H; cbn in *.
    - injection H as <-. reflexivity.
    - destruct (mon_step kt kd m e) as [m1|]; [|discriminate]. apply IH. exact H.
  Qed.
End Mon.

(* ------------------------------------------------------------------ the five bits *)
Ltac all_flags f := destruct f as [[] [] [] [] []].

Lemma has_enc f : has (enc f) BIT_CANCELED = canceled f /\ has (enc f) BIT_WAITER = waiter f /\
  has (enc f) BIT_NEEDS_EVENT = needs_event f /\ has (enc f) BIT_DELETED = deleted f /\ has (enc f) BIT_RELEASED = released f.
Proof. all_flags f; vm_compute; repeat split. Qed.
Lemma dec_enc f : dec (enc f) = f.
Proof. all_flags f; vm_compute; reflexivity. Qed.
Lemma fin_commits f : deleted f = false ->
  is_commit (flags_set_and_clear_loop 0 DSF_DELETED (Z.lor DSF_NEEDS_EVENT DSF_CANCEL_WAITER) (enc f)) (fin_new f) = true.
Proof. all_flags f; intros H; try discriminate H; vm_compute; reflexivity. Qed.
Lemma ne_commits f : needs_event f || deleted f = false -> is_commit (refs_unregister_loop 0 0 (enc f)) (ne_new f) = true.
Proof. all_flags f; intros H; try discriminate H; vm_compute; reflexivity. Qed.
Lemma caw_commits k f f' : m_caw_loop k f = Some f' ->
  is_commit (cancel_and_wait_loop 0 (enc f) (b2z (k_timer k)) (b2z (k_direct k))) (caw_new k f) = true.
Proof. destruct k as [[] [] []]; all_flags f; intros H; try discriminate H; vm_compute; reflexivity. Qed.

(* ------------------------------------------------------------------ what the monitor does with the events of the actions *)
Definition ok_eh (v : Z) : bool := negb (has v BIT_CANCELED) && negb (has v BIT_RELEASED).
Definition ok_ch (v : Z) : bool := has v BIT_CANCELED && has v BIT_DELETED.
Lemma ok_eh_enc d : canc_or_rel d = false -> ok_eh (enc d) = true.
Proof. all_flags d; cbn; intros H; try discriminate H; vm_compute; reflexivity. Qed.
Lemma ok_ch_enc d : canceled d = true -> deleted d = true -> ok_ch (enc d) = true.
Proof. all_flags d; cbn; intros H1 H2; try discriminate; vm_compute; reflexivity. Qed.

Section Rules.
  Variable k : kind.
  Notation mrun := (mrun k).
  Lemma r_load l v r : mrun (mkM l false) (E_load v :: r) = mrun (mkM (Some v) false) r.
  Proof. reflexivity. Qed.
  Lemma r_fin l f tw r : deleted f = false ->
    mrun (mkM l false) (emit_action f (AFinalize (waiter f) tw) ++ r) = mrun (mkM (Some (fin_new f)) false) r.
  Proof.
    intros D. destruct (has_enc f) as (_ & W & _). unfold emit_action.
    destruct (waiter f) eqn:Wf; cbn [app]; rewrite r_load;
      cbn [SrcLife_mon_proofs.mrun]; unfold mon_step; cbn [m_wake m_last E_ ek ea eb eok];
      change (DV_CASW =? DV_LOAD) with false; change (DV_CASW =? DV_OR) with false; change (DV_CASW =? DV_AND) with false;
      change (DV_CASW =? DV_CASW) with true; cbn iota;
      rewrite (fin_commits f D); cbn [orb]; change (1 =? 1) with true; cbn iota; rewrite Z.eqb_refl, W; cbn [andb m_wake m_last].
    - change (DV_FUTEX_WAKE =? DV_FUTEX_WAKE) with true. cbn iota. reflexivity.
    - reflexivity.
  Qed.
  Lemma r_ne l f r : mrun (mkM l false) (emit_action f ANeedsEvent ++ r) =
    mrun (mkM (Some (if needs_event f || deleted f then enc f else ne_new f)) false) r.
  Proof.
    cbn [emit_action]. destruct (needs_event f || deleted f) eqn:E; cbn [app]; rewrite r_load; [reflexivity|].
    cbn [SrcLife_mon_proofs.mrun]. unfold mon_step. cbn [m_wake m_last E_ ek ea eb eok].
    change (DV_CASW =? DV_LOAD) with false. change (DV_CASW =? DV_OR) with false. change (DV_CASW =? DV_AND) with false.
    change (DV_CASW =? DV_CASW) with true. cbn iota.
    rewrite (ne_commits f E), !orb_true_r. change (1 =? 1) with true. cbn iota. rewrite Z.eqb_refl.
    assert (X : is_commit (flags_set_and_clear_loop 0 DSF_DELETED (Z.lor DSF_NEEDS_EVENT DSF_CANCEL_WAITER) (enc f)) (ne_new f) &&
                has (enc f) BIT_WAITER = false).
    { apply orb_false_iff in E as [E1 E2]. revert E1 E2. all_flags f; cbn; intros; try discriminate; vm_compute; reflexivity. }
    rewrite X. reflexivity.
  Qed.
  Lemma r_cb0 v r : ok_eh v = true -> mrun (mkM (Some v) false) (E_ DVU_CALLOUT_BEGIN 0 1 1 :: r) = mrun (mkM None false) r.
  Proof. intros H. cbn [SrcLife_mon_proofs.mrun]. unfold mon_step, ok_eh in *. cbn [m_wake m_last E_ ek ea]. vm_compute (_ =? _). cbn iota. rewrite H. reflexivity. Qed.
  Lemma r_cb1 v r : ok_ch v = true -> mrun (mkM (Some v) false) (E_ DVU_CALLOUT_BEGIN 1 1 1 :: r) = mrun (mkM None false) r.
  Proof. intros H. cbn [SrcLife_mon_proofs.mrun]. unfold mon_step, ok_ch in *. cbn [m_wake m_last E_ ek ea]. vm_compute (_ =? _). cbn iota. rewrite H. reflexivity. Qed.
  Lemma r_ce l a r : mrun (mkM l false) (E_ DVU_CALLOUT_END a 0 1 :: r) = mrun (mkM l false) r.
  Proof. reflexivity. Qed.
End Rules.
