(* Apply_measure.v — termination of the _dispatch_apply_invoke2 protocol (Model/Apply.v): a potential function Phi on the
   global states such that EVERY step of EVERY participant (including the start of a helper) strictly decreases it,
   except a spurious return of futex_wait (the kernel returns although the caller was not woken and the word had not
   changed), which raises it by at most 2.  There is no compare-and-swap loop in this protocol (all shared operations
   are fetch-and-add / fetch-and-sub / load), so no fairness assumption about failing CAS is needed; the only loop that
   the code does not bound by itself is `for (;;) { load; futex_wait }` of _dispatch_thread_event_wait_slow, and that
   one is paid as follows: a caller asleep in futex_wait is BLOCKED (the return is not a step) until the signaller's
   futex_wake; a return after the wake or after the word changed leads to a load that sees 0 and leaves the loop.
   Hence: from every reachable state every execution has at most Phi(s) + 3 * (number of spurious futex returns)
   further steps, whatever helpers start or never start; and a state in which no participant that has entered can take
   a step (a blocked sleeper counts as "cannot step") has the caller returned with every index invoked and finished
   exactly once.  Each index is paid once (3 units: claim, callout begin, callout end), each participant pays its own
   overshooting increment, subtraction, signal, wake, decrement; an unstarted continuation is worth 6. *)
From Coq Require Import ZArith Bool List Lia.
From Verif Require Import Word Bits Conc Gen_consts Gen_fields Gen_apply Apply Apply_proofs.
Import ListNotations.
Local Open Scope Z_scope.

Definition phi (w : bool) (p : pc) : Z :=
  match p with
  | PIdle => 0
  | PFirst => if w then 11 else 5
  | PCall _ _ => if w then 13 else 7
  | PInCall _ _ => if w then 12 else 6
  | PNext _ => if w then 11 else 5
  | PSub _ => if w then 10 else 4
  | PSignal => if w then 9 else 3
  | PWake => if w then 8 else 2
  | PWaitDec => 7
  | PWaitLoad => 3
  | PWaitFutex => 5
  | PWaitSleep => 4
  | PDec => if w then 2 else 1
  | PDone => if w then 1 else 0
  | PRet => 0
  | PCrash => 0
  end.
Lemma phi_nonneg w p : 0 <= phi w p. Proof. destruct p, w; cbn; lia. Qed.
Lemma phi_out w : phi w (out w) = if w then 7 else 1. Proof. destruct w; reflexivity. Qed.

Definition is_waitload (p : pc) : bool := match p with PWaitLoad => true | _ => false end.
Definition is_waitsleep (p : pc) : bool := match p with PWaitSleep => true | _ => false end.
Definition is_sleeping (x : sleepst) : bool := match x with Sleeping => true | _ => false end.

Lemma lsum_upd2_notin (g : Z -> pc -> Z) (f : Z -> pc) t p l : ~ In t l ->
  lsum (fun u => g u (upd f t p u)) l = lsum (fun u => g u (f u)) l.
Proof. intros H. apply lsum_ext. intros u Hu. rewrite upd_other; [reflexivity|]. intros ->. contradiction. Qed.
Lemma lsum_upd2_in (g : Z -> pc -> Z) (f : Z -> pc) t p l : NoDup l -> In t l ->
  lsum (fun u => g u (upd f t p u)) l = lsum (fun u => g u (f u)) l - g t (f t) + g t p.
Proof.
  induction l as [|x l IH]; intros Hn Hin; [contradiction|]. inversion Hn as [|? ? Hx Hn']; subst. cbn [lsum].
  destruct Hin as [->|Hin].
  - rewrite upd_same. rewrite lsum_upd2_notin by exact Hx. lia.
  - rewrite upd_other by (intros ->; contradiction). rewrite IH by assumption. lia.
Qed.

Section Measure.
Variables (n T c : Z).
Hypothesis VP : valid_params n T.
Notation gstep := (gstep n T c).
Notation reach := (reach n T c).
Notation Inv := (Inv n T c).

(* the caller at the load of the wait loop before the signal: it will go round once more *)
Definition bonus (s : gst) : Z := if negb (sigd s) && is_waitload (pcs s c) then 3 else 0.
Definition Phi (s : gst) : Z :=
  lsum (fun u => phi (u =? c) (pcs s u)) (parts s) + 3 * (n - Z.min (index s) n) +
  6 * (T - Z.of_nat (length (parts s))) + bonus s.
(* the kernel returns from futex_wait although nobody woke the caller and the word still had the expected value *)
Definition spurious (s : gst) (t : Z) : bool := is_waitsleep (pcs s t) && is_sleeping (slp s).

(* one more invariant: a caller inside futex_wait that is not (any more) asleep has been signalled *)
Definition XS (s : gst) : Prop := pcs s c = PWaitSleep -> slp s = Sleeping \/ sigd s = true.
Definition Inv2 (s : gst) : Prop := Inv s /\ XS s.

Lemma bonus_range s : 0 <= bonus s <= 3.
Proof. unfold bonus. destruct (negb (sigd s) && is_waitload (pcs s c)); lia. Qed.

Lemma Phi_nonneg s : Inv s -> 0 <= Phi s.
Proof.
  intros (G & _ & _). unfold Phi. pose proof (g_len n T c s G). pose proof (bonus_range s).
  assert (0 <= lsum (fun u => phi (u =? c) (pcs s u)) (parts s)) by (apply lsum_nonneg; intros; apply phi_nonneg).
  lia.
Qed.

Lemma XS_frame s s' t p' : XS s -> pcs s' = upd (pcs s) t p' -> p' <> PWaitSleep ->
  (slp s = Sleeping -> slp s' = Sleeping \/ sigd s' = true) -> (sigd s = true -> sigd s' = true) ->
  (slp s' = slp s \/ slp s = Sleeping \/ sigd s' = true) -> XS s'.
Proof.
  intros X Ep Np H1 H2 H3 Hc. rewrite Ep in Hc.
  destruct (Z.eq_dec c t) as [->|Ne]; [rewrite upd_same in Hc; contradiction|]. rewrite upd_other in Hc by exact Ne.
  destruct (X Hc) as [A|A]; [exact (H1 A)|right; exact (H2 A)].
Qed.

Lemma out_not_sleep w : out w <> PWaitSleep. Proof. destruct w; discriminate. Qed.

Ltac xsf X t tacNp :=
  eapply XS_frame with (t := t); [exact X | sp; reflexivity | sp; tacNp | sp; auto | sp; auto | sp; auto].

Lemma XS_step s t e s' : Inv s -> XS s -> gstep s t e = Some s' -> XS s'.
Proof.
  intros (G & HT & HI) X Hs. unfold Apply.gstep in Hs.
  destruct (tstep n (t =? c) (pcs s t) e) as [p'|] eqn:Hts; [|discriminate].
  pose proof (HT t) as (At & _ & _). unfold at_pc in At.
  destruct (pcs s t) eqn:Hpc; cbn [tstep] in Hts; cbv zeta in Hs;
    repeat match type of Hts with (if ?b then _ else None) = Some _ => destruct b; [|discriminate] end;
    try discriminate; injection Hts as <-;
    repeat match type of Hs with (if ?b then _ else None) = Some _ => destruct b eqn:?; [|discriminate] end;
    injection Hs as <-.
  - (* PIdle *) xsf X t discriminate.
  - (* PFirst *) xsf X t ltac:(destruct (ea e >=? n); [apply out_not_sleep|discriminate]).
  - (* PCall *) xsf X t discriminate.
  - (* PInCall *) xsf X t discriminate.
  - (* PNext *) xsf X t ltac:(destruct (ea e <? n); discriminate).
  - (* PSub *) xsf X t ltac:(destruct (_ =? 0); [discriminate|apply out_not_sleep]).
  - (* PSignal *) xsf X t ltac:(destruct (ea e =? 0); [apply out_not_sleep|discriminate]).
  - (* PWake: Sleeping -> Woken; the signaller at PWake has signalled *)
    assert (Sd : sigd s = true).
    { pose proof (g_sig n T c s G) as S. unfold sig_clause in S. rewrite At in S. destruct S as [_ S].
      destruct (sigd s); [reflexivity|]. assert (E : pcs s t = PSignal) by (apply S; reflexivity). congruence. }
    eapply XS_frame with (t := t); [exact X|sp; reflexivity|sp; apply out_not_sleep|sp; auto|sp; auto|sp; auto].
  - (* PWaitDec *) xsf X t ltac:(destruct (_ =? 0); discriminate).
  - (* PWaitLoad *) xsf X t ltac:(destruct (ea e =? 0); [discriminate|]; destruct (ea e =? UMAX32); discriminate).
  - (* PWaitFutex: the caller *)
    subst t. intros _. sp.
    destruct (Z.eqb_spec (evt s) UMAX32) as [E|E]; [left; reflexivity|right].
    pose proof (g_evt n T c s G) as Ge. pose proof (g_waited n T c s G) as Gw. rewrite Hpc in Gw. cbn in Gw. rewrite Gw in Ge.
    destruct (sigd s); [reflexivity|]. cbn in Ge. contradiction.
  - (* PWaitSleep *) subst t. intros Hc. sp. rewrite upd_same in Hc. discriminate Hc.
  - (* PDec *) xsf X t discriminate.
  - (* PDone *) xsf X t discriminate.
Qed.

Theorem Inv2_step s t e s' : Inv2 s -> gstep s t e = Some s' -> Inv2 s'.
Proof. intros [I X] H. split; [exact (step_preserves n T c VP s t e s' I H)|exact (XS_step s t e s' I X H)]. Qed.
Theorem Inv2_reach s : reach s -> Inv2 s.
Proof.
  apply invariant_lift.
  - intros s0 ->. split; [apply Inv_init; exact VP|]. intros H. unfold init_state in H. cbn [pcs] in H.
    rewrite upd_same in H. discriminate H.
  - intros s0 [t e] s1 I H. cbn in H. exact (Inv2_step s0 t e s1 I H).
Qed.

(* ---- how a step changes Phi ---- *)
Lemma Phi_move s s' t p' : NoDup (parts s) -> In t (parts s) -> parts s' = parts s -> pcs s' = upd (pcs s) t p' ->
  Phi s' = Phi s - phi (t =? c) (pcs s t) + phi (t =? c) p' + 3 * (Z.min (index s) n - Z.min (index s') n) + (bonus s' - bonus s).
Proof.
  intros ND Hin Ep Ec. unfold Phi. rewrite Ep, Ec. rewrite (lsum_upd2_in (fun u p => phi (u =? c) p)) by assumption. lia.
Qed.
Lemma Phi_start s s' t p' : ~ In t (parts s) -> parts s' = t :: parts s -> pcs s' = upd (pcs s) t p' -> index s' = index s ->
  Phi s' = Phi s + phi (t =? c) p' - 6 + (bonus s' - bonus s).
Proof.
  intros Hn Ep Ec Ei. unfold Phi. rewrite Ep, Ec, Ei. cbn [lsum length]. rewrite upd_same.
  rewrite (lsum_upd2_notin (fun u p => phi (u =? c) p)) by exact Hn. rewrite Nat2Z.inj_succ. lia.
Qed.
(* a move to a program point other than the wait-loop load does not raise the bonus *)
Lemma bonus_move s s' t p' : pcs s' = upd (pcs s) t p' -> is_waitload p' = false ->
  (sigd s' = sigd s \/ sigd s' = true) -> bonus s' <= bonus s.
Proof.
  intros Ec Hp Hs. pose proof (bonus_range s). unfold bonus in *. rewrite Ec.
  destruct (Z.eq_dec c t) as [->|Ne].
  - rewrite upd_same, Hp, andb_false_r. lia.
  - rewrite upd_other by exact Ne. destruct Hs as [-> | ->]; [lia|]. cbn. lia.
Qed.
Lemma out_not_load w : is_waitload (out w) = false. Proof. destruct w; reflexivity. Qed.

Ltac mv s s1 t p' Gnd Hin Hpc :=
  let M := fresh "M" in let Bm := fresh "Bm" in
  pose proof (Phi_move s s1 t p' Gnd Hin eq_refl eq_refl) as M;
  pose proof (bonus_move s s1 t p' eq_refl) as Bm;
  rewrite Hpc in M; cbn [phi] in M; rewrite ?phi_out in M.

(* every step costs at least one unit of potential; a spurious return of futex_wait gives back at most 3 *)
Theorem step_delta s t e s' : Inv2 s -> gstep s t e = Some s' ->
  Phi s' + 1 <= Phi s + (if spurious s t then 3 else 0).
Proof.
  intros [(G & HT & HI) X] Hs. pose proof VP as (Hn & HTr & HnT).
  pose proof G as [Gi0 Gi1 Gt Gtl Gth Gnd Gl Gc Ge Gs Gf Gu Gd Gw Gcs Gr Gsl].
  unfold Apply.gstep in Hs. destruct (tstep n (t =? c) (pcs s t) e) as [p'|] eqn:Hts; [|discriminate].
  pose proof (HT t) as (At & Ov & Pin). unfold at_pc in At. unfold spurious.
  destruct (pcs s t) eqn:Hpc; cbn [tstep is_waitsleep andb] in *.
  - (* PIdle *)
    destruct (ev_kind e DVU_MARK); [|discriminate]. injection Hts as <-.
    destruct (negb (t =? c) && (Z.of_nat (length (parts s)) <? T)) eqn:C; [|discriminate].
    apply andb_true_iff in C as [C1 C2]. apply negb_true_iff in C1. injection Hs as <-.
    assert (Nin : ~ In t (parts s)) by (intros H; apply Pin in H; congruence).
    match goal with |- Phi ?x + 1 <= _ => set (s1 := x) end.
    pose proof (Phi_start s s1 t PFirst Nin eq_refl eq_refl eq_refl) as M. rewrite C1 in M. cbn [phi] in M.
    pose proof (bonus_move s s1 t PFirst eq_refl eq_refl (or_introl eq_refl)). lia.
  - (* PFirst *)
    destruct (ev_site e st_first OFF_INDEX && (eb e =? 1)); [|discriminate]. injection Hts as <-.
    destruct (Z.eqb_spec (ea e) (index s)) as [Ea|]; [|discriminate]. injection Hs as <-. rewrite Ea.
    assert (Hin : In t (parts s)) by (apply Pin; discriminate).
    pose proof (index_small n T c VP s t G Hin ltac:(rewrite Hpc; reflexivity)) as Hsm.
    assert (Ew : wrapsz 8 (index s + 1) = index s + 1)
      by (unfold wrapsz; apply Z.mod_small; change (2 ^ (8 * 8)) with 18446744073709551616; lia).
    match goal with |- Phi ?x + 1 <= _ => set (s1 := x) end.
    destruct (Z.geb_spec (index s) n) as [Hge|Hlt].
    + mv s s1 t (out (t =? c)) Gnd Hin Hpc. specialize (Bm (out_not_load _) (or_introl eq_refl)).
      unfold s1 in M at 2. sp. rewrite Ew in M. destruct (t =? c); lia.
    + mv s s1 t (PCall (index s) 0) Gnd Hin Hpc. specialize (Bm eq_refl (or_introl eq_refl)).
      unfold s1 in M at 2. sp. rewrite Ew in M. destruct (t =? c); lia.
  - (* PCall *)
    destruct (ev_kind e DVU_CALLOUT_BEGIN && (ea e =? idx)); [|discriminate]. injection Hts as <-. injection Hs as <-.
    assert (Hin : In t (parts s)) by (apply Pin; discriminate).
    match goal with |- Phi ?x + 1 <= _ => set (s1 := x) end.
    mv s s1 t (PInCall idx done) Gnd Hin Hpc. specialize (Bm eq_refl (or_introl eq_refl)).
    unfold s1 in M at 2. sp. destruct (t =? c); lia.
  - (* PInCall *)
    destruct (ev_kind e DVU_CALLOUT_END); [|discriminate]. injection Hts as <-. injection Hs as <-.
    assert (Hin : In t (parts s)) by (apply Pin; discriminate).
    match goal with |- Phi ?x + 1 <= _ => set (s1 := x) end.
    mv s s1 t (PNext (done + 1)) Gnd Hin Hpc. specialize (Bm eq_refl (or_introl eq_refl)).
    unfold s1 in M at 2. sp. destruct (t =? c); lia.
  - (* PNext *)
    destruct (ev_site e st_next OFF_INDEX && (eb e =? 1)); [|discriminate]. injection Hts as <-.
    destruct (Z.eqb_spec (ea e) (index s)) as [Ea|]; [|discriminate]. injection Hs as <-. rewrite Ea.
    assert (Hin : In t (parts s)) by (apply Pin; discriminate).
    pose proof (index_small n T c VP s t G Hin ltac:(rewrite Hpc; reflexivity)) as Hsm.
    assert (Ew : wrapsz 8 (index s + 1) = index s + 1)
      by (unfold wrapsz; apply Z.mod_small; change (2 ^ (8 * 8)) with 18446744073709551616; lia).
    match goal with |- Phi ?x + 1 <= _ => set (s1 := x) end.
    destruct (Z.ltb_spec (index s) n) as [Hlt|Hge].
    + mv s s1 t (PCall (index s) done) Gnd Hin Hpc. specialize (Bm eq_refl (or_introl eq_refl)).
      unfold s1 in M at 2. sp. rewrite Ew in M. destruct (t =? c); lia.
    + mv s s1 t (PSub done) Gnd Hin Hpc. specialize (Bm eq_refl (or_introl eq_refl)).
      unfold s1 in M at 2. sp. rewrite Ew in M. destruct (t =? c); lia.
  - (* PSub *)
    destruct (ev_site e st_todo OFF_TODO && (eb e =? done)); [|discriminate]. injection Hts as <-.
    destruct (Z.eqb_spec (ea e) (todo s)) as [Ea|]; [|discriminate]. cbv zeta in Hs. injection Hs as <-.
    assert (Hin : In t (parts s)) by (apply Pin; discriminate).
    match goal with |- Phi ?x + 1 <= _ => set (s1 := x) end.
    destruct (wrapsz 8 (ea e - done) =? 0).
    + mv s s1 t PSignal Gnd Hin Hpc. specialize (Bm eq_refl (or_introl eq_refl)).
      unfold s1 in M at 2. sp. destruct (t =? c); lia.
    + mv s s1 t (out (t =? c)) Gnd Hin Hpc. specialize (Bm (out_not_load _) (or_introl eq_refl)).
      unfold s1 in M at 2. sp. destruct (t =? c); lia.
  - (* PSignal *)
    destruct (ev_site e st_signal OFF_EVENT && (eb e =? 1)); [|discriminate]. injection Hts as <-.
    destruct (Z.eqb_spec (ea e) (evt s)) as [Ea|]; [|discriminate]. injection Hs as <-.
    assert (Hin : In t (parts s)) by (apply Pin; discriminate).
    match goal with |- Phi ?x + 1 <= _ => set (s1 := x) end.
    destruct (ea e =? 0).
    + mv s s1 t (out (t =? c)) Gnd Hin Hpc. specialize (Bm (out_not_load _) (or_intror eq_refl)).
      unfold s1 in M at 2. sp. destruct (t =? c); lia.
    + mv s s1 t PWake Gnd Hin Hpc. specialize (Bm eq_refl (or_intror eq_refl)).
      unfold s1 in M at 2. sp. destruct (t =? c); lia.
  - (* PWake *)
    destruct (ev_kind e DV_FUTEX_WAKE); [|discriminate]. injection Hts as <-. injection Hs as <-.
    assert (Hin : In t (parts s)) by (apply Pin; discriminate).
    match goal with |- Phi ?x + 1 <= _ => set (s1 := x) end.
    mv s s1 t (out (t =? c)) Gnd Hin Hpc. specialize (Bm (out_not_load _) (or_introl eq_refl)).
    unfold s1 in M at 2. sp. destruct (t =? c); lia.
  - (* PWaitDec: the caller *)
    destruct (ev_site e st_wait OFF_EVENT && (eb e =? 1)); [|discriminate]. injection Hts as <-.
    destruct (Z.eqb_spec (ea e) (evt s)) as [Ea|]; [|discriminate]. injection Hs as <-. subst t.
    match goal with |- Phi ?x + 1 <= _ => set (s1 := x) end.
    assert (B0 : bonus s = 0) by (unfold bonus; rewrite Hpc; cbn [is_waitload]; rewrite andb_false_r; reflexivity).
    destruct (wrapsz 4 (ea e - 1) =? 0).
    + mv s s1 c PDec Gnd Gc Hpc. specialize (Bm eq_refl (or_introl eq_refl)).
      unfold s1 in M at 2. sp. rewrite ?Z.eqb_refl in M. lia.
    + mv s s1 c PWaitLoad Gnd Gc Hpc. pose proof (bonus_range s1).
      unfold s1 in M at 2. sp. rewrite ?Z.eqb_refl in M. lia.
  - (* PWaitLoad: the caller *)
    destruct (ev_site e st_wload OFF_EVENT); [|discriminate]. injection Hts as <-.
    destruct (Z.eqb_spec (ea e) (evt s)) as [Ea|]; [|discriminate]. injection Hs as <-. subst t.
    rewrite Hpc in Gw. cbn in Gw. rewrite Gw in Ge.
    destruct (sigd s) eqn:Sd; cbn [evt_enc] in Ge; rewrite Ea, Ge.
    + change (0 =? 0) with true. cbv iota.
      match goal with |- Phi ?x + 1 <= _ => set (s1 := x) end.
      mv s s1 c PDec Gnd Gc Hpc. specialize (Bm eq_refl (or_introl eq_refl)).
      unfold s1 in M at 2. sp. rewrite ?Z.eqb_refl in M. lia.
    + change (UMAX32 =? 0) with false. change (UMAX32 =? UMAX32) with true. cbv iota.
      match goal with |- Phi ?x + 1 <= _ => set (s1 := x) end.
      assert (B3 : bonus s = 3) by (unfold bonus; rewrite Hpc, Sd; reflexivity).
      mv s s1 c PWaitFutex Gnd Gc Hpc.
      assert (B0 : bonus s1 = 0) by (unfold bonus, s1; sp; rewrite upd_same; cbn [is_waitload]; rewrite andb_false_r; reflexivity).
      unfold s1 in M at 2. sp. rewrite ?Z.eqb_refl in M. lia.
  - (* PWaitFutex *)
    destruct (ev_kind e DV_FUTEX_WAIT && (ea e =? UMAX32)); [|discriminate]. injection Hts as <-. injection Hs as <-. subst t.
    match goal with |- Phi ?x + 1 <= _ => set (s1 := x) end.
    mv s s1 c PWaitSleep Gnd Gc Hpc. specialize (Bm eq_refl (or_introl eq_refl)).
    unfold s1 in M at 2. sp. rewrite ?Z.eqb_refl in M. lia.
  - (* PWaitSleep: futex_wait returns *)
    destruct (ev_kind e DV_FUTEX_WAIT_RET); [|discriminate]. injection Hts as <-. injection Hs as <-. subst t.
    match goal with |- Phi ?x + 1 <= _ => set (s1 := x) end.
    assert (B0 : bonus s = 0) by (unfold bonus; rewrite Hpc; cbn [is_waitload]; rewrite andb_false_r; reflexivity).
    mv s s1 c PWaitLoad Gnd Gc Hpc. pose proof (bonus_range s1) as Br.
    unfold s1 in M at 2. sp. rewrite ?Z.eqb_refl in M.
    destruct (slp s) eqn:Sl; cbn [is_sleeping]; try lia;
      (assert (Sd : sigd s = true) by (destruct (X Hpc) as [A|A]; [congruence|exact A]));
      (assert (B1 : bonus s1 = 0) by (unfold bonus, s1; sp; rewrite Sd; reflexivity)); lia.
  - (* PDec *)
    destruct (ev_site e st_thrcnt OFF_THRCNT && (eb e =? 1)); [|discriminate]. injection Hts as <-.
    destruct (Z.eqb_spec (ea e) (thrcnt s)) as [Ea|]; [|discriminate]. cbv zeta in Hs. injection Hs as <-.
    assert (Hin : In t (parts s)) by (apply Pin; discriminate).
    match goal with |- Phi ?x + 1 <= _ => set (s1 := x) end.
    mv s s1 t PDone Gnd Hin Hpc. specialize (Bm eq_refl (or_introl eq_refl)).
    unfold s1 in M at 2. sp. destruct (t =? c); lia.
  - (* PDone *)
    destruct (Z.eqb_spec t c) as [->|]; [|discriminate]. cbn [andb] in Hts.
    destruct (ev_kind e DVU_RET); [|discriminate]. injection Hts as <-. injection Hs as <-.
    match goal with |- Phi ?x + 1 <= _ => set (s1 := x) end.
    mv s s1 c PRet Gnd Gc Hpc. specialize (Bm eq_refl (or_introl eq_refl)).
    unfold s1 in M at 2. sp. rewrite ?Z.eqb_refl in M. lia.
  - discriminate.
  - discriminate.
Qed.

(* ---------------------------------------------------------------- the bound on executions *)
Notation grun := (grun n T c).
Fixpoint n_spurious (s : gst) (tr : list (Z * event)) : Z :=
  match tr with
  | [] => 0
  | (t, e) :: r => (if spurious s t then 1 else 0) + match gstep s t e with Some s' => n_spurious s' r | None => 0 end
  end.
Lemma n_spurious_nonneg : forall tr s, 0 <= n_spurious s tr.
Proof.
  induction tr as [|[t e] r IH]; intros s; cbn [n_spurious]; [lia|].
  destruct (spurious s t); destruct (gstep s t e) as [s1|]; try specialize (IH s1); lia.
Qed.

Theorem execution_bound : forall tr s s', Inv2 s -> grun s tr = Some s' ->
  Inv2 s' /\ Z.of_nat (length tr) + Phi s' <= Phi s + 3 * n_spurious s tr.
Proof.
  induction tr as [|[t e] r IH]; intros s s' I E; cbn [Apply.grun] in E.
  - injection E as <-. cbn [length n_spurious]. split; [exact I|lia].
  - destruct (gstep s t e) as [s1|] eqn:St; [|discriminate].
    destruct (IH s1 s' (Inv2_step s t e s1 I St) E) as [I' B]. split; [exact I'|].
    pose proof (step_delta s t e s1 I St) as D. cbn [length n_spurious]. rewrite St, Nat2Z.inj_succ.
    destruct (spurious s t); lia.
Qed.

(* from every reachable state, whatever helpers start or never start: at most Phi(s) further steps plus 3 per spurious
   return of futex_wait; in particular at most Phi(s) steps when futex_wait returns only after a wake-up or a change of
   the word (the kernel's contract up to spurious wake-ups; EINTR is retried inside _futex_blocking_op) *)
Corollary no_livelock s tr s' : reach s -> grun s tr = Some s' ->
  Z.of_nat (length tr) <= Phi s + 3 * n_spurious s tr.
Proof.
  intros R E. destruct (execution_bound tr s s' (Inv2_reach s R) E) as [[I' _] B]. pose proof (Phi_nonneg s' I'). lia.
Qed.
Corollary bound_without_spurious_futex_returns s tr s' : reach s -> grun s tr = Some s' -> n_spurious s tr = 0 ->
  Z.of_nat (length tr) <= Phi s.
Proof. intros R E Z0. pose proof (no_livelock s tr s' R E). lia. Qed.
Lemma Phi_init : Phi (init_state n T c) = 3 * n + 6 * T + 5.
Proof.
  pose proof VP as (Hn & _). unfold Phi, bonus, init_state. sp. cbn [lsum length]. rewrite upd_same, Z.eqb_refl. cbn [phi is_waitload].
  rewrite andb_false_r, Z.min_l by lia. lia.
Qed.

(* ---------------------------------------------------------------- the end of every maximal execution *)
Lemma step_exists s t : pcs s t <> PIdle -> pcs s t <> PRet -> pcs s t <> PCrash -> (pcs s t = PDone -> t = c) ->
  exists e s', gstep s t e = Some s'.
Proof.
  intros N1 N2 N3 Hd.
  destruct (working (pcs s t)) eqn:W; [exact (participant_enabled n T c s t W)|].
  unfold Apply.gstep. destruct (pcs s t) eqn:Hpc; try discriminate W; try congruence; cbn [tstep].
  - exists (mkEv DV_SUB 2 0 40 4 (evt s) 1 1). cbn [ea eb]. change (ev_site _ st_wait OFF_EVENT && (1 =? 1)) with true. cbv iota.
    rewrite Z.eqb_refl. eexists; reflexivity.
  - exists (mkEv DV_LOAD 2 0 40 4 (evt s) (evt s) 1). cbn [ea eb]. change (ev_site _ st_wload OFF_EVENT) with true. cbv iota.
    rewrite Z.eqb_refl. eexists; reflexivity.
  - exists (mkEv DV_FUTEX_WAIT 0 0 40 0 UMAX32 0 1). change (ev_kind _ DV_FUTEX_WAIT && (_ =? UMAX32)) with true. cbv iota.
    eexists; reflexivity.
  - exists (mkEv DV_FUTEX_WAIT_RET 0 0 40 0 UMAX32 0 1). change (ev_kind _ DV_FUTEX_WAIT_RET) with true. cbv iota. eexists; reflexivity.
  - rewrite (Hd eq_refl), Z.eqb_refl. exists (mkEv DVU_RET 0 0 0 0 0 0 1). change (true && ev_kind _ DVU_RET) with true. cbv iota.
    eexists; reflexivity.
Qed.

(* a state in which no participant that has entered invoke2 can take a step other than a spurious futex return (a
   caller asleep in futex_wait counts as unable to step): dispatch_apply_f has returned, every index below n has been
   invoked once and has finished, no other value was invoked, and every helper that entered has left invoke2 *)
Theorem nothing_enabled_all_done s : reach s ->
  (forall t, In t (parts s) -> forall e s', gstep s t e = Some s' -> spurious s t = true) ->
  pcs s c = PRet /\ returned s = true /\
  (forall i, 0 <= i < n -> begun s i = 1 /\ ended s i = 1) /\ (forall i, begun s i = 1 -> 0 <= i < n) /\
  (forall t, In t (parts s) -> t <> c -> pcs s t = PDone).
Proof.
  intros R H. destruct (inv_reach n T c VP s R) as (G & HT & HI).
  assert (NW : forall t, In t (parts s) -> working (pcs s t) = false).
  { intros t Hin. destruct (working (pcs s t)) eqn:W; [|reflexivity]. exfalso.
    destruct (participant_enabled n T c s t W) as (e & s1 & E). pose proof (H t Hin e s1 E) as Sp.
    unfold spurious in Sp. destruct (pcs s t); discriminate. }
  assert (InP : forall t, pcs s t <> PIdle -> In t (parts s)) by (intros t Hp; apply (HT t); exact Hp).
  assert (Pc : pcs s c = PRet).
  { pose proof (g_inc n T c s G) as Gc. pose proof (NW c Gc) as Wc.
    destruct (HT c) as (Ac & _ & Pin). unfold at_pc in Ac.
    destruct (pcs s c) eqn:Hpc; try discriminate Wc; try reflexivity; exfalso.
    - apply Pin in Gc. congruence.
    - destruct (step_exists s c) as (e & s1 & E); try (rewrite Hpc; discriminate). pose proof (H c Gc e s1 E) as Sp.
      unfold spurious in Sp. rewrite Hpc in Sp. discriminate.
    - destruct (step_exists s c) as (e & s1 & E); try (rewrite Hpc; discriminate). pose proof (H c Gc e s1 E) as Sp.
      unfold spurious in Sp. rewrite Hpc in Sp. discriminate.
    - destruct (step_exists s c) as (e & s1 & E); try (rewrite Hpc; discriminate). pose proof (H c Gc e s1 E) as Sp.
      unfold spurious in Sp. rewrite Hpc in Sp. discriminate.
    - (* asleep: somebody who has entered owes the wake-up, and that one can step *)
      destruct (step_exists s c) as (e & s1 & E); try (rewrite Hpc; discriminate). pose proof (H c Gc e s1 E) as Sp.
      unfold spurious in Sp. rewrite Hpc in Sp. cbn [is_waitsleep andb] in Sp.
      assert (Sl : slp s = Sleeping) by (destruct (slp s); try discriminate; reflexivity).
      assert (Wg : exists g, In g (parts s) /\ working (pcs s g) = true).
      { destruct (terminates_without_helpers n T c VP s R ltac:(rewrite Hpc; reflexivity)) as [(_ & _ & K)|(_ & [K|K])].
        - destruct (K Sl) as (g & _ & Pg). exists g. split; [apply InP; congruence|rewrite Pg; reflexivity].
        - destruct K as (g & _ & Pg). exists g. split; [apply InP; congruence|rewrite Pg; reflexivity].
        - destruct K as (g & Hin & _ & Pp). exists g. split; [exact Hin|]. destruct (pcs s g); cbn in Pp; try lia; reflexivity. }
      destruct Wg as (g & Hin & Wg). rewrite (NW g Hin) in Wg. discriminate.
    - destruct (step_exists s c) as (e & s1 & E); try (rewrite Hpc; discriminate); [reflexivity|]. pose proof (H c Gc e s1 E) as Sp.
      unfold spurious in Sp. rewrite Hpc in Sp. discriminate.
    - exact Ac. }
  assert (Rt : returned s = true) by (rewrite (g_ret n T c s G), Pc; reflexivity).
  split; [exact Pc|]. split; [exact Rt|]. split; [exact (returned_after_all n T c VP s R Rt)|]. split.
  - intros i Hb. exact (proj1 (proj2 (proj2 (proj2 (each_index_once n T c VP s i R)))) Hb).
  - intros t Hin Ne. pose proof (NW t Hin) as Wt. destruct (HT t) as (At & _ & Pin). unfold at_pc in At.
    destruct (pcs s t) eqn:Hpc; try discriminate Wt; try reflexivity; try contradiction; try congruence.
    apply Pin in Hin. congruence.
Qed.

(* ... and the record: freed exactly once when all T participants have run, otherwise still held by the T - |parts|
   continuations that have not started (each of them frees nothing but the last one to run) *)
Theorem nothing_enabled_record s : reach s ->
  (forall t, In t (parts s) -> forall e s', gstep s t e = Some s' -> spurious s t = true) ->
  thrcnt s = T - Z.of_nat (length (parts s)) /\
  (Z.of_nat (length (parts s)) = T -> freed s = 1) /\ (Z.of_nat (length (parts s)) < T -> freed s = 0) /\ uaf s = false.
Proof.
  intros R H. destruct (nothing_enabled_all_done s R H) as (Pc & _ & _ & _ & Hd).
  destruct (inv_reach n T c VP s R) as (G & HT & HI).
  assert (Z0 : psum holds s = 0).
  { unfold psum. assert (E : lsum (fun u => holds (pcs s u)) (parts s) = lsum (fun _ => 0) (parts s)).
    { apply lsum_ext. intros u Hu. destruct (Z.eq_dec u c) as [->|Ne]; [rewrite Pc; reflexivity|rewrite (Hd u Hu Ne); reflexivity]. }
    rewrite E. clear. induction (parts s); cbn [lsum]; lia. }
  pose proof (g_thr n T c s G) as Gth. rewrite Z0 in Gth. pose proof (g_freed n T c s G) as [F1 F2].
  split; [lia|]. split; [intros E; apply F1; lia|]. split; [intros E; apply F2; lia|apply (g_uaf n T c s G)].
Qed.
End Measure.
