(* Refcnt_step_proofs.v — greg_step: the global invariant of Model/Refcnt.v is preserved by every step (call boundaries,
   PFire, and the in-call steps of Refcnt_inv_proofs.greg_step1); an enter made under an outstanding enter never finds
   the group empty. *)
From Coq Require Import ZArith Bool List Lia.
From Verif Require Import Word Bits Conc Gen_consts Gen_group Gen_refcnt Refcnt Refcnt_inv_proofs.
Import ListNotations.
Local Open Scope Z_scope.
Arguments hb k b : simpl nomatch.

Lemma held_fire_exit k c needs hw : 0 <= needs -> held k (PFire c needs hw) 0 = held k (wake_tail c (needs + 1) hw) 0.
Proof.
  intros H. unfold wake_tail, wake_rel. destruct hw.
  - destruct k; cbn [held held0 one]; lia.
  - destruct (Z.eqb_spec (needs + 1) 0); [lia|]. destruct k; cbn [held held0 one]; lia.
Qed.

Ltac disp0 :=
  match goal with |- context [?r0 DISP =? 1] =>
    let D := fresh "D0" in assert (D : r0 DISP = 0) by (unfold borrowed_ok in *; lia); rewrite D in * end;
  cbn [Z.eqb andb] in *; try lia.

Lemma call_cases e p : call_pc e = Some p ->
  let op := ea e mod 100 in let b := borrow_of e in
  wfb b /\
  ((op = 1 /\ p = PRetain) \/ (op = 2 /\ p = PRelease) \/ (op = 4 /\ p = PLeave (KApi BN)) \/
   (op = 10 /\ p = PIRel (KApi BN) (eb e) /\ (eb e = 1 \/ eb e = 2)) \/
   (op = 3 /\ p = PEnter b) \/ (op = 5 /\ p = PNfQ b) \/ ((op = 6 \/ op = 7 \/ op = 8) /\ p = PRet b 0 0 0) \/
   (op = 9 /\ p = PIRetain b (eb e) /\ (eb e = 1 \/ eb e = 2)) \/ (op = 11 /\ p = PWeakLoad b)).
Proof.
  unfold call_pc, borrow_of, OP_RETAIN, OP_RELEASE, OP_ENTER, OP_LEAVE, OP_NOTIFY, OP_SETCTX, OP_SETFIN, OP_SETTQ,
    OP_IRETAIN, OP_IRELEASE, OP_WEAK. intros H. cbv zeta.
  split; [unfold wfb; destruct (ea e / 100 =? 0); [|destruct (ea e / 100 =? 1)]; discriminate|].
  destruct ((ea e <? 0) || (300 <=? ea e)); [discriminate|].
  destruct (Z.eqb_spec (ea e mod 100) 1) as [E|_]; [destruct (ea e / 100 =? 0); [|discriminate]; injection H as <-; auto|].
  destruct (Z.eqb_spec (ea e mod 100) 2) as [E|_]; [destruct (ea e / 100 =? 0); [|discriminate]; injection H as <-; auto|].
  destruct (Z.eqb_spec (ea e mod 100) 4) as [E|_]; [destruct (ea e / 100 =? 0); [|discriminate]; injection H as <-; auto|].
  destruct (Z.eqb_spec (ea e mod 100) 10) as [E|_].
  { destruct ((ea e / 100 =? 0) && ((eb e =? 1) || (eb e =? 2))) eqn:C; [|discriminate]. injection H as <-.
    right; right; right; left. bool_hyps. destruct H0; bool_hyps; auto. }
  destruct (Z.eqb_spec (ea e mod 100) 3) as [E|_]; [injection H as <-; auto 10|].
  destruct (Z.eqb_spec (ea e mod 100) 5) as [E|_]; [injection H as <-; auto 10|].
  destruct ((ea e mod 100 =? 6) || (ea e mod 100 =? 7) || (ea e mod 100 =? 8)) eqn:C.
  { injection H as <-. do 6 right; left. split; [|reflexivity]. bool_hyps. destruct C as [C|C]; bool_hyps; auto.
    destruct C; bool_hyps; auto. }
  destruct (Z.eqb_spec (ea e mod 100) 9) as [E|_].
  { destruct ((eb e =? 1) || (eb e =? 2)) eqn:C2; [|discriminate]. injection H as <-. do 7 right; left.
    bool_hyps. destruct C2; bool_hyps; auto. }
  destruct (Z.eqb_spec (ea e mod 100) 11) as [E|_]; [injection H as <-; auto 12|discriminate].
Qed.


Ltac call_case Hef Eop :=
  subst; unfold guard, call_guard, OP_SETCTX, OP_SETFIN, OP_SETTQ in Hef; rewrite Eop in Hef;
  cbn [held held0 hb hk one Z.eqb Pos.eqb app] in Hef; split_ifs Hef; injection Hef as <- <-;
  prep; finish; try disp0;
  try (exfalso; match goal with H : ?r0 NFIN = (if (?r0 DISP =? 1) && _ then 1 else 0) |- _ =>
         let D := fresh "D0" in assert (D : r0 DISP = 0) by (unfold borrowed_ok in *; lia); rewrite D in H; cbn [Z.eqb andb] in H; lia end).

Lemma contract_r_fire r c needs hw e :
  contract_r r (PFire c needs hw) e = true -> contract_r r (wake_tail c (needs + 1) hw) e = true.
Proof.
  unfold contract_r, wake_tail, wake_rel, end_pc. destruct hw; [auto|]. destruct (needs + 1 =? 0); [|auto].
  destruct c; auto.
Qed.

Lemma greg_step s t e s' : Inv s -> contractb s t e = true -> gstep s t e = Some s' ->
  Greg (regs s') (priv s') /\ 0 <= gn s' t.
Proof.
  intros (HG & HB & HT) Hct Hs. unfold gstep in Hs. unfold contractb in Hct.
  destruct (tstep (pcs s t) e) as [p'|] eqn:Hts; [|discriminate].
  destruct (effect (regs s) (priv s) (gn s t) (pcs s t) e) as [[ups g']|] eqn:Hef; [|discriminate].
  injection Hs as <-. cbn [regs priv gn]. rewrite upd_same.
  pose proof (fun k => held_le s t k HB) as HL. pose proof (fun k => priv_nonneg s k HB) as HP.
  destruct (HT t) as [[HW HNE] Hg].
  unfold tstep, effect in *.
  destruct (noise e).
  { (* events of other code: nothing changes *)
    injection Hef as <- <-.
    assert (p' = pcs s t) as -> by (destruct (pcs s t); try discriminate; injection Hts as <-; reflexivity).
    split; [|exact Hg]. cbn [apply_ups].
    assert (is_crash (pcs s t) = false) as -> by (destruct (pcs s t); try discriminate; reflexivity).
    apply (Greg_same _ (priv s)); [intros k; lia|exact HG]. }
  set (r := regs s) in *. set (pv := priv s) in *. set (g := gn s t) in *. clearbody r pv g. clear HB HT.
  destruct (pcs s t) eqn:Hpc; try (apply (greg_step1 _ _ _ _ e); assumption); clear Hpc.
  - (* PIdle *)
    destruct (ev_kind e DVU_CALL).
    + (* an API call takes its tokens out of the pools *)
      rewrite Hts in Hef. apply call_cases in Hts as (Wb & Hc). cbv zeta in Hc.
      set (b := borrow_of e) in *. clearbody b. spec_kinds HP; clear HL HP.
      destruct Hc as [(Eop & ->)|[(Eop & ->)|[(Eop & ->)|[(Eop & -> & Hn)|[(Eop & ->)|[(Eop & ->)|[(Eop & ->)|[(Eop & -> & Hn)|(Eop & ->)]]]]]]]].
      * call_case Hef Eop.
      * call_case Hef Eop.
      * call_case Hef Eop.
      * destruct Hn as [Hn|Hn]; rewrite Hn in *; call_case Hef Eop.
      * call_case Hef Eop.
      * call_case Hef Eop.
      * destruct Eop as [Eop|[Eop|Eop]]; call_case Hef Eop.
      * destruct Hn as [Hn|Hn]; rewrite Hn in *; call_case Hef Eop.
      * call_case Hef Eop.
    + (* library-internal leave on a worker thread *)
      spec_kinds HP; clear HL HP.
      cbn [tstep1 effect1] in *. unfold guard, lv_entry, wake_entry, wake_tail, wake_rel, end_pc in *.
      prep. split_ifs Hts; split_ifs Hef; try discriminate; injection Hts as <-; injection Hef as <- <-; finish.
  - (* PRet: the call's tokens go (back) to the pools *)
    spec_kinds HL. spec_kinds HP. clear HL HP. cbn [tstep1 wfpc] in Hts, HW. split_ifs Hts. injection Hts as <-. injection Hef as <- <-.
    prep. finish.
  - (* PFire *)
    destruct (is_qrel e).
    + injection Hts as <-. spec_kinds HL. spec_kinds HP. clear HL HP. unfold guard in Hef. split_ifs Hef.
      injection Hef as <- <-. prep. finish.
    + destruct (Z.eqb_spec g 0) as [E0|]; [|discriminate]. subst g. cbn [wfpc] in HW.
      apply contract_r_fire in Hct.
      assert (W2 : wfpc (wake_tail k (needs + 1) hw)) by (apply wf_wake_tail; lia).
      assert (HL2 : forall k0, held k0 (wake_tail k (needs + 1) hw) 0 <= pv k0)
        by (intros k0; rewrite <- held_fire_exit by exact HW; apply HL).
      destruct (greg_step1 r pv (wake_tail k (needs + 1) hw) 0 e p' ups g' HG W2 Hg HL2 HP Hct Hts Hef) as [G1 G2].
      split; [|exact G2]. eapply Greg_same; [|exact G1]. intros k0. cbv beta.
      rewrite held_fire_exit by exact HW. reflexivity.
Qed.



(* an enter made under an outstanding enter never finds the group empty: PEnterRetain BE is not reachable *)
Lemma tstep1_enter_retain p e b : tstep1 p e = Some (PEnterRetain b) -> p = PEnter b /\ Z.land (ea e) VMASK = 0.
Proof.
  intros H. destruct p; cbn [tstep1] in H; try discriminate;
    repeat match goal with c : kont |- _ => destruct c end;
    unfold after_irel, lv_entry, wake_entry, wake_tail, wake_rel, end_pc in H;
    try (split_ifs H; try discriminate; injection H as <-; bool_hyps; auto; fail).
  - (* PWeakLoad *) split_ifs H. apply weak_body_cases in H as [H|[[H _]|[H _]]]; discriminate.
  - (* PWeakCas *) split_ifs H; try discriminate. apply weak_body_cases in H as [H|[[H _]|[H _]]]; discriminate.
  - (* PNfLoad *) split_ifs H. apply nf_body_cases in H as [[new H]|(st & H & _)]; [discriminate|].
    unfold wake_entry, wake_tail, wake_rel, end_pc in H. split_ifs H; discriminate.
  - (* PNfCas *) split_ifs H; try discriminate. apply nf_body_cases in H as [[new' H]|(st & H & _)]; [discriminate|].
    unfold wake_entry, wake_tail, wake_rel, end_pc in H. split_ifs H; discriminate.
Qed.

Lemma not_enter_retain_BE s t e s' : Inv s -> gstep s t e = Some s' -> pcs s' t <> PEnterRetain BE.
Proof.
  intros (HG & HB & HT) Hs E. unfold gstep in Hs.
  destruct (tstep (pcs s t) e) as [p'|] eqn:Hts; [|discriminate].
  destruct (effect (regs s) (priv s) (gn s t) (pcs s t) e) as [[ups g']|] eqn:Hef; [|discriminate].
  injection Hs as <-. cbn [pcs] in E. rewrite upd_same in E. subst p'.
  destruct (HT t) as [[HW HNE] Hg]. unfold tstep, effect in *.
  destruct (noise e).
  { destruct (pcs s t); try discriminate; injection Hts as Hts; apply HNE; rewrite Hts; reflexivity. }
  assert (K : forall p, tstep1 p e = Some (PEnterRetain BE) -> effect1 (regs s) (gn s t) p e = Some (ups, g') ->
              held KBE p (gn s t) <= priv s KBE -> False).
  { intros p H1 H2 H3. apply tstep1_enter_retain in H1 as [-> Hz]. cbn [effect1] in H2. rewrite Hz in H2.
    cbn [Z.eqb] in H2. unfold guard in H2. destruct (Z.eqb_spec (regs s GVAL) 0) as [G0|]; [|discriminate].
    cbn [held held0 hb one] in H3. pose proof (priv_nonneg s KE HB). pose proof (priv_nonneg s KPE HB).
    unfold Greg, borrowed_ok in HG. lia. }
  destruct (pcs s t) eqn:P; try (apply (K _ Hts Hef); rewrite <- P; apply held_le; exact HB).
  - (* PIdle *) destruct (ev_kind e DVU_CALL).
    + apply call_cases in Hts as (_ & Hc). cbv zeta in Hc.
      repeat match goal with H : _ \/ _ |- _ => destruct H end;
        repeat match goal with H : _ /\ _ |- _ => destruct H end; congruence.
    + apply tstep1_enter_retain in Hts as [Hts _]. discriminate Hts.
  - (* PRet *) apply tstep1_enter_retain in Hts as [Hts _]. discriminate Hts.
  - (* PFire *) destruct (is_qrel e); [discriminate Hts|]. apply tstep1_enter_retain in Hts as [Hts _].
    unfold wake_tail, wake_rel, end_pc in Hts. split_ifs Hts; try discriminate Hts. destruct k; discriminate Hts.
Qed.
