(* MainQ_frames.v — frame lemmas for the invariant of Model/MainQ.v: initial state, steps that only move a program
   point, steps that only change QoS / DIRTY bits of the word. *)
From Coq Require Import ZArith Bool List Lia.
From Verif Require Import Word Bits Fields DqFields Conc Gen_consts Gen_dqstate Lane_fields SLane SLane_proofs SLane_progress
  MainQ MainQ_fields MainQ_inv.
Import ListNotations.
Local Open Scope Z_scope.

Lemma Inv_init m prio rb : valid_tid m -> 0 <= rb < 2 -> Inv (minit m prio rb).
Proof.
  intros Vm Hrb. unfold Inv. split; [|split; [|split]].
  - intros t. unfold tinv, sinv, thread_inv, minit, init_state. mproj. lproj.
    cbn [token_pc locked_pc waker_pc owned_of qos_of lane_ok only_main kont mq_of sync_pc stage orb In].
    repeat split; intros; try discriminate; try contradiction; try lia.
  - constructor; unfold pending, inflight, mcl, minit, init_state; mproj; lproj;
      cbn [mclass kont c_view ids map app In]; intros; try contradiction; try discriminate.
    destruct H; discriminate.
  - exact Vm.
  - unfold mcl, minit. mproj. cbn [mclass kont c_lane].
    exists (mk m 0 0 0 0 rb 0 0 0 4095 0 0). unfold valid_tid in Vm.
    constructor; unfold mcl, init_state; mproj; lproj; cbn [mclass kont c_held c_unb c_clean c_snap c_incb c_see c_cbcf c_view bitem brun];
      unfold mk; cbn [f_owner f_tr f_enq f_mq f_ov f_role f_em f_d f_pb f_wq f_ib f_hi rev app ids map negb];
      try lia; try reflexivity; try congruence; try discriminate.
    + rewrite enc_linear; cbn [f_owner f_tr f_enq f_mq f_ov f_role f_em f_d f_pb f_wq f_ib f_hi].
      rewrite Z.shiftl_mul_pow2 by lia. change (2 ^ 41) with 2199023255552. lia.
    + unfold wfr; cbn [f_owner f_tr f_enq f_mq f_ov f_role f_em f_d f_pb f_wq f_ib f_hi]; repeat split; lia.
    + constructor.
Qed.

(* ------------------------------------------------------------------ parked / stage under a move of one program point *)
Lemma parked_set_mpc s t p' w i :
  stage p' (pcs (lane s) t) = stage (mpcs s t) (pcs (lane s) t) ->
  (parked (set_mpc s t p') w i <-> parked s w i).
Proof.
  intros E. unfold parked. mproj. destruct (Z.eq_dec w t) as [->|N].
  - rewrite upd_same, E. tauto.
  - rewrite upd_other by exact N. tauto.
Qed.

Lemma poker_set_mpc_other s t p' u : u <> t -> (poker (set_mpc s t p') u <-> poker s u).
Proof. intros N. unfold poker. mproj. rewrite upd_other by exact N. tauto. Qed.

(* ------------------------------------------------------------------ a step that only moves the program point of t *)
Lemma Inv_ctl s t p' :
  Inv s ->
  lane_ok p' (pcs (lane s) t) = true ->
  (only_main p' = true -> t = mtid s) ->
  (forall q, mq_of p' = Some q -> 0 <= q < 8) ->
  sync_pc p' = sync_pc (mpcs s t) ->
  stage p' (pcs (lane s) t) = stage (mpcs s t) (pcs (lane s) t) ->
  mclass p' = mclass (mpcs s t) ->
  (c_lane (mcl s) = false -> c_clean (mcl s) = false -> lst (lane s) <> [] ->
   poker_pc (mpcs s t) (pcs (lane s) t) = true -> poker_pc p' (pcs (lane s) t) = true \/ 0 < evfd s) ->
  Inv (set_mpc s t p').
Proof.
  intros (T & Y & V & G) Hl Hm Hq Hs Hg Hc Hp.
  pose proof (mcl_set_mpc s t p' Hc) as Ec.
  split; [|split; [|split]].
  - intros u. destruct (Z.eq_dec u t) as [->|N].
    + destruct (T t) as (T1 & T2 & T3 & T4 & T5 & T6).
      unfold tinv. mproj. rewrite upd_same.
      split; [exact T1|]. split; [exact Hl|]. split; [exact Hm|]. split; [exact Hq|]. split; [rewrite Hs; exact T5|].
      unfold sinv in *. mproj. rewrite upd_same, Hg. exact T6.
    + specialize (T u). unfold tinv, sinv in *. mproj. rewrite upd_other by exact N. exact T.
  - destruct Y as [y_ent0 y_run0 y_sig0 y_ran0]. constructor; rewrite ?Ec.
    + intros i Hi Hw. unfold pending in Hi. mproj_in Hi. mproj.
      destruct (y_ent0 i Hi Hw) as [P Nn]. split; [apply parked_set_mpc; assumption | exact Nn].
    + intros i w Hv. mproj. destruct (y_run0 i w Hv) as [E P]. split; [exact E|].
      intros Hw. destruct (P Hw) as [P1 P2]. split; [apply parked_set_mpc; assumption | exact P2].
    + intros w Hv. mproj. destruct (y_sig0 w Hv) as (P1 & P2 & P3 & P4).
      split; [apply parked_set_mpc; assumption|]. split; [exact P2|]. split; assumption.
    + exact y_ran0.
  - exact V.
  - rewrite Ec. destruct (c_lane (mcl s)) eqn:CL.
    + destruct G as [I2 G2]. split; [exact I2|]. destruct G2. constructor; rewrite ?Ec; assumption.
    + destruct G as [r G]. exists r. pose proof (a_strand s r G) as a_strand0.
      destruct G. constructor; rewrite ?Ec; mproj; try assumption.
      intros Hc' Hl'. destruct (a_strand0 Hc' Hl') as [H|[H|[u H]]]; [left; exact H | right; left; exact H |].
      destruct (Z.eq_dec u t) as [->|N].
      * destruct (Hp eq_refl Hc' Hl' H) as [H'|H']; [|left; exact H'].
        right; right. exists t. unfold poker in *. mproj. rewrite upd_same. exact H'.
      * right; right. exists u. apply poker_set_mpc_other; assumption.
Qed.

(* ------------------------------------------------------------------ a step of t that changes only QoS / DIRTY bits
   of the word (and moves its own main-queue program point) *)
Definition softeq (r r' : dqf) : Prop :=
  f_owner r' = f_owner r /\ f_tr r' = f_tr r /\ f_enq r' = f_enq r /\ f_role r' = f_role r /\ f_em r' = f_em r /\
  f_pb r' = f_pb r /\ f_wq r' = f_wq r /\ f_ib r' = f_ib r /\ f_hi r' = f_hi r /\ (f_d r' = f_d r \/ f_d r' = 1).

Lemma ginv_soft l r r' : ginv_r l r -> wfr r' -> softeq r r' -> ginv_r (set_st l (enc r')) r'.
Proof.
  intros G W (E1 & E2 & E3 & E4 & E5 & E6 & E7 & E8 & E9 & E10).
  pose proof (g_lock l r G) as g_lock0. pose proof (g_dirty l r G) as g_dirty0. destruct G.
  constructor; lproj; try assumption; try congruence; try reflexivity.
  - unfold held, free in *. rewrite E1, E7, E8. exact g_lock0.
  - intros w K U Hl Hw. destruct E10 as [E10|E10]; [rewrite E10; apply (g_dirty0 w K U Hl Hw) | exact E10].
Qed.

Lemma SInv_soft l r' :
  SLane_proofs.Inv l -> wfr r' -> (forall r, st l = enc r -> wfr r -> softeq r r') -> SLane_proofs.Inv (set_st l (enc r')).
Proof.
  intros [[r G] T] W H. split.
  - exists r'. apply (ginv_soft l r r' G W). apply H; [apply (g_enc l r G) | apply (g_wf l r G)].
  - intros t. exact (T t).
Qed.

Lemma wf_enc_eq r r0 : wfr r -> wfr r0 -> enc r = enc r0 -> r0 = r.
Proof. intros W W0 E. symmetry. apply enc_inj; assumption. Qed.

Lemma Inv_soft s t p' (f : dqf -> dqf) :
  Inv s ->
  (forall r, wfr r -> wfr (f r) /\ softeq r (f r)) ->
  lane_ok p' (pcs (lane s) t) = true ->
  (only_main p' = true -> t = mtid s) ->
  (forall q, mq_of p' = Some q -> 0 <= q < 8) ->
  sync_pc p' = sync_pc (mpcs s t) ->
  stage p' (pcs (lane s) t) = stage (mpcs s t) (pcs (lane s) t) ->
  mclass p' = mclass (mpcs s t) ->
  (c_lane (mcl s) = false -> c_clean (mcl s) = false -> lst (lane s) <> [] ->
   poker_pc (mpcs s t) (pcs (lane s) t) = true -> poker_pc p' (pcs (lane s) t) = true \/ 0 < evfd s) ->
  forall r0, st (lane s) = enc r0 -> wfr r0 ->
  Inv (set_mpc (set_lane s (set_st (lane s) (enc (f r0)))) t p').
Proof.
  intros I Hf Hl Hm Hq Hs Hg Hc Hp r0 E0 W0.
  assert (I1 : Inv (set_lane s (set_st (lane s) (enc (f r0))))).
  { destruct I as (T & Y & V & G). split; [|split; [|split]].
    - intros u. specialize (T u). unfold tinv, sinv, thread_inv in *. mproj. lproj. exact T.
    - destruct Y as [y_ent0 y_run0 y_sig0 y_ran0]. constructor; unfold parked, pending, inflight, mcl in *; mproj; lproj; assumption.
    - exact V.
    - unfold mcl in *. mproj. destruct (c_lane (mclass (mpcs s (mtid s)))).
      + destruct G as [I2 G2]. split.
        * apply SInv_soft; [exact I2 | apply Hf; exact W0 |].
          intros r E W. assert (r = r0) by (apply (wf_enc_eq r0 r W0 W); congruence). subst r. apply Hf; exact W0.
        * destruct G2. constructor; unfold mcl; mproj; assumption.
      + destruct G as [r G].
        pose proof (a_wf s r G) as a_wf0. pose proof (a_enc s r G) as a_enc0. pose proof (a_shape s r G) as a_shape0.
        pose proof (a_dirty s r G) as a_dirty0.
        assert (r = r0) by (apply (wf_enc_eq r0 r W0 a_wf0); congruence). subst r. destruct G.
        destruct (Hf r0 W0) as [Wf (E1 & E2 & E3 & E4 & E5 & E6 & E7 & E8 & E9 & E10)].
        exists (f r0). constructor; unfold mcl, poker in *; mproj; lproj; try assumption; try congruence; try reflexivity.
        * rewrite E7, E8. exact a_shape0.
        * intros C Hl' Hw. destruct E10 as [E10|E10]; [rewrite E10; apply a_dirty0; assumption | exact E10]. }
  change (set_mpc (set_lane s (set_st (lane s) (enc (f r0)))) t p') with
    (set_mpc (set_lane s (set_st (lane s) (enc (f r0)))) t p').
  apply Inv_ctl; mproj; lproj; assumption.
Qed.

(* the three soft transformations *)
Lemma dirtied_soft r : wfr r -> wfr (dirtied r) /\ softeq r (dirtied r).
Proof. intros W. pose proof W as W'. unfold wfr in W'. split; [apply wfr_mk'; lia | unfold softeq, dirtied, mk; cbn; tauto]. Qed.
Lemma qreset_soft r : wfr r -> wfr (qreset r) /\ softeq r (qreset r).
Proof. intros W. pose proof W as W'. unfold wfr in W'. split; [apply wfr_mk'; lia | unfold softeq, qreset, mk; cbn; tauto]. Qed.
Lemma merged_soft q r : 0 <= q < 8 -> wfr r -> wfr (merged r q) /\ softeq r (merged r q).
Proof.
  intros Q W. split; [apply merged_wf; assumption|].
  destruct (merged_same r q) as (M1 & M2 & M3 & M4 & M5 & M6 & M7 & M8 & M9 & M10). unfold softeq. tauto.
Qed.

(* every reachable word is an encoding: both phases provide one *)
Lemma Inv_word s : Inv s -> exists r, st (lane s) = enc r /\ wfr r /\ f_role r < 2 /\ f_hi r = 0.
Proof.
  intros (T & Y & V & G). destruct (c_lane (mcl s)).
  - destruct G as [[[r G] _] _]. exists r. destruct G. auto.
  - destruct G as [r G]. exists r. destruct G. auto.
Qed.

(* ------------------------------------------------------------------ facts used by the steps that touch the lists *)
Lemma stage_sync p lp : 1 <= stage p lp -> sync_pc p = true.
Proof.
  destruct p; cbn [stage sync_pc kont]; try lia; try reflexivity; destruct k; cbn [stage sync_pc kont]; try lia; try reflexivity.
Qed.

Lemma parked_sync s w i : parked s w i -> sync_pc (mpcs s w) = true.
Proof. intros (H & _). apply (stage_sync _ (pcs (lane s) w)). lia. Qed.

Lemma lane_view p : c_lane (mclass p) = true -> c_view (mclass p) = VNone.
Proof. destruct p; cbn; try discriminate; try reflexivity; try (destruct k; cbn; discriminate). destruct tgt; cbn; discriminate. Qed.

Lemma pending_below s i : Inv s -> In i (pending s) -> 0 <= i < nextid (lane s).
Proof.
  intros (T & Y & V & G) Hi. destruct (c_lane (mcl s)).
  - destruct G as [[[r G] _] G2]. unfold pending in Hi. rewrite (b_snap s G2) in Hi. cbn [ids map app] in Hi.
    apply in_zrange. rewrite <- (g_order _ _ G). apply in_or_app. right. exact Hi.
  - destruct G as [r G]. unfold pending, inflight in Hi. rewrite (a_token s r G) in Hi. cbn [app] in Hi.
    apply in_zrange. rewrite <- (a_order s r G). apply in_or_app. right. apply in_or_app. right. exact Hi.
Qed.

Lemma started_below s i : Inv s -> In i (started (lane s)) -> 0 <= i < nextid (lane s).
Proof.
  intros (T & Y & V & G) Hi. apply in_rev in Hi. destruct (c_lane (mcl s)).
  - destruct G as [[[r G] _] G2]. apply in_zrange. rewrite <- (g_order _ _ G). apply in_or_app. left. exact Hi.
  - destruct G as [r G]. apply in_zrange. rewrite <- (a_order s r G). apply in_or_app. left. exact Hi.
Qed.

Lemma view_below s i w : Inv s -> (c_view (mcl s) = VRun i w \/ c_view (mcl s) = VIn i w) -> 0 <= i < nextid (lane s).
Proof.
  intros I Hv. pose proof I as (T & Y & V & G). destruct (c_lane (mcl s)) eqn:CL.
  - unfold mcl in *. rewrite (lane_view _ CL) in Hv. destruct Hv; discriminate.
  - destruct G as [r G]. destruct Hv as [Hv|Hv].
    + apply in_zrange. rewrite <- (a_order s r G). apply in_or_app. right. apply in_or_app. left.
      unfold bitem. rewrite Hv. left. reflexivity.
    + apply (started_below s i I). apply (a_runin s r G). unfold brun. rewrite Hv. reflexivity.
Qed.

Lemma started_not_pending s i : Inv s -> In i (started (lane s)) -> ~ In i (pending s).
Proof.
  intros (T & Y & V & G) Hi. apply in_rev in Hi. destruct (c_lane (mcl s)).
  - destruct G as [[[r G] _] G2]. unfold pending. rewrite (b_snap s G2). cbn [ids map app].
    apply (in_started_not_pending _ _ _ _ (g_order _ _ G) Hi).
  - destruct G as [r G]. unfold pending, inflight. rewrite (a_token s r G). cbn [app].
    intros H. apply (in_started_not_pending _ _ _ _ (a_order s r G) Hi). apply in_or_app. right. exact H.
Qed.

(* the other threads when t moves *)
Lemma tinv_other s s' t u :
  u <> t -> tinv s u -> mtid s' = mtid s -> mpcs s' u = mpcs s u -> pcs (lane s') u = pcs (lane s) u ->
  (token (lane s') = Some (Some u) <-> token (lane s) = Some (Some u)) ->
  (In u (wakers (lane s')) <-> In u (wakers (lane s))) ->
  (In u (syncers s') <-> In u (syncers s)) ->
  ws s' u = ws s u -> incl (finished s) (finished s') -> incl (mainran s) (mainran s') ->
  tinv s' u.
Proof.
  intros N (T1 & T2 & T3 & T4 & T5 & T6) Em Ep El Et Ew Es Ews If Im.
  unfold tinv. rewrite Ep, El, Em. split; [|split; [|split; [|split; [|split]]]]; try assumption.
  - apply (thread_other (lane s) (lane s') t u N T1 El Et Ew).
  - rewrite Es. exact T5.
  - unfold sinv in *. rewrite Ep, El, Ews. destruct T6 as (S2 & S3 & S4 & S5 & S6).
    split; [exact S2|]. split; [exact S3|]. split; [exact S4|]. split; [exact S5|].
    intros H1 H2. destruct (S6 H1 H2) as (A & B & C). split; [exact A|]. split; [apply If; exact B | apply Im; exact C].
Qed.

Lemma parked_frame s s' w i :
  mpcs s' w = mpcs s w -> pcs (lane s') w = pcs (lane s) w -> ws s' w = ws s w -> (parked s' w i <-> parked s w i).
Proof. intros E1 E2 E3. unfold parked. rewrite E1, E2, E3. tauto. Qed.

Lemma not_parked_stage s w i : parked s w i -> stage (mpcs s w) (pcs (lane s) w) < 3 -> False.
Proof. intros (H & _) L. lia. Qed.

(* ------------------------------------------------------------------ the bookkeeping of queued synchronous contexts
   is kept by every step that does not change who is queued / run / signalled *)
Lemma syinv_keep s s' :
  Inv s ->
  c_view (mcl s') = c_view (mcl s) ->
  (forall i, In i (pending s') ->
     In i (pending s) \/
     (waiter_of s' i <> 0 -> parked s' (waiter_of s' i) i /\ w_null (ws s' (waiter_of s' i)) = false)) ->
  (forall i, 0 <= i < nextid (lane s) -> waiter_of s' i = waiter_of s i) ->
  (forall i, In i (started (lane s')) -> In i (started (lane s)) \/ (In i (pending s) /\ waiter_of s i = 0)) ->
  incl (finished s) (finished s') -> incl (mainran s) (mainran s') ->
  (forall w i, parked s w i ->
     parked s' w i /\ w_null (ws s' w) = w_null (ws s w) /\ w_item (ws s' w) = w_item (ws s w)) ->
  syinv s'.
Proof.
  intros I Ev Ip Ew Is If Im Pk. pose proof I as (_ & [Ye Yr Ys Yn] & _). constructor.
  - intros i Hi Hw. destruct (Ip i Hi) as [Hp|Hn]; [|exact (Hn Hw)].
    rewrite (Ew i (pending_below s i I Hp)) in *. destruct (Ye i Hp Hw) as [P Nn].
    destruct (Pk _ _ P) as (P' & E1 & E2). split; [exact P' | congruence].
  - intros i w Hv. rewrite Ev in Hv. rewrite (Ew i (view_below s i w I Hv)). destruct (Yr i w Hv) as [E P]. split; [exact E|].
    intros Hw. destruct (P Hw) as [P1 P2]. destruct (Pk _ _ P1) as (P' & E1 & E2). split; [exact P' | congruence].
  - intros w Hv. rewrite Ev in Hv. destruct (Ys w Hv) as (P1 & P2 & P3 & P4).
    destruct (Pk _ _ P1) as (P' & E1 & E2). rewrite E2. split; [exact P'|]. split; [congruence|]. split; [apply If; exact P3 | apply Im; exact P4].
  - intros i Hi Hw. destruct (Is i Hi) as [H|[H1 H2]].
    + rewrite (Ew i (started_below s i I H)) in Hw. apply Im. apply Yn; assumption.
    + rewrite (Ew i (pending_below s i I H1)) in Hw. contradiction.
Qed.

Lemma parked_keep_other s s' t w i :
  w <> t -> mpcs s' w = mpcs s w -> pcs (lane s') w = pcs (lane s) w -> ws s' w = ws s w ->
  parked s w i -> parked s' w i /\ w_null (ws s' w) = w_null (ws s w) /\ w_item (ws s' w) = w_item (ws s w).
Proof. intros N E1 E2 E3 P. rewrite E3. split; [apply (parked_frame s s' w i E1 E2 E3); exact P | split; reflexivity]. Qed.

(* a step of t that keeps t's stage and its context *)
Lemma parked_keep_self s s' t i :
  stage (mpcs s' t) (pcs (lane s') t) = stage (mpcs s t) (pcs (lane s) t) -> ws s' t = ws s t ->
  parked s t i -> parked s' t i /\ w_null (ws s' t) = w_null (ws s t) /\ w_item (ws s' t) = w_item (ws s t).
Proof. intros E1 E2 P. unfold parked in *. rewrite E1, E2. tauto. Qed.

(* the moving thread, when its synchronous-call stage and context are unchanged *)
Lemma tinv_self_keep s s' t :
  tinv s t -> mtid s' = mtid s ->
  thread_inv (lane s') t ->
  lane_ok (mpcs s' t) (pcs (lane s') t) = true ->
  (only_main (mpcs s' t) = true -> t = mtid s) ->
  (forall q, mq_of (mpcs s' t) = Some q -> 0 <= q < 8) ->
  sync_pc (mpcs s' t) = sync_pc (mpcs s t) ->
  (In t (syncers s') <-> In t (syncers s)) ->
  stage (mpcs s' t) (pcs (lane s') t) = stage (mpcs s t) (pcs (lane s) t) ->
  ws s' t = ws s t -> incl (finished s) (finished s') -> incl (mainran s) (mainran s') ->
  tinv s' t.
Proof.
  intros (T1 & T2 & T3 & T4 & T5 & T6) Em H1 H2 H3 H4 H5 H6 H7 H8 If Im.
  unfold tinv. rewrite Em. split; [exact H1|]. split; [exact H2|]. split; [exact H3|]. split; [exact H4|].
  split; [rewrite H5, H6; exact T5|].
  unfold sinv in *. rewrite H7, H8. destruct T6 as (S2 & S3 & S4 & S5 & S6).
  split; [exact S2|]. split; [exact S3|]. split; [exact S4|]. split; [exact S5|].
  intros A B. destruct (S6 A B) as (X & Y & Z). split; [exact X|]. split; [apply If; exact Y | apply Im; exact Z].
Qed.

(* ------------------------------------------------------------------ more frames *)
Lemma Inv_soft_word s (f : dqf -> dqf) r0 :
  Inv s -> (forall r, wfr r -> wfr (f r) /\ softeq r (f r)) -> st (lane s) = enc r0 -> wfr r0 ->
  Inv (set_lane s (set_st (lane s) (enc (f r0)))).
Proof.
  intros I Hf E0 W0.
  destruct I as (T & Y & V & G). split; [|split; [|split]].
  - intros u. specialize (T u). unfold tinv, sinv, thread_inv in *. mproj. lproj. exact T.
  - destruct Y as [y_ent0 y_run0 y_sig0 y_ran0]. constructor; unfold parked, pending, inflight, mcl in *; mproj; lproj; assumption.
  - exact V.
  - unfold mcl in *. mproj. destruct (c_lane (mclass (mpcs s (mtid s)))).
    + destruct G as [I2 G2]. split.
      * apply SInv_soft; [exact I2 | apply Hf; exact W0 |].
        intros r E W. assert (r = r0) by (apply (wf_enc_eq r0 r W0 W); congruence). subst r. apply Hf; exact W0.
      * destruct G2. constructor; unfold mcl; mproj; assumption.
    + destruct G as [r G].
      pose proof (a_wf s r G) as a_wf0. pose proof (a_enc s r G) as a_enc0. pose proof (a_shape s r G) as a_shape0.
      pose proof (a_dirty s r G) as a_dirty0.
      assert (r = r0) by (apply (wf_enc_eq r0 r W0 a_wf0); congruence). subst r. destruct G.
      destruct (Hf r0 W0) as [Wf (E1 & E2 & E3 & E4 & E5 & E6 & E7 & E8 & E9 & E10)].
      exists (f r0). constructor; unfold mcl, poker in *; mproj; lproj; try assumption; try congruence; try reflexivity.
      * rewrite E7, E8. exact a_shape0.
      * intros C Hl' Hw. destruct E10 as [E10|E10]; [rewrite E10; apply a_dirty0; assumption | exact E10].
Qed.

Lemma Inv_evfd s n : Inv s -> evfd s <= n -> Inv (set_evfd s n).
Proof.
  intros (T & Y & V & G) Hn. split; [|split; [|split]].
  - intros u. specialize (T u). unfold tinv, sinv, thread_inv in *. mproj. exact T.
  - destruct Y as [y_ent0 y_run0 y_sig0 y_ran0]. constructor; unfold parked, pending, inflight, mcl in *; mproj; assumption.
  - exact V.
  - unfold mcl in *. mproj. destruct (c_lane (mclass (mpcs s (mtid s)))).
    + destruct G as [I2 G2]. split; [exact I2|]. destruct G2. constructor; unfold mcl; mproj; assumption.
    + destruct G as [r G]. exists r. pose proof (a_strand s r G) as AS. pose proof (a_evfd s r G) as AE.
      destruct G. constructor; unfold mcl, poker in *; mproj; try assumption; try lia.
      intros C Hl. destruct (AS C Hl) as [H|H]; [left; lia | right; exact H].
Qed.

Lemma cls_facts p :
  (c_cbcf (mclass p) = true -> c_unb (mclass p) = true) /\
  (c_unb (mclass p) = true -> c_lane (mclass p) = false -> c_clean (mclass p) = true) /\
  (c_lane (mclass p) = true -> c_clean (mclass p) = false /\ c_cbcf (mclass p) = false /\ c_unb (mclass p) = true).
Proof. destruct p; cbn; try (destruct k; cbn); try (destruct tgt; cbn); repeat split; intros; try discriminate; try reflexivity. Qed.

(* before the lane is released a cleared DQF_THREAD_BOUND means that dispatch_main() is running *)
Lemma unbound_clean s : Inv s -> c_lane (mcl s) = false -> bound s = false -> c_clean (mcl s) = true.
Proof.
  intros (T & Y & V & G) CL Hb. rewrite CL in G. destruct G as [r G]. pose proof (a_bound s r G) as AB. rewrite Hb in AB.
  destruct (cls_facts (mpcs s (mtid s))) as (_ & F & _). apply F; [|exact CL].
  fold (mcl s). destruct (c_unb (mcl s)); [reflexivity | discriminate].
Qed.

Lemma token_pc_owned lp : token_pc lp = false -> owned_of lp = None.
Proof. destruct lp; cbn; try discriminate; reflexivity. Qed.

(* before the lane is released: thread t (not the token holder: nobody is) moves its lane program point to lp', its
   main-queue program point to p', and (b) stops being a waker *)
Lemma Inv_lane_ctl_pre s t lp' (b : bool) p' :
  Inv s -> c_lane (mcl s) = false ->
  token_pc lp' = false ->
  (if b then waker_pc lp' = false else waker_pc lp' = waker_pc (pcs (lane s) t)) ->
  (forall q, qos_of lp' = Some q -> 0 <= q < 8) ->
  lane_ok p' lp' = true ->
  (only_main p' = true -> t = mtid s) ->
  (forall q, mq_of p' = Some q -> 0 <= q < 8) ->
  sync_pc p' = sync_pc (mpcs s t) ->
  stage p' lp' = stage (mpcs s t) (pcs (lane s) t) ->
  mclass p' = mclass (mpcs s t) ->
  (c_clean (mcl s) = false -> lst (lane s) <> [] ->
   poker_pc (mpcs s t) (pcs (lane s) t) = true -> poker_pc p' lp' = true \/ 0 < evfd s) ->
  (b = true -> c_cbcf (mcl s) = true -> lst (lane s) <> [] -> forall r, st (lane s) = enc r -> wfr r -> f_d r = 1) ->
  Inv (set_mpc (set_lane s (set_wakers (set_pc (lane s) t lp') (if b then remove_z t (wakers (lane s)) else wakers (lane s)))) t p').
Proof.
  intros I CL Ht Hw Hqo Hl Hm Hq Hs Hg Hc Hp Hd.
  match goal with |- Inv ?x => set (s1 := x) end.
  pose proof I as (T & Y & V & G). rewrite CL in G. destruct G as [r G].
  destruct (T t) as (T1 & T2 & T3 & T4 & T5 & T6).
  assert (Tk : token (lane s) = None) by exact (a_token s r G).
  assert (Em : mcl s1 = mcl s).
  { unfold s1. rewrite (mcl_set_mpc (set_lane s _) t p'); [reflexivity|]. mproj. exact Hc. }
  assert (IF : inflight (lane s1) = inflight (lane s)).
  { unfold inflight. subst s1. mproj. lproj. rewrite Tk. reflexivity. }
  assert (Ep : pending s1 = pending s).
  { unfold pending. rewrite IF. subst s1. mproj. lproj. reflexivity. }
  assert (Est : stage (mpcs s1 t) (pcs (lane s1) t) = stage (mpcs s t) (pcs (lane s) t)).
  { subst s1. mproj. lproj. rewrite !upd_same. exact Hg. }
  assert (Wk : forall u, u <> t -> (In u (if b then remove_z t (wakers (lane s)) else wakers (lane s)) <-> In u (wakers (lane s)))).
  { intros u N. destruct b; [rewrite in_remove_z; tauto | tauto]. }
  split; [|split; [|split]].
  - intros u. destruct (Z.eq_dec u t) as [->|N].
    + apply (tinv_self_keep s s1 t (T t)).
      * subst s1; fr.
      * unfold thread_inv. subst s1. mproj. lproj. rewrite upd_same, Tk, Ht.
        destruct T1 as (Tt & Tw & To & Tq).
        split; [split; intros; discriminate|]. split.
        -- destruct b.
           ++ rewrite Hw, in_remove_z. split; [discriminate | intros [_ E]; congruence].
           ++ rewrite Hw. exact Tw.
        -- split; [rewrite (token_pc_owned lp' Ht); discriminate | exact Hqo].
      * subst s1. mproj. lproj. rewrite !upd_same. exact Hl.
      * subst s1. mproj. rewrite upd_same. exact Hm.
      * subst s1. mproj. rewrite upd_same. exact Hq.
      * subst s1. mproj. rewrite upd_same. exact Hs.
      * subst s1; fr.
      * exact Est.
      * subst s1; fr.
      * subst s1; fr.
      * subst s1; fr.
    + apply (tinv_other s s1 t u N (T u)); try (subst s1; fr; fail). subst s1. mproj. lproj. apply Wk. exact N.
  - apply (syinv_keep s s1 I (f_equal c_view Em)); try (subst s1; fr; fail).
    + intros j Hj. left. rewrite <- Ep. exact Hj.
    + intros w j P. destruct (Z.eq_dec w t) as [->|N].
      * apply (parked_keep_self s s1 t j Est); [subst s1; fr | exact P].
      * apply (parked_keep_other s s1 t w j N); subst s1; fr; exact P.
  - exact V.
  - rewrite Em, CL. exists r.
    pose proof (a_strand s r G) as AS. pose proof (a_dirty s r G) as AD. pose proof (a_nodup s r G) as AN.
    pose proof (a_enc s r G) as AE. pose proof (a_wf s r G) as AW.
    destruct G. constructor; rewrite ?Em; subst s1; mproj; lproj; try assumption.
    + destruct b; [apply nodup_remove_z; exact AN | exact AN].
    + intros C Hne. destruct (AS C Hne) as [H|[H|[u H]]]; [left; exact H | right; left; exact H|].
      destruct (Z.eq_dec u t) as [->|N].
      * destruct (Hp C Hne H) as [H'|H']; [|left; exact H'].
        right. right. exists t. unfold poker. mproj. lproj. rewrite !upd_same. exact H'.
      * right. right. exists u. unfold poker in *. mproj. lproj. rewrite !upd_other by exact N. exact H.
    + intros C Hne Hw0. destruct b.
      * apply (Hd eq_refl C Hne r AE AW).
      * apply AD; assumption.
Qed.

(* ------------------------------------------------------------------ a point update that changes nothing *)
Lemma upd_id {V} (f : Z -> V) t u : upd f t (f t) u = f u.
Proof. unfold upd. destruct (Z.eqb_spec u t) as [->|]; reflexivity. Qed.

Lemma Inv_upd_id s t : Inv (set_mpc s t (mpcs s t)) -> Inv s.
Proof.
  set (s0 := set_mpc s t (mpcs s t)).
  assert (Ep : forall u, mpcs s0 u = mpcs s u) by (intros u; unfold s0; mproj; apply upd_id).
  assert (Ec : mcl s0 = mcl s) by (unfold mcl; rewrite Ep; reflexivity).
  assert (Pk : forall w i, parked s0 w i <-> parked s w i) by (intros; unfold parked; rewrite Ep; tauto).
  intros (T & Y & V & G). split; [|split; [|split]].
  - intros u. specialize (T u). unfold tinv, sinv in *. rewrite Ep in T. exact T.
  - destruct Y as [y_ent0 y_run0 y_sig0 y_ran0]. rewrite Ec in *. constructor.
    + intros i Hi Hw. destruct (y_ent0 i Hi Hw) as [P Nn]. split; [apply Pk; exact P | exact Nn].
    + intros i w Hv. destruct (y_run0 i w Hv) as [E P]. split; [exact E|]. intros Hw. destruct (P Hw) as [P1 P2].
      split; [apply Pk; exact P1 | exact P2].
    + intros w Hv. destruct (y_sig0 w Hv) as (P1 & P2 & P3 & P4). split; [apply Pk; exact P1|]. tauto.
    + exact y_ran0.
  - exact V.
  - rewrite Ec in G. destruct (c_lane (mcl s)).
    + destruct G as [I2 G2]. split; [exact I2|]. destruct G2. rewrite Ec in *. constructor; assumption.
    + destruct G as [r G]. exists r. pose proof (a_strand s0 r G) as AS. destruct G. rewrite Ec in *.
      constructor; try assumption.
      intros C Hl. destruct (AS C Hl) as [H|[H|[u H]]]; [left; exact H | right; left; exact H|].
      right. right. exists u. unfold poker in *. rewrite Ep in H. exact H.
Qed.

(* ------------------------------------------------------------------ master frame lemma before the lane is released:
   thread t moves its lane program point to lp' (it is not a token holder: nobody is), possibly stops being a waker
   (b), moves its main-queue program point to p', replaces its synchronous-call context by w' and the set of
   synchronous callers by sy' *)
Lemma Inv_local_pre s t lp' (b : bool) p' w' sy' :
  Inv s -> c_lane (mcl s) = false ->
  let s1 := set_mpc (set_syncers (set_ws (set_lane s (set_wakers (set_pc (lane s) t lp')
              (if b then remove_z t (wakers (lane s)) else wakers (lane s)))) t w') sy') t p' in
  token_pc lp' = false ->
  (if b then waker_pc lp' = false else waker_pc lp' = waker_pc (pcs (lane s) t)) ->
  (forall q, qos_of lp' = Some q -> 0 <= q < 8) ->
  lane_ok p' lp' = true ->
  (only_main p' = true -> t = mtid s) ->
  (forall q, mq_of p' = Some q -> 0 <= q < 8) ->
  (sync_pc p' = true <-> In t sy') ->
  (forall u, u <> t -> (In u sy' <-> In u (syncers s))) ->
  (c_clean (mcl s) = true -> sy' = []) ->
  sinv s1 t ->
  (forall i, parked s t i -> parked s1 t i /\ w_null w' = w_null (ws s t) /\ w_item w' = w_item (ws s t)) ->
  mclass p' = mclass (mpcs s t) ->
  (c_clean (mcl s) = false -> lst (lane s) <> [] ->
   poker_pc (mpcs s t) (pcs (lane s) t) = true -> poker_pc p' lp' = true \/ 0 < evfd s) ->
  (b = true -> c_cbcf (mcl s) = true -> lst (lane s) <> [] -> forall r, st (lane s) = enc r -> wfr r -> f_d r = 1) ->
  Inv s1.
Proof.
  intros I CL s1 Ht Hw Hqo Hl Hm Hq Hs Hsy Hsn Hsi Hpk Hc Hp Hd.
  pose proof I as (T & Y & V & G). rewrite CL in G. destruct G as [r G].
  destruct (T t) as (T1 & T2 & T3 & T4 & T5 & T6).
  assert (Tk : token (lane s) = None) by exact (a_token s r G).
  assert (Em : mcl s1 = mcl s).
  { unfold s1. rewrite (mcl_set_mpc (set_syncers _ _) t p'); [reflexivity|]. mproj. exact Hc. }
  assert (IF : inflight (lane s1) = inflight (lane s)).
  { unfold inflight. subst s1. mproj. lproj. rewrite Tk. reflexivity. }
  assert (Ep : pending s1 = pending s).
  { unfold pending. rewrite IF. subst s1. mproj. lproj. reflexivity. }
  assert (Wk : forall u, u <> t -> (In u (if b then remove_z t (wakers (lane s)) else wakers (lane s)) <-> In u (wakers (lane s)))).
  { intros u N. destruct b; [rewrite in_remove_z; tauto | tauto]. }
  split; [|split; [|split]].
  - intros u. destruct (Z.eq_dec u t) as [->|N].
    + unfold tinv. split; [|split; [|split; [|split; [|split]]]].
      * unfold thread_inv. subst s1. mproj. lproj. rewrite upd_same, Tk, Ht.
        destruct T1 as (Tt & Tw & To & Tq).
        split; [split; intros; discriminate|]. split.
        -- destruct b.
           ++ rewrite Hw, in_remove_z. split; [discriminate | intros [_ E]; congruence].
           ++ rewrite Hw. exact Tw.
        -- split; [rewrite (token_pc_owned lp' Ht); discriminate | exact Hqo].
      * subst s1. mproj. lproj. rewrite !upd_same. exact Hl.
      * subst s1. mproj. rewrite upd_same. exact Hm.
      * subst s1. mproj. rewrite upd_same. exact Hq.
      * subst s1. mproj. rewrite upd_same. exact Hs.
      * exact Hsi.
    + apply (tinv_other s s1 t u N (T u)); try (subst s1; fr; fail).
      * subst s1. mproj. lproj. apply Wk. exact N.
      * subst s1. mproj. apply Hsy. exact N.
  - apply (syinv_keep s s1 I (f_equal c_view Em)); try (subst s1; fr; fail).
    + intros j Hj. left. rewrite <- Ep. exact Hj.
    + intros w j P. destruct (Z.eq_dec w t) as [->|N].
      * destruct (Hpk j P) as (A & B & C). split; [exact A|]. subst s1. mproj. rewrite upd_same. split; assumption.
      * apply (parked_keep_other s s1 t w j N); subst s1; fr; exact P.
  - exact V.
  - rewrite Em, CL. exists r.
    pose proof (a_strand s r G) as AS. pose proof (a_dirty s r G) as AD. pose proof (a_nodup s r G) as AN.
    pose proof (a_enc s r G) as AE. pose proof (a_wf s r G) as AW.
    destruct G. constructor; rewrite ?Em; subst s1; mproj; lproj; try assumption.
    + destruct b; [apply nodup_remove_z; exact AN | exact AN].
    + intros C Hne. destruct (AS C Hne) as [H|[H|[u H]]]; [left; exact H | right; left; exact H|].
      destruct (Z.eq_dec u t) as [->|N].
      * destruct (Hp C Hne H) as [H'|H']; [|left; exact H'].
        right. right. exists t. unfold poker. mproj. lproj. rewrite !upd_same. exact H'.
      * right. right. exists u. unfold poker in *. mproj. lproj. rewrite !upd_other by exact N. exact H.
    + intros C Hne Hw0. destruct b.
      * apply (Hd eq_refl C Hne r AE AW).
      * apply AD; assumption.
Qed.

(* ------------------------------------------------------------------ the invariant looks at the thread-indexed maps
   pointwise only *)
Record msim (s s' : mst) : Prop := {
  m_st : st (lane s') = st (lane s);
  m_lst : lst (lane s') = lst (lane s);
  m_rootq : rootq (lane s') = rootq (lane s);
  m_nextid : nextid (lane s') = nextid (lane s);
  m_started : started (lane s') = started (lane s);
  m_running : running (lane s') = running (lane s);
  m_token : token (lane s') = token (lane s);
  m_wakers : wakers (lane s') = wakers (lane s);
  m_pcs : forall u, pcs (lane s') u = pcs (lane s) u;
  m_mpcs : forall u, mpcs s' u = mpcs s u;
  m_mtid : mtid s' = mtid s;
  m_bound : bound s' = bound s;
  m_incb : incb s' = incb s;
  m_evfd : evfd s' = evfd s;
  m_hopen : hopen s' = hopen s;
  m_snap : snap s' = snap s;
  m_ws : forall u, ws s' u = ws s u;
  m_waiter : forall i, waiter_of s' i = waiter_of s i;
  m_finished : finished s' = finished s;
  m_mainran : mainran s' = mainran s;
  m_syncers : syncers s' = syncers s;
  m_mainstarted : mainstarted s' = mainstarted s
}.

Lemma Inv_ext s s' : msim s s' -> Inv s -> Inv s'.
Proof.
  intros M (T & Y & V & G). destruct M.
  assert (Ec : mcl s' = mcl s) by (unfold mcl; rewrite m_mtid0, m_mpcs0; reflexivity).
  assert (Pk : forall w i, parked s' w i <-> parked s w i) by (intros; unfold parked; rewrite m_mpcs0, m_pcs0, m_ws0; tauto).
  assert (If : inflight (lane s') = inflight (lane s)).
  { unfold inflight. rewrite m_token0. destruct (token (lane s)) as [[w|]|]; try reflexivity. rewrite m_pcs0. reflexivity. }
  assert (Ep : pending s' = pending s) by (unfold pending; rewrite If, m_snap0, m_lst0; reflexivity).
  assert (Ti : forall u, thread_inv (lane s') u <-> thread_inv (lane s) u).
  { intros u. unfold thread_inv. rewrite m_pcs0, m_token0, m_wakers0. tauto. }
  split; [|split; [|split]].
  - intros u. specialize (T u). unfold tinv, sinv in *. rewrite Ti, m_mpcs0, m_pcs0, m_mtid0, m_syncers0, m_ws0, m_finished0, m_mainran0.
    exact T.
  - destruct Y as [y_ent0 y_run0 y_sig0 y_ran0]. constructor; rewrite ?Ec, ?Ep.
    + intros i Hi Hw. rewrite m_waiter0 in *. rewrite m_ws0. rewrite Pk. apply y_ent0; assumption.
    + intros i w Hv. rewrite m_waiter0. rewrite m_ws0, Pk. apply y_run0; assumption.
    + intros w Hv. rewrite m_ws0, Pk, m_finished0, m_mainran0. apply y_sig0; assumption.
    + intros i Hi Hw. rewrite m_started0 in Hi. rewrite m_waiter0 in Hw. rewrite m_mainran0. apply y_ran0; assumption.
  - rewrite m_mtid0. exact V.
  - rewrite Ec. destruct (c_lane (mcl s)).
    + destruct G as [[[r G] T2] G2]. split; [split|].
      * exists r. pose proof (g_lock _ _ G) as GL. pose proof (g_dirty _ _ G) as GD. pose proof (g_order _ _ G) as GO.
        pose proof (g_running _ _ G) as GR. destruct G.
        constructor; rewrite ?m_st0, ?m_lst0, ?m_rootq0, ?m_nextid0, ?m_started0, ?m_running0, ?m_token0, ?m_wakers0, ?If; try assumption.
        -- destruct (token (lane s)) as [[w|]|]; try assumption. rewrite m_pcs0. exact GL.
        -- intros w K. rewrite m_pcs0. apply GD. exact K.
        -- destruct (token (lane s)) as [[w|]|]; try assumption. rewrite m_pcs0. exact GR.
      * intros u. apply Ti. apply T2.
      * destruct G2. constructor; rewrite ?Ec, ?m_bound0, ?m_snap0, ?m_syncers0, ?m_mainstarted0, ?m_incb0, ?m_hopen0; assumption.
    + destruct G as [r G]. exists r. pose proof (a_strand s r G) as AS. destruct G.
      constructor; rewrite ?Ec, ?m_st0, ?m_lst0, ?m_rootq0, ?m_nextid0, ?m_started0, ?m_running0, ?m_token0, ?m_wakers0, ?m_mtid0,
        ?m_bound0, ?m_incb0, ?m_evfd0, ?m_hopen0, ?m_snap0, ?m_syncers0, ?m_mainstarted0; try assumption.
      intros C Hl. destruct (AS C Hl) as [H|[H|[u H]]]; [left; exact H | right; left; exact H|].
      right. right. exists u. unfold poker in *. rewrite m_mpcs0, m_pcs0. exact H.
Qed.

(* discharge msim goals between two states built from the same state by setters *)
Ltac msim_tac :=
  constructor; intros; mproj; lproj;
  repeat match goal with
  | |- context [upd ?f ?t (?f ?t) ?u] => rewrite (upd_id f t u)
  | |- context [upd ?f ?t ?v ?u] =>
      first [ rewrite (upd_same f t v) | destruct (Z.eq_dec u t) as [->|?]; [rewrite !upd_same | rewrite !upd_other by assumption] ]
  end; try reflexivity; try congruence.

Lemma syinv_keep0 s s' :
  Inv s ->
  c_view (mcl s') = c_view (mcl s) ->
  pending s' = pending s ->
  (forall i, waiter_of s' i = waiter_of s i) ->
  started (lane s') = started (lane s) ->
  incl (finished s) (finished s') -> incl (mainran s) (mainran s') ->
  (forall w i, parked s w i ->
     parked s' w i /\ w_null (ws s' w) = w_null (ws s w) /\ w_item (ws s' w) = w_item (ws s w)) ->
  syinv s'.
Proof.
  intros I Ev Ep Ew Es If Im Pk. apply (syinv_keep s s' I Ev); try assumption.
  - intros i Hi. left. rewrite <- Ep. exact Hi.
  - intros i _. apply Ew.
  - intros i Hi. left. rewrite <- Es. exact Hi.
Qed.

(* a step of thread t that is not in a synchronous call (stage 0) and leaves every context alone *)
Lemma parked_keep_nosync s s' t :
  stage (mpcs s t) (pcs (lane s) t) = 0 ->
  (forall w, w <> t -> mpcs s' w = mpcs s w /\ pcs (lane s') w = pcs (lane s) w) ->
  (forall w, ws s' w = ws s w) ->
  forall w i, parked s w i ->
    parked s' w i /\ w_null (ws s' w) = w_null (ws s w) /\ w_item (ws s' w) = w_item (ws s w).
Proof.
  intros Hg Ho Hw w i P. destruct (Z.eq_dec w t) as [->|N].
  - exfalso. apply (not_parked_stage s t i P). lia.
  - destruct (Ho w N) as [E1 E2]. apply (parked_keep_other s s' t w i N E1 E2 (Hw w) P).
Qed.
