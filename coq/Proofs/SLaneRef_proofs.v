(* SLaneRef_proofs.v — the +2 units of the serial-lane protocol are accounted for exactly (Model/SLaneRef.v on top of
   Model/SLane.v): in every reachable state, units outstanding = wakeups in flight that own one + [the enqueued token
   exists].  Uses the invariant of SLane_proofs (who holds the token) for the pre-states and post-states of a step. *)
From Coq Require Import ZArith Bool List Lia.
From Verif Require Import Word Conc Gen_consts Gen_dqstate SLane SLane_proofs SLaneRef.
Import ListNotations.
Local Open Scope Z_scope.

Definition wake_pc (p : pc) : bool :=
  match p with PA_probe _ | PA_wake _ _ | PA_oprobe _ | PA_owake _ => true | _ => false end.
Definition tok (s : gst) : Z := match token s with None => 0 | _ => 1 end.

Definition J (s : gst) (h : rh) : Prop :=
  rc2 h = Z.of_nat (length (wh h)) + tok s /\ NoDup (wh h) /\ forall t, In t (wh h) <-> wake_pc (pcs s t) = true.

Lemma length_remove_z t l : NoDup l -> In t l -> Z.of_nat (length (remove_z t l)) = Z.of_nat (length l) - 1.
Proof.
  induction l as [|a l IH]; cbn [remove_z length]; intros ND Hin; [contradiction|].
  inversion ND as [|? ? Hna ND']; subst. destruct (Z.eqb_spec a t) as [->|Ne].
  - assert (E : remove_z t l = l).
    { clear IH ND ND' Hin. induction l as [|b l IH]; cbn [remove_z]; [reflexivity|].
      destruct (Z.eqb_spec b t) as [->|]; [exfalso; apply Hna; left; reflexivity|]. rewrite IH; [reflexivity|].
      intros X. apply Hna. right. exact X. }
    rewrite E. lia.
  - destruct Hin as [->|Hin]; [contradiction|]. cbn [length]. rewrite Nat2Z.inj_succ, (IH ND' Hin). lia.
Qed.

(* frame: a step of thread t leaves the program points of the others alone *)
Lemma gstep_frame s t s' u : gstep s t = Some s' -> u <> t -> pcs s' u = pcs s u.
Proof.
  intros B Ne. unfold gstep in B. destruct (pcs s t); try discriminate;
    repeat match type of B with
           | context [match ?x with _ => _ end] => destruct x; try discriminate
           | context [if ?x then _ else _] => destruct x; try discriminate
           end;
    injection B as <-; cbn [pcs set_pc set_st set_lst set_rootq set_token set_wakers]; try rewrite upd_other by exact Ne; reflexivity.
Qed.
Lemma begin_frame s t c s' u : begin s t c = Some s' -> u <> t -> pcs s' u = pcs s u.
Proof.
  intros B Ne. unfold begin in B. destruct (pcs s t); try discriminate. destruct c.
  - destruct ((0 <=? qos) && (qos <? 8)); [|discriminate]. injection B as <-. cbn. rewrite upd_other by exact Ne. reflexivity.
  - destruct (0 <? rootq s); [|discriminate]. injection B as <-. cbn. rewrite upd_other by exact Ne. reflexivity.
Qed.
Lemma ostep_frame s t s' u : ostep s t = Some s' -> u <> t -> pcs s' u = pcs s u.
Proof.
  intros B Ne. unfold ostep in B. destruct (pcs s t); try discriminate. destruct was_empty; [discriminate|].
  injection B as <-. cbn. rewrite upd_other by exact Ne. reflexivity.
Qed.

Lemma xreach_reach rb s h : xreach rb s h -> reach rb s.
Proof. induction 1; [apply reach_init; reflexivity | eapply reach_step; eauto]. Qed.

(* a wakeup that becomes the holder of the token found no token: nobody else held it, and it was not in the root queue *)
Lemma new_holder_found_none s s' t :
  Inv s -> Inv s' -> token s' = Some (Some t) -> token_pc (pcs s t) = false -> rootq s' = rootq s ->
  (forall u, u <> t -> pcs s' u = pcs s u) -> token s = None.
Proof.
  intros [[r G] T] [[r' G'] T'] Ht' Hnt Hr Hfr.
  destruct (token s) as [[u|]|] eqn:E; [| |reflexivity]; exfalso.
  - assert (Ne : u <> t).
    { intros ->. apply (not_holder s t (T t) Hnt). exact E. }
    destruct (T u) as [Tu _]. pose proof (proj2 Tu E) as Pu. destruct (T' u) as [Tu' _].
    rewrite <- (Hfr u Ne) in Pu. apply Tu' in Pu. congruence.
  - pose proof (g_rootq s r G) as R1. pose proof (g_rootq s' r' G') as R2. rewrite E in R1. rewrite Ht' in R2. lia.
Qed.

Lemma tok_holder s t : Inv s -> token_pc (pcs s t) = true -> tok s = 1.
Proof. intros [_ T] H. unfold tok. rewrite (holder s t (T t) H). reflexivity. Qed.

Ltac sp := cbn [st lst rootq pcs nextid started running token wakers set_pc set_st set_lst set_rootq set_token set_wakers].

(* the three shapes of a ghost update *)
Lemma J_same s s' t h :
  J s h -> tok s' = tok s -> (forall u, u <> t -> pcs s' u = pcs s u) -> wake_pc (pcs s' t) = wake_pc (pcs s t) -> J s' h.
Proof.
  intros (A & N & M) Ht Hfr Hw. split; [rewrite Ht; exact A|]. split; [exact N|].
  intros u. destruct (Z.eq_dec u t) as [->|Ne]; [rewrite Hw|rewrite (Hfr u Ne)]; apply M.
Qed.
Lemma J_take s s' t h :
  J s h -> tok s' = tok s -> (forall u, u <> t -> pcs s' u = pcs s u) -> wake_pc (pcs s t) = false ->
  wake_pc (pcs s' t) = true -> J s' (take t h).
Proof.
  intros (A & N & M) Ht Hfr Hw Hw'. unfold J, take. cbn [rc2 wh]. split; [|split].
  - rewrite Ht. cbn [length]. lia.
  - constructor; [|exact N]. intros X. apply M in X. congruence.
  - intros u. destruct (Z.eq_dec u t) as [->|Ne].
    + split; [intros _; exact Hw'|intros _; left; reflexivity].
    + rewrite (Hfr u Ne). split.
      * intros [X|X]; [congruence|apply M; exact X].
      * intros X. right. apply M. exact X.
Qed.
Lemma J_drop s s' t h d :
  J s h -> tok s' = tok s + d -> (forall u, u <> t -> pcs s' u = pcs s u) -> wake_pc (pcs s t) = true ->
  wake_pc (pcs s' t) = false -> J s' {| rc2 := rc2 h - 1 + d; wh := remove_z t (wh h) |}.
Proof.
  intros (A & N & M) Ht Hfr Hw Hw'. unfold J. cbn [rc2 wh]. split; [|split].
  - rewrite (length_remove_z t (wh h) N (proj2 (M t) Hw)), Ht. lia.
  - apply nodup_remove_z. exact N.
  - intros u. rewrite in_remove_z. destruct (Z.eq_dec u t) as [->|Ne].
    + rewrite Hw'. split; [intros [_ X]; contradiction|discriminate].
    + rewrite (Hfr u Ne). split; [intros [X _]; apply M; exact X|intros X; split; [apply M; exact X|exact Ne]].
Qed.
Lemma J_tokdown s s' t h :
  J s h -> tok s = 1 -> tok s' = 0 -> (forall u, u <> t -> pcs s' u = pcs s u) -> wake_pc (pcs s t) = false ->
  wake_pc (pcs s' t) = false -> J s' {| rc2 := rc2 h - 1; wh := wh h |}.
Proof.
  intros (A & N & M) H1 H0 Hfr Hw Hw'. unfold J. cbn [rc2 wh]. split; [lia|]. split; [exact N|].
  intros u. destruct (Z.eq_dec u t) as [->|Ne]; [rewrite Hw', <- Hw|rewrite (Hfr u Ne)]; apply M.
Qed.

Lemma lxor_self_enq x : negb (Z.land (Z.lxor x x) ENQUEUED =? 0) = false.
Proof. rewrite Z.lxor_nilpotent. reflexivity. Qed.

Ltac same_tok := unfold tok; sp; reflexivity.
Ltac pc_at t := sp; rewrite ?upd_same; try reflexivity.

Lemma J_step s a s' h : Inv s -> Inv s' -> step s a s' -> J s h -> J s' (rstep s a s' h).
Proof.
  intros I I' St HJ. destruct a as [t c|t|t]; destruct St as [V B]; cbn [rstep].
  - (* a call begins *)
    pose proof (fun u => begin_frame s t c s' u B) as Fr.
    unfold begin in B. destruct (pcs s t) eqn:P; try discriminate. destruct c.
    + destruct ((0 <=? qos) && (qos <? 8)); [|discriminate]. injection B as <-.
      apply (J_same s _ t); [exact HJ|same_tok|exact Fr|rewrite P; pc_at t].
    + destruct (Z.ltb_spec 0 (rootq s)) as [R|]; [|discriminate]. injection B as <-.
      apply (J_same s _ t); [exact HJ| |exact Fr|rewrite P; pc_at t].
      destruct I as [[r G] _]. pose proof (g_rootq s r G) as R1. unfold tok. sp.
      destruct (token s) as [[u|]|]; try reflexivity; lia.
  - (* a step inside a call *)
    pose proof (fun u => gstep_frame s t s' u B) as Fr. pose proof B as B0.
    unfold gstep in B. destruct (pcs s t) eqn:P; try discriminate.
    + (* PA_xchg *) injection B as <-. apply (J_same s _ t); [exact HJ|same_tok|exact Fr|rewrite P; pc_at t].
    + (* PA_link *) injection B as <-. destruct was_empty.
      * apply (J_take s _ t); [exact HJ|same_tok|exact Fr|rewrite P; reflexivity|pc_at t].
      * apply (J_same s _ t); [exact HJ|same_tok|exact Fr|rewrite P; pc_at t].
    + (* PA_probe *) injection B as <-. destruct (lst s).
      * replace (give t h) with {| rc2 := rc2 h - 1 + 0; wh := remove_z t (wh h) |} by (unfold give; f_equal; lia).
        apply (J_drop s _ t); [exact HJ|unfold tok; sp; lia|exact Fr|rewrite P; reflexivity|pc_at t].
      * apply (J_same s _ t); [exact HJ|same_tok|exact Fr|rewrite P; pc_at t].
    + (* PA_wake *)
      destruct (wakeup_loop 0 qos 3 1 (st s) ENQUEUED) as [new ret| | |] eqn:W; try discriminate. cbv zeta in B.
      destruct (negb (Z.land (Z.lxor (st s) new) ENQUEUED =? 0)) eqn:E; injection B as <-; unfold enq_set; sp; rewrite E.
      * (* this wakeup set ENQUEUED: its unit travels with the lane *)
        assert (T0 : token s = None).
        { apply (new_holder_found_none s _ t I I'); [sp; reflexivity|rewrite P; reflexivity|sp; reflexivity|exact Fr]. }
        replace (move t h) with {| rc2 := rc2 h - 1 + 1; wh := remove_z t (wh h) |} by (unfold move; f_equal; lia).
        apply (J_drop s _ t); [exact HJ|unfold tok; sp; rewrite T0; reflexivity|exact Fr|rewrite P; reflexivity|pc_at t].
      * replace (give t h) with {| rc2 := rc2 h - 1 + 0; wh := remove_z t (wh h) |} by (unfold give; f_equal; lia).
        apply (J_drop s _ t); [exact HJ|unfold tok; sp; lia|exact Fr|rewrite P; reflexivity|pc_at t].
    + (* PA_rootpush *) injection B as <-. apply (J_same s _ t); [exact HJ| |exact Fr|rewrite P; pc_at t].
      rewrite (tok_holder s t I) by (rewrite P; reflexivity). unfold tok. sp. reflexivity.
    + (* PA_oprobe *) injection B as <-. destruct (lst s).
      * replace (give t h) with {| rc2 := rc2 h - 1 + 0; wh := remove_z t (wh h) |} by (unfold give; f_equal; lia).
        apply (J_drop s _ t); [exact HJ|unfold tok; sp; lia|exact Fr|rewrite P; reflexivity|pc_at t].
      * apply (J_same s _ t); [exact HJ|same_tok|exact Fr|rewrite P; pc_at t].
    + (* PA_owake *)
      destruct (wakeup_loop 0 qos 1 1 (st s) ENQUEUED) as [new ret|ret xs| |] eqn:W; try discriminate.
      * cbv zeta in B. destruct (negb (Z.land (Z.lxor (st s) new) ENQUEUED =? 0)) eqn:E; injection B as <-; unfold enq_set; sp; rewrite E.
        -- assert (T0 : token s = None).
           { apply (new_holder_found_none s _ t I I'); [sp; reflexivity|rewrite P; reflexivity|sp; reflexivity|exact Fr]. }
           replace (move t h) with {| rc2 := rc2 h - 1 + 1; wh := remove_z t (wh h) |} by (unfold move; f_equal; lia).
           apply (J_drop s _ t); [exact HJ|unfold tok; sp; rewrite T0; reflexivity|exact Fr|rewrite P; reflexivity|pc_at t].
        -- replace (give t h) with {| rc2 := rc2 h - 1 + 0; wh := remove_z t (wh h) |} by (unfold give; f_equal; lia).
           apply (J_drop s _ t); [exact HJ|unfold tok; sp; lia|exact Fr|rewrite P; reflexivity|pc_at t].
      * (* the rmw loop gave up: goto done *)
        injection B as <-. unfold enq_set. sp. rewrite lxor_self_enq.
        replace (give t h) with {| rc2 := rc2 h - 1 + 0; wh := remove_z t (wh h) |} by (unfold give; f_equal; lia).
        apply (J_drop s _ t); [exact HJ|unfold tok; sp; lia|exact Fr|rewrite P; reflexivity|pc_at t].
    + (* PW_lock *)
      pose proof (tok_holder s t I) as TH. rewrite P in TH. specialize (TH eq_refl).
      destruct (f_dispatch_queue_drain_try_lock 0 0 1 t floor (st s) 0) as [new owned| |xs|] eqn:L; try discriminate; injection B as <-.
      * destruct (owned =? 0); sp; rewrite upd_same; cbn [idle_pc].
        -- apply (J_tokdown s _ t); [exact HJ|exact TH|unfold tok; sp; reflexivity|exact Fr|rewrite P; reflexivity|pc_at t].
        -- apply (J_same s _ t); [exact HJ|same_tok|exact Fr|rewrite P; pc_at t].
      * sp. rewrite upd_same. cbn [idle_pc]. apply (J_same s _ t); [exact HJ|same_tok|exact Fr|rewrite P; pc_at t].
    + (* PW_tail *) injection B as <-. apply (J_same s _ t); [exact HJ|same_tok|exact Fr|rewrite P; sp; rewrite upd_same; destruct (lst s); reflexivity].
    + (* PW_head *) destruct (lst s) as [|e l]; [discriminate|]. destruct (e_linked e); [|discriminate]. injection B as <-.
      apply (J_same s _ t); [exact HJ|same_tok|exact Fr|rewrite P; pc_at t].
    + (* PW_pop *) destruct (lst s) as [|e [|e2 l]]; [discriminate| |].
      * injection B as <-. apply (J_same s _ t); [exact HJ|same_tok|exact Fr|rewrite P; pc_at t].
      * destruct (e_linked e2); [|discriminate]. injection B as <-.
        apply (J_same s _ t); [exact HJ|same_tok|exact Fr|rewrite P; pc_at t].
    + (* PW_run *) injection B as <-. apply (J_same s _ t); [exact HJ|same_tok|exact Fr|rewrite P; pc_at t].
    + (* PW_incall *) injection B as <-. apply (J_same s _ t); [exact HJ|same_tok|exact Fr|rewrite P; pc_at t].
    + (* PW_next *) destruct more; injection B as <-.
      * apply (J_same s _ t); [exact HJ|same_tok|exact Fr|rewrite P; pc_at t].
      * apply (J_same s _ t); [exact HJ|same_tok|exact Fr|rewrite P; sp; rewrite upd_same; destruct (lst s); reflexivity].
    + (* PW_unlock *)
      pose proof (tok_holder s t I) as TH. rewrite P in TH. specialize (TH eq_refl).
      destruct (f_dispatch_queue_drain_try_unlock 0 owned 1 (st s)) as [new ret|ret xs| |] eqn:U; try discriminate; injection B as <-;
        sp; rewrite upd_same; cbn [idle_pc].
      * apply (J_tokdown s _ t); [exact HJ|exact TH|unfold tok; sp; reflexivity|exact Fr|rewrite P; reflexivity|pc_at t].
      * apply (J_same s _ t); [exact HJ|same_tok|exact Fr|rewrite P; pc_at t].
    + (* PW_xor *) injection B as <-. apply (J_same s _ t); [exact HJ|same_tok|exact Fr|rewrite P; pc_at t].
  - (* override push *)
    pose proof (fun u => ostep_frame s t s' u B) as Fr.
    unfold ostep in B. destruct (pcs s t) eqn:P; try discriminate. destruct was_empty; [discriminate|]. injection B as <-.
    apply (J_take s _ t); [exact HJ|same_tok|exact Fr|rewrite P; reflexivity|pc_at t].
Qed.

Theorem J_reach rb s h : 0 <= rb < 2 -> xreach rb s h -> J s h.
Proof.
  intros Hrb R. induction R as [|s h a s' R IH St].
  - unfold J, r0, tok, init_state; cbn. split; [reflexivity|]. split; [constructor|]. intros t. split; [intros []|discriminate].
  - apply J_step; [| |exact St|exact IH].
    + apply (Inv_reachable rb); [exact Hrb|]. eapply xreach_reach; exact R.
    + apply (Inv_reachable rb); [exact Hrb|]. eapply reach_step; [eapply xreach_reach; exact R|exact St].
Qed.

(* exact accounting: units outstanding = wakeups in flight owning one + [the enqueued token exists] *)
Theorem plus2_account rb s h : 0 <= rb < 2 -> xreach rb s h ->
  rc2 h = Z.of_nat (length (wh h)) + tok s /\ NoDup (wh h) /\ (forall t, In t (wh h) <-> wake_pc (pcs s t) = true) /\ 0 <= rc2 h.
Proof.
  intros Hrb R. destruct (J_reach rb s h Hrb R) as (A & N & M). repeat split; try assumption; try apply M.
  unfold tok in A. destruct (token s); lia.
Qed.

(* the lane holds at least one +2 while it sits in its target queue, while a worker has popped it / drains it / is about
   to push it, and while a wakeup with CONSUME_2 is in flight *)
Theorem plus2_held_while_busy rb s h t : 0 <= rb < 2 -> xreach rb s h ->
  0 < rootq s \/ token_pc (pcs s t) = true \/ wake_pc (pcs s t) = true -> 1 <= rc2 h.
Proof.
  intros Hrb R Hb. destruct (J_reach rb s h Hrb R) as (A & N & M).
  assert (I : Inv s) by (apply (Inv_reachable rb); [exact Hrb|eapply xreach_reach; exact R]).
  destruct Hb as [Hq|[Hp|Hw]].
  - destruct I as [[r G] _]. pose proof (g_rootq s r G) as R1. unfold tok in A. destruct (token s) as [[u|]|]; lia.
  - rewrite (tok_holder s t I Hp) in A. lia.
  - apply M in Hw. destruct (wh h); [contradiction|]. cbn [length] in A. unfold tok in A. destruct (token s); lia.
Qed.

(* hence the count cannot reach -1 (dispose) in such a state, whatever else references the lane *)
Corollary lane_not_disposed_while_busy rb s h t base : 0 <= rb < 2 -> xreach rb s h -> -1 <= base ->
  0 < rootq s \/ token_pc (pcs s t) = true \/ wake_pc (pcs s t) = true -> 1 <= lane_ref_cnt base h.
Proof. intros Hrb R Hbase Hb. pose proof (plus2_held_while_busy rb s h t Hrb R Hb). unfold lane_ref_cnt. lia. Qed.

(* no over-release: a step that gives a unit back finds one *)
Theorem plus2_release_has_unit rb s h a s' : 0 <= rb < 2 -> xreach rb s h -> step s a s' ->
  rc2 (rstep s a s' h) < rc2 h -> 1 <= rc2 h /\ rc2 (rstep s a s' h) = rc2 h - 1.
Proof.
  intros Hrb R St Hlt.
  assert (R' : xreach rb s' (rstep s a s' h)) by (apply xr_step; assumption).
  destruct (plus2_account rb s' _ Hrb R') as (_ & _ & _ & P'). split; [lia|].
  revert Hlt. unfold rstep. destruct a as [t c|t|t]; [lia| |unfold take; cbn [rc2]; lia].
  destruct (pcs s t); try lia; unfold take, give, move;
    repeat match goal with |- context [match ?x with _ => _ end] => destruct x end; cbn [rc2]; lia.
Qed.

(* when nothing is in progress every unit has been given back, except the one travelling with a lane that still sits
   in its target queue *)
Theorem plus2_quiescent rb s h : 0 <= rb < 2 -> xreach rb s h -> quiescent s ->
  wh h = [] /\ rc2 h = rootq s /\ (rootq s = 0 \/ rootq s = 1).
Proof.
  intros Hrb R Q. destruct (J_reach rb s h Hrb R) as (A & N & M).
  assert (I : Inv s) by (apply (Inv_reachable rb); [exact Hrb|eapply xreach_reach; exact R]).
  assert (W : wh h = []).
  { destruct (wh h) as [|u l] eqn:E; [reflexivity|]. exfalso. assert (In u (u :: l)) as X by (left; reflexivity).
    apply M in X. rewrite (Q u) in X. discriminate. }
  split; [exact W|]. rewrite W in A. cbn [length] in A. destruct I as [[r G] T]. pose proof (g_rootq s r G) as R1.
  unfold tok in A. destruct (token s) as [[u|]|] eqn:E.
  - exfalso. destruct (T u) as [Tu _]. apply Tu in E. rewrite (Q u) in E. discriminate.
  - split; [lia|right; lia].
  - split; [lia|left; lia].
Qed.

Lemma xrun_xreach rb acts : forall s h s' h', xreach rb s h -> xrun s h acts = Some (s', h') -> xreach rb s' h'.
Proof.
  induction acts as [|a acts IH]; cbn [xrun]; intros s h s' h' R H; [injection H as <- <-; exact R|].
  destruct ((0 <? act_tid a) && (act_tid a <? 1073741824)) eqn:V; [|discriminate].
  apply andb_true_iff in V as [V1 V2]. apply Z.ltb_lt in V1, V2.
  destruct a as [t c|t|t]; cbn [act_tid] in V1, V2.
  - destruct (begin s t c) as [s1|] eqn:B; [|discriminate]. eapply (IH s1); [|exact H].
    apply xr_step; [exact R|]. split; [split; assumption|exact B].
  - destruct (gstep s t) as [s1|] eqn:B; [|discriminate]. eapply (IH s1); [|exact H].
    apply xr_step; [exact R|]. split; [split; assumption|exact B].
  - destruct (ostep s t) as [s1|] eqn:B; [|discriminate]. eapply (IH s1); [|exact H].
    apply xr_step; [exact R|]. split; [split; assumption|exact B].
Qed.

Definition quiescent_on (ts : list Z) (s : gst) : bool := forallb (fun t => idle_pc (pcs s t)) ts.
