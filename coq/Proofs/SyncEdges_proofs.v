(* SyncEdges_proofs.v — the hand-off edges of C05's visibility sentence, as facts about the ordering annotations the
   source has (site lists and rmw-loop orders regenerated from /repo on every run) and about the models' consumers.

   WHAT THIS IS NOT: the C11 memory model is not formalised here.  Each edge lemma states
     (a) the producing function performs a store / read-modify-write with order >= release on word X, placed after the
         sites that prepare the payload and before (or as) the publication;
     (b) the consuming function performs a load / read-modify-write with order >= acquire on the same word X before it
         proceeds;
     (c) in the model, the consumer proceeds only on a value of X written by that release (the synchronises-with
         condition of C11 section 5.1.2.4 on the model's sequentially consistent memory).
   Weakening any of these orders in the source changes a generated definition and breaks the lemma.  Whether the hardware
   and the compiler honour the annotations is exercised by the check-summed plain payloads of the stress oracle
   (harness/c05_sync.c, harness/c01_lanes.c), on the machine at hand (x86-64, TSO). *)
From Coq Require Import ZArith Bool List Lia.
From Verif Require Import Word Conc Gen_consts Gen_fields Gen_dqstate Gen_lanesites Gen_once Once Once_proofs Sema Group
  SyncWait SyncWait_word SyncWait_inv SyncWait_proofs.
Import ListNotations.
Local Open Scope Z_scope.

Definition writes (k : akind) : bool := match k with KLoad | KFence => false | _ => true end.
Definition reads (k : akind) : bool := match k with KStore | KFence => false | _ => true end.
Definition rel (o : morder) : bool := match o with Release | AcqRel | SeqCst => true | _ => false end.
Definition acq (o : morder) : bool := match o with Acquire | AcqRel | SeqCst => true | _ => false end.
Definition release_on (f : nat) (x : site) : bool := writes (s_kind x) && Nat.eqb (s_field x) f && rel (s_order x).
Definition acquire_on (f : nat) (x : site) : bool := reads (s_kind x) && Nat.eqb (s_field x) f && acq (s_order x).
Definition acquire_fence (x : site) : bool := match s_kind x with KFence => acq (s_order x) | _ => false end.
Definition touches (f : nat) (x : site) : bool := Nat.eqb (s_field x) f.
(* every site before the first release on f only touches the fields in `own` (preparation of the new node), and at least
   one write to a field of `pub` (the publication) follows the release *)
Fixpoint release_then_publish (f : nat) (own pub : list nat) (l : list site) : bool :=
  match l with
  | [] => false
  | x :: l' => if release_on f x then existsb (fun y => writes (s_kind y) && existsb (Nat.eqb (s_field y)) pub) l'
               else existsb (Nat.eqb (s_field x)) own && release_then_publish f own pub l'
  end.
Definition first_is (p : site -> bool) (l : list site) : bool := match l with x :: _ => p x | [] => false end.
Definition rel_order (o : morder) : Prop := rel o = true.
Definition acq_order (o : morder) : Prop := acq o = true.
Ltac conj_refl := repeat (split; [reflexivity|]).

(* ---------------------------------------------------------------- 1. submission -> item (asynchronous push) *)
Lemma head_load_published s t e s' c :
  pcs s t = B_head c \/ (exists o, pcs s t = W_head o) -> gstep s t e = Some s' -> ea e <> 0 ->
  exists e1 rest, lst s = e1 :: rest /\ e_linked e1 = true /\ e_id e1 = ea e.
Proof.
  intros Hp Hs Hn. apply gstep_unfold in Hs as (p' & acts & s1 & Hts & Ha & ->).
  assert (Hh : ea e = head_value s).
  { destruct Hp as [Hp|[o Hp]]; rewrite Hp in Hts; cbn [tstep] in Hts;
      (destruct (is_q e DV_LOAD MO_ACQUIRE OFF_H || is_q e DV_LOAD MO_RELAXED OFF_H); [|discriminate Hts]);
      unfold ret in Hts; injection Hts as <- <-; apply acts_cons in Ha as (sx & HX & _); cbn [apply_act] in HX;
      (destruct (Z.eqb_spec (ea e) (head_value s)); [assumption|discriminate HX]). }
  unfold head_value in Hh. destruct (lst s) as [|e1 rest]; [congruence|]. exists e1, rest.
  destruct (e_linked e1); [auto|congruence].
Qed.

Lemma edge_submit_item :
  (* producer: the node's own link is initialised, then the tail exchange is a release, then the pointer is published *)
  release_then_publish F_dq_items_tail [F_do_next] [F_do_next; F_dq_items_head] f_dispatch_queue_push_item_sites = true /\
  (* consumer: the published pointers are read with acquire (dependency) loads before the item is touched *)
  first_is (fun x => reads (s_kind x) && acq (s_order x)) f_dispatch_queue_get_head_sites = true /\
  first_is (acquire_on F_do_next) f_dispatch_queue_pop_head_sites = true /\
  (* when the push made the list non-empty the drainer is started through dq_state: release (wakeup) / acquire (lock) *)
  rel_order wakeup_loop_order /\ rel_order push_waiter_loop_order /\ acq_order f_dispatch_queue_drain_try_lock_order /\
  existsb (release_on F_dq_state) f_dispatch_queue_wakeup_sites = true /\
  existsb (acquire_on F_dq_state) f_dispatch_queue_drain_try_lock_sites = true /\
  (* model: a drainer proceeds past get_head only on the pointer published by the enqueuer of that item *)
  (forall s t e s' c, pcs s t = B_head c \/ (exists o, pcs s t = W_head o) -> gstep s t e = Some s' -> ea e <> 0 ->
     exists e1 rest, lst s = e1 :: rest /\ e_linked e1 = true /\ e_id e1 = ea e).
Proof. conj_refl. exact head_load_published. Qed.

(* ---------------------------------------------------------------- 2. item -> next item of the same serial queue *)
Lemma edge_item_next_item :
  (* every way of giving the lane away is a release on dq_state ... *)
  rel_order f_dispatch_queue_drain_try_unlock_order /\ rel_order barrier_sync_unlock_loop_order /\
  rel_order class_barrier_complete_loop_order /\ rel_order drain_barrier_waiter_loop_order /\
  rel_order invoke_finish_loop_order /\
  existsb (release_on F_dq_state) f_dispatch_queue_drain_try_unlock_sites = true /\
  existsb (release_on F_dq_state) f_dispatch_lane_class_barrier_complete_sites = true /\
  existsb (release_on F_dq_state) f_dispatch_lane_drain_barrier_waiter_sites = true /\
  (* ... every way of taking it after which the taker runs an item is an acquire on dq_state (or the thread event of
     edge 3 after a transfer), and a refused unlock re-synchronises with an acquire xor *)
  acq_order f_dispatch_queue_drain_try_lock_order /\
  acq_order f_dispatch_queue_try_acquire_barrier_sync_and_suspend_order /\
  existsb (acquire_on F_dq_state) f_dispatch_queue_drain_try_lock_sites = true /\
  existsb (fun x => acquire_on F_dq_state x && match s_kind x with KXor => true | _ => false end)
          f_dispatch_queue_drain_try_unlock_sites = true /\
  (* model: an item runs only on the thread the lock word names, one at a time: consecutive items are separated by
     a release / acquire pair on dq_state, a transfer + thread-event signal, or program order on one thread *)
  (forall s t, reach s -> incall (pcs s t) = true ->
     holder s = Some t /\ Z.land (st s) OWNER_MASK = t /\ running s = Some t /\ overlap s = false /\
     forall u, incall (pcs s u) = true -> u = t).
Proof. conj_refl. exact handoff_exclusive. Qed.

(* ---------------------------------------------------------------- 3. item -> return of the synchronous call *)
Lemma woken_only_by_signal self k p e acts :
  (tstep self (S_sub k) e = Some (p, acts) -> p = S_woken k ->
     is_ev e DV_SUB MO_ACQUIRE self = true /\ ea e = 1) /\
  (tstep self (S_eload k) e = Some (p, acts) -> p = S_woken k ->
     is_ev e DV_LOAD MO_ACQUIRE self = true /\ ea e = 0).
Proof.
  split; cbn [tstep]; intros H Hp.
  - destruct (is_ev e DV_SUB MO_ACQUIRE self) eqn:A; cbn [andb] in H; [|discriminate H].
    destruct (eb e =? 1); [|discriminate H]. unfold ret in H.
    destruct (Z.eqb_spec (ea e) 1) as [E|N]; [auto|]. injection H as H _. rewrite <- H in Hp. discriminate Hp.
  - destruct (is_ev e DV_LOAD MO_ACQUIRE self) eqn:A; [|discriminate H].
    destruct (Z.eqb_spec (ea e) 0) as [E|N]; [auto|]. destruct (ea e =? MAXV); [|discriminate H].
    unfold ret in H. injection H as H _. rewrite <- H in Hp. discriminate Hp.
Qed.

Lemma signal_after_item o n w e p acts self :
  tstep self (W_incall o n w) e = Some (p, acts) -> ek e = DVU_CALLOUT_END /\ (w <> 0 -> p = G_sig (CDrain o n) w).
Proof.
  cbn [tstep]. destruct (Z.eqb_spec (ek e) DVU_CALLOUT_END); [|discriminate]. unfold ret. intros H. injection H as <- _.
  split; [assumption|]. intros Nw. destruct (Z.eqb_spec w 0); [contradiction|reflexivity].
Qed.

Lemma woken_means_signalled s t k : reach s -> pcs s t = S_woken k ->
  ph s t = PhSigd /\ ((holder s = Some t /\ ist s t = IPend) \/ (ist s t = IFin /\ remote s t = true)).
Proof.
  intros R Hpc. pose proof (inv_reach s R) as [G T]. destruct (T t) as [T1 T2 T3 T4 T5 T6 T7 T8 T9 T10 T11 T12 T13 T14 T15 T16].
  cbv beta in *. rewrite Hpc in *. cproj_in T12. cproj_in T9. destruct (T12 eq_refl) as (Sg & _). split; [exact Sg|].
  assert (Wt : waitinv (fun x => cls (pcs s x)) s t) by (apply T9; discriminate). unfold waitinv, handed_or_done, item0 in Wt.
  rewrite Sg in Wt. destruct Wt as [(A & B & _)|(A & _ & B)]; auto.
Qed.

Lemma edge_item_sync_return :
  (* producer: the thread event is signalled with a release increment, from the hand-off and from the remote run *)
  first_is (release_on F_dte_value) f_dispatch_thread_event_signal_sites = true /\
  first_is (release_on F_dte_value) f_dispatch_waiter_wake_wlh_anon_sites = true /\
  existsb (release_on F_dte_value) f_dispatch_async_and_wait_invoke_sites = true /\
  existsb (release_on F_dte_value) f_dispatch_lane_drain_barrier_waiter_sites = true /\
  (* consumer: the waiter leaves the wait through an acquire decrement or an acquire load of the same word *)
  first_is (acquire_on F_dte_value) f_dispatch_thread_event_wait_sites = true /\
  first_is (acquire_on F_dte_value) f_dispatch_thread_event_wait_slow_sites = true /\
  (* model: it proceeds only on the values the signal writes (1 before the decrement, 0 after it) ... *)
  (forall self k p e acts,
     (tstep self (S_sub k) e = Some (p, acts) -> p = S_woken k -> is_ev e DV_SUB MO_ACQUIRE self = true /\ ea e = 1) /\
     (tstep self (S_eload k) e = Some (p, acts) -> p = S_woken k -> is_ev e DV_LOAD MO_ACQUIRE self = true /\ ea e = 0)) /\
  (* ... a drainer that runs the item of an async_and_wait caller signals only after the callout has returned ... *)
  (forall o n w e p acts self, tstep self (W_incall o n w) e = Some (p, acts) ->
     ek e = DVU_CALLOUT_END /\ (w <> 0 -> p = G_sig (CDrain o n) w)) /\
  (* ... and in every reachable state a woken waiter has been signalled after the hand-off or after its item finished *)
  (forall s t k, reach s -> pcs s t = S_woken k ->
     ph s t = PhSigd /\ ((holder s = Some t /\ ist s t = IPend) \/ (ist s t = IFin /\ remote s t = true))).
Proof.
  conj_refl. split; [exact woken_only_by_signal|]. split; [exact signal_after_item|exact woken_means_signalled].
Qed.

(* ---------------------------------------------------------------- 4. group leave -> wait / notify *)
Lemma group_wait_slow_returns_by_acquire tmo gen rc e :
  Group.tstep (Group.PSlowLoad tmo gen rc) e = Some (Group.PRetV 0) ->
  ev_is e DV_LOAD MO_ACQUIRE Group.OFF_GEN = true /\ ea e <> gen.
Proof.
  cbn [Group.tstep]. destruct (ev_is e DV_LOAD MO_ACQUIRE Group.OFF_GEN) eqn:A; cbn [andb]; [|discriminate].
  destruct (esz e =? 4); [|discriminate]. destruct (Z.eqb_spec (ea e) gen) as [E|N]; [|auto].
  destruct (rc =? Group.ETIMEDOUT); intros H; injection H as H; discriminate H.
Qed.

Lemma edge_group :
  (* producer: dispatch_group_leave starts with a release add on dg_state (whose upper half is the generation) *)
  first_is (release_on F_dg_state) dispatch_group_leave_sites = true /\
  (* consumer: dispatch_group_wait returns 0 through an acquire fence after the load that saw the count at zero, or through
     an acquire load of the generation half of the same 64-bit word in the slow path *)
  nth_error dispatch_group_wait_sites 0 = Some {| s_kind := KLoad; s_field := F_dg_state; s_order := Relaxed |} /\
  (match nth_error dispatch_group_wait_sites 1 with Some x => acquire_fence x | None => false end) = true /\
  first_is (acquire_on F_dg_gen) f_dispatch_group_wait_slow_sites = true /\
  existsb (acquire_on F_dg_gen) dispatch_group_wait_sites = true /\
  (* notify: the thread that finds the count at zero snapshots the notify list (release exchange) and submits the blocks
     with dispatch_async (edge 1); registration publishes HAS_NOTIFS with a release compare-exchange on dg_state *)
  existsb (release_on F_dg_notify_tail) f_dispatch_group_wake_sites = true /\
  existsb (release_on F_dg_state) dispatch_group_notify_f_sites = true /\
  (* model: the slow path returns 0 only on an acquire load that sees a generation different from the one it waited on *)
  (forall tmo gen rc e, Group.tstep (Group.PSlowLoad tmo gen rc) e = Some (Group.PRetV 0) ->
     ev_is e DV_LOAD MO_ACQUIRE Group.OFF_GEN = true /\ ea e <> gen).
Proof. conj_refl. exact group_wait_slow_returns_by_acquire. Qed.

(* ---------------------------------------------------------------- 5. semaphore signal -> wait *)
Lemma sema_fast_wait_by_acquire k e :
  Sema.tstep (Sema.PWDec k) e = Some Sema.PWRet0 ->
  ev_is e DV_SUB MO_ACQUIRE Sema.OFF_VALUE = true /\ 0 <= s64 (s64 (ea e) - 1).
Proof.
  cbn [Sema.tstep]. destruct (ev_is e DV_SUB MO_ACQUIRE Sema.OFF_VALUE) eqn:A; cbn [andb]; [|discriminate].
  destruct (eb e =? 1); [|discriminate]. cbv zeta. destruct (Z.geb_spec (s64 (s64 (ea e) - 1)) 0) as [G|G].
  - intros _. split; [reflexivity|lia].
  - destruct k; cbn; intros H; discriminate H.
Qed.

Lemma sema_signal_by_release e p :
  Sema.tstep Sema.PSigInc e = Some p -> ev_is e DV_ADD MO_RELEASE Sema.OFF_VALUE = true.
Proof.
  cbn [Sema.tstep]. destruct (ev_is e DV_ADD MO_RELEASE Sema.OFF_VALUE); [reflexivity|cbn [andb]; discriminate].
Qed.

Lemma edge_semaphore :
  first_is (release_on F_dsema_value) dispatch_semaphore_signal_sites = true /\
  first_is (acquire_on F_dsema_value) dispatch_semaphore_wait_sites = true /\
  (* model: the signal is the release add; a wait that returns without blocking took a permit through the acquire
     decrement whose result is non-negative, i.e. that saw a permit (written by a signal or by the creator); a blocked waiter is released by the
     kernel semaphore (sem_post / sem_wait, outside the library's atomics) *)
  (forall e p, Sema.tstep Sema.PSigInc e = Some p -> ev_is e DV_ADD MO_RELEASE Sema.OFF_VALUE = true) /\
  (forall k e, Sema.tstep (Sema.PWDec k) e = Some Sema.PWRet0 ->
     ev_is e DV_SUB MO_ACQUIRE Sema.OFF_VALUE = true /\ 0 <= s64 (s64 (ea e) - 1)).
Proof. conj_refl. split; [exact sema_signal_by_release|exact sema_fast_wait_by_acquire]. Qed.

(* ---------------------------------------------------------------- 6. dispatch_once *)
Lemma once_waiter_returns_on_done self old e :
  Once.tstep self (Once.PWBody old) e = Some Once.PIdle -> old = Once.DONE.
Proof.
  cbn [Once.tstep]. unfold once_wait_loop.
  destruct (Z.eqb_spec old 18446744073709551615) as [E|N]; cbn [negb]; [intros _; exact E|].
  destruct (Z.lor old 2147483648 =? old).
  - destruct (ev_kind e DV_FUTEX_WAIT && (ea e =? u32 old)); discriminate.
  - destruct (ev_is e DV_CASW (Once.mo_code once_wait_loop_order) 0 && (eb e =? Z.lor old 2147483648)); [|discriminate].
    destruct (eok e =? 1); discriminate.
Qed.

(* PARTIAL: the producer half and the model half hold; in this build configuration (x86-64: DISPATCH_ONCE_INLINE_FASTPATH,
   no quiescent counter) the library's out-of-line code has NO acquire on dgo_once on the paths that return after somebody
   else ran the initialiser: _dispatch_once_gate_tryenter is a relaxed compare-exchange and _dispatch_once_wait leaves its
   relaxed rmw loop on DONE through a plain give-up (src/shims/lock.c:670-675, no fence).  The inline fast path of
   dispatch/once.h is a plain load followed by a compiler barrier.  On x86-64 (TSO) every load is an acquire, so the
   property holds on the machine at hand; in C11 terms the consumer half of this edge is missing (it would need
   os_atomic_rmw_loop_give_up_with_fence(acquire, return) as dispatch_group_wait has).  The third conjunct records the
   absence, so that adding the fence (or weakening the release) changes this lemma. *)
Lemma edge_once_partial :
  existsb (release_on F_dgo_once) dispatch_once_f_sites = true /\
  first_is (release_on F_dgo_once) f_dispatch_once_mark_done_sites = true /\
  existsb (fun x => acquire_on F_dgo_once x || acquire_fence x) (dispatch_once_f_sites ++ once_wait_sites) = false /\
  (* model: a caller that did not run the initialiser returns only after reading DONE, the value the release exchange
     wrote, and (Once_proofs) the initialiser has finished by then *)
  (forall self old e, Once.tstep self (Once.PWBody old) e = Some Once.PIdle -> old = Once.DONE) /\
  (forall s t e s', Once.reach s -> Once.valid_tid t -> Once.gstep s t e = Some s' -> ev_kind e DVU_RET = true ->
     Once.finished s = true).
Proof.
  conj_refl. split; [exact once_waiter_returns_on_done|exact Once_proofs.return_enabled_only_after_finish].
Qed.
