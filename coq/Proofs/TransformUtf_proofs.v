(* TransformUtf_proofs.v — UTF-8 <-> UTF-16 (transform.c:293-588) in Model/Transform.v.
   Part A: the growing output buffer (dispatch_transform_buffer) never writes outside its allocation
   Part B: maps of sub-ranges, _dispatch_transform_read_utf8_sequence on a prefix
   Part C: to_utf16 on any split = a fold over the flat byte string
   Part D: from_utf16 on any split = a fold over the flat byte string
   Part E: round trip for every sequence of Unicode scalar values, BOM handling stated exactly *)
From Coq Require Import ZArith List Bool Lia ZifyBool.
From Verif Require Import Word Bits Gen_transform Transform Transform_proofs.
Import ListNotations.
Local Open Scope Z_scope.

Arguments u64 : simpl never.
Arguments u32 : simpl never.
Arguments u16 : simpl never.
Arguments u8 : simpl never.
Arguments Z.shiftl : simpl never.
Arguments Z.shiftr : simpl never.
Arguments Z.land : simpl never.
Arguments Z.lor : simpl never.
Arguments Z.mul : simpl never.
Arguments Z.add : simpl never.
Arguments Z.sub : simpl never.
Arguments Z.div : simpl never.
Arguments Z.modulo : simpl never.
Arguments Z.ltb : simpl never.
Arguments Z.leb : simpl never.
Arguments Z.eqb : simpl never.
Arguments Z.to_nat : simpl never.
Arguments skipn : simpl never.
Arguments firstn : simpl never.

(* ------------------------------------------------------------------------------------------------ Part A *)

Section Buf.
Local Ltac Zify.zify_post_hook ::= Z.div_mod_to_equations.

(* everything handed to the output so far: flushed regions, then the bytes in the current allocation *)
Definition bout (b : tbuf) : list Z := flat (tb_data b) ++ rev (snd (tb_cur b)).

Definition tb_ok (b : tbuf) : Prop :=
  fst (tb_cur b) = Zlength (snd (tb_cur b)) /\ fst (tb_cur b) <= tb_size b /\ 0 <= tb_size b < 2 ^ 63 /\
  (tb_has b = false -> tb_size b = 0) /\ nonempty_regions (tb_data b).

Lemma tb_ok_init : tb_ok tbuf_init.
Proof. unfold tb_ok, tbuf_init. cbn. repeat split; try lia. constructor. Qed.

(* what the flush at the head of _dispatch_transform_buffer_new does to the object: same bytes, no empty region *)
Lemma flush_data : forall dd (has : bool) n (l : list Z), n = Zlength l -> (has = false -> l = []) -> nonempty_regions dd ->
  let d' := if has && (0 <? n) then data_concat dd (data_create (rev l)) else dd in
  flat d' = flat dd ++ rev l /\ nonempty_regions d'.
Proof.
  intros dd has n l Hn Hh Hne. pose proof (Zlength_nonneg l) as Hl. cbv zeta.
  destruct has; cbn [andb].
  - destruct (Z.ltb_spec 0 n).
    + unfold data_concat. rewrite flat_app, flat_create. split; [reflexivity|].
      apply Forall_app. split; [exact Hne|apply nonempty_create].
    + assert (l = []) by (apply Zlength_nil_inv; lia). subst l. cbn [rev]. rewrite app_nil_r. auto.
  - rewrite (Hh eq_refl). cbn [rev]. rewrite app_nil_r. auto.
Qed.

(* _dispatch_transform_buffer_new(&buffer, required, size) with something required: never fails (the hint is clamped,
   transform.c:155-160), keeps the bytes, and leaves room for `required` bytes *)
Lemma buffer_new_ok : forall b required size,
  tb_ok b -> 0 < required <= BUFFER_MALLOC_MAX -> 0 <= size ->
  exists b', buffer_new b required size = Ok b' /\ tb_ok b' /\ bout b' = bout b /\ tb_has b' = true /\
             fst (tb_cur b') + required <= tb_size b'.
Proof.
  intros [dd has [n l] sz] required size (H1 & H2 & H3 & H4 & H5) Hr Hs. cbn [tb_cur tb_size tb_has tb_data fst snd] in *.
  unfold buffer_new. cbn [tb_cur tb_size tb_has tb_data fst snd].
  pose proof (Zlength_nonneg l) as Hl. unfold BUFFER_MALLOC_MAX in *.
  replace (required =? 0) with false by lia. cbn [orb].
  rewrite (u64_id (sz - n)) by lia.
  destruct (Z.ltb_spec (sz - n) required) as [Hlt|Hge].
  - replace (required <=? 104857600) with true by lia. cbn [andb].
    set (size' := if 104857600 - required <? size then 104857600 - required else size).
    assert (Hs' : 0 <= size' /\ required + size' <= 104857600) by (unfold size'; destruct (Z.ltb_spec (104857600 - required) size); lia).
    rewrite (u64_id (required + size')) by lia.
    replace (0 <? required + size') with true by lia. replace (104857600 <? required + size') with false by lia.
    assert (Hhl : has = false -> l = []) by (intros Hf; apply Zlength_nil_inv; specialize (H4 Hf); lia).
    destruct (flush_data dd has n l H1 Hhl H5) as [Fd Nd].
    eexists. split; [reflexivity|]. unfold tb_ok, bout. cbn [tb_cur tb_size tb_has tb_data fst snd].
    split; [|split; [|split; [reflexivity|lia]]].
    + split; [reflexivity|]. split; [lia|]. split; [lia|]. split; [discriminate|exact Nd].
    + cbn [rev]. rewrite app_nil_r. exact Fd.
  - exists {| tb_data := dd; tb_has := has; tb_cur := (n, l); tb_size := sz |}.
    split; [reflexivity|]. unfold tb_ok, bout. cbn [tb_cur tb_size tb_has tb_data fst snd].
    split; [repeat split; auto; lia|]. split; [reflexivity|]. split; [|lia].
    destruct has; [reflexivity|]. specialize (H4 eq_refl). lia.
Qed.

(* _dispatch_transform_buffer_new(&buffer, 0, size): flush, then allocate what the (clamped) hint says *)
Lemma buffer_hint_ok : forall b size, tb_ok b -> 0 <= size ->
  exists b', buffer_new b 0 size = Ok b' /\ tb_ok b' /\ bout b' = bout b /\ snd (tb_cur b') = [] /\
             (size = 0 -> tb_has b' = false).
Proof.
  intros [dd has [n l] sz] size (H1 & H2 & H3 & H4 & H5) Hs. cbn [tb_cur tb_size tb_has tb_data fst snd] in *.
  unfold buffer_new. cbn [tb_cur tb_size tb_has tb_data fst snd].
  pose proof (Zlength_nonneg l) as Hl. unfold BUFFER_MALLOC_MAX.
  change (0 =? 0) with true. cbn [orb]. change (0 <=? 104857600) with true. cbn [andb].
  replace (104857600 - 0) with 104857600 by lia.
  set (size' := if 104857600 <? size then 104857600 else size).
  assert (Hs' : 0 <= size' <= 104857600 /\ (size = 0 -> size' = 0)) by (unfold size'; destruct (Z.ltb_spec 104857600 size); lia).
  replace (u64 (0 + size')) with size' by (rewrite u64_id; lia).
  assert (Hhl : has = false -> l = []) by (intros Hf; apply Zlength_nil_inv; specialize (H4 Hf); lia).
  destruct (flush_data dd has n l H1 Hhl H5) as [Fd Nd].
  destruct (Z.ltb_spec 0 size').
  - replace (104857600 <? size') with false by lia.
    eexists. split; [reflexivity|]. unfold tb_ok, bout. cbn [tb_cur tb_size tb_has tb_data fst snd].
    split; [|split; [|split; [reflexivity|lia]]].
    + split; [reflexivity|]. split; [lia|]. split; [lia|]. split; [discriminate|exact Nd].
    + cbn [rev]. rewrite app_nil_r. exact Fd.
  - eexists. split; [reflexivity|]. unfold tb_ok, bout. cbn [tb_cur tb_size tb_has tb_data fst snd].
    split; [|split; [|split; [reflexivity|reflexivity]]].
    + split; [reflexivity|]. split; [lia|]. split; [lia|]. split; [reflexivity|exact Nd].
    + cbn [rev]. rewrite app_nil_r. exact Fd.
Qed.

(* _dispatch_transform_buffer_new(&buffer, 0, 0) at the end of a region: flush *)
Lemma buffer_flush_ok : forall b, tb_ok b ->
  exists b', buffer_new b 0 0 = Ok b' /\ tb_ok b' /\ bout b' = bout b /\ tb_has b' = false /\ snd (tb_cur b') = [].
Proof.
  intros b Hok. destruct (buffer_hint_ok b 0 Hok ltac:(lia)) as (b' & E & Hok' & Ho & Hc & Hh).
  exists b'. split; [exact E|]. split; [exact Hok'|]. split; [exact Ho|]. split; [apply Hh; reflexivity|exact Hc].
Qed.

Lemma tb_put_ok : forall site b v,
  tb_ok b -> tb_has b = true -> fst (tb_cur b) + 1 <= tb_size b ->
  exists b', tb_put site b v = Ok b' /\ tb_ok b' /\ bout b' = bout b ++ [v] /\ tb_has b' = true /\
             tb_size b' = tb_size b /\ fst (tb_cur b') = fst (tb_cur b) + 1.
Proof.
  intros site [dd has [n l] sz] v (H1 & H2 & H3 & H4 & H5) Hh Hroom. cbn [tb_cur tb_size tb_has tb_data fst snd] in *.
  unfold tb_put. cbn [tb_cur tb_size tb_has tb_data]. rewrite Hh. unfold wr.
  pose proof (Zlength_nonneg l) as Hl.
  replace ((0 <=? n) && (n <? sz)) with true by lia. cbn [bind].
  eexists. split; [reflexivity|]. unfold tb_ok, bout. cbn [tb_cur tb_size tb_has tb_data fst snd].
  rewrite Zlength_cons.
  split; [|split; [|split; [reflexivity|split; [reflexivity|lia]]]].
  - split; [lia|]. split; [lia|]. split; [lia|]. split; [discriminate|exact H5].
  - cbn [rev]. rewrite app_assoc. reflexivity.
Qed.

(* a run of byte writes after a successful buffer_new *)
Fixpoint puts (sites : list Z) (b : tbuf) (vs : list Z) : res tbuf :=
  match vs, sites with
  | [], _ => Ok b
  | v :: vs', s :: ss => do b1 <- tb_put s b v; puts ss b1 vs'
  | v :: vs', [] => do b1 <- tb_put 0 b v; puts [] b1 vs'
  end.

Lemma puts_ok : forall vs sites b,
  tb_ok b -> tb_has b = true -> fst (tb_cur b) + Zlength vs <= tb_size b ->
  exists b', puts sites b vs = Ok b' /\ tb_ok b' /\ bout b' = bout b ++ vs /\ tb_has b' = true.
Proof.
  induction vs as [|v vs IH]; intros sites b Hok Hh Hroom.
  - exists b. cbn [puts]. rewrite app_nil_r. destruct sites; auto.
  - rewrite Zlength_cons in Hroom. pose proof (Zlength_nonneg vs).
    assert (Hs : forall s, exists b', (do b1 <- tb_put s b v; puts (tl sites) b1 vs) = Ok b' /\ tb_ok b' /\
                                      bout b' = bout b ++ v :: vs /\ tb_has b' = true).
    { intros s. destruct (tb_put_ok s b v Hok Hh ltac:(lia)) as (b1 & E & Hok1 & Ho1 & Hh1 & Hs1 & Hn1).
      rewrite E. cbn [bind]. destruct (IH (tl sites) b1 Hok1 Hh1 ltac:(lia)) as (b2 & E2 & Hok2 & Ho2 & Hh2).
      exists b2. rewrite E2, Ho2, Ho1, <- app_assoc. auto. }
    destruct sites as [|s ss]; cbn [puts]; apply Hs.
Qed.
End Buf.

(* ------------------------------------------------------------------------------------------------ Part B *)

Section Maps.
Local Ltac Zify.zify_post_hook ::= Z.div_mod_to_equations.

Lemma skipn_all_Z : forall (l : list Z) k, Zlength l <= k -> skipn (Z.to_nat k) l = [].
Proof. intros. apply skipn_all2. rewrite Zlength_correct in H. lia. Qed.

Lemma Zlength_skipn_Z : forall (l : list Z) k, 0 <= k <= Zlength l -> Zlength (skipn (Z.to_nat k) l) = Zlength l - k.
Proof. intros. rewrite Zlength_skipn; rewrite Zlength_correct in *; lia. Qed.

Lemma Zlength_firstn_Z : forall (l : list Z) k, 0 <= k <= Zlength l -> Zlength (firstn (Z.to_nat k) l) = k.
Proof. intros. rewrite Zlength_correct, firstn_length. rewrite Zlength_correct in H. lia. Qed.

Lemma skipn_app_Z : forall (l1 l2 : list Z) k, 0 <= k <= Zlength l1 ->
  skipn (Z.to_nat k) (l1 ++ l2) = skipn (Z.to_nat k) l1 ++ l2.
Proof. intros. apply skipn_app_le. rewrite Zlength_correct in H. lia. Qed.

Lemma skipn_app_ge_Z : forall (l1 l2 : list Z) k, Zlength l1 <= k ->
  skipn (Z.to_nat k) (l1 ++ l2) = skipn (Z.to_nat (k - Zlength l1)) l2.
Proof.
  intros. rewrite skipn_app. rewrite skipn_all2 by (rewrite Zlength_correct in H; lia). cbn [app].
  f_equal. rewrite Zlength_correct in *. lia.
Qed.

Lemma skipn_skipn' : forall (a b : nat) (l : list Z), skipn a (skipn b l) = skipn (a + b) l.
Proof.
  intros a b. induction b as [|b IH]; intros l.
  - rewrite Nat.add_0_r. reflexivity.
  - rewrite Nat.add_succ_r. destruct l as [|x l].
    + change (skipn (S b) (@nil Z)) with (@nil Z). destruct a; reflexivity.
    + change (skipn (S b) (x :: l)) with (skipn b l). change (skipn (S (a + b)) (x :: l)) with (skipn (a + b) l). apply IH.
Qed.

Lemma skipn_skipn_Z : forall (l : list Z) a b, 0 <= a -> 0 <= b ->
  skipn (Z.to_nat a) (skipn (Z.to_nat b) l) = skipn (Z.to_nat (a + b)) l.
Proof. intros. rewrite skipn_skipn'. f_equal. lia. Qed.

(* the rest of the region that contains offset off is a prefix of the flat bytes from off *)
Lemma region_rest_prefix : forall d off, 0 <= off ->
  exists tl, skipn (Z.to_nat off) (flat d) = region_rest d off ++ tl.
Proof.
  induction d as [|r d IH]; intros off Hoff; cbn [region_rest].
  - exists []. unfold flat. cbn [concat]. destruct (Z.to_nat off); reflexivity.
  - change (flat (r :: d)) with (r ++ flat d). destruct (Z.ltb_spec off (Zlength r)).
    + exists (flat d). apply skipn_app_Z. lia.
    + destruct (IH (off - Zlength r) ltac:(lia)) as [tl E]. exists tl. rewrite skipn_app_ge_Z by lia. exact E.
Qed.

Lemma firstn_app_l_Z : forall (l1 l2 : list Z) k, 0 <= k <= Zlength l1 ->
  firstn (Z.to_nat k) (l1 ++ l2) = firstn (Z.to_nat k) l1.
Proof.
  intros. rewrite firstn_app. replace (Z.to_nat k - length l1)%nat with 0%nat by (rewrite Zlength_correct in H; lia).
  change (firstn 0 l2) with (@nil Z). apply app_nil_r.
Qed.

(* _dispatch_data_subrange_map(data, &p, off, n) succeeds exactly when the range lies in the data; the memory at p
   then has at least n bytes, the first n of which are the data's bytes at off *)
Lemma sub_map_some : forall d off n, 0 <= off -> 0 < n -> off + n <= dsize d ->
  exists m, sub_map d off n = Some m /\ n <= Zlength m /\
            firstn (Z.to_nat n) m = firstn (Z.to_nat n) (skipn (Z.to_nat off) (flat d)).
Proof.
  intros d off n Hoff Hn Hin. unfold sub_map.
  replace ((off <? dsize d) && (0 <? n) && (n <=? dsize d - off)) with true by lia.
  destruct (region_rest_prefix d off Hoff) as [tl E].
  destruct (Z.leb_spec n (Zlength (region_rest d off))).
  - eexists. split; [reflexivity|]. split; [lia|]. rewrite E. symmetry. apply firstn_app_l_Z. lia.
  - eexists. split; [reflexivity|]. split.
    + rewrite Zlength_firstn_Z; [lia|]. rewrite Zlength_skipn_Z; unfold dsize in *; lia.
    + rewrite firstn_firstn. f_equal. lia.
Qed.

Lemma sub_map_none : forall d off n, 0 <= off -> dsize d < off + n -> sub_map d off n = None.
Proof.
  intros. unfold sub_map.
  replace ((off <? dsize d) && (0 <? n) && (n <=? dsize d - off)) with false by lia. reflexivity.
Qed.

(* ---- _dispatch_transform_read_utf8_sequence as a function of the bytes it reads *)

Fixpoint rc_spec (l : list Z) (n : nat) (wch : Z) {struct n} : option Z :=
  match n with
  | O => Some wch
  | S n' =>
    match l with
    | [] => None
    | b :: l' =>
      let wch := Z.lor wch (Z.land b 63) in
      let wch := if 0 <? Z.of_nat n' then u32 (Z.shiftl wch 6) else wch in
      rc_spec l' n' wch
    end
  end.

Lemma rd_skipn : forall (m : list Z) k, 0 <= k -> rd m k = match skipn (Z.to_nat k) m with [] => None | b :: _ => Some b end.
Proof.
  intros m k Hk. unfold rd. destruct (Z.ltb_spec k 0); [lia|].
  generalize (Z.to_nat k). clear. intros n. revert m. induction n; destruct m; try reflexivity. apply IHn.
Qed.

Lemma read_cont_spec : forall site m n fuel k wch, (n <= fuel)%nat -> 0 <= k ->
  read_cont site m fuel k (Z.of_nat n) wch =
    match rc_spec (skipn (Z.to_nat k) m) n wch with Some w => Ok w | None => OOB site end.
Proof.
  intros site m. induction n as [|n IH]; intros fuel k wch Hf Hk.
  - destruct fuel; reflexivity.
  - destruct fuel as [|fuel]; [lia|]. cbn [read_cont].
    replace (0 <? Z.of_nat (S n)) with true by lia. unfold rdo. rewrite rd_skipn by lia.
    cbn [rc_spec]. destruct (skipn (Z.to_nat k) m) as [|b tl] eqn:E; cbn [bind]; [reflexivity|].
    replace (Z.of_nat (S n) - 1) with (Z.of_nat n) by lia.
    rewrite IH by lia. replace (Z.to_nat (k + 1)) with (S (Z.to_nat k)) by lia.
    assert (Htl : skipn (S (Z.to_nat k)) m = tl).
    { change (S (Z.to_nat k)) with (1 + Z.to_nat k)%nat. rewrite <- skipn_skipn', E. reflexivity. }
    rewrite Htl. reflexivity.
Qed.

Definition seq_val (l : list Z) : option Z :=
  match l with
  | [] => None
  | b0 :: l' =>
    let seq_length := utf8_length b0 in
    let wch :=
      if seq_length =? 4 then Z.shiftl (Z.land b0 7) 6
      else if seq_length =? 3 then Z.shiftl (Z.land b0 15) 6
      else if seq_length =? 2 then Z.shiftl (Z.land b0 31) 6
      else if seq_length =? 1 then Z.land b0 127
      else 0 in
    rc_spec l' (Z.to_nat (u8 (seq_length - 1))) wch
  end.

Lemma read_seq_spec : forall site m,
  read_utf8_sequence site m = match seq_val m with Some w => Ok w | None => OOB site end.
Proof.
  intros. unfold read_utf8_sequence, seq_val, rdo. rewrite rd_skipn by lia.
  change (Z.to_nat 0) with 0%nat. change (skipn 0 m) with m.
  destruct m as [|b0 l']; cbn [bind]; [reflexivity|].
  set (n := u8 (utf8_length b0 - 1)).
  assert (Hn : 0 <= n < 256) by (unfold n, u8; lia).
  replace n with (Z.of_nat (Z.to_nat n)) at 1 by lia.
  rewrite read_cont_spec by lia. change (Z.to_nat 1) with 1%nat. reflexivity.
Qed.

Lemma utf8_length_cases : forall b, utf8_length b = 0 \/ utf8_length b = 1 \/ utf8_length b = 2 \/
                                    utf8_length b = 3 \/ utf8_length b = 4.
Proof.
  intros. unfold utf8_length, f_dispatch_transform_utf8_length.
  repeat match goal with |- context [if ?c then _ else _] => destruct c end; auto.
Qed.

Lemma rc_spec_prefix : forall n l w, (n <= length l)%nat ->
  rc_spec l n w = rc_spec (firstn n l) n w /\ rc_spec l n w <> None.
Proof.
  induction n as [|n IH]; intros l w Hl; cbn [rc_spec]; [split; [reflexivity|discriminate]|].
  destruct l as [|b l]; [cbn in Hl; lia|]. change (firstn (S n) (b :: l)) with (b :: firstn n l).
  cbn [rc_spec]. apply IH. cbn [length] in Hl. lia.
Qed.

(* the value read depends only on the utf8_length(first byte) bytes, which are all it touches *)
Lemma seq_val_prefix : forall l b0 tl, l = b0 :: tl -> 1 <= utf8_length b0 -> utf8_length b0 <= Zlength l ->
  seq_val l = seq_val (firstn (Z.to_nat (utf8_length b0)) l) /\ seq_val l <> None.
Proof.
  intros l b0 tl -> H1 H2. rewrite Zlength_cons in H2. pose proof (Zlength_correct tl) as Hz.
  assert (Hbs : utf8_length b0 <= 4) by (destruct (utf8_length_cases b0) as [?|[?|[?|[?|?]]]]; lia).
  assert (Hn : Z.to_nat (u8 (utf8_length b0 - 1)) = (Z.to_nat (utf8_length b0) - 1)%nat) by (unfold u8; lia).
  replace (Z.to_nat (utf8_length b0)) with (S (Z.to_nat (utf8_length b0) - 1)) by lia.
  change (firstn (S ?n) (b0 :: tl)) with (b0 :: firstn n tl).
  unfold seq_val. rewrite Hn.
  destruct (rc_spec_prefix (Z.to_nat (utf8_length b0) - 1) tl
     (if utf8_length b0 =? 4 then Z.shiftl (Z.land b0 7) 6
      else if utf8_length b0 =? 3 then Z.shiftl (Z.land b0 15) 6
      else if utf8_length b0 =? 2 then Z.shiftl (Z.land b0 31) 6
      else if utf8_length b0 =? 1 then Z.land b0 127 else 0)) as [E1 E2]; [lia|].
  split; [exact E1|exact E2].
Qed.
End Maps.

(* ------------------------------------------------------------------------------------------------ Part C *)

Definition unit16 (le : bool) (v : Z) : list Z :=
  let v := u16 v in if le then [Z.land v 255; Z.shiftr v 8] else [Z.shiftr v 8; Z.land v 255].

(* what is written for one decoded value (transform.c:362-385); None = NULL *)
Definition emit16 (le first : bool) (wch : Z) : option (list Z) :=
  if (wch =? 65279) && first then Some []
  else if (55296 <=? wch) && (wch <=? 57343) then None
  else if 65536 <=? wch then
    let w := u32 (wch - 65536) in
    Some (unit16 le (Z.land (Z.shiftr w 10) 1023 + 55296) ++ unit16 le (Z.land w 1023 + 56320))
  else Some (unit16 le (Z.land wch 65535)).

(* one sequence taken from the flat suffix l: (bytes written, remaining suffix) *)
Definition to16_step (le first : bool) (l : list Z) : option (list Z * list Z) :=
  match l with
  | [] => None
  | c :: _ =>
    let bs := utf8_length c in
    if bs =? 0 then None
    else if Zlength l <? bs then None
    else match seq_val l with
         | None => None
         | Some wch => match emit16 le first wch with
                       | None => None
                       | Some out => Some (out, skipn (Z.to_nat bs) l)
                       end
         end
  end.

Fixpoint to16_floop (le : bool) (fuel : nat) (first : bool) (l acc : list Z) : option (list Z) :=
  match l with
  | [] => Some acc
  | _ :: _ =>
    match fuel with
    | O => None
    | S f => match to16_step le first l with
             | None => None
             | Some (out, rest) => to16_floop le f false rest (acc ++ out)
             end
    end
  end.

Definition G16 (le first : bool) (l acc : list Z) : option (list Z) := to16_floop le (length l) first l acc.

Definition bom16 (le : bool) : list Z := unit16 le 65279.

(* UTF-8 -> UTF-16 on a flat byte string: nothing for the empty string, else BOM then the code units *)
Definition to16_flat (le : bool) (l : list Z) : option (list Z) :=
  match l with [] => Some [] | _ => G16 le true l (bom16 le) end.

Section ToUtf16.
Local Ltac Zify.zify_post_hook ::= Z.div_mod_to_equations.
Variable le : bool.

Lemma to16_step_shorter : forall first l out rest, to16_step le first l = Some (out, rest) -> (length rest < length l)%nat.
Proof.
  intros first l out rest H. unfold to16_step in H. destruct l as [|c tl]; [discriminate|].
  destruct (Z.eqb_spec (utf8_length c) 0) as [E|E]; [discriminate|].
  destruct (Z.ltb_spec (Zlength (c :: tl)) (utf8_length c)); [discriminate|].
  destruct (seq_val (c :: tl)); [|discriminate]. destruct (emit16 le first z); [|discriminate].
  inversion H; subst. rewrite skipn_length. cbn [length].
  destruct (utf8_length_cases c) as [?|[?|[?|[?|?]]]]; lia.
Qed.

Lemma to16_floop_fuel : forall f1 f2 first l acc, (length l <= f1)%nat -> (length l <= f2)%nat ->
  to16_floop le f1 first l acc = to16_floop le f2 first l acc.
Proof.
  induction f1 as [|f1 IH]; intros f2 first l acc H1 H2.
  - destruct l; [destruct f2; reflexivity|cbn in H1; lia].
  - destruct l as [|c tl]; [destruct f2; reflexivity|]. destruct f2 as [|f2]; [cbn in H2; lia|].
    cbn [to16_floop]. destruct (to16_step le first (c :: tl)) as [[out rest]|] eqn:E; [|reflexivity].
    apply to16_step_shorter in E. apply IH; lia.
Qed.

Lemma G16_unfold : forall first l acc, l <> [] ->
  G16 le first l acc = match to16_step le first l with
                       | None => None
                       | Some (out, rest) => G16 le false rest (acc ++ out)
                       end.
Proof.
  intros first l acc Hl. unfold G16. destruct l as [|c tl]; [contradiction|]. cbn [length to16_floop].
  destruct (to16_step le first (c :: tl)) as [[out rest]|] eqn:E; [|reflexivity].
  apply to16_step_shorter in E. apply to16_floop_fuel; cbn [length] in *; lia.
Qed.

Lemma G16_nil : forall first acc, G16 le first [] acc = Some acc.
Proof. reflexivity. Qed.

Lemma tb_put16_ok : forall site b v,
  tb_ok b -> tb_has b = true -> fst (tb_cur b) + 2 <= tb_size b ->
  exists b', tb_put16 site le b v = Ok b' /\ tb_ok b' /\ bout b' = bout b ++ unit16 le v /\ tb_has b' = true /\
             tb_size b' = tb_size b /\ fst (tb_cur b') = fst (tb_cur b) + 2.
Proof.
  intros site b v Hok Hh Hroom. unfold tb_put16, unit16. cbv zeta.
  destruct (tb_put_ok site b (if le then Z.land (u16 v) 255 else Z.shiftr (u16 v) 8) Hok Hh ltac:(lia))
    as (b1 & E1 & Hok1 & Ho1 & Hh1 & Hs1 & Hn1).
  rewrite E1. cbn [bind].
  destruct (tb_put_ok site b1 (if le then Z.shiftr (u16 v) 8 else Z.land (u16 v) 255) Hok1 Hh1 ltac:(lia))
    as (b2 & E2 & Hok2 & Ho2 & Hh2 & Hs2 & Hn2).
  exists b2. rewrite E2, Ho2, Ho1, <- app_assoc.
  split; [reflexivity|]. split; [exact Hok2|]. split; [destruct le; reflexivity|]. split; [exact Hh2|]. split; lia.
Qed.

(* ---- the regions *)
Variables (d : data) (pre r post : list Z).
Hypothesis Hflat : flat d = pre ++ r ++ post.
Hypothesis Hsz : dsize d < 2 ^ 60.

(* "the final result of the flat computation from here is v" *)
Definition relK (a : res (Z * tbuf)) (v : option (list Z)) : Prop :=
  match a with
  | Ok (skip', b') => 0 <= skip' <= Zlength post /\ tb_ok b' /\
                      v = G16 le false (skipn (Z.to_nat skip') post) (bout b')
  | Null => v = None
  | OOB _ => False
  end.

Lemma Htot : dsize d = Zlength pre + Zlength r + Zlength post.
Proof. unfold dsize. rewrite Hflat, !Zlength_app. lia. Qed.

Lemma flat_suffix : forall k, 0 <= k <= Zlength r ->
  skipn (Z.to_nat (Zlength pre + k)) (flat d) = skipn (Z.to_nat k) r ++ post.
Proof.
  intros k Hk. rewrite Hflat. pose proof (Zlength_nonneg pre).
  rewrite skipn_app_ge_Z by lia. replace (Zlength pre + k - Zlength pre) with k by lia.
  apply skipn_app_Z. lia.
Qed.

(* the code after the sequence has been read (transform.c:359-385), with the rest of the loop as K *)
Lemma emit_sim : forall (K : tbuf -> res (Z * tbuf)) (rest : list Z) next wch first b,
  (forall b', tb_ok b' -> relK (K b') (G16 le false rest (bout b'))) ->
  tb_ok b -> 0 <= next <= SIZE_MAX ->
  relK (if SIZE_MAX <? next then Null
        else if (wch =? 65279) && first then K b
        else if (55296 <=? wch) && (wch <=? 57343) then Null
        else if 65536 <=? wch then
          do b <- buffer_new b 4 next;
          let w := u32 (wch - 65536) in
          do b <- tb_put16 374 le b (Z.land (Z.shiftr w 10) 1023 + 55296);
          do b <- tb_put16 376 le b (Z.land w 1023 + 56320);
          K b
        else
          do b <- buffer_new b 2 next;
          do b <- tb_put16 383 le b (Z.land wch 65535);
          K b)
       (match emit16 le first wch with None => None | Some out => G16 le false rest (bout b ++ out) end).
Proof.
  intros K rest next wch first b HK Hok Hn. unfold emit16.
  replace (SIZE_MAX <? next) with false by lia.
  destruct ((wch =? 65279) && first).
  { rewrite app_nil_r. apply HK, Hok. }
  destruct ((55296 <=? wch) && (wch <=? 57343)); [reflexivity|].
  destruct (65536 <=? wch).
  - destruct (buffer_new_ok b 4 next Hok ltac:(unfold BUFFER_MALLOC_MAX; lia) ltac:(lia)) as (b1 & E1 & Hok1 & Ho1 & Hh1 & Hr1).
    rewrite E1. cbn [bind]. cbv zeta.
    destruct (tb_put16_ok 374 b1 (Z.land (Z.shiftr (u32 (wch - 65536)) 10) 1023 + 55296) Hok1 Hh1 ltac:(lia))
      as (b2 & E2 & Hok2 & Ho2 & Hh2 & Hs2 & Hn2).
    rewrite E2. cbn [bind].
    destruct (tb_put16_ok 376 b2 (Z.land (u32 (wch - 65536)) 1023 + 56320) Hok2 Hh2 ltac:(lia))
      as (b3 & E3 & Hok3 & Ho3 & Hh3 & Hs3 & Hn3).
    rewrite E3. cbn [bind].
    replace (bout b ++ unit16 le (Z.land (Z.shiftr (u32 (wch - 65536)) 10) 1023 + 55296) ++
             unit16 le (Z.land (u32 (wch - 65536)) 1023 + 56320)) with (bout b3)
      by (rewrite Ho3, Ho2, Ho1, <- app_assoc; reflexivity).
    apply HK, Hok3.
  - destruct (buffer_new_ok b 2 next Hok ltac:(unfold BUFFER_MALLOC_MAX; lia) ltac:(lia)) as (b1 & E1 & Hok1 & Ho1 & Hh1 & Hr1).
    rewrite E1. cbn [bind].
    destruct (tb_put16_ok 383 b1 (Z.land wch 65535) Hok1 Hh1 ltac:(lia)) as (b2 & E2 & Hok2 & Ho2 & Hh2 & Hs2 & Hn2).
    rewrite E2. cbn [bind].
    replace (bout b ++ unit16 le (Z.land wch 65535)) with (bout b2) by (rewrite Ho2, Ho1; reflexivity).
    apply HK, Hok2.
Qed.
Lemma seq_val_agree : forall c t1 t2, 1 <= utf8_length c ->
  utf8_length c <= Zlength (c :: t1) -> utf8_length c <= Zlength (c :: t2) ->
  firstn (Z.to_nat (utf8_length c)) (c :: t1) = firstn (Z.to_nat (utf8_length c)) (c :: t2) ->
  seq_val (c :: t1) = seq_val (c :: t2) /\ seq_val (c :: t1) <> None.
Proof.
  intros c t1 t2 H1 H2 H3 Hf.
  destruct (seq_val_prefix (c :: t1) c t1 eq_refl H1 H2) as [E1 N1].
  destruct (seq_val_prefix (c :: t2) c t2 eq_refl H1 H3) as [E2 N2].
  split; [|exact N1]. rewrite E1, E2, Hf. reflexivity.
Qed.

Lemma to16_loop_done : forall fuel off s size i sk b, size <= i ->
  to16_loop d le off r s size fuel i sk b = Ok (sk, b).
Proof. intros. destruct fuel; cbn [to16_loop]; auto. replace (i <? size) with false by lia. reflexivity. Qed.

Variable s0 : Z.
Hypothesis Hs0 : 0 <= s0 < Zlength r.

Lemma to16_loop_sim : forall fuel i b,
  0 <= i <= Zlength r - s0 -> (Z.to_nat (Zlength r - s0 - i) <= fuel)%nat -> tb_ok b ->
  relK (to16_loop d le (Zlength pre + s0) r s0 (Zlength r - s0) fuel i 0 b)
       (G16 le (Zlength pre + s0 + i =? 0) (skipn (Z.to_nat (s0 + i)) r ++ post) (bout b)).
Proof.
  pose proof (Zlength_nonneg pre) as Hp0. pose proof (Zlength_nonneg post) as Hq0. pose proof Htot as Ht.
  assert (Hend : forall b, tb_ok b ->
            relK (Ok (0, b)) (G16 le (Zlength pre + s0 + (Zlength r - s0) =? 0)
                                  (skipn (Z.to_nat (s0 + (Zlength r - s0))) r ++ post) (bout b))).
  { intros b Hok. cbn [relK]. split; [lia|]. split; [exact Hok|].
    replace (Zlength pre + s0 + (Zlength r - s0) =? 0) with false by lia.
    rewrite skipn_all_Z by lia. reflexivity. }
  induction fuel as [|f IH]; intros i b Hi Hf Hok.
  { assert (i = Zlength r - s0) by lia. subst i. cbn [to16_loop]. apply Hend, Hok. }
  cbn [to16_loop]. destruct (Z.ltb_spec i (Zlength r - s0)) as [Hlt|Hge].
  2: { assert (i = Zlength r - s0) by lia. subst i. apply Hend, Hok. }
  (* the byte at src *)
  destruct (skipn (Z.to_nat (s0 + i)) r) as [|c tl] eqn:HR.
  { exfalso. assert (Hz := Zlength_skipn_Z r (s0 + i) ltac:(lia)). rewrite HR, Zlength_nil in Hz. lia. }
  assert (HRlen : Zlength (c :: tl) = Zlength r - s0 - i) by (rewrite <- HR, Zlength_skipn_Z; lia).
  unfold rdo at 1. rewrite rd_skipn by lia. rewrite HR. cbn [bind].
  change ((c :: tl) ++ post) with (c :: tl ++ post).
  assert (Hllen : Zlength (c :: tl ++ post) = Zlength r - s0 - i + Zlength post).
  { change (c :: tl ++ post) with ((c :: tl) ++ post). rewrite Zlength_app. lia. }
  rewrite G16_unfold by discriminate. unfold to16_step.
  destruct (Z.eqb_spec (utf8_length c) 0) as [E0|E0]; [reflexivity|].
  assert (Hbs : 1 <= utf8_length c <= 4) by (destruct (utf8_length_cases c) as [?|[?|[?|[?|?]]]]; lia).
  rewrite u64_id by lia.
  assert (Hfl : skipn (Z.to_nat (Zlength pre + s0 + i)) (flat d) = c :: tl ++ post).
  { replace (Zlength pre + s0 + i) with (Zlength pre + (s0 + i)) by lia. rewrite flat_suffix by lia. rewrite HR. reflexivity. }
  destruct (Z.ltb_spec (Zlength r - s0) (utf8_length c + i)) as [Hspan|Hin].
  - (* the sequence runs into the following region(s) *)
    destruct (Z.ltb_spec (Zlength (c :: tl ++ post)) (utf8_length c)) as [Hshort|Hlong].
    + rewrite sub_map_none by lia. reflexivity.
    + destruct (sub_map_some d (Zlength pre + s0 + i) (utf8_length c) ltac:(lia) ltac:(lia) ltac:(lia))
        as (m & Em & Hm1 & Hm2).
      rewrite Em, Hfl in *. clear Em.
      destruct m as [|c' tm]; [rewrite Zlength_nil in Hm1; lia|].
      assert (c' = c).
      { replace (Z.to_nat (utf8_length c)) with (S (Z.to_nat (utf8_length c) - 1)) in Hm2 by lia.
        change (firstn (S ?n) (?x :: ?l)) with (x :: firstn n l) in Hm2. inversion Hm2. reflexivity. }
      subst c'.
      destruct (seq_val_agree c tm (tl ++ post) ltac:(lia) Hm1 Hlong Hm2) as [Es Ns].
      rewrite read_seq_spec, Es. destruct (seq_val (c :: tl ++ post)) as [wch|] eqn:Esv; [|rewrite <- Es in Ns; contradiction].
      cbn [bind]. rewrite (u64_id (0 + _)) by lia. cbv zeta.
      replace ((Zlength r - s0 - (Zlength r - s0)) * 2) with 0 by lia.
      set (sk := 0 + (utf8_length c - (Zlength r - s0 - i))).
      assert (Hrest : skipn (Z.to_nat (utf8_length c)) (c :: tl ++ post) = skipn (Z.to_nat sk) post).
      { change (c :: tl ++ post) with ((c :: tl) ++ post). rewrite skipn_app_ge_Z by lia. f_equal. unfold sk. lia. }
      assert (HE := emit_sim (fun b0 => to16_loop d le (Zlength pre + s0) r s0 (Zlength r - s0) f (Zlength r - s0) sk b0)
                             (skipn (Z.to_nat (utf8_length c)) (c :: tl ++ post)) 0 wch (Zlength pre + s0 + i =? 0) b).
      cbv beta in HE.
      destruct (emit16 le (Zlength pre + s0 + i =? 0) wch) as [out|] eqn:Eem; cbv beta iota;
        (apply HE; [|exact Hok|unfold SIZE_MAX; lia]);
        intros b' Hok'; rewrite to16_loop_done by lia; cbn [relK];
        (split; [unfold sk; lia|]); (split; [exact Hok'|]); rewrite Hrest; reflexivity.
  - (* the sequence lies in this region *)
    replace (Zlength (c :: tl ++ post) <? utf8_length c) with false by lia.
    destruct (seq_val_agree c tl (tl ++ post) ltac:(lia) ltac:(lia) ltac:(lia)) as [Es Ns].
    { change (c :: tl ++ post) with ((c :: tl) ++ post). symmetry. apply firstn_app_l_Z. lia. }
    rewrite read_seq_spec, Es. destruct (seq_val (c :: tl ++ post)) as [wch|] eqn:Esv; [|rewrite <- Es in Ns; contradiction].
    cbn [bind]. cbv zeta.
    assert (Hrest : skipn (Z.to_nat (utf8_length c)) (c :: tl ++ post) = skipn (Z.to_nat (s0 + (i + utf8_length c))) r ++ post).
    { change (c :: tl ++ post) with ((c :: tl) ++ post). rewrite skipn_app_Z by lia. f_equal.
      rewrite <- HR, skipn_skipn_Z by lia. f_equal. lia. }
    assert (HE := emit_sim (fun b0 => to16_loop d le (Zlength pre + s0) r s0 (Zlength r - s0) f (i + utf8_length c) 0 b0)
                           (skipn (Z.to_nat (utf8_length c)) (c :: tl ++ post))
                           ((Zlength r - s0 - (i + utf8_length c)) * 2) wch (Zlength pre + s0 + i =? 0) b).
    cbv beta in HE.
    destruct (emit16 le (Zlength pre + s0 + i =? 0) wch) as [out|] eqn:Eem; cbv beta iota;
      (apply HE; [|exact Hok|unfold SIZE_MAX; lia]);
      intros b' Hok'; rewrite Hrest;
      replace false with (Zlength pre + s0 + (i + utf8_length c) =? 0) by lia;
      apply IH; try lia; exact Hok'.
Qed.

End ToUtf16.

Section ToUtf16Regions.
Local Ltac Zify.zify_post_hook ::= Z.div_mod_to_equations.
Variables (le : bool) (d : data).
Hypothesis Hsz : dsize d < 2 ^ 60.

Definition bomif (pre : list Z) : list Z := if Zlength pre =? 0 then bom16 le else [].

(* one region: skip bytes of r ++ post were already consumed by the read-ahead of earlier regions *)
Lemma to16_region_sim : forall pre r post skip b,
  flat d = pre ++ r ++ post -> r <> [] ->
  0 <= skip <= Zlength r + Zlength post -> (Zlength pre = 0 -> skip = 0) -> tb_ok b -> snd (tb_cur b) = [] ->
  relK le post (to16_region d le (skip, b) (Zlength pre) r)
       (G16 le (Zlength pre + skip =? 0) (skipn (Z.to_nat skip) (r ++ post)) (bout b ++ bomif pre)) /\
  (forall sk b', to16_region d le (skip, b) (Zlength pre) r = Ok (sk, b') -> snd (tb_cur b') = []).
Proof.
  intros pre r post skip b Hflat Hr Hskip Hpre0 Hok Hcur.
  pose proof (Zlength_nonneg pre) as Hp0. pose proof (Zlength_pos r Hr) as Hr0. pose proof (Zlength_nonneg post) as Hq0.
  assert (Ht : Zlength pre + Zlength r + Zlength post < 2 ^ 60) by (pose proof Hsz as Hs; unfold dsize in Hs; rewrite Hflat, !Zlength_app in Hs; lia).
  unfold to16_region.
  (* the BOM in front of everything *)
  cbv zeta.
  assert (HB : exists b2, (if Zlength pre =? 0
                           then if SIZE_MAX <? Zlength r * 2 + 2 then Null
                                else do b0 <- buffer_new b 2 (u64 (Zlength r * 2 + 2 - 2)); tb_put16 317 le b0 65279
                           else Ok b) = Ok b2 /\ tb_ok b2 /\ bout b2 = bout b ++ bomif pre /\
                          (Zlength pre <> 0 -> b2 = b)).
  { unfold bomif. destruct (Z.eqb_spec (Zlength pre) 0) as [E|E].
    - replace (SIZE_MAX <? Zlength r * 2 + 2) with false by (unfold SIZE_MAX; lia).
      destruct (buffer_new_ok b 2 (u64 (Zlength r * 2 + 2 - 2)) Hok ltac:(unfold BUFFER_MALLOC_MAX; lia) ltac:(unfold u64; lia))
        as (b1 & E1 & Hok1 & Ho1 & Hh1 & Hr1).
      rewrite E1. cbn [bind].
      destruct (tb_put16_ok le 317 b1 65279 Hok1 Hh1 ltac:(lia)) as (b2 & E2 & Hok2 & Ho2 & _).
      exists b2. rewrite E2, Ho2, Ho1. split; [reflexivity|]. split; [exact Hok2|]. split; [reflexivity|].
      intros Hc; exfalso; apply Hc, E.
    - exists b. rewrite app_nil_r. auto. }
  destruct HB as (b2 & EB & Hok2 & Ho2 & Hsame). rewrite EB. cbn [bind]. rewrite <- Ho2.
  destruct (Z.leb_spec (Zlength r) skip) as [Hge|Hlt].
  - (* the whole region was consumed by an earlier read-ahead *)
    assert (Hne : Zlength pre <> 0) by lia. rewrite (Hsame Hne) in *.
    rewrite u64_id by lia. split.
    + cbn [relK]. split; [lia|]. split; [exact Hok|].
      replace (Zlength pre + skip =? 0) with false by lia.
      rewrite skipn_app_ge_Z by lia. reflexivity.
    + intros sk b' E. inversion E; subst. exact Hcur.
  - assert (Hloop : exists s0, 0 <= s0 < Zlength r /\ s0 = skip /\
              (let '(s1, size, offset, skip1) :=
                 if 0 <? skip then (skip, Zlength r - skip, u64 (Zlength pre + skip), 0) else (0, Zlength r, Zlength pre, skip) in
               do '(skip2, b3) <- to16_loop d le offset r s1 size (Z.to_nat size) 0 skip1 b2;
               do b4 <- buffer_new b3 0 0; Ok (skip2, b4)) =
              (do '(skip2, b3) <- to16_loop d le (Zlength pre + s0) r s0 (Zlength r - s0) (Z.to_nat (Zlength r - s0)) 0 0 b2;
               do b4 <- buffer_new b3 0 0; Ok (skip2, b4))).
    { exists skip. split; [lia|]. split; [reflexivity|].
      destruct (Z.ltb_spec 0 skip).
      - rewrite u64_id by lia. reflexivity.
      - assert (skip = 0) by lia. subst skip. rewrite Z.add_0_r, Z.sub_0_r. reflexivity. }
    destruct Hloop as (s0 & Hs0 & Es0 & EL). rewrite EL. clear EL. subst s0.
    assert (HL := to16_loop_sim le d pre r post Hflat Hsz skip Hs0
                    (Z.to_nat (Zlength r - skip)) 0 b2 ltac:(lia) ltac:(lia) Hok2).
    rewrite !Z.add_0_r in HL. rewrite skipn_app_Z by lia.
    destruct (to16_loop d le (Zlength pre + skip) r skip (Zlength r - skip) (Z.to_nat (Zlength r - skip)) 0 0 b2)
      as [[sk' b3]| |]; cbn [relK] in HL; cbn [bind].
    + destruct HL as (Hk1 & Hok3 & Hv).
      destruct (buffer_flush_ok b3 Hok3) as (b4 & E4 & Hok4 & Ho4 & Hh4 & Hc4).
      rewrite E4. cbn [bind]. split.
      * cbn [relK]. split; [exact Hk1|]. split; [exact Hok4|]. rewrite Ho4. exact Hv.
      * intros sk b' E. inversion E; subst. exact Hc4.
    + split; [exact HL|]. intros; discriminate.
    + contradiction.
Qed.

Lemma to16_regions_sim : forall rest pre skip b,
  flat d = pre ++ flat rest -> Forall (fun r => r <> []) rest ->
  0 <= skip <= Zlength (flat rest) -> (Zlength pre = 0 -> skip = 0) -> 0 < Zlength pre + Zlength (flat rest) ->
  tb_ok b -> snd (tb_cur b) = [] ->
  match apply_regions (to16_region d le) rest (Zlength pre) (skip, b) with
  | Ok (sk', b') => tb_ok b' /\ snd (tb_cur b') = [] /\
      G16 le (Zlength pre + skip =? 0) (skipn (Z.to_nat skip) (flat rest)) (bout b ++ bomif pre) = Some (bout b')
  | Null => G16 le (Zlength pre + skip =? 0) (skipn (Z.to_nat skip) (flat rest)) (bout b ++ bomif pre) = None
  | OOB _ => False
  end.
Proof.
  induction rest as [|r rest IH]; intros pre skip b Hflat Hne Hskip Hpre0 Hpos Hok Hcur.
  - cbn [apply_regions]. change (flat []) with (@nil Z) in *. rewrite Zlength_nil in *.
    assert (skip = 0) by lia. subst skip. split; [exact Hok|]. split; [exact Hcur|].
    unfold bomif. replace (Zlength pre =? 0) with false by lia. rewrite app_nil_r. reflexivity.
  - apply Forall_cons_iff in Hne. destruct Hne as [Hr Hne].
    change (flat (r :: rest)) with (r ++ flat rest) in *. rewrite Zlength_app in *.
    cbn [apply_regions].
    destruct (to16_region_sim pre r (flat rest) skip b Hflat Hr Hskip Hpre0 Hok Hcur) as [HR HC].
    destruct (to16_region d le (skip, b) (Zlength pre) r) as [[sk' b']| |]; cbn [relK] in HR; cbn [bind].
    + destruct HR as (Hk & Hok' & Hv). rewrite Hv.
      pose proof (Zlength_pos r Hr). pose proof (Zlength_nonneg pre).
      specialize (IH (pre ++ r) sk' b'). rewrite Zlength_app in IH.
      assert (Hb : bomif (pre ++ r) = []) by (unfold bomif; rewrite Zlength_app; replace (Zlength pre + Zlength r =? 0) with false by lia; reflexivity).
      rewrite Hb, app_nil_r in IH. replace (Zlength pre + Zlength r + sk' =? 0) with false in IH by lia.
      apply IH; auto; try lia. rewrite <- app_assoc. exact Hflat. eapply HC; reflexivity.
    + exact HR.
    + contradiction.
Qed.
End ToUtf16Regions.

(* UTF-8 -> UTF-16 (LE or BE) on ANY bytes split in ANY way: the result is to16_flat of the concatenation (NULL exactly when
   the flat computation rejects), and the OOB outcome is unreachable.  No hypothesis on region sizes: since the repair of
   _dispatch_transform_buffer_new (the size hint is clamped, the output is allocated in pieces of at most
   BUFFER_MALLOC_MAX) the size test of transform.c:164 cannot fail.  The returned object has no empty region. *)
Theorem to_utf16_flat : forall le d,
  Forall (fun r => r <> []) d -> dsize d < 2 ^ 60 ->
  flat_res (to_utf16 le d) = match to16_flat le (flat d) with Some x => Ok x | None => Null end /\
  (forall e, to_utf16 le d = Ok e -> nonempty_regions e).
Proof.
  intros le d Hne Hsz. unfold to_utf16.
  destruct d as [|r d']; [split; [reflexivity|intros e He; inversion He; constructor]|].
  assert (Hpos : 0 < Zlength (flat (r :: d'))).
  { change (flat (r :: d')) with (r ++ flat d'). rewrite Zlength_app. apply Forall_cons_iff in Hne.
    pose proof (Zlength_pos r (proj1 Hne)). pose proof (Zlength_nonneg (flat d')). lia. }
  assert (H := to16_regions_sim le (r :: d') Hsz (r :: d') [] 0 tbuf_init eq_refl Hne ltac:(lia) ltac:(auto)
                 ltac:(rewrite Zlength_nil; lia) tb_ok_init eq_refl).
  change (Zlength (@nil Z)) with 0 in H. change (Z.to_nat 0) with 0%nat in H. change (skipn 0 ?l) with l in H.
  unfold to16_flat. destruct (flat (r :: d')) as [|c tl] eqn:Ef; [rewrite Zlength_nil in Hpos; lia|].
  change (0 + 0 =? 0) with true in H. unfold bomif in H. change (Zlength (@nil Z) =? 0) with true in H.
  change (bout tbuf_init) with (@nil Z) in H. cbn [app] in H.
  destruct (apply_regions (to16_region (r :: d') le) (r :: d') 0 (0, tbuf_init)) as [[sk b]| |]; cbn [bind flat_res].
  - destruct H as (Hokb & Hc & Hv). rewrite Hv. unfold bout. rewrite Hc. cbn [rev]. rewrite app_nil_r.
    split; [reflexivity|]. intros e He. inversion He; subst e. apply Hokb.
  - rewrite H. split; [reflexivity|discriminate].
  - contradiction.
Qed.

(* ------------------------------------------------------------------------------------------------ Part D *)

(* the bytes _dispatch_transform_from_utf16 writes for one value (transform.c:503-529) *)
Definition utf8_enc (wch : Z) : list Z :=
  if wch <? 128 then [u8 (Z.land wch 255)]
  else if wch <? 2048 then [u8 (Z.lor 192 (Z.shiftr wch 6)); u8 (Z.lor 128 (Z.land wch 63))]
  else if wch <? 65536 then
    [u8 (Z.lor 224 (Z.shiftr wch 12)); u8 (Z.lor 128 (Z.land (Z.shiftr wch 6) 63)); u8 (Z.lor 128 (Z.land wch 63))]
  else if wch <? 2097152 then
    [u8 (Z.lor 240 (Z.shiftr wch 18)); u8 (Z.lor 128 (Z.land (Z.shiftr wch 12) 63));
     u8 (Z.lor 128 (Z.land (Z.shiftr wch 6) 63)); u8 (Z.lor 128 (Z.land wch 63))]
  else [].

Definition is_hi (ch : Z) : bool := (55296 <=? ch) && (ch <=? 56319).
Definition is_lo (ch : Z) : bool := (56320 <=? ch) && (ch <=? 57343).
Definition pair_val (ch ch2 : Z) : Z := u32 (Z.lor (u32 (Z.shiftl (ch - 55296) 10)) (Z.land ch2 1023) + 65536).

(* one value taken from the flat suffix l: (bytes written, remaining suffix); None = NULL *)
Definition from16_step (le first : bool) (l : list Z) : option (list Z * list Z) :=
  match l with
  | b0 :: b1 :: rest =>
    let ch := get16 le b0 b1 in
    if (ch =? 65534) && first then None
    else if (ch =? 65279) && first then Some ([], rest)
    else if is_hi ch then
      match rest with
      | c0 :: c1 :: rest' =>
        let ch2 := get16 le c0 c1 in
        if negb (is_lo ch2) then None else Some (utf8_enc (pair_val ch ch2), rest')
      | _ => None
      end
    else if is_lo ch then None
    else Some (utf8_enc ch, rest)
  | _ => None
  end.

Fixpoint from16_floop (le : bool) (fuel : nat) (first : bool) (l acc : list Z) : option (list Z) :=
  match l with
  | [] => Some acc
  | _ :: _ =>
    match fuel with
    | O => None
    | S f => match from16_step le first l with
             | None => None
             | Some (out, rest) => from16_floop le f false rest (acc ++ out)
             end
    end
  end.

Definition G8 (le first : bool) (l acc : list Z) : option (list Z) := from16_floop le (length l) first l acc.

(* UTF-16 -> UTF-8 on a flat byte string *)
Definition from16_flat (le : bool) (l : list Z) : option (list Z) := G8 le true l [].

Section FromUtf16.
Local Ltac Zify.zify_post_hook ::= Z.div_mod_to_equations.
Variable le : bool.

Lemma from16_step_shorter : forall first l out rest, from16_step le first l = Some (out, rest) -> (length rest < length l)%nat.
Proof.
  intros first l out rest H. unfold from16_step in H. destruct l as [|b0 [|b1 tl]]; try discriminate.
  destruct ((get16 le b0 b1 =? 65534) && first); [discriminate|].
  destruct ((get16 le b0 b1 =? 65279) && first); [inversion H; subst; cbn [length]; lia|].
  destruct (is_hi (get16 le b0 b1)).
  - destruct tl as [|c0 [|c1 tl']]; try discriminate. destruct (negb (is_lo (get16 le c0 c1))); [discriminate|].
    inversion H; subst. cbn [length]. lia.
  - destruct (is_lo (get16 le b0 b1)); [discriminate|]. inversion H; subst. cbn [length]. lia.
Qed.

Lemma from16_floop_fuel : forall f1 f2 first l acc, (length l <= f1)%nat -> (length l <= f2)%nat ->
  from16_floop le f1 first l acc = from16_floop le f2 first l acc.
Proof.
  induction f1 as [|f1 IH]; intros f2 first l acc H1 H2.
  - destruct l; [destruct f2; reflexivity|cbn in H1; lia].
  - destruct l as [|c tl]; [destruct f2; reflexivity|]. destruct f2 as [|f2]; [cbn in H2; lia|].
    cbn [from16_floop]. destruct (from16_step le first (c :: tl)) as [[out rest]|] eqn:E; [|reflexivity].
    apply from16_step_shorter in E. apply IH; lia.
Qed.

Lemma G8_unfold : forall first l acc, l <> [] ->
  G8 le first l acc = match from16_step le first l with
                      | None => None
                      | Some (out, rest) => G8 le false rest (acc ++ out)
                      end.
Proof.
  intros first l acc Hl. unfold G8. destruct l as [|c tl]; [contradiction|]. cbn [length from16_floop].
  destruct (from16_step le first (c :: tl)) as [[out rest]|] eqn:E; [|reflexivity].
  apply from16_step_shorter in E. apply from16_floop_fuel; cbn [length] in *; lia.
Qed.

Lemma put_utf8_ok : forall b wch next,
  tb_ok b -> 0 <= next ->
  exists b', put_utf8 b wch next = Ok b' /\ tb_ok b' /\ bout b' = bout b ++ utf8_enc wch.
Proof.
  intros b wch next Hok Hn. unfold put_utf8, utf8_enc.
  destruct (wch <? 128).
  { destruct (buffer_new_ok b 1 next Hok ltac:(unfold BUFFER_MALLOC_MAX; lia) Hn) as (b1 & E1 & Hok1 & Ho1 & Hh1 & Hr1).
    rewrite E1. cbn [bind].
    destruct (tb_put_ok 507 b1 (u8 (Z.land wch 255)) Hok1 Hh1 ltac:(lia)) as (b2 & E2 & Hok2 & Ho2 & _).
    exists b2. rewrite E2, Ho2, Ho1. auto. }
  destruct (wch <? 2048).
  { destruct (buffer_new_ok b 2 next Hok ltac:(unfold BUFFER_MALLOC_MAX; lia) Hn) as (b1 & E1 & Hok1 & Ho1 & Hh1 & Hr1).
    rewrite E1. cbn [bind].
    destruct (tb_put_ok 512 b1 (u8 (Z.lor 192 (Z.shiftr wch 6))) Hok1 Hh1 ltac:(lia)) as (b2 & E2 & Hok2 & Ho2 & Hh2 & Hs2 & Hn2).
    rewrite E2. cbn [bind].
    destruct (tb_put_ok 513 b2 (u8 (Z.lor 128 (Z.land wch 63))) Hok2 Hh2 ltac:(lia)) as (b3 & E3 & Hok3 & Ho3 & _).
    exists b3. rewrite E3, Ho3, Ho2, Ho1, <- app_assoc. auto. }
  destruct (wch <? 65536).
  { destruct (buffer_new_ok b 3 next Hok ltac:(unfold BUFFER_MALLOC_MAX; lia) Hn) as (b1 & E1 & Hok1 & Ho1 & Hh1 & Hr1).
    rewrite E1. cbn [bind].
    destruct (tb_put_ok 518 b1 (u8 (Z.lor 224 (Z.shiftr wch 12))) Hok1 Hh1 ltac:(lia)) as (b2 & E2 & Hok2 & Ho2 & Hh2 & Hs2 & Hn2).
    rewrite E2. cbn [bind].
    destruct (tb_put_ok 519 b2 (u8 (Z.lor 128 (Z.land (Z.shiftr wch 6) 63))) Hok2 Hh2 ltac:(lia)) as (b3 & E3 & Hok3 & Ho3 & Hh3 & Hs3 & Hn3).
    rewrite E3. cbn [bind].
    destruct (tb_put_ok 520 b3 (u8 (Z.lor 128 (Z.land wch 63))) Hok3 Hh3 ltac:(lia)) as (b4 & E4 & Hok4 & Ho4 & _).
    exists b4. rewrite E4, Ho4, Ho3, Ho2, Ho1, <- !app_assoc. auto. }
  destruct (wch <? 2097152).
  { destruct (buffer_new_ok b 4 next Hok ltac:(unfold BUFFER_MALLOC_MAX; lia) Hn) as (b1 & E1 & Hok1 & Ho1 & Hh1 & Hr1).
    rewrite E1. cbn [bind].
    destruct (tb_put_ok 525 b1 (u8 (Z.lor 240 (Z.shiftr wch 18))) Hok1 Hh1 ltac:(lia)) as (b2 & E2 & Hok2 & Ho2 & Hh2 & Hs2 & Hn2).
    rewrite E2. cbn [bind].
    destruct (tb_put_ok 526 b2 (u8 (Z.lor 128 (Z.land (Z.shiftr wch 12) 63))) Hok2 Hh2 ltac:(lia)) as (b3 & E3 & Hok3 & Ho3 & Hh3 & Hs3 & Hn3).
    rewrite E3. cbn [bind].
    destruct (tb_put_ok 527 b3 (u8 (Z.lor 128 (Z.land (Z.shiftr wch 6) 63))) Hok3 Hh3 ltac:(lia)) as (b4 & E4 & Hok4 & Ho4 & Hh4 & Hs4 & Hn4).
    rewrite E4. cbn [bind].
    destruct (tb_put_ok 528 b4 (u8 (Z.lor 128 (Z.land wch 63))) Hok4 Hh4 ltac:(lia)) as (b5 & E5 & Hok5 & Ho5 & _).
    exists b5. rewrite E5, Ho5, Ho4, Ho3, Ho2, Ho1, <- !app_assoc. auto. }
  exists b. rewrite app_nil_r. auto.
Qed.
Variables (d : data) (pre r post : list Z).
Hypothesis Hflat : flat d = pre ++ r ++ post.
Hypothesis Hsz : dsize d < 2 ^ 60.
Variable s0 : Z.
Hypothesis Hs0 : 0 <= s0 < Zlength r.

Definition relK8 (a : res (Z * tbuf)) (v : option (list Z)) : Prop :=
  match a with
  | Ok (skip', b') => 0 <= skip' <= Zlength post /\ tb_ok b' /\
                      v = G8 le false (skipn (Z.to_nat skip') post) (bout b')
  | Null => v = None
  | OOB _ => False
  end.

(* the flat bytes from the first unprocessed byte of the region on *)
Definition S8 : list Z := skipn (Z.to_nat s0) r ++ post.
Definition sz8 : Z := Zlength r - s0.
Definition mx8 : Z := if negb (sz8 mod 2 =? 0) then sz8 / 2 + 1 else sz8 / 2.

Lemma Htot8 : dsize d = Zlength pre + Zlength r + Zlength post.
Proof. unfold dsize. rewrite Hflat, !Zlength_app. lia. Qed.

Lemma S8_len : Zlength S8 = sz8 + Zlength post.
Proof. unfold S8, sz8. rewrite Zlength_app, Zlength_skipn_Z by lia. lia. Qed.

Lemma flat_suffix8 : forall q, 0 <= q ->
  skipn (Z.to_nat (Zlength pre + s0 + q)) (flat d) = skipn (Z.to_nat q) S8.
Proof.
  intros q Hq. rewrite Hflat. pose proof (Zlength_nonneg pre).
  rewrite skipn_app_ge_Z by lia. unfold S8. rewrite <- (skipn_app_Z r post s0) by lia.
  rewrite skipn_skipn_Z by lia. f_equal. lia.
Qed.

Lemma S8_post : forall k, 0 <= k -> skipn (Z.to_nat (sz8 + k)) S8 = skipn (Z.to_nat k) post.
Proof.
  intros k Hk. unfold S8, sz8. rewrite skipn_app_ge_Z by (rewrite Zlength_skipn_Z; lia).
  rewrite Zlength_skipn_Z by lia. f_equal. lia.
Qed.

Lemma two_cons : forall (L : list Z), 2 <= Zlength L -> exists x y, L = x :: y :: skipn 2 L.
Proof.
  intros [|x [|y tl]] H; try (rewrite ?Zlength_cons, Zlength_nil in H; lia). exists x, y. reflexivity.
Qed.

Lemma skipn_S8_2 : forall q, 0 <= q -> skipn 2 (skipn (Z.to_nat q) S8) = skipn (Z.to_nat (q + 2)) S8.
Proof. intros. change 2%nat with (Z.to_nat 2). rewrite skipn_skipn_Z by lia. f_equal. lia. Qed.

(* src[j] read inside the region *)
Lemma unit_src : forall site j, 0 <= j -> 2 * j + 2 <= sz8 ->
  exists x y, skipn (Z.to_nat (2 * j)) S8 = x :: y :: skipn (Z.to_nat (2 * j + 2)) S8 /\
              src16 site le r s0 j = Ok (get16 le x y).
Proof.
  intros site j Hj Hin. unfold sz8 in Hin.
  assert (HL : 2 <= Zlength (skipn (Z.to_nat (2 * j)) S8)) by (rewrite Zlength_skipn_Z; rewrite S8_len; unfold sz8; pose proof (Zlength_nonneg post); lia).
  destruct (two_cons _ HL) as (x & y & E). rewrite skipn_S8_2 in E by lia. exists x, y. split; [exact E|].
  assert (ER : skipn (Z.to_nat (s0 + 2 * j)) r ++ post = skipn (Z.to_nat (2 * j)) S8).
  { unfold S8. rewrite <- (skipn_app_Z r post s0) by lia. rewrite skipn_skipn_Z by lia.
    rewrite <- skipn_app_Z by lia. f_equal. f_equal. lia. }
  assert (HRl : Zlength (skipn (Z.to_nat (s0 + 2 * j)) r) = Zlength r - s0 - 2 * j) by (rewrite Zlength_skipn_Z; lia).
  destruct (skipn (Z.to_nat (s0 + 2 * j)) r) as [|x' [|y' tl]] eqn:ERR;
    try (rewrite ?Zlength_cons, Zlength_nil in HRl; lia).
  rewrite E in ER. cbn [app] in ER. inversion ER; subst x' y'.
  unfold src16, rdo. rewrite rd_skipn by lia. rewrite ERR. cbn [bind].
  rewrite rd_skipn by lia.
  replace (Z.to_nat (s0 + 2 * j + 1)) with (1 + Z.to_nat (s0 + 2 * j))%nat by lia.
  rewrite <- skipn_skipn', ERR. change (skipn 1 (x :: y :: tl)) with (y :: tl). reflexivity.
Qed.

(* a unit read through a 2-byte map at offset + j*2 (read-ahead) *)
Lemma unit_map : forall site j (SK : Z), 0 <= j -> 2 * j <= sz8 + Zlength post ->
  (Zlength (skipn (Z.to_nat (2 * j)) S8) < 2 ->
     match sub_map d (u64 (Zlength pre + s0 + j * 2)) 2 with
     | None => Null
     | Some m => do b0 <- rdo site m 0; do b1 <- rdo site m 1; Ok (get16 le b0 b1, SK)
     end = Null) /\
  (2 <= Zlength (skipn (Z.to_nat (2 * j)) S8) ->
     exists x y, skipn (Z.to_nat (2 * j)) S8 = x :: y :: skipn (Z.to_nat (2 * j + 2)) S8 /\
       match sub_map d (u64 (Zlength pre + s0 + j * 2)) 2 with
       | None => Null
       | Some m => do b0 <- rdo site m 0; do b1 <- rdo site m 1; Ok (get16 le b0 b1, SK)
       end = Ok (get16 le x y, SK)).
Proof.
  intros site j SK Hj Hjl. pose proof Htot8 as Ht. pose proof (Zlength_nonneg pre). pose proof (Zlength_nonneg post).
  pose proof S8_len as HS. unfold sz8 in *.
  assert (HLl : Zlength (skipn (Z.to_nat (2 * j)) S8) = Zlength r - s0 + Zlength post - 2 * j) by (rewrite Zlength_skipn_Z; lia).
  rewrite u64_id by lia. split; intros HL.
  - rewrite sub_map_none by lia. reflexivity.
  - destruct (two_cons _ HL) as (x & y & E). rewrite skipn_S8_2 in E by lia. exists x, y. split; [exact E|].
    destruct (sub_map_some d (Zlength pre + s0 + j * 2) 2 ltac:(lia) ltac:(lia) ltac:(lia)) as (m & Em & Hm1 & Hm2).
    rewrite Em. replace (Zlength pre + s0 + j * 2) with (Zlength pre + s0 + 2 * j) in Hm2 by lia.
    rewrite flat_suffix8, E in Hm2 by lia.
    destruct m as [|m0 [|m1 tm]]; try (rewrite ?Zlength_cons, Zlength_nil in Hm1; lia).
    change (firstn (Z.to_nat 2) (m0 :: m1 :: tm)) with [m0; m1] in Hm2.
    change (firstn (Z.to_nat 2) (x :: y :: ?t)) with [x; y] in Hm2. inversion Hm2; subst.
    reflexivity.
Qed.

(* position after a unit, relative to the first unprocessed byte of the region, and the read-ahead count *)
Definition pos_ok (q sk : Z) : Prop :=
  (sk = 0 /\ q <= sz8) \/ (sk = q - sz8 /\ sz8 < q /\ q <= sz8 + Zlength post).

Lemma mx8_spec : 2 * mx8 = sz8 \/ 2 * mx8 = sz8 + 1.
Proof. unfold mx8. destruct (Z.eqb_spec (sz8 mod 2) 0); cbn [negb]; lia. Qed.

Lemma first_read : forall i, 0 <= i -> 2 * i < sz8 ->
  let E := (if (i =? mx8 - 1) && (sz8 / 2 <? mx8)
            then match sub_map d (u64 (Zlength pre + s0 + i * 2)) 2 with
                 | None => Null
                 | Some m => do b0 <- rdo 455 m 0; do b1 <- rdo 455 m 1; Ok (get16 le b0 b1, u64 (0 + 1))
                 end
            else do ch <- src16 460 le r s0 i; Ok (ch, 0)) in
  (Zlength (skipn (Z.to_nat (2 * i)) S8) < 2 /\ E = Null) \/
  (exists x y sk1, skipn (Z.to_nat (2 * i)) S8 = x :: y :: skipn (Z.to_nat (2 * i + 2)) S8 /\
                   E = Ok (get16 le x y, sk1) /\ pos_ok (2 * i + 2) sk1).
Proof.
  intros i Hi Hlt E. subst E. pose proof mx8_spec as Hm. pose proof (Zlength_nonneg post) as Hq. pose proof S8_len as HS.
  assert (HLl : Zlength (skipn (Z.to_nat (2 * i)) S8) = sz8 + Zlength post - 2 * i) by (rewrite Zlength_skipn_Z; lia).
  destruct ((i =? mx8 - 1) && (sz8 / 2 <? mx8)) eqn:EA.
  - assert (Hodd : 2 * i = sz8 - 1) by lia.
    destruct (unit_map 455 i (u64 (0 + 1)) Hi ltac:(lia)) as [HN HS2].
    destruct (Z.ltb_spec (Zlength (skipn (Z.to_nat (2 * i)) S8)) 2) as [Hs|Hl].
    + left. split; [exact Hs|]. apply HN, Hs.
    + right. destruct (HS2 Hl) as (x & y & E1 & E2). exists x, y, 1. split; [exact E1|]. split; [exact E2|].
      right. lia.
  - assert (Hin : 2 * i + 2 <= sz8) by lia.
    destruct (unit_src 460 i Hi Hin) as (x & y & E1 & E2).
    right. exists x, y, 0. rewrite E2. cbn [bind]. split; [exact E1|]. split; [reflexivity|]. left. lia.
Qed.

Lemma second_read : forall i2 sk1, 1 <= i2 -> 2 * i2 <= sz8 + Zlength post -> pos_ok (2 * i2) sk1 ->
  let E := (if sz8 / 2 <=? i2
            then match sub_map d (u64 (Zlength pre + s0 + i2 * 2)) 2 with
                 | None => Null
                 | Some m => do b0 <- rdo 482 m 0; do b1 <- rdo 482 m 1; Ok (get16 le b0 b1, u64 (i2 * 2 + 2 - sz8))
                 end
            else do ch <- src16 487 le r s0 i2; Ok (ch, sk1)) in
  (Zlength (skipn (Z.to_nat (2 * i2)) S8) < 2 /\ E = Null) \/
  (exists x y sk2, skipn (Z.to_nat (2 * i2)) S8 = x :: y :: skipn (Z.to_nat (2 * i2 + 2)) S8 /\
                   E = Ok (get16 le x y, sk2) /\ pos_ok (2 * i2 + 2) sk2).
Proof.
  intros i2 sk1 Hi Hle Hp E. subst E. pose proof (Zlength_nonneg post) as Hq. pose proof S8_len as HS.
  assert (HLl : Zlength (skipn (Z.to_nat (2 * i2)) S8) = sz8 + Zlength post - 2 * i2) by (rewrite Zlength_skipn_Z; lia).
  assert (Hsz8 : 0 < sz8) by (unfold sz8; lia).
  destruct (Z.leb_spec (sz8 / 2) i2) as [Hra|Hin].
  - destruct (unit_map 482 i2 (u64 (i2 * 2 + 2 - sz8)) ltac:(lia) Hle) as [HN HS2].
    destruct (Z.ltb_spec (Zlength (skipn (Z.to_nat (2 * i2)) S8)) 2) as [Hs|Hl].
    + left. split; [exact Hs|]. apply HN, Hs.
    + right. destruct (HS2 Hl) as (x & y & E1 & E2). exists x, y, (i2 * 2 + 2 - sz8).
      split; [exact E1|]. split; [rewrite E2, u64_id by (unfold sz8 in *; pose proof Htot8; pose proof (Zlength_nonneg pre); lia); reflexivity|].
      right. lia.
  - assert (Hin2 : 2 * i2 + 2 <= sz8) by lia.
    destruct (unit_src 487 i2 ltac:(lia) Hin2) as (x & y & E1 & E2).
    right. exists x, y, sk1. rewrite E2. cbn [bind]. split; [exact E1|]. split; [reflexivity|].
    left. destruct Hp as [[? ?]|[? [? ?]]]; lia.
Qed.

Lemma from16_loop_done : forall fuel off s size max i sk b, max <= i ->
  from16_loop d le off r s size max fuel i sk b = Ok (sk, b).
Proof. intros. destruct fuel; cbn [from16_loop]; auto. replace (i <? max) with false by lia. reflexivity. Qed.

Lemma short_list : forall (L : list Z), Zlength L < 2 -> L = [] \/ exists z, L = [z].
Proof.
  intros [|z [|y t]] H; auto; [right; eauto|]. rewrite !Zlength_cons in H. pose proof (Zlength_nonneg t). lia.
Qed.

Lemma from16_loop_sim : forall fuel i b,
  0 <= i -> 2 * i <= sz8 -> (Z.to_nat (mx8 - i) <= fuel)%nat -> tb_ok b ->
  relK8 (from16_loop d le (Zlength pre + s0) r s0 sz8 mx8 fuel i 0 b)
        (G8 le (Zlength pre + s0 + 2 * i =? 0) (skipn (Z.to_nat (2 * i)) S8) (bout b)).
Proof.
  pose proof mx8_spec as Hm. pose proof (Zlength_nonneg post) as Hq. pose proof (Zlength_nonneg pre) as Hp.
  pose proof S8_len as HS.
  assert (Hsz8 : 0 < sz8) by (unfold sz8; lia).
  assert (Hend : forall i b, 0 <= i -> 2 * i = sz8 -> tb_ok b ->
            relK8 (Ok (0, b)) (G8 le (Zlength pre + s0 + 2 * i =? 0) (skipn (Z.to_nat (2 * i)) S8) (bout b))).
  { intros j b0 Hj Hj2 Hb0. cbn [relK8]. split; [lia|]. split; [exact Hb0|].
    replace (Zlength pre + s0 + 2 * j =? 0) with false by lia. replace (2 * j) with (sz8 + 0) by lia.
    rewrite S8_post by lia. reflexivity. }
  induction fuel as [|f IH]; intros i b Hi Hle Hf Hok.
  { cbn [from16_loop]. apply Hend; auto. lia. }
  cbn [from16_loop]. destruct (Z.ltb_spec i mx8) as [Hlt|Hge].
  2: { apply Hend; auto; lia. }
  assert (Hin : 2 * i < sz8) by lia.
  assert (Hcont : forall i' sk b', 0 <= i' -> i <= i' -> pos_ok (2 * i' + 2) sk -> tb_ok b' ->
            relK8 (from16_loop d le (Zlength pre + s0) r s0 sz8 mx8 f (i' + 1) sk b')
                  (G8 le false (skipn (Z.to_nat (2 * i' + 2)) S8) (bout b'))).
  { intros i' sk b' Hi' Hii Hp' Hok'. destruct Hp' as [[-> Hq']|[-> [Hq1 Hq2]]].
    - replace false with (Zlength pre + s0 + 2 * (i' + 1) =? 0) by lia.
      replace (2 * i' + 2) with (2 * (i' + 1)) by lia. apply IH; auto; lia.
    - rewrite from16_loop_done by lia. cbn [relK8]. split; [lia|]. split; [exact Hok'|].
      replace (2 * i' + 2) with (sz8 + (2 * i' + 2 - sz8)) at 1 by lia. rewrite S8_post by lia. reflexivity. }
  assert (HLl : Zlength (skipn (Z.to_nat (2 * i)) S8) = sz8 + Zlength post - 2 * i) by (rewrite Zlength_skipn_Z; lia).
  assert (HLne : skipn (Z.to_nat (2 * i)) S8 <> []) by (intro Hc; rewrite Hc, Zlength_nil in HLl; lia).
  rewrite G8_unfold by exact HLne.
  (* the tail after (wch, i_f, sk_f) is known: put the bytes, go on *)
  assert (Htail : forall wch i_f sk_f, i <= i_f <= mx8 -> pos_ok (2 * i_f + 2) sk_f ->
            relK8 (let next := (mx8 - i_f) * 2 in
                   if SIZE_MAX <? next then Null
                   else do b0 <- put_utf8 b wch next;
                        from16_loop d le (Zlength pre + s0) r s0 sz8 mx8 f (i_f + 1) sk_f b0)
                  (G8 le false (skipn (Z.to_nat (2 * i_f + 2)) S8) (bout b ++ utf8_enc wch))).
  { intros wch i_f sk_f Hif Hpf. cbv zeta.
    replace (SIZE_MAX <? (mx8 - i_f) * 2) with false by (unfold SIZE_MAX, sz8 in *; pose proof Htot8; lia).
    destruct (put_utf8_ok b wch ((mx8 - i_f) * 2) Hok ltac:(lia)) as (b' & E' & Hok' & Ho').
    rewrite E'. cbn [bind]. rewrite <- Ho'. apply Hcont; auto; lia. }
  assert (Hfirst : (Zlength pre + s0 =? 0) && (i =? 0) = (Zlength pre + s0 + 2 * i =? 0)) by lia.
  destruct (first_read i Hi Hin) as [[Hs E1]|(x & y & sk1 & EL & E1 & Hp1)]; rewrite E1; cbn [bind].
  { destruct (short_list _ Hs) as [Hc|[z Hc]]; [contradiction|]. rewrite Hc. reflexivity. }
  rewrite EL. unfold from16_step. cbv zeta.
  rewrite <- !andb_assoc, Hfirst.
  destruct ((get16 le x y =? 65534) && (Zlength pre + s0 + 2 * i =? 0)); [reflexivity|].
  destruct ((get16 le x y =? 65279) && (Zlength pre + s0 + 2 * i =? 0)).
  { rewrite app_nil_r. apply Hcont; auto; lia. }
  change ((55296 <=? get16 le x y) && (get16 le x y <=? 56319)) with (is_hi (get16 le x y)).
  change ((56320 <=? get16 le x y) && (get16 le x y <=? 57343)) with (is_lo (get16 le x y)).
  assert (HL2 : 2 * (i + 1) <= sz8 + Zlength post).
  { rewrite EL in HLl. rewrite !Zlength_cons in HLl. pose proof (Zlength_nonneg (skipn (Z.to_nat (2 * i + 2)) S8)). lia. }
  destruct (is_hi (get16 le x y)).
  - cbv zeta.
    destruct (second_read (i + 1) sk1 ltac:(lia) HL2 ltac:(replace (2 * (i + 1)) with (2 * i + 2) by lia; exact Hp1))
      as [[Hs2 E2]|(c0 & c1 & sk2 & EL2 & E2 & Hp2)]; rewrite E2; cbn [bind].
    + replace (2 * (i + 1)) with (2 * i + 2) in Hs2 by lia.
      destruct (short_list _ Hs2) as [Hc|[z Hc]]; rewrite Hc; reflexivity.
    + replace (2 * (i + 1)) with (2 * i + 2) in EL2 by lia. rewrite EL2.
      change ((56320 <=? get16 le c0 c1) && (get16 le c0 c1 <=? 57343)) with (is_lo (get16 le c0 c1)).
      destruct (negb (is_lo (get16 le c0 c1))); [reflexivity|]. cbn [bind].
      replace (2 * i + 2 + 2) with (2 * (i + 1) + 2) by lia.
      apply (Htail (pair_val (get16 le x y) (get16 le c0 c1)) (i + 1) sk2); [lia|exact Hp2].
  - destruct (is_lo (get16 le x y)); [reflexivity|]. cbn [bind].
    apply (Htail (get16 le x y) i sk1); [lia|exact Hp1].
Qed.

End FromUtf16.

Section FromUtf16Regions.
Local Ltac Zify.zify_post_hook ::= Z.div_mod_to_equations.
Variables (le : bool) (d : data).
Hypothesis Hsz : dsize d < 2 ^ 60.

Lemma from16_region_sim : forall pre r post skip b,
  flat d = pre ++ r ++ post -> r <> [] ->
  0 <= skip <= Zlength r + Zlength post -> (Zlength pre = 0 -> skip = 0) -> tb_ok b -> snd (tb_cur b) = [] ->
  relK8 le post (from16_region d le (skip, b) (Zlength pre) r)
        (G8 le (Zlength pre + skip =? 0) (skipn (Z.to_nat skip) (r ++ post)) (bout b)) /\
  (forall sk b', from16_region d le (skip, b) (Zlength pre) r = Ok (sk, b') -> snd (tb_cur b') = []).
Proof.
  intros pre r post skip b Hflat Hr Hskip Hpre0 Hok Hcur.
  pose proof (Zlength_nonneg pre) as Hp0. pose proof (Zlength_pos r Hr) as Hr0. pose proof (Zlength_nonneg post) as Hq0.
  assert (Ht : Zlength pre + Zlength r + Zlength post < 2 ^ 60)
    by (pose proof Hsz as Hs; unfold dsize in Hs; rewrite Hflat, !Zlength_app in Hs; lia).
  unfold from16_region. cbv zeta.
  assert (HB : exists b2, (if Zlength pre =? 0 then buffer_new b 0 (howmany (Zlength r) 3 * 2) else Ok b) = Ok b2 /\
                          tb_ok b2 /\ bout b2 = bout b /\ (Zlength pre <> 0 -> b2 = b)).
  { destruct (Z.eqb_spec (Zlength pre) 0) as [E|E].
    - destruct (buffer_hint_ok b (howmany (Zlength r) 3 * 2) Hok ltac:(unfold howmany; lia)) as (b1 & E1 & Hok1 & Ho1 & _).
      exists b1. split; [exact E1|]. split; [exact Hok1|]. split; [exact Ho1|]. intros Hc; exfalso; apply Hc, E.
    - exists b. auto. }
  destruct HB as (b2 & EB & Hok2 & Ho2 & Hsame). rewrite EB. cbn [bind]. rewrite <- Ho2.
  destruct (Z.leb_spec (Zlength r) skip) as [Hge|Hlt].
  - assert (Hne : Zlength pre <> 0) by lia. rewrite (Hsame Hne) in *.
    rewrite u64_id by lia. split.
    + cbn [relK8]. split; [lia|]. split; [exact Hok|].
      replace (Zlength pre + skip =? 0) with false by lia.
      rewrite skipn_app_ge_Z by lia. reflexivity.
    + intros sk b' E. inversion E; subst. exact Hcur.
  - assert (Hs0 : 0 <= skip < Zlength r) by lia.
    assert (EL : (let '(s1, size, offset, skip1) :=
                 if 0 <? skip then (skip, Zlength r - skip, u64 (Zlength pre + skip), 0) else (0, Zlength r, Zlength pre, skip) in
               do '(skip2, b3) <- from16_loop d le offset r s1 size
                                    (if negb (size mod 2 =? 0) then size / 2 + 1 else size / 2)
                                    (Z.to_nat (if negb (size mod 2 =? 0) then size / 2 + 1 else size / 2)) 0 skip1 b2;
               do b4 <- buffer_new b3 0 0; Ok (skip2, b4)) =
              (do '(skip2, b3) <- from16_loop d le (Zlength pre + skip) r skip (sz8 r skip) (mx8 r skip)
                                    (Z.to_nat (mx8 r skip)) 0 0 b2;
               do b4 <- buffer_new b3 0 0; Ok (skip2, b4))).
    { unfold mx8, sz8. destruct (Z.ltb_spec 0 skip).
      - rewrite u64_id by lia. reflexivity.
      - assert (skip = 0) by lia. subst skip. rewrite Z.add_0_r, Z.sub_0_r. reflexivity. }
    rewrite EL. clear EL.
    assert (HL := from16_loop_sim le d pre r post Hflat Hsz skip Hs0
                    (Z.to_nat (mx8 r skip)) 0 b2 ltac:(lia) ltac:(unfold sz8; lia) ltac:(lia) Hok2).
    change (2 * 0) with 0 in HL. rewrite Z.add_0_r in HL. change (Z.to_nat 0) with 0%nat in HL.
    change (skipn 0 ?l) with l in HL. unfold S8 in HL. rewrite skipn_app_Z by lia.
    destruct (from16_loop d le (Zlength pre + skip) r skip (sz8 r skip) (mx8 r skip) (Z.to_nat (mx8 r skip)) 0 0 b2)
      as [[sk' b3]| |]; cbn [relK8] in HL; cbn [bind].
    + destruct HL as (Hk1 & Hok3 & Hv).
      destruct (buffer_flush_ok b3 Hok3) as (b4 & E4 & Hok4 & Ho4 & Hh4 & Hc4).
      rewrite E4. cbn [bind]. split.
      * cbn [relK8]. split; [exact Hk1|]. split; [exact Hok4|]. rewrite Ho4. exact Hv.
      * intros sk b' E. inversion E; subst. exact Hc4.
    + split; [exact HL|]. intros; discriminate.
    + contradiction.
Qed.

Lemma from16_regions_sim : forall rest pre skip b,
  flat d = pre ++ flat rest -> Forall (fun r => r <> []) rest ->
  0 <= skip <= Zlength (flat rest) -> (Zlength pre = 0 -> skip = 0) ->
  tb_ok b -> snd (tb_cur b) = [] ->
  match apply_regions (from16_region d le) rest (Zlength pre) (skip, b) with
  | Ok (sk', b') => tb_ok b' /\ snd (tb_cur b') = [] /\
      G8 le (Zlength pre + skip =? 0) (skipn (Z.to_nat skip) (flat rest)) (bout b) = Some (bout b')
  | Null => G8 le (Zlength pre + skip =? 0) (skipn (Z.to_nat skip) (flat rest)) (bout b) = None
  | OOB _ => False
  end.
Proof.
  induction rest as [|r rest IH]; intros pre skip b Hflat Hne Hskip Hpre0 Hok Hcur.
  - cbn [apply_regions]. change (flat []) with (@nil Z) in *. rewrite Zlength_nil in *.
    assert (skip = 0) by lia. subst skip. split; [exact Hok|]. split; [exact Hcur|]. reflexivity.
  - apply Forall_cons_iff in Hne. destruct Hne as [Hr Hne].
    change (flat (r :: rest)) with (r ++ flat rest) in *. rewrite Zlength_app in *.
    cbn [apply_regions].
    destruct (from16_region_sim pre r (flat rest) skip b Hflat Hr Hskip Hpre0 Hok Hcur) as [HR HC].
    destruct (from16_region d le (skip, b) (Zlength pre) r) as [[sk' b']| |]; cbn [relK8] in HR; cbn [bind].
    + destruct HR as (Hk & Hok' & Hv). rewrite Hv.
      pose proof (Zlength_pos r Hr). pose proof (Zlength_nonneg pre).
      specialize (IH (pre ++ r) sk' b'). rewrite Zlength_app in IH.
      replace (Zlength pre + Zlength r + sk' =? 0) with false in IH by lia.
      apply IH; auto; try lia. rewrite <- app_assoc. exact Hflat. eapply HC; reflexivity.
    + exact HR.
    + contradiction.
Qed.
End FromUtf16Regions.

(* UTF-16 (LE or BE) -> UTF-8 on ANY bytes split in ANY way (inside code units, inside surrogate pairs): the result is
   from16_flat of the concatenation, NULL exactly when the flat computation rejects, and the OOB outcome is unreachable.
   No hypothesis on region sizes (see to_utf16_flat).  The returned object has no empty region. *)
Theorem from_utf16_flat : forall le d,
  Forall (fun r => r <> []) d -> dsize d < 2 ^ 60 ->
  flat_res (from_utf16 le d) = match from16_flat le (flat d) with Some x => Ok x | None => Null end /\
  (forall e, from_utf16 le d = Ok e -> nonempty_regions e).
Proof.
  intros le d Hne Hsz. unfold from_utf16.
  assert (H := from16_regions_sim le d Hsz d [] 0 tbuf_init eq_refl Hne
                 ltac:(pose proof (Zlength_nonneg (flat d)); lia) ltac:(auto) tb_ok_init eq_refl).
  change (Zlength (@nil Z)) with 0 in H. change (Z.to_nat 0) with 0%nat in H. change (skipn 0 ?l) with l in H.
  change (0 + 0 =? 0) with true in H. change (bout tbuf_init) with (@nil Z) in H.
  unfold from16_flat.
  destruct (apply_regions (from16_region d le) d 0 (0, tbuf_init)) as [[sk b]| |]; cbn [bind flat_res].
  - destruct H as (Hokb & Hc & Hv). rewrite Hv. unfold bout. rewrite Hc. cbn [rev]. rewrite app_nil_r.
    split; [reflexivity|]. intros e He. inversion He; subst e. apply Hokb.
  - rewrite H. split; [reflexivity|discriminate].
  - contradiction.
Qed.

(* ------------------------------------------------------------------------------------------------ Part E *)

Section RoundTrip.
Local Ltac Zify.zify_post_hook ::= Z.div_mod_to_equations.

(* Unicode scalar values *)
Definition is_scalar (cp : Z) : bool := ((0 <=? cp) && (cp <? 55296)) || ((57344 <=? cp) && (cp <=? 1114111)).
Definition scalar (cp : Z) : Prop := is_scalar cp = true.

(* UTF-8 and UTF-16 encodings of a scalar value, written with the expressions of transform.c *)
Definition utf16_enc (le : bool) (cp : Z) : list Z :=
  if 65536 <=? cp then
    let w := u32 (cp - 65536) in unit16 le (Z.land (Z.shiftr w 10) 1023 + 55296) ++ unit16 le (Z.land w 1023 + 56320)
  else unit16 le (Z.land cp 65535).
Definition utf8_of (cps : list Z) : list Z := flat_map utf8_enc cps.
Definition utf16_of (le : bool) (cps : list Z) : list Z := flat_map (utf16_enc le) cps.

(* ---- decoding the UTF-8 encoding of a scalar value gives the value *)
Definition chk1 (cp : Z) : bool :=
  negb (is_scalar cp) ||
  match utf8_enc cp with
  | [] => false
  | c :: tl => (utf8_length c =? Zlength (c :: tl)) && match seq_val (c :: tl) with Some w => w =? cp | None => false end
  end.

(* finite sweep over the 65536 values below U+10000 (stated domain: hi < 256, lo < 256) *)
Lemma r1_bmp : forall cp, 0 <= cp < 65536 -> chk1 cp = true.
Proof.
  intros cp Hcp.
  assert (Hhi : 0 <= cp / 256 < Z.of_nat 256) by lia. assert (Hlo : 0 <= cp mod 256 < Z.of_nat 256) by lia.
  assert (Hcpe : cp / 256 * 256 + cp mod 256 = cp) by lia.
  assert (H : forallb (fun hi => forallb (fun lo => chk1 (hi * 256 + lo)) (zrange 256)) (zrange 256) = true)
    by (vm_compute; reflexivity).
  pose proof (forallb_zrange2 256 256 (fun hi lo => chk1 (hi * 256 + lo)) H (cp / 256) (cp mod 256) Hhi Hlo) as Hq. clear H.
  cbv beta in Hq. rewrite Hcpe in Hq. exact Hq.
Qed.

Lemma lor_low6 : forall X y, 0 <= X -> 0 <= y < 64 -> Z.lor (Z.shiftl X 6) y = X * 64 + y.
Proof.
  intros X y HX Hy. rewrite Z.shiftl_mul_pow2 by lia. rewrite Z.lor_comm.
  rewrite (lor_disjoint y X 6) by lia. change (2 ^ 6) with 64. lia.
Qed.

Lemma r1_astral : forall cp, 65536 <= cp < 2097152 ->
  exists c tl, utf8_enc cp = c :: tl /\ utf8_length c = Zlength (c :: tl) /\ seq_val (c :: tl) = Some cp.
Proof.
  intros cp Hcp.
  set (a := cp / 262144). set (b := (cp / 4096) mod 64). set (c := (cp / 64) mod 64). set (e := cp mod 64).
  assert (Ha : 0 <= a < 8) by (unfold a; lia). assert (Hb : 0 <= b < 64) by (unfold b; lia).
  assert (Hc : 0 <= c < 64) by (unfold c; lia). assert (He : 0 <= e < 64) by (unfold e; lia).
  assert (S1 : forall a, 0 <= a < 8 -> u8 (Z.lor 240 a) = 240 + a /\ utf8_length (240 + a) = 4 /\ Z.land (240 + a) 7 = a).
  { intros a0 Ha0.
    assert (H : forallb (fun a => (u8 (Z.lor 240 a) =? 240 + a) && (utf8_length (240 + a) =? 4) && (Z.land (240 + a) 7 =? a))
                  (zrange 8) = true) by (vm_compute; reflexivity).
    pose proof (forallb_zrange 8 _ H a0 Ha0) as Hq. clear H. cbv beta in Hq. lia. }
  assert (S2 : forall b, 0 <= b < 64 -> u8 (Z.lor 128 b) = 128 + b /\ Z.land (128 + b) 63 = b).
  { intros b0 Hb0.
    assert (H : forallb (fun b => (u8 (Z.lor 128 b) =? 128 + b) && (Z.land (128 + b) 63 =? b)) (zrange 64) = true)
      by (vm_compute; reflexivity).
    pose proof (forallb_zrange 64 _ H b0 Hb0) as Hq. clear H. cbv beta in Hq. lia. }
  assert (E : utf8_enc cp = [240 + a; 128 + b; 128 + c; 128 + e]).
  { unfold utf8_enc.
    replace (cp <? 128) with false by lia. replace (cp <? 2048) with false by lia.
    replace (cp <? 65536) with false by lia. replace (cp <? 2097152) with true by lia.
    change 63 with (2 ^ 6 - 1). rewrite !land_low by lia. rewrite !Z.shiftr_div_pow2 by lia.
    change (2 ^ 18) with 262144. change (2 ^ 12) with 4096. change (2 ^ 6) with 64.
    fold a b c e.
    rewrite (proj1 (S1 a Ha)), (proj1 (S2 b Hb)), (proj1 (S2 c Hc)), (proj1 (S2 e He)). reflexivity. }
  exists (240 + a), [128 + b; 128 + c; 128 + e]. split; [exact E|].
  destruct (S1 a Ha) as (_ & L4 & La). split; [rewrite L4; reflexivity|].
  unfold seq_val. rewrite L4, La.
  change (4 =? 4) with true. cbv iota. change (Z.to_nat (u8 (4 - 1))) with 3%nat.
  cbn [rc_spec]. change (0 <? Z.of_nat 2) with true. change (0 <? Z.of_nat 1) with true. change (0 <? Z.of_nat 0) with false.
  cbv iota.
  rewrite (proj2 (S2 b Hb)), (proj2 (S2 c Hc)), (proj2 (S2 e He)).
  rewrite (lor_low6 a b) by lia. rewrite (u32_id (Z.shiftl (a * 64 + b) 6)) by (rewrite Z.shiftl_mul_pow2 by lia; lia).
  rewrite (lor_low6 (a * 64 + b) c) by lia.
  rewrite (u32_id (Z.shiftl ((a * 64 + b) * 64 + c) 6)) by (rewrite Z.shiftl_mul_pow2 by lia; lia).
  rewrite (lor_low6 ((a * 64 + b) * 64 + c) e) by lia.
  f_equal. unfold a, b, c, e. lia.
Qed.

Lemma utf8_decode_scalar : forall cp, scalar cp ->
  exists c tl, utf8_enc cp = c :: tl /\ utf8_length c = Zlength (c :: tl) /\ seq_val (c :: tl) = Some cp.
Proof.
  intros cp Hs. unfold scalar in Hs. destruct (Z_lt_le_dec cp 65536) as [Hlt|Hge].
  - assert (H := r1_bmp cp ltac:(unfold is_scalar in Hs; lia)). unfold chk1 in H. rewrite Hs in H. cbn [negb orb] in H.
    destruct (utf8_enc cp) as [|c tl]; [discriminate|]. exists c, tl. split; [reflexivity|].
    destruct (seq_val (c :: tl)); [|rewrite andb_false_r in H; discriminate].
    split; [lia|]. f_equal. lia.
  - apply r1_astral. unfold is_scalar in Hs. lia.
Qed.
(* the text without one leading U+FEFF *)
Definition strip1 (cps : list Z) : list Z :=
  match cps with cp :: t => if cp =? 65279 then t else cps | [] => [] end.

Lemma scalar_not_surrogate : forall cp, scalar cp -> (55296 <=? cp) && (cp <=? 57343) = false.
Proof. intros cp H. unfold scalar, is_scalar in H. lia. Qed.

Lemma emit16_scalar : forall le first cp, scalar cp ->
  emit16 le first cp = Some (if (cp =? 65279) && first then [] else utf16_enc le cp).
Proof.
  intros le first cp H. unfold emit16, utf16_enc. rewrite (scalar_not_surrogate cp H).
  destruct ((cp =? 65279) && first); [reflexivity|]. destruct (65536 <=? cp); reflexivity.
Qed.

Lemma to16_step_scalar : forall le first cp rest, scalar cp ->
  to16_step le first (utf8_enc cp ++ rest) = Some (if (cp =? 65279) && first then [] else utf16_enc le cp, rest).
Proof.
  intros le first cp rest Hs. destruct (utf8_decode_scalar cp Hs) as (c & tl & E & L & Sv).
  rewrite E. change ((c :: tl) ++ rest) with (c :: tl ++ rest). unfold to16_step.
  pose proof (Zlength_nonneg tl) as Htl. pose proof (Zlength_nonneg rest) as Hrl.
  assert (Hl1 : Zlength (c :: tl) = Zlength tl + 1) by (rewrite Zlength_cons; lia).
  assert (Hl2 : Zlength (c :: tl ++ rest) = Zlength tl + 1 + Zlength rest) by (rewrite Zlength_cons, Zlength_app; lia).
  replace (utf8_length c =? 0) with false by lia.
  replace (Zlength (c :: tl ++ rest) <? utf8_length c) with false by lia.
  destruct (seq_val_agree c (tl ++ rest) tl ltac:(lia) ltac:(lia) ltac:(lia)) as [Es _].
  { change (c :: tl ++ rest) with ((c :: tl) ++ rest). apply firstn_app_l_Z. lia. }
  rewrite Es, Sv, (emit16_scalar le first cp Hs).
  f_equal. f_equal. change (c :: tl ++ rest) with ((c :: tl) ++ rest).
  rewrite skipn_app_ge_Z by lia. replace (utf8_length c - Zlength (c :: tl)) with 0 by lia. reflexivity.
Qed.

Lemma utf8_enc_nonempty : forall cp, scalar cp -> utf8_enc cp <> [].
Proof. intros cp Hs. destruct (utf8_decode_scalar cp Hs) as (c & tl & E & _). rewrite E. discriminate. Qed.

Lemma G16_scalars : forall le cps, Forall scalar cps -> forall acc,
  G16 le false (utf8_of cps) acc = Some (acc ++ utf16_of le cps).
Proof.
  intros le. induction cps as [|cp t IH]; intros H acc.
  - cbn. rewrite app_nil_r. reflexivity.
  - apply Forall_cons_iff in H. destruct H as [Hc Ht].
    change (utf8_of (cp :: t)) with (utf8_enc cp ++ utf8_of t).
    change (utf16_of le (cp :: t)) with (utf16_enc le cp ++ utf16_of le t).
    rewrite G16_unfold.
    + rewrite (to16_step_scalar le false cp _ Hc). rewrite andb_false_r. rewrite IH by exact Ht.
      rewrite <- app_assoc. reflexivity.
    + pose proof (utf8_enc_nonempty cp Hc). destruct (utf8_enc cp); [contradiction|discriminate].
Qed.

(* UTF-8 -> UTF-16 of a sequence of scalar values: the encoder's BOM, then the units of the text without one leading
   U+FEFF *)
Theorem to16_flat_scalars : forall le cps, Forall scalar cps ->
  to16_flat le (utf8_of cps) = Some (match cps with [] => [] | _ => bom16 le ++ utf16_of le (strip1 cps) end).
Proof.
  intros le cps H. destruct cps as [|cp t]; [reflexivity|].
  apply Forall_cons_iff in H. destruct H as [Hc Ht].
  change (utf8_of (cp :: t)) with (utf8_enc cp ++ utf8_of t). unfold to16_flat.
  pose proof (utf8_enc_nonempty cp Hc) as Hne.
  destruct (utf8_enc cp ++ utf8_of t) as [|c0 l0] eqn:El; [destruct (utf8_enc cp); [contradiction|discriminate]|].
  rewrite <- El. rewrite G16_unfold by (rewrite El; discriminate).
  rewrite (to16_step_scalar le true cp _ Hc), andb_true_r, (G16_scalars le t Ht).
  f_equal. rewrite <- app_assoc. f_equal. unfold strip1.
  destruct (cp =? 65279); reflexivity.
Qed.

(* ---- UTF-16 *)
Lemma get16_unit16 : forall le v, 0 <= v < 65536 -> exists x y, unit16 le v = [x; y] /\ get16 le x y = v.
Proof.
  intros le v Hv. unfold unit16. cbv zeta. assert (Hu : u16 v = v) by (unfold u16; lia). rewrite Hu.
  assert (H1 : Z.land v 255 = v mod 256) by (change 255 with (2 ^ 8 - 1); apply land_low; lia).
  assert (H2 : Z.shiftr v 8 = v / 256) by (rewrite Z.shiftr_div_pow2 by lia; reflexivity).
  destruct le; eexists; eexists; (split; [reflexivity|]); unfold get16; rewrite H1, H2; lia.
Qed.

Lemma from16_step_scalar : forall le first cp rest, scalar cp ->
  from16_step le first (utf16_enc le cp ++ rest) =
    if (cp =? 65534) && first then None
    else if (cp =? 65279) && first then Some ([], rest)
    else Some (utf8_enc cp, rest).
Proof.
  intros le first cp rest Hs. pose proof Hs as Hs'. unfold scalar, is_scalar in Hs'. unfold utf16_enc.
  destruct (Z.leb_spec 65536 cp) as [Hast|Hbmp].
  - (* a surrogate pair *)
    cbv zeta. assert (Hw : u32 (cp - 65536) = cp - 65536) by (apply u32_id; lia). rewrite Hw.
    set (w := cp - 65536). assert (Hwr : 0 <= w < 1048576) by (unfold w; lia).
    assert (Hhi : Z.land (Z.shiftr w 10) 1023 = w / 1024).
    { change 1023 with (2 ^ 10 - 1). rewrite land_low by lia. rewrite Z.shiftr_div_pow2 by lia. change (2 ^ 10) with 1024. lia. }
    assert (Hlo : Z.land w 1023 = w mod 1024) by (change 1023 with (2 ^ 10 - 1); rewrite land_low by lia; reflexivity).
    rewrite Hhi, Hlo.
    destruct (get16_unit16 le (w / 1024 + 55296) ltac:(lia)) as (x1 & y1 & U1 & G1).
    destruct (get16_unit16 le (w mod 1024 + 56320) ltac:(lia)) as (x2 & y2 & U2 & G2).
    rewrite U1, U2. cbn [app]. unfold from16_step. cbv zeta. rewrite G1, G2.
    replace (w / 1024 + 55296 =? 65534) with false by lia. replace (w / 1024 + 55296 =? 65279) with false by lia.
    cbn [andb]. unfold is_hi, is_lo.
    replace ((55296 <=? w / 1024 + 55296) && (w / 1024 + 55296 <=? 56319)) with true by lia.
    replace ((56320 <=? w mod 1024 + 56320) && (w mod 1024 + 56320 <=? 57343)) with true by lia.
    cbn [negb]. replace (cp =? 65534) with false by lia. replace (cp =? 65279) with false by lia. cbn [andb].
    f_equal. f_equal. f_equal. unfold pair_val.
    replace (w / 1024 + 55296 - 55296) with (w / 1024) by lia.
    rewrite Z.shiftl_mul_pow2 by lia. change (2 ^ 10) with 1024.
    rewrite (u32_id (w / 1024 * 1024)) by lia.
    assert (Hm : Z.land (w mod 1024 + 56320) 1023 = w mod 1024)
      by (change 1023 with (2 ^ 10 - 1); rewrite land_low by lia; change (2 ^ 10) with 1024; lia).
    assert (Hlor : Z.lor (w / 1024 * 1024) (w mod 1024) = w / 1024 * 1024 + w mod 1024).
    { rewrite Z.lor_comm. change (w / 1024 * 1024) with (w / 1024 * 2 ^ 10).
      rewrite (lor_disjoint (w mod 1024) (w / 1024) 10) by (change (2 ^ 10) with 1024; lia). lia. }
    rewrite Hm, Hlor. rewrite u32_id by lia. unfold w. lia.
  - assert (Hl : Z.land cp 65535 = cp) by (change 65535 with (2 ^ 16 - 1); rewrite land_low by lia; change (2 ^ 16) with 65536; lia).
    rewrite Hl. destruct (get16_unit16 le cp ltac:(lia)) as (x & y & U & Gg). rewrite U. cbn [app].
    unfold from16_step. cbv zeta. rewrite Gg. unfold is_hi, is_lo.
    destruct ((cp =? 65534) && first); [reflexivity|]. destruct ((cp =? 65279) && first); [reflexivity|].
    replace ((55296 <=? cp) && (cp <=? 56319)) with false by lia.
    replace ((56320 <=? cp) && (cp <=? 57343)) with false by lia. reflexivity.
Qed.

Lemma utf16_enc_nonempty : forall le cp, scalar cp -> utf16_enc le cp <> [].
Proof.
  intros le cp Hs. unfold utf16_enc, unit16. cbv zeta. destruct (65536 <=? cp); destruct le; discriminate.
Qed.

Lemma G8_scalars : forall le cps, Forall scalar cps -> forall acc,
  G8 le false (utf16_of le cps) acc = Some (acc ++ utf8_of cps).
Proof.
  intros le. induction cps as [|cp t IH]; intros H acc.
  - cbn. rewrite app_nil_r. reflexivity.
  - apply Forall_cons_iff in H. destruct H as [Hc Ht].
    change (utf8_of (cp :: t)) with (utf8_enc cp ++ utf8_of t).
    change (utf16_of le (cp :: t)) with (utf16_enc le cp ++ utf16_of le t).
    rewrite G8_unfold.
    + rewrite (from16_step_scalar le false cp _ Hc). rewrite !andb_false_r. rewrite IH by exact Ht.
      rewrite <- app_assoc. reflexivity.
    + pose proof (utf16_enc_nonempty le cp Hc). destruct (utf16_enc le cp); [contradiction|discriminate].
Qed.

(* UTF-16 -> UTF-8 of BOM + the units of a sequence of scalar values: the BOM is dropped, nothing else *)
Theorem from16_flat_bom_scalars : forall le cps, Forall scalar cps ->
  from16_flat le (bom16 le ++ utf16_of le cps) = Some (utf8_of cps).
Proof.
  intros le cps H. unfold from16_flat.
  assert (Hb : bom16 le = utf16_enc le 65279) by (destruct le; reflexivity).
  assert (Hs : scalar 65279) by reflexivity.
  rewrite Hb. rewrite G8_unfold.
  - rewrite (from16_step_scalar le true 65279 _ Hs). change ((65279 =? 65534) && true) with false.
    change ((65279 =? 65279) && true) with true. cbv iota. rewrite (G8_scalars le cps H). reflexivity.
  - destruct le; discriminate.
Qed.

(* the general statement: a first U+FFFE is rejected, a first U+FEFF dropped *)
Theorem from16_flat_scalars : forall le cps, Forall scalar cps ->
  from16_flat le (utf16_of le cps) =
    match cps with
    | [] => Some []
    | cp :: t => if cp =? 65534 then None else Some (utf8_of (if cp =? 65279 then t else cp :: t))
    end.
Proof.
  intros le cps H. destruct cps as [|cp t]; [reflexivity|].
  apply Forall_cons_iff in H. destruct H as [Hc Ht]. unfold from16_flat.
  change (utf16_of le (cp :: t)) with (utf16_enc le cp ++ utf16_of le t).
  rewrite G8_unfold.
  - rewrite (from16_step_scalar le true cp _ Hc), !andb_true_r.
    destruct (cp =? 65534); [reflexivity|]. destruct (cp =? 65279).
    + rewrite (G8_scalars le t Ht). reflexivity.
    + rewrite (G8_scalars le t Ht). reflexivity.
  - pose proof (utf16_enc_nonempty le cp Hc). destruct (utf16_enc le cp); [contradiction|discriminate].
Qed.

End RoundTrip.

(* ------------------------------------------------------------------------------------------------ through dispatch_data_create_with_transform *)

Section Top.
Local Ltac Zify.zify_post_hook ::= Z.div_mod_to_equations.

Definition fmt16 (le : bool) : Z := if le then F_UTF16LE else F_UTF16BE.

Lemma transform_8_16 : forall le d, transform d F_UTF8 (fmt16 le) = if dsize d =? 0 then Ok d else to_utf16 le d.
Proof. intros [|] d; reflexivity. Qed.
Lemma transform_16_8 : forall le d,
  transform d (fmt16 le) F_UTF8 = if dsize d =? 0 then Ok d else (do t <- from_utf16 le d; to_utf8_without_bom t).
Proof. intros [|] d; reflexivity. Qed.

(* what _dispatch_transform_to_utf8_without_bom removes *)
Definition strip_bom8 (l : list Z) : list Z :=
  match l with
  | a :: b :: c :: t => if (a =? 239) && (b =? 187) && (c =? 191) then t else l
  | _ => l
  end.

Lemma to_utf8_without_bom_flat : forall t, exists t', to_utf8_without_bom t = Ok t' /\ flat t' = strip_bom8 (flat t).
Proof.
  intros t. unfold to_utf8_without_bom. destruct (Z_lt_le_dec (dsize t) 3) as [Hs|Hl].
  - rewrite sub_map_none by lia. exists t. split; [reflexivity|].
    unfold dsize in Hs. destruct (flat t) as [|a [|b [|c tl]]]; try reflexivity.
    rewrite !Zlength_cons in Hs. pose proof (Zlength_nonneg tl). lia.
  - destruct (sub_map_some t 0 3 ltac:(lia) ltac:(lia) ltac:(lia)) as (m & Em & Hm1 & Hm2). rewrite Em.
    change (Z.to_nat 0) with 0%nat in Hm2. change (skipn 0 (flat t)) with (flat t) in Hm2.
    destruct m as [|m0 [|m1 [|m2 tm]]]; try (rewrite ?Zlength_cons, Zlength_nil in Hm1; lia).
    unfold dsize in Hl. destruct (flat t) as [|a [|b [|c tl]]] eqn:Ef; try (rewrite ?Zlength_cons, Zlength_nil in Hl; lia).
    change (firstn (Z.to_nat 3) (m0 :: m1 :: m2 :: tm)) with [m0; m1; m2] in Hm2.
    change (firstn (Z.to_nat 3) (a :: b :: c :: tl)) with [a; b; c] in Hm2. inversion Hm2; subst m0 m1 m2.
    unfold rdo, rd. change (0 <? 0) with false. change (1 <? 0) with false. change (2 <? 0) with false.
    change (Z.to_nat 0) with 0%nat. change (Z.to_nat 1) with 1%nat. change (Z.to_nat 2) with 2%nat.
    cbn [nth_error bind]. unfold strip_bom8.
    destruct ((a =? 239) && (b =? 187) && (c =? 191)).
    + eexists. split; [reflexivity|]. unfold drop_bytes. rewrite flat_create, Ef. reflexivity.
    + exists t. split; [reflexivity|exact Ef].
Qed.

Lemma strip_bom8_utf8 : forall cps, Forall scalar cps -> strip_bom8 (utf8_of cps) = utf8_of (strip1 cps).
Proof.
  intros [|cp t] H; [reflexivity|]. apply Forall_cons_iff in H. destruct H as [Hc Ht].
  change (utf8_of (cp :: t)) with (utf8_enc cp ++ utf8_of t). unfold strip1.
  destruct (Z.eqb_spec cp 65279) as [->|Hn].
  - change (utf8_enc 65279) with [239; 187; 191]. reflexivity.
  - change (utf8_of (cp :: t)) with (utf8_enc cp ++ utf8_of t).
    destruct (utf8_decode_scalar cp Hc) as (c & tl & E & L & Sv). rewrite E.
    change ((c :: tl) ++ utf8_of t) with (c :: tl ++ utf8_of t). unfold strip_bom8.
    destruct (tl ++ utf8_of t) as [|b [|c' t']] eqn:Et; try reflexivity.
    destruct ((c =? 239) && (b =? 187) && (c' =? 191)) eqn:T; [exfalso|reflexivity].
    assert (c = 239 /\ b = 187 /\ c' = 191) as (-> & -> & ->) by lia.
    change (utf8_length 239) with 3 in L.
    assert (Htl : Zlength tl = 2) by (rewrite Zlength_cons in L; lia).
    destruct tl as [|x [|y [|z tl']]]; rewrite ?Zlength_cons, ?Zlength_nil in Htl; try lia;
      try (pose proof (Zlength_nonneg tl'); lia).
    cbn [app] in Et. inversion Et; subst. apply Hn.
    change (seq_val [239; 187; 191]) with (Some 65279) in Sv. inversion Sv. reflexivity.
Qed.

(* a data object: no empty region (data.c never builds one), size below 2^60.  NO bound on region sizes. *)
Definition wf_utf (d : data) : Prop := nonempty_regions d /\ dsize d < 2 ^ 60.

(* C20, UTF clause.  For every sequence cps of Unicode scalar values, every split d of its UTF-8 encoding into regions
   (inside multi-byte sequences too) and every split d' of the produced UTF-16 text (inside code units and surrogate
   pairs too): the conversion succeeds, produces BOM + the code units of cps without one leading U+FEFF -- whatever the
   split --, and converting back gives cps without up to TWO leading U+FEFF: the first is replaced by the encoder's own
   BOM (transform.c:362), which the decoder drops (transform.c:466); a second one is removed by
   _dispatch_transform_to_utf8_without_bom (transform.c:571).  Regions may have any size. *)
Theorem utf_roundtrip_all_splits : forall le cps d,
  Forall scalar cps -> flat d = utf8_of cps -> wf_utf d ->
  exists e, transform d F_UTF8 (fmt16 le) = Ok e /\
            flat e = match cps with [] => [] | _ => bom16 le ++ utf16_of le (strip1 cps) end /\
    forall d', flat d' = flat e -> wf_utf d' ->
      flat_res (transform d' (fmt16 le) F_UTF8) = Ok (utf8_of (strip1 (strip1 cps))).
Proof.
  intros le cps d Hs Hd (Hne & Hsz). rewrite transform_8_16.
  assert (Hstrip : Forall scalar (strip1 cps)).
  { destruct cps as [|cp t]; [constructor|]. unfold strip1. destruct (cp =? 65279); [|exact Hs].
    apply Forall_cons_iff in Hs. tauto. }
  destruct (Z.eqb_spec (dsize d) 0) as [E|E].
  - assert (Hfd : flat d = []) by (apply Zlength_nil_inv; exact E).
    assert (Hc : cps = []).
    { destruct cps as [|cp t]; [reflexivity|]. exfalso. apply Forall_cons_iff in Hs.
      apply (utf8_enc_nonempty cp (proj1 Hs)). rewrite Hfd in Hd. change (utf8_of (cp :: t)) with (utf8_enc cp ++ utf8_of t) in Hd.
      destruct (utf8_enc cp); [reflexivity|discriminate]. }
    subst cps. exists d. split; [reflexivity|]. split; [exact Hfd|].
    intros d' Hd' _. rewrite transform_16_8.
    assert (E' : dsize d' = 0) by (unfold dsize; rewrite Hd', Hfd; reflexivity).
    rewrite E'. change (0 =? 0) with true. cbv iota. cbn [flat_res]. rewrite Hd', Hfd. reflexivity.
  - assert (HF := proj1 (to_utf16_flat le d Hne Hsz)). rewrite Hd, (to16_flat_scalars le cps Hs) in HF.
    destruct (to_utf16 le d) as [e| |]; cbn [flat_res] in HF; try discriminate.
    exists e. split; [reflexivity|]. inversion HF as [He]. split; [reflexivity|].
    assert (Hcne : cps <> []) by (intro Hc; subst cps; apply E; unfold dsize; rewrite Hd; reflexivity).
    destruct cps as [|cp0 t0]; [contradiction|].
    intros d' Hd' (Hne' & Hsz'). rewrite transform_16_8.
    assert (E' : dsize d' <> 0).
    { unfold dsize. rewrite Hd', He. intro Hc. apply Zlength_nil_inv in Hc. destruct le; discriminate. }
    destruct (Z.eqb_spec (dsize d') 0); [contradiction|].
    assert (HF' := proj1 (from_utf16_flat le d' Hne' Hsz')).
    rewrite Hd', He, (from16_flat_bom_scalars le _ Hstrip) in HF'.
    destruct (from_utf16 le d') as [t| |]; cbn [flat_res] in HF'; try discriminate. cbn [bind].
    destruct (to_utf8_without_bom_flat t) as (t' & Et & Ft). rewrite Et. cbn [flat_res].
    assert (Hft : flat t = utf8_of (strip1 (cp0 :: t0))) by (injection HF'; auto).
    rewrite Ft, Hft, (strip_bom8_utf8 _ Hstrip). reflexivity.
Qed.

(* arbitrary bytes, arbitrary split: UTF-8 -> UTF-16 is a function of the concatenation; NULL exactly when the flat
   computation rejects (bad lead byte, truncated sequence, encoded surrogate); never an out-of-bounds access *)
Theorem utf8_to_utf16_total : forall le d, wf_utf d ->
  flat_res (transform d F_UTF8 (fmt16 le)) =
    (if dsize d =? 0 then Ok (flat d) else match to16_flat le (flat d) with Some x => Ok x | None => Null end) /\
  (forall site, transform d F_UTF8 (fmt16 le) <> OOB site).
Proof.
  intros le d (Hne & Hsz). rewrite transform_8_16.
  assert (HF := proj1 (to_utf16_flat le d Hne Hsz)). split.
  - destruct (dsize d =? 0); [reflexivity|exact HF].
  - intros site. destruct (dsize d =? 0); [discriminate|]. intro Hc. rewrite Hc in HF. cbn in HF.
    destruct (to16_flat le (flat d)); discriminate.
Qed.

(* arbitrary bytes, arbitrary split: UTF-16 -> UTF-8 likewise (lone or reversed surrogates, an odd number of bytes, a
   leading U+FFFE give NULL) *)
Theorem utf16_to_utf8_total : forall le d, wf_utf d ->
  flat_res (transform d (fmt16 le) F_UTF8) =
    (if dsize d =? 0 then Ok (flat d)
     else match from16_flat le (flat d) with Some x => Ok (strip_bom8 x) | None => Null end) /\
  (forall site, transform d (fmt16 le) F_UTF8 <> OOB site).
Proof.
  intros le d (Hne & Hsz). rewrite transform_16_8.
  assert (HF := proj1 (from_utf16_flat le d Hne Hsz)).
  destruct (dsize d =? 0); [split; [reflexivity|discriminate]|].
  destruct (from_utf16 le d) as [t| |]; cbn [flat_res bind] in *.
  - destruct (to_utf8_without_bom_flat t) as (t' & Et & Ft). rewrite Et. cbn [flat_res].
    destruct (from16_flat le (flat d)); inversion HF; subst. split; [rewrite Ft; reflexivity|discriminate].
  - destruct (from16_flat le (flat d)); [discriminate|]. split; [reflexivity|discriminate].
  - destruct (from16_flat le (flat d)); discriminate.
Qed.

(* DISPATCH_DATA_FORMAT_TYPE_UTF_ANY as input: looks at the first two bytes only *)
Definition detect_flat (l : list Z) : option Z :=
  match l with
  | b0 :: b1 :: _ => Some (if b0 + 256 * b1 =? 65279 then F_UTF16LE else if b0 + 256 * b1 =? 65534 then F_UTF16BE else F_UTF8)
  | _ => None
  end.

Theorem utf_any_detect : forall d out,
  transform d F_UTF_ANY out = match detect_flat (flat d) with Some f => transform d f out | None => Null end.
Proof.
  intros d out. unfold transform at 1. change (f_type F_UTF_ANY =? 16) with true. cbv iota.
  unfold detect_utf, detect_flat. destruct (Z_lt_le_dec (dsize d) 2) as [Hs|Hl].
  - rewrite sub_map_none by lia. cbn [bind].
    unfold dsize in Hs. destruct (flat d) as [|a [|b tl]]; try reflexivity.
    rewrite !Zlength_cons in Hs. pose proof (Zlength_nonneg tl). lia.
  - destruct (sub_map_some d 0 2 ltac:(lia) ltac:(lia) ltac:(lia)) as (m & Em & Hm1 & Hm2). rewrite Em.
    change (Z.to_nat 0) with 0%nat in Hm2. change (skipn 0 (flat d)) with (flat d) in Hm2.
    destruct m as [|m0 [|m1 tm]]; try (rewrite ?Zlength_cons, Zlength_nil in Hm1; lia).
    unfold dsize in Hl. destruct (flat d) as [|a [|b tl]] eqn:Ef; try (rewrite ?Zlength_cons, Zlength_nil in Hl; lia).
    change (firstn (Z.to_nat 2) (m0 :: m1 :: tm)) with [m0; m1] in Hm2.
    change (firstn (Z.to_nat 2) (a :: b :: tl)) with [a; b] in Hm2. inversion Hm2; subst m0 m1.
    unfold rdo, rd. change (0 <? 0) with false. change (1 <? 0) with false.
    change (Z.to_nat 0) with 0%nat. change (Z.to_nat 1) with 1%nat. cbn [nth_error bind].
    destruct (a + 256 * b =? 65279); [reflexivity|]. destruct (a + 256 * b =? 65534); reflexivity.
Qed.
End Top.

(* ------------------------------------------------------------------------------------------------ arbitrary input: NULL or accepted by the inverse *)

Section Accepted.
Local Ltac Zify.zify_post_hook ::= Z.div_mod_to_equations.

(* ---- whatever UTF-16 -> UTF-8 returns is the UTF-8 encoding of a sequence of scalar values *)

Lemma get16_range : forall le b0 b1, byte b0 -> byte b1 -> 0 <= get16 le b0 b1 < 65536.
Proof. intros le b0 b1 H0 H1. unfold byte in *. unfold get16. destruct le; lia. Qed.

Lemma pair_val_scalar : forall ch ch2, is_hi ch = true -> is_lo ch2 = true -> scalar (pair_val ch ch2).
Proof.
  intros ch ch2 Hh Hl. unfold is_hi, is_lo in *. unfold pair_val.
  rewrite Z.shiftl_mul_pow2 by lia. change (2 ^ 10) with 1024.
  rewrite (u32_id ((ch - 55296) * 1024)) by lia.
  assert (Hm : Z.land ch2 1023 = ch2 mod 1024) by (change 1023 with (2 ^ 10 - 1); apply land_low; lia).
  rewrite Hm.
  assert (Hlor : Z.lor ((ch - 55296) * 1024) (ch2 mod 1024) = (ch - 55296) * 1024 + ch2 mod 1024).
  { rewrite Z.lor_comm. change ((ch - 55296) * 1024) with ((ch - 55296) * 2 ^ 10).
    rewrite (lor_disjoint (ch2 mod 1024) (ch - 55296) 10) by (change (2 ^ 10) with 1024; lia). lia. }
  rewrite Hlor, u32_id by lia. unfold scalar, is_scalar. lia.
Qed.

Lemma from16_step_scalars : forall le first l out rest, bytes l ->
  from16_step le first l = Some (out, rest) ->
  bytes rest /\ (out = [] \/ exists cp, scalar cp /\ out = utf8_enc cp).
Proof.
  intros le first l out rest Hb H. unfold from16_step in H.
  destruct l as [|b0 [|b1 tl]]; try discriminate.
  apply Forall_cons_iff in Hb. destruct Hb as [H0 Hb]. apply Forall_cons_iff in Hb. destruct Hb as [H1 Hb].
  pose proof (get16_range le b0 b1 H0 H1) as Hr. cbv zeta in H.
  destruct ((get16 le b0 b1 =? 65534) && first); [discriminate|].
  destruct ((get16 le b0 b1 =? 65279) && first); [inversion H; subst; split; [exact Hb|left; reflexivity]|].
  destruct (is_hi (get16 le b0 b1)) eqn:Eh.
  - destruct tl as [|c0 [|c1 tl']]; try discriminate.
    apply Forall_cons_iff in Hb. destruct Hb as [Hc0 Hb]. apply Forall_cons_iff in Hb. destruct Hb as [Hc1 Hb].
    destruct (is_lo (get16 le c0 c1)) eqn:El; cbn [negb] in H; [|discriminate].
    inversion H; subst. split; [exact Hb|]. right. eexists. split; [|reflexivity]. apply pair_val_scalar; assumption.
  - destruct (is_lo (get16 le b0 b1)) eqn:El; [discriminate|]. inversion H; subst. split; [exact Hb|].
    right. exists (get16 le b0 b1). split; [|reflexivity]. unfold is_hi, is_lo in *. unfold scalar, is_scalar. lia.
Qed.

Lemma from16_floop_scalars : forall le fuel first l acc V, bytes l ->
  from16_floop le fuel first l acc = Some V -> exists cps, Forall scalar cps /\ V = acc ++ utf8_of cps.
Proof.
  intros le. induction fuel as [|f IH]; intros first l acc V Hb H.
  - destruct l; [|discriminate]. inversion H; subst. exists []. split; [constructor|]. cbn. rewrite app_nil_r. reflexivity.
  - destruct l as [|b tl]; [inversion H; subst; exists []; split; [constructor|cbn; rewrite app_nil_r; reflexivity]|].
    cbn [from16_floop] in H. destruct (from16_step le first (b :: tl)) as [[out rest]|] eqn:Es; [|discriminate].
    destruct (from16_step_scalars le first _ out rest Hb Es) as [Hbr Ho].
    destruct (IH false rest (acc ++ out) V Hbr H) as (cps & Hs & Ev).
    destruct Ho as [->|(cp & Hcp & ->)].
    + exists cps. rewrite app_nil_r in Ev. auto.
    + exists (cp :: cps). split; [constructor; assumption|]. rewrite Ev, <- app_assoc. reflexivity.
Qed.

(* arbitrary UTF-16 input (any bytes): whatever the transform returns, the inverse transform accepts *)
Theorem utf16_to_utf8_accepted : forall le l V, bytes l -> from16_flat le l = Some V ->
  exists U, to16_flat le (strip_bom8 V) = Some U.
Proof.
  intros le l V Hb H. unfold from16_flat, G8 in H.
  destruct (from16_floop_scalars le _ true l [] V Hb H) as (cps & Hs & Ev). cbn [app] in Ev. subst V.
  rewrite (strip_bom8_utf8 cps Hs).
  assert (Hstrip : Forall scalar (strip1 cps)).
  { destruct cps as [|cp t]; [constructor|]. unfold strip1. destruct (cp =? 65279); [|exact Hs].
    apply Forall_cons_iff in Hs. tauto. }
  rewrite (to16_flat_scalars le _ Hstrip). eauto.
Qed.

(* ---- whatever UTF-8 -> UTF-16 returns is BOM + a sequence of well-formed UTF-16 items *)

Definition good_item (le : bool) (it : list Z) : Prop :=
  (exists v, 0 <= v < 65536 /\ is_hi v = false /\ is_lo v = false /\ it = unit16 le v) \/
  (exists h l, is_hi h = true /\ is_lo l = true /\ it = unit16 le h ++ unit16 le l).

Lemma rc_spec_nonneg : forall n l w v, 0 <= w -> rc_spec l n w = Some v -> 0 <= v.
Proof.
  induction n as [|n IH]; intros l w v Hw H; cbn [rc_spec] in H.
  - inversion H; subst. exact Hw.
  - destruct l as [|b l']; [discriminate|]. cbv zeta in H. apply IH in H; [exact H|].
    assert (H0 : 0 <= Z.lor w (Z.land b 63)) by (apply Z.lor_nonneg; split; [exact Hw|apply Z.land_nonneg; right; lia]).
    destruct (0 <? Z.of_nat n); [unfold u32; lia|exact H0].
Qed.

Lemma seq_val_nonneg : forall l v, seq_val l = Some v -> 0 <= v.
Proof.
  intros l v H. unfold seq_val in H. destruct l as [|b0 l']; [discriminate|]. cbv zeta in H.
  apply rc_spec_nonneg in H; [exact H|].
  repeat match goal with |- context [if ?c then _ else _] => destruct c end;
    try (rewrite Z.shiftl_nonneg); try (apply Z.land_nonneg; right; lia); lia.
Qed.

Lemma emit16_good : forall le first wch out, 0 <= wch -> emit16 le first wch = Some out ->
  out = [] \/ good_item le out.
Proof.
  intros le first wch out Hw H. unfold emit16 in H.
  destruct ((wch =? 65279) && first); [inversion H; auto|].
  destruct ((55296 <=? wch) && (wch <=? 57343)) eqn:Es; [discriminate|].
  destruct (Z.leb_spec 65536 wch) as [Ha|Hb].
  - cbv zeta in H. inversion H; subst. right. right.
    eexists; eexists. split; [|split; [|reflexivity]]; unfold is_hi, is_lo.
    + assert (0 <= Z.land (Z.shiftr (u32 (wch - 65536)) 10) 1023 < 1024)
        by (change 1023 with (2 ^ 10 - 1); rewrite land_low by lia; change (2 ^ 10) with 1024; lia). lia.
    + assert (0 <= Z.land (u32 (wch - 65536)) 1023 < 1024)
        by (change 1023 with (2 ^ 10 - 1); rewrite land_low by lia; change (2 ^ 10) with 1024; lia). lia.
  - inversion H; subst. right. left. exists wch.
    assert (Hl : Z.land wch 65535 = wch) by (change 65535 with (2 ^ 16 - 1); rewrite land_low by lia; change (2 ^ 16) with 65536; lia).
    rewrite Hl. unfold is_hi, is_lo. repeat split; lia.
Qed.

Lemma to16_floop_good : forall le fuel first l acc U,
  to16_floop le fuel first l acc = Some U -> exists items, Forall (good_item le) items /\ U = acc ++ concat items.
Proof.
  intros le. induction fuel as [|f IH]; intros first l acc U H.
  - destruct l; [|discriminate]. inversion H; subst. exists []. split; [constructor|]. cbn. rewrite app_nil_r. reflexivity.
  - destruct l as [|b tl]; [inversion H; subst; exists []; split; [constructor|cbn; rewrite app_nil_r; reflexivity]|].
    cbn [to16_floop] in H. destruct (to16_step le first (b :: tl)) as [[out rest]|] eqn:Es; [|discriminate].
    destruct (IH false rest (acc ++ out) U H) as (items & Hg & Eu).
    unfold to16_step in Es.
    destruct (utf8_length b =? 0); [discriminate|]. destruct (Zlength (b :: tl) <? utf8_length b); [discriminate|].
    destruct (seq_val (b :: tl)) as [wch|] eqn:Ev; [|discriminate].
    destruct (emit16 le first wch) as [o|] eqn:Ee; [|discriminate]. inversion Es; subst o rest.
    destruct (emit16_good le first wch out (seq_val_nonneg _ _ Ev) Ee) as [->|Hgo].
    + exists items. rewrite app_nil_r in Eu. auto.
    + exists (out :: items). split; [constructor; assumption|]. rewrite Eu, <- app_assoc. reflexivity.
Qed.

Lemma G8_good : forall le items acc, Forall (good_item le) items ->
  exists V, G8 le false (concat items) acc = Some V.
Proof.
  intros le. induction items as [|it items IH]; intros acc H.
  - exists acc. reflexivity.
  - apply Forall_cons_iff in H. destruct H as [Hi Hr]. cbn [concat].
    destruct Hi as [(v & Hv & Hh & Hl & ->)|(h & l & Hh & Hl & ->)].
    + destruct (get16_unit16 le v Hv) as (x & y & U & Gv). rewrite U. cbn [app].
      rewrite G8_unfold by discriminate. unfold from16_step. cbv zeta. rewrite Gv, Hh, Hl, !andb_false_r.
      apply IH, Hr.
    + assert (Hhr : 0 <= h < 65536) by (unfold is_hi in Hh; lia). assert (Hlr : 0 <= l < 65536) by (unfold is_lo in Hl; lia).
      destruct (get16_unit16 le h Hhr) as (x1 & y1 & U1 & G1). destruct (get16_unit16 le l Hlr) as (x2 & y2 & U2 & G2).
      rewrite U1, U2. cbn [app]. rewrite G8_unfold by discriminate. unfold from16_step. cbv zeta.
      rewrite G1, G2, Hh, Hl, !andb_false_r. cbn [negb]. apply IH, Hr.
Qed.

(* arbitrary UTF-8 input (any bytes): whatever the transform returns, the inverse transform accepts *)
Theorem utf8_to_utf16_accepted : forall le l U, to16_flat le l = Some U -> exists V, from16_flat le U = Some V.
Proof.
  intros le l U H. unfold to16_flat in H. destruct l as [|c tl]; [inversion H; subst; exists []; reflexivity|].
  unfold G16 in H. destruct (to16_floop_good le _ true (c :: tl) (bom16 le) U H) as (items & Hg & ->).
  unfold from16_flat.
  assert (Hb : bom16 le = utf16_enc le 65279) by (destruct le; reflexivity).
  rewrite Hb, G8_unfold by (destruct le; discriminate).
  rewrite (from16_step_scalar le true 65279 _ ltac:(reflexivity)).
  change ((65279 =? 65534) && true) with false. change ((65279 =? 65279) && true) with true. cbv iota.
  apply G8_good, Hg.
Qed.
End Accepted.

Lemma flat_res_ok : forall r l, flat_res r = Ok l -> exists t, r = Ok t /\ flat t = l.
Proof. intros [t| |] l H; cbn in H; try discriminate. inversion H. eauto. Qed.

(* C20 "NULL or accepted by the inverse", UTF-8 -> UTF-16, ARBITRARY input bytes and split: if the transform returns
   data, the inverse transform accepts it however it is split *)
Theorem utf8_to_utf16_inverse_accepts : forall le d e, wf_utf d ->
  transform d F_UTF8 (fmt16 le) = Ok e ->
  forall d', flat d' = flat e -> wf_utf d' -> exists t, transform d' (fmt16 le) F_UTF8 = Ok t.
Proof.
  intros le d e Hwf He d' Hd' Hwf'.
  destruct (utf8_to_utf16_total le d Hwf) as [HT _]. rewrite He in HT. cbn [flat_res] in HT.
  destruct (utf16_to_utf8_total le d' Hwf') as [HT' _].
  destruct (Z.eqb_spec (dsize d) 0) as [E|E].
  - assert (Hfd : flat d = []) by (apply Zlength_nil_inv; exact E).
    assert (E' : dsize d' = 0) by (unfold dsize; rewrite Hd'; inversion HT as [H1]; rewrite H1, Hfd; reflexivity).
    rewrite E' in HT'. change (0 =? 0) with true in HT'. cbv iota in HT'.
    destruct (flat_res_ok _ _ HT') as (t & Et & _). eauto.
  - destruct (to16_flat le (flat d)) as [U|] eqn:EU; [|discriminate]. inversion HT as [H1].
    destruct (utf8_to_utf16_accepted le _ _ EU) as [V EV].
    rewrite Hd', H1, EV in HT'. destruct (dsize d' =? 0); destruct (flat_res_ok _ _ HT') as (t & Et & _); eauto.
Qed.

(* the same for UTF-16 -> UTF-8 (input: arbitrary bytes) *)
Theorem utf16_to_utf8_inverse_accepts : forall le d e, wf_utf d -> bytes (flat d) ->
  transform d (fmt16 le) F_UTF8 = Ok e ->
  forall d', flat d' = flat e -> wf_utf d' -> exists t, transform d' F_UTF8 (fmt16 le) = Ok t.
Proof.
  intros le d e Hwf Hb He d' Hd' Hwf'.
  destruct (utf16_to_utf8_total le d Hwf) as [HT _]. rewrite He in HT. cbn [flat_res] in HT.
  destruct (utf8_to_utf16_total le d' Hwf') as [HT' _].
  destruct (Z.eqb_spec (dsize d) 0) as [E|E].
  - assert (Hfd : flat d = []) by (apply Zlength_nil_inv; exact E).
    assert (E' : dsize d' = 0) by (unfold dsize; rewrite Hd'; inversion HT as [H1]; rewrite H1, Hfd; reflexivity).
    rewrite E' in HT'. change (0 =? 0) with true in HT'. cbv iota in HT'.
    destruct (flat_res_ok _ _ HT') as (t & Et & _). eauto.
  - destruct (from16_flat le (flat d)) as [V|] eqn:EV; [|discriminate]. inversion HT as [H1].
    destruct (utf16_to_utf8_accepted le _ _ Hb EV) as [U EU].
    rewrite Hd', H1, EU in HT'. destruct (dsize d' =? 0); destruct (flat_res_ok _ _ HT') as (t & Et & _); eauto.
Qed.

(* the two remaining text pairs that involve no conversion *)
Theorem utf8_to_utf8_strips_bom : forall d,
  exists t, transform d F_UTF8 F_UTF8 = Ok t /\ flat t = strip_bom8 (flat d).
Proof.
  intros d. assert (E : transform d F_UTF8 F_UTF8 = if dsize d =? 0 then Ok d else to_utf8_without_bom d) by reflexivity.
  rewrite E. destruct (Z.eqb_spec (dsize d) 0) as [Hz|Hz].
  - exists d. split; [reflexivity|]. assert (Hf : flat d = []) by (apply Zlength_nil_inv; exact Hz). rewrite Hf. reflexivity.
  - apply to_utf8_without_bom_flat.
Qed.

Theorem none_to_none_identity : forall d, transform d F_NONE F_NONE = Ok d.
Proof. intros d. assert (E : transform d F_NONE F_NONE = if dsize d =? 0 then Ok d else Ok d) by reflexivity. rewrite E. destruct (dsize d =? 0); reflexivity. Qed.

(* ------------------------------------------------------------------------------------------------ the RETURNED object
   is itself a well-formed object (no empty region, bounded size), so every theorem above that speaks about "any split
   d' of the returned text" applies in particular to d' := the returned object *)

Section Returned.
Local Ltac Zify.zify_post_hook ::= Z.div_mod_to_equations.

Lemma unit16_len : forall le v, Zlength (unit16 le v) = 2.
Proof. intros [|] v; reflexivity. Qed.

Lemma emit16_len : forall le first wch out, emit16 le first wch = Some out -> Zlength out <= 4.
Proof.
  intros le first wch out H. unfold emit16 in H.
  destruct ((wch =? 65279) && first); [inversion H; subst; rewrite Zlength_nil; lia|].
  destruct ((55296 <=? wch) && (wch <=? 57343)); [discriminate|].
  destruct (65536 <=? wch); inversion H; subst; rewrite ?Zlength_app, !unit16_len; lia.
Qed.

Lemma to16_floop_len : forall le fuel first l acc U,
  to16_floop le fuel first l acc = Some U -> Zlength U <= Zlength acc + 4 * Zlength l.
Proof.
  intros le. induction fuel as [|f IH]; intros first l acc U H; pose proof (Zlength_nonneg l) as Hl.
  - destruct l; [|discriminate]. inversion H; subst. lia.
  - destruct l as [|b tl]; [inversion H; subst; lia|].
    cbn [to16_floop] in H. destruct (to16_step le first (b :: tl)) as [[out rest]|] eqn:Es; [|discriminate].
    apply IH in H. unfold to16_step in Es.
    destruct (Z.eqb_spec (utf8_length b) 0) as [E0|E0]; [discriminate|].
    destruct (Z.ltb_spec (Zlength (b :: tl)) (utf8_length b)); [discriminate|].
    destruct (seq_val (b :: tl)) as [wch|]; [|discriminate].
    destruct (emit16 le first wch) as [o|] eqn:Ee; [|discriminate]. inversion Es; subst o rest.
    apply emit16_len in Ee. rewrite Zlength_app in H.
    assert (Hbs : 1 <= utf8_length b) by (destruct (utf8_length_cases b) as [?|[?|[?|[?|?]]]]; lia).
    rewrite Zlength_skipn_Z in H by lia. lia.
Qed.

Lemma to16_flat_len : forall le l U, to16_flat le l = Some U -> Zlength U <= 4 * Zlength l + 2.
Proof.
  intros le l U H. unfold to16_flat in H. destruct l as [|c tl]; [inversion H; subst; rewrite !Zlength_nil; lia|].
  unfold G16 in H. apply to16_floop_len in H. unfold bom16 in H. rewrite unit16_len in H. lia.
Qed.

Lemma utf8_enc_len : forall w, Zlength (utf8_enc w) <= 4.
Proof. intros w. unfold utf8_enc. repeat match goal with |- context [if ?c then _ else _] => destruct c end; cbn; lia. Qed.

Lemma from16_floop_len : forall le fuel first l acc V,
  from16_floop le fuel first l acc = Some V -> Zlength V <= Zlength acc + 2 * Zlength l.
Proof.
  intros le. induction fuel as [|f IH]; intros first l acc V H; pose proof (Zlength_nonneg l) as Hl.
  - destruct l; [|discriminate]. inversion H; subst. lia.
  - destruct l as [|b0 tl]; [inversion H; subst; lia|].
    cbn [from16_floop] in H. destruct (from16_step le first (b0 :: tl)) as [[out rest]|] eqn:Es; [|discriminate].
    apply IH in H. rewrite Zlength_app in H. unfold from16_step in Es.
    destruct tl as [|b1 tl]; [discriminate|]. cbv zeta in Es.
    destruct ((get16 le b0 b1 =? 65534) && first); [discriminate|].
    destruct ((get16 le b0 b1 =? 65279) && first).
    { inversion Es; subst. rewrite !Zlength_cons, Zlength_nil in *. lia. }
    destruct (is_hi (get16 le b0 b1)).
    + destruct tl as [|c0 [|c1 tl']]; try discriminate. destruct (negb (is_lo (get16 le c0 c1))); [discriminate|].
      inversion Es; subst. pose proof (utf8_enc_len (pair_val (get16 le b0 b1) (get16 le c0 c1))).
      rewrite !Zlength_cons in *. lia.
    + destruct (is_lo (get16 le b0 b1)); [discriminate|]. inversion Es; subst.
      pose proof (utf8_enc_len (get16 le b0 b1)). rewrite !Zlength_cons in *. lia.
Qed.

Lemma from16_flat_len : forall le l V, from16_flat le l = Some V -> Zlength V <= 2 * Zlength l.
Proof. intros le l V H. unfold from16_flat, G8 in H. apply from16_floop_len in H. rewrite Zlength_nil in H. lia. Qed.

Lemma strip_bom8_len : forall l, Zlength (strip_bom8 l) <= Zlength l.
Proof.
  intros [|a [|b [|c t]]]; cbn [strip_bom8]; try lia. destruct ((a =? 239) && (b =? 187) && (c =? 191)); [|lia].
  rewrite !Zlength_cons. lia.
Qed.

Lemma to_utf8_without_bom_nonempty : forall t t', nonempty_regions t -> to_utf8_without_bom t = Ok t' -> nonempty_regions t'.
Proof.
  intros t t' Hne H. unfold to_utf8_without_bom in H. destruct (sub_map t 0 3) as [m|]; [|inversion H; subst; exact Hne].
  destruct (rdo 579 m 0) as [b0| |]; cbn [bind] in H; try discriminate.
  destruct (rdo 579 m 1) as [b1| |]; cbn [bind] in H; try discriminate.
  destruct (rdo 579 m 2) as [b2| |]; cbn [bind] in H; try discriminate.
  destruct ((b0 =? 239) && (b1 =? 187) && (b2 =? 191)); inversion H; subst; [apply nonempty_create|exact Hne].
Qed.

(* the object UTF-8 -> UTF-16 returns is well formed *)
Theorem utf8_to_utf16_output_wf : forall le d e, wf_utf d -> dsize d < 2 ^ 57 ->
  transform d F_UTF8 (fmt16 le) = Ok e -> wf_utf e.
Proof.
  intros le d e (Hne & Hsz) Hs He. rewrite transform_8_16 in He.
  destruct (Z.eqb_spec (dsize d) 0); [inversion He; subst; split; assumption|].
  destruct (to_utf16_flat le d Hne Hsz) as [HF HN]. split; [apply HN, He|].
  rewrite He in HF. cbn [flat_res] in HF. destruct (to16_flat le (flat d)) as [U|] eqn:EU; [|discriminate].
  inversion HF as [H1]. apply to16_flat_len in EU. unfold dsize in *. rewrite H1. lia.
Qed.

(* the object UTF-16 -> UTF-8 returns is well formed *)
Theorem utf16_to_utf8_output_wf : forall le d e, wf_utf d -> dsize d < 2 ^ 58 ->
  transform d (fmt16 le) F_UTF8 = Ok e -> wf_utf e.
Proof.
  intros le d e (Hne & Hsz) Hs He. rewrite transform_16_8 in He.
  destruct (Z.eqb_spec (dsize d) 0); [inversion He; subst; split; assumption|].
  destruct (from_utf16_flat le d Hne Hsz) as [HF HN].
  destruct (from_utf16 le d) as [t| |] eqn:Et; cbn [bind] in He; try discriminate.
  cbn [flat_res] in HF. destruct (from16_flat le (flat d)) as [V|] eqn:EV; [|discriminate]. inversion HF as [H1].
  split; [eapply to_utf8_without_bom_nonempty; [apply HN; reflexivity|exact He]|].
  destruct (to_utf8_without_bom_flat t) as (t' & E' & F'). rewrite He in E'. inversion E'; subst t'.
  apply from16_flat_len in EV. pose proof (strip_bom8_len (flat t)). unfold dsize in *. rewrite F', H1 in *. lia.
Qed.

(* C20 "returns NULL or data the inverse transform accepts", stated about THE RETURNED OBJECT e itself *)
Theorem utf8_to_utf16_returned_accepted : forall le d e, wf_utf d -> dsize d < 2 ^ 57 ->
  transform d F_UTF8 (fmt16 le) = Ok e -> exists t, transform e (fmt16 le) F_UTF8 = Ok t.
Proof.
  intros le d e Hwf Hs He.
  exact (utf8_to_utf16_inverse_accepts le d e Hwf He e eq_refl (utf8_to_utf16_output_wf le d e Hwf Hs He)).
Qed.

Theorem utf16_to_utf8_returned_accepted : forall le d e, wf_utf d -> dsize d < 2 ^ 58 -> bytes (flat d) ->
  transform d (fmt16 le) F_UTF8 = Ok e -> exists t, transform e F_UTF8 (fmt16 le) = Ok t.
Proof.
  intros le d e Hwf Hs Hb He.
  exact (utf16_to_utf8_inverse_accepts le d e Hwf Hb He e eq_refl (utf16_to_utf8_output_wf le d e Hwf Hs He)).
Qed.

(* the round trip applied to the returned object *)
Theorem utf_roundtrip_returned : forall le cps d, Forall scalar cps -> flat d = utf8_of cps -> wf_utf d -> dsize d < 2 ^ 57 ->
  exists e, transform d F_UTF8 (fmt16 le) = Ok e /\ wf_utf e /\
            flat_res (transform e (fmt16 le) F_UTF8) = Ok (utf8_of (strip1 (strip1 cps))).
Proof.
  intros le cps d Hs Hd Hwf Hsz. destruct (utf_roundtrip_all_splits le cps d Hs Hd Hwf) as (e & He & Hf & Hall).
  exists e. split; [exact He|]. assert (Hwe := utf8_to_utf16_output_wf le d e Hwf Hsz He).
  split; [exact Hwe|]. apply Hall; [reflexivity|exact Hwe].
Qed.
End Returned.
