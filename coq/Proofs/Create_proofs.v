(* Create_proofs.v — what a queue created from ANY attribute with ANY kind of target reports (Model/Create.v), and the remaining
   constructor commutations of Model/Attr.v.  The attribute domain is finite (the table: ATTR_COUNT entries and NULL): statements
   about `create_with_target` are checked by vm_compute over the whole table for each shape of target and lifted with
   forallb_forall; the dependence on the label and on the identity of a non-root target is removed by parametricity lemmas. *)
From Coq Require Import ZArith Bool List Lia.
From Verif Require Import Word Gen_consts Gen_qos Gen_dqstate Attr Attr_proofs Create.
Import ListNotations.
Local Open Scope Z_scope.

(* ------------------------------------------------------------------ the words: make / decode round trip (all QoS, all relative priorities) *)
Lemma priority_roundtrip_sweep :
  forallb (fun q => forallb (fun rp => forallb (fun fl =>
     (priority_qos (Z.lor (priority_make q rp) fl) =? q) && (priority_relpri (Z.lor (priority_make q rp) fl) =? rp) &&
     manually_selected (Z.lor (priority_make q rp) (Z.land fl PRI_FLAG_OVERCOMMIT)))
     [0; PRI_FLAG_OVERCOMMIT; PRI_FLAG_INHERITED; PRI_FLAG_OVERCOMMIT + PRI_FLAG_INHERITED])
     [0; -1; -2; -3; -4; -5; -6; -7; -8; -9; -10; -11; -12; -13; -14; -15]) [1; 2; 3; 4; 5; 6] = true.
Proof. vm_compute. reflexivity. Qed.
(* a QoS and a relative priority stored in dq_priority come back unchanged (the relpri is stored as (relpri - 1) & 0xff and read
   back through int8_t), whatever the OVERCOMMIT / INHERITED flags; and such a priority counts as selected by the client *)
Theorem priority_roundtrip q rp fl : 1 <= q <= 6 -> -15 <= rp <= 0 ->
  In fl [0; PRI_FLAG_OVERCOMMIT; PRI_FLAG_INHERITED; PRI_FLAG_OVERCOMMIT + PRI_FLAG_INHERITED] ->
  priority_qos (Z.lor (priority_make q rp) fl) = q /\ priority_relpri (Z.lor (priority_make q rp) fl) = rp /\
  manually_selected (Z.lor (priority_make q rp) (Z.land fl PRI_FLAG_OVERCOMMIT)) = true.
Proof.
  intros Hq Hr Hf. pose proof priority_roundtrip_sweep as S. rewrite forallb_forall in S.
  assert (Iq : In q [1; 2; 3; 4; 5; 6]) by (simpl; lia).
  assert (Ir : In rp [0; -1; -2; -3; -4; -5; -6; -7; -8; -9; -10; -11; -12; -13; -14; -15]) by (simpl; lia).
  specialize (S q Iq). rewrite forallb_forall in S. specialize (S rp Ir). rewrite forallb_forall in S. specialize (S fl Hf).
  rewrite !andb_true_iff, !Z.eqb_eq in S. tauto.
Qed.

(* ------------------------------------------------------------------ the whole table, every shape of target *)
Definition shapes : list tgt :=
  [TNull; TRoot 0; TRoot 1; TRoot 2; TRoot 3; TRoot 4; TRoot 5; TRoot 6; TRoot 7; TRoot 8; TRoot 9; TRoot 10; TRoot 11; TLane 1; TOther 1].
Lemma create_sweep :
  forallb (fun t => forallb (fun a => meets_spec 1 a t true && meets_spec 1 a t false) ((-1) :: zrange ATTR_COUNT)) shapes = true.
Proof. vm_compute. reflexivity. Qed.

Lemma create_shape a t lg : valid_attr a -> In t shapes -> meets_spec 1 a t lg = true.
Proof.
  intros Ha Ht. pose proof create_sweep as S. rewrite forallb_forall in S. specialize (S t Ht). rewrite forallb_forall in S.
  assert (Ia : In a ((-1) :: zrange ATTR_COUNT)) by (destruct Ha as [->|Ha]; [left; reflexivity|right; apply In_zrange; exact Ha]).
  specialize (S a Ia). apply andb_true_iff in S. destruct lg; tauto.
Qed.

(* parametricity: the label enters only through `label != NULL` and comes back as it is; a non-root target only through
   "not NULL, not a root queue" and comes back as it is *)
Definition relabel (l : Z) (c : created) : created :=
  {| c_target := c_target c; c_priority := c_priority c; c_width := c_width c; c_state := c_state c; c_dqf := c_dqf c; c_label := l |}.
Definition retarget (id : Z) (c : created) : created :=
  {| c_target := id; c_priority := c_priority c; c_width := c_width c; c_state := c_state c; c_dqf := c_dqf c; c_label := c_label c |}.
Lemma nz_of_ne x : x <> 0 -> nz x = true.
Proof. intros H. unfold nz. destruct (Z.eqb_spec x 0); [contradiction|reflexivity]. Qed.

Lemma create_label_param l a t lg : l <> 0 ->
  create_with_target l a t lg = option_map (relabel l) (create_with_target 1 a t lg).
Proof.
  intros Hl. unfold create_with_target. cbv zeta. rewrite (nz_of_ne l Hl). change (nz 1) with true.
  destruct (nz (overcommit (to_info a)) && match t with TLane _ => true | _ => false end); [reflexivity|].
  destruct t; try reflexivity. destruct (nz (overcommit (to_info a))); reflexivity.
Qed.

Lemma not_root_addr id : 0 < id < 4096 -> is_root_addr id = false.
Proof. intros H. unfold is_root_addr. destruct (Z.leb_spec 4096 id); [lia|reflexivity]. Qed.

Lemma create_lane_param l a id lg : 0 < id < 4096 ->
  create_with_target l a (TLane id) lg = option_map (retarget id) (create_with_target l a (TLane 1) lg).
Proof.
  intros H. unfold create_with_target, inherit_priority. cbv beta iota zeta. rewrite (nz_of_ne id) by lia. change (nz 1) with true. cbv beta iota.
  rewrite (not_root_addr id H). change (is_root_addr 1) with false.
  destruct (nz (overcommit (to_info a)) && true); reflexivity.
Qed.
Lemma create_other_param l a id lg : 0 < id < 4096 ->
  create_with_target l a (TOther id) lg = option_map (retarget id) (create_with_target l a (TOther 1) lg).
Proof.
  intros H. unfold create_with_target, inherit_priority. cbv beta iota zeta.
  destruct (nz (overcommit (to_info a))); cbv beta iota; [reflexivity|].
  rewrite (nz_of_ne id) by lia. change (nz 1) with true. cbv beta iota.
  rewrite (not_root_addr id H). change (is_root_addr 1) with false. reflexivity.
Qed.

Definition tgt_ok (t : tgt) : Prop :=
  match t with TNull => True | TRoot r => 0 <= r < DISPATCH_ROOT_QUEUE_COUNT | TLane id | TOther id => 0 < id < 4096 end.

(* for every attribute of the table (and NULL), every target, either flavour of the entry point: the creation is refused exactly
   when the specification says so, and otherwise the queue reports the label it was given, a non-NULL target, and the class,
   relative priority, target, width, activity and autorelease frequency of `spec_report` *)
Theorem create_meets_spec l a t lg : valid_attr a -> l <> 0 -> tgt_ok t ->
  match create_with_target l a t lg with
  | None => spec_report a t = None
  | Some c => get_label c = l /\ c_target c <> 0 /\ spec_report a t = Some (observed_report c)
  end.
Proof.
  intros Ha Hl Ht.
  (* reduce to the swept shapes *)
  assert (K : forall t0, In t0 shapes ->
     match create_with_target l a t0 lg with
     | None => spec_report a t0 = None
     | Some c => get_label c = l /\ c_target c <> 0 /\ spec_report a t0 = Some (observed_report c)
     end).
  { intros t0 Hin. pose proof (create_shape a t0 lg Ha Hin) as M. unfold meets_spec in M.
    rewrite (create_label_param l a t0 lg Hl).
    destruct (create_with_target 1 a t0 lg) as [c|]; destruct (spec_report a t0) as [r|]; try discriminate; [|reflexivity].
    simpl option_map. rewrite !andb_true_iff, negb_true_iff, Z.eqb_neq in M. destruct M as [[M1 _] M3].
    split; [reflexivity|]. split; [exact M3|]. f_equal.
    assert (E : forall x y, zlist_eqb' x y = true -> x = y).
    { induction x as [|u x IH]; destruct y as [|v y]; simpl; try discriminate; [reflexivity|].
      rewrite andb_true_iff, Z.eqb_eq. intros [-> H]. f_equal. apply IH. exact H. }
    symmetry. apply E. exact M1. }
  destruct t as [|r|id|id]; simpl in Ht.
  - apply K. simpl. tauto.
  - apply K. unfold DISPATCH_ROOT_QUEUE_COUNT in Ht.
    assert (r = 0 \/ r = 1 \/ r = 2 \/ r = 3 \/ r = 4 \/ r = 5 \/ r = 6 \/ r = 7 \/ r = 8 \/ r = 9 \/ r = 10 \/ r = 11) as H by lia.
    simpl. intuition (subst; tauto).
  - rewrite (create_lane_param l a id lg Ht). specialize (K (TLane 1)). rewrite (create_label_param l a (TLane 1) lg Hl) in *.
    assert (Hin : In (TLane 1) shapes) by (simpl; tauto). specialize (K Hin).
    assert (S1 : spec_report a (TLane id) = option_map (fun r => match r with [x1; x2; _; x4; x5; x6] => [x1; x2; id; x4; x5; x6] | _ => r end)
                                                    (spec_report a (TLane 1))).
    { unfold spec_report. cbv zeta. destruct (nz (overcommit (to_info a)) && true); reflexivity. }
    rewrite S1. destruct (create_with_target 1 a (TLane 1) lg) as [c|]; simpl option_map in *.
    + destruct K as [K1 [K2 K3]]. split; [exact K1|]. split; [simpl; lia|]. rewrite K3. reflexivity.
    + rewrite K. reflexivity.
  - rewrite (create_other_param l a id lg Ht). specialize (K (TOther 1)). rewrite (create_label_param l a (TOther 1) lg Hl) in *.
    assert (Hin : In (TOther 1) shapes) by (simpl; tauto). specialize (K Hin).
    assert (S1 : spec_report a (TOther id) = option_map (fun r => match r with [x1; x2; _; x4; x5; x6] => [x1; x2; id; x4; x5; x6] | _ => r end)
                                                     (spec_report a (TOther 1))).
    { unfold spec_report. cbv zeta. destruct (nz (overcommit (to_info a)) && true); reflexivity. }
    rewrite S1. destruct (create_with_target 1 a (TOther 1) lg) as [c|]; simpl option_map in *.
    + destruct K as [K1 [K2 K3]]. split; [exact K1|]. split; [simpl; lia|]. rewrite K3. reflexivity.
    + rewrite K. reflexivity.
Qed.

(* the creation is refused exactly for an overcommit attribute with a target that is not a global root queue *)
Theorem create_refused_iff l a t lg : valid_attr a -> l <> 0 -> tgt_ok t ->
  (create_with_target l a t lg = None <->
   overcommit (to_info a) <> 0 /\ match t with TLane _ | TOther _ => True | _ => False end).
Proof.
  intros Ha Hl Ht. pose proof (create_meets_spec l a t lg Ha Hl Ht) as M.
  assert (S : spec_report a t = None <-> overcommit (to_info a) <> 0 /\ match t with TLane _ | TOther _ => True | _ => False end).
  { unfold spec_report. cbv zeta. unfold nz. destruct (Z.eqb_spec (overcommit (to_info a)) 0) as [E|E]; simpl.
    - split; [discriminate|intros [H _]; contradiction].
    - destruct t; simpl; split; try discriminate; try tauto; intros [_ []]. }
  destruct (create_with_target l a t lg) as [c|].
  - destruct M as [_ [_ M]]. rewrite <- S, M. split; discriminate.
  - rewrite <- S. tauto.
Qed.

(* ------------------------------------------------------------------ the attribute constructors seen through a created queue *)
Lemma spec_inactive a t r : valid_attr a -> spec_report (make_initially_inactive a) t = Some r -> nth 4 r 0 = 1.
Proof.
  intros Ha. destruct (ctor_inactive a Ha) as [E _]. unfold spec_report. cbv zeta. rewrite E. cbn [inactive set_inactive].
  destruct (nz _ && _); [discriminate|]. intros [= <-]. reflexivity.
Qed.
Theorem created_from_inactive_ctor l a t lg c : valid_attr a -> l <> 0 -> tgt_ok t ->
  create_with_target l (make_initially_inactive a) t lg = Some c -> is_inactive c = true.
Proof.
  intros Ha Hl Ht E. destruct (ctor_inactive a Ha) as [_ Hv].
  pose proof (create_meets_spec l _ t lg Hv Hl Ht) as M. rewrite E in M. destruct M as [_ [_ M]].
  pose proof (spec_inactive a t _ Ha M) as N. simpl in N. destruct (is_inactive c); [reflexivity|discriminate].
Qed.
Lemma spec_autorelease a f t r : valid_attr a -> 0 <= f < AF -> spec_report (make_with_autorelease a f) t = Some r ->
  nth 5 r 0 = (if f =? 2 then DQF_AUTORELEASE_NEVER else if f =? 1 then DQF_AUTORELEASE_ALWAYS else 0).
Proof.
  intros Ha Hf. destruct (ctor_autorelease a f Ha Hf) as [E _]. unfold spec_report. cbv zeta. rewrite E. cbn [autorelease set_autorelease].
  destruct (nz _ && _); [discriminate|]. intros [= <-]. reflexivity.
Qed.
Theorem created_from_autorelease_ctor l a f t lg c : valid_attr a -> 0 <= f < AF -> l <> 0 -> tgt_ok t ->
  create_with_target l (make_with_autorelease a f) t lg = Some c ->
  autorelease_bits c = (if f =? 2 then DQF_AUTORELEASE_NEVER else if f =? 1 then DQF_AUTORELEASE_ALWAYS else 0).
Proof.
  intros Ha Hf Hl Ht E. destruct (ctor_autorelease a f Ha Hf) as [_ Hv].
  pose proof (create_meets_spec l _ t lg Hv Hl Ht) as M. rewrite E in M. destruct M as [_ [_ M]].
  exact (spec_autorelease a f t _ Ha Hf M).
Qed.

(* ------------------------------------------------------------------ the constructor pairs Attr_proofs.v does not state on attributes *)
Lemma ctors_commute_qos_autorelease a cls rp f : valid_attr a -> class_valid cls rp = true -> 0 <= f < AF ->
  make_with_autorelease (make_with_qos_class a cls rp) f = make_with_qos_class (make_with_autorelease a f) cls rp.
Proof.
  intros Ha Hv Hf. destruct (ctor_qos a cls rp Ha Hv) as [E1 _]. destruct (ctor_autorelease a f Ha Hf) as [E2 _].
  assert (L : make_with_autorelease (make_with_qos_class a cls rp) f =
              from_info (set_autorelease (set_qos (to_info a) (qos_of_class cls) rp) f)).
  { unfold make_with_autorelease. rewrite E1. reflexivity. }
  assert (R : make_with_qos_class (make_with_autorelease a f) cls rp =
              from_info (set_qos (set_autorelease (to_info a) f) (qos_of_class cls) rp)).
  { unfold make_with_qos_class. rewrite Hv, E2. reflexivity. }
  rewrite L, R. reflexivity.
Qed.
Lemma ctors_commute_inactive_autorelease a f : valid_attr a -> 0 <= f < AF ->
  make_with_autorelease (make_initially_inactive a) f = make_initially_inactive (make_with_autorelease a f).
Proof.
  intros Ha Hf. destruct (ctor_inactive a Ha) as [E1 _]. destruct (ctor_autorelease a f Ha Hf) as [E2 _].
  assert (L : make_with_autorelease (make_initially_inactive a) f = from_info (set_autorelease (set_inactive (to_info a)) f)).
  { unfold make_with_autorelease. rewrite E1. reflexivity. }
  assert (R : make_initially_inactive (make_with_autorelease a f) = from_info (set_inactive (set_autorelease (to_info a) f))).
  { unfold make_initially_inactive. rewrite E2. reflexivity. }
  rewrite L, R. reflexivity.
Qed.
Lemma ctors_commute_overcommit_autorelease a oc f : valid_attr a -> 0 <= f < AF ->
  make_with_autorelease (make_with_overcommit a oc) f = make_with_overcommit (make_with_autorelease a f) oc.
Proof.
  intros Ha Hf. destruct (ctor_overcommit a oc Ha) as [E1 _]. destruct (ctor_autorelease a f Ha Hf) as [E2 _].
  assert (L : make_with_autorelease (make_with_overcommit a oc) f =
              from_info (set_autorelease (set_overcommit (to_info a) (if oc then 1 else 2)) f)).
  { unfold make_with_autorelease. rewrite E1. reflexivity. }
  assert (R : make_with_overcommit (make_with_autorelease a f) oc =
              from_info (set_overcommit (set_autorelease (to_info a) f) (if oc then 1 else 2))).
  { unfold make_with_overcommit. rewrite E2. reflexivity. }
  rewrite L, R. reflexivity.
Qed.
(* the same constructor twice: the last one wins *)
Lemma ctors_last_wins a cls rp cls' rp' oc oc' f f' : valid_attr a ->
  class_valid cls rp = true -> class_valid cls' rp' = true -> 0 <= f < AF -> 0 <= f' < AF ->
  make_with_qos_class (make_with_qos_class a cls rp) cls' rp' = make_with_qos_class a cls' rp' /\
  make_with_overcommit (make_with_overcommit a oc) oc' = make_with_overcommit a oc' /\
  make_with_autorelease (make_with_autorelease a f) f' = make_with_autorelease a f' /\
  make_initially_inactive (make_initially_inactive a) = make_initially_inactive a.
Proof.
  intros Ha Hv Hv' Hf Hf'.
  destruct (ctor_qos a cls rp Ha Hv) as [E1 _]. destruct (ctor_overcommit a oc Ha) as [E2 _].
  destruct (ctor_autorelease a f Ha Hf) as [E3 _]. destruct (ctor_inactive a Ha) as [E4 _].
  split; [|split; [|split]].
  - assert (L : make_with_qos_class (make_with_qos_class a cls rp) cls' rp' =
                from_info (set_qos (set_qos (to_info a) (qos_of_class cls) rp) (qos_of_class cls') rp')).
    { unfold make_with_qos_class at 1. rewrite Hv', E1. reflexivity. }
    rewrite L. unfold make_with_qos_class. rewrite Hv'. reflexivity.
  - assert (L : make_with_overcommit (make_with_overcommit a oc) oc' =
                from_info (set_overcommit (set_overcommit (to_info a) (if oc then 1 else 2)) (if oc' then 1 else 2))).
    { unfold make_with_overcommit at 1. rewrite E2. reflexivity. }
    rewrite L. reflexivity.
  - assert (L : make_with_autorelease (make_with_autorelease a f) f' = from_info (set_autorelease (set_autorelease (to_info a) f) f')).
    { unfold make_with_autorelease at 1. rewrite E3. reflexivity. }
    rewrite L. reflexivity.
  - assert (L : make_initially_inactive (make_initially_inactive a) = from_info (set_inactive (set_inactive (to_info a)))).
    { unfold make_initially_inactive at 1. rewrite E4. reflexivity. }
    rewrite L. reflexivity.
Qed.
