(* SyncWait_proofs.v — the invariant of Proofs/SyncWait_inv.v holds in every reachable state of the synchronous
   hand-off model (any number of threads, any interleaving, spurious CAS failures and futex returns included), and
   the consequences claimed in Properties_C05_sync.v. *)
From Coq Require Import ZArith Bool List Lia.
From Verif Require Import Word Conc Gen_consts Gen_dqstate Gen_lanesites SyncWait SyncWait_word SyncWait_inv.
Import ListNotations.
Local Open Scope Z_scope.

(* ---- the model's site lists are the ones the translator reads from the source ---- *)
Lemma sites_event_signal : model_sites_event_signal = f_dispatch_thread_event_signal_sites.
Proof. reflexivity. Qed.
Lemma sites_event_wait : model_sites_event_wait = f_dispatch_thread_event_wait_sites.
Proof. reflexivity. Qed.
Lemma sites_event_wait_slow : model_sites_event_wait_slow = f_dispatch_thread_event_wait_slow_sites.
Proof. reflexivity. Qed.
Lemma sites_async_and_wait_invoke : model_sites_async_and_wait_invoke = f_dispatch_async_and_wait_invoke_sites.
Proof. reflexivity. Qed.
Lemma sites_waiter_wake : model_sites_event_signal = f_dispatch_waiter_wake_wlh_anon_sites.
Proof. reflexivity. Qed.
Lemma sites_push_item : model_sites_push_item = f_dispatch_queue_push_item_sites.
Proof. reflexivity. Qed.
Lemma sites_pop_head : model_sites_pop_head = f_dispatch_queue_pop_head_sites.
Proof. reflexivity. Qed.
Lemma sites_fast_path : model_sites_fast_path = f_dispatch_queue_try_acquire_barrier_sync_and_suspend_sites.
Proof. reflexivity. Qed.
Lemma sites_class_barrier_complete : model_sites_class_barrier_complete = f_dispatch_lane_class_barrier_complete_sites.
Proof. reflexivity. Qed.

(* ---- invariance under re-labelling of program points inside a class ---- *)
Lemma ginv_ext C C' s : (forall x, C' x = C x) -> ginv C s -> ginv C' s.
Proof.
  intros E [G1 G2 G3 G4 G5 G6 G7 G8]. constructor; auto.
  - intros h Hh. rewrite E. apply G3; exact Hh.
  - intros t Ht. rewrite E. apply G4; exact Ht.
  - intros e He. destruct (G6 e He) as (h & H1 & H2 & H3). exists h. rewrite E. split; [exact H1|]. split; [exact H2|].
    unfold cur_ok in *. rewrite E. exact H3.
Qed.

Lemma waitinv_ext C C' s t : (forall x, C' x = C x) -> waitinv C s t -> waitinv C' s t.
Proof.
  intros E. unfold waitinv. destruct (ph s t); auto; rewrite !E; auto.
Qed.

Lemma tinv_ext C C' s t : (forall x, C' x = C x) -> tinv C s t -> tinv C' s t.
Proof.
  intros E [T1 T2 T3 T4 T5 T6 T7 T8 T9 T10 T11 T12 T13 T14 T15 T16].
  constructor; rewrite ?E; auto.
  - intros H. apply (waitinv_ext C C'); auto.
  - intros H. destruct (T11 H) as [A B]. split; [exact A|]. intros Hs. destruct (B Hs) as [B1 B2]. split; [exact B1|].
    intros Hp. destruct (B2 Hp) as [d Hd]. exists d. rewrite E. exact Hd.
Qed.

Lemma InvP_ext C C' s : (forall x, C' x = C x) -> InvP C s -> InvP C' s.
Proof. intros E [G T]. split; [apply (ginv_ext C C'); auto|]. intros t. apply (tinv_ext C C'); auto. Qed.

Lemma Inv_init : Inv init_state.
Proof.
  split.
  - constructor; unfold init_state; cbn [st holder token rootq running overlap early_ret cur lst is_some waiters filter map];
      try discriminate; auto.
    + exact init_word_inv.
    + constructor.
  - intros t. constructor; unfold init_state, waitinv, item0;
      cbn [pcs cls holdpc tokpc wst cst incall sigof wakeof runof curpc dbwpc sleeppc wfpc c_hold c_tok c_wst c_cst c_incall
           c_sig c_wake c_run c_cur c_dbw c_sleep c_wf holder token running cur ph ev slp ist runs remote is_sigd];
      try discriminate; auto; try (intros; discriminate).
    + split; discriminate.
    + intros _. repeat split; discriminate.
Qed.

(* ---- tactics ---- *)
Ltac sproj :=
  cbn [st lst tailz rootq pcs ev slp token holder cur ph ist runs remote running overlap early_ret
       set_st set_list set_rootq set_pc set_ev set_slp set_holder set_token set_cur set_ph set_item set_running set_early].
Ltac sproj_in H :=
  cbn [st lst tailz rootq pcs ev slp token holder cur ph ist runs remote running overlap early_ret
       set_st set_list set_rootq set_pc set_ev set_slp set_holder set_token set_cur set_ph set_item set_running set_early] in H.
Ltac cproj :=
  cbn [cls holdpc tokpc wst cst incall sigof wakeof runof curpc dbwpc sleeppc wfpc c_hold c_tok c_wst c_cst c_incall c_sig
       c_wake c_run c_cur c_dbw c_sleep c_wf cont_hold cont_wst cont_cst cont_work cont_sync pk_cont okcont okenq
       cont_pc after_pop].
Ltac cproj_in H :=
  cbn [cls holdpc tokpc wst cst incall sigof wakeof runof curpc dbwpc sleeppc wfpc c_hold c_tok c_wst c_cst c_incall c_sig
       c_wake c_run c_cur c_dbw c_sleep c_wf cont_hold cont_wst cont_cst cont_work cont_sync pk_cont okcont okenq
       cont_pc after_pop] in H.

Definition CC (s : gst) : Z -> pcls := fun x => cls (pcs s x).

Lemma CC_set_pc_same s t p : CC (set_pc s t p) t = cls p.
Proof. unfold CC. sproj. rewrite upd_same. reflexivity. Qed.
Lemma CC_set_pc_other s t p u : u <> t -> CC (set_pc s t p) u = CC s u.
Proof. intros H. unfold CC. sproj. rewrite upd_other by exact H. reflexivity. Qed.

(* the invariant does not look at the list links, the tail word or the root-queue counter beyond g_rootq *)
Lemma waitinv_frame C C' s s' u :
  (forall x, c_sig (C' x) = c_sig (C x)) -> (forall x, c_run (C' x) = c_run (C x)) ->
  holder s' = holder s -> cur s' = cur s -> ph s' u = ph s u ->
  ist s' u = ist s u -> runs s' u = runs s u -> remote s' u = remote s u ->
  waitinv C s u -> waitinv C' s' u.
Proof.
  intros Es Er Eh Ec Ep Ei Eru Erm. unfold waitinv, handed_or_done, item0. rewrite Ep, Eh, Ec, Ei, Eru, Erm.
  destruct (ph s u); auto; rewrite ?Es, ?Er; auto.
Qed.

Lemma tinv_frame C C' s s' u :
  C' u = C u ->
  (forall x, c_sig (C' x) = c_sig (C x)) -> (forall x, c_run (C' x) = c_run (C x)) ->
  (forall x, c_wake (C' x) = c_wake (C x)) ->
  holder s' = holder s -> (token s' = Some (Some u) <-> token s = Some (Some u)) ->
  (running s = Some u -> running s' = Some u) ->
  cur s' = cur s -> (forall x, ph s' x = ph s x) -> ev s' u = ev s u -> slp s' u = slp s u ->
  ist s' u = ist s u -> runs s' u = runs s u -> remote s' u = remote s u ->
  tinv C s u -> tinv C' s' u.
Proof.
  intros Eu Es Er Ew Eh Et Eru Ec Ep Ee Esl Ei Ern Erm [T1 T2 T3 T4 T5 T6 T7 T8 T9 T10 T11 T12 T13 T14 T15 T16].
  constructor; rewrite ?Eu, ?Eh, ?Ec, ?Ep, ?Ee, ?Esl; unfold item0 in *; rewrite ?Ei, ?Ern, ?Erm; auto.
  - rewrite Et. exact T2.
  - intros w H. rewrite Ep. auto.
  - intros w H H0. rewrite Ep. auto.
  - intros H. apply (waitinv_frame C C' s s'); auto.
  - intros H. destruct (T11 H) as [A B]. split; [exact A|]. intros Hs. destruct (B Hs) as [B1 B2]. split; [exact B1|].
    intros Hp. destruct (B2 Hp) as [d Hd]. exists d. rewrite Ew. exact Hd.
Qed.

Record same_ghost (s s' : gst) : Prop := {
  sg_st : st s' = st s; sg_rootq : rootq s' = rootq s; sg_token : token s' = token s; sg_holder : holder s' = holder s;
  sg_cur : cur s' = cur s; sg_running : running s' = running s; sg_overlap : overlap s' = overlap s;
  sg_early : early_ret s' = early_ret s; sg_ph : forall x, ph s' x = ph s x; sg_ev : forall x, ev s' x = ev s x;
  sg_slp : forall x, slp s' x = slp s x; sg_ist : forall x, ist s' x = ist s x; sg_runs : forall x, runs s' x = runs s x;
  sg_remote : forall x, remote s' x = remote s x
}.

Lemma entry_ok_ph s s' e : (forall x, ph s' x = ph s x) -> entry_ok s e -> entry_ok s' e.
Proof. intros E. unfold entry_ok. rewrite E. auto. Qed.

Lemma ginv_same C s s' : same_ghost s s' -> Forall (entry_ok s') (lst s') -> NoDup (waiters (lst s')) -> ginv C s -> ginv C s'.
Proof.
  intros [E1 E2 E3 E4 E5 E6 E7 E8 E9 E10 E11 E12 E13 E14] L N [G1 G2 G3 G4 G5 G6 G7 G8].
  constructor; rewrite ?E1, ?E2, ?E3, ?E4, ?E5, ?E6, ?E7, ?E8; auto.
  - intros h Hh. destruct (G3 h Hh) as [V D]. split; [exact V|]. rewrite E9, E14. exact D.
  - intros e He. destruct (G6 e He) as (h & H1 & H2 & H3). exists h. split; [exact H1|]. split; [exact H2|].
    unfold cur_ok in *. rewrite E9. exact H3.
Qed.

Lemma tinv_same C s s' u : same_ghost s s' -> tinv C s u -> tinv C s' u.
Proof.
  intros [E1 E2 E3 E4 E5 E6 E7 E8 E9 E10 E11 E12 E13 E14]. apply tinv_frame; auto. rewrite E3. tauto. rewrite E6. auto.
Qed.

(* a step that changes nothing the invariant looks at and keeps the thread inside its class *)
Lemma local_step s s1 t p' :
  same_ghost s s1 -> Forall (entry_ok s1) (lst s1) -> NoDup (waiters (lst s1)) ->
  cls p' = cls (pcs s t) -> pcs s1 = pcs s -> Inv s -> Inv (set_pc s1 t p').
Proof.
  intros SG L N Ec Ep [G T].
  assert (SG' : same_ghost s (set_pc s1 t p')) by (destruct SG; constructor; sproj; auto).
  assert (E : forall x, CC (set_pc s1 t p') x = CC s x).
  { intros x. destruct (Z.eq_dec x t) as [->|Ne].
    - rewrite CC_set_pc_same. unfold CC. exact Ec.
    - rewrite CC_set_pc_other by exact Ne. unfold CC. rewrite Ep. reflexivity. }
  apply (InvP_ext (CC s)); [exact E|]. split.
  - apply (ginv_same _ s); auto.
  - intros u. apply (tinv_same _ s); auto.
Qed.

Lemma same_ghost_refl s : same_ghost s s.
Proof. constructor; auto. Qed.

(* ---- list facts ---- *)
Lemma link_id_kinds l i : map (fun e => (e_kind e, e_own e)) (link_id l i) = map (fun e => (e_kind e, e_own e)) l.
Proof.
  induction l as [|e l IH]; cbn [link_id map]; [reflexivity|].
  destruct (e_id e =? i); cbn [map e_kind e_own]; [reflexivity|]. rewrite IH. reflexivity.
Qed.
Lemma waiters_link l i : waiters (link_id l i) = waiters l.
Proof.
  unfold waiters. induction l as [|e l IH]; cbn [link_id filter map]; [reflexivity|].
  destruct (e_id e =? i); cbn [filter e_kind].
  - destruct (is_waiter_kind (e_kind e)); reflexivity.
  - destruct (is_waiter_kind (e_kind e)); cbn [map]; rewrite IH; reflexivity.
Qed.
Lemma entry_ok_link s l i : Forall (entry_ok s) l -> Forall (entry_ok s) (link_id l i).
Proof.
  induction 1 as [|e l He Hl IH]; cbn [link_id]; [constructor|].
  destruct (e_id e =? i); constructor; auto.
Qed.
Lemma waiters_app l e : waiters (l ++ [e]) = waiters l ++ (if is_waiter_kind (e_kind e) then [e_own e] else []).
Proof. unfold waiters. rewrite filter_app, map_app. cbn [filter]. destruct (is_waiter_kind (e_kind e)); reflexivity. Qed.
Lemma in_waiters s l w : Forall (entry_ok s) l -> In w (waiters l) -> ph s w = PhQueued.
Proof.
  intros F. unfold waiters. rewrite in_map_iff. intros (e & <- & He). apply filter_In in He as [He Hk].
  rewrite Forall_forall in F. specialize (F e He). unfold entry_ok in F. rewrite Hk in F. apply F.
Qed.

Lemma gstep_unfold s t e s' : gstep s t e = Some s' ->
  exists p' acts s1, tstep t (pcs s t) e = Some (p', acts) /\ apply_acts acts s t e = Some s1 /\ s' = set_pc s1 t p'.
Proof.
  unfold gstep. intros H. destruct (tstep t (pcs s t) e) as [[p' acts]|]; [|discriminate H].
  destruct (apply_acts acts s t e) as [s1|] eqn:A; [|discriminate H]. injection H as <-.
  exists p', acts, s1. auto.
Qed.

Ltac bd H :=
  repeat match type of H with
  | (if ?c then _ else _) = Some _ => let C := fresh "C" in destruct c eqn:C; [|try discriminate H]
  | (match ?x with Some _ => _ | None => _ end) = Some _ => let X := fresh "X" in destruct x eqn:X; [|try discriminate H]
  | (match ?x with nil => _ | cons _ _ => _ end) = Some _ => let X := fresh "L" in destruct x eqn:X; [try discriminate H|]
  end.
Ltac ret_inv H := unfold ret in H; injection H as <- <-.

Lemma ginv_frame C C' s s' :
  (forall x, c_hold (C' x) = c_hold (C x)) -> (forall x, c_wst (C' x) = c_wst (C x)) ->
  (forall x, c_incall (C' x) = c_incall (C x)) -> (forall x, c_cur (C' x) = c_cur (C x)) ->
  (forall x, c_dbw (C' x) = c_dbw (C x)) ->
  st s' = st s -> holder s' = holder s -> token s' = token s -> rootq s' = rootq s -> running s' = running s ->
  overlap s' = overlap s -> early_ret s' = early_ret s -> cur s' = cur s -> (forall x, ph s' x = ph s x) ->
  (forall h, holder s = Some h -> remote s' h = remote s h) ->
  Forall (entry_ok s') (lst s') -> NoDup (waiters (lst s')) ->
  ginv C s -> ginv C' s'.
Proof.
  intros Eh Ew Ei Ec Ed E1 E2 E3 E4 E5 E6 E7 E8 E9 E10 L N [G1 G2 G3 G4 G5 G6 G7 G8].
  constructor; rewrite ?E1, ?E2, ?E3, ?E4, ?E5, ?E6, ?E7, ?E8; auto.
  - intros h Hh. destruct (G3 h Hh) as [V D]. split; [exact V|]. rewrite Eh, Ew, E9, (E10 h Hh). exact D.
  - intros t Ht. rewrite Ei. auto.
  - intros e He. destruct (G6 e He) as (h & H1 & H2 & H3). exists h. split; [exact H1|]. rewrite Ec. split; [exact H2|].
    unfold cur_ok in *. rewrite Ed, E9. exact H3.
Qed.

Lemma ginv_frame_tok C C' s s' :
  (forall x, c_hold (C' x) = c_hold (C x)) -> (forall x, c_wst (C' x) = c_wst (C x)) ->
  (forall x, c_incall (C' x) = c_incall (C x)) -> (forall x, c_cur (C' x) = c_cur (C x)) ->
  (forall x, c_dbw (C' x) = c_dbw (C x)) ->
  wordinv (st s') (holder s') (is_some (token s')) -> holder s' = holder s ->
  rootq s' = (match token s' with Some None => 1 | _ => 0 end) -> running s' = running s ->
  overlap s' = overlap s -> early_ret s' = early_ret s -> cur s' = cur s -> (forall x, ph s' x = ph s x) ->
  (forall h, holder s = Some h -> remote s' h = remote s h) ->
  Forall (entry_ok s') (lst s') -> NoDup (waiters (lst s')) ->
  ginv C s -> ginv C' s'.
Proof.
  intros Eh Ew Ei Ec Ed E1 E2 E4 E5 E6 E7 E8 E9 E10 L N [G1 G2 G3 G4 G5 G6 G7 G8].
  constructor; rewrite ?E2, ?E5, ?E6, ?E7, ?E8; auto.
  - rewrite <- E2. exact E1.
  - intros h Hh. destruct (G3 h Hh) as [V D]. split; [exact V|]. rewrite Eh, Ew, E9, (E10 h Hh). exact D.
  - intros t Ht. rewrite Ei. auto.
  - intros e He. destruct (G6 e He) as (h & H1 & H2 & H3). exists h. split; [exact H1|]. rewrite Ec. split; [exact H2|].
    unfold cur_ok in *. rewrite Ed, E9. exact H3.
Qed.

Lemma acts_cons a l s t e s' : apply_acts (a :: l) s t e = Some s' ->
  exists s1, apply_act a s t e = Some s1 /\ apply_acts l s1 t e = Some s'.
Proof. cbn [apply_acts]. destruct (apply_act a s t e) as [s1|]; [|discriminate]. intros H. exists s1. auto. Qed.
Lemma acts_nil s t e s' : apply_acts [] s t e = Some s' -> s' = s.
Proof. cbn. intros H. injection H as <-. reflexivity. Qed.

(* ---- frames for the steps that move the drain lock ---- *)
Section LockFrames.
Variables (C C' : Z -> pcls) (s s' : gst) (u : Z).
Hypothesis Eu : C' u = C u.
Hypothesis Es : forall x, c_sig (C' x) = c_sig (C x).
Hypothesis Er : forall x, c_run (C' x) = c_run (C x).
Hypothesis Ew : forall x, c_wake (C' x) = c_wake (C x).
Hypothesis Et : token s' = Some (Some u) <-> token s = Some (Some u).
Hypothesis Eru : running s = Some u -> running s' = Some u.
Hypothesis Ep : forall x, ph s' x = ph s x.
Hypothesis Ee : ev s' u = ev s u.
Hypothesis Esl : slp s' u = slp s u.
Hypothesis Ei : ist s' u = ist s u.
Hypothesis Ern : runs s' u = runs s u.
Hypothesis Erm : remote s' u = remote s u.

(* someone else acquires the free lock *)
Lemma tinv_acquire t : holder s = None -> holder s' = Some t -> u <> t -> cur s' = cur s -> tinv C s u -> tinv C' s' u.
Proof.
  intros Hn Hs Ne Ec [T1 T2 T3 T4 T5 T6 T7 T8 T9 T10 T11 T12 T13 T14 T15 T16].
  constructor; rewrite ?Eu, ?Ec, ?Ep, ?Ee, ?Esl; unfold item0 in *; rewrite ?Ei, ?Ern, ?Erm; auto.
  - intros H. specialize (T1 H). congruence.
  - rewrite Et. exact T2.
  - intros w H. rewrite Ep. auto.
  - intros w H H0. rewrite Ep. auto.
  - intros H. specialize (T9 H). unfold waitinv, handed_or_done, item0 in *. rewrite Ep, Ec, Ei, Ern, Erm, Hs.
    destruct (ph s u); auto.
    + destruct T9 as (_ & X & _). congruence.
    + destruct T9 as (X & _). congruence.
    + destruct T9 as [A [[X _]|B]]; [congruence|]. rewrite Es. split; [exact A|]. right. exact B.
    + destruct T9 as [[X _]|B]; [congruence|]. right. exact B.
  - intros H. destruct (T11 H) as [A B]. split; [exact A|]. intros Hsl. destruct (B Hsl) as [B1 B2]. split; [exact B1|].
    intros Hp. destruct (B2 Hp) as [d Hd]. exists d. rewrite Ew. exact Hd.
Qed.

(* the holder t releases the lock (it has no popped item in hand and is not running anybody's item) *)
Lemma tinv_release t : holder s = Some t -> holder s' = None -> u <> t -> cur s = None -> cur s' = None ->
  c_run (C t) = None -> tinv C s u -> tinv C' s' u.
Proof.
  intros Hh Hs Ne Ec Ec' Hr [T1 T2 T3 T4 T5 T6 T7 T8 T9 T10 T11 T12 T13 T14 T15 T16].
  constructor; rewrite ?Eu, ?Ep, ?Ee, ?Esl; unfold item0 in *; rewrite ?Ei, ?Ern, ?Erm; auto.
  - intros H. specialize (T1 H). congruence.
  - rewrite Et. exact T2.
  - intros w H. rewrite Ep. auto.
  - intros w H H0. rewrite Ep. auto.
  - intros H. specialize (T7 H). congruence.
  - intros H. specialize (T9 H). unfold waitinv, handed_or_done, item0 in *. rewrite Ep, Ec', Ei, Ern, Erm, Hs.
    destruct (ph s u); auto.
    + destruct T9 as (_ & _ & e & X & _). congruence.
    + destruct T9 as (X & _ & [(_ & e & Y & _)|(Y & _)]); [congruence|]. assert (h = t) by congruence. subst h. congruence.
    + destruct T9 as [A [[X _]|B]]; [congruence|]. rewrite Es. split; [exact A|]. right. exact B.
    + destruct T9 as [[X _]|B]; [congruence|]. right. exact B.
  - intros H. destruct (T11 H) as [A B]. split; [exact A|]. intros Hsl. destruct (B Hsl) as [B1 B2]. split; [exact B1|].
    intros Hp. destruct (B2 Hp) as [d Hd]. exists d. rewrite Ew. exact Hd.
Qed.
End LockFrames.

(* a thread changes its own phase (push of its context / wake-up); nobody else's obligations mention it *)
Lemma tinv_frame_pht C C' s s' t u :
  u <> t -> C' u = C u ->
  (forall x, c_sig (C' x) = c_sig (C x)) -> (forall x, c_run (C' x) = c_run (C x)) ->
  (forall x, c_wake (C' x) = c_wake (C x)) ->
  holder s' = holder s -> token s' = token s -> (running s = Some u -> running s' = Some u) ->
  cur s' = cur s -> (forall x, x <> t -> ph s' x = ph s x) ->
  (forall d, ph s t <> PhSig d) -> (forall h, ph s t <> PhPopR h) ->
  ev s' u = ev s u -> slp s' u = slp s u -> ist s' u = ist s u -> runs s' u = runs s u -> remote s' u = remote s u ->
  tinv C s u -> tinv C' s' u.
Proof.
  intros Ne Eu Es Er Ew Eh Et Eru Ec Ep N1 N2 Ee Esl Ei Ern Erm [T1 T2 T3 T4 T5 T6 T7 T8 T9 T10 T11 T12 T13 T14 T15 T16].
  pose proof (Ep u Ne) as Epu.
  constructor; rewrite ?Eu, ?Eh, ?Et, ?Ec, ?Epu, ?Ee, ?Esl; unfold item0 in *; rewrite ?Ei, ?Ern, ?Erm; auto.
  - intros w H. destruct (Z.eq_dec w t) as [->|Nw]; [exfalso; apply (N1 u); auto|]. rewrite Ep by exact Nw. auto.
  - intros w H H0. destruct (Z.eq_dec w t) as [->|Nw]; [exfalso; apply (N2 u); auto|]. rewrite Ep by exact Nw. auto.
  - intros H. apply (waitinv_frame C C' s s'); auto.
  - intros H. destruct (T11 H) as [A B]. split; [exact A|]. intros Hs. destruct (B Hs) as [B1 B2]. split; [exact B1|].
    intros Hp. destruct (B2 Hp) as [d Hd]. exists d. rewrite Ew. exact Hd.
Qed.

Lemma nodup_snoc (l : list Z) x : NoDup l -> ~ In x l -> NoDup (l ++ [x]).
Proof.
  induction 1 as [|y l Hy Hl IH]; intros Hx; cbn [app]; [constructor; [intros []|constructor]|].
  constructor.
  - rewrite in_app_iff. intros [H|[H|[]]]; [contradiction|]. subst. apply Hx. left. reflexivity.
  - apply IH. intros H. apply Hx. right. exact H.
Qed.

(* ---- facts about the classification ---- *)
Ltac pc_cases p :=
  destruct p; cbn; intros; try discriminate; try reflexivity;
  repeat match goal with c : cont |- _ => destruct c | pk : popk |- _ => destruct pk end; cbn in *; try discriminate;
  try reflexivity.
Lemma hold_not_post p : holdpc p = true -> wst p = WPost -> False.
Proof. pc_cases p. Qed.
Lemma hold_not_woken p : holdpc p = true -> wst p = WWoken -> False.
Proof. pc_cases p. Qed.
Lemma sleep_not_hold p : sleeppc p = true -> holdpc p = false.
Proof. pc_cases p. Qed.
Lemma cur_hold p : curpc p = true -> holdpc p = true.
Proof. pc_cases p. Qed.
Lemma wait_cst p : wst p <> WNone -> cst p = CBefore.
Proof. destruct p; cbn; intros H; try reflexivity; try (exfalso; apply H; reflexivity);
  repeat match goal with c : cont |- _ => destruct c | pk : popk |- _ => destruct pk end; cbn in *; try reflexivity;
  exfalso; apply H; reflexivity. Qed.

(* ------------------------------------------------------------------ one lemma per program point *)
Section Steps.
Variables (s : gst) (t : Z) (e : event) (s' : gst).
Hypothesis Vt : valid_tid t.
Hypothesis HI : Inv s.

Ltac start Hpc :=
  intros Hpc Hs; apply gstep_unfold in Hs as (p' & acts & s1 & Hts & Ha & ->); rewrite Hpc in Hts; cbn [tstep] in Hts.

Ltac ba1 H :=
  let sx := fresh "sx" in let HX := fresh "HX" in
  apply acts_cons in H as (sx & HX & H); cbn [apply_act] in HX; bd HX; try (injection HX as <-).
Ltac ba H := repeat ba1 H; apply acts_nil in H; try subst; try congruence.

Ltac local_fin :=
  apply (local_step s s t); [apply same_ghost_refl | apply HI | apply HI | | reflexivity | exact HI].

Lemma step_A_probe f : pcs s t = A_probe f -> gstep s t e = Some s' -> Inv s'.
Proof.
  start Hpc. bd Hts. ret_inv Hts. ba Ha.
  local_fin. rewrite Hpc. destruct (ea e =? 0); reflexivity.
Qed.

(* getting facts out of the invariant *)
Definition G := proj1 HI.
Definition T := proj2 HI.

Ltac others u Ne Hpc :=
  apply (tinv_frame (CC s) _ s); [rewrite CC_set_pc_other by exact Ne; reflexivity | ..]; sproj;
  try (let x := fresh "x" in intros x; destruct (Z.eq_dec x t) as [->|?];
       [rewrite CC_set_pc_same; unfold CC; rewrite Hpc; reflexivity | rewrite CC_set_pc_other by assumption; reflexivity]);
  try rewrite !upd_other by exact Ne; try reflexivity; try tauto; try apply T.

Ltac tself :=
  constructor; rewrite ?CC_set_pc_same; cproj; unfold item0; sproj; rewrite ?upd_same;
  try discriminate; try (intros; discriminate);
  try (let H := fresh in intros H; exfalso; apply H; reflexivity);
  try (let H := fresh in intros _ H; exfalso; apply H; reflexivity); auto.

(* class dimensions of a re-labelled thread, pointwise *)
Ltac dims Hpc :=
  let x := fresh "x" in intros x; destruct (Z.eq_dec x t) as [->|?];
  [rewrite CC_set_pc_same; unfold CC; rewrite Hpc; reflexivity | rewrite CC_set_pc_other by assumption; reflexivity].

Ltac gframe Hpc :=
  apply (ginv_frame (CC s) _ s); [dims Hpc | dims Hpc | dims Hpc | dims Hpc | dims Hpc | ..]; sproj;
  try reflexivity; try apply G; try (intros; reflexivity).

Ltac gframe_tok Hpc :=
  apply (ginv_frame_tok (CC s) _ s); [dims Hpc | dims Hpc | dims Hpc | dims Hpc | dims Hpc | ..]; sproj;
  try reflexivity; try apply G; try (intros; reflexivity).
Ltac inv_cc := match goal with |- Inv ?x => change (InvP (CC x) x) end.
Ltac gett Hpc :=
  let Tt := fresh "Tt" in pose proof (T t) as Tt; unfold CC in Tt;
  destruct Tt as [T1 T2 T3 T4 T5 T6 T7 T8 T9 T10 T11 T12 T13 T14 T15 T16]; rewrite Hpc in *.

Lemma valid_lt : 0 < t < 1073741824.
Proof. unfold valid_tid, OWNER_MASK, DLOCK_OWNER_MASK in Vt. lia. Qed.

Lemma cur_none_if_free : holder s = None -> cur s = None.
Proof.
  intros Hn. destruct (cur s) as [c|] eqn:E; [|reflexivity]. destruct (g_cur _ _ G c E) as (h & H & _). congruence.
Qed.

Lemma CC_after s1 p' : pcs s1 = pcs s -> forall x, CC (set_pc s1 t p') x = if Z.eq_dec x t then cls p' else CC s x.
Proof.
  intros E x. destruct (Z.eq_dec x t) as [->|N]; [apply CC_set_pc_same|]. rewrite CC_set_pc_other by exact N.
  unfold CC. rewrite E. reflexivity.
Qed.

Lemma not_holder_if_nowait : holdpc (pcs s t) = false -> wst (pcs s t) = WNone -> holder s <> Some t.
Proof.
  intros Hh Hw Hs. destruct (g_holder _ _ G t Hs) as [_ [X|(_ & X & _)]]; unfold CC in X; cproj_in X; congruence.
Qed.

Lemma running_not_me : incall (pcs s t) = false -> running s <> Some t.
Proof. intros H R. pose proof (g_running _ _ G t R) as X. unfold CC in X. cproj_in X. congruence. Qed.

Lemma tok_none : is_some (token s) = false -> token s = None.
Proof. destruct (token s); [discriminate|reflexivity]. Qed.

Lemma step_Idle : pcs s t = Idle -> gstep s t e = Some s' -> Inv s'.
Proof.
  start Hpc. gett Hpc. cproj_in T8. cproj_in T2.
  bd Hts.
  - (* dispatch_async_f *) ret_inv Hts. ba Ha. local_fin. rewrite Hpc. reflexivity.
  - (* dispatch_sync_f / dispatch_barrier_sync_f *) ret_inv Hts. ba Ha. inv_cc.
    split; [gframe Hpc; intros h Hh; rewrite upd_other; [reflexivity|]; intros ->; revert Hh; apply not_holder_if_nowait; rewrite Hpc; reflexivity|]. intros u. destruct (Z.eq_dec u t) as [->|Ne]; [tself|others u Ne Hpc].
  - (* dispatch_async_and_wait_f *) ret_inv Hts. ba Ha. inv_cc.
    split; [gframe Hpc; intros h Hh; rewrite upd_other; [reflexivity|]; intros ->; revert Hh; apply not_holder_if_nowait; rewrite Hpc; reflexivity|]. intros u. destruct (Z.eq_dec u t) as [->|Ne]; [tself|others u Ne Hpc].
  - (* a worker pops the lane from the root queue *) ret_inv Hts. ba Ha. inv_cc.
    match goal with H : (0 <? rootq s) = true |- _ => apply Z.ltb_lt in H; rename H into A end. pose proof (g_rootq _ _ G) as R.
    assert (Tk : token s = Some None) by (destruct (token s) as [[x|]|]; [lia|reflexivity|lia]).
    split.
    + gframe_tok Hpc.
      * pose proof (g_word _ _ G) as Wd. rewrite Tk in Wd. exact Wd.
      * rewrite R, Tk. reflexivity.
    + intros u. destruct (Z.eq_dec u t) as [->|Ne]; [tself|others u Ne Hpc].
      * split; auto.
      * rewrite Tk. split; intros H; [injection H as H; congruence|discriminate H].
Qed.

Lemma sg_list l tz : same_ghost s (set_list s l tz).
Proof. constructor; reflexivity. Qed.

Ltac local_list :=
  apply (local_step s _ t); [apply sg_list | sproj | sproj | | reflexivity | exact HI].

Lemma step_A_xchg : pcs s t = A_xchg -> gstep s t e = Some s' -> Inv s'.
Proof.
  start Hpc. bd Hts. ret_inv Hts. ba Ha. cbn [is_waiter_kind] in *. cbv iota.
  local_list.
  - apply Forall_app. split; [apply G|]. constructor; [|constructor]. unfold entry_ok. reflexivity.
  - rewrite waiters_app. cbn [e_kind is_waiter_kind]. rewrite app_nil_r. apply G.
  - rewrite Hpc. destruct (ea e =? 0); reflexivity.
Qed.


Lemma step_A_head x : pcs s t = A_head x -> gstep s t e = Some s' -> Inv s'.
Proof.
  start Hpc. bd Hts. ret_inv Hts. ba Ha.
  local_list; [apply entry_ok_link; apply G | rewrite waiters_link; apply G | rewrite Hpc; reflexivity].
Qed.

Lemma step_A_link x : pcs s t = A_link x -> gstep s t e = Some s' -> Inv s'.
Proof.
  start Hpc. bd Hts; ret_inv Hts; ba Ha;
  (local_list; [apply entry_ok_link; apply G | rewrite waiters_link; apply G | rewrite Hpc; reflexivity]).
Qed.

Lemma step_A_wload f : pcs s t = A_wload f -> gstep s t e = Some s' -> Inv s'.
Proof.
  start Hpc. bd Hts. ret_inv Hts. ba Ha. local_fin. rewrite Hpc. reflexivity.
Qed.

Lemma step_A_ret : pcs s t = A_ret -> gstep s t e = Some s' -> Inv s'.
Proof.
  start Hpc. bd Hts. ret_inv Hts. ba Ha. local_fin. rewrite Hpc. reflexivity.
Qed.


Lemma step_A_wbody f old : pcs s t = A_wbody f old -> gstep s t e = Some s' -> Inv s'.
Proof.
  start Hpc. gett Hpc. cproj_in T2. bd Hts.
  - (* compare-exchange *) ret_inv Hts. apply andb_true_iff in C as [C Cx].
    apply ex_commit_elim in Cx as (q & x & Hq & Hb).
    ba Ha.
    + (* success *) match goal with H : (st s =? old) = true |- _ => apply Z.eqb_eq in H; symmetry in H; subst old end. inv_cc.
      pose proof (g_word _ _ G) as Wd. pose proof (t_wakeup _ _ _ _ _ _ _ Wd Hq Hb) as Wn.
      pose proof (wordinv_changed_enq _ _ _ _ _ _ Wd Wn) as Ch. pose proof (wordinv_enq_bit _ _ _ Wn) as Eb.
      destruct (changed (st s) (eb e) ENQ) eqn:Chg.
      * (* this wakeup set ENQUEUED *)
        assert (Hn : holder s = None /\ is_some (token s) = false).
        { destruct (holder s); [destruct (is_some (token s)); discriminate Ch|]. destruct (is_some (token s)); [discriminate Ch|auto]. }
        destruct Hn as [Hn Tk]. rewrite Hn, Tk in *. apply tok_none in Tk. rewrite Eb.
        split.
        -- gframe_tok Hpc. rewrite Hn. exact Wn. rewrite (g_rootq _ _ G), Tk. reflexivity.
        -- intros u. destruct (Z.eq_dec u t) as [->|Ne]; [tself|others u Ne Hpc].
           ++ split; auto.
           ++ rewrite Tk. split; intros H; [injection H as H; congruence|discriminate H].
      * (* it did not *)
        assert (Tk : is_some (token s) = match holder s with None => true | Some _ => is_some (token s) end).
        { destruct (holder s); [reflexivity|]. destruct (is_some (token s)); [reflexivity|discriminate Ch]. }
        rewrite <- Tk in Wn.
        split.
        -- gframe_tok Hpc. exact Wn.
        -- intros u. destruct (Z.eq_dec u t) as [->|Ne]; [tself|others u Ne Hpc].
    + (* failure *) local_fin. rewrite Hpc. reflexivity.
  - (* the loop gave up: return *) ret_inv Hts. ba Ha. local_fin. rewrite Hpc. reflexivity.
Qed.

(* pushing the lane on the root queue: the token goes from the thread to the root queue *)
Lemma rootpush_step p' :
  tokpc (pcs s t) = true -> cls p' = {| c_hold := holdpc (pcs s t); c_tok := false; c_wst := wst (pcs s t); c_cst := cst p';
     c_incall := false; c_sig := None; c_wake := None; c_run := None; c_cur := false; c_dbw := false; c_sleep := false;
     c_wf := true |} ->
  holdpc (pcs s t) = false -> incall (pcs s t) = false -> sigof (pcs s t) = None -> wakeof (pcs s t) = None ->
  runof (pcs s t) = None -> curpc (pcs s t) = false -> dbwpc (pcs s t) = false ->
  (forall u, u <> t -> tinv (CC s) s u) ->
  tinv (CC (set_pc (set_token (set_rootq s (rootq s + 1)) (Some None)) t p'))
       (set_pc (set_token (set_rootq s (rootq s + 1)) (Some None)) t p') t ->
  Inv (set_pc (set_token (set_rootq s (rootq s + 1)) (Some None)) t p').
Proof.
  intros Htk Hc Hh Hi Hsg Hwk Hr Hcu Hd _ Ht. inv_cc.
  pose proof (T t) as Tt. destruct Tt as [_ T2 _ _ _ _ _ _ _ _ _ _ _ _ _ _]. unfold CC in T2. cproj_in T2.
  assert (Tk : token s = Some (Some t)) by (apply T2; exact Htk).
  assert (D : forall x, CC (set_pc (set_token (set_rootq s (rootq s + 1)) (Some None)) t p') x =
              if Z.eq_dec x t then cls p' else CC s x).
  { intros x. destruct (Z.eq_dec x t) as [->|N]; [apply CC_set_pc_same|rewrite CC_set_pc_other by exact N; reflexivity]. }
  split.
  - apply (ginv_frame_tok (CC s) _ s); try (intros x; rewrite D; destruct (Z.eq_dec x t) as [->|N]; [rewrite Hc; unfold CC; cproj; auto|reflexivity]);
      sproj; try reflexivity; try apply G.
    + pose proof (g_word _ _ G) as Wd. rewrite Tk in Wd. exact Wd.
    + rewrite (g_rootq _ _ G), Tk. reflexivity.
  - intros u. destruct (Z.eq_dec u t) as [->|Ne]; [exact Ht|].
    apply (tinv_frame (CC s) _ s); [rewrite D; destruct (Z.eq_dec u t); [contradiction|reflexivity] | ..]; sproj;
      try (intros x; rewrite D; destruct (Z.eq_dec x t) as [->|N]; [rewrite Hc; unfold CC; cproj; auto|reflexivity]);
      try reflexivity; try tauto; try apply T.
    rewrite Tk. split; intros H; [discriminate H|injection H as H; congruence].
Qed.

Lemma step_A_root : pcs s t = A_root -> gstep s t e = Some s' -> Inv s'.
Proof.
  start Hpc. gett Hpc. bd Hts. ret_inv Hts. ba Ha.
  apply rootpush_step; rewrite ?Hpc; try reflexivity; [intros; apply T|].
  cproj_in T8. tself. split; [discriminate|]. intros H. discriminate H.
Qed.

Lemma step_S_aaw : pcs s t = S_aaw -> gstep s t e = Some s' -> Inv s'.
Proof. start Hpc. bd Hts. ret_inv Hts. ba Ha. local_fin. rewrite Hpc. reflexivity. Qed.

Lemma step_S_ftail k : pcs s t = S_ftail k -> gstep s t e = Some s' -> Inv s'.
Proof. start Hpc. bd Hts; ret_inv Hts; ba Ha; local_fin; rewrite Hpc; reflexivity. Qed.

Lemma step_S_fload k : pcs s t = S_fload k -> gstep s t e = Some s' -> Inv s'.
Proof.
  start Hpc. bd Hts. ret_inv Hts. ba Ha. local_fin. rewrite Hpc. unfold after_fload. destruct (b_fast t (ea e)); reflexivity.
Qed.



(* the D frame used by the lock-moving steps: classes of everybody after the step *)



(* t acquires the free drain lock: new word, new program point p' *)
Lemma acquire_step new p' :
  holder s = None -> wordinv new (Some t) (is_some (token s)) ->
  holdpc p' = true -> incall (pcs s t) = false -> sigof p' = sigof (pcs s t) -> wakeof p' = wakeof (pcs s t) ->
  runof p' = runof (pcs s t) ->
  tinv (CC (set_pc (set_holder (set_st s new) (Some t)) t p')) (set_pc (set_holder (set_st s new) (Some t)) t p') t ->
  Inv (set_pc (set_holder (set_st s new) (Some t)) t p').
Proof.
  intros Hn Wn Hh Hi Hsg Hwk Hr Ht. pose proof (cur_none_if_free Hn) as Cn. inv_cc.
  pose proof (CC_after (set_holder (set_st s new) (Some t)) p' eq_refl) as D.
  split.
  - constructor; sproj; try apply G.
    + exact Wn.
    + intros h Hh'. injection Hh' as <-. split; [exact Vt|]. left. rewrite CC_set_pc_same. exact Hh.
    + intros x Hx. pose proof (g_running _ _ G x Hx) as R. rewrite D. destruct (Z.eq_dec x t) as [->|]; [|exact R].
      exfalso. apply (running_not_me Hi). exact Hx.
    + intros c Hc. congruence.
  - intros u. destruct (Z.eq_dec u t) as [->|Ne]; [exact Ht|].
    apply (tinv_acquire (CC s) _ s _ u) with (t := t); sproj; auto;
      try (intros y; rewrite D; destruct (Z.eq_dec y t) as [->|]; [unfold CC; cproj; auto|reflexivity]);
      try reflexivity; try tauto; try apply T.
    rewrite D. destruct (Z.eq_dec u t); [contradiction|reflexivity].
Qed.

Lemma step_S_fbody k old : pcs s t = S_fbody k old -> gstep s t e = Some s' -> Inv s'.
Proof.
  start Hpc. gett Hpc. destruct (b_fast t old) as [new xr| | |] eqn:Hb; try discriminate Hts. bd Hts. ret_inv Hts.
  ba Ha.
  - (* acquired *)
    match goal with H : (st s =? old) = true |- _ => apply Z.eqb_eq in H; symmetry in H; subst old end.
    match goal with H : _ && (eb e =? new) = true |- _ => apply andb_true_iff in H as [_ H]; apply Z.eqb_eq in H; rewrite H in * end.
    pose proof (g_word _ _ G) as Wd. destruct (t_fast _ _ _ _ _ _ Wd valid_lt Hb) as (Hn & Tk & Wn).
    pose proof (wordinv_changed_enq _ _ _ _ _ _ Wd Wn) as Ch. rewrite Tk in Ch. cbn in Ch. rewrite Ch. clear Ch.
    apply acquire_step; rewrite ?Hpc, ?Tk; auto; try (destruct k; reflexivity).
    destruct k; tself.
  - (* lost the race (or spurious failure) *)
    local_fin. rewrite Hpc. unfold after_fload. destruct (b_fast t (ea e)); reflexivity.
Qed.

Lemma step_S_wprep k : pcs s t = S_wprep k -> gstep s t e = Some s' -> Inv s'.
Proof.
  start Hpc. gett Hpc. cproj_in T8. bd Hts. ret_inv Hts. ba Ha. inv_cc.
  split; [gframe Hpc|]. intros u. destruct (Z.eq_dec u t) as [->|Ne]; [tself|others u Ne Hpc].
  destruct (T8 eq_refl) as (A & B & D). auto.
Qed.


Lemma step_S_xchg k : pcs s t = S_xchg k -> gstep s t e = Some s' -> Inv s'.
Proof.
  start Hpc. gett Hpc. cproj_in T8. destruct (T8 eq_refl) as (Pn & Ev0 & Sl0). cproj_in T13. specialize (T13 eq_refl eq_refl).
  bd Hts. ret_inv Hts. ba Ha.
  assert (W : is_waiter_kind (kind_ik k) = true) by (destruct k; reflexivity). rewrite W. cbv iota.
  set (p' := if ea e =? 0 then S_head k (eb e) else S_link k (eb e)).
  assert (Hp' : cls p' = cls (S_head k 0)) by (subst p'; destruct (ea e =? 0); reflexivity).
  assert (NH : holder s <> Some t) by (apply not_holder_if_nowait; rewrite Hpc; reflexivity).
  assert (NW : ~ In t (waiters (lst s))).
  { intros I. pose proof (in_waiters s _ _ (g_list _ _ G) I). congruence. }
  inv_cc.
  match goal with |- InvP (CC ?S1) _ => pose proof (CC_after (set_ph (set_list s (lst s ++ [{| e_id := eb e; e_linked := false; e_kind := kind_ik k; e_own := t |}]) (tailz s)) (upd (ph s) t PhQueued)) p' eq_refl) as D end.
  split.
  - constructor; sproj; try apply G.
    + intros h Hh. destruct (g_holder _ _ G h Hh) as [V X]. split; [exact V|].
      assert (h <> t) by congruence. rewrite D. destruct (Z.eq_dec h t); [contradiction|]. rewrite upd_other by assumption. exact X.
    + intros x Hx. pose proof (g_running _ _ G x Hx) as R. rewrite D. destruct (Z.eq_dec x t) as [->|]; [|exact R].
      unfold CC in R. rewrite Hpc in R. discriminate R.
    + intros c Hc. destruct (g_cur _ _ G c Hc) as (h & H1 & H2 & H3). exists h. assert (h <> t) by congruence.
      unfold cur_ok in *. rewrite !D. destruct (Z.eq_dec h t); [contradiction|]. split; [exact H1|]. split; [exact H2|].
      sproj. unfold CC. destruct H3 as [H3 H4]. split; [exact H3|].
      destruct (is_waiter_kind (e_kind c)); [|exact H4]. destruct H4 as [V P]. split; [exact V|].
      destruct (Z.eq_dec (e_own c) t) as [Eo|No]; [rewrite Eo in P; rewrite Pn in P; match type of P with _ = (if ?c then _ else _) => destruct c end; discriminate P|].
      rewrite upd_other by exact No. exact P.
    + apply Forall_app. split.
      * pose proof (g_list _ _ G) as L. rewrite Forall_forall in *. intros x Hx. specialize (L x Hx). unfold entry_ok in *. sproj.
        destruct (is_waiter_kind (e_kind x)); [|exact L]. destruct L as [V P]. split; [exact V|].
        destruct (Z.eq_dec (e_own x) t) as [Eo|No]; [rewrite Eo in P; congruence|]. rewrite upd_other by exact No. exact P.
      * constructor; [|constructor]. unfold entry_ok. sproj. cbn [e_kind e_own]. rewrite W. rewrite upd_same. auto.
    + rewrite waiters_app. cbn [e_kind e_own]. rewrite W. apply nodup_snoc; [apply G|exact NW].
  - intros u. destruct (Z.eq_dec u t) as [->|Ne].
    + constructor; rewrite ?CC_set_pc_same, ?Hp'; cproj; unfold item0, waitinv; sproj; rewrite ?upd_same;
        try discriminate; try (intros; discriminate); auto.
    + apply (tinv_frame_pht (CC s) _ s _ t u); sproj; auto;
        try (intros y; rewrite D; destruct (Z.eq_dec y t) as [->|]; [rewrite Hp'; unfold CC; rewrite Hpc; reflexivity|reflexivity]);
        try (intros; rewrite Pn; discriminate); try apply T.
      * rewrite D. destruct (Z.eq_dec u t); [contradiction|reflexivity].
      * intros y Ny. rewrite upd_other by exact Ny. reflexivity.
Qed.

Ltac publish_fin Hpc :=
  local_list; [apply entry_ok_link; apply G | rewrite waiters_link; apply G | rewrite Hpc].

Lemma step_S_head k x : pcs s t = S_head k x -> gstep s t e = Some s' -> Inv s'.
Proof. start Hpc. bd Hts. ret_inv Hts. ba Ha. publish_fin Hpc. destruct k; reflexivity. Qed.
Lemma step_S_link k x : pcs s t = S_link k x -> gstep s t e = Some s' -> Inv s'.
Proof. start Hpc. bd Hts. ret_inv Hts. ba Ha. publish_fin Hpc. reflexivity. Qed.
Lemma step_S_sw : pcs s t = S_sw -> gstep s t e = Some s' -> Inv s'.
Proof. start Hpc. bd Hts. ret_inv Hts. ba Ha. local_fin. rewrite Hpc. reflexivity. Qed.
Lemma step_S_pwload k : pcs s t = S_pwload k -> gstep s t e = Some s' -> Inv s'.
Proof. start Hpc. bd Hts. ret_inv Hts. ba Ha. local_fin. rewrite Hpc. reflexivity. Qed.
Lemma step_S_fake f : pcs s t = S_fake f -> gstep s t e = Some s' -> Inv s'.
Proof. start Hpc. bd Hts. ret_inv Hts. ba Ha. local_fin. rewrite Hpc. reflexivity. Qed.
Lemma step_S_tail : pcs s t = S_tail -> gstep s t e = Some s' -> Inv s'.
Proof. start Hpc. bd Hts; ret_inv Hts; ba Ha; local_fin; rewrite Hpc; reflexivity. Qed.
Lemma step_S_uload : pcs s t = S_uload -> gstep s t e = Some s' -> Inv s'.
Proof.
  start Hpc. bd Hts. ret_inv Hts. ba Ha. local_fin. rewrite Hpc. unfold after_uload. destruct (b_unlock (ea e)); reflexivity.
Qed.
Lemma step_B_tail c : pcs s t = B_tail c -> gstep s t e = Some s' -> Inv s'.
Proof. start Hpc. gett Hpc. cproj_in T3. bd Hts; ret_inv Hts; ba Ha; local_fin; rewrite Hpc; cproj; try reflexivity. 
  destruct c; try discriminate T3; reflexivity. Qed.
Lemma step_B_susp c : pcs s t = B_susp c -> gstep s t e = Some s' -> Inv s'.
Proof. start Hpc. bd Hts. ret_inv Hts. ba Ha. local_fin. rewrite Hpc. reflexivity. Qed.
Lemma step_B_head c : pcs s t = B_head c -> gstep s t e = Some s' -> Inv s'.
Proof. start Hpc. bd Hts. ret_inv Hts. ba Ha. local_fin. rewrite Hpc. destruct (ea e =? 0); reflexivity. Qed.
Lemma step_C_load c enq : pcs s t = C_load c enq -> gstep s t e = Some s' -> Inv s'.
Proof.
  start Hpc. gett Hpc. cproj_in T3. bd Hts. ret_inv Hts. ba Ha. local_fin. rewrite Hpc. unfold after_cload.
  pose proof T3 as T3a. apply andb_true_iff in T3a as [T3a _].
  destruct (b_cbc enq (ea e) 0); unfold cls; cproj; rewrite ?T3, ?T3a; reflexivity.
Qed.
Lemma step_P_store pk : pcs s t = P_store pk -> gstep s t e = Some s' -> Inv s'.
Proof.
  start Hpc. gett Hpc. cproj_in T3. bd Hts. ret_inv Hts. ba Ha. local_fin. rewrite Hpc. destruct pk as [c enq|o]; cproj; try reflexivity.
Qed.
Lemma step_D_load c enq : pcs s t = D_load c enq -> gstep s t e = Some s' -> Inv s'.
Proof. start Hpc. bd Hts. ret_inv Hts. ba Ha. local_fin. rewrite Hpc. reflexivity. Qed.
Lemma step_W_tail o : pcs s t = W_tail o -> gstep s t e = Some s' -> Inv s'.
Proof. start Hpc. bd Hts; ret_inv Hts; ba Ha; local_fin; rewrite Hpc; reflexivity. Qed.
Lemma step_W_head o : pcs s t = W_head o -> gstep s t e = Some s' -> Inv s'.
Proof. start Hpc. bd Hts. ret_inv Hts. ba Ha. local_fin. rewrite Hpc. destruct (ea e =? 0); reflexivity. Qed.
Lemma step_W_state o : pcs s t = W_state o -> gstep s t e = Some s' -> Inv s'.
Proof. start Hpc. bd Hts. ret_inv Hts. ba Ha. local_fin. rewrite Hpc. reflexivity. Qed.
Lemma step_W_uload o : pcs s t = W_uload o -> gstep s t e = Some s' -> Inv s'.
Proof.
  start Hpc. bd Hts. ret_inv Hts. ba Ha. local_fin. rewrite Hpc. unfold after_wuload. destruct (b_dunlock o (ea e)); reflexivity.
Qed.
Lemma step_P_cas pk : pcs s t = P_cas pk -> gstep s t e = Some s' -> Inv s'.
Proof.
  start Hpc. gett Hpc. cproj_in T3. bd Hts. ret_inv Hts. ba Ha.
  local_list; [apply G | apply G | rewrite Hpc].
  destruct (eok e =? 1); destruct pk as [c enq|o]; cproj; try reflexivity.
Qed.

(* a successful CAS on dq_state that moves neither the lock nor the token *)
Lemma word_step new p' :
  wordinv new (holder s) (is_some (token s)) -> cls p' = cls (pcs s t) ->
  Inv (set_pc (set_st s new) t p').
Proof.
  intros Wn Ec. inv_cc. pose proof (CC_after (set_st s new) p' eq_refl) as D.
  assert (E : forall x, CC (set_pc (set_st s new) t p') x = CC s x).
  { intros x. rewrite D. destruct (Z.eq_dec x t) as [->|]; [rewrite Ec; reflexivity|reflexivity]. }
  apply (InvP_ext (CC s)); [exact E|]. split.
  - destruct G as [G1 G2 G3 G4 G5 G6 G7 G8]. constructor; sproj; auto.
  - intros u. apply (tinv_frame (CC s) (CC s) s); sproj; auto; try reflexivity; try tauto; apply T.
Qed.

Lemma step_S_pwbody k old : pcs s t = S_pwbody k old -> gstep s t e = Some s' -> Inv s'.
Proof.
  start Hpc. gett Hpc. pose proof (g_word _ _ G) as Wd. bd Hts;
    match goal with H : _ && ex_commit _ _ = true |- _ => apply andb_true_iff in H as [_ H]; apply ex_commit_elim in H as (q & xr & Hq & Hb) end.
  - (* took the drain lock *) ret_inv Hts. ba Ha.
    match goal with H : (st s =? old) = true |- _ => apply Z.eqb_eq in H; symmetry in H; subst old end.
    pose proof (t_pushw _ _ _ _ _ _ _ Wd valid_lt Hq Hb) as Wn.
    destruct (holder s) as [h|] eqn:Hh.
    + exfalso. pose proof (wordinv_changed_inb _ _ _ _ _ _ Wd Wn) as Ch. cbn in Ch. congruence.
    + pose proof (wordinv_changed_enq _ _ _ _ _ _ Wd Wn) as Ch. rewrite eqb_reflx in Ch. cbn in Ch. rewrite Ch.
      apply acquire_step; rewrite ?Hpc; auto.
      cproj_in T9. cproj_in T10. cproj_in T13.
      assert (Wt : waitinv (CC s) s t) by (apply T9; discriminate).
      pose proof (CC_after (set_holder (set_st s (eb e)) (Some t)) (B_tail (CWait k)) eq_refl) as D.
      unfold waitinv, handed_or_done, item0 in Wt. rewrite Hh in Wt.
      constructor; rewrite ?CC_set_pc_same; cproj; unfold item0; sproj; try discriminate; try (intros; discriminate); auto.
      * intros _. unfold waitinv, handed_or_done, item0. sproj. destruct (ph s t) as [| |h|h|d|].
        -- exact Wt.
        -- exact Wt.
        -- destruct Wt as (_ & X & _). discriminate X.
        -- destruct Wt as (X & _). discriminate X.
        -- destruct Wt as [A [[X _]|B]]; [discriminate X|]. split; [|right; exact B].
           rewrite D. destruct (Z.eq_dec d t) as [->|]; [|exact A]. unfold CC in A. rewrite Hpc in A. discriminate A.
        -- destruct Wt as [[X _]|B]; [discriminate X|]. right; exact B.
      * intros _ _. destruct (ph s t) as [| |h|h|d|]; auto.
        -- destruct Wt as [A [[X _]|B]]; [discriminate X|]. apply B.
        -- destruct Wt as [[X _]|B]; [discriminate X|]. apply B.
  - (* did not *) ret_inv Hts. ba Ha.
    match goal with H : (st s =? old) = true |- _ => apply Z.eqb_eq in H; symmetry in H; subst old end.
    pose proof (t_pushw _ _ _ _ _ _ _ Wd valid_lt Hq Hb) as Wn.
    destruct (holder s) as [h|] eqn:Hh.
    + pose proof (wordinv_changed_enq _ _ _ _ _ _ Wd Wn) as Ch. rewrite eqb_reflx in Ch. cbn in Ch. rewrite Ch.
      apply word_step; [rewrite Hh; exact Wn|rewrite Hpc; reflexivity].
    + exfalso. pose proof (wordinv_changed_inb _ _ _ _ _ _ Wd Wn) as Ch. cbn in Ch. congruence.
  - (* failed *) ret_inv Hts. ba Ha. local_fin. rewrite Hpc. reflexivity.
Qed.

(* a step that changes only the thread's own event word / sleep state and its stage as a waiter *)
Lemma own_step s1 p' :
  st s1 = st s -> lst s1 = lst s -> rootq s1 = rootq s -> token s1 = token s -> holder s1 = holder s -> cur s1 = cur s ->
  running s1 = running s -> overlap s1 = overlap s -> early_ret s1 = early_ret s -> (forall x, ph s1 x = ph s x) ->
  (forall x, ist s1 x = ist s x) -> (forall x, runs s1 x = runs s x) -> (forall x, remote s1 x = remote s x) ->
  (forall x, x <> t -> ev s1 x = ev s x) -> (forall x, x <> t -> slp s1 x = slp s x) -> pcs s1 = pcs s ->
  holdpc p' = holdpc (pcs s t) -> incall p' = incall (pcs s t) -> sigof p' = sigof (pcs s t) ->
  wakeof p' = wakeof (pcs s t) -> runof p' = runof (pcs s t) -> curpc p' = curpc (pcs s t) -> dbwpc p' = dbwpc (pcs s t) ->
  wst p' <> WNone -> wst (pcs s t) <> WNone ->
  tinv (CC (set_pc s1 t p')) (set_pc s1 t p') t ->
  Inv (set_pc s1 t p').
Proof.
  intros E1 E2 E3 E4 E5 E6 E7 E8 E9 E10 E11 E12 E13 E14 E15 Ep Hh Hi Hsg Hwk Hr Hc Hd Hw' Hw Ht. inv_cc.
  pose proof (CC_after s1 p' Ep) as D.
  split.
  - destruct G as [G1 G2 G3 G4 G5 G6 G7 G8]. constructor; sproj; rewrite ?E1, ?E2, ?E3, ?E4, ?E5, ?E6, ?E7, ?E8, ?E9; auto.
    + intros h Hh'. destruct (G3 h Hh') as [V X]. split; [exact V|]. rewrite D. rewrite <- (E13 h), <- (E10 h) in X.
      destruct (Z.eq_dec h t) as [->|]; [|exact X]. unfold CC in X. cproj. cproj_in X. rewrite Hh.
      destruct X as [X|(X1 & X2 & X3)]; [left; exact X|right; split; [exact X1|]; split; [exact Hw'|exact X3]].
    + intros x Hx. specialize (G4 x Hx). rewrite D. destruct (Z.eq_dec x t) as [->|]; [|exact G4].
      unfold CC in G4. cproj. cproj_in G4. congruence.
    + intros c Hc'. destruct (G6 c Hc') as (h & H1 & H2 & H3). exists h. split; [exact H1|].
      unfold cur_ok in *. sproj. rewrite !D. destruct (Z.eq_dec h t) as [->|].
      * unfold CC in H2, H3. cproj. cproj_in H2. cproj_in H3. rewrite Hc, Hd. split; [exact H2|].
        destruct H3 as [H3 H4]. split; [exact H3|]. destruct (is_waiter_kind (e_kind c)); [|exact H4]. rewrite E10. exact H4.
      * split; [exact H2|]. destruct H3 as [H3 H4]. split; [exact H3|]. destruct (is_waiter_kind (e_kind c)); [|exact H4].
        rewrite E10. exact H4.
    + rewrite Forall_forall in *. intros x Hx. specialize (G7 x Hx). unfold entry_ok in *. sproj. rewrite E10. exact G7.
  - intros u. destruct (Z.eq_dec u t) as [->|Ne]; [exact Ht|].
    apply (tinv_frame (CC s) _ s); sproj; auto;
      try (intros y; rewrite D; destruct (Z.eq_dec y t) as [->|]; [unfold CC; cproj; auto|reflexivity]);
      try tauto; try apply T.
    + rewrite D. destruct (Z.eq_dec u t); [contradiction|reflexivity].
    + rewrite E4. tauto.
    + rewrite E7. tauto.
Qed.

Ltac own_fin Hpc :=
  apply own_step; sproj; rewrite ?Hpc; try reflexivity; try discriminate;
  try (intros; rewrite upd_other by assumption; reflexivity).

Ltac wait_keep T9 :=
  intros _; apply (waitinv_frame (CC s) _ s); sproj; auto;
  [ .. | apply T9; discriminate].

Lemma u32_m1 : u32 (0 - 1) = MAXV. Proof. reflexivity. Qed.
Lemma u32_0 : u32 (1 - 1) = 0. Proof. reflexivity. Qed.

Lemma step_S_sub k : pcs s t = S_sub k -> gstep s t e = Some s' -> Inv s'.
Proof.
  start Hpc. gett Hpc. cproj_in T9. cproj_in T10. destruct (T10 eq_refl) as [Ev Sl].
  bd Hts. ret_inv Hts. ba Ha.
  match goal with H : (ea e =? ev s t) = true |- _ => apply Z.eqb_eq in H; rename H into Ea end.
  destruct (is_sigd (ph s t)) eqn:Sg.
  - rewrite Ea, Ev. change (1 =? 1) with true. cbv iota. own_fin Hpc.
    constructor; rewrite ?CC_set_pc_same; cproj; unfold item0; sproj; rewrite ?upd_same; try discriminate; try (intros; discriminate); auto.
    + intros _. apply (waitinv_frame (CC s) _ s); sproj; auto; try (apply T9; discriminate);
        (intros y; rewrite CC_after by reflexivity; destruct (Z.eq_dec y t) as [->|]; [unfold CC; rewrite Hpc; reflexivity|reflexivity]).
    + intros _. split; [destruct (ph s t); try discriminate Sg; reflexivity|]. split; [reflexivity|exact Sl].
  - rewrite Ea, Ev. change (0 =? 1) with false. cbv iota. own_fin Hpc.
    constructor; rewrite ?CC_set_pc_same; cproj; unfold item0; sproj; rewrite ?upd_same; try discriminate; try (intros; discriminate); auto.
    + intros _. apply (waitinv_frame (CC s) _ s); sproj; auto; try (apply T9; discriminate);
        (intros y; rewrite CC_after by reflexivity; destruct (Z.eq_dec y t) as [->|]; [unfold CC; rewrite Hpc; reflexivity|reflexivity]).
    + intros _. rewrite Sg. split; [reflexivity|]. intros X. contradiction.
Qed.

Ltac selfrec Hpc :=
  constructor; rewrite ?CC_set_pc_same; cproj; unfold item0; sproj; rewrite ?upd_same; try discriminate;
  try (intros; discriminate); try (let H := fresh in intros H; exfalso; apply H; reflexivity);
        try (let H := fresh in intros _ H; exfalso; apply H; reflexivity); auto.
Ltac keepwait Hpc T9 :=
  intros _; apply (waitinv_frame (CC s) _ s); sproj; auto; try (apply T9; discriminate);
  (let y := fresh "y" in intros y; rewrite CC_after by reflexivity; destruct (Z.eq_dec y t) as [->|];
   [unfold CC; rewrite Hpc; reflexivity|reflexivity]).

Lemma step_S_eload k : pcs s t = S_eload k -> gstep s t e = Some s' -> Inv s'.
Proof.
  start Hpc. gett Hpc. cproj_in T9. cproj_in T11. destruct (T11 eq_refl) as [Ev Sl].
  bd Hts.
  - (* value 0: signalled *) ret_inv Hts. ba Ha.
    match goal with H : (ea e =? ev s t) = true |- _ => apply Z.eqb_eq in H; rename H into Ea end.
    match goal with H : (ea e =? 0) = true |- _ => apply Z.eqb_eq in H; rename H into E0 end.
    assert (Sg : ph s t = PhSigd).
    { rewrite Ea in E0. rewrite E0 in Ev. destruct (ph s t); try reflexivity; discriminate Ev. }
    own_fin Hpc. selfrec Hpc.
    + keepwait Hpc T9.
    + intros _. split; [exact Sg|]. split; [congruence|]. intros X. destruct (Sl X) as [Y _]. discriminate Y.
  - (* still UINT32_MAX: go to sleep *) ret_inv Hts. ba Ha. local_fin. rewrite Hpc. reflexivity.
Qed.

Lemma step_S_futex k : pcs s t = S_futex k -> gstep s t e = Some s' -> Inv s'.
Proof.
  start Hpc. gett Hpc. cproj_in T9. cproj_in T11. destruct (T11 eq_refl) as [Ev Sl].
  bd Hts. ret_inv Hts. ba Ha.
  match goal with H : _ && (ea e =? MAXV) = true |- _ => apply andb_true_iff in H as [_ H]; apply Z.eqb_eq in H; rename H into Ea end.
  own_fin Hpc. selfrec Hpc.
  - keepwait Hpc T9.
  - intros _. split; [exact Ev|]. rewrite Ea. intros X. split; [reflexivity|]. intros Sg. rewrite Sg in Ev. cbn [is_sigd] in Ev.
    rewrite Ev in X. discriminate X.
Qed.

Lemma step_S_sleep k : pcs s t = S_sleep k -> gstep s t e = Some s' -> Inv s'.
Proof.
  start Hpc. gett Hpc. cproj_in T9. cproj_in T11. destruct (T11 eq_refl) as [Ev Sl].
  bd Hts. ret_inv Hts. ba Ha.
  own_fin Hpc. selfrec Hpc.
  - keepwait Hpc T9.
  - intros _. split; [exact Ev|]. intros X. discriminate X.
Qed.

Lemma incall_hold p : incall p = true -> holdpc p = true.
Proof. destruct p; cbn; intros H; try discriminate H; reflexivity. Qed.

Lemma running_none : holder s = Some t -> incall (pcs s t) = false -> running s = None.
Proof.
  intros Hh Hi. destruct (running s) as [x|] eqn:R; [|reflexivity]. exfalso.
  pose proof (g_running _ _ G x R) as X. unfold CC in X. cproj_in X.
  pose proof (t_hold _ _ _ (T x)) as Y. unfold CC in Y. cproj_in Y. specialize (Y (incall_hold _ X)).
  assert (x = t) by congruence. subst x. congruence.
Qed.

(* the lock holder t starts its own item *)
Lemma begin_self_step p' s0 :
  holder s = Some t -> incall (pcs s t) = false -> holdpc (pcs s t) = true \/ wst (pcs s t) <> WNone ->
  (* s0 = s up to t's own phase *)
  st s0 = st s -> lst s0 = lst s -> rootq s0 = rootq s -> token s0 = token s -> holder s0 = holder s -> cur s0 = cur s ->
  running s0 = running s -> overlap s0 = overlap s -> early_ret s0 = early_ret s -> (forall x, x <> t -> ph s0 x = ph s x) ->
  (ph s0 t = ph s t \/ (ph s t = PhSigd /\ ph s0 t = PhNone)) ->
  ist s0 = ist s -> runs s0 = runs s -> remote s0 = remote s -> ev s0 = ev s -> slp s0 = slp s -> pcs s0 = pcs s ->
  holdpc p' = true -> incall p' = true -> sigof p' = None -> wakeof p' = None -> runof p' = None -> curpc p' = false ->
  dbwpc p' = false -> sigof (pcs s t) = None -> wakeof (pcs s t) = None -> runof (pcs s t) = None ->
  curpc (pcs s t) = false -> dbwpc (pcs s t) = false ->
  let S' := set_pc (set_running (set_item s0 (upd (ist s0) t IRun) (upd (runs s0) t (runs s0 t + 1)) (remote s0)) (Some t)
                      (overlap s0 || match running s0 with Some _ => true | None => false end)) t p' in
  tinv (CC S') S' t -> Inv S'.
Proof.
  intros Hh Hi Hst E1 E2 E3 E4 E5 E6 E7 E8 E9 E10 E10t E11 E12 E13 E14 E15 Ep Hp1 Hp2 Hp3 Hp4 Hp5 Hp6 Hp7 Hq3 Hq4 Hq5 Hq6 Hq7 S' Ht.
  pose proof (running_none Hh Hi) as Rn. subst S'. inv_cc.
  match goal with |- InvP (CC (set_pc ?S1 _ _)) _ => pose proof (CC_after S1 p' Ep) as D end.
  assert (NotT : forall w, (exists d, ph s w = PhSig d) \/ (exists h, ph s w = PhPopR h) \/ (exists h, ph s w = PhPopH h) \/ ph s w = PhQueued ->
                 ph s0 w = ph s w).
  { intros w Hw. destruct (Z.eq_dec w t) as [->|N]; [|apply E10; exact N].
    destruct E10t as [X|[X Y]]; [exact X|]. exfalso. rewrite X in Hw.
    destruct Hw as [[d Hd]|[[h Hd]|[[h Hd]|Hd]]]; discriminate Hd. }
  split.
  - destruct G as [G1 G2 G3 G4 G5 G6 G7 G8]. constructor; sproj; rewrite ?E1, ?E2, ?E3, ?E4, ?E5, ?E6, ?E7, ?E8, ?E9, ?E13; auto.
    + intros h Hh'. assert (h = t) by congruence. subst h. split; [exact Vt|]. left. rewrite CC_set_pc_same. cproj. exact Hp1.
    + intros x Hx. injection Hx as <-. rewrite CC_set_pc_same. cproj. exact Hp2.
    + rewrite Rn. destruct G5 as [A B]. rewrite A. auto.
    + intros c Hc'. destruct (G6 c Hc') as (h & H1 & H2 & H3). exfalso. assert (h = t) by congruence. subst h.
      unfold CC in H2. cproj_in H2. congruence.
    + rewrite Forall_forall in *. intros x Hx. specialize (G7 x Hx). unfold entry_ok in *. sproj.
      destruct (is_waiter_kind (e_kind x)); [|exact G7]. destruct G7 as [V P]. split; [exact V|].
      rewrite NotT; [exact P|]. right. right. right. exact P.
  - intros u. destruct (Z.eq_dec u t) as [->|Ne]; [exact Ht|].
    pose proof (T u) as Tu.
    assert (Cu : CC (set_pc (set_running (set_item s0 (upd (ist s0) t IRun) (upd (runs s0) t (runs s0 t + 1)) (remote s0)) (Some t)
                      (overlap s0 || match running s0 with Some _ => true | None => false end)) t p') u = CC s u).
    { rewrite D. destruct (Z.eq_dec u t); [contradiction|reflexivity]. }
    destruct Tu as [T1 T2 T3 T4 T5 T6 T7 T8 T9 T10 T11 T12 T13 T14 T15 T16].
    constructor; rewrite ?Cu; unfold item0; sproj; rewrite ?E4, ?E5, ?E6, ?E11, ?E12, ?E13, ?E14, ?E15, ?upd_other by exact Ne;
      rewrite ?(E10 u Ne); auto.
    + intros H. specialize (T4 H). congruence.
    + intros w H. rewrite NotT; [auto|]. left. exists u. auto.
    + intros w H H0. rewrite NotT; [auto|]. right. left. exists u. auto.
    + intros H. specialize (T9 H). unfold waitinv, handed_or_done, item0 in *. sproj.
      rewrite ?E5, ?E6, ?E11, ?E12, ?E13, ?upd_other by exact Ne. rewrite (E10 u Ne).
      assert (Cn : cur s = None).
      { destruct (cur s) as [c|] eqn:Ec; [|reflexivity]. exfalso. destruct (g_cur _ _ G c Ec) as (h' & H1 & H2 & _).
        assert (h' = t) by congruence. subst h'. unfold CC in H2. cproj_in H2. congruence. }
      destruct (ph s u) as [| |h|h|d|]; auto.
      * exfalso. destruct T9 as (A & B & [(I0 & c & Hc & _)|(R1 & R2)]); [congruence|].
        assert (h = t) by congruence. subst h. unfold CC in R1. cproj_in R1. congruence.
      * destruct T9 as [A B]. split; [|exact B]. rewrite CC_after by exact Ep. destruct (Z.eq_dec d t) as [->|]; [|exact A].
        unfold CC in A. cproj_in A. congruence.
    + intros H. destruct (T11 H) as [A B]. split; [exact A|]. intros Hs. destruct (B Hs) as [B1 B2]. split; [exact B1|].
      intros Hp. destruct (B2 Hp) as [d Hd]. exists d. rewrite CC_after by exact Ep. destruct (Z.eq_dec d t) as [->|]; [|exact Hd].
      unfold CC in Hd. cproj_in Hd. congruence.
Qed.

Lemma step_S_call k f : pcs s t = S_call k f -> gstep s t e = Some s' -> Inv s'.
Proof.
  start Hpc. gett Hpc. cproj_in T1. cproj_in T8. cproj_in T13. specialize (T1 eq_refl). destruct (T8 eq_refl) as (P0 & E0 & S0).
  destruct (T13 eq_refl eq_refl) as (I1 & I2 & I3).
  bd Hts. ret_inv Hts. ba Ha.
  apply (begin_self_step (S_incall k f) s); rewrite ?Hpc; auto; try reflexivity.
  selfrec Hpc. intros _. rewrite I2. auto.
Qed.

(* t leaves the woken state: its phase is reset *)
Lemma wake_step p' s0 :
  ph s t = PhSigd -> wst (pcs s t) <> WNone -> holdpc (pcs s t) = false -> curpc (pcs s t) = false ->
  st s0 = st s -> lst s0 = lst s -> rootq s0 = rootq s -> token s0 = token s -> holder s0 = holder s -> cur s0 = cur s ->
  running s0 = running s -> overlap s0 = overlap s -> early_ret s0 = early_ret s -> (forall x, x <> t -> ph s0 x = ph s x) ->
  ist s0 = ist s -> runs s0 = runs s -> remote s0 = remote s -> ev s0 = ev s -> slp s0 = slp s -> pcs s0 = pcs s ->
  (holder s = Some t -> holdpc p' = true) -> tokpc p' = tokpc (pcs s t) -> incall p' = incall (pcs s t) ->
  sigof p' = None -> wakeof p' = None -> runof p' = None -> curpc p' = false -> dbwpc p' = false ->
  sigof (pcs s t) = None -> wakeof (pcs s t) = None -> runof (pcs s t) = None -> dbwpc (pcs s t) = false ->
  tinv (CC (set_pc s0 t p')) (set_pc s0 t p') t -> Inv (set_pc s0 t p').
Proof.
  intros Sg Hw Hnh Hnc E1 E2 E3 E4 E5 E6 E7 E8 E9 E10 E11 E12 E13 E14 E15 Ep Hp1 Hp0 Hp2 Hp3 Hp4 Hp5 Hp6 Hp7 Hq3 Hq4 Hq5 Hq7 Ht.
  inv_cc. pose proof (CC_after s0 p' Ep) as D.
  assert (NotT : forall w, (exists d, ph s w = PhSig d) \/ (exists h, ph s w = PhPopR h) \/ (exists h, ph s w = PhPopH h) \/ ph s w = PhQueued ->
                 ph s0 w = ph s w).
  { intros w Hw0. destruct (Z.eq_dec w t) as [->|N]; [|apply E10; exact N]. exfalso. rewrite Sg in Hw0.
    destruct Hw0 as [[d Hd]|[[h Hd]|[[h Hd]|Hd]]]; discriminate Hd. }
  split.
  - destruct G as [G1 G2 G3 G4 G5 G6 G7 G8]. constructor; sproj; rewrite ?E1, ?E2, ?E3, ?E4, ?E5, ?E6, ?E7, ?E8, ?E9, ?E13; auto.
    + intros h Hh'. destruct (G3 h Hh') as [V X]. split; [exact V|]. rewrite D. destruct (Z.eq_dec h t) as [->|N].
      * left. cproj. auto.
      * rewrite (E10 h N). exact X.
    + intros x Hx. specialize (G4 x Hx). rewrite D. destruct (Z.eq_dec x t) as [->|]; [|exact G4].
      unfold CC in G4. cproj. cproj_in G4. congruence.
    + intros c Hc'. destruct (G6 c Hc') as (h & H1 & H2 & H3). exists h. split; [exact H1|].
      unfold cur_ok in *. sproj. rewrite !D. destruct (Z.eq_dec h t) as [->|N].
      * exfalso. unfold CC in H2. cproj_in H2. congruence.
      * split; [exact H2|]. destruct H3 as [H3 H4]. split; [exact H3|]. destruct (is_waiter_kind (e_kind c)); [|exact H4].
        destruct H4 as [V P]. split; [exact V|]. rewrite NotT; [exact P|].
        match type of P with _ = (if ?cnd then _ else _) => destruct cnd end; [right; right; left; eauto|right; left; eauto].
    + rewrite Forall_forall in *. intros x Hx. specialize (G7 x Hx). unfold entry_ok in *. sproj.
      destruct (is_waiter_kind (e_kind x)); [|exact G7]. destruct G7 as [V P]. split; [exact V|].
      rewrite NotT; [exact P|]. right. right. right. exact P.
  - intros u. destruct (Z.eq_dec u t) as [->|Ne]; [exact Ht|].
    apply (tinv_frame_pht (CC s) _ s _ t u); sproj; rewrite ?E4, ?E5, ?E6, ?E7, ?E11, ?E12, ?E13, ?E14, ?E15; auto;
      try (intros y; rewrite D; destruct (Z.eq_dec y t) as [->|]; [unfold CC; cproj; congruence|reflexivity]);
      try (intros; rewrite Sg; discriminate); try apply T.
    rewrite D. destruct (Z.eq_dec u t); [contradiction|reflexivity].
Qed.

Lemma step_S_woken k : pcs s t = S_woken k -> gstep s t e = Some s' -> Inv s'.
Proof.
  start Hpc. gett Hpc. cproj_in T9. cproj_in T12. destruct (T12 eq_refl) as (Sg & E0 & S0).
  assert (Wt : waitinv (CC s) s t) by (apply T9; discriminate). unfold waitinv in Wt. rewrite Sg in Wt.
  destruct k.
  - (* dispatch_sync_f: the waiter runs the item itself *)
    bd Hts. ret_inv Hts. ba Ha.
    match goal with H : eqb (remote s t) false = true |- _ => apply eqb_prop in H; rename H into Rm end.
    destruct Wt as [[Hh (I1 & I2 & I3)]|(_ & _ & X)]; [|congruence].
    apply (begin_self_step (S_incall KS false) (set_ph s (upd (ph s) t PhNone))); sproj; rewrite ?Hpc; auto; try reflexivity;
      try (right; discriminate).
    + intros x Nx. rewrite upd_other by exact Nx. reflexivity.
    + right. rewrite upd_same. auto.
    + selfrec Hpc. intros _. rewrite I2. auto.
  - bd Hts.
    + (* dispatch_async_and_wait_f, handed the lock *) ret_inv Hts. ba Ha.
      match goal with H : eqb (remote s t) false = true |- _ => apply eqb_prop in H; rename H into Rm end.
      destruct Wt as [[Hh (I1 & I2 & I3)]|(_ & _ & X)]; [|congruence].
      apply wake_step; sproj; rewrite ?Hpc; auto; try reflexivity; try discriminate.
      * intros x Nx. rewrite upd_other by exact Nx. reflexivity.
      * selfrec Hpc.
    + (* the drainer ran the item: return *) ret_inv Hts. ba Ha.
      match goal with H : eqb (remote s t) true = true |- _ => apply eqb_prop in H; rename H into Rm end.
      destruct Wt as [[Hh (I1 & I2 & I3)]|(I1 & I2 & I3)]; [congruence|].
      assert (Nh : holder s <> Some t).
      { intros Hh. destruct (g_holder _ _ G t Hh) as [_ [X|(_ & _ & X & _)]]; [unfold CC in X; rewrite Hpc in X; discriminate X|congruence]. }
      apply wake_step; sproj; rewrite ?Hpc, ?I1; auto; try reflexivity; try discriminate; try contradiction.
      * rewrite (proj2 (g_flags _ _ G)). reflexivity.
      * intros x Nx. rewrite upd_other by exact Nx. reflexivity.
      * selfrec Hpc.
Qed.

Lemma step_S_incall k f : pcs s t = S_incall k f -> gstep s t e = Some s' -> Inv s'.
Proof.
  start Hpc. gett Hpc. cproj_in T1. cproj_in T4. cproj_in T8. cproj_in T14. specialize (T1 eq_refl). specialize (T4 eq_refl).
  destruct (T8 eq_refl) as (P0 & E0 & S0). destruct (T14 eq_refl) as (I1 & I2 & I3).
  bd Hts. ret_inv Hts. ba Ha.
  set (p' := match k, f with KS, true => S_tail | _, _ => B_tail CRet end).
  assert (Hp' : cls p' = cls S_tail) by (subst p'; destruct k, f; reflexivity).
  inv_cc.
  pose proof (CC_after (set_running (set_item s (upd (ist s) t IFin) (runs s) (remote s)) None (overlap s)) p' eq_refl) as D.
  split.
  - destruct G as [G1 G2 G3 G4 G5 G6 G7 G8]. constructor; sproj; auto.
    + intros h Hh. destruct (G3 h Hh) as [V X]. split; [exact V|]. rewrite D. destruct (Z.eq_dec h t) as [->|]; [|exact X].
      left. rewrite Hp'. reflexivity.
    + intros x Hx. discriminate Hx.
    + intros c Hc. destruct (G6 c Hc) as (h & H1 & H2 & H3). exfalso. assert (h = t) by congruence. subst h.
      unfold CC in H2. rewrite Hpc in H2. discriminate H2.
  - intros u. destruct (Z.eq_dec u t) as [->|Ne].
    + constructor; rewrite ?CC_set_pc_same, ?Hp'; cproj; unfold item0; sproj; rewrite ?upd_same; try discriminate;
        try (intros; discriminate); try (let H := fresh in intros H; exfalso; apply H; reflexivity);
        try (let H := fresh in intros _ H; exfalso; apply H; reflexivity); auto.
    + apply (tinv_frame (CC s) _ s); sproj; rewrite ?upd_other by exact Ne; auto;
        try (intros y; rewrite D; destruct (Z.eq_dec y t) as [->|]; [rewrite Hp'; unfold CC; rewrite Hpc; reflexivity|reflexivity]);
        try tauto; try apply T.
      * rewrite D. destruct (Z.eq_dec u t); [contradiction|reflexivity].
      * intros X. congruence.
Qed.

Lemma step_S_ret : pcs s t = S_ret -> gstep s t e = Some s' -> Inv s'.
Proof.
  start Hpc. gett Hpc. cproj_in T8. cproj_in T15. destruct (T8 eq_refl) as (P0 & E0 & S0). destruct (T15 eq_refl) as (I1 & I2 & I3).
  bd Hts. ret_inv Hts. ba Ha. rewrite I1. cbn [ist_fin negb]. rewrite orb_false_r.
  inv_cc. split.
  - apply (ginv_frame (CC s) _ s); [dims Hpc | dims Hpc | dims Hpc | dims Hpc | dims Hpc | ..]; sproj; try reflexivity; try apply G;
      try (intros; reflexivity).
  - intros u. destruct (Z.eq_dec u t) as [->|Ne]; [tself|others u Ne Hpc].
Qed.

Lemma cur_none_if_not_curpc : holder s = Some t -> curpc (pcs s t) = false -> cur s = None.
Proof.
  intros Hh Hc. destruct (cur s) as [c|] eqn:Ec; [|reflexivity]. exfalso. destruct (g_cur _ _ G c Ec) as (h' & H1 & H2 & _).
  assert (h' = t) by congruence. subst h'. unfold CC in H2. cproj_in H2. congruence.
Qed.

(* the holder t gives the drain lock back *)
Lemma release_step p' s0 :
  holder s = Some t -> curpc (pcs s t) = false -> runof (pcs s t) = None -> incall (pcs s t) = false ->
  sigof (pcs s t) = None -> wakeof (pcs s t) = None ->
  wordinv (st s0) None (is_some (token s0)) -> rootq s0 = (match token s0 with Some None => 1 | _ => 0 end) ->
  (forall u, u <> t -> (token s0 = Some (Some u) <-> token s = Some (Some u))) ->
  lst s0 = lst s -> holder s0 = None -> cur s0 = cur s ->
  running s0 = running s -> overlap s0 = overlap s -> early_ret s0 = early_ret s -> ph s0 = ph s ->
  ist s0 = ist s -> runs s0 = runs s -> remote s0 = remote s -> ev s0 = ev s -> slp s0 = slp s -> pcs s0 = pcs s ->
  incall p' = false -> sigof p' = None -> wakeof p' = None -> runof p' = None ->
  tinv (CC (set_pc s0 t p')) (set_pc s0 t p') t -> Inv (set_pc s0 t p').
Proof.
  intros Hh Hc Hr Hi Hsg Hwk Wn Rq Tk E2 E5 E6 E7 E8 E9 E10 E11 E12 E13 E14 E15 Ep Hp2 Hp3 Hp4 Hp5 Ht.
  pose proof (cur_none_if_not_curpc Hh Hc) as Cn. inv_cc. pose proof (CC_after s0 p' Ep) as D.
  split.
  - destruct G as [G1 G2 G3 G4 G5 G6 G7 G8]. constructor; sproj; rewrite ?E2, ?E5, ?E6, ?E7, ?E8, ?E9, ?E10; auto.
    + intros h Hh'. discriminate Hh'.
    + intros x Hx. specialize (G4 x Hx). rewrite D. destruct (Z.eq_dec x t) as [->|]; [|exact G4].
      unfold CC in G4. cproj_in G4. congruence.
    + intros c Hc'. congruence.
    + rewrite Forall_forall in *. intros x Hx. specialize (G7 x Hx). unfold entry_ok in *. sproj. rewrite E10. exact G7.
  - intros u. destruct (Z.eq_dec u t) as [->|Ne]; [exact Ht|].
    apply (tinv_release (CC s) _ s _ u) with (t := t); sproj; rewrite ?E5, ?E6, ?E7, ?E10, ?E11, ?E12, ?E13, ?E14, ?E15; auto;
      try (intros y; rewrite D; destruct (Z.eq_dec y t) as [->|]; [unfold CC; cproj; congruence|reflexivity]);
      try apply T.
    rewrite D. destruct (Z.eq_dec u t); [contradiction|reflexivity].
Qed.

Ltac cas_ok old :=
  match goal with H : (st s =? old) = true |- _ => apply Z.eqb_eq in H; symmetry in H; subst old end.
Ltac eb_is new :=
  match goal with H : _ && (eb e =? new) = true |- _ => apply andb_true_iff in H as [_ H]; apply Z.eqb_eq in H; rewrite H in * end.

Lemma step_S_ubody old : pcs s t = S_ubody old -> gstep s t e = Some s' -> Inv s'.
Proof.
  start Hpc. gett Hpc. cproj_in T1. specialize (T1 eq_refl). cproj_in T8. cproj_in T15.
  destruct (T8 eq_refl) as (P0 & E0 & S0). destruct (T15 eq_refl) as (I1 & I2 & I3).
  destruct (b_unlock old) as [new xr| | |] eqn:Hb; try discriminate Hts. bd Hts. ret_inv Hts. ba Ha.
  - cas_ok old. eb_is new. pose proof (g_word _ _ G) as Wd. rewrite T1 in Wd.
    destruct (t_bunlock _ _ _ _ _ Wd Hb) as [Tk Wn].
    pose proof (wordinv_changed_enq _ _ _ _ _ _ Wd Wn) as Ch. rewrite Tk in Ch. cbn in Ch. rewrite Ch.
    apply release_step; sproj; rewrite ?Hpc; auto; try reflexivity.
    + rewrite Tk. exact Wn.
    + apply (g_rootq _ _ G).
    + selfrec Hpc.
  - local_fin. rewrite Hpc. unfold after_uload. destruct (b_unlock (ea e)); reflexivity.
Qed.

Lemma step_C_xor c : pcs s t = C_xor c -> gstep s t e = Some s' -> Inv s'.
Proof.
  start Hpc. bd Hts. ret_inv Hts. ba Ha. apply word_step; [apply t_xor; apply (g_word _ _ G)|rewrite Hpc; reflexivity].
Qed.
Lemma step_W_xor o : pcs s t = W_xor o -> gstep s t e = Some s' -> Inv s'.
Proof.
  start Hpc. bd Hts. ret_inv Hts. ba Ha. apply word_step; [apply t_xor; apply (g_word _ _ G)|rewrite Hpc; reflexivity].
Qed.

Lemma step_C_root c : pcs s t = C_root c -> gstep s t e = Some s' -> Inv s'.
Proof.
  start Hpc. gett Hpc. cproj_in T3. bd Hts. ret_inv Hts. ba Ha.
  destruct c as [|k| |o n]; try discriminate T3.
  - apply rootpush_step; rewrite ?Hpc; try reflexivity; [intros; apply T|]. cproj_in T8. cproj_in T15. selfrec Hpc.
    split; [discriminate|]. intros H. discriminate H.
  - apply rootpush_step; rewrite ?Hpc; try reflexivity; [intros; apply T|]. cproj_in T9. cproj_in T10. selfrec Hpc.
    + split; [discriminate|]. intros H. discriminate H.
    + keepwait Hpc T9.
Qed.

Lemma waitinv_released s0 p' :
  holder s = Some t -> cur s = None -> waitinv (CC s) s t ->
  (match ph s t with PhSig _ | PhSigd => remote s t = true | _ => True end) ->
  holder s0 = None -> cur s0 = cur s -> ph s0 = ph s -> ist s0 = ist s -> runs s0 = runs s -> remote s0 = remote s ->
  pcs s0 = pcs s -> sigof (pcs s t) = None -> runof (pcs s t) = None ->
  waitinv (CC (set_pc s0 t p')) (set_pc s0 t p') t.
Proof.
  intros Hh Cn Wt Tk E5 E6 E10 E11 E12 E13 Ep Hsg Hr. pose proof (CC_after s0 p' Ep) as D.
  unfold waitinv, handed_or_done, item0 in *. sproj. rewrite E5, E6, E10, E11, E12, E13. rewrite Cn in *.
  destruct (ph s t) as [| |h|h|d|]; auto.
  - destruct Wt as (_ & _ & c & X & _). discriminate X.
  - destruct Wt as (A & B & [(_ & c & X & _)|(R1 & _)]); [discriminate X|]. assert (h = t) by congruence. contradiction.
  - destruct Wt as [A [[_ (_ & _ & X)]|B]]; [congruence|]. split; [|right; exact B].
    rewrite D. destruct (Z.eq_dec d t) as [->|]; [|exact A]. unfold CC in A. cproj_in A. congruence.
  - destruct Wt as [[_ (_ & _ & X)]|B]; [congruence|]. right. exact B.
Qed.

Lemma step_C_body c enq old : pcs s t = C_body c enq old -> gstep s t e = Some s' -> Inv s'.
Proof.
  start Hpc. gett Hpc. cproj_in T1. specialize (T1 eq_refl). cproj_in T2. cproj_in T3.
  apply andb_true_iff in T3 as [Tc Te].
  pose proof (g_word _ _ G) as Wd. rewrite T1 in Wd.
  bd Hts. ret_inv Hts.
  match goal with H : _ && ex_commit _ _ = true |- _ => apply andb_true_iff in H as [_ H]; apply ex_commit_elim in H as (q & xr & Hq & Hb) end.
  ba Ha.
  - (* released *) cas_ok old.
    apply orb_true_iff in Te as [Te|Te]; apply Z.eqb_eq in Te; subst enq.
    + (* nothing to enqueue *)
      pose proof (t_cbc_none _ _ _ _ _ _ Wd Hq Hb) as Wn.
      pose proof (wordinv_changed_enq _ _ _ _ _ _ Wd Wn) as Ch. rewrite eqb_reflx in Ch. cbn [negb] in Ch. rewrite Ch.
      change (nz 0) with false. cbn [andb]. cbv iota.
      apply release_step; sproj; rewrite ?Hpc; cproj; auto; try reflexivity; try (destruct c; try discriminate Tc; reflexivity).
      * apply (g_rootq _ _ G).
      * destruct c as [|k| |]; try discriminate Tc; cproj_in T8; cproj_in T9; cproj_in T10; cproj_in T15; cproj_in T16; selfrec Hpc.
        intros _. apply waitinv_released; sproj; rewrite ?Hpc; auto; [apply cur_none_if_not_curpc; rewrite ?Hpc; auto|apply T9; discriminate|apply T16; auto; discriminate].
    + (* hand the lane back to the root queue if nobody else did *)
      pose proof (t_cbc_enq _ _ _ _ _ _ Wd Hq Hb) as Wn.
      pose proof (wordinv_changed_enq _ _ _ _ _ _ Wd Wn) as Ch. pose proof (wordinv_enq_bit _ _ _ Wn) as Eb.
      change (nz ENQ) with true. cbn [andb].
      destruct (is_some (token s)) eqn:Tk; cbn in Ch; rewrite Ch; cbv iota.
      * (* already enqueued by somebody else *)
        apply release_step; sproj; rewrite ?Hpc, ?Tk; cproj; auto; try reflexivity; try (destruct c; try discriminate Tc; reflexivity).
        -- apply (g_rootq _ _ G).
        -- destruct c as [|k| |]; try discriminate Tc; cproj_in T8; cproj_in T9; cproj_in T10; cproj_in T15; cproj_in T16; selfrec Hpc.
           intros _. apply waitinv_released; sproj; rewrite ?Hpc; auto; [apply cur_none_if_not_curpc; rewrite ?Hpc; auto|apply T9; discriminate|apply T16; auto; discriminate].
      * (* this thread now holds the token *)
        rewrite Eb. apply tok_none in Tk.
        apply release_step; sproj; rewrite ?Hpc; cproj; auto; try reflexivity; try (destruct c; try discriminate Tc; reflexivity).
        -- rewrite (g_rootq _ _ G), Tk. reflexivity.
        -- intros u Ne. rewrite Tk. split; intros H; [injection H as H; congruence|discriminate H].
        -- destruct c as [|k| |]; try discriminate Tc; cproj_in T8; cproj_in T9; cproj_in T10; cproj_in T15; cproj_in T16; selfrec Hpc;
             try (split; auto).
           intros _. apply waitinv_released; sproj; rewrite ?Hpc; auto; [apply cur_none_if_not_curpc; rewrite ?Hpc; auto|apply T9; discriminate|apply T16; auto; discriminate].
  - (* failed *) local_fin. rewrite Hpc. unfold after_cload. pose proof Tc as Tc'.
    destruct (b_cbc enq (ea e) 0); unfold cls; cproj; rewrite ?Tc, ?Te; reflexivity.
Qed.

Lemma step_W_ubody o old : pcs s t = W_ubody o old -> gstep s t e = Some s' -> Inv s'.
Proof.
  start Hpc. gett Hpc. cproj_in T1. specialize (T1 eq_refl). cproj_in T2. cproj_in T3. cproj_in T8. apply Z.eqb_eq in T3. subst o.
  destruct (T8 eq_refl) as (P0 & E0 & S0). assert (Tk : token s = Some (Some t)) by (apply T2; reflexivity).
  destruct (b_dunlock OWN old) as [new xr| | |] eqn:Hb; try discriminate Hts. bd Hts. ret_inv Hts. ba Ha.
  - cas_ok old. eb_is new. pose proof (g_word _ _ G) as Wd. rewrite T1, Tk in Wd. cbn [is_some] in Wd.
    pose proof (t_dunlock _ _ _ _ Wd Hb) as Wn.
    pose proof (wordinv_changed_enq _ _ _ _ _ _ Wd Wn) as Ch. cbn in Ch. rewrite Ch. rewrite (wordinv_enq_bit _ _ _ Wn).
    apply release_step; sproj; rewrite ?Hpc; auto; try reflexivity.
    + rewrite (g_rootq _ _ G), Tk. reflexivity.
    + intros u Ne. rewrite Tk. split; intros H; [discriminate H|injection H as H; congruence].
    + selfrec Hpc. split; intros H; discriminate H.
  - local_fin. rewrite Hpc. unfold after_wuload. destruct (b_dunlock OWN (ea e)); reflexivity.
Qed.

Lemma step_W_lbody fl old : pcs s t = W_lbody fl old -> gstep s t e = Some s' -> Inv s'.
Proof.
  start Hpc. gett Hpc. cproj_in T2. cproj_in T8. destruct (T8 eq_refl) as (P0 & E0 & S0).
  assert (Tk : token s = Some (Some t)) by (apply T2; reflexivity).
  destruct (b_lock t 7 old) as [new owned| | |] eqn:Hb; try discriminate Hts.
  pose proof (g_word _ _ G) as Wd. rewrite Tk in Wd. cbn [is_some] in Wd.
  bd Hts.
  - (* the lane is locked by somebody else: drop the enqueued bit *) ret_inv Hts. ba Ha. cas_ok old.
    match goal with H : _ && (eb e =? new) && _ = true |- _ => apply andb_true_iff in H as [H _]; apply andb_true_iff in H as [_ H]; apply Z.eqb_eq in H; rewrite H in * end.
    pose proof (t_lock _ _ _ _ _ _ _ Wd valid_lt Hb) as Wn.
    destruct (holder s) as [h|] eqn:Hh; [|destruct Wn as [_ X]; match goal with H : (owned =? 0) = true |- _ => apply Z.eqb_eq in H; lia end].
    destruct Wn as [Wn _]. cbn [negb] in Wn.
    pose proof (wordinv_changed_enq _ _ _ _ _ _ Wd Wn) as Ch. cbn in Ch. rewrite Ch. rewrite (wordinv_enq_bit _ _ _ Wn).
    inv_cc. pose proof (CC_after (set_token (set_st s new) None) Idle eq_refl) as D.
    split.
    + apply (ginv_frame_tok (CC s) _ s); try (intros y; rewrite D; destruct (Z.eq_dec y t) as [->|]; [unfold CC; rewrite Hpc; reflexivity|reflexivity]);
        sproj; try reflexivity; try apply G; try (intros; reflexivity).
      * rewrite Hh. exact Wn.
      * rewrite (g_rootq _ _ G), Tk. reflexivity.
    + intros u. destruct (Z.eq_dec u t) as [->|Ne]; [selfrec Hpc; split; intros H; discriminate H|].
      apply (tinv_frame (CC s) _ s); sproj; auto;
        try (intros y; rewrite D; destruct (Z.eq_dec y t) as [->|]; [unfold CC; rewrite Hpc; reflexivity|reflexivity]);
        try tauto; try apply T.
      * rewrite D. destruct (Z.eq_dec u t); [contradiction|reflexivity].
      * rewrite Tk. split; intros H; [discriminate H|injection H as H; congruence].
  - (* locked *) ret_inv Hts. ba Ha. cas_ok old.
    match goal with H : _ && (eb e =? new) && _ = true |- _ => apply andb_true_iff in H as [H _]; apply andb_true_iff in H as [_ H]; apply Z.eqb_eq in H; rewrite H in * end.
    pose proof (t_lock _ _ _ _ _ _ _ Wd valid_lt Hb) as Wn.
    destruct (holder s) as [h|] eqn:Hh; [destruct Wn as [_ X]; match goal with H : (owned =? 0) = false |- _ => apply Z.eqb_neq in H; contradiction end|].
    destruct Wn as [Wn Ow]. 
    pose proof (wordinv_changed_enq _ _ _ _ _ _ Wd Wn) as Ch. cbn in Ch. rewrite Ch.
    apply acquire_step; rewrite ?Hpc, ?Tk; auto.
    selfrec Hpc. subst owned. reflexivity.
  - (* compare-exchange failed *) ret_inv Hts. ba Ha. local_fin. rewrite Hpc. reflexivity.
  - (* the lock attempt restarts with a higher floor *) ret_inv Hts. ba Ha. local_fin. rewrite Hpc. reflexivity.
Qed.

(* the lock holder pops the head of the list *)
Lemma pop1_step e1 rest tz p' :
  holder s = Some t -> lst s = e1 :: rest -> cur s = None -> curpc (pcs s t) = false -> holdpc (pcs s t) = true ->
  incall (pcs s t) = false -> sigof (pcs s t) = None -> wakeof (pcs s t) = None -> runof (pcs s t) = None ->
  (dbwpc p' = true -> is_waiter_kind (e_kind e1) = true) -> (wst p' <> WNone -> dbwpc p' = true) ->
  holdpc p' = true -> tokpc p' = tokpc (pcs s t) -> wst p' = wst (pcs s t) -> cst p' = cst (pcs s t) -> incall p' = false ->
  sigof p' = None -> wakeof p' = None -> runof p' = None -> curpc p' = true -> sleeppc p' = false ->
  wfpc p' = true ->
  let s1 := set_cur (set_list s rest tz) (Some e1) in
  let s2 := if is_waiter_kind (e_kind e1)
            then set_ph s1 (upd (ph s) (e_own e1) (if dbwpc p' || is_sync_kind (e_kind e1) then PhPopH t else PhPopR t)) else s1 in
  Inv (set_pc s2 t p').
Proof.
  intros Hh Hl Cn Hcp Hhp Hic Hsg Hwk Hrn Hdw Hwd P1 P2 P3 P4 P5 P6 P7 P8 P9 P11 P12 s1 s2.
  pose proof (g_list _ _ G) as GL. rewrite Hl in GL. inversion GL as [|? ? Ok1 Okr]; subst.
  pose proof (g_nodup _ _ G) as GN. rewrite Hl in GN.
  set (w := e_own e1). set (newph := if dbwpc p' || is_sync_kind (e_kind e1) then PhPopH t else PhPopR t).
  assert (Es2 : st s2 = st s /\ lst s2 = rest /\ rootq s2 = rootq s /\ token s2 = token s /\ holder s2 = holder s /\
                cur s2 = Some e1 /\ running s2 = running s /\ overlap s2 = overlap s /\ early_ret s2 = early_ret s /\
                ist s2 = ist s /\ runs s2 = runs s /\ remote s2 = remote s /\ ev s2 = ev s /\ slp s2 = slp s /\ pcs s2 = pcs s /\
                ph s2 = (if is_waiter_kind (e_kind e1) then upd (ph s) w newph else ph s)).
  { subst s2 s1. destruct (is_waiter_kind (e_kind e1)); sproj; repeat split; reflexivity. }
  destruct Es2 as (E1 & E2 & E3 & E4 & E5 & E6 & E7 & E8 & E9 & E11 & E12 & E13 & E14 & E15 & Ep & E10).
  clearbody s2. clear s1.
  (* facts about the popped entry *)
  assert (Kw : is_waiter_kind (e_kind e1) = true -> valid_tid w /\ ph s w = PhQueued /\ ~ In w (waiters rest)).
  { intros K. unfold entry_ok in Ok1. rewrite K in Ok1. destruct Ok1 as [V P]. split; [exact V|]. split; [exact P|].
    unfold waiters in GN. cbn [filter] in GN. rewrite K in GN. cbn [map] in GN. inversion GN; subst. assumption. }
  assert (PhO : forall x, (is_waiter_kind (e_kind e1) = true -> x <> w) -> ph s2 x = ph s x).
  { intros x Hx. rewrite E10. destruct (is_waiter_kind (e_kind e1)); [|reflexivity]. rewrite upd_other; [reflexivity|]. apply Hx. reflexivity. }
  inv_cc. pose proof (CC_after s2 p' Ep) as D.
  split.
  - destruct G as [G1 G2 G3 G4 G5 G6 G7 G8]. constructor; sproj; rewrite ?E1, ?E2, ?E3, ?E4, ?E5, ?E6, ?E7, ?E8, ?E9, ?E13; auto.
    + intros h Hh'. assert (h = t) by congruence. subst h. split; [exact Vt|]. left. rewrite CC_set_pc_same. cproj. exact P1.
    + intros x Hx. specialize (G4 x Hx). rewrite D. destruct (Z.eq_dec x t) as [->|]; [|exact G4].
      unfold CC in G4. cproj_in G4. congruence.
    + intros c Hc'. injection Hc' as <-. exists t. split; [exact Hh|]. rewrite CC_set_pc_same. cproj. split; [exact P9|].
      unfold cur_ok. sproj. rewrite CC_set_pc_same. cproj. split; [exact Hdw|].
      destruct (is_waiter_kind (e_kind e1)) eqn:K.
      * destruct (Kw eq_refl) as (V & _ & _). split; [exact V|]. rewrite E10. fold w. rewrite upd_same. reflexivity.
      * unfold entry_ok in Ok1. rewrite K in Ok1. exact Ok1.
    + rewrite Forall_forall in *. intros x Hx. specialize (Okr x Hx). unfold entry_ok in *. sproj.
      destruct (is_waiter_kind (e_kind x)) eqn:Kx; [|exact Okr]. destruct Okr as [V P]. split; [exact V|].
      rewrite PhO; [exact P|]. intros K Eq. destruct (Kw K) as (_ & _ & NI). apply NI. unfold waiters. rewrite in_map_iff.
      exists x. split; [exact Eq|]. apply filter_In. auto.
    + unfold waiters in *. cbn [filter] in GN. destruct (is_waiter_kind (e_kind e1)); [cbn [map] in GN; inversion GN; assumption|exact GN].
  - intros u. pose proof (T u) as Tu. destruct (Z.eq_dec u t) as [->|Ne].
    + (* the popper itself *)
      unfold CC in Tu. destruct Tu as [T1 T2 T3 T4 T5 T6 T7 T8 T9 T10 T11 T12 T13 T14 T15 T16].
      assert (PhT : is_waiter_kind (e_kind e1) = true -> t = w -> wst p' <> WNone ->
                    ph s t = PhQueued /\ ph s2 t = PhPopH t).
      { intros K Etw Hw. destruct (Kw K) as (_ & Q & _). rewrite <- Etw in Q. split; [exact Q|].
        rewrite E10, K, <- Etw, upd_same. subst newph. rewrite (Hwd Hw). reflexivity. }
      assert (PhT' : ~ (is_waiter_kind (e_kind e1) = true /\ t = w) -> ph s2 t = ph s t).
      { intros N. apply PhO. intros K Eq. apply N. auto. }
      assert (NoR : forall h, ph s t = PhPopR h -> wst (pcs s t) <> WNone -> False).
      { intros h Q Hw. specialize (T9 Hw). unfold waitinv in T9. rewrite Q in T9.
        destruct T9 as (A & B & _). assert (h = t) by congruence. contradiction. }
      assert (NoH : forall h, ph s t = PhPopH h -> wst (pcs s t) <> WNone -> False).
      { intros h Q Hw. specialize (T9 Hw). unfold waitinv in T9. rewrite Q in T9.
        destruct T9 as (_ & _ & c & X & _). congruence. }
      assert (Cases : (is_waiter_kind (e_kind e1) = true /\ t = w) \/ ~ (is_waiter_kind (e_kind e1) = true /\ t = w)).
      { destruct (is_waiter_kind (e_kind e1)); [|right; intros [X _]; discriminate X].
        destruct (Z.eq_dec t w); [left; auto|right; intros [_ X]; contradiction]. }
      constructor; rewrite ?CC_set_pc_same; cproj; unfold item0; sproj;
        rewrite ?P1, ?P2, ?P3, ?P4, ?P5, ?P6, ?P7, ?P8, ?P9, ?P11, ?P12, ?E4, ?E5, ?E6, ?E7, ?E11, ?E12, ?E13, ?E14, ?E15;
        try discriminate; try (intros; discriminate); auto.
      * intros Hw. destruct (T8 Hw) as (A & B & C0). rewrite PhT'; [auto|]. intros [K Eq]. destruct (Kw K) as (_ & Q & _).
        rewrite <- Eq in Q. congruence.
      * intros Hw. specialize (T9 Hw). unfold waitinv, handed_or_done, item0 in *. sproj. rewrite E5, E6, E11, E12, E13.
        destruct Cases as [[K Etw]|N].
        -- rewrite <- P3 in Hw. destruct (PhT K Etw Hw) as [Q Q2]. rewrite Q in T9. rewrite Q2.
           split; [exact T9|]. split; [exact Hh|]. exists e1. auto.
        -- rewrite (PhT' N). destruct (ph s t) as [| |h|h|d|] eqn:Q; auto.
           ++ exfalso. apply (NoH h eq_refl Hw).
           ++ exfalso. apply (NoR h eq_refl Hw).
           ++ destruct T9 as [A B]. split; [|exact B]. rewrite D. destruct (Z.eq_dec d t) as [->|]; [|exact A].
              unfold CC in A. cproj_in A. congruence.
      * intros Hw. destruct (T10 Hw) as [A B]. split; [|exact B]. rewrite A.
        destruct Cases as [[K Etw]|N].
        -- assert (Hw' : wst p' <> WNone) by (rewrite P3, Hw; discriminate). destruct (PhT K Etw Hw') as [Q Q2]. rewrite Q, Q2. reflexivity.
        -- rewrite (PhT' N). reflexivity.
      * intros Hw. destruct (T11 Hw) as [A B].
        assert (Eq : ph s2 t = ph s t \/ (ph s t = PhQueued /\ ph s2 t = PhPopH t)).
        { destruct Cases as [[K Etw]|N]; [right; apply (PhT K Etw); rewrite P3, Hw; discriminate|left; exact (PhT' N)]. }
        destruct Eq as [Eq|[Q Q2]].
        -- exfalso. apply (hold_not_post _ Hhp Hw).
        -- exfalso. apply (hold_not_post _ Hhp Hw).
      * intros Hw. exfalso. apply (hold_not_woken _ Hhp Hw).
      * intros _ Hw. cproj_in T16. specialize (T16 Hhp Hw).
        destruct Cases as [[K Etw]|N].
        -- assert (Hw' : wst p' <> WNone) by (rewrite P3; exact Hw). destruct (PhT K Etw Hw') as [Q Q2]. rewrite Q2. exact I.
        -- rewrite (PhT' N). exact T16.
    + (* everybody else *)
      assert (Cu : CC (set_pc s2 t p') u = CC s u) by (rewrite D; destruct (Z.eq_dec u t); [contradiction|reflexivity]).
      assert (NotHold : c_hold (CC s u) = false).
      { destruct (c_hold (CC s u)) eqn:X; [|reflexivity]. pose proof (t_hold _ _ _ Tu X). congruence. }
      destruct Tu as [T1 T2 T3 T4 T5 T6 T7 T8 T9 T10 T11 T12 T13 T14 T15 T16].
      assert (SigU : forall d, c_sig (CC (set_pc s2 t p') d) = Some u -> c_sig (CC s d) = Some u).
      { intros d. rewrite D. destruct (Z.eq_dec d t) as [->|]; [cproj; rewrite P6; discriminate|auto]. }
      destruct (is_waiter_kind (e_kind e1)) eqn:K.
      * destruct (Kw eq_refl) as (Vw & Qw & NIw).
        destruct (Z.eq_dec u w) as [Euw|Nuw].
        -- (* the waiter whose context was popped *)
           assert (Pu : ph s2 u = newph) by (rewrite E10, Euw, upd_same; reflexivity).
           assert (Qu : ph s u = PhQueued) by (rewrite Euw; exact Qw).
           assert (Wn : c_wst (CC s u) <> WNone).
           { intros X. destruct (T8 X) as (A & _). congruence. }
           specialize (T9 Wn). unfold waitinv in T9. rewrite Qu in T9.
           constructor; rewrite ?Cu; unfold item0; sproj; rewrite ?E4, ?E5, ?E6, ?E7, ?E11, ?E12, ?E13, ?E14, ?E15, ?Pu; auto.
           ++ intros x Hx. rewrite PhO; [auto|]. intros _ Ex. subst x. specialize (T5 _ Hx). congruence.
           ++ intros x Hx Nx. rewrite PhO; [auto|]. intros _ Ex. subst x. specialize (T6 _ Hx Nx). congruence.
           ++ intros _. discriminate.
           ++ intros X. exfalso. apply Wn. exact X.
           ++ intros _. unfold waitinv, handed_or_done, item0. sproj. rewrite Pu, E5, E6, E11, E12, E13. subst newph.
              destruct (dbwpc p' || is_sync_kind (e_kind e1)).
              ** split; [exact T9|]. split; [exact Hh|]. exists e1. auto.
              ** split; [exact Hh|]. split; [congruence|]. left. split; [exact T9|]. exists e1. auto.
           ++ intros X. destruct (T10 X) as [A B]. split; [|exact B]. rewrite A, Qu. subst newph. destruct (dbwpc p' || is_sync_kind (e_kind e1)); reflexivity.
           ++ intros X. destruct (T11 X) as [A B]. rewrite Qu in A, B. split; [rewrite A; subst newph; destruct (dbwpc p' || is_sync_kind (e_kind e1)); reflexivity|].
              intros Hs. destruct (B Hs) as [B1 B2]. split; [exact B1|]. intros Y. subst newph. destruct (dbwpc p' || is_sync_kind (e_kind e1)); discriminate Y.
           ++ intros X. destruct (T12 X) as (A & _). congruence.
           ++ rewrite NotHold. discriminate.
        -- (* an unrelated thread *)
           assert (Pu : ph s2 u = ph s u) by (apply PhO; intros _; exact Nuw).
           constructor; rewrite ?Cu; unfold item0; sproj; rewrite ?E4, ?E5, ?E6, ?E7, ?E11, ?E12, ?E13, ?E14, ?E15, ?Pu; auto.
           ++ intros x Hx. rewrite PhO; [auto|]. intros _ Ex. subst x. specialize (T5 _ Hx). congruence.
           ++ intros x Hx Nx. rewrite PhO; [auto|]. intros _ Ex. subst x. specialize (T6 _ Hx Nx). congruence.
           ++ intros _. discriminate.
           ++ intros X. specialize (T9 X). unfold waitinv, handed_or_done, item0 in *. sproj. rewrite Pu, E5, E6, E11, E12, E13.
              destruct (ph s u) as [| |h|h|d|]; auto.
              ** destruct T9 as (_ & _ & c & Y & _). congruence.
              ** destruct T9 as (A & B & [(_ & c & Y & _)|(R1 & R2)]); [congruence|]. assert (h = t) by congruence. subst h.
                 unfold CC in R1. cproj_in R1. congruence.
              ** destruct T9 as [A B]. split; [|exact B]. rewrite D. destruct (Z.eq_dec d t) as [->|]; [|exact A].
                 unfold CC in A. cproj_in A. congruence.
           ++ intros X. destruct (T11 X) as [A B]. split; [exact A|]. intros Hs. destruct (B Hs) as [B1 B2]. split; [exact B1|].
              intros Y. destruct (B2 Y) as [d Hd]. exists d. rewrite D. destruct (Z.eq_dec d t) as [->|]; [|exact Hd].
              unfold CC in Hd. cproj_in Hd. congruence.
      * (* an asynchronous item was popped: no phase changes *)
        assert (Pu : forall x, ph s2 x = ph s x) by (intros x; apply PhO; intros X; discriminate X).
        constructor; rewrite ?Cu; unfold item0; sproj; rewrite ?E4, ?E5, ?E6, ?E7, ?E11, ?E12, ?E13, ?E14, ?E15, ?Pu; auto.
        -- intros x Hx. rewrite Pu. auto.
        -- intros x Hx Nx. rewrite Pu. auto.
        -- intros _. discriminate.
        -- intros X. specialize (T9 X). unfold waitinv, handed_or_done, item0 in *. sproj. rewrite Pu, E5, E6, E11, E12, E13.
           destruct (ph s u) as [| |h|h|d|]; auto.
           ++ destruct T9 as (_ & _ & c & Y & _). congruence.
           ++ destruct T9 as (A & B & [(_ & c & Y & _)|(R1 & R2)]); [congruence|]. assert (h = t) by congruence. subst h.
              unfold CC in R1. cproj_in R1. congruence.
           ++ destruct T9 as [A B]. split; [|exact B]. rewrite D. destruct (Z.eq_dec d t) as [->|]; [|exact A].
              unfold CC in A. cproj_in A. congruence.
        -- intros X. destruct (T11 X) as [A B]. split; [exact A|]. intros Hs. destruct (B Hs) as [B1 B2]. split; [exact B1|].
           intros Y. destruct (B2 Y) as [d Hd]. exists d. rewrite D. destruct (Z.eq_dec d t) as [->|]; [|exact Hd].
           unfold CC in Hd. cproj_in Hd. congruence.
Qed.

Lemma step_W_pop o : pcs s t = W_pop o -> gstep s t e = Some s' -> Inv s'.
Proof.
  start Hpc. gett Hpc. cproj_in T1. specialize (T1 eq_refl). cproj_in T3.
  bd Hts. ret_inv Hts.
  apply acts_cons in Ha as (sx & HX & Ha). apply acts_nil in Ha. subst sx. cbn [apply_act] in HX.
  destruct (lst s) as [|e1 rest] eqn:Hl; [discriminate HX|]. destruct (cur s) as [c|] eqn:Cn; [discriminate HX|].
  bd HX; injection HX as <-; destruct (eb e =? 0) eqn:En;
  (apply pop1_step; rewrite ?Hpc; auto; try reflexivity; try discriminate;
   try (let X := fresh in intros X; exfalso; apply X; reflexivity)).
Qed.

Lemma step_B_dec c : pcs s t = B_dec c -> gstep s t e = Some s' -> Inv s'.
Proof.
  start Hpc. gett Hpc. cproj_in T1. specialize (T1 eq_refl). cproj_in T3.
  bd Hts.
  - (* the head is a waiter: pop it and hand the lock over *) ret_inv Hts.
    apply acts_cons in Ha as (sx & HX & Ha). cbn [apply_act] in HX.
    destruct (lst s) as [|e1 rest] eqn:Hl; [discriminate HX|]. bd HX. injection HX as <-.
    match goal with H : eqb (is_waiter_kind (e_kind e1)) true = true |- _ => apply eqb_prop in H; rename H into K end.
    apply acts_cons in Ha as (sx & HX & Ha). apply acts_nil in Ha. subst sx. cbn [apply_act] in HX. rewrite Hl in HX.
    destruct (cur s) as [c0|] eqn:Cn; [discriminate HX|].
    bd HX; injection HX as <-; destruct (eb e =? 0) eqn:En;
    (apply pop1_step; rewrite ?Hpc; cproj; auto; try reflexivity; try discriminate;
     try (destruct c; try discriminate T3; reflexivity)).
  - (* anything else: give the lane back *) ret_inv Hts. ba Ha.
    local_fin. rewrite Hpc. unfold after_cload. destruct (b_cbc ENQ (ea e) 0); unfold cls; cproj; rewrite ?T3; reflexivity.
Qed.

(* the lock holder t hands the drain lock to waiter w, whose context it has popped *)
Lemma xfer_step c w new tk' c0 :
  pcs s t = D_body c (if cont_work c then ENQ else 0) (st s) -> cont_hold c = false ->
  holder s = Some t -> cur s = Some c0 -> e_own c0 = w -> is_waiter_kind (e_kind c0) = true ->
  wordinv new (Some w) (is_some tk') -> rootq s = (match tk' with Some None => 1 | _ => 0 end) ->
  (tk' = Some (Some t) <-> False) -> (forall u, u <> t -> (tk' = Some (Some u) <-> token s = Some (Some u))) ->
  Inv (set_pc (set_ph (set_cur (set_holder (set_token (set_st s new) tk') (Some w)) None) (upd (ph s) w (PhSig t))) t (G_sig c w)).
Proof.
  intros Hpc Hch Hh Hcur Hown Hk Wn Rq Tkt Tku.
  pose proof (T t) as Tt. unfold CC in Tt. destruct Tt as [T1 T2 T3 T4 T5 T6 T7 T8 T9 T10 T11 T12 T13 T14 T15 T16]. rewrite Hpc in *.
  destruct (g_cur _ _ G c0 Hcur) as (h & H1 & H2 & H3). assert (h = t) by congruence. subst h.
  unfold cur_ok, CC in H3. rewrite Hpc in H3. cproj_in H3. destruct H3 as [_ H3]. rewrite Hk, Hown in H3. cbn [orb] in H3.
  destruct H3 as [Vw Pw].
  assert (Ww : wst (pcs s w) <> WNone).
  { intros X. pose proof (t_nowait _ _ _ (T w)) as Y. unfold CC in Y. cproj_in Y. destruct (Y X) as (A & _). congruence. }
  assert (Iw : item0 s w).
  { pose proof (t_wait _ _ _ (T w)) as Y. unfold CC in Y. cproj_in Y. specialize (Y Ww). unfold waitinv in Y. rewrite Pw in Y. apply Y. }
  inv_cc.
  match goal with |- InvP (CC (set_pc ?S1 _ _)) _ => pose proof (CC_after S1 (G_sig c w) eq_refl) as D end.
  assert (PhO : forall x, x <> w -> upd (ph s) w (PhSig t) x = ph s x) by (intros x Nx; apply upd_other; exact Nx).
  split.
  - destruct G as [G1 G2 G3 G4 G5 G6 G7 G8]. constructor; sproj; auto.
    + intros h Hh'. injection Hh' as <-. split; [exact Vw|]. right. rewrite D. rewrite upd_same.
      destruct (Z.eq_dec w t) as [->|Nw].
      * cproj. rewrite Hch. split; [reflexivity|]. unfold CC in Ww. rewrite Hpc in Ww. cproj_in Ww. split; [exact Ww|].
        split; [apply Iw|]. right. exists t. reflexivity.
      * split.
        -- destruct (c_hold (CC s w)) eqn:X; [|reflexivity]. pose proof (t_hold _ _ _ (T w) X). congruence.
        -- split; [exact Ww|]. split; [apply Iw|]. right. exists t. reflexivity.
    + intros x Hx. specialize (G4 x Hx). rewrite D. destruct (Z.eq_dec x t) as [->|]; [|exact G4].
      unfold CC in G4. rewrite Hpc in G4. discriminate G4.
    + intros c1 Hc1. discriminate Hc1.
    + rewrite Forall_forall in *. intros x Hx. specialize (G7 x Hx). unfold entry_ok in *. sproj.
      destruct (is_waiter_kind (e_kind x)); [|exact G7]. destruct G7 as [V P]. split; [exact V|].
      rewrite PhO; [exact P|]. intros Ex. rewrite Ex in P. congruence.
  - intros u. pose proof (T u) as Tu. destruct (Z.eq_dec u t) as [->|Ne].
    + (* the thread that hands over *)
      constructor; rewrite ?CC_set_pc_same; cproj; unfold item0; sproj; rewrite ?Hch; try discriminate; try (intros; discriminate); auto.
      * split; [discriminate|]. intros X. exfalso. apply Tkt. exact X.
      * cproj_in T3. unfold valid_tid in Vw. apply andb_true_iff. split; [apply andb_true_iff; split|].
        -- destruct c; try reflexivity. discriminate Hch.
        -- apply Z.ltb_lt. lia.
        -- apply Z.leb_le. lia.
      * intros x Hx. injection Hx as <-. rewrite upd_same. reflexivity.
      * intros Hw. cproj_in T8. destruct (T8 Hw) as (A & B & C1). split; [|auto].
        rewrite PhO; [exact A|]. intros Ex. subst w. congruence.
      * intros Hw. cproj_in T9. specialize (T9 Hw). cproj_in T16. specialize (T16 eq_refl Hw).
        unfold waitinv, handed_or_done, item0 in *. sproj.
        destruct (Z.eq_dec t w) as [Etw|Ntw].
        -- rewrite <- Etw. rewrite upd_same. split; [rewrite CC_after by reflexivity; destruct (Z.eq_dec t t); [reflexivity|contradiction]|].
           left. split; [reflexivity|]. rewrite Etw. apply Iw.
        -- rewrite PhO by exact Ntw. destruct (ph s t) as [| |h|h|d|]; auto.
           ++ destruct T9 as (_ & _ & c1 & X & Y & _). exfalso. assert (c1 = c0) by congruence. subst c1. congruence.
           ++ destruct T9 as (A & B & _). exfalso. assert (h = t) by congruence. contradiction.
           ++ destruct T9 as [A [[_ (_ & _ & X)]|B]]; [congruence|]. split; [|right; exact B].
              rewrite D. destruct (Z.eq_dec d t) as [->|]; [|exact A]. cbv beta in A. rewrite Hpc in A. discriminate A.
           ++ destruct T9 as [[_ (_ & _ & X)]|B]; [congruence|]. right. exact B.
      * intros Hw. cproj_in T10. destruct (T10 Hw) as [A B]. split; [|exact B]. rewrite A.
        destruct (Z.eq_dec t w) as [Etw|Ntw].
        -- rewrite <- Etw, upd_same. rewrite <- Etw in Pw. rewrite Pw. reflexivity.
        -- rewrite PhO by exact Ntw. reflexivity.
      * intros Hw. exfalso. cproj_in T1. apply (hold_not_post (D_body c (if cont_work c then ENQ else 0) (st s))); [reflexivity|exact Hw].
      * intros Hw. exfalso. apply (hold_not_woken (D_body c (if cont_work c then ENQ else 0) (st s))); [reflexivity|exact Hw].
    + (* everybody else *)
      assert (Cu : forall S1, pcs S1 = pcs s -> CC (set_pc S1 t (G_sig c w)) u = CC s u).
      { intros S1 E. rewrite CC_after by exact E. destruct (Z.eq_dec u t); [contradiction|reflexivity]. }
      assert (NotHold : c_hold (CC s u) = false).
      { destruct (c_hold (CC s u)) eqn:X; [|reflexivity]. pose proof (t_hold _ _ _ Tu X). congruence. }
      destruct Tu as [U1 U2 U3 U4 U5 U6 U7 U8 U9 U10 U11 U12 U13 U14 U15 U16].
      constructor; rewrite ?Cu by reflexivity; unfold item0; sproj; auto.
      * rewrite NotHold. discriminate.
      * rewrite (Tku u Ne). exact U2.
      * intros x Hx. rewrite PhO; [auto|]. intros Ex. subst x. specialize (U5 _ Hx). congruence.
      * intros x Hx Nx. rewrite PhO; [auto|]. intros Ex. subst x. specialize (U6 _ Hx Nx). congruence.
      * intros X. exfalso. pose proof (cur_hold (pcs s u) X) as Y. unfold CC in NotHold. cproj_in NotHold. congruence.
      * intros X. destruct (U8 X) as (A & B & C1). split; [|auto]. rewrite PhO; [exact A|]. intros Ex. subst u. congruence.
      * intros X. specialize (U9 X). unfold waitinv, handed_or_done, item0 in *. sproj.
        destruct (Z.eq_dec u w) as [->|Nuw].
        -- rewrite upd_same. split; [rewrite D; destruct (Z.eq_dec t t); [reflexivity|contradiction]|].
           left. split; [reflexivity|]. apply Iw.
        -- rewrite PhO by exact Nuw. destruct (ph s u) as [| |h|h|d|]; auto.
           ++ destruct U9 as (_ & _ & c1 & X1 & Y & _). exfalso. assert (c1 = c0) by congruence. subst c1. congruence.
           ++ destruct U9 as (A & B & [(_ & c1 & X1 & Y & _)|(R1 & _)]); exfalso.
              ** assert (c1 = c0) by congruence. subst c1. congruence.
              ** assert (h = t) by congruence. subst h. unfold CC in R1. rewrite Hpc in R1. discriminate R1.
           ++ destruct U9 as [A [[X1 _]|B]]; [congruence|]. split; [|right; exact B].
              rewrite D. destruct (Z.eq_dec d t) as [->|]; [|exact A]. unfold CC in A. rewrite Hpc in A. discriminate A.
           ++ destruct U9 as [[X1 _]|B]; [congruence|]. right. exact B.
      * intros X. destruct (U10 X) as [A B]. split; [|exact B]. rewrite A.
        destruct (Z.eq_dec u w) as [->|Nuw]; [rewrite upd_same, Pw; reflexivity|rewrite PhO by exact Nuw; reflexivity].
      * intros X. destruct (U11 X) as [A B].
        destruct (Z.eq_dec u w) as [->|Nuw].
        -- rewrite upd_same. rewrite Pw in A. split; [exact A|]. intros Hs. destruct (B Hs) as [B1 B2]. split; [exact B1|].
           intros Y. discriminate Y.
        -- rewrite PhO by exact Nuw. split; [exact A|]. intros Hs. destruct (B Hs) as [B1 B2]. split; [exact B1|].
           intros Y. destruct (B2 Y) as [d Hd]. exists d. rewrite D. destruct (Z.eq_dec d t) as [->|]; [|exact Hd].
           unfold CC in Hd. rewrite Hpc in Hd. discriminate Hd.
      * intros X. destruct (U12 X) as (A & B & C1). split; [|auto]. rewrite PhO; [exact A|]. intros Ex. subst u. congruence.
      * rewrite NotHold. discriminate.
Qed.

Lemma step_D_body c enq old : pcs s t = D_body c enq old -> gstep s t e = Some s' -> Inv s'.
Proof.
  start Hpc. gett Hpc. cproj_in T1. specialize (T1 eq_refl). cproj_in T2. cproj_in T3. cproj_in T7.
  set (w := Z.land (eb e) OWNER_MASK) in *.
  destruct (b_dbw enq old w) as [new xr| | |] eqn:Hb; try discriminate Hts.
  bd Hts.
  - (* ownership transferred *) ret_inv Hts.
    match goal with H : _ && (eb e =? new) && (0 <? w) = true |- _ =>
      apply andb_true_iff in H as [H Hw0]; apply andb_true_iff in H as [_ H]; apply Z.eqb_eq in H; rename H into Enew; apply Z.ltb_lt in Hw0 end.
    apply acts_cons in Ha as (sx & HX & Ha). apply acts_nil in Ha. subst sx. cbn [apply_act] in HX.
    bd HX; try congruence. injection HX as <-. cas_ok old.
    match goal with H : cur s = Some ?c |- _ => rename H into Cn; set (c0 := c) in * end.
    match goal with H : (e_own c0 =? w) && is_waiter_kind (e_kind c0) = true |- _ => apply andb_true_iff in H as [Ho Hk]; apply Z.eqb_eq in Ho end.
    assert (Ww : 0 < w < 1073741824).
    { split; [exact Hw0|]. subst w. unfold OWNER_MASK, DLOCK_OWNER_MASK. rewrite Z.land_comm.
      pose proof (Z.land_nonneg 1073741823 (eb e)). pose proof (Bits.land_le 1073741823 (eb e)). lia. }
    pose proof (g_word _ _ G) as Wd. rewrite T1 in Wd. rewrite Enew in *.
    destruct c as [|k| |o n]; cproj_in T3; try discriminate T3; apply Z.eqb_eq in T3; subst enq.
    + (* from a completing synchronous call *)
      pose proof (t_dbw0 _ _ _ _ _ _ Wd Ww Hb) as Wn.
      pose proof (wordinv_changed_enq _ _ _ _ _ _ Wd Wn) as Ch. rewrite eqb_reflx in Ch. cbn [negb] in Ch. rewrite Ch.
      apply (xfer_step CRet w new (token s) c0); auto.
      * apply (g_rootq _ _ G).
      * split; [|contradiction]. intros X. apply T2 in X. discriminate X.
      * intros; tauto.
    + (* from a waiter that had taken the lock itself *)
      pose proof (t_dbw0 _ _ _ _ _ _ Wd Ww Hb) as Wn.
      pose proof (wordinv_changed_enq _ _ _ _ _ _ Wd Wn) as Ch. rewrite eqb_reflx in Ch. cbn [negb] in Ch. rewrite Ch.
      apply (xfer_step (CWait k) w new (token s) c0); auto.
      * apply (g_rootq _ _ G).
      * split; [|contradiction]. intros X. apply T2 in X. discriminate X.
      * intros; tauto.
    + (* from a worker: the enqueued bit it owns goes away with the lock *)
      assert (Tk : token s = Some (Some t)) by (apply T2; reflexivity). rewrite Tk in Wd. cbn [is_some] in Wd.
      pose proof (t_dbw1 _ _ _ _ _ Wd Ww Hb) as Wn.
      pose proof (wordinv_changed_enq _ _ _ _ _ _ Wd Wn) as Ch. cbn in Ch. rewrite Ch. rewrite (wordinv_enq_bit _ _ _ Wn).
      apply (xfer_step CWorker w new None c0); auto.
      * rewrite (g_rootq _ _ G), Tk. reflexivity.
      * split; [discriminate|contradiction].
      * intros u Ne. rewrite Tk. split; intros X; [discriminate X|injection X as X; congruence].
  - (* compare-exchange failed *) ret_inv Hts. ba Ha. local_fin. rewrite Hpc. reflexivity.
Qed.

Lemma cls_cont_pc c w : okcont c = true ->
  cls (cont_pc c) = {| c_hold := cont_hold c; c_tok := cont_hold c; c_wst := cont_wst c; c_cst := cont_cst c; c_incall := false;
                       c_sig := None; c_wake := None; c_run := None; c_cur := false; c_dbw := false; c_sleep := false; c_wf := true |} /\
  cls (G_wake c w) = {| c_hold := cont_hold c; c_tok := cont_hold c; c_wst := cont_wst c; c_cst := cont_cst c; c_incall := false;
                       c_sig := None; c_wake := Some w; c_run := None; c_cur := false; c_dbw := false; c_sleep := false;
                       c_wf := okcont c && (0 <? w) && (w <=? OWNER_MASK) |}.
Proof.
  intros Ok. destruct c as [|k| |o n]; try (split; reflexivity).
  unfold okcont in Ok. cproj. destruct (n =? 0); unfold cls; cproj; rewrite Ok; split; reflexivity.
Qed.

(* t signals the thread event of waiter w *)
Lemma step_G_sig c w : pcs s t = G_sig c w -> gstep s t e = Some s' -> Inv s'.
Proof.
  start Hpc. gett Hpc. cproj_in T3. cproj_in T5. specialize (T5 w eq_refl).
  apply andb_true_iff in T3 as [T3 Tw2]. apply andb_true_iff in T3 as [Tc Tw1].
  bd Hts. ret_inv Hts. ba Ha.
  match goal with H : (ea e =? ev s w) = true |- _ => apply Z.eqb_eq in H; rename H into Ea end.
  destruct (cls_cont_pc c w Tc) as [Kc Kw].
  set (p' := if ea e =? 0 then cont_pc c else G_wake c w).
  pose proof (T w) as Tw. unfold CC in Tw. destruct Tw as [W1 W2 W3 W4 W5 W6 W7 W8 W9 W10 W11 W12 W13 W14 W15 W16].
  assert (Ww : c_wst (cls (pcs s w)) <> WNone).
  { intros X. destruct (W8 X) as (A & _). congruence. }
  specialize (W9 Ww). unfold waitinv in W9. rewrite T5 in W9. destruct W9 as [_ Hod].
  inv_cc.
  match goal with |- InvP (CC (set_pc ?S1 _ _)) _ => pose proof (CC_after S1 p' eq_refl) as D end.
  assert (PhO : forall x, x <> w -> upd (ph s) w PhSigd x = ph s x) by (intros x Nx; apply upd_other; exact Nx).
  assert (Dims : c_hold (cls p') = c_hold (cls (G_sig c w)) /\ c_tok (cls p') = c_tok (cls (G_sig c w)) /\
                 c_wst (cls p') = c_wst (cls (G_sig c w)) /\ c_cst (cls p') = c_cst (cls (G_sig c w)) /\
                 c_incall (cls p') = false /\ c_sig (cls p') = None /\ c_run (cls p') = None /\ c_cur (cls p') = false /\
                 c_dbw (cls p') = false /\ c_sleep (cls p') = false /\ c_wf (cls p') = true /\
                 c_wake (cls p') = (if ea e =? 0 then None else Some w)).
  { subst p'. destruct (ea e =? 0); [rewrite Kc|rewrite Kw]; cproj; rewrite ?Tc, ?Tw1, ?Tw2; repeat split; reflexivity. }
  destruct Dims as (D1 & D2 & D3 & D4 & D5 & D6 & D7 & D8 & D9 & D10 & D11 & D12).
  split.
  - destruct G as [G1 G2 G3 G4 G5 G6 G7 G8]. constructor; sproj; auto.
    + intros h Hh. destruct (G3 h Hh) as [V X]. split; [exact V|]. rewrite D. destruct (Z.eq_dec h t) as [->|Nh].
      * unfold CC in X. rewrite Hpc in X. rewrite D1, D3.
        destruct X as [X|(X1 & X2 & X3 & X4)]; [left; exact X|right]. split; [exact X1|]. split; [exact X2|]. split; [exact X3|].
        destruct (Z.eq_dec t w) as [->|Ntw]; [rewrite upd_same; left; reflexivity|rewrite PhO by exact Ntw; exact X4].
      * destruct X as [X|(X1 & X2 & X3 & X4)]; [left; exact X|right]. split; [exact X1|]. split; [exact X2|]. split; [exact X3|].
        destruct (Z.eq_dec h w) as [->|Nhw]; [rewrite upd_same; left; reflexivity|rewrite PhO by exact Nhw; exact X4].
    + intros x Hx. specialize (G4 x Hx). rewrite D. destruct (Z.eq_dec x t) as [->|]; [|exact G4].
      unfold CC in G4. rewrite Hpc in G4. discriminate G4.
    + intros c1 Hc1. destruct (G6 c1 Hc1) as (h & H1 & H2 & H3). exists h. split; [exact H1|].
      unfold cur_ok in *. sproj. rewrite !D. destruct (Z.eq_dec h t) as [->|Nh].
      * exfalso. unfold CC in H2. rewrite Hpc in H2. discriminate H2.
      * split; [exact H2|]. destruct H3 as [H3 H4]. split; [exact H3|]. destruct (is_waiter_kind (e_kind c1)); [|exact H4].
        destruct H4 as [V P]. split; [exact V|]. rewrite PhO; [exact P|]. intros Ex. rewrite Ex in P. rewrite T5 in P.
        match type of P with _ = (if ?cnd then _ else _) => destruct cnd end; discriminate P.
    + rewrite Forall_forall in *. intros x Hx. specialize (G7 x Hx). unfold entry_ok in *. sproj.
      destruct (is_waiter_kind (e_kind x)); [|exact G7]. destruct G7 as [V P]. split; [exact V|].
      rewrite PhO; [exact P|]. intros Ex. rewrite Ex in P. congruence.
  - intros u. pose proof (T u) as Tu. unfold CC in Tu. destruct (Z.eq_dec u t) as [->|Ne].
    + (* the signaller *)
      clear Tu.
      constructor; rewrite ?CC_set_pc_same, ?D1, ?D2, ?D3, ?D4, ?D5, ?D6, ?D7, ?D8, ?D10, ?D11; unfold item0; sproj;
        try discriminate; try (intros; discriminate); auto.
      * intros X. destruct (T8 X) as (A & B & C1). split; [|split].
        -- rewrite PhO; [exact A|]. intros Ex. subst w. congruence.
        -- destruct (Z.eq_dec t w) as [Ex|Nx]; [subst w; congruence|rewrite upd_other by exact Nx; exact B].
        -- exact C1.
      * intros X. specialize (T9 X). unfold waitinv, handed_or_done, item0 in *. sproj.
        destruct (Z.eq_dec t w) as [Etw|Ntw].
        -- rewrite <- Etw, upd_same. rewrite <- Etw in Hod. exact Hod.
        -- rewrite PhO by exact Ntw. destruct (ph s t) as [| |h|h|d|]; auto.
           ++ destruct T9 as (A & B & [Y|(R1 & R2)]); [split; [exact A|]; split; [exact B|]; left; exact Y|].
              split; [exact A|]. split; [exact B|]. right. split; [|exact R2]. rewrite D. destruct (Z.eq_dec h t) as [->|]; [contradiction|exact R1].
           ++ destruct T9 as [A B]. split; [|exact B]. rewrite D. destruct (Z.eq_dec d t) as [->|]; [|exact A].
              cbv beta in A. rewrite Hpc in A. cproj_in A. congruence.
      * intros X. destruct (T10 X) as [A B]. destruct (Z.eq_dec t w) as [Etw|Ntw].
        -- rewrite <- Etw, !upd_same. rewrite <- Etw in T5, Ea. rewrite T5 in A. cbn [is_sigd] in A. rewrite A. split; [reflexivity|exact B].
        -- rewrite PhO by exact Ntw. rewrite upd_other by exact Ntw. auto.
      * intros X. exfalso. destruct c; cproj_in X; discriminate X.
      * intros X. exfalso. destruct c; cproj_in X; discriminate X.
      * destruct c; cproj; intros X Y; try discriminate X. exfalso. apply Y. reflexivity.
    + (* everybody else *)
      assert (Cu : CC (set_pc (set_ph (set_ev s (upd (ev s) w (u32 (ev s w + 1)))) (upd (ph s) w PhSigd)) t p') u = cls (pcs s u)).
      { rewrite D. destruct (Z.eq_dec u t); [contradiction|reflexivity]. }
      destruct Tu as [U1 U2 U3 U4 U5 U6 U7 U8 U9 U10 U11 U12 U13 U14 U15 U16].
      assert (SigX : forall x, c_sig (cls (pcs s u)) = Some x -> x <> w).
      { intros x Hx Ex. subst x. specialize (U5 _ Hx). rewrite T5 in U5. congruence. }
      assert (RunX : forall x, c_run (cls (pcs s u)) = Some x -> x <> 0 -> x <> w).
      { intros x Hx Nx Ex. subst x. specialize (U6 _ Hx Nx). rewrite T5 in U6. congruence. }
      destruct (Z.eq_dec u w) as [->|Nuw].
      * (* the waiter being signalled *)
        constructor; rewrite ?Cu; unfold item0; sproj; rewrite ?upd_same; auto.
        -- intros x Hx. rewrite PhO; [auto|]. apply SigX. exact Hx.
        -- intros x Hx Nx. rewrite PhO; [auto|]. apply RunX; assumption.
        -- intros X. exfalso. apply Ww. exact X.
        -- intros _. unfold waitinv, handed_or_done, item0. sproj. rewrite upd_same. exact Hod.
        -- intros X. destruct (U10 X) as [A B]. rewrite T5 in A. cbn [is_sigd] in A |- *. rewrite A. split; [reflexivity|exact B].
        -- intros X. destruct (U11 X) as [A B]. rewrite T5 in A. cbn [is_sigd] in A |- *. rewrite A. split; [reflexivity|].
           intros Hs. destruct (B Hs) as [B1 _]. split; [exact B1|]. intros _. exists t. rewrite CC_set_pc_same, D12.
           rewrite Ea, A. reflexivity.
        -- intros X. destruct (U12 X) as (A & _). congruence.
        -- intros X Y. specialize (U16 X Y). rewrite T5 in U16. exact U16.
      * (* an unrelated thread *)
        constructor; rewrite ?Cu; unfold item0; sproj; rewrite ?(PhO u Nuw), ?upd_other by exact Nuw; auto.
        -- intros x Hx. rewrite PhO; [auto|]. apply SigX. exact Hx.
        -- intros x Hx Nx. rewrite PhO; [auto|]. apply RunX; assumption.
        -- intros X. specialize (U9 X). unfold waitinv, handed_or_done, item0 in *. sproj. rewrite (PhO u Nuw).
           destruct (ph s u) as [| |h|h|d|]; auto.
           ++ destruct U9 as (A & B & [Y|(R1 & R2)]); [split; [exact A|]; split; [exact B|]; left; exact Y|].
              split; [exact A|]. split; [exact B|]. right. split; [|exact R2]. rewrite D. destruct (Z.eq_dec h t) as [->|]; [|exact R1].
              cbv beta in R1. rewrite Hpc in R1. discriminate R1.
           ++ destruct U9 as [A B]. split; [|exact B]. rewrite D. destruct (Z.eq_dec d t) as [->|]; [|exact A].
              cbv beta in A. rewrite Hpc in A. cproj_in A. congruence.
        -- intros X. destruct (U11 X) as [A B]. split; [exact A|]. intros Hs. destruct (B Hs) as [B1 B2]. split; [exact B1|].
           intros Y. destruct (B2 Y) as [d Hd]. exists d. rewrite D. destruct (Z.eq_dec d t) as [->|]; [|exact Hd].
           rewrite Hpc in Hd. discriminate Hd.
Qed.

Lemma step_G_wake c w : pcs s t = G_wake c w -> gstep s t e = Some s' -> Inv s'.
Proof.
  start Hpc. gett Hpc. cproj_in T3.
  apply andb_true_iff in T3 as [T3 Tw2]. apply andb_true_iff in T3 as [Tc Tw1].
  bd Hts. ret_inv Hts. ba Ha.
  destruct (cls_cont_pc c w Tc) as [Kc Kw].
  inv_cc.
  match goal with |- InvP (CC (set_pc ?S1 _ _)) _ => pose proof (CC_after S1 (cont_pc c) eq_refl) as D end.
  split.
  - apply (ginv_frame (CC s) _ s); try (intros y; rewrite D; destruct (Z.eq_dec y t) as [->|]; [rewrite Kc; unfold CC; rewrite Hpc; reflexivity|reflexivity]);
      sproj; try reflexivity; try apply G; try (intros; reflexivity).
  - intros u. pose proof (T u) as Tu. unfold CC in Tu. destruct (Z.eq_dec u t) as [->|Ne].
    + clear Tu. constructor; rewrite ?CC_set_pc_same, ?Kc; unfold item0; cproj; sproj; try discriminate; try (intros; discriminate); auto.
      * intros X. destruct (T8 X) as (A & B & C1). split; [exact A|]. split; [exact B|].
        destruct (Z.eq_dec t w) as [->|Ntw]; [rewrite upd_same; destruct (slp s w); cbn; congruence|rewrite upd_other by exact Ntw; exact C1].
      * intros X. apply (waitinv_frame (CC s) _ s); sproj; auto; try (apply T9; exact X);
          (intros y; rewrite D; destruct (Z.eq_dec y t) as [->|]; [rewrite Kc; unfold CC; rewrite Hpc; reflexivity|reflexivity]).
      * intros X. destruct (T10 X) as [A B]. split; [exact A|].
        destruct (Z.eq_dec t w) as [->|Ntw]; [rewrite upd_same; destruct (slp s w); cbn; congruence|rewrite upd_other by exact Ntw; exact B].
      * intros X. exfalso. destruct c; cproj_in X; discriminate X.
      * intros X. exfalso. destruct c; cproj_in X; discriminate X.
    + assert (Cu : CC (set_pc (set_slp s (upd (slp s) w (wake_one (slp s w)))) t (cont_pc c)) u = cls (pcs s u)).
      { rewrite D. destruct (Z.eq_dec u t); [contradiction|reflexivity]. }
      destruct Tu as [U1 U2 U3 U4 U5 U6 U7 U8 U9 U10 U11 U12 U13 U14 U15 U16].
      assert (Sl : upd (slp s) w (wake_one (slp s w)) u = slp s u \/ (u = w /\ upd (slp s) w (wake_one (slp s w)) u <> Sleeping)).
      { destruct (Z.eq_dec u w) as [->|Nuw]; [right; split; [reflexivity|]; rewrite upd_same; destruct (slp s w); cbn; congruence|left; apply upd_other; exact Nuw]. }
      constructor; rewrite ?Cu; unfold item0; sproj; auto.
      * intros X. destruct (U8 X) as (A & B & C1). split; [exact A|]. split; [exact B|]. destruct Sl as [Sl|[_ Sl]]; [rewrite Sl; exact C1|exact Sl].
      * intros X. apply (waitinv_frame (CC s) _ s); sproj; auto;
          (intros y; rewrite D; destruct (Z.eq_dec y t) as [->|]; [rewrite Kc; unfold CC; rewrite Hpc; reflexivity|reflexivity]).
      * intros X. destruct (U10 X) as [A B]. split; [exact A|]. destruct Sl as [Sl|[_ Sl]]; [rewrite Sl; exact B|exact Sl].
      * intros X. destruct (U11 X) as [A B]. split; [exact A|]. intros Hs. destruct Sl as [Sl|[_ Sl]]; [|contradiction].
        rewrite Sl in Hs. destruct (B Hs) as [B1 B2]. split; [exact B1|]. intros Y. destruct (B2 Y) as [d Hd]. exists d.
        rewrite D. destruct (Z.eq_dec d t) as [->|]; [|exact Hd]. exfalso. rewrite Hpc in Hd. cproj_in Hd. injection Hd as Hd.
        subst w. rewrite upd_same in Sl. rewrite Hs in Sl. cbn in Sl. discriminate Sl.
      * intros X. destruct (U12 X) as (A & B & C1). split; [exact A|]. split; [exact B|]. destruct Sl as [Sl|[_ Sl]]; [rewrite Sl; exact C1|exact Sl].
Qed.

Lemma own_enq : Z.land OWN ENQ = ENQ.
Proof. reflexivity. Qed.

Lemma step_W_dec o n : pcs s t = W_dec o n -> gstep s t e = Some s' -> Inv s'.
Proof.
  start Hpc. gett Hpc. cproj_in T1. specialize (T1 eq_refl). cproj_in T3. apply Z.eqb_eq in T3. subst o.
  bd Hts.
  - (* a sync waiter: hand the lock over *) ret_inv Hts.
    apply acts_cons in Ha as (sx & HX & Ha). cbn [apply_act] in HX. destruct (cur s) as [c0|] eqn:Cn; [|discriminate HX]. bd HX. injection HX as <-.
    match goal with H : eqb (is_sync_kind (e_kind c0)) true = true |- _ => apply eqb_prop in H; rename H into Ks end.
    ba Ha. change 2147483648 with ENQ. inv_cc.
    pose proof (CC_after s (D_body CWorker ENQ (ea e)) eq_refl) as D.
    destruct (g_cur _ _ G c0 Cn) as (h & H1 & H2 & H3). assert (h = t) by congruence. subst h.
    unfold cur_ok, CC in H3. rewrite Hpc in H3. cproj_in H3. rewrite Ks in H3. cbn [orb] in H3.
    assert (Kw : is_waiter_kind (e_kind c0) = true) by (destruct (e_kind c0); try discriminate Ks; reflexivity).
    rewrite Kw in H3. destruct H3 as [_ [Vw Pw]].
    split.
    + destruct G as [G1 G2 G3 G4 G5 G6 G7 G8]. constructor; sproj; auto.
      * intros h Hh. destruct (G3 h Hh) as [V X]. split; [exact V|]. rewrite D. destruct (Z.eq_dec h t) as [->|]; [|exact X]. left. reflexivity.
      * intros x Hx. specialize (G4 x Hx). rewrite D. destruct (Z.eq_dec x t) as [->|]; [|exact G4]. unfold CC in G4. rewrite Hpc in G4. discriminate G4.
      * intros c1 Hc1. assert (c1 = c0) by congruence. subst c1. exists t. split; [exact T1|]. rewrite CC_set_pc_same. split; [reflexivity|].
        unfold cur_ok. rewrite CC_set_pc_same. cproj. rewrite Kw. split; [reflexivity|]. split; [exact Vw|exact Pw].
    + intros u. destruct (Z.eq_dec u t) as [->|Ne].
      * selfrec Hpc. intros _. congruence.
      * apply (tinv_frame (CC s) _ s); sproj; auto;
          try (intros y; rewrite D; destruct (Z.eq_dec y t) as [->|]; [unfold CC; rewrite Hpc; reflexivity|reflexivity]);
          try tauto; try apply T.
        rewrite D. destruct (Z.eq_dec u t); [contradiction|reflexivity].
  - (* anything else: run it *) ret_inv Hts.
    apply acts_cons in Ha as (sx & HX & Ha). cbn [apply_act] in HX. destruct (cur s) as [c0|] eqn:Cn; [|discriminate HX]. bd HX. injection HX as <-.
    match goal with H : eqb (is_sync_kind (e_kind c0)) false = true |- _ => apply eqb_prop in H; rename H into Ks end.
    apply acts_cons in Ha as (sx & HX & Ha). apply acts_nil in Ha. subst sx. cbn [apply_act] in HX. rewrite Cn in HX. bd HX. injection HX as <-.
    match goal with H : (e_own c0 =? eb e) = true |- _ => apply Z.eqb_eq in H; rename H into Ho end.
    set (w := eb e) in *.
    destruct (g_cur _ _ G c0 Cn) as (h & H1 & H2 & H3). assert (h = t) by congruence. subst h.
    unfold cur_ok, CC in H3. rewrite Hpc in H3. cproj_in H3. rewrite Ks, Ho in H3. cbn [orb] in H3. destruct H3 as [_ H3].
    assert (Rn : running s = None) by (apply running_none; [exact T1|rewrite Hpc; reflexivity]). rewrite Rn.
    rewrite (proj1 (g_flags _ _ G)). cbn [orb].
    assert (Kw : w <> 0 -> is_waiter_kind (e_kind c0) = true /\ valid_tid w /\ ph s w = PhPopR t).
    { intros Nw. destruct (is_waiter_kind (e_kind c0)); [split; [reflexivity|exact H3]|contradiction]. }
    assert (Wr : 0 <= w <= OWNER_MASK).
    { destruct (is_waiter_kind (e_kind c0)); [destruct H3 as [V _]; unfold valid_tid in V; lia|rewrite H3; unfold OWNER_MASK, DLOCK_OWNER_MASK; lia]. }
    destruct (Z.eqb_spec w 0) as [W0|Nw].
    + (* an asynchronous item *)
      inv_cc. match goal with |- InvP (CC (set_pc ?S1 _ _)) _ => pose proof (CC_after S1 (W_incall OWN n w) eq_refl) as D end.
      split.
      * destruct G as [G1 G2 G3 G4 G5 G6 G7 G8]. constructor; sproj; auto.
        -- intros h Hh. destruct (G3 h Hh) as [V X]. split; [exact V|]. rewrite D. destruct (Z.eq_dec h t) as [->|]; [|exact X]. left. reflexivity.
        -- intros x Hx. injection Hx as <-. rewrite CC_set_pc_same. reflexivity.
        -- split; [reflexivity|apply G5].
        -- intros c1 Hc1. discriminate Hc1.
      * intros u. pose proof (T u) as Tu. destruct (Z.eq_dec u t) as [->|Ne].
        -- rewrite W0. selfrec Hpc.
        -- assert (Cu : CC (set_pc (set_running (set_cur s None) (Some t) false) t (W_incall OWN n w)) u = CC s u).
           { rewrite D. destruct (Z.eq_dec u t); [contradiction|reflexivity]. }
           destruct Tu as [U1 U2 U3 U4 U5 U6 U7 U8 U9 U10 U11 U12 U13 U14 U15 U16].
           constructor; rewrite ?Cu; unfold item0; sproj; auto.
           ++ intros X. specialize (U4 X). congruence.
           ++ intros X. exfalso. pose proof (cur_hold _ X) as Y. specialize (U1 Y). congruence.
           ++ intros X. specialize (U9 X). unfold waitinv, handed_or_done, item0 in *. sproj. destruct (ph s u) as [| |h|h|d|]; auto.
              ** exfalso. destruct U9 as (_ & _ & c1 & Y & Z0 & K). assert (c1 = c0) by congruence. subst c1.
                 rewrite K in H3. destruct H3 as [V _]. unfold valid_tid in V. rewrite W0 in V. lia.
              ** exfalso. destruct U9 as (A & B & [(_ & c1 & Y & Z0 & K)|(R1 & _)]).
                 --- assert (c1 = c0) by congruence. subst c1. rewrite K in H3. destruct H3 as [V _]. unfold valid_tid in V. rewrite W0 in V. lia.
                 --- assert (h = t) by congruence. subst h. unfold CC in R1. rewrite Hpc in R1. discriminate R1.
              ** destruct U9 as [A B]. split; [|exact B]. rewrite D. destruct (Z.eq_dec d t) as [->|]; [|exact A]. unfold CC in A. rewrite Hpc in A. discriminate A.
           ++ intros X. destruct (U11 X) as [A B]. split; [exact A|]. intros Hs. destruct (B Hs) as [B1 B2]. split; [exact B1|].
              intros Y. destruct (B2 Y) as [d Hd]. exists d. rewrite D. destruct (Z.eq_dec d t) as [->|]; [|exact Hd]. unfold CC in Hd. rewrite Hpc in Hd. discriminate Hd.
    + (* the item of an async_and_wait waiter *)
      destruct (Kw Nw) as (K & Vw & Pw).
      assert (Ntw : t <> w).
      { intros Etw. pose proof (t_nowait _ _ _ (T t)) as Y. unfold CC in Y. rewrite Hpc in Y. destruct (Y eq_refl) as (A & _). rewrite Etw in A. congruence. }
      pose proof (T w) as Tw. unfold CC in Tw. destruct Tw as [W1 W2 W3 W4 W5 W6 W7 W8 W9 W10 W11 W12 W13 W14 W15 W16].
      assert (Ww : c_wst (cls (pcs s w)) <> WNone) by (intros X; destruct (W8 X) as (A & _); congruence).
      assert (Iw : item0 s w).
      { specialize (W9 Ww). unfold waitinv in W9. rewrite Pw in W9. destruct W9 as (_ & _ & [(I0 & _)|(R1 & _)]); [exact I0|].
        rewrite Hpc in R1. discriminate R1. }
      destruct Iw as (I1 & I2 & I3).
      inv_cc. match goal with |- InvP (CC (set_pc ?S1 _ _)) _ => pose proof (CC_after S1 (W_incall OWN n w) eq_refl) as D end.
      split.
      * destruct G as [G1 G2 G3 G4 G5 G6 G7 G8]. constructor; sproj; auto.
        -- intros h Hh. destruct (G3 h Hh) as [V X]. split; [exact V|]. rewrite D. destruct (Z.eq_dec h t) as [->|]; [|exact X]. left. reflexivity.
        -- intros x Hx. injection Hx as <-. rewrite CC_set_pc_same. reflexivity.
        -- split; [reflexivity|apply G5].
        -- intros c1 Hc1. discriminate Hc1.
      * intros u. pose proof (T u) as Tu. destruct (Z.eq_dec u t) as [->|Ne].
        -- selfrec Hpc.
           ++ apply andb_true_iff. split; [apply andb_true_iff; split; [reflexivity|apply Z.leb_le; lia]|apply Z.leb_le; lia].
           ++ intros x Hx Nx. destruct (w =? 0); [discriminate Hx|]. injection Hx as <-. exact Pw.
        -- assert (Cu : forall S1, pcs S1 = pcs s -> CC (set_pc S1 t (W_incall OWN n w)) u = CC s u).
           { intros S1 E. rewrite CC_after by exact E. destruct (Z.eq_dec u t); [contradiction|reflexivity]. }
           destruct Tu as [U1 U2 U3 U4 U5 U6 U7 U8 U9 U10 U11 U12 U13 U14 U15 U16].
           destruct (Z.eq_dec u w) as [->|Nuw].
           ++ constructor; rewrite ?Cu by reflexivity; unfold item0; sproj; rewrite ?upd_same; auto.
              ** intros X. specialize (U4 X). congruence.
              ** intros X. exfalso. pose proof (cur_hold _ X) as Y. specialize (U1 Y). congruence.
              ** intros _. unfold waitinv, handed_or_done, item0. sproj. rewrite Pw, upd_same.
                 split; [exact T1|]. split; [exact Ntw|]. right. rewrite CC_set_pc_same. cproj. rewrite I2, upd_same.
                 destruct (Z.eqb_spec w 0); [contradiction|]. auto.
              ** intros X. destruct (U11 X) as [A B]. split; [exact A|]. intros Hs. destruct (B Hs) as [B1 B2]. split; [exact B1|].
                 intros Y. congruence.
              ** intros _ Y. exfalso. apply Ww. exact Y.
              ** intros X. exfalso. unfold CC in X. cproj_in Ww. cproj_in X. rewrite (wait_cst _ Ww) in X. discriminate X.
              ** intros X. exfalso. unfold CC in X. cproj_in Ww. cproj_in X. rewrite (wait_cst _ Ww) in X. discriminate X.
           ++ constructor; rewrite ?Cu by reflexivity; unfold item0; sproj; rewrite ?upd_other by exact Nuw; auto.
              ** intros X. specialize (U4 X). congruence.
              ** intros X. exfalso. pose proof (cur_hold _ X) as Y. specialize (U1 Y). congruence.
              ** intros X. specialize (U9 X). unfold waitinv, handed_or_done, item0 in *. sproj. rewrite ?upd_other by exact Nuw.
                 destruct (ph s u) as [| |h|h|d|]; auto.
                 --- exfalso. destruct U9 as (_ & _ & c1 & Y & Z0 & _). assert (c1 = c0) by congruence. subst c1. congruence.
                 --- exfalso. destruct U9 as (A & B & [(_ & c1 & Y & Z0 & _)|(R1 & _)]).
                     +++ assert (c1 = c0) by congruence. subst c1. congruence.
                     +++ assert (h = t) by congruence. subst h. unfold CC in R1. rewrite Hpc in R1. discriminate R1.
                 --- destruct U9 as [A B]. split; [|exact B]. rewrite D. destruct (Z.eq_dec d t) as [->|]; [|exact A]. unfold CC in A. rewrite Hpc in A. discriminate A.
              ** intros X. destruct (U11 X) as [A B]. split; [exact A|]. intros Hs. destruct (B Hs) as [B1 B2]. split; [exact B1|].
                 intros Y. destruct (B2 Y) as [d Hd]. exists d. rewrite D. destruct (Z.eq_dec d t) as [->|]; [|exact Hd]. unfold CC in Hd. rewrite Hpc in Hd. discriminate Hd.
Qed.

Lemma step_W_incall o n w : pcs s t = W_incall o n w -> gstep s t e = Some s' -> Inv s'.
Proof.
  start Hpc. gett Hpc. cproj_in T1. specialize (T1 eq_refl). cproj_in T3. cproj_in T4. specialize (T4 eq_refl).
  apply andb_true_iff in T3 as [T3 Tw2]. apply andb_true_iff in T3 as [To Tw1]. apply Z.eqb_eq in To. subst o.
  cproj_in T6. cproj_in T8. destruct (T8 eq_refl) as (P0 & E0 & S0).
  bd Hts. ret_inv Hts. ba Ha.
  destruct (cls_cont_pc (CDrain OWN n) w eq_refl) as [Kc _]. cbn [cont_pc] in *.
  set (q := if n =? 0 then W_tail OWN else W_state OWN) in *. clearbody q.
  destruct (Z.eqb_spec w 0) as [W0|Nw].
  - (* an asynchronous item finished *)
    inv_cc. match goal with |- InvP (CC (set_pc ?S1 _ _)) _ => pose proof (CC_after S1 q eq_refl) as D end.
    split.
    + destruct G as [G1 G2 G3 G4 G5 G6 G7 G8]. constructor; sproj; auto.
      * intros h Hh. destruct (G3 h Hh) as [V X]. split; [exact V|]. rewrite D. destruct (Z.eq_dec h t) as [->|]; [|exact X]. left. rewrite Kc. reflexivity.
      * intros x Hx. discriminate Hx.
      * intros c1 Hc1. destruct (G6 c1 Hc1) as (h & H1 & H2 & _). exfalso. assert (h = t) by congruence. subst h. unfold CC in H2. rewrite Hpc in H2. discriminate H2.
    + intros u. destruct (Z.eq_dec u t) as [->|Ne].
      * constructor; rewrite ?CC_set_pc_same, ?Kc; unfold item0; cproj; sproj; try discriminate; try (intros; discriminate);
          try (let H := fresh in intros H; exfalso; apply H; reflexivity); try (let H := fresh in intros _ H; exfalso; apply H; reflexivity); auto.
      * apply (tinv_frame (CC s) _ s); sproj; auto;
          try (intros y; rewrite D; destruct (Z.eq_dec y t) as [->|]; [rewrite Kc; unfold CC; rewrite Hpc; cproj; rewrite ?W0; try reflexivity|reflexivity]);
          try tauto; try apply T.
        -- rewrite D. destruct (Z.eq_dec u t); [contradiction|reflexivity].
        -- intros X. congruence.
  - (* the item of waiter w finished on this thread: now signal w *)
    specialize (T6 w eq_refl Nw).
    assert (Ntw : t <> w) by (intros Etw; rewrite <- Etw in T6; congruence).
    pose proof (T w) as Tw. unfold CC in Tw. destruct Tw as [W1 W2 W3 W4 W5 W6 W7 W8 W9 W10 W11 W12 W13 W14 W15 W16].
    assert (Ww : c_wst (cls (pcs s w)) <> WNone) by (intros X; destruct (W8 X) as (A & _); congruence).
    assert (Iw : ist s w = IRun /\ runs s w = 1 /\ remote s w = false).
    { specialize (W9 Ww). unfold waitinv in W9. rewrite T6 in W9. destruct W9 as (_ & _ & [(_ & c1 & X & _)|(_ & R2)]); [|exact R2].
      exfalso. destruct (g_cur _ _ G c1 X) as (h & H1 & H2 & _). assert (h = t) by congruence. subst h. unfold CC in H2. rewrite Hpc in H2. discriminate H2. }
    destruct Iw as (I1 & I2 & I3).
    inv_cc. match goal with |- InvP (CC (set_pc ?S1 _ _)) _ => pose proof (CC_after S1 (G_sig (CDrain OWN n) w) eq_refl) as D end.
    assert (PhO : forall x, x <> w -> upd (ph s) w (PhSig t) x = ph s x) by (intros x Nx; apply upd_other; exact Nx).
    split.
    + destruct G as [G1 G2 G3 G4 G5 G6 G7 G8]. constructor; sproj; auto.
      * intros h Hh. assert (h = t) by congruence. subst h. split; [exact Vt|]. left. rewrite CC_set_pc_same. reflexivity.
      * intros x Hx. discriminate Hx.
      * intros c1 Hc1. destruct (G6 c1 Hc1) as (h & H1 & H2 & _). exfalso. assert (h = t) by congruence. subst h. unfold CC in H2. rewrite Hpc in H2. discriminate H2.
      * rewrite Forall_forall in *. intros x Hx. specialize (G7 x Hx). unfold entry_ok in *. sproj.
        destruct (is_waiter_kind (e_kind x)); [|exact G7]. destruct G7 as [V P]. split; [exact V|].
        rewrite PhO; [exact P|]. intros Ex. rewrite Ex in P. congruence.
    + intros u. pose proof (T u) as Tu. destruct (Z.eq_dec u t) as [->|Ne].
      * constructor; rewrite ?CC_set_pc_same; unfold item0; cproj; sproj; rewrite ?(PhO t Ntw); try discriminate; try (intros; discriminate);
          try (let H := fresh in intros H; exfalso; apply H; reflexivity); try (let H := fresh in intros _ H; exfalso; apply H; reflexivity); auto.
        -- rewrite Tw2. apply andb_true_iff. split; [apply andb_true_iff; split; [reflexivity|]|reflexivity].
           apply Z.ltb_lt. apply Z.leb_le in Tw1. lia.
        -- intros x Hx. injection Hx as <-. rewrite upd_same. reflexivity.
      * assert (Cu : forall S1, pcs S1 = pcs s -> CC (set_pc S1 t (G_sig (CDrain OWN n) w)) u = CC s u).
        { intros S1 E. rewrite CC_after by exact E. destruct (Z.eq_dec u t); [contradiction|reflexivity]. }
        destruct Tu as [U1 U2 U3 U4 U5 U6 U7 U8 U9 U10 U11 U12 U13 U14 U15 U16].
        assert (SigX : forall x, c_sig (CC s u) = Some x -> x <> w).
        { intros x Hx Ex. subst x. specialize (U5 _ Hx). rewrite T6 in U5. congruence. }
        assert (RunX : forall x, c_run (CC s u) = Some x -> x <> 0 -> x <> w).
        { intros x Hx Nx Ex. subst x. specialize (U6 _ Hx Nx). rewrite T6 in U6. congruence. }
        destruct (Z.eq_dec u w) as [->|Nuw].
        -- constructor; rewrite ?Cu by reflexivity; unfold item0; sproj; rewrite ?upd_same; auto.
           ++ intros X. specialize (U4 X). congruence.
           ++ intros x Hx. rewrite PhO; [auto|]. apply SigX. exact Hx.
           ++ intros x Hx Nx. rewrite PhO; [auto|]. apply RunX; assumption.
           ++ intros X. exfalso. apply Ww. exact X.
           ++ intros _. unfold waitinv, handed_or_done, item0. sproj. rewrite !upd_same.
              split; [rewrite CC_set_pc_same; reflexivity|]. right. auto.
           ++ intros X. destruct (U10 X) as [A B]. rewrite T6 in A. cbn [is_sigd] in A |- *. split; [exact A|exact B].
           ++ intros X. destruct (U11 X) as [A B]. rewrite T6 in A. cbn [is_sigd] in A |- *. split; [exact A|].
              intros Hs. destruct (B Hs) as [B1 B2]. split; [exact B1|]. intros Y. discriminate Y.
           ++ intros X. destruct (U12 X) as (A & _). congruence.
           ++ intros _ Y. exfalso. apply Ww. exact Y.
           ++ intros X. exfalso. unfold CC in X. cproj_in Ww. cproj_in X. rewrite (wait_cst _ Ww) in X. discriminate X.
           ++ intros X. exfalso. unfold CC in X. cproj_in Ww. cproj_in X. rewrite (wait_cst _ Ww) in X. discriminate X.
        -- constructor; rewrite ?Cu by reflexivity; unfold item0; sproj; rewrite ?(PhO u Nuw), ?upd_other by exact Nuw; auto.
           ++ intros X. specialize (U4 X). congruence.
           ++ intros x Hx. rewrite PhO; [auto|]. apply SigX. exact Hx.
           ++ intros x Hx Nx. rewrite PhO; [auto|]. apply RunX; assumption.
           ++ intros X. specialize (U9 X). unfold waitinv, handed_or_done, item0 in *. sproj. rewrite (PhO u Nuw), ?upd_other by exact Nuw.
              destruct (ph s u) as [| |h|h|d|]; auto.
              ** destruct U9 as (A & B & [Y|(R1 & R2)]); [split; [exact A|]; split; [exact B|]; left; exact Y|].
                 exfalso. assert (h = t) by congruence. subst h. unfold CC in R1. rewrite Hpc in R1. cproj_in R1.
                 destruct (Z.eqb_spec w 0); [contradiction|]. congruence.
              ** destruct U9 as [A B]. split; [|exact B]. rewrite D. destruct (Z.eq_dec d t) as [->|]; [|exact A].
                 unfold CC in A. rewrite Hpc in A. discriminate A.
           ++ intros X. destruct (U11 X) as [A B]. split; [exact A|]. intros Hs. destruct (B Hs) as [B1 B2]. split; [exact B1|].
              intros Y. destruct (B2 Y) as [d Hd]. exists d. rewrite D. destruct (Z.eq_dec d t) as [->|]; [|exact Hd]. unfold CC in Hd. rewrite Hpc in Hd. discriminate Hd.
Qed.
End Steps.

(* ------------------------------------------------------------------ every reachable state satisfies the invariant *)
Lemma step_preserves s t e s' : valid_tid t -> Inv s -> gstep s t e = Some s' -> Inv s'.
Proof.
  intros Vt HI Hs. destruct (pcs s t) eqn:Hpc;
  first [ eapply step_Idle; eassumption | eapply step_A_xchg; eassumption | eapply step_A_head; eassumption
        | eapply step_A_link; eassumption | eapply step_A_probe; eassumption | eapply step_A_wload; eassumption
        | eapply step_A_wbody; eassumption | eapply step_A_root; eassumption | eapply step_A_ret; eassumption
        | eapply step_S_aaw; eassumption | eapply step_S_ftail; eassumption | eapply step_S_fload; eassumption | eapply step_S_fbody; eassumption
        | eapply step_S_wprep; eassumption | eapply step_S_xchg; eassumption | eapply step_S_head; eassumption
        | eapply step_S_link; eassumption | eapply step_S_sw; eassumption | eapply step_S_pwload; eassumption
        | eapply step_S_pwbody; eassumption | eapply step_S_sub; eassumption | eapply step_S_eload; eassumption
        | eapply step_S_futex; eassumption | eapply step_S_sleep; eassumption | eapply step_S_woken; eassumption
        | eapply step_S_fake; eassumption | eapply step_S_call; eassumption | eapply step_S_incall; eassumption
        | eapply step_S_tail; eassumption | eapply step_S_uload; eassumption | eapply step_S_ubody; eassumption
        | eapply step_S_ret; eassumption | eapply step_B_tail; eassumption | eapply step_B_susp; eassumption
        | eapply step_B_head; eassumption | eapply step_B_dec; eassumption | eapply step_C_load; eassumption
        | eapply step_C_body; eassumption | eapply step_C_xor; eassumption | eapply step_C_root; eassumption
        | eapply step_P_cas; eassumption | eapply step_P_store; eassumption | eapply step_D_load; eassumption
        | eapply step_D_body; eassumption | eapply step_G_sig; eassumption | eapply step_G_wake; eassumption
        | eapply step_W_lbody; eassumption | eapply step_W_tail; eassumption | eapply step_W_head; eassumption
        | eapply step_W_state; eassumption | eapply step_W_pop; eassumption | eapply step_W_dec; eassumption
        | eapply step_W_incall; eassumption | eapply step_W_uload; eassumption | eapply step_W_ubody; eassumption
        | eapply step_W_xor; eassumption ].
Qed.

Theorem inv_reach s : reach s -> Inv s.
Proof.
  apply invariant_lift.
  - intros ? ->. apply Inv_init.
  - intros s0 [t e] s1 HI [Vt Hs]. cbn in *. eapply step_preserves; eauto.
Qed.

Lemma reach_gstep s t e s' : reach s -> valid_tid t -> gstep s t e = Some s' -> reach s'.
Proof. intros R Vt Hs. apply (reach_step _ _ s (t, e) s' R). split; assumption. Qed.

(* the global model's thread moves are exactly moves of the per-thread automaton used for trace conformance *)
Lemma gstep_tstep s t e s' : gstep s t e = Some s' -> exists acts, tstep t (pcs s t) e = Some (pcs s' t, acts).
Proof.
  intros H. apply gstep_unfold in H as (p' & acts & s1 & Hts & Ha & ->). exists acts. rewrite Hts. sproj.
  rewrite upd_same. reflexivity.
Qed.

(* ------------------------------------------------------------------ consequences *)
Lemma wakeof_inv p w : wakeof p = Some w -> exists c, p = G_wake c w.
Proof. destruct p; cbn; intros H; try discriminate H. injection H as <-. eauto. Qed.
Lemma sigof_inv p w : sigof p = Some w -> exists c, p = G_sig c w.
Proof. destruct p; cbn; intros H; try discriminate H. injection H as <-. eauto. Qed.
Lemma runof_inv p w : runof p = Some w -> exists o n, p = W_incall o n w.
Proof. destruct p; cbn; intros H; try discriminate H. destruct (w0 =? 0); [discriminate H|]. injection H as <-. eauto. Qed.
Lemma sleeppc_inv p : sleeppc p = true -> exists k, p = S_sleep k.
Proof. destruct p; cbn; intros H; try discriminate H. eauto. Qed.

(* 1. a synchronous call returns only after its work item has finished *)
Lemma no_early_return s : reach s -> early_ret s = false.
Proof. intros R. apply (g_flags _ _ (proj1 (inv_reach s R))). Qed.

Lemma at_return_finished s t : reach s -> pcs s t = S_ret -> ist s t = IFin /\ runs s t = 1.
Proof.
  intros R Hpc. pose proof (t_after _ _ _ (proj2 (inv_reach s R) t)) as H. cbv beta in H. rewrite Hpc in H.
  destruct (H eq_refl) as (A & B & _). auto.
Qed.

Lemma return_step_after_finish s t e s' :
  reach s -> valid_tid t -> gstep s t e = Some s' -> ek e = DVU_RET -> cst (pcs s t) <> CNone ->
  ist s t = IFin /\ runs s t = 1.
Proof.
  intros R Vt Hs Hk Hc. pose proof (inv_reach s R) as [G T].
  destruct (T t) as [T1 T2 T3 T4 T5 T6 T7 T8 T9 T10 T11 T12 T13 T14 T15 T16]. cbv beta in *.
  apply gstep_unfold in Hs as (p' & acts & s1 & Hts & Ha & ->).
  assert (Q : forall k o f, k <> DVU_RET -> is_q e k o f = false).
  { intros k o f N. unfold is_q. rewrite Hk. destruct (Z.eqb_spec DVU_RET k); [congruence|reflexivity]. }
  assert (Qe : forall k o w, k <> DVU_RET -> is_ev e k o w = false).
  { intros k o w N. unfold is_ev. rewrite Hk. destruct (Z.eqb_spec DVU_RET k); [congruence|reflexivity]. }
  assert (Qn : forall k w, k <> DVU_RET -> is_note e k w = false).
  { intros k w N. unfold is_note. rewrite Hk. destruct (Z.eqb_spec DVU_RET k); [congruence|reflexivity]. }
  assert (Qt : forall v, is_tau e v = false) by (intros v; unfold is_tau; rewrite Hk; reflexivity).
  assert (Qc : (ek e =? DVU_CALL) = false) by (rewrite Hk; reflexivity).
  assert (Qb : (ek e =? DVU_CALLOUT_BEGIN) = false) by (rewrite Hk; reflexivity).
  assert (Qd : (ek e =? DVU_CALLOUT_END) = false) by (rewrite Hk; reflexivity).
  destruct (pcs s t) eqn:Hpc; cbn [tstep] in Hts; cbn [cst cont_cst pk_cont] in Hc; try (exfalso; apply Hc; reflexivity);
    rewrite ?Qt, ?Qc, ?Qb, ?Qd, ?Q, ?Qe, ?Qn in Hts by discriminate; cbn [andb orb] in Hts;
    repeat match type of Hts with (match ?b with _ => _ end) = Some _ => destruct b; try discriminate Hts end;
    rewrite ?Qt, ?Qc, ?Qb, ?Qd, ?Q, ?Qe, ?Qn in Hts by discriminate; cbn [andb orb] in Hts; try discriminate Hts.
  - (* S_woken KA: the drainer ran the item *)
    cproj_in T9. cproj_in T12.
    destruct (T12 eq_refl) as (Sg & _). assert (Wt : waitinv (fun x => cls (pcs s x)) s t) by (apply T9; discriminate).
    unfold waitinv in Wt. rewrite Sg in Wt. ret_inv Hts.
    apply acts_cons in Ha as (sx & HX & _). cbn [apply_act] in HX.
    destruct (Bool.eqb (remote s t) true) eqn:Rm; [|discriminate HX]. apply eqb_prop in Rm.
    destruct Wt as [[_ (_ & _ & X)]|(A & B & _)]; [congruence|auto].
  - (* S_ret *)
    cproj_in T15. destruct (T15 eq_refl) as (A & B & _). auto.
Qed.

(* 2. the item of a synchronous call is started at most once; when the call is over it has run exactly once; if the drainer
      ran it, the caller never starts it *)
Lemma runs_once s t : reach s -> cst (pcs s t) <> CNone ->
  0 <= runs s t <= 1 /\
  (cst (pcs s t) = CAfter -> runs s t = 1 /\ ist s t = IFin /\ remote s t = false) /\
  (cst (pcs s t) = CIn -> runs s t = 1 /\ remote s t = false) /\
  (remote s t = true -> runs s t = 1 /\ ist s t = IFin /\ cst (pcs s t) = CBefore /\ wst (pcs s t) <> WNone).
Proof.
  intros R Hc. pose proof (inv_reach s R) as [G T]. destruct (T t) as [T1 T2 T3 T4 T5 T6 T7 T8 T9 T10 T11 T12 T13 T14 T15 T16].
  cbv beta in *. cproj_in T13. cproj_in T14. cproj_in T15. cproj_in T9.
  assert (Wcase : wst (pcs s t) <> WNone ->
            (runs s t = 0 /\ remote s t = false) \/ (runs s t = 1 /\ remote s t = false) \/
            (runs s t = 1 /\ ist s t = IFin /\ remote s t = true)).
  { intros W. specialize (T9 W). unfold waitinv, handed_or_done, item0 in T9. destruct (ph s t); try contradiction; intuition. }
  destruct (cst (pcs s t)) eqn:C; [exfalso; apply Hc; reflexivity| | |].
  - destruct (wst (pcs s t)) eqn:W.
    + destruct (T13 eq_refl eq_refl) as (A & B & D). rewrite B, D.
      split; [lia|]. split; [intros X; discriminate X|]. split; [intros X; discriminate X|]. intros X; discriminate X.
    + destruct (Wcase ltac:(discriminate)) as [(A & B)|[(A & B)|(A & B & D)]]; rewrite A;
        (split; [lia|]; split; [intros X; discriminate X|]; split; [intros X; discriminate X|]; intros X; try congruence);
        repeat split; auto; discriminate.
    + destruct (Wcase ltac:(discriminate)) as [(A & B)|[(A & B)|(A & B & D)]]; rewrite A;
        (split; [lia|]; split; [intros X; discriminate X|]; split; [intros X; discriminate X|]; intros X; try congruence);
        repeat split; auto; discriminate.
    + destruct (Wcase ltac:(discriminate)) as [(A & B)|[(A & B)|(A & B & D)]]; rewrite A;
        (split; [lia|]; split; [intros X; discriminate X|]; split; [intros X; discriminate X|]; intros X; try congruence);
        repeat split; auto; discriminate.
  - destruct (T14 eq_refl) as (A & B & D). rewrite B, D.
    split; [lia|]. split; [intros X; discriminate X|]. split; [auto|]. intros X; discriminate X.
  - destruct (T15 eq_refl) as (A & B & D). rewrite B, D.
    split; [lia|]. split; [auto|]. split; [intros X; discriminate X|]. intros X; discriminate X.
Qed.

(* 3. whoever runs a work item of the lane owns the lane, and nobody else runs one *)
Lemma handoff_exclusive s t : reach s -> incall (pcs s t) = true ->
  holder s = Some t /\ Z.land (st s) OWNER_MASK = t /\ running s = Some t /\ overlap s = false /\
  forall u, incall (pcs s u) = true -> u = t.
Proof.
  intros R Hi. pose proof (inv_reach s R) as [G T].
  pose proof (t_hold _ _ _ (T t)) as H. cbv beta in H. cproj_in H. specialize (H (incall_hold _ Hi)).
  pose proof (t_incall _ _ _ (T t)) as Hr. cbv beta in Hr. cproj_in Hr. specialize (Hr Hi).
  split; [exact H|]. split.
  - pose proof (g_word _ _ G) as Wd. rewrite H in Wd. apply (wordinv_owner _ _ _ Wd).
  - split; [exact Hr|]. split; [apply (g_flags _ _ G)|].
    intros u Hu. pose proof (t_incall _ _ _ (T u)) as Hru. cbv beta in Hru. cproj_in Hru. specialize (Hru Hu). congruence.
Qed.

(* the waiter that runs its item after the hand-off: at that moment dq_state names it as the owner *)
Lemma waiter_runs_as_owner s t k : reach s -> pcs s t = S_incall k false ->
  holder s = Some t /\ Z.land (st s) OWNER_MASK = t /\ forall u, incall (pcs s u) = true -> u = t.
Proof.
  intros R Hpc. destruct (handoff_exclusive s t R) as (A & B & _ & _ & D); [rewrite Hpc; reflexivity|]. auto.
Qed.

(* 4. no lost wake-up on the thread event: a thread asleep in futex_wait on its event is in the wait loop, and if its item
      has been handed off / run, the signal or the futex_wake is pending at a definite program point of another thread *)
Lemma no_lost_wake s t : reach s -> slp s t = Sleeping ->
  (exists k, pcs s t = S_sleep k) /\ ev s t = (if is_sigd (ph s t) then 0 else MAXV) /\
  match ph s t with
  | PhNone => False
  | PhQueued => True
  | PhPopH h => holder s = Some h /\ exists e, cur s = Some e /\ e_own e = t
  | PhPopR h => holder s = Some h /\ ((exists e, cur s = Some e /\ e_own e = t) \/ exists o n, pcs s h = W_incall o n t)
  | PhSig d => exists c, pcs s d = G_sig c t
  | PhSigd => exists d c, pcs s d = G_wake c t
  end.
Proof.
  intros R Hs. pose proof (inv_reach s R) as [G T]. destruct (T t) as [T1 T2 T3 T4 T5 T6 T7 T8 T9 T10 T11 T12 T13 T14 T15 T16].
  cbv beta in *. cproj_in T8. cproj_in T9. cproj_in T10. cproj_in T11. cproj_in T12.
  destruct (wst (pcs s t)) eqn:W.
  - destruct (T8 eq_refl) as (_ & _ & X). contradiction.
  - destruct (T10 eq_refl) as (_ & X). contradiction.
  - destruct (T11 eq_refl) as (A & B). destruct (B Hs) as (B1 & B2). split; [apply sleeppc_inv; exact B1|]. split; [exact A|].
    assert (Wt : waitinv (fun x => cls (pcs s x)) s t) by (apply T9; discriminate). unfold waitinv in Wt.
    destruct (ph s t) as [| |h|h|d|]; auto.
    + destruct Wt as (_ & A1 & e & A2 & A3 & _). split; [exact A1|]. eauto.
    + destruct Wt as (A1 & _ & [(_ & e & A2 & A3 & _)|(A2 & _)]); split; auto; [left; eauto|]. right. cproj_in A2. apply runof_inv in A2. exact A2.
    + destruct Wt as (A1 & _). cproj_in A1. apply sigof_inv. exact A1.
    + destruct (B2 eq_refl) as (d & Hd). exists d. cproj_in Hd. apply wakeof_inv. exact Hd.
  - destruct (T12 eq_refl) as (_ & _ & X). contradiction.
Qed.

(* the signaller is committed: whoever stands at the signal / wake site of waiter w is there because the hand-off to w
   (or the remote run of w's item) has been decided, and it is the only one *)
Lemma signaller_unique s d1 d2 c1 c2 w : reach s -> pcs s d1 = G_sig c1 w -> pcs s d2 = G_sig c2 w -> d1 = d2.
Proof.
  intros R H1 H2. pose proof (inv_reach s R) as [G T].
  pose proof (t_sig _ _ _ (T d1) w) as A. cbv beta in A. rewrite H1 in A. specialize (A eq_refl).
  pose proof (t_sig _ _ _ (T d2) w) as B. cbv beta in B. rewrite H2 in B. specialize (B eq_refl). congruence.
Qed.

(* the lock word and the ghost owner agree in every reachable state *)
Lemma owner_word s : reach s ->
  match holder s with
  | Some h => Z.land (st s) OWNER_MASK = h /\ valid_tid h
  | None => Z.land (st s) OWNER_MASK = 0
  end.
Proof.
  intros R. pose proof (inv_reach s R) as [G T]. pose proof (g_word _ _ G) as Wd. destruct (holder s) as [h|] eqn:Hh.
  - split; [apply (wordinv_owner _ _ _ Wd)|apply (g_holder _ _ G h Hh)].
  - destruct Wd as (r & E & W & _ & L & _). cbn in L. destruct L as (L1 & _). rewrite E.
    unfold OWNER_MASK, DLOCK_OWNER_MASK. pose proof W as W'. unfold DqFields.wfr in W'.
    rewrite DqFields.enc_vec. rewrite (DqFields.land_vec_const _ 1073741823) by (first [apply DqFields.wfv12; lia | lia]).
    change (Fields.decode DqFields.LAY 1073741823) with [1073741823;0;0;0;0;0;0;0;0;0;0;0]. cbn [Fields.map2].
    rewrite !Z.land_0_r, DqFields.land_owner by lia. rewrite DqFields.vec_linear. lia.
Qed.

Lemma sites_all :
  model_sites_event_signal = f_dispatch_thread_event_signal_sites /\
  model_sites_event_wait = f_dispatch_thread_event_wait_sites /\
  model_sites_event_wait_slow = f_dispatch_thread_event_wait_slow_sites /\
  model_sites_async_and_wait_invoke = f_dispatch_async_and_wait_invoke_sites /\
  model_sites_event_signal = f_dispatch_waiter_wake_wlh_anon_sites /\
  model_sites_push_item = f_dispatch_queue_push_item_sites /\
  model_sites_pop_head = f_dispatch_queue_pop_head_sites /\
  model_sites_class_barrier_complete = f_dispatch_lane_class_barrier_complete_sites.
Proof. repeat split. Qed.
