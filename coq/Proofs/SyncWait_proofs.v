(* SyncWait_proofs.v — the invariant of Proofs/SyncWait_inv.v holds in every reachable state of the synchronous
   hand-off model (any number of threads, any interleaving, spurious CAS failures and futex returns included), and
   the consequences claimed in Properties_C05_sync.v. *)
From Coq Require Import ZArith Bool List Lia.
From Verif Require Import Word Conc Gen_consts Gen_dqstate Gen_lanesites SyncWait SyncWait_word SyncWait_inv.
Import ListNotations.
Local Open Scope Z_scope.

(* ---- the model's site lists are the ones the translator reads from the source ---- *)
Lemma sites_event_signal : model_sites_event_signal = f_dispatch_thread_event_signal_sites.
Proof. reflexivity. Qed.
Lemma sites_event_wait : model_sites_event_wait = f_dispatch_thread_event_wait_sites.
Proof. reflexivity. Qed.
Lemma sites_event_wait_slow : model_sites_event_wait_slow = f_dispatch_thread_event_wait_slow_sites.
Proof. reflexivity. Qed.
Lemma sites_async_and_wait_invoke : model_sites_async_and_wait_invoke = f_dispatch_async_and_wait_invoke_sites.
Proof. reflexivity. Qed.
Lemma sites_waiter_wake : model_sites_event_signal = f_dispatch_waiter_wake_wlh_anon_sites.
Proof. reflexivity. Qed.
Lemma sites_push_item : model_sites_push_item = f_dispatch_queue_push_item_sites.
Proof. reflexivity. Qed.
Lemma sites_pop_head : model_sites_pop_head = f_dispatch_queue_pop_head_sites.
Proof. reflexivity. Qed.
Lemma sites_class_barrier_complete : model_sites_class_barrier_complete = f_dispatch_lane_class_barrier_complete_sites.
Proof. reflexivity. Qed.

(* ---- invariance under re-labelling of program points inside a class ---- *)
Lemma ginv_ext C C' s : (forall x, C' x = C x) -> ginv C s -> ginv C' s.
Proof.
  intros E [G1 G2 G3 G4 G5 G6 G7 G8]. constructor; auto.
  - intros h Hh. rewrite E. apply G3; exact Hh.
  - intros t Ht. rewrite E. apply G4; exact Ht.
  - intros e He. destruct (G6 e He) as (h & H1 & H2 & H3). exists h. rewrite E. split; [exact H1|]. split; [exact H2|].
    unfold cur_ok in *. rewrite E. exact H3.
Qed.

Lemma waitinv_ext C C' s t : (forall x, C' x = C x) -> waitinv C s t -> waitinv C' s t.
Proof.
  intros E. unfold waitinv. destruct (ph s t); auto; rewrite !E; auto.
Qed.

Lemma tinv_ext C C' s t : (forall x, C' x = C x) -> tinv C s t -> tinv C' s t.
Proof.
  intros E [T1 T2 T3 T4 T5 T6 T7 T8 T9 T10 T11 T12 T13 T14 T15 T16].
  constructor; rewrite ?E; auto.
  - intros H. apply (waitinv_ext C C'); auto.
  - intros H. destruct (T11 H) as [A B]. split; [exact A|]. intros Hs. destruct (B Hs) as [B1 B2]. split; [exact B1|].
    intros Hp. destruct (B2 Hp) as [d Hd]. exists d. rewrite E. exact Hd.
Qed.

Lemma InvP_ext C C' s : (forall x, C' x = C x) -> InvP C s -> InvP C' s.
Proof. intros E [G T]. split; [apply (ginv_ext C C'); auto|]. intros t. apply (tinv_ext C C'); auto. Qed.

Lemma Inv_init : Inv init_state.
Proof.
  split.
  - constructor; unfold init_state; cbn [st holder token rootq running overlap early_ret cur lst is_some waiters filter map];
      try discriminate; auto.
    + exact init_word_inv.
    + constructor.
  - intros t. constructor; unfold init_state, waitinv, item0;
      cbn [pcs cls holdpc tokpc wst cst incall sigof wakeof runof curpc dbwpc sleeppc wfpc c_hold c_tok c_wst c_cst c_incall
           c_sig c_wake c_run c_cur c_dbw c_sleep c_wf holder token running cur ph ev slp ist runs remote is_sigd];
      try discriminate; auto; try (intros; discriminate).
    + split; discriminate.
    + intros _. repeat split; discriminate.
Qed.

(* ---- tactics ---- *)
Ltac sproj :=
  cbn [st lst tailz rootq pcs ev slp token holder cur ph ist runs remote running overlap early_ret
       set_st set_list set_rootq set_pc set_ev set_slp set_holder set_token set_cur set_ph set_item set_running set_early].
Ltac sproj_in H :=
  cbn [st lst tailz rootq pcs ev slp token holder cur ph ist runs remote running overlap early_ret
       set_st set_list set_rootq set_pc set_ev set_slp set_holder set_token set_cur set_ph set_item set_running set_early] in H.
Ltac cproj :=
  cbn [cls holdpc tokpc wst cst incall sigof wakeof runof curpc dbwpc sleeppc wfpc c_hold c_tok c_wst c_cst c_incall c_sig
       c_wake c_run c_cur c_dbw c_sleep c_wf cont_hold cont_wst cont_cst cont_work cont_sync pk_cont okcont okenq
       cont_pc after_pop].
Ltac cproj_in H :=
  cbn [cls holdpc tokpc wst cst incall sigof wakeof runof curpc dbwpc sleeppc wfpc c_hold c_tok c_wst c_cst c_incall c_sig
       c_wake c_run c_cur c_dbw c_sleep c_wf cont_hold cont_wst cont_cst cont_work cont_sync pk_cont okcont okenq
       cont_pc after_pop] in H.

Definition CC (s : gst) : Z -> pcls := fun x => cls (pcs s x).

Lemma CC_set_pc_same s t p : CC (set_pc s t p) t = cls p.
Proof. unfold CC. sproj. rewrite upd_same. reflexivity. Qed.
Lemma CC_set_pc_other s t p u : u <> t -> CC (set_pc s t p) u = CC s u.
Proof. intros H. unfold CC. sproj. rewrite upd_other by exact H. reflexivity. Qed.

(* the invariant does not look at the list links, the tail word or the root-queue counter beyond g_rootq *)
Lemma waitinv_frame C C' s s' u :
  (forall x, c_sig (C' x) = c_sig (C x)) -> (forall x, c_run (C' x) = c_run (C x)) ->
  holder s' = holder s -> cur s' = cur s -> ph s' u = ph s u ->
  ist s' u = ist s u -> runs s' u = runs s u -> remote s' u = remote s u ->
  waitinv C s u -> waitinv C' s' u.
Proof.
  intros Es Er Eh Ec Ep Ei Eru Erm. unfold waitinv, handed_or_done, item0. rewrite Ep, Eh, Ec, Ei, Eru, Erm.
  destruct (ph s u); auto; rewrite ?Es, ?Er; auto.
Qed.

Lemma tinv_frame C C' s s' u :
  C' u = C u ->
  (forall x, c_sig (C' x) = c_sig (C x)) -> (forall x, c_run (C' x) = c_run (C x)) ->
  (forall x, c_wake (C' x) = c_wake (C x)) ->
  holder s' = holder s -> (token s' = Some (Some u) <-> token s = Some (Some u)) ->
  (running s = Some u -> running s' = Some u) ->
  cur s' = cur s -> (forall x, ph s' x = ph s x) -> ev s' u = ev s u -> slp s' u = slp s u ->
  ist s' u = ist s u -> runs s' u = runs s u -> remote s' u = remote s u ->
  tinv C s u -> tinv C' s' u.
Proof.
  intros Eu Es Er Ew Eh Et Eru Ec Ep Ee Esl Ei Ern Erm [T1 T2 T3 T4 T5 T6 T7 T8 T9 T10 T11 T12 T13 T14 T15 T16].
  constructor; rewrite ?Eu, ?Eh, ?Ec, ?Ep, ?Ee, ?Esl; unfold item0 in *; rewrite ?Ei, ?Ern, ?Erm; auto.
  - rewrite Et. exact T2.
  - intros w H. rewrite Ep. auto.
  - intros w H H0. rewrite Ep. auto.
  - intros H. apply (waitinv_frame C C' s s'); auto.
  - intros H. destruct (T11 H) as [A B]. split; [exact A|]. intros Hs. destruct (B Hs) as [B1 B2]. split; [exact B1|].
    intros Hp. destruct (B2 Hp) as [d Hd]. exists d. rewrite Ew. exact Hd.
Qed.

Record same_ghost (s s' : gst) : Prop := {
  sg_st : st s' = st s; sg_rootq : rootq s' = rootq s; sg_token : token s' = token s; sg_holder : holder s' = holder s;
  sg_cur : cur s' = cur s; sg_running : running s' = running s; sg_overlap : overlap s' = overlap s;
  sg_early : early_ret s' = early_ret s; sg_ph : forall x, ph s' x = ph s x; sg_ev : forall x, ev s' x = ev s x;
  sg_slp : forall x, slp s' x = slp s x; sg_ist : forall x, ist s' x = ist s x; sg_runs : forall x, runs s' x = runs s x;
  sg_remote : forall x, remote s' x = remote s x
}.

Lemma entry_ok_ph s s' e : (forall x, ph s' x = ph s x) -> entry_ok s e -> entry_ok s' e.
Proof. intros E. unfold entry_ok. rewrite E. auto. Qed.

Lemma ginv_same C s s' : same_ghost s s' -> Forall (entry_ok s') (lst s') -> NoDup (waiters (lst s')) -> ginv C s -> ginv C s'.
Proof.
  intros [E1 E2 E3 E4 E5 E6 E7 E8 E9 E10 E11 E12 E13 E14] L N [G1 G2 G3 G4 G5 G6 G7 G8].
  constructor; rewrite ?E1, ?E2, ?E3, ?E4, ?E5, ?E6, ?E7, ?E8; auto.
  - intros h Hh. destruct (G3 h Hh) as [V D]. split; [exact V|]. rewrite E9, E14. exact D.
  - intros e He. destruct (G6 e He) as (h & H1 & H2 & H3). exists h. split; [exact H1|]. split; [exact H2|].
    unfold cur_ok in *. rewrite E9. exact H3.
Qed.

Lemma tinv_same C s s' u : same_ghost s s' -> tinv C s u -> tinv C s' u.
Proof.
  intros [E1 E2 E3 E4 E5 E6 E7 E8 E9 E10 E11 E12 E13 E14]. apply tinv_frame; auto. rewrite E3. tauto. rewrite E6. auto.
Qed.

(* a step that changes nothing the invariant looks at and keeps the thread inside its class *)
Lemma local_step s s1 t p' :
  same_ghost s s1 -> Forall (entry_ok s1) (lst s1) -> NoDup (waiters (lst s1)) ->
  cls p' = cls (pcs s t) -> pcs s1 = pcs s -> Inv s -> Inv (set_pc s1 t p').
Proof.
  intros SG L N Ec Ep [G T].
  assert (SG' : same_ghost s (set_pc s1 t p')) by (destruct SG; constructor; sproj; auto).
  assert (E : forall x, CC (set_pc s1 t p') x = CC s x).
  { intros x. destruct (Z.eq_dec x t) as [->|Ne].
    - rewrite CC_set_pc_same. unfold CC. exact Ec.
    - rewrite CC_set_pc_other by exact Ne. unfold CC. rewrite Ep. reflexivity. }
  apply (InvP_ext (CC s)); [exact E|]. split.
  - apply (ginv_same _ s); auto.
  - intros u. apply (tinv_same _ s); auto.
Qed.

Lemma same_ghost_refl s : same_ghost s s.
Proof. constructor; auto. Qed.

(* ---- list facts ---- *)
Lemma link_id_kinds l i : map (fun e => (e_kind e, e_own e)) (link_id l i) = map (fun e => (e_kind e, e_own e)) l.
Proof.
  induction l as [|e l IH]; cbn [link_id map]; [reflexivity|].
  destruct (e_id e =? i); cbn [map e_kind e_own]; [reflexivity|]. rewrite IH. reflexivity.
Qed.
Lemma waiters_link l i : waiters (link_id l i) = waiters l.
Proof.
  unfold waiters. induction l as [|e l IH]; cbn [link_id filter map]; [reflexivity|].
  destruct (e_id e =? i); cbn [filter e_kind].
  - destruct (is_waiter_kind (e_kind e)); reflexivity.
  - destruct (is_waiter_kind (e_kind e)); cbn [map]; rewrite IH; reflexivity.
Qed.
Lemma entry_ok_link s l i : Forall (entry_ok s) l -> Forall (entry_ok s) (link_id l i).
Proof.
  induction 1 as [|e l He Hl IH]; cbn [link_id]; [constructor|].
  destruct (e_id e =? i); constructor; auto.
Qed.
Lemma waiters_app l e : waiters (l ++ [e]) = waiters l ++ (if is_waiter_kind (e_kind e) then [e_own e] else []).
Proof. unfold waiters. rewrite filter_app, map_app. cbn [filter]. destruct (is_waiter_kind (e_kind e)); reflexivity. Qed.
Lemma in_waiters s l w : Forall (entry_ok s) l -> In w (waiters l) -> ph s w = PhQueued.
Proof.
  intros F. unfold waiters. rewrite in_map_iff. intros (e & <- & He). apply filter_In in He as [He Hk].
  rewrite Forall_forall in F. specialize (F e He). unfold entry_ok in F. rewrite Hk in F. apply F.
Qed.

Lemma gstep_unfold s t e s' : gstep s t e = Some s' ->
  exists p' acts s1, tstep t (pcs s t) e = Some (p', acts) /\ apply_acts acts s t e = Some s1 /\ s' = set_pc s1 t p'.
Proof.
  unfold gstep. intros H. destruct (tstep t (pcs s t) e) as [[p' acts]|]; [|discriminate H].
  destruct (apply_acts acts s t e) as [s1|] eqn:A; [|discriminate H]. injection H as <-.
  exists p', acts, s1. auto.
Qed.

Ltac bd H :=
  repeat match type of H with
  | (if ?c then _ else _) = Some _ => let C := fresh "C" in destruct c eqn:C; [|try discriminate H]
  | (match ?x with Some _ => _ | None => _ end) = Some _ => let X := fresh "X" in destruct x eqn:X; [|try discriminate H]
  | (match ?x with nil => _ | cons _ _ => _ end) = Some _ => let X := fresh "L" in destruct x eqn:X; [try discriminate H|]
  end.
Ltac ret_inv H := unfold ret in H; injection H as <- <-.

Lemma ginv_frame C C' s s' :
  (forall x, c_hold (C' x) = c_hold (C x)) -> (forall x, c_wst (C' x) = c_wst (C x)) ->
  (forall x, c_incall (C' x) = c_incall (C x)) -> (forall x, c_cur (C' x) = c_cur (C x)) ->
  (forall x, c_dbw (C' x) = c_dbw (C x)) ->
  st s' = st s -> holder s' = holder s -> token s' = token s -> rootq s' = rootq s -> running s' = running s ->
  overlap s' = overlap s -> early_ret s' = early_ret s -> cur s' = cur s -> (forall x, ph s' x = ph s x) ->
  (forall h, holder s = Some h -> remote s' h = remote s h) ->
  Forall (entry_ok s') (lst s') -> NoDup (waiters (lst s')) ->
  ginv C s -> ginv C' s'.
Proof.
  intros Eh Ew Ei Ec Ed E1 E2 E3 E4 E5 E6 E7 E8 E9 E10 L N [G1 G2 G3 G4 G5 G6 G7 G8].
  constructor; rewrite ?E1, ?E2, ?E3, ?E4, ?E5, ?E6, ?E7, ?E8; auto.
  - intros h Hh. destruct (G3 h Hh) as [V D]. split; [exact V|]. rewrite Eh, Ew, E9, (E10 h Hh). exact D.
  - intros t Ht. rewrite Ei. auto.
  - intros e He. destruct (G6 e He) as (h & H1 & H2 & H3). exists h. split; [exact H1|]. rewrite Ec. split; [exact H2|].
    unfold cur_ok in *. rewrite Ed, E9. exact H3.
Qed.

Lemma ginv_frame_tok C C' s s' :
  (forall x, c_hold (C' x) = c_hold (C x)) -> (forall x, c_wst (C' x) = c_wst (C x)) ->
  (forall x, c_incall (C' x) = c_incall (C x)) -> (forall x, c_cur (C' x) = c_cur (C x)) ->
  (forall x, c_dbw (C' x) = c_dbw (C x)) ->
  wordinv (st s') (holder s') (is_some (token s')) -> holder s' = holder s ->
  rootq s' = (match token s' with Some None => 1 | _ => 0 end) -> running s' = running s ->
  overlap s' = overlap s -> early_ret s' = early_ret s -> cur s' = cur s -> (forall x, ph s' x = ph s x) ->
  (forall h, holder s = Some h -> remote s' h = remote s h) ->
  Forall (entry_ok s') (lst s') -> NoDup (waiters (lst s')) ->
  ginv C s -> ginv C' s'.
Proof.
  intros Eh Ew Ei Ec Ed E1 E2 E4 E5 E6 E7 E8 E9 E10 L N [G1 G2 G3 G4 G5 G6 G7 G8].
  constructor; rewrite ?E2, ?E5, ?E6, ?E7, ?E8; auto.
  - rewrite <- E2. exact E1.
  - intros h Hh. destruct (G3 h Hh) as [V D]. split; [exact V|]. rewrite Eh, Ew, E9, (E10 h Hh). exact D.
  - intros t Ht. rewrite Ei. auto.
  - intros e He. destruct (G6 e He) as (h & H1 & H2 & H3). exists h. split; [exact H1|]. rewrite Ec. split; [exact H2|].
    unfold cur_ok in *. rewrite Ed, E9. exact H3.
Qed.

Lemma acts_cons a l s t e s' : apply_acts (a :: l) s t e = Some s' ->
  exists s1, apply_act a s t e = Some s1 /\ apply_acts l s1 t e = Some s'.
Proof. cbn [apply_acts]. destruct (apply_act a s t e) as [s1|]; [|discriminate]. intros H. exists s1. auto. Qed.
Lemma acts_nil s t e s' : apply_acts [] s t e = Some s' -> s' = s.
Proof. cbn. intros H. injection H as <-. reflexivity. Qed.

(* ---- frames for the steps that move the drain lock ---- *)
Section LockFrames.
Variables (C C' : Z -> pcls) (s s' : gst) (u : Z).
Hypothesis Eu : C' u = C u.
Hypothesis Es : forall x, c_sig (C' x) = c_sig (C x).
Hypothesis Er : forall x, c_run (C' x) = c_run (C x).
Hypothesis Ew : forall x, c_wake (C' x) = c_wake (C x).
Hypothesis Et : token s' = Some (Some u) <-> token s = Some (Some u).
Hypothesis Eru : running s = Some u -> running s' = Some u.
Hypothesis Ep : forall x, ph s' x = ph s x.
Hypothesis Ee : ev s' u = ev s u.
Hypothesis Esl : slp s' u = slp s u.
Hypothesis Ei : ist s' u = ist s u.
Hypothesis Ern : runs s' u = runs s u.
Hypothesis Erm : remote s' u = remote s u.

(* someone else acquires the free lock *)
Lemma tinv_acquire t : holder s = None -> holder s' = Some t -> u <> t -> cur s' = cur s -> tinv C s u -> tinv C' s' u.
Proof.
  intros Hn Hs Ne Ec [T1 T2 T3 T4 T5 T6 T7 T8 T9 T10 T11 T12 T13 T14 T15 T16].
  constructor; rewrite ?Eu, ?Ec, ?Ep, ?Ee, ?Esl; unfold item0 in *; rewrite ?Ei, ?Ern, ?Erm; auto.
  - intros H. specialize (T1 H). congruence.
  - rewrite Et. exact T2.
  - intros w H. rewrite Ep. auto.
  - intros w H H0. rewrite Ep. auto.
  - intros H. specialize (T9 H). unfold waitinv, handed_or_done, item0 in *. rewrite Ep, Ec, Ei, Ern, Erm, Hs.
    destruct (ph s u); auto.
    + destruct T9 as (_ & X & _). congruence.
    + destruct T9 as (X & _). congruence.
    + destruct T9 as [A [[X _]|B]]; [congruence|]. rewrite Es. split; [exact A|]. right. exact B.
    + destruct T9 as [[X _]|B]; [congruence|]. right. exact B.
  - intros H. destruct (T11 H) as [A B]. split; [exact A|]. intros Hsl. destruct (B Hsl) as [B1 B2]. split; [exact B1|].
    intros Hp. destruct (B2 Hp) as [d Hd]. exists d. rewrite Ew. exact Hd.
Qed.

(* the holder t releases the lock (it has no popped item in hand and is not running anybody's item) *)
Lemma tinv_release t : holder s = Some t -> holder s' = None -> u <> t -> cur s = None -> cur s' = None ->
  c_run (C t) = None -> tinv C s u -> tinv C' s' u.
Proof.
  intros Hh Hs Ne Ec Ec' Hr [T1 T2 T3 T4 T5 T6 T7 T8 T9 T10 T11 T12 T13 T14 T15 T16].
  constructor; rewrite ?Eu, ?Ep, ?Ee, ?Esl; unfold item0 in *; rewrite ?Ei, ?Ern, ?Erm; auto.
  - intros H. specialize (T1 H). congruence.
  - rewrite Et. exact T2.
  - intros w H. rewrite Ep. auto.
  - intros w H H0. rewrite Ep. auto.
  - intros H. specialize (T7 H). congruence.
  - intros H. specialize (T9 H). unfold waitinv, handed_or_done, item0 in *. rewrite Ep, Ec', Ei, Ern, Erm, Hs.
    destruct (ph s u); auto.
    + destruct T9 as (_ & _ & e & X & _). congruence.
    + destruct T9 as (X & _ & [(_ & e & Y & _)|(Y & _)]); [congruence|]. assert (h = t) by congruence. subst h. congruence.
    + destruct T9 as [A [[X _]|B]]; [congruence|]. rewrite Es. split; [exact A|]. right. exact B.
    + destruct T9 as [[X _]|B]; [congruence|]. right. exact B.
  - intros H. destruct (T11 H) as [A B]. split; [exact A|]. intros Hsl. destruct (B Hsl) as [B1 B2]. split; [exact B1|].
    intros Hp. destruct (B2 Hp) as [d Hd]. exists d. rewrite Ew. exact Hd.
Qed.
End LockFrames.

(* a thread changes its own phase (push of its context / wake-up); nobody else's obligations mention it *)
Lemma tinv_frame_pht C C' s s' t u :
  u <> t -> C' u = C u ->
  (forall x, c_sig (C' x) = c_sig (C x)) -> (forall x, c_run (C' x) = c_run (C x)) ->
  (forall x, c_wake (C' x) = c_wake (C x)) ->
  holder s' = holder s -> token s' = token s -> (running s = Some u -> running s' = Some u) ->
  cur s' = cur s -> (forall x, x <> t -> ph s' x = ph s x) ->
  (forall d, ph s t <> PhSig d) -> (forall h, ph s t <> PhPopR h) ->
  ev s' u = ev s u -> slp s' u = slp s u -> ist s' u = ist s u -> runs s' u = runs s u -> remote s' u = remote s u ->
  tinv C s u -> tinv C' s' u.
Proof.
  intros Ne Eu Es Er Ew Eh Et Eru Ec Ep N1 N2 Ee Esl Ei Ern Erm [T1 T2 T3 T4 T5 T6 T7 T8 T9 T10 T11 T12 T13 T14 T15 T16].
  pose proof (Ep u Ne) as Epu.
  constructor; rewrite ?Eu, ?Eh, ?Et, ?Ec, ?Epu, ?Ee, ?Esl; unfold item0 in *; rewrite ?Ei, ?Ern, ?Erm; auto.
  - intros w H. destruct (Z.eq_dec w t) as [->|Nw]; [exfalso; apply (N1 u); auto|]. rewrite Ep by exact Nw. auto.
  - intros w H H0. destruct (Z.eq_dec w t) as [->|Nw]; [exfalso; apply (N2 u); auto|]. rewrite Ep by exact Nw. auto.
  - intros H. apply (waitinv_frame C C' s s'); auto.
  - intros H. destruct (T11 H) as [A B]. split; [exact A|]. intros Hs. destruct (B Hs) as [B1 B2]. split; [exact B1|].
    intros Hp. destruct (B2 Hp) as [d Hd]. exists d. rewrite Ew. exact Hd.
Qed.

Lemma nodup_snoc (l : list Z) x : NoDup l -> ~ In x l -> NoDup (l ++ [x]).
Proof.
  induction 1 as [|y l Hy Hl IH]; intros Hx; cbn [app]; [constructor; [intros []|constructor]|].
  constructor.
  - rewrite in_app_iff. intros [H|[H|[]]]; [contradiction|]. subst. apply Hx. left. reflexivity.
  - apply IH. intros H. apply Hx. right. exact H.
Qed.

(* ---- facts about the classification ---- *)
Ltac pc_cases p :=
  destruct p; cbn; intros; try discriminate; try reflexivity;
  repeat match goal with c : cont |- _ => destruct c | pk : popk |- _ => destruct pk end; cbn in *; try discriminate;
  try reflexivity.
Lemma hold_not_post p : holdpc p = true -> wst p = WPost -> False.
Proof. pc_cases p. Qed.
Lemma hold_not_woken p : holdpc p = true -> wst p = WWoken -> False.
Proof. pc_cases p. Qed.
Lemma sleep_not_hold p : sleeppc p = true -> holdpc p = false.
Proof. pc_cases p. Qed.
Lemma cur_hold p : curpc p = true -> holdpc p = true.
Proof. pc_cases p. Qed.
Lemma wait_cst p : wst p <> WNone -> cst p = CBefore.
Proof. destruct p; cbn; intros H; try reflexivity; try (exfalso; apply H; reflexivity);
  repeat match goal with c : cont |- _ => destruct c | pk : popk |- _ => destruct pk end; cbn in *; try reflexivity;
  exfalso; apply H; reflexivity. Qed.
