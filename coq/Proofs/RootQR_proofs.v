(* RootQR_proofs.v — the replay of Model/RootQR.v only ever takes steps of the global model RootQ (Replay.sched_reach), so the
   state it ends in is reachable and the theorems of RootQ apply to it; the boolean invariant RootQR.inv_code is 0 on every
   reachable state (so a non-zero code on a replayed state would exhibit a state outside the proved invariants). *)
From Coq Require Import ZArith Bool List Lia.
From Verif Require Import Word Conc Replay Gen_consts Gen_fields Gen_rootq RootQ RootQR RootQ_proofs RootQ_pool_proofs RootQ_wake_proofs.
Import ListNotations.
Local Open Scope Z_scope.

Lemma rstep_step oc s a s' : rstep (gstep oc) rq_valid s a s' -> step oc s a s'.
Proof. intros [_ H]. exact H. Qed.

Lemma reachable_rstep oc p0 s : reachable (fun s => s = init_state p0) (rstep (gstep oc) rq_valid) s -> reach oc p0 s.
Proof.
  intros R. induction R as [s E|s a s' R IH St]; [apply reach_init; exact E|].
  eapply reach_step; [exact IH|apply rstep_step; exact St].
Qed.

Theorem replay_reach oc p0 w depths chains ord s done rest :
  sched (gstep oc) rq_hidden (rq_accepts oc) rq_valid (S (length ord)) w depths chains (init_state p0) ord 0 = (s, done, rest) ->
  reach oc p0 s.
Proof.
  intros H. apply reachable_rstep.
  eapply (sched_reach (gstep oc) rq_hidden (rq_accepts oc) rq_valid (fun s => s = init_state p0)); [|exact H].
  apply reach_init. reflexivity.
Qed.

(* ---- the boolean invariant ---- *)
Lemma nodupb_spec l : NoDup l -> nodupb l = true.
Proof.
  induction 1 as [|x l Hx ND IH]; [reflexivity|]. cbn. rewrite IH, andb_true_r. apply negb_true_iff.
  destruct (memz x l) eqn:M; [apply memz_In in M; contradiction|reflexivity].
Qed.
Lemma list_eqb_refl l : list_eqb l l = true.
Proof. induction l; cbn; [reflexivity|]. rewrite Z.eqb_refl. exact IHl. Qed.
Lemma adjacentb_spec a b l : adjacent a b l -> adjacentb a b l = true.
Proof.
  induction l as [|x l IH]; [intros []|]. destruct l as [|y r]; [intros []|].
  intros [[-> ->]|H].
  - cbn [adjacentb]. rewrite !Z.eqb_refl. reflexivity.
  - specialize (IH H). change (adjacentb a b (x :: y :: r)) with (((x =? a) && (y =? b)) || adjacentb a b (y :: r)).
    rewrite IH. apply orb_true_r.
Qed.
Lemma bits_zero l : forall w, forallb (fun b => b) l = true -> bits l w = 0.
Proof.
  induction l as [|b l IH]; intros w H; [reflexivity|]. cbn in *. apply andb_true_iff in H as [-> H]. rewrite (IH _ H). reflexivity.
Qed.
Lemma in_seen s t : InvC s -> pcs s t <> PNone -> In t (seen s).
Proof. intros IC H. apply (C_sup s IC). exact H. Qed.

Lemma linkedb_spec s : Inv1 s -> InvC s -> forall l, (forall a b, adjacent a b l -> adjacent a b (chain s)) -> linkedb s l = true.
Proof.
  intros I IC. induction l as [|x l IH]; intros H; [reflexivity|]. destruct l as [|y r]; [reflexivity|].
  cbn [linkedb]. apply andb_true_iff. split.
  - assert (A : adjacent x y (chain s)) by (apply H; cbn; auto).
    destruct (I_linked s I x y A) as [L|(L & t & c & Ht)].
    + rewrite L, Z.eqb_refl. reflexivity.
    + rewrite L. cbn [Z.eqb]. apply orb_true_iff. right. unfold linker_at. apply existsb_exists. exists t.
      split; [apply (in_seen s t IC); congruence|]. rewrite Ht, !Z.eqb_refl. reflexivity.
  - apply IH. intros a b Hab. apply H. apply adjacent_cons. exact Hab.
Qed.

Lemma frontb_spec s : Inv1 s -> frontb s = true.
Proof.
  intros I. pose proof (I_front s I) as F. unfold front in F. unfold frontb.
  assert (H01 : forall P : Prop, (head s = 0 \/ head s = MED) -> ((head s =? 0) || (head s =? MED)) = true).
  { intros _ [E|E]; rewrite E; reflexivity. }
  destruct (holder s) as [w|], (hstore s) as [p|]; try contradiction.
  - destruct F as (F1 & F2 & F3). rewrite (H01 True F3), andb_true_r. apply andb_true_iff. split.
    + destruct (pcs s w); cbn in F1; try contradiction; reflexivity.
    + destruct (chain s); [congruence|reflexivity].
  - destruct F as (F1 & (c & F2) & F3). destruct (chain s) as [|x r]; [congruence|]. cbn in F2. rewrite F2, !Z.eqb_refl.
    cbn. apply (H01 True F3).
  - destruct F as [[-> F]|(c & r & -> & F)]; [apply (H01 True F)|]. rewrite F. apply Z.eqb_refl.
Qed.

Lemma tinvb_spec s t : Inv1 s -> tinvb s t = true.
Proof.
  intros I. pose proof (I_thr s I t) as T. unfold tinv in T. unfold tinvb, opt_is.
  destruct (pcs s t); try reflexivity.
  - destruct T as (-> & T2 & -> & ->). rewrite !Z.eqb_refl. cbn.
    destruct (memz x (chain s)) eqn:M; [apply memz_In in M; contradiction|reflexivity].
  - destruct T as (-> & T2). rewrite Z.eqb_refl. cbn. destruct (prev =? 0).
    + rewrite T2. apply Z.eqb_refl.
    + destruct T2 as [A ->]. rewrite (adjacentb_spec _ _ _ A). reflexivity.
  - destruct T as [-> ->]. rewrite !Z.eqb_refl. reflexivity.
  - destruct T as [-> ->]. rewrite !Z.eqb_refl. reflexivity.
  - destruct T as [-> ->]. rewrite !Z.eqb_refl. reflexivity.
  - destruct T as [-> (b & r & ->)]. rewrite !Z.eqb_refl. reflexivity.
  - destruct T as (-> & (r & ->) & ->). rewrite !Z.eqb_refl. reflexivity.
Qed.

Lemma pc_wfb_spec p : pc_wf p -> pc_wfb p = true.
Proof.
  destruct p; cbn; try reflexivity; try (intros [-> ->]; reflexivity); try (intros ->; reflexivity).
  intros (-> & -> & A & B). cbn. apply andb_true_iff. split; apply Z.leb_le; assumption.
Qed.

Theorem inv_code_zero s : Inv1 s -> InvC s -> Inv4 s -> inv_code s = 0.
Proof.
  intros I IC I4.
  pose proof (C_ksem s IC). pose proof (C_sval s IC). pose proof (C_pendmax s IC). pose proof (C_poolmin s IC).
  assert (C1 : nodupb (chain s) = true) by (apply nodupb_spec; apply (I_nodup s I)).
  assert (C2 : forallb is_item (chain s) = true) by (apply forallb_forall; apply (I_items s I)).
  assert (C3 : (tail s =? last (chain s) 0) = true) by (rewrite (I_tail s I); apply Z.eqb_refl).
  assert (C4 : match chain s with [] => true | _ => nxt s (last (chain s) 0) =? 0 end = true).
  { destruct (chain s) eqn:C; [reflexivity|]. rewrite <- C. rewrite (I_lastnxt s I) by congruence. reflexivity. }
  assert (C5 : linkedb s (chain s) = true) by (apply (linkedb_spec s I IC); auto).
  assert (C6 : frontb s = true) by (apply (frontb_spec s I)).
  assert (C7 : list_eqb (map fst (hpush s)) (map fst (hpop s) ++ unclaimed s) = true) by (rewrite (I_hist s I); apply list_eqb_refl).
  assert (C8 : forallb (tinvb s) (seen s) = true) by (apply forallb_forall; intros t _; apply (tinvb_spec s t I)).
  assert (C9 : nodupb (seen s) = true) by (apply nodupb_spec; apply (C_sup s IC)).
  assert (C10 : forallb (fun t => pc_wfb (pcs s t)) (seen s) = true).
  { apply forallb_forall. intros t _. apply pc_wfb_spec. apply (C_wf s IC). }
  assert (C11 : ((0 <=? ksem s) && (RQ_LONG_MIN <=? sval s) && (sval s <=? RQ_LONG_MAX)) = true).
  { apply andb_true_iff; split; [apply andb_true_iff; split|]; apply Z.leb_le; lia. }
  assert (C12 : (cnt is_slow s =? Z.max 0 (- sval s) + cnt is_sigpost s + ksem s) = true) by (rewrite (C_sem s IC); apply Z.eqb_refl).
  assert (C13 : ((pend s =? cnt w_pend s) && (pend s <=? RQ_INT_MAX)) = true).
  { apply andb_true_iff; split; [rewrite <- (C_pend s IC); apply Z.eqb_refl|apply Z.leb_le; lia]. }
  assert (C14 : ((pool0 s - pool s =? cnt w_pool s) && (- FLOOR_B <=? pool s)) = true).
  { apply andb_true_iff; split; [rewrite (C_pool s IC); apply Z.eqb_refl|apply Z.leb_le; lia]. }
  assert (C15 : match unclaimed s with [] => true | _ => existsb (fun t => tok (pcs s t)) (seen s) || (1 <=? surplus s) end = true).
  { destruct (unclaimed s) eqn:U; [reflexivity|]. destruct I4 as [(t & Ht)|Hs]; [rewrite U; discriminate| |].
    - apply orb_true_iff. left. apply existsb_exists. exists t. split; [|exact Ht]. apply (in_seen s t IC).
      intros E. rewrite E in Ht. discriminate.
    - apply orb_true_iff. right. apply Z.leb_le. exact Hs. }
  unfold inv_code, inv_clauses. rewrite C1, C2, C3, C4, C5, C6, C7, C8, C9, C10, C11, C12, C13, C14, C15. reflexivity.
Qed.

Corollary inv_code_reach oc p0 s : valid_init p0 -> reach oc p0 s -> inv_code s = 0.
Proof. intros V R. destruct (all_inv_reach oc p0 s V R) as (I1 & IC & I4). apply inv_code_zero; assumption. Qed.
