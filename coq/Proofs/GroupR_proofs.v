(* GroupR_proofs.v — (1) the replay scheduler of Model/GroupR.v only ever takes steps of the global model Group.gstep:
   whatever it is given (queues, preferred order, window, check), every state it passes through is reachable, and the threads
   it was not given stay idle; (2) the boolean invariant Model/GroupR_inv.inv_b is true on every such state as long as fewer
   than 2^32 generations have elapsed. *)
From Coq Require Import ZArith Bool List Lia.
From Verif Require Import Word Bits Conc Gen_consts Gen_group Group Group_iface Group_proofs GroupR_inv GroupR.
Import ListNotations.
Local Open Scope Z_scope.

Definition qs_ok (qs : queues) : bool := forallb (fun q => 0 <? fst q) qs.

Lemma try_ev_step b s t e s' : 0 < t -> try_ev b s t e = Some s' -> step s (t, e) s'.
Proof. unfold try_ev. intros V H. destruct (kernel_ok b s t e); [|discriminate]. split; [exact V|exact H]. Qed.

Lemma lookup_in t qs e l : qs_ok qs = true -> lookup t qs = e :: l -> 0 < t /\ In t (map fst qs).
Proof.
  induction qs as [|[u q] r IH]; cbn [lookup qs_ok forallb fst map]; intros Q L; [discriminate|].
  apply andb_true_iff in Q as [Q1 Q2]. destruct (Z.eqb_spec u t) as [->|Ne].
  - apply Z.ltb_lt in Q1. split; [exact Q1|left; reflexivity].
  - destruct (IH Q2 L) as (A & B). split; [exact A|right; exact B].
Qed.
Lemma pop_q_ok t qs : qs_ok qs = true -> qs_ok (pop_q t qs) = true /\ map fst (pop_q t qs) = map fst qs.
Proof.
  unfold qs_ok. induction qs as [|[u q] r IH]; cbn [pop_q forallb fst map]; intros Q; [auto|].
  apply andb_true_iff in Q as [Q1 Q2]. destruct (u =? t); cbn [forallb fst map].
  - split; [apply andb_true_iff; split; assumption|reflexivity].
  - destruct (IH Q2) as (A & B). split; [apply andb_true_iff; split; assumption|f_equal; exact B].
Qed.

Lemma pick_step b s qs : qs_ok qs = true -> forall w ord seen t s',
  pick b s qs ord seen w = Some (t, s') -> exists e, step s (t, e) s' /\ In t (map fst qs).
Proof.
  intros Q. induction w as [|w IH]; intros ord seen t s' P; destruct ord as [|u r]; cbn [pick] in P; try discriminate.
  destruct (existsb (Z.eqb u) seen); [eapply IH; exact P|].
  destruct (lookup u qs) as [|e l] eqn:L; [eapply IH; exact P|].
  destruct (try_ev b s u e) as [s1|] eqn:T; [|eapply IH; exact P].
  injection P as <- <-. destruct (lookup_in _ _ _ _ Q L) as (V & I). exists e. split; [apply (try_ev_step b); assumption|exact I].
Qed.

(* threads the scheduler was not given never move *)
Definition others_idle (tids : list Z) (s : gst) : Prop :=
  forall u, ~ In u tids -> pcs s u = PIdle /\ held s u = [] /\ slp s u <> Sleeping.
Lemma gstep_others s t e s' u : gstep s t e = Some s' -> u <> t ->
  pcs s' u = pcs s u /\ held s' u = held s u /\ (slp s u <> Sleeping -> slp s' u <> Sleeping).
Proof.
  intros Hs Ne. destruct (gstep_inv _ _ _ _ Hs) as (p' & s1 & _ & Hg & ->). clear Hs. sset. rewrite upd_other by exact Ne.
  assert (X : pcs s1 = pcs s /\ (held s1 = held s \/ exists l, held s1 = upd (held s) t l) /\
              (slp s1 = slp s \/ slp s1 = wake_all (slp s) \/ exists v, slp s1 = upd (slp s) t v)).
  { destruct (pcs s t); cbn [geffect] in Hg;
      repeat (match type of Hg with
              | (if ?c then _ else _) = Some _ => destruct c
              | (match ?x with _ => _ end) = Some _ => destruct x
              | None = Some _ => discriminate Hg
              end);
      apply Some_inj in Hg; subst s1;
      repeat (match goal with |- context [if ?c then _ else _] => destruct c end); sset;
      (split; [reflexivity|split; [first [left; reflexivity|right; eexists; reflexivity]|
       first [left; reflexivity|right; left; reflexivity|right; right; eexists; reflexivity]]]). }
  destruct X as (A & B & C). rewrite A. split; [reflexivity|]. split.
  - destruct B as [-> |(l & ->)]; [reflexivity|apply upd_other; exact Ne].
  - intros N. destruct C as [-> |[-> |(v & ->)]]; [exact N|apply wake_all_ns|rewrite upd_other by exact Ne; exact N].
Qed.

Section SchedProofs.
  Variable chk : gst -> bool.
  Variable period : Z.
  Variable strict : bool.
  Theorem sched_reach : forall fuel w s qs ord done bad acc,
    qs_ok qs = true -> reach s -> others_idle (map fst qs) s ->
    let s' := fst (fst (fst (fst (fst (sched chk period strict fuel w s qs ord done bad acc))))) in
    reach s' /\ others_idle (map fst qs) s'.
  Proof.
    induction fuel as [|f IH]; intros w s qs ord done bad acc Q R O; cbn [sched]; [split; assumption|].
    destruct ord as [|u r]; [split; assumption|].
    destruct (pick strict s qs (u :: r) [] w) as [[t s1]|] eqn:P; [|split; assumption].
    destruct (pick_step strict s qs Q _ _ _ _ _ P) as (e & St & I). destruct (pop_q_ok t qs Q) as (Q' & M).
    pose proof St as (Vt & Hs). cbn in Hs, Vt.
    assert (R1 : reach s1) by (eapply reach_step; [exact R|exact St]).
    assert (O1 : others_idle (map fst qs) s1).
    { intros v Nv. destruct (O v Nv) as (A & B & C). assert (Ne : v <> t) by (intros ->; contradiction).
      destruct (gstep_others _ _ _ _ v Hs Ne) as (A' & B' & C'). rewrite A', B'. auto. }
    specialize (IH w s1 (pop_q t qs) (remove_first t (u :: r)) (done + 1)
                  (if bad =? -1 then (if (done + 1) mod period =? 0 then (if chk s1 then bad else done + 1) else bad) else bad)
                  (observe s t (Z.of_nat (length (lookup t qs))) acc) Q' R1).
    rewrite M in IH. apply IH. exact O1.
  Qed.
End SchedProofs.

Lemma others_idle_init tids : others_idle tids init_state.
Proof. intros u _. cbn. repeat split. discriminate. Qed.

(* what the checker relies on: the state whose word / counters / list GroupR.replay reports is a reachable state of the
   global model, whatever queues and order it was given *)
Corollary replay_reach chk period strict qs ord :
  qs_ok qs = true ->
  let s' := fst (fst (fst (fst (fst (sched chk period strict (S (length ord)) (length ord) init_state qs ord 0 (-1) ([], [])))))) in
  reach s' /\ others_idle (map fst qs) s'.
Proof. intros Q. apply sched_reach; [exact Q|apply reach_init; reflexivity|apply others_idle_init]. Qed.

(* ================= the boolean invariant is true on every reachable state ================= *)
Ltac zb := repeat match goal with
  | |- (_ && _) = true => apply andb_true_iff; split
  | |- (_ =? _) = true => apply Z.eqb_eq
  | |- (_ <=? _) = true => apply Z.leb_le
  | |- (_ <? _) = true => apply Z.ltb_lt
  | |- negb (_ =? _) = true => apply negb_true_iff; apply Z.eqb_neq
  end.
Lemma bcls_cls p : bcls p = cls p. Proof. destruct p; reflexivity. Qed.
Lemma wfw_b_true x : wfw x -> wfw_b x = true.
Proof. unfold wfw, wfw_b. intros. zb; lia. Qed.
Lemma nonempty_true {A} (l : list A) : l <> [] -> nonempty l = true.
Proof. destruct l; [contradiction|reflexivity]. Qed.
Lemma nonempty_false {A} (l : list A) : l = [] -> negb (nonempty l) = true.
Proof. intros ->. reflexivity. Qed.
Lemma nodup_b_true l : NoDup l -> nodup_b l = true.
Proof.
  induction 1 as [|x l Nin ND IH]; cbn [nodup_b]; [reflexivity|]. rewrite IH, andb_true_r. apply negb_true_iff.
  destruct (existsb (Z.eqb x) l) eqn:E; [|reflexivity]. apply existsb_In in E. contradiction.
Qed.
Lemma zrange_in n i : In i (zrange n) -> 0 <= i < Z.of_nat n.
Proof.
  induction n as [|k IH]; cbn [zrange]; [intros []|]. intros H. apply in_app_or in H as [H|[<-|[]]]; [specialize (IH H)|]; lia.
Qed.
Lemma tok_eqb_refl k : tok_eqb k k = true.
Proof. destruct k; cbn; auto using Z.eqb_refl. Qed.

Lemma G1_b_true s : G1 s -> G1_b s = true.
Proof. intros (W & G & E). unfold G1_b. zb; [apply wfw_b_true; exact W|exact G|exact E]. Qed.
Lemma Cw_b_true s t : Cw s t -> Cw_b s t = true.
Proof.
  intros (A & B). unfold Cw_b. zb; [exact A|]. destruct (Z.leb_spec (gfull s) (gsnap s t)); [reflexivity|]. apply B. lia.
Qed.
Lemma T1_b_true s t : T1 s t -> T1_b s t = true.
Proof.
  unfold T1, T1_b. destruct (pcs s t); cbn [T1p]; intros H; try reflexivity; try (apply wfw_b_true; exact H).
  - destruct H as (A & B & C & D). zb; [apply wfw_b_true; exact A|exact B|exact C|apply Cw_b_true; exact D].
  - destruct H as (A & B). zb; [exact A|apply Cw_b_true; exact B].
  - destruct H as (A & B). zb; [exact A|apply Cw_b_true; exact B].
  - destruct H as (A & B). zb; [exact A|apply Cw_b_true; exact B].
  - destruct (Z.eqb_spec v 0) as [E|E]; [cbn; apply H; exact E|reflexivity].
  - destruct H as (A & B). zb; [apply wfw_b_true; exact A|exact B].
Qed.
Lemma G2_b_true s : G2 s -> G2_b s = true.
Proof.
  unfold G2, G2_b. destruct (ntok s); intros H.
  - destruct H as (A & B). zb; [apply nonempty_false; exact A|exact B].
  - destruct H as (A & B & C). zb; [apply nonempty_true; exact A|exact B|rewrite bcls_cls; exact C].
  - destruct H as (A & B). zb; [apply nonempty_true; exact A|exact B].
  - destruct H as (A & B & C). zb; [apply nonempty_true; exact A|exact B|rewrite bcls_cls; exact C].
Qed.
Lemma T2_b_true s t : T2 s t -> T2_b s t = true.
Proof.
  intros (A & B & C & D & E). unfold T2_b. rewrite !bcls_cls. zb.
  - destruct (Z.eqb_spec (cls (pcs s t)) 1) as [X|X]; [rewrite (A X); apply tok_eqb_refl|reflexivity].
  - destruct (Z.eqb_spec (cls (pcs s t)) 2) as [X|X]; [rewrite (B X); apply tok_eqb_refl|reflexivity].
  - destruct (Z.eqb_spec (cls (pcs s t)) 3) as [X|X]; [apply nonempty_true, C, X|apply nonempty_false, D, X].
  - destruct (pcs s t); try reflexivity. zb. apply (E _ _ eq_refl).
Qed.
Lemma I2_b_true tids s : I2 s -> I2_b tids s = true.
Proof.
  intros (R0 & ND & NDh & Iq & Ih & If & Ic & Iu & Ip). unfold I2_b. zb.
  - exact R0.
  - apply nodup_b_true; exact ND.
  - apply forallb_forall. intros t _. apply nodup_b_true, NDh.
  - apply forallb_forall. intros i Hi. destruct (Iq i Hi) as (A & B). zb; lia.
  - apply forallb_forall. intros t _. apply forallb_forall. intros i Hi. destruct (Ih t i Hi) as (A & B & C). zb; lia.
  - apply forallb_forall. intros i Hi. apply zrange_in in Hi. rewrite Z2Nat.id in Hi by exact R0.
    destruct (Ic i Hi) as (A & B & C). zb.
    + apply If.
    + destruct (Z.eqb_spec (nplace s i) 0) as [X|X]; [cbn; apply existsb_In, A, X|reflexivity].
    + destruct (Z.ltb_spec 0 (nplace s i)) as [X|X]; [cbn; apply existsb_In, B, X|reflexivity].
    + destruct C as [C|[C|C]]; [rewrite C; reflexivity|rewrite C; reflexivity|].
      apply orb_true_iff. right. apply Z.ltb_lt. exact C.
  - apply forallb_forall. intros [i p] Hq. cbn [snd]. zb. exact (Ip i p Hq).
Qed.
Lemma Oc_b_true s : Oc s -> Oc_b s = true.
Proof. intros ((A & B) & C). unfold Oc_b. zb; [exact A|exact B|exact C]. Qed.

Lemma WHp_b_true p : WHp p -> WHp_b p = true.
Proof. destruct p; cbn; intros H; try contradiction; try reflexivity; apply Z.eqb_eq; exact H. Qed.
Lemma LWp_b_true p : LWp p -> LWp_b p = true.
Proof. destruct p; cbn; intros H; try contradiction. apply Z.eqb_eq; exact H. Qed.
Lemma Jp_b_true p : Jp p -> Jp_b p = true.
Proof.
  destruct p; cbn; intros H; try contradiction. destruct H as (A & [B|B]); unfold bfv, bfn, bfw; fold (fv old) (fn old) (fw old);
    rewrite A, B; cbn; [reflexivity|apply orb_true_r].
Qed.
Lemma in_tids tids s u : others_idle tids s -> pcs s u <> PIdle -> In u tids.
Proof.
  intros O N. destruct (in_dec Z.eq_dec u tids) as [I|I]; [exact I|]. destruct (O u I) as (A & _). contradiction.
Qed.
Lemma Wake_b_true tids s : others_idle tids s -> Wake s -> Wake_b tids s = true.
Proof.
  intros O [(u & H)|(F & u & H)]; unfold Wake_b; apply orb_true_iff.
  - left. apply existsb_exists. exists u. split; [|apply WHp_b_true; exact H].
    apply (in_tids tids s u O). intros E. rewrite E in H. exact H.
  - right. zb; [exact F|]. apply existsb_exists. exists u. split; [|apply LWp_b_true; exact H].
    apply (in_tids tids s u O). intros E. rewrite E in H. exact H.
Qed.
Lemma J_b_true tids s : wfw (word s) -> others_idle tids s -> J s -> J_b tids s = true.
Proof.
  intros W O HJ. unfold J_b. change (bfv (word s)) with (fv (word s)). change (bfn (word s)) with (fn (word s)).
  change (bfw (word s)) with (fw (word s)).
  destruct (Z.eqb_spec (fv (word s)) 0) as [V|V]; [|reflexivity]. cbn [negb orb].
  destruct ((fn (word s) =? 1) || (fw (word s) =? 1)) eqn:F; [|reflexivity]. cbn [negb orb].
  assert (F' : fn (word s) = 1 \/ fw (word s) = 1).
  { apply orb_true_iff in F as [F|F]; apply Z.eqb_eq in F; auto. }
  destruct (HJ V F') as (u & H). apply existsb_exists. exists u. split; [|apply Jp_b_true; exact H].
  apply (in_tids tids s u O). intros E. rewrite E in H. exact H.
Qed.
Lemma T3_b_true tids s t : others_idle tids s -> T3 s t -> T3_b tids s t = true.
Proof.
  intros O (A & B & D). unfold T3_b. zb.
  - destruct (slp s t) eqn:S; try reflexivity. destruct (A eq_refl) as (tmo & g & ->). reflexivity.
  - change (bfw (word s)) with (fw (word s)). change (bfv (word s)) with (fv (word s)).
    destruct (pcs s t); cbn [T3p] in B; try reflexivity.
    + change (bfv old) with (fv old). zb. exact B.
    + destruct (Z.eqb_spec (gsnap s t) (gfull s)) as [E|E]; [|reflexivity]. destruct (B E) as (B1 & B2). cbn. zb; assumption.
    + destruct (Z.eqb_spec (gsnap s t) (gfull s)) as [E|E]; [|reflexivity]. destruct (B E) as (B1 & B2). cbn. zb; assumption.
    + destruct (Z.eqb_spec (gsnap s t) (gfull s)) as [E|E]; [|reflexivity]. destruct (B E) as (B1 & B2). cbn. zb; assumption.
    + rewrite B. reflexivity.
  - destruct (slp s t) eqn:S; try reflexivity. destruct (Z.ltb_spec (gsnap s t) (gfull s)) as [L|L]; [|reflexivity].
    cbn. apply Wake_b_true; [exact O|apply D; [reflexivity|exact L]].
Qed.

Theorem inv_b_true tids s : reach s -> gfull s < 4294967296 -> others_idle tids s -> inv_b tids s = true.
Proof.
  intros R L O. destruct (inv_reach s R) as ((G1' & HT1) & (G2' & I2' & HT2)).
  destruct (inv3_reach s (small_runs_are_fresh s R L)) as (O' & J' & HT3).
  unfold inv_b. zb.
  - apply G1_b_true; exact G1'.
  - apply G2_b_true; exact G2'.
  - apply I2_b_true; exact I2'.
  - apply Oc_b_true; exact O'.
  - apply J_b_true; [apply G1'|exact O|exact J'].
  - apply forallb_forall. intros t _. zb; [apply T1_b_true, HT1|apply T2_b_true, HT2|apply T3_b_true; [exact O|apply HT3]].
Qed.

(* ... in particular on every state the replay passes through and reports *)
Corollary replay_inv_b chk period strict qs ord :
  qs_ok qs = true ->
  let s' := fst (fst (fst (fst (fst (sched chk period strict (S (length ord)) (length ord) init_state qs ord 0 (-1) ([], [])))))) in
  gfull s' < 4294967296 -> inv_b (map fst qs) s' = true.
Proof. intros Q s' L. destruct (replay_reach chk period strict qs ord Q) as (R & O). apply inv_b_true; assumption. Qed.
