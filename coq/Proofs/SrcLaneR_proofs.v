(* SrcLaneR_proofs.v — about the global replay of recorded rounds on Model/SrcLane.v (Model/SrcLaneR.v):
   (1) whatever actions and order the (untrusted) checker proposes, the scheduler only takes steps of the model: every
       state it passes through is reachable from the start state by SrcLane.begin / SrcLane.gstep;
   (2) the start state of a replay (the source at rest with an admissible recorded word) satisfies the invariant of
       Proofs/SrcLane_proofs.v, hence so does every state passed through;
   (3) the boolean invariant inv_b that the replay evaluates is implied by that invariant (for the threads of the round,
       all others idle): a `false` reported by a replay would contradict the proofs. *)
From Coq Require Import ZArith Bool List Lia.
From Verif Require Import Word Bits Fields DqFields Conc Gen_consts Gen_dqstate Lane_fields SLaneS_fields.
From Verif Require SLane SLane_proofs SrcData SrcData_proofs.
From Verif Require Import SrcLane SrcLane_proofs SrcLaneR.
Import ListNotations.
Local Open Scope Z_scope.

Definition reachw (c : cfg) (w0 : Z) (inst : bool) : gst -> Prop := reachable (fun s => s = init_from w0 inst) (step c).

Lemma valid_b_tid t : valid_b t = true -> valid_tid t.
Proof. unfold valid_b, valid_tid. intros H. apply andb_true_iff in H as [A B]. apply Z.ltb_lt in A, B. lia. Qed.

Lemma try_act_step c ns np s a s' : try_act c ns np s a = Some s' -> exists act, step c s act s'.
Proof.
  unfold try_act. destruct (valid_b (s_tid a) && eligible ns np (s_act a) && pre_ok s (s_act a)) eqn:V; [|discriminate].
  apply andb_true_iff in V as [V _]. apply andb_true_iff in V as [V _]. apply valid_b_tid in V.
  destruct (m_kind (s_act a) =? 0).
  - destruct (gstep c s (s_tid a)) as [s1|] eqn:G; [|discriminate].
    destruct (post_ok s s1 (s_tid a) (s_act a)); [|discriminate]. intros H. injection H as <-.
    exists (AStep (s_tid a)). split; assumption.
  - destruct (call_of (s_act a)) as [k|]; [|discriminate].
    destruct (begin s (s_tid a) k) as [s1|] eqn:G; [|discriminate].
    destruct (post_ok s s1 (s_tid a) (s_act a)); [|discriminate]. intros H. injection H as <-.
    exists (ABegin (s_tid a) k). split; assumption.
Qed.

Lemma pick_step c ns np oo s qs : forall ord seen w d t s' m, pick c ns np oo s qs ord seen w d = Some (t, s', m) -> exists act, step c s act s'.
Proof.
  induction ord as [|u r IH]; intros seen w d t s' m H; destruct w as [|w']; destruct d as [|d']; cbn [pick] in H; try discriminate.
  destruct (existsb (Z.eqb u) seen); [eapply IH; exact H|].
  destruct (lookup u qs) as [|a l]; [eapply IH; exact H|].
  destruct (negb oo || is_obs (s_act a)); [|eapply IH; exact H].
  destruct (try_act c ns np s a) as [s1|] eqn:T; [|eapply IH; exact H].
  injection H as _ <- _. eapply try_act_step. exact T.
Qed.
Lemma pick2_step c ns np s qs ord w : forall depths t s' m, pick2 c ns np s qs ord w depths = Some (t, s', m) -> exists act, step c s act s'.
Proof.
  induction depths as [|d ds IH]; intros t s' m H; cbn [pick2] in H; [discriminate|].
  destruct (pick c ns np true s qs ord [] w d) as [[[t1 s1] m1]|] eqn:P.
  - injection H as _ <- _. eapply pick_step. exact P.
  - destruct (pick c ns np false s qs ord [] w d) as [[[t1 s1] m1]|] eqn:P2.
    + injection H as _ <- _. eapply pick_step. exact P2.
    + eapply IH. exact H.
Qed.

Theorem sched_reach c L depths w0 inst : forall fuel w ns np s qs ord done ok s' done' rest ok' qs',
  reachw c w0 inst s -> sched c L depths fuel w ns np s qs ord done ok = (s', done', rest, ok', qs') -> reachw c w0 inst s'.
Proof.
  induction fuel as [|f IH]; intros w ns np s qs ord done ok s' done' rest ok' qs' R H; cbn [sched] in H.
  - injection H as <- _ _ _ _. exact R.
  - destruct ord as [|a r]; [injection H as <- _ _ _ _; exact R|].
    destruct (pick2 c ns np s qs (a :: r) w depths) as [[[t s1] m1]|] eqn:P.
    + destruct (pick2_step c ns np s qs _ _ _ _ _ _ P) as (act & St). eapply IH; [|exact H]. eapply reach_step; eauto.
    + injection H as <- _ _ _ _. exact R.
Qed.

(* ---- the start state ---- *)
Lemma hi_ok_b_true h : hi_ok_b h = true -> hi_ok h.
Proof. unfold hi_ok_b, hi_ok. rewrite !orb_true_iff, !Z.eqb_eq. tauto. Qed.
Lemma hi_ok_b_of h : hi_ok h -> hi_ok_b h = true.
Proof. unfold hi_ok_b, hi_ok. rewrite !orb_true_iff, !Z.eqb_eq. tauto. Qed.

Lemma Inv_init_from c w0 inst : init_word_ok w0 = true -> Inv c (init_from w0 inst).
Proof.
  unfold init_word_ok. intros H. rewrite !andb_true_iff in H.
  destruct H as [[[[[[[[[[R1 R2] O] Tr] En] Ro] Em] Pb] Wq] Ib] Hi].
  apply Z.leb_le in R1. apply Z.ltb_lt in R2, Ro. apply Z.eqb_eq in O, Tr, En, Em, Pb, Wq, Ib. apply hi_ok_b_true in Hi.
  split.
  - exists (dec w0). unfold init_from.
    constructor; cbn [st pend cancelled installed rootq pcs token wakers rwakers latched running merged dropped delivered];
      try assumption; try reflexivity; try congruence.
    + symmetry. apply enc_dec. lia.
    + apply wfr_dec.
    + rewrite En. split; [discriminate | congruence].
    + unfold free. auto.
    + constructor.
    + constructor.
    + apply data_ok_init.
  - intros t. unfold thread_inv, init_from; cbn. repeat split; intros; try discriminate; try contradiction.
Qed.

Theorem Inv_reachw c w0 inst s : init_word_ok w0 = true -> reachw c w0 inst s -> Inv c s.
Proof.
  intros H. apply invariant_lift.
  - intros s0 ->. apply Inv_init_from. exact H.
  - intros s1 a s2 I St. exact (step_preserves c s1 a s2 I St).
Qed.

(* ---- the boolean invariant ---- *)
Lemma mem_In t l : mem t l = true <-> In t l.
Proof.
  unfold mem. rewrite existsb_exists. split.
  - intros (x & Hx & E). apply Z.eqb_eq in E. subst. exact Hx.
  - intros H. exists t. split; [exact H|apply Z.eqb_refl].
Qed.
Lemma mem_false t l : mem t l = false <-> ~ In t l.
Proof.
  rewrite <- mem_In. destruct (mem t l); split; intros H.
  - discriminate. - exfalso. apply H. reflexivity. - intros X. discriminate. - reflexivity.
Qed.
Lemma nodup_b_true l : NoDup l -> nodup_b l = true.
Proof.
  induction 1 as [|x l Hx Hl IH]; cbn [nodup_b]; [reflexivity|]. rewrite IH, andb_true_r. apply negb_true_iff. apply mem_false. exact Hx.
Qed.
Lemma eqb_iff (a b : bool) : (a = true <-> b = true) -> Bool.eqb a b = true.
Proof. destruct a, b; cbn; intros [H1 H2]; try reflexivity; [exact (H1 eq_refl) | exact (H2 eq_refl)]. Qed.

Lemma locked_b_eq p : locked_b p = locked_pc p. Proof. destruct p; reflexivity. Qed.
Lemma token_b_eq p : token_b p = token_pc p. Proof. destruct p; reflexivity. Qed.
Lemma waker_b_eq p : waker_b p = waker_pc p. Proof. destruct p; reflexivity. Qed.
Lemma rwaker_b_eq p : rwaker_b p = rwaker_pc p. Proof. destruct p; reflexivity. Qed.
Lemma examined_b_eq p : examined_b p = examined_pc p. Proof. destruct p; reflexivity. Qed.

Lemma data_b_true k pe la me dr de ca : data_ok k pe la me dr de ca -> data_b k pe la me dr de ca = true.
Proof.
  intros (A & B & C). cbn in A, B, C. unfold data_b. rewrite !andb_true_iff. split; [split|].
  - apply forallb_forall. intros x Hx. rewrite Forall_forall in A. apply negb_true_iff. apply Z.eqb_neq. apply A. exact Hx.
  - destruct ca; [reflexivity|]. rewrite (B eq_refl). reflexivity.
  - destruct k.
    + apply Z.eqb_eq. exact C.
    + apply Z.eqb_eq. exact C.
    + destruct C as (C1 & C2 & C3 & C4). rewrite !andb_true_iff. repeat split.
      * apply forallb_forall. intros x Hx. rewrite Forall_forall in C1. apply mem_In. apply C1. exact Hx.
      * apply orb_true_iff. destruct C2 as [C2|C2]; [left; apply Z.eqb_eq; exact C2 | right; apply mem_In; exact C2].
      * apply orb_true_iff. destruct C3 as [C3|C3]; [left; apply Z.eqb_eq; exact C3 | right; apply mem_In; exact C3].
      * apply orb_true_iff. destruct C4 as [C4|(P0 & [C4|(L0 & C4)])].
        -- left. apply Z.eqb_eq. exact C4.
        -- right. rewrite andb_true_iff. split; [apply Z.eqb_eq; exact P0|]. apply orb_true_iff. left. apply Z.eqb_eq. exact C4.
        -- right. rewrite andb_true_iff. split; [apply Z.eqb_eq; exact P0|]. apply orb_true_iff. right.
           rewrite andb_true_iff. split; apply Z.eqb_eq; assumption.
Qed.

Definition covers (L : list Z) (s : gst) : Prop := forall t, ~ In t L -> pcs s t = Idle.

Lemma nonidle_in L s t : covers L s -> pcs s t <> Idle -> In t L.
Proof. intros Cv N. destruct (in_dec Z.eq_dec t L) as [H|H]; [exact H|]. exfalso. apply N. apply Cv. exact H. Qed.

Lemma thread_b_true s t : thread_inv s t -> thread_b s t = true.
Proof.
  intros (T1 & T2 & T3 & T4 & T5 & T6). unfold thread_b. rewrite !andb_true_iff. repeat split.
  - apply eqb_iff. rewrite token_b_eq. rewrite T1. unfold holder_is. destruct (token s) as [[w|]|].
    + split; [intros E; injection E as ->; apply Z.eqb_refl | intros E; apply Z.eqb_eq in E; subst; reflexivity].
    + split; discriminate.
    + split; discriminate.
  - apply eqb_iff. rewrite waker_b_eq, T2, mem_In. tauto.
  - apply eqb_iff. rewrite rwaker_b_eq, T3, mem_In. tauto.
  - destruct (pcs s t) eqn:E; cbn [owned_b]; try reflexivity; apply Z.eqb_eq; apply T4; reflexivity.
  - destruct (pcs s t) eqn:E; cbn [qos_b]; try reflexivity;
      match goal with |- (0 <=? ?q) && (?q <? 8) = true => pose proof (T5 q eq_refl) as Q; apply andb_true_iff; split; [apply Z.leb_le|apply Z.ltb_lt]; lia end.
  - destruct (pcs s t) eqn:E; cbn [callnz_b]; try reflexivity. apply negb_true_iff. apply Z.eqb_neq. apply (T6 _ _ eq_refl).
Qed.

Theorem inv_b_true c L s : Inv c s -> covers L s -> inv_b c L s = true.
Proof.
  intros [[r G] T] Cv.
  destruct G as [g_enc0 g_wf0 g_tr0 g_em0 g_pb0 g_hi0 g_role0 g_enq0 g_rootq0 g_lock0 g_nostrand0 g_dirty0 g_nodup0 g_rnodup0
                 g_data0 g_latched0 g_running0].
  pose proof g_wf0 as W. unfold wfr in W.
  assert (Ed : dec (st s) = r) by (rewrite g_enc0; apply dec_enc; exact g_wf0).
  pose proof (enc_range r g_wf0) as Rg. rewrite <- g_enc0 in Rg.
  assert (HolderIn : forall w, token s = Some (Some w) -> In w L).
  { intros w K. apply (nonidle_in L s w Cv). intros E. destruct (T w) as (T1 & _). rewrite E in T1.
    assert (token_pc Idle = true) by (apply T1; exact K). discriminate. }
  unfold inv_b. rewrite Ed. rewrite !andb_true_iff. repeat split.
  - apply Z.leb_le. lia.
  - apply Z.ltb_lt. lia.
  - apply Z.eqb_eq. exact g_tr0.
  - apply Z.eqb_eq. exact g_em0.
  - apply Z.eqb_eq. exact g_pb0.
  - apply hi_ok_b_of. exact g_hi0.
  - apply Z.ltb_lt. exact g_role0.
  - apply eqb_iff. rewrite Z.eqb_eq, g_enq0. destruct (token s); split; intros; try discriminate; try congruence.
  - apply Z.eqb_eq. exact g_rootq0.
  - destruct (token s) as [[w|]|] eqn:K.
    + destruct g_lock0 as [Vw Lk]. rewrite !andb_true_iff. split; [split|].
      * unfold valid_b. unfold valid_tid in Vw. apply andb_true_iff. split; [apply Z.ltb_lt|apply Z.ltb_lt]; lia.
      * apply mem_In. apply HolderIn. reflexivity.
      * rewrite locked_b_eq. destruct (locked_pc (pcs s w)); destruct Lk as (A & B & C0); rewrite !andb_true_iff;
          repeat split; apply Z.eqb_eq; assumption.
    + destruct g_lock0 as (A & B & C0). rewrite !andb_true_iff. repeat split; apply Z.eqb_eq; assumption.
    + destruct g_lock0 as (A & B & C0). rewrite !andb_true_iff. repeat split; apply Z.eqb_eq; assumption.
  - destruct (Z.eqb_spec (pend s) 0) as [P0|P0]; [reflexivity|]. destruct (cancelled s) eqn:Ca; [reflexivity|].
    cbn [orb]. destruct (g_nostrand0 P0 eq_refl) as [X|[X|[X|X]]].
    + destruct (token s); [reflexivity|congruence].
    + destruct (wakers s); [congruence|]. cbn. rewrite orb_true_r. reflexivity.
    + destruct (rwakers s); [congruence|]. cbn. rewrite !orb_true_r. reflexivity.
    + apply Z.ltb_lt in X. rewrite X. rewrite !orb_true_r. reflexivity.
  - destruct (token s) as [[w|]|] eqn:K; try reflexivity.
    rewrite examined_b_eq. destruct (examined_pc (pcs s w)) eqn:Ex; [|reflexivity]. cbn [negb orb].
    destruct (Z.eqb_spec (pend s) 0) as [P0|P0]; [reflexivity|]. destruct (cancelled s) eqn:Ca; [reflexivity|]. cbn [orb].
    destruct (wakers s) eqn:Wk; [|reflexivity]. cbn [nil_b negb orb].
    destruct (Z.eqb_spec (f_hi r) 0) as [H0|H0]; [|reflexivity]. cbn [negb orb].
    apply Z.eqb_eq. apply (g_dirty0 w); auto.
  - apply nodup_b_true. exact g_nodup0.
  - apply nodup_b_true. exact g_rnodup0.
  - apply forallb_forall. intros t Ht. apply mem_In. apply (nonidle_in L s t Cv). intros E.
    destruct (T t) as (_ & T2 & _). rewrite E in T2. apply T2 in Ht. discriminate.
  - apply forallb_forall. intros t Ht. apply mem_In. apply (nonidle_in L s t Cv). intros E.
    destruct (T t) as (_ & _ & T3 & _). rewrite E in T3. apply T3 in Ht. discriminate.
  - apply data_b_true. exact g_data0.
  - apply Z.eqb_eq. rewrite g_latched0. destruct (token s) as [[w|]|]; try reflexivity.
  - rewrite g_running0. destruct (token s) as [[w|]|]; try reflexivity. destruct (pcs s w); cbn [running_pc]; try reflexivity.
    apply Z.eqb_refl.
  - apply forallb_forall. intros t _. apply thread_b_true. apply T.
Qed.

(* the threads of a replay are the only ones that ever move *)
Lemma covers_init L w0 inst : covers L (init_from w0 inst).
Proof. intros t _. reflexivity. Qed.

(* what a successful replay establishes, in one statement: the final state is a reachable state of the model (from the
   recorded start word), it satisfies the invariant, and the boolean the replay printed could not have been false *)
Theorem replay_sound c w0 inst L depths fuel w qs ord s' done' rest ok' qs' :
  init_word_ok w0 = true ->
  sched c L depths fuel w 0 0 (init_from w0 inst) qs ord 0 true = (s', done', rest, ok', qs') ->
  reachw c w0 inst s' /\ Inv c s'.
Proof.
  intros H0 H. assert (R : reachw c w0 inst s').
  { eapply sched_reach; [|exact H]. apply reach_init. reflexivity. }
  split; [exact R|]. apply (Inv_reachw c w0 inst s' H0 R).
Qed.
