(* BlockR_proofs.v — the scheduler of Model/BlockR.v only takes steps of Block.gstep, so the state a replay ends in is
   reachable (replay_reach); the boolean invariant inv_b is true of every reachable state (inv_b_reach). *)
From Coq Require Import ZArith Bool List Lia.
From Verif Require Import Word Bits Conc Gen_consts Gen_fields Gen_group Gen_block Block Block_proofs BlockR.
Import ListNotations.
Local Open Scope Z_scope.

(* ---- the scheduler stays inside the model ---- *)
Lemma lat_to_reach pf ent n : forall s t goal s' k, reach pf s -> lat_to ent n s t goal = Some (s', k) -> reach pf s'.
Proof.
  induction n as [|n IH]; intros s t goal s' k R H; cbn [lat_to] in H.
  - destruct (goal (pcs s t)); [injection H as <- _; exact R|discriminate].
  - destruct (goal (pcs s t)); [injection H as <- _; exact R|].
    induction (if pc_idle (pcs s t) && negb ent then [] else glatents s t) as [|x l IHl]; [discriminate|].
    destruct (gstep s t x) as [s1|] eqn:E; [|exact (IHl H)].
    destruct (lat_to ent n s1 t goal) as [[s2 k2]|] eqn:E2; [|exact (IHl H)].
    injection H as <- _. apply (IH s1 t goal s2 k2); [eapply reach_gstep; eauto|exact E2].
Qed.

Lemma settle_reach pf qs : forall ths ents s nl s' nl' ents', reach pf s -> settle s qs ents ths nl = (s', nl', ents') -> reach pf s'.
Proof.
  induction ths as [|t r IH]; intros ents s nl s' nl' ents' R H; cbn [settle] in H; [injection H as <- _ _; exact R|].
  destruct (lat_to (may_enter s qs ents t) LAT_DEPTH s t (next_goal t qs)) as [[s1 k]|] eqn:E.
  - eapply IH; [eapply lat_to_reach; eauto|exact H].
  - eapply IH; eauto.
Qed.

Lemma pick_step s qs : forall w ord seen t s', pick s qs ord seen w = Some (t, s') -> exists e, gstep s t e = Some s'.
Proof.
  induction w as [|w IH]; intros ord seen t s' H; [destruct ord; discriminate|].
  destruct ord as [|u r]; [discriminate|]. cbn [pick] in H.
  destruct (existsb (Z.eqb u) seen); [eapply IH; eauto|].
  destruct (lookup u qs) as [|e l]; [eapply IH; eauto|].
  destruct (gstep s u e) as [s1|] eqn:E; [|eapply IH; eauto].
  injection H as <- <-. exists e. exact E.
Qed.

Theorem sched_reach pf : forall fuel w ths s qs ents ord done nl,
  reach pf s -> reach pf (fst (fst (fst (fst (sched fuel w ths s qs ents ord done nl))))).
Proof.
  induction fuel as [|f IH]; intros w ths s qs ents ord done nl R; cbn [sched];
    destruct (settle s qs ents (firsts (ord ++ ths) []) nl) as [[s0 nl0] ents0] eqn:ES;
    pose proof (settle_reach pf qs _ _ s nl s0 nl0 ents0 R ES) as R0.
  - exact R0.
  - destruct ord as [|u r]; [exact R0|].
    destruct (pick s0 qs (u :: r) [] w) as [[t s']|] eqn:EP; [|exact R0].
    apply IH. destruct (pick_step _ _ _ _ _ _ _ EP) as [e He]. eapply reach_gstep; eauto.
Qed.

(* what the checker relies on: the state whose words / counters `replay` reports is reachable in Block *)
Corollary replay_reach pf w qs ents ord :
  reach pf (fst (fst (fst (fst (sched (S (length ord)) w (map fst qs) (init_state pf) qs ents ord 0 0))))).
Proof. apply sched_reach. apply reach_init. reflexivity. Qed.

(* ---- the boolean invariant holds of every reachable state ---- *)
Lemma waiting_pc_eq p : waiting_pc p = in_wait p. Proof. destruct p; reflexivity. Qed.
Lemma holding_pc_eq p : holding_pc p = holds p. Proof. destruct p; reflexivity. Qed.

Lemma invA_b_true s ths : InvA s -> invA_b s ths = true.
Proof.
  intros (A1 & A2 & A3 & A4 & A5 & A6 & A7 & A8 & AT). unfold invA_b.
  repeat (apply andb_true_iff; split).
  - destruct (cancelled s); [rewrite (A1 eq_refl)|]; reflexivity.
  - rewrite A2. apply eqb_reflx.
  - apply Z.leb_le; exact A3.
  - apply Z.leb_le; exact A4.
  - apply Z.leb_le; exact A5.
  - destruct (Z.ltb_spec (ninv s) 1); [reflexivity|]. cbn. apply Z.leb_le. apply A6. lia.
  - apply Z.eqb_eq. exact A7.
  - destruct (hasgrp s).
    + destruct A8 as (G1 & G2 & G3). repeat (apply andb_true_iff; split).
      * apply Z.eqb_eq; exact G1.
      * apply Z.leb_le; lia.
      * apply Z.leb_le; lia.
      * destruct (Z.ltb_spec (leaves s) 1); [reflexivity|]. cbn. destruct (G3 ltac:(lia)) as [X|X].
        -- apply Z.leb_le in X. rewrite X. reflexivity.
        -- rewrite X. apply orb_true_r.
    + destruct A8 as (G1 & G2 & G3). rewrite G1, G2, G3. reflexivity.
  - apply forallb_forall. intros t _. specialize (AT t). unfold tinvA in AT. unfold tinvA_b.
    destruct (pcs s t); try reflexivity.
    + destruct AT as [X Y]. rewrite X, Y. rewrite eqb_reflx. reflexivity.
    + destruct AT as [X Y]. rewrite X, Y. rewrite eqb_reflx. reflexivity.
    + destruct AT as [X Y]. rewrite X, Y. rewrite eqb_reflx. reflexivity.
    + destruct AT as [X Y]. rewrite Y. rewrite andb_true_r. apply Z.leb_le. exact X.
    + destruct AT as [X Y]. rewrite Y. rewrite andb_true_r. apply Z.leb_le. exact X.
Qed.

Lemma existsb_In' i l : existsb (Z.eqb i) l = true <-> In i l.
Proof. apply existsb_In. Qed.

Lemma invN_b_true s : InvN s -> invN_b s = true.
Proof.
  intros (N0 & N1 & N2 & N3 & N4 & N5 & N6). unfold invN_b.
  repeat (apply andb_true_iff; split).
  - apply Z.leb_le; exact N0.
  - apply forallb_forall. intros i Hi. unfold ids in Hi. apply in_map_iff in Hi as (k & <- & Hk). apply in_seq in Hk.
    assert (R : 0 <= Z.of_nat k < nreg s) by lia.
    pose proof (N1 (Z.of_nat k)) as B.
    repeat (apply andb_true_iff; split).
    + apply Z.leb_le; lia.
    + apply Z.leb_le; lia.
    + destruct (Z.eqb_spec (fcnt s (Z.of_nat k)) 1) as [E|E]; [|reflexivity]. cbn. apply Z.eqb_eq. apply (N2 _ E).
    + destruct (N4 _ R) as [X|X].
      * apply existsb_In' in X. rewrite X. reflexivity.
      * rewrite X. rewrite Z.eqb_refl. apply orb_true_r.
  - apply forallb_forall. intros i Hi. destruct (N3 i Hi) as [R Z0].
    repeat (apply andb_true_iff; split); [apply Z.leb_le; lia | apply Z.ltb_lt; lia | apply Z.eqb_eq; exact Z0].
  - destruct (Z.eqb_spec (gcount s) 0) as [E|E]; [|reflexivity]. rewrite (N5 E). reflexivity.
  - destruct (hasgrp s); [reflexivity|]. rewrite (N6 eq_refl). reflexivity.
Qed.

Lemma invW_b_true s ths : InvW s -> invW_b s ths = true.
Proof.
  intros (W1 & W2 & W3 & WT). unfold invW_b.
  repeat (apply andb_true_iff; split).
  - destruct (Z.testbit (flags s) 1) eqn:B1.
    + destruct (proj1 W1 eq_refl) as [X|X].
      * destruct (waiter s); [reflexivity|contradiction].
      * rewrite X. rewrite orb_true_r. reflexivity.
    + destruct (waiter s) eqn:Ew.
      * exfalso. assert (X : false = true) by (apply W1; left; discriminate). discriminate X.
      * destruct (Z.testbit (flags s) 2) eqn:B2; [|reflexivity].
        exfalso. assert (X : false = true) by (apply W1; right; reflexivity). discriminate X.
  - destruct (Z.testbit (flags s) 2) eqn:B2; [|reflexivity]. destruct (W2 eq_refl) as (G & H & Wn).
    rewrite G, H, Wn. reflexivity.
  - destruct (waiter s) as [w|] eqn:Ew; [|reflexivity]. rewrite waiting_pc_eq. destruct (W3 w eq_refl) as [X|X].
    + rewrite X. reflexivity.
    + rewrite X. reflexivity.
  - apply forallb_forall. intros t _. destruct (WT t) as (T1 & T2 & T3). unfold tinvW_b. rewrite waiting_pc_eq.
    apply andb_true_iff; split.
    + destruct (in_wait (pcs s t)) eqn:E; [|reflexivity]. rewrite (T1 eq_refl). cbn. apply Z.eqb_refl.
    + destruct (pcs s t) eqn:Ep; try reflexivity.
      destruct (T3 r eq_refl) as [-> | ->]; [|reflexivity].
      destruct (T2 eq_refl) as [G H]. rewrite G, H. reflexivity.
Qed.

Lemma nodupb_true l : NoDup l -> nodupb l = true.
Proof.
  induction 1 as [|x l Hx Hl IH]; [reflexivity|]. cbn. rewrite IH. rewrite andb_true_r.
  destruct (existsb (Z.eqb x) l) eqn:E; [|reflexivity]. apply existsb_In' in E. contradiction.
Qed.

Lemma invQ_b_true s ths : InvQ s -> invQ_b s ths = true.
Proof.
  intros (Q1 & Q2 & Q3). unfold invQ_b.
  repeat (apply andb_true_iff; split).
  - apply Z.eqb_eq. exact Q1.
  - apply nodupb_true. exact Q2.
  - apply forallb_forall. intros u _. rewrite holding_pc_eq.
    destruct (holds (pcs s u)) eqn:H.
    + assert (X : In u (hands s)) by (apply Q3; exact H). apply existsb_In' in X. rewrite X. reflexivity.
    + destruct (existsb (Z.eqb u) (hands s)) eqn:E; [|reflexivity].
      apply existsb_In' in E. apply Q3 in E. congruence.
Qed.

Lemma dtor_pcb_eq p : dtor_pcb p = dtor_pc p. Proof. destruct p; reflexivity. Qed.
Lemma dtor_okb_eq p : dtor_okb p = dtor_ok p. Proof. destruct p; reflexivity. Qed.

Lemma invD_b_true s ths : InvD s -> invD_b s ths = true.
Proof.
  intros (D1 & D1' & D2 & D3 & D4 & D5 & D7). unfold invD_b.
  repeat (apply andb_true_iff; split).
  - apply nodupb_true. exact D1.
  - apply forallb_forall. intros u _. destruct (pc_idle (pcs s u)) eqn:E; cbn [negb].
    + destruct (existsb (Z.eqb u) (active s)) eqn:X; [|reflexivity]. apply existsb_In' in X. apply D1' in X. congruence.
    + assert (X : In u (active s)) by (apply D1'; exact E). apply existsb_In' in X. rewrite X. reflexivity.
  - destruct (disposed s) eqn:Ed; [|reflexivity]. cbn [negb orb]. destruct (D2 eq_refl) as (d & -> & Hok & Hoth).
    rewrite dtor_okb_eq, Hok. cbn [andb]. apply forallb_forall. intros u _.
    destruct (Z.eqb_spec u d) as [->|Ne]; [reflexivity|]. rewrite (Hoth u Ne). reflexivity.
  - destruct (disposed s) eqn:Ed; [reflexivity|]. cbn [orb]. destruct (D3 eq_refl) as [Dl Hnd]. rewrite Dl. cbn [negb andb].
    apply forallb_forall. intros u _. rewrite dtor_pcb_eq, (Hnd u). reflexivity.
  - destruct (dleave s) eqn:Ed; [|reflexivity]. cbn [negb orb]. destruct (D4 eq_refl) as [P B]. rewrite P, B. reflexivity.
  - apply Z.leb_le. exact D5.
  - apply forallb_forall. intros u _. destruct (pcs s u) eqn:E; try reflexivity. cbn [negb orb]. apply Z.eqb_eq. apply (D7 u E).
Qed.

Theorem inv_b_true s ths : Inv s -> inv_b s ths = true.
Proof.
  intros (A & N & W & Q & D). unfold inv_b.
  rewrite (invA_b_true s ths A), (invN_b_true s N), (invW_b_true s ths W), (invQ_b_true s ths Q), (invD_b_true s ths D). reflexivity.
Qed.
Corollary inv_b_reach pf s ths : reach pf s -> inv_b s ths = true.
Proof. intros R. apply inv_b_true. eapply inv_reach; eauto. Qed.

(* ---- a recorded round, replayed: non-vacuity of the scheduler (the schedule of Properties_C19.C19_nonvacuous, visible
   events only: the latent steps are found by the scheduler) ---- *)
Definition Bv k ord off sz a b ok := mkEv k ord 0 off sz a b ok.
Definition Gv k ord off sz a b := mkEv k ord 1 off sz a b 1.
Definition Uv k a b := mkEv k 0 0 0 0 a b 1.
Definition ex_dq := 93864272807056.
Definition ex_qs : list (Z * list event) :=
  [ (7, [Uv DVU_CALL OP_ASYNC 0; Bv DV_CAS MO_RELAXED OFF_QUEUE 8 0 ex_dq 1; Uv DVU_RET 0 0]);
    (8, [Uv DVU_CALL OP_CANCEL 0; Bv DV_OR MO_RELAXED OFF_FLAGS 4 2 1 1; Uv DVU_RET 0 0;
         Uv DVU_CALL OP_TESTCANCEL 0; Uv DVU_RET 1 0]);
    (9, [Uv DVU_CALL OP_WAIT 5; Bv DV_OR MO_RELAXED OFF_FLAGS 4 0 2 1; Bv DV_XCHG MO_RELAXED OFF_QUEUE 8 ex_dq 0 1;
         Bv DV_LOAD MO_RELAXED OFF_PERF 4 0 0 1; Gv DV_LOAD MO_RELAXED 0 8 4294967292 4294967292;
         Bv DV_AND MO_RELAXED OFF_FLAGS 4 3 4294967293 1; Uv DVU_RET 18446744073709551615 0;
         Uv DVU_CALL OP_NOTIFY 0; Bv DV_LOAD MO_RELAXED OFF_PERF 4 0 0 1; Uv DVU_RET 0 0;
         Uv DVU_CALL OP_WAIT 18446744073709551615; Bv DV_OR MO_RELAXED OFF_FLAGS 4 1 2 1;
         Bv DV_XCHG MO_RELAXED OFF_QUEUE 8 0 0 1; Bv DV_LOAD MO_RELAXED OFF_PERF 4 1 1 1;
         Bv DV_OR MO_RELAXED OFF_FLAGS 4 3 4 1; Uv DVU_RET 0 0]);
    (11, [Bv DV_ADD MO_RELAXED OFF_PERF 4 0 1 1; Gv DV_ADD MO_RELEASE 0 8 4294967295 4;
          Bv DV_XCHG MO_RELAXED OFF_QUEUE 8 0 0 1]) ].
Definition ex_ord : list Z := [7; 7; 7; 9; 9; 9; 9; 9; 8; 8; 8; 9; 9; 9; 9; 9; 11; 11; 11; 9; 9; 9; 9; 9; 9; 8; 8].
Lemma demo_replay :
  firstn 18 (replay false 8 ex_qs [11] ex_ord) = [27; 0; 9; -1; 1; 1; 7; 1; 0; 0; 0; 1; 1; 1; 1; 1; 0; 1].
Proof. vm_compute. reflexivity. Qed.

(* ---- standing negative tests (audit F8): observation sequences that the per-thread automaton accepts one by one
   (latent values are existential there) but that are not runs of the global model: the replay must NOT reproduce them ---- *)
(* a testcancel that returns non-zero with no cancel anywhere *)
Definition neg1_qs : list (Z * list event) := [ (8, [Uv DVU_CALL OP_TESTCANCEL 0; Uv DVU_RET 1 0]) ].
(* a worker that skips the body with no cancel anywhere *)
Definition neg2_qs : list (Z * list event) :=
  [ (7, [Uv DVU_CALL OP_ASYNC 0; Bv DV_CAS MO_RELAXED OFF_QUEUE 8 0 ex_dq 1; Uv DVU_RET 0 0]);
    (11, [Bv DV_ADD MO_RELAXED OFF_PERF 4 0 1 1; Gv DV_ADD MO_RELEASE 0 8 4294967292 4; Bv DV_XCHG MO_RELAXED OFF_QUEUE 8 ex_dq 0 1]) ].
(* a body run by an invocation that began after a cancel had returned *)
Definition neg3_qs : list (Z * list event) :=
  [ (6, [Uv DVU_CALL OP_CANCEL 0; Bv DV_OR MO_RELAXED OFF_FLAGS 4 0 1 1; Uv DVU_RET 0 0]);
    (5, [Uv DVU_CALL OP_DIRECT 0; Uv DVU_CALLOUT_BEGIN 0 0; Uv DVU_CALLOUT_END 0 0; Bv DV_ADD MO_RELAXED OFF_PERF 4 0 1 1;
         Gv DV_ADD MO_RELEASE 0 8 4294967292 4; Uv DVU_RET 0 0]) ].
(* an invocation from a queue with no submission at all *)
Definition neg4_qs : list (Z * list event) :=
  [ (11, [Uv DVU_CALLOUT_BEGIN 0 0; Uv DVU_CALLOUT_END 0 0; Bv DV_ADD MO_RELAXED OFF_PERF 4 0 1 1;
          Gv DV_ADD MO_RELEASE 0 8 4294967292 4; Bv DV_XCHG MO_RELAXED OFF_QUEUE 8 0 0 1]) ].
Lemma negative_replays :
  conform 8 false [Uv DVU_CALL OP_TESTCANCEL 0; Uv DVU_RET 1 0] = (-1, 1) /\       (* accepted per thread ... *)
  nth 1 (replay false 8 neg1_qs [] [8; 8]) 0 = 1 /\                                     (* ... refused by the global model *)
  nth 1 (replay false 8 neg2_qs [11] [7; 7; 7; 11; 11; 11]) 0 = 3 /\
  nth 1 (replay false 8 neg3_qs [] [6; 6; 6; 5; 5; 5; 5; 5; 5]) 0 = 5 /\
  nth 1 (replay false 8 neg4_qs [11] [11; 11; 11; 11; 11]) 0 = 5.
Proof. vm_compute. repeat split. Qed.
