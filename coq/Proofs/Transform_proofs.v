(* Transform_proofs.v — theorems about Model/Transform.v (model of /repo/src/transform.c over region lists).
   Part 1: generic facts (partial reads, the index loop as a structural fold, one-byte look-back maps)
   Part 2: Base64 decoder = a fold over the flat character string, for every split; never out of bounds
   Part 3: Base64 encoder = the group-wise RFC 4648 encoder of the flat byte string, for every split
   Part 4: Base64 round trip *)
From Coq Require Import ZArith List Bool Lia ZifyBool.
From Verif Require Import Word Bits Gen_transform Transform.
Import ListNotations.
Local Open Scope Z_scope.

Arguments u64 : simpl never.
Arguments Z.shiftl : simpl never.
Arguments Z.shiftr : simpl never.
Arguments Z.land : simpl never.
Arguments Z.lor : simpl never.
Arguments Z.mul : simpl never.
Arguments Z.add : simpl never.
Arguments Z.sub : simpl never.
Arguments Z.div : simpl never.
Arguments Z.modulo : simpl never.
Arguments Z.ltb : simpl never.
Arguments Z.leb : simpl never.
Arguments Z.eqb : simpl never.
Arguments Z.to_nat : simpl never.
Arguments skipn : simpl never.

Definition byte (b : Z) : Prop := 0 <= b < 256.
Definition bytes (l : list Z) : Prop := Forall byte l.

Definition flat_res (r : res data) : res (list Z) :=
  match r with Ok d => Ok (flat d) | Null => Null | OOB s => OOB s end.

(* ------------------------------------------------------------------------------------------------ Part 1 *)

Lemma Zlength_nonneg : forall {A} (l : list A), 0 <= Zlength l.
Proof. intros. rewrite Zlength_correct. lia. Qed.
Lemma Zlength_app : forall {A} (l1 l2 : list A), Zlength (l1 ++ l2) = Zlength l1 + Zlength l2.
Proof. intros. rewrite !Zlength_correct, app_length. lia. Qed.

Lemma rd_app_mid : forall pre a suf, rd (pre ++ a :: suf) (Zlength pre) = Some a.
Proof.
  intros. unfold rd. pose proof (Zlength_nonneg pre).
  destruct (Z.ltb_spec (Zlength pre) 0); [lia|].
  rewrite Zlength_correct, Nat2Z.id, nth_error_app2 by lia. rewrite Nat.sub_diag. reflexivity.
Qed.

Lemma rd_app_l : forall l1 l2 i, 0 <= i < Zlength l1 -> rd (l1 ++ l2) i = rd l1 i.
Proof.
  intros. unfold rd. destruct (Z.ltb_spec i 0); [lia|].
  apply nth_error_app1. rewrite Zlength_correct in H. lia.
Qed.

Lemma Zlength_snoc : forall (l : list Z) a, Zlength (l ++ [a]) = Zlength l + 1.
Proof. intros. rewrite Zlength_app, Zlength_cons, Zlength_nil. lia. Qed.

Lemma rd_last : forall pre, pre <> [] -> rd pre (Zlength pre - 1) = Some (last pre 0).
Proof.
  intros pre H. destruct (exists_last H) as [p [a ->]].
  rewrite Zlength_snoc, last_last.
  replace (Zlength p + 1 - 1) with (Zlength p) by lia. apply rd_app_mid.
Qed.

(* the C loop `for (i = ..; i < size; i++) { c = bytes[i]; ... }` as a structural fold over the bytes *)
Fixpoint foldi {S : Type} (f : Z -> Z -> S -> res S) (i : Z) (l : list Z) (s : S) : res S :=
  match l with
  | [] => Ok s
  | c :: l' => do s' <- f i c s; foldi f (i + 1) l' s'
  end.

Lemma iter_rdo {S : Type} site r (f : Z -> Z -> S -> res S) : forall suf pre s,
  r = pre ++ suf ->
  iter (length suf) (Zlength pre) (fun i s => do c <- rdo site r i; f i c s) s = foldi f (Zlength pre) suf s.
Proof.
  induction suf as [|a suf IH]; intros pre s E; [reflexivity|].
  cbn [length iter foldi]. subst r. unfold rdo at 1. rewrite rd_app_mid. cbn [bind].
  destruct (f (Zlength pre) a s) as [s'| |]; cbn [bind]; try reflexivity.
  specialize (IH (pre ++ [a]) s'). rewrite Zlength_snoc in IH. rewrite <- IH.
  - reflexivity.
  - rewrite <- app_assoc. reflexivity.
Qed.

Lemma iter_rdo0 {S : Type} site r (f : Z -> Z -> S -> res S) s :
  iter (Z.to_nat (Zlength r)) 0 (fun i s => do c <- rdo site r i; f i c s) s = foldi f 0 r s.
Proof.
  rewrite Zlength_correct, Nat2Z.id. apply (iter_rdo site r f r [] s). reflexivity.
Qed.

Lemma foldi_app {S : Type} (f : Z -> Z -> S -> res S) : forall l1 l2 i s,
  foldi f i (l1 ++ l2) s = do s' <- foldi f i l1 s; foldi f (i + Zlength l1) l2 s'.
Proof.
  induction l1 as [|a l1 IH]; intros; cbn [app foldi bind].
  - rewrite Zlength_nil, Z.add_0_r. reflexivity.
  - destruct (f i a s); cbn [bind]; try reflexivity. rewrite IH, Zlength_cons. replace (i + Z.succ (Zlength l1)) with (i + 1 + Zlength l1) by lia. reflexivity.
Qed.

(* a fold whose step ignores the index does not depend on the start index *)
Lemma foldi_noindex {S : Type} (g : Z -> S -> res S) : forall l i j s,
  foldi (fun _ => g) i l s = foldi (fun _ => g) j l s.
Proof. induction l; intros; cbn [foldi]; [reflexivity|]. destruct (g a s); cbn [bind]; auto. Qed.

Lemma flat_app : forall a b, flat (a ++ b) = flat a ++ flat b.
Proof. intros. unfold flat. apply concat_app. Qed.
Lemma flat_create : forall l, flat (data_create l) = l.
Proof. destruct l; cbn; [reflexivity|]. rewrite app_nil_r. reflexivity. Qed.

(* ------------------------------------------------------------------------------------------------ Part 2 *)

Section B64dec.
Local Ltac Zify.zify_post_hook ::= Z.div_mod_to_equations.

(* one character of Base64 input on the flat string: state x/count/pad, output so far in reverse *)
Definition d64_step (c : Z) (s : dec_st * list Z) : res (dec_st * list Z) :=
  let '((x, count, pad), acc) := s in
  if is_ws c then Ok s
  else if base64_decode_table_size <=? c then Null
  else match rd base64_decode_table c with
       | None => Null
       | Some v =>
         if v =? -1 then Null
         else
           let count := u64 (count + 1) in
           let '(value, pad) := if v =? -2 then (0, u64 (pad + 1)) else (v, pad) in
           let x := u64 (u64 (Z.shiftl x 6) + u64 value) in
           if Z.land count 3 =? 0 then
             if 2 <? pad then Null
             else Ok ((x, count, 0),
                      skipn (Z.to_nat pad) (Z.land x 255 :: Z.land (Z.shiftr x 8) 255 :: Z.land (Z.shiftr x 16) 255 :: acc))
           else Ok ((x, count, pad), acc)
       end.

Definition dec64_flat (l : list Z) : res (list Z) :=
  match foldi (fun _ => d64_step) 0 l ((0, 0, 0), []) with
  | Ok (_, acc) => Ok (rev acc) | Null => Null | OOB s => OOB s
  end.

Lemma land3 : forall c, Z.land c 3 = c mod 4.
Proof. intros. change 3 with (2 ^ 2 - 1). rewrite land_low by lia. reflexivity. Qed.

Lemma rd_table_some : forall tbl c, 0 <= c -> (Zlength tbl <=? c) = false -> exists v, rd tbl c = Some v.
Proof.
  intros tbl c H0 H. unfold rd. destruct (Z.ltb_spec c 0); [lia|].
  destruct (nth_error tbl (Z.to_nat c)) eqn:E; [eauto|].
  apply nth_error_None in E. rewrite Zlength_correct in H. lia.
Qed.

(* relation between the region-local output buffer (n, l) and the flat accumulator l ++ acc0; the last clause
   is the capacity bookkeeping: R = number of characters of the region still to come *)
Definition rel64 (acc0 : list Z) (n count : Z) (a : res (dec_st * obuf)) (b : res (dec_st * list Z)) : Prop :=
  match a, b with
  | Ok (st1, (n1, l1)), Ok (st2, a2) =>
    st1 = st2 /\ a2 = l1 ++ acc0 /\ n1 = Zlength l1 /\ 0 <= snd st1 /\
    forall R, 0 <= R -> n1 + 3 * ((snd (fst st1) mod 4 + R) / 4) <= n + 3 * ((count mod 4 + R + 1) / 4)
  | Null, Null => True
  | _, _ => False
  end.

Lemma skipn_app_le : forall (k : nat) (l1 l2 : list Z), (k <= length l1)%nat -> skipn k (l1 ++ l2) = skipn k l1 ++ l2.
Proof. intros. rewrite skipn_app. replace (k - length l1)%nat with 0%nat by lia. reflexivity. Qed.

Lemma Zlength_skipn : forall (k : nat) (l : list Z), (k <= length l)%nat -> Zlength (skipn k l) = Zlength l - Z.of_nat k.
Proof. intros. rewrite !Zlength_correct, skipn_length. lia. Qed.

Lemma char_sim64 : forall cap c x count pad n l acc0,
  0 <= c -> n = Zlength l -> 0 <= pad ->
  ((count + 1) mod 4 = 0 -> n + 3 <= cap) ->
  rel64 acc0 n count (b64d_char cap c ((x, count, pad), (n, l))) (d64_step c ((x, count, pad), l ++ acc0)).
Proof.
  intros cap c x count pad n l acc0 Hc Hn Hpad Hcap.
  unfold b64d_char, d64_step.
  destruct (is_ws c).
  { cbn [rel64 fst snd]. repeat split; auto. intros; lia. }
  destruct (base64_decode_table_size <=? c) eqn:Hsz; [exact I|].
  destruct (rd_table_some base64_decode_table c Hc Hsz) as [v Hv].
  unfold rdo. rewrite Hv. cbn [bind].
  destruct (v =? -1); [exact I|].
  set (count' := u64 (count + 1)).
  assert (Hm : count' mod 4 = (count + 1) mod 4) by (unfold count', u64; lia).
  pose proof (Zlength_nonneg l) as Hl.
  assert (Hwr : forall pad', 0 <= pad' -> (2 <? pad') = false -> (count + 1) mod 4 = 0 -> forall xx,
    rel64 acc0 n count
      (do o <- wr 887 cap (n, l) (Z.land (Z.shiftr xx 16) 255);
       do o0 <- wr 888 cap o (Z.land (Z.shiftr xx 8) 255);
       do o1 <- wr 889 cap o0 (Z.land xx 255);
       Ok (xx, count', 0, (fst o1 - pad', skipn (Z.to_nat pad') (snd o1))))
      (Ok (xx, count', 0, skipn (Z.to_nat pad')
         (Z.land xx 255 :: Z.land (Z.shiftr xx 8) 255 :: Z.land (Z.shiftr xx 16) 255 :: l ++ acc0)))).
  { intros pad' Hp0 Hp E xx. specialize (Hcap E).
    unfold wr. cbn [bind fst snd].
    replace ((0 <=? n) && (n <? cap)) with true by lia. cbn [bind].
    replace ((0 <=? n + 1) && (n + 1 <? cap)) with true by lia. cbn [bind].
    replace ((0 <=? n + 1 + 1) && (n + 1 + 1 <? cap)) with true by lia. cbn [bind fst snd rel64].
    assert (Hk : (Z.to_nat pad' <= 3)%nat) by lia.
    split; [reflexivity|]. split.
    { change (?a :: ?b :: ?c :: l ++ acc0) with ((a :: b :: c :: l) ++ acc0).
      apply skipn_app_le. cbn [length]. lia. }
    split.
    { rewrite Zlength_skipn by (cbn [length]; lia). rewrite !Zlength_cons. lia. }
    split; [lia|]. intros R HR. rewrite Hm, E. lia. }
  destruct (v =? -2).
  - rewrite land3, Hm.
    destruct (Z.eqb_spec ((count + 1) mod 4) 0) as [E|E].
    + destruct (2 <? u64 (pad + 1)) eqn:Hp; [exact I|].
      apply Hwr; auto. unfold u64; lia.
    + cbn [rel64 fst snd]. repeat split; auto; [unfold u64; lia|]. intros R HR. rewrite Hm. lia.
  - rewrite land3, Hm.
    destruct (Z.eqb_spec ((count + 1) mod 4) 0) as [E|E].
    + destruct (2 <? pad) eqn:Hp; [exact I|]. apply Hwr; auto.
    + cbn [rel64 fst snd]. repeat split; auto. intros R HR. rewrite Hm. lia.
Qed.

(* one region *)
Definition relR (acc0 : list Z) (cap : Z) (a : res (dec_st * obuf)) (b : res (dec_st * list Z)) : Prop :=
  match a, b with
  | Ok (st1, (n1, l1)), Ok (st2, a2) => st1 = st2 /\ a2 = l1 ++ acc0 /\ n1 = Zlength l1 /\ n1 <= cap /\ 0 <= snd st1
  | Null, Null => True
  | _, _ => False
  end.

Lemma region_sim64 : forall cap r x count pad n l acc0 i j,
  bytes r -> n = Zlength l -> 0 <= pad ->
  n + 3 * ((count mod 4 + Zlength r) / 4) <= cap ->
  relR acc0 cap (foldi (fun _ => b64d_char cap) i r ((x, count, pad), (n, l)))
                (foldi (fun _ => d64_step) j r ((x, count, pad), l ++ acc0)).
Proof.
  intros cap r. induction r as [|c r IH]; intros x count pad n l acc0 i j Hb Hn Hpad Hcap.
  - cbn [foldi relR snd]. rewrite Zlength_nil in Hcap. repeat split; auto. lia.
  - cbn [foldi]. apply Forall_cons_iff in Hb; destruct Hb as [Hc Hr].
    rewrite Zlength_cons in Hcap. pose proof (Zlength_nonneg r) as Hlr.
    assert (H := char_sim64 cap c x count pad n l acc0 (proj1 Hc) Hn Hpad).
    assert (Hc3 : (count + 1) mod 4 = 0 -> n + 3 <= cap) by (intros; lia).
    specialize (H Hc3).
    destruct (b64d_char cap c (x, count, pad, (n, l))) as [[[[x1 c1] p1] [n1 l1]]| |];
      destruct (d64_step c (x, count, pad, l ++ acc0)) as [[[[x2 c2] p2] a2]| |]; cbn [rel64] in H; try contradiction.
    + destruct H as (E1 & E2 & E3 & E4 & E5). inversion E1; subst x2 c2 p2 a2. cbn [bind].
      cbn [fst snd] in E4, E5. apply IH; auto.
      specialize (E5 (Zlength r) Hlr). lia.
    + cbn [bind relR]. exact I.
Qed.
Definition relD (a : res (dec_st * data)) (b : res (dec_st * list Z)) : Prop :=
  match a, b with
  | Ok (st1, rv1), Ok (st2, a2) => st1 = st2 /\ flat rv1 = rev a2 /\ 0 <= snd st1
  | Null, Null => True
  | _, _ => False
  end.

Lemma firstn_all_Z : forall (l : list Z), firstn (Z.to_nat (Zlength l)) l = l.
Proof. intros. rewrite Zlength_correct, Nat2Z.id. apply firstn_all. Qed.

Lemma b64d_region_sim : forall r x count pad rv acc0 offset,
  bytes r -> Zlength r < 2 ^ 60 -> 0 <= pad -> flat rv = rev acc0 ->
  relD (b64d_region ((x, count, pad), rv) offset r) (foldi (fun _ => d64_step) 0 r ((x, count, pad), acc0)).
Proof.
  intros r x count pad rv acc0 offset Hb Hlen Hpad Hrv.
  unfold b64d_region.
  set (cap := howmany (Zlength r) 4 * 3).
  change (b64d_body cap r) with (fun i s => do c <- rdo 861 r i; (fun _ : Z => b64d_char cap) i c s).
  rewrite iter_rdo0.
  pose proof (Zlength_nonneg r) as Hlr.
  assert (Hcap : 0 + 3 * ((count mod 4 + Zlength r) / 4) <= cap) by (unfold cap, howmany; lia).
  assert (H := region_sim64 cap r x count pad 0 [] acc0 0 0 Hb eq_refl Hpad Hcap).
  cbn [app] in H. unfold dec_st, obuf, data in *. revert H.
  match goal with |- relR _ _ ?A ?B -> _ =>
    destruct A as [[[[x1 c1] p1] [n1 l1]]| |]; destruct B as [[[[x2 c2] p2] a2]| |] end;
    intros H; cbn [relR] in H; try contradiction; cbn [bind relD]; auto.
  destruct H as (E1 & E2 & E3 & E4 & E5). inversion E1; subst x2 c2 p2 a2.
  pose proof (Zlength_nonneg l1).
  assert (Hu : u64 n1 = n1) by (apply u64_id; unfold cap, howmany in *; lia).
  rewrite Hu. replace (cap <? n1) with false by lia. cbn [relD snd].
  split; [reflexivity|]. split; [|exact E5].
  unfold data_concat. rewrite flat_app, flat_create, Hrv, E3.
  assert (HF : firstn (Z.to_nat (Zlength l1)) (rev l1) = rev l1)
    by (rewrite Zlength_correct, Nat2Z.id, <- rev_length; apply firstn_all).
  rewrite HF, rev_app_distr. reflexivity.
Qed.

Lemma b64d_regions_sim : forall d x count pad rv acc0 offset,
  bytes (flat d) -> Forall (fun r => Zlength r < 2 ^ 60) d -> 0 <= pad -> flat rv = rev acc0 ->
  relD (apply_regions b64d_region d offset ((x, count, pad), rv))
       (foldi (fun _ => d64_step) 0 (flat d) ((x, count, pad), acc0)).
Proof.
  induction d as [|r d IH]; intros x count pad rv acc0 offset Hb Hlen Hpad Hrv.
  - cbn. auto.
  - cbn [apply_regions]. change (flat (r :: d)) with (r ++ flat d) in *.
    apply Forall_app in Hb. destruct Hb as [Hb1 Hb2].
    apply Forall_cons_iff in Hlen. destruct Hlen as [Hl1 Hl2].
    rewrite foldi_app.
    assert (H := b64d_region_sim r x count pad rv acc0 offset Hb1 Hl1 Hpad Hrv). unfold dec_st, obuf, data in *. revert H.
    match goal with |- relD ?A ?B -> _ =>
      destruct A as [[[[x1 c1] p1] rv1]| |]; destruct B as [[[[x2 c2] p2] a2]| |] end;
      intros H; cbn [relD] in H; try contradiction; cbn [bind relD]; auto.
    destruct H as (E1 & E2 & E3). inversion E1; subst x2 c2 p2.
    rewrite (foldi_noindex d64_step (flat d) (0 + Zlength r) 0).
    apply IH; auto.
Qed.

(* Base64 decoding of ANY input, split into regions in ANY way, is the fold over the flat string:
   same NULL/non-NULL, same bytes, and no out-of-bounds access *)
Theorem from_base64_flat : forall d,
  bytes (flat d) -> Forall (fun r => Zlength r < 2 ^ 60) d ->
  flat_res (from_base64 d) = dec64_flat (flat d).
Proof.
  intros d Hb Hl. unfold from_base64, dec64_flat.
  assert (H := b64d_regions_sim d 0 0 0 [] [] 0 Hb Hl (Z.le_refl 0) eq_refl). unfold dec_st, obuf, data in *. revert H.
  match goal with |- relD ?A ?B -> _ =>
    destruct A as [[[[x1 c1] p1] rv1]| |]; destruct B as [[[[x2 c2] p2] a2]| |] end;
    intros H; cbn [relD] in H; try contradiction; cbn [bind flat_res]; auto.
  destruct H as (_ & E & _). rewrite E. reflexivity.
Qed.

Lemma d64_step_no_oob : forall c s site, d64_step c s <> OOB site.
Proof.
  intros c [[[x count] pad] acc] site. unfold d64_step.
  repeat match goal with
  | |- context [if ?b then _ else _] => destruct b
  | |- context [match rd ?t ?c with _ => _ end] => destruct (rd t c)
  end; discriminate.
Qed.

Lemma foldi_no_oob {S : Type} (g : Z -> S -> res S) :
  (forall c s site, g c s <> OOB site) -> forall l i s site, foldi (fun _ => g) i l s <> OOB site.
Proof.
  intros Hg. induction l; intros; cbn [foldi]; [discriminate|].
  destruct (g a s) eqn:E; cbn [bind]; auto; try discriminate. exfalso. eapply Hg; eauto.
Qed.

Theorem from_base64_no_oob : forall d site,
  bytes (flat d) -> Forall (fun r => Zlength r < 2 ^ 60) d -> from_base64 d <> OOB site.
Proof.
  intros d site Hb Hl E. assert (H := from_base64_flat d Hb Hl). rewrite E in H. cbn in H.
  unfold dec64_flat in H.
  destruct (foldi (fun _ : Z => d64_step) 0 (flat d) (0, 0, 0, [])) as [[? ?]| |] eqn:F; try discriminate.
  inversion H; subst. eapply (foldi_no_oob d64_step d64_step_no_oob); eauto.
Qed.
End B64dec.


(* ------------------------------------------------------------------------------------------------ finite sweeps *)

Definition zrange (n : nat) : list Z := map Z.of_nat (seq 0 n).
Lemma zrange_in : forall n k, 0 <= k < Z.of_nat n -> In k (zrange n).
Proof.
  intros. unfold zrange. apply in_map_iff. exists (Z.to_nat k). split; [lia|]. apply in_seq. lia.
Qed.
Lemma forallb_zrange : forall n (P : Z -> bool), forallb P (zrange n) = true ->
  forall k, 0 <= k < Z.of_nat n -> P k = true.
Proof. intros n P H k Hk. rewrite forallb_forall in H. apply H, zrange_in, Hk. Qed.
Lemma forallb_zrange2 : forall n m (P : Z -> Z -> bool),
  forallb (fun a => forallb (P a) (zrange m)) (zrange n) = true ->
  forall a b, 0 <= a < Z.of_nat n -> 0 <= b < Z.of_nat m -> P a b = true.
Proof. intros n m P H a b Ha Hb. apply (forallb_zrange m (P a)); auto. apply (forallb_zrange n _ H a Ha). Qed.

(* ------------------------------------------------------------------------------------------------ Base64: the flat encoder and the round trip *)

Definition e64 (k : Z) : Z := nth (Z.to_nat k) base64_encode_table 0.

(* RFC 4648 section 4 on a flat byte string, with the digit expressions of transform.c:966-994 *)
Fixpoint b64_spec (l : list Z) : list Z :=
  match l with
  | a :: b :: c :: r =>
      e64 (Z.land (Z.shiftr a 2) 63) :: e64 (Z.land (Z.lor (Z.shiftl a 4) (Z.shiftr b 4)) 63) ::
      e64 (Z.land (Z.lor (Z.shiftl b 2) (Z.shiftr c 6)) 63) :: e64 (Z.land c 63) :: b64_spec r
  | [a; b] =>
      [e64 (Z.land (Z.shiftr a 2) 63); e64 (Z.land (Z.lor (Z.shiftl a 4) (Z.shiftr b 4)) 63);
       e64 (Z.land (Z.shiftl b 2) 60); PAD]
  | [a] => [e64 (Z.land (Z.shiftr a 2) 63); e64 (Z.land (Z.shiftl a 4) 48); PAD; PAD]
  | [] => []
  end.

Section B64rt.
Local Ltac Zify.zify_post_hook ::= Z.div_mod_to_equations.

(* every digit 0..63: its character is no white space, lies inside the decode table, and decodes to the digit *)
Lemma digit64 : forall k, 0 <= k < 64 ->
  is_ws (e64 k) = false /\ (base64_decode_table_size <=? e64 k) = false /\ rd base64_decode_table (e64 k) = Some k.
Proof.
  intros k Hk.
  assert (H : forallb (fun k => negb (is_ws (e64 k)) && negb (base64_decode_table_size <=? e64 k) &&
                        match rd base64_decode_table (e64 k) with Some v => v =? k | None => false end) (zrange 64) = true)
    by (vm_compute; reflexivity).
  pose proof (forallb_zrange 64 _ H k Hk) as Hk'. cbv beta in Hk'.
  destruct (is_ws (e64 k)); [discriminate|].
  destruct (base64_decode_table_size <=? e64 k); [discriminate|].
  destruct (rd base64_decode_table (e64 k)); [|discriminate].
  cbn in Hk'. repeat split. f_equal. lia.
Qed.

Definition xs (x k : Z) : Z := u64 (u64 (Z.shiftl x 6) + u64 k).

Lemma d64_digit : forall k x count pad acc, 0 <= k < 64 ->
  d64_step (e64 k) ((x, count, pad), acc) =
    if (count + 1) mod 4 =? 0 then
      if 2 <? pad then Null
      else Ok ((xs x k, u64 (count + 1), 0),
               skipn (Z.to_nat pad) (Z.land (xs x k) 255 :: Z.land (Z.shiftr (xs x k) 8) 255 ::
                                     Z.land (Z.shiftr (xs x k) 16) 255 :: acc))
    else Ok ((xs x k, u64 (count + 1), pad), acc).
Proof.
  intros k x count pad acc Hk. destruct (digit64 k Hk) as (H1 & H2 & H3).
  unfold d64_step. rewrite H1, H2, H3.
  replace (k =? -1) with false by lia. replace (k =? -2) with false by lia.
  rewrite land3. replace (u64 (count + 1) mod 4) with ((count + 1) mod 4) by (unfold u64; lia).
  reflexivity.
Qed.

Lemma d64_pad : forall x count pad acc,
  d64_step PAD ((x, count, pad), acc) =
    if (count + 1) mod 4 =? 0 then
      if 2 <? u64 (pad + 1) then Null
      else Ok ((xs x 0, u64 (count + 1), 0),
               skipn (Z.to_nat (u64 (pad + 1))) (Z.land (xs x 0) 255 :: Z.land (Z.shiftr (xs x 0) 8) 255 ::
                                     Z.land (Z.shiftr (xs x 0) 16) 255 :: acc))
    else Ok ((xs x 0, u64 (count + 1), u64 (pad + 1)), acc).
Proof.
  intros. unfold d64_step.
  change (is_ws PAD) with false. change (base64_decode_table_size <=? PAD) with false.
  change (rd base64_decode_table PAD) with (Some (-2)). cbv iota.
  change (-2 =? -1) with false. change (-2 =? -2) with true. cbv iota.
  rewrite land3. replace (u64 (count + 1) mod 4) with ((count + 1) mod 4) by (unfold u64; lia).
  reflexivity.
Qed.

(* the low 24 bits of the accumulator after four digits, whatever was in it before *)
Lemma xs4_low : forall x k0 k1 k2 k3, 0 <= k0 < 64 -> 0 <= k1 < 64 -> 0 <= k2 < 64 -> 0 <= k3 < 64 ->
  xs (xs (xs (xs x k0) k1) k2) k3 mod 16777216 = k0 * 262144 + k1 * 4096 + k2 * 64 + k3.
Proof.
  intros. unfold xs. rewrite !Z.shiftl_mul_pow2 by lia. unfold u64. change (2 ^ 6) with 64. lia.
Qed.

Lemma out_bytes : forall X a b c, byte a -> byte b -> byte c -> X mod 16777216 = a * 65536 + b * 256 + c ->
  Z.land (Z.shiftr X 16) 255 = a /\ Z.land (Z.shiftr X 8) 255 = b /\ Z.land X 255 = c.
Proof.
  intros X a b c Ha Hb Hc H. unfold byte in *. change 255 with (2 ^ 8 - 1). rewrite !land_low by lia.
  rewrite !Z.shiftr_div_pow2 by lia. change (2 ^ 16) with 65536. change (2 ^ 8) with 256. lia.
Qed.

(* digit expressions of the encoder as arithmetic (finite sweeps over one or two bytes) *)
Lemma dig_a : forall a, byte a -> Z.land (Z.shiftr a 2) 63 = a / 4.
Proof.
  intros a Ha. assert (H : forallb (fun a => Z.land (Z.shiftr a 2) 63 =? a / 4) (zrange 256) = true) by (vm_compute; reflexivity).
  pose proof (forallb_zrange 256 _ H a Ha) as Hq. clear H. cbv beta in Hq. apply Z.eqb_eq in Hq. exact Hq.
Qed.
Lemma dig_ab : forall a b, byte a -> byte b -> Z.land (Z.lor (Z.shiftl a 4) (Z.shiftr b 4)) 63 = (a mod 4) * 16 + b / 16.
Proof.
  intros a b Ha Hb.
  assert (H : forallb (fun a => forallb (fun b => Z.land (Z.lor (Z.shiftl a 4) (Z.shiftr b 4)) 63 =? (a mod 4) * 16 + b / 16)
                (zrange 256)) (zrange 256) = true) by (vm_compute; reflexivity).
  pose proof (forallb_zrange2 256 256 _ H a b Ha Hb) as Hq. clear H. cbv beta in Hq. apply Z.eqb_eq in Hq. exact Hq.
Qed.
Lemma dig_bc : forall b c, byte b -> byte c -> Z.land (Z.lor (Z.shiftl b 2) (Z.shiftr c 6)) 63 = (b mod 16) * 4 + c / 64.
Proof.
  intros a b Ha Hb.
  assert (H : forallb (fun a => forallb (fun b => Z.land (Z.lor (Z.shiftl a 2) (Z.shiftr b 6)) 63 =? (a mod 16) * 4 + b / 64)
                (zrange 256)) (zrange 256) = true) by (vm_compute; reflexivity).
  pose proof (forallb_zrange2 256 256 _ H a b Ha Hb) as Hq. clear H. cbv beta in Hq. apply Z.eqb_eq in Hq. exact Hq.
Qed.
Lemma dig_c : forall c, byte c -> Z.land c 63 = c mod 64.
Proof. intros. change 63 with (2 ^ 6 - 1). rewrite land_low by lia. reflexivity. Qed.
Lemma dig_a_tail : forall a, byte a -> Z.land (Z.shiftl a 4) 48 = (a mod 4) * 16.
Proof.
  intros a Ha. assert (H : forallb (fun a => Z.land (Z.shiftl a 4) 48 =? (a mod 4) * 16) (zrange 256) = true) by (vm_compute; reflexivity).
  pose proof (forallb_zrange 256 _ H a Ha) as Hq. clear H. cbv beta in Hq. apply Z.eqb_eq in Hq. exact Hq.
Qed.
Lemma dig_b_tail : forall b, byte b -> Z.land (Z.shiftl b 2) 60 = (b mod 16) * 4.
Proof.
  intros a Ha. assert (H : forallb (fun a => Z.land (Z.shiftl a 2) 60 =? (a mod 16) * 4) (zrange 256) = true) by (vm_compute; reflexivity).
  pose proof (forallb_zrange 256 _ H a Ha) as Hq. clear H. cbv beta in Hq. apply Z.eqb_eq in Hq. exact Hq.
Qed.

Definition dfold (l : list Z) (s : dec_st * list Z) := foldi (fun _ => d64_step) 0 l s.

(* decoding the encoding of s appends s (reversed) to the output and leaves count at a group boundary, pad = 0 *)
Lemma roundtrip64_fold : forall n s, (length s <= n)%nat -> bytes s -> forall x count acc, count mod 4 = 0 ->
  exists x' count', dfold (b64_spec s) ((x, count, 0), acc) = Ok ((x', count', 0), rev s ++ acc) /\ count' mod 4 = 0.
Proof.
  induction n as [|n IH]; intros s Hn Hb x count acc Hc.
  { destruct s; [|cbn in Hn; lia]. exists x, count. split; [reflexivity|exact Hc]. }
  destruct s as [|a [|b [|c r]]].
  - exists x, count. split; [reflexivity|exact Hc].
  - (* one byte: two digits, two pads *)
    apply Forall_cons_iff in Hb. destruct Hb as [Ha _].
    unfold dfold. cbn [b64_spec foldi].
    rewrite dig_a, dig_a_tail by assumption.
    assert (A0 : 0 <= a / 4 < 64) by (unfold byte in *; lia).
    assert (A1 : 0 <= a mod 4 * 16 < 64) by (unfold byte in *; lia).
    rewrite d64_digit by assumption. replace ((count + 1) mod 4 =? 0) with false by lia. cbn [bind].
    rewrite d64_digit by assumption. replace ((u64 (count + 1) + 1) mod 4 =? 0) with false by (unfold u64; lia). cbn [bind].
    rewrite d64_pad. replace ((u64 (u64 (count + 1) + 1) + 1) mod 4 =? 0) with false by (unfold u64; lia). cbn [bind].
    rewrite d64_pad. replace ((u64 (u64 (u64 (count + 1) + 1) + 1) + 1) mod 4 =? 0) with true by (unfold u64; lia).
    change (u64 (0 + 1)) with 1. change (u64 (1 + 1)) with 2. change (2 <? 2) with false. cbn [bind].
    exists (xs (xs (xs (xs x (a / 4)) (a mod 4 * 16)) 0) 0), (u64 (u64 (u64 (u64 (count + 1) + 1) + 1) + 1)). split; [|unfold u64; lia].
    assert (HX := xs4_low x (a / 4) (a mod 4 * 16) 0 0 A0 A1 ltac:(lia) ltac:(lia)).
    destruct (out_bytes (xs (xs (xs (xs x (a / 4)) (a mod 4 * 16)) 0) 0) a 0 0 Ha ltac:(unfold byte; lia) ltac:(unfold byte; lia)) as (B1 & B2 & B3).
    { rewrite HX. unfold byte in *. lia. }
    rewrite B1. change (Z.to_nat 2) with 2%nat. unfold skipn. reflexivity.
  - (* two bytes: three digits, one pad *)
    apply Forall_cons_iff in Hb. destruct Hb as [Ha Hb]. apply Forall_cons_iff in Hb. destruct Hb as [Hb _].
    unfold dfold. cbn [b64_spec foldi].
    rewrite dig_a, dig_ab, dig_b_tail by assumption.
    assert (A0 : 0 <= a / 4 < 64) by (unfold byte in *; lia).
    assert (A1 : 0 <= a mod 4 * 16 + b / 16 < 64) by (unfold byte in *; lia).
    assert (A2 : 0 <= b mod 16 * 4 < 64) by (unfold byte in *; lia).
    rewrite d64_digit by assumption. replace ((count + 1) mod 4 =? 0) with false by lia. cbn [bind].
    rewrite d64_digit by assumption. replace ((u64 (count + 1) + 1) mod 4 =? 0) with false by (unfold u64; lia). cbn [bind].
    rewrite d64_digit by assumption. replace ((u64 (u64 (count + 1) + 1) + 1) mod 4 =? 0) with false by (unfold u64; lia). cbn [bind].
    rewrite d64_pad. replace ((u64 (u64 (u64 (count + 1) + 1) + 1) + 1) mod 4 =? 0) with true by (unfold u64; lia).
    change (u64 (0 + 1)) with 1. change (2 <? 1) with false. cbn [bind].
    exists (xs (xs (xs (xs x (a / 4)) (a mod 4 * 16 + b / 16)) (b mod 16 * 4)) 0), (u64 (u64 (u64 (u64 (count + 1) + 1) + 1) + 1)). split; [|unfold u64; lia].
    assert (HX := xs4_low x (a / 4) (a mod 4 * 16 + b / 16) (b mod 16 * 4) 0 A0 A1 A2 ltac:(lia)).
    destruct (out_bytes (xs (xs (xs (xs x (a / 4)) (a mod 4 * 16 + b / 16)) (b mod 16 * 4)) 0) a b 0 Ha Hb ltac:(unfold byte; lia)) as (B1 & B2 & B3).
    { rewrite HX. unfold byte in *. lia. }
    rewrite B1, B2. change (Z.to_nat 1) with 1%nat. unfold skipn. reflexivity.
  - (* a full group *)
    apply Forall_cons_iff in Hb. destruct Hb as [Ha Hb]. apply Forall_cons_iff in Hb. destruct Hb as [Hb Hr].
    apply Forall_cons_iff in Hr. destruct Hr as [Hcc Hr].
    unfold dfold. cbn [b64_spec foldi].
    rewrite dig_a, dig_ab, dig_bc, dig_c by assumption.
    assert (A0 : 0 <= a / 4 < 64) by (unfold byte in *; lia).
    assert (A1 : 0 <= a mod 4 * 16 + b / 16 < 64) by (unfold byte in *; lia).
    assert (A2 : 0 <= b mod 16 * 4 + c / 64 < 64) by (unfold byte in *; lia).
    assert (A3 : 0 <= c mod 64 < 64) by (unfold byte in *; lia).
    rewrite d64_digit by assumption. replace ((count + 1) mod 4 =? 0) with false by lia. cbn [bind].
    rewrite d64_digit by assumption. replace ((u64 (count + 1) + 1) mod 4 =? 0) with false by (unfold u64; lia). cbn [bind].
    rewrite d64_digit by assumption. replace ((u64 (u64 (count + 1) + 1) + 1) mod 4 =? 0) with false by (unfold u64; lia). cbn [bind].
    rewrite d64_digit by assumption. replace ((u64 (u64 (u64 (count + 1) + 1) + 1) + 1) mod 4 =? 0) with true by (unfold u64; lia).
    change (2 <? 0) with false. change (Z.to_nat 0) with 0%nat. unfold skipn. cbn [bind].
    assert (HX := xs4_low x (a / 4) (a mod 4 * 16 + b / 16) (b mod 16 * 4 + c / 64) (c mod 64) A0 A1 A2 A3).
    destruct (out_bytes (xs (xs (xs (xs x (a / 4)) (a mod 4 * 16 + b / 16)) (b mod 16 * 4 + c / 64)) (c mod 64)) a b c Ha Hb Hcc) as (B1 & B2 & B3).
    { rewrite HX. unfold byte in *. lia. }
    rewrite B1, B2, B3.
    destruct (IH r ltac:(cbn [length] in Hn; lia) Hr
                (xs (xs (xs (xs x (a / 4)) (a mod 4 * 16 + b / 16)) (b mod 16 * 4 + c / 64)) (c mod 64))
                (u64 (u64 (u64 (u64 (count + 1) + 1) + 1) + 1)) (c :: b :: a :: acc) ltac:(unfold u64; lia))
      as (x' & count' & E & Hc').
    exists x', count'. split; [|exact Hc'].
    unfold dfold in E. rewrite (foldi_noindex d64_step _ _ 0). rewrite E.
    cbn [rev]. rewrite <- !app_assoc. reflexivity.
Qed.

(* Base64 round trip on flat strings: for EVERY byte string *)
Theorem roundtrip64_flat : forall s, bytes s -> dec64_flat (b64_spec s) = Ok s.
Proof.
  intros s Hb. unfold dec64_flat.
  destruct (roundtrip64_fold (length s) s (le_n _) Hb 0 0 [] eq_refl) as (x' & c' & E & _).
  unfold dfold in E. rewrite E. rewrite app_nil_r, rev_involutive. reflexivity.
Qed.
End B64rt.

(* ------------------------------------------------------------------------------------------------ Base64 encoder: model on any split = flat encoder *)

Section B64enc.
Local Ltac Zify.zify_post_hook ::= Z.div_mod_to_equations.

Definition chunk64 (ph last curr : Z) : list Z :=
  if ph =? 0 then [e64 (Z.land (Z.shiftr curr 2) 63)]
  else if ph =? 1 then [e64 (Z.land (Z.lor (Z.shiftl last 4) (Z.shiftr curr 4)) 63)]
  else [e64 (Z.land (Z.lor (Z.shiftl last 2) (Z.shiftr curr 6)) 63); e64 (Z.land curr 63)].

(* the byte loop of _dispatch_transform_to_base64 on a flat string: prev = previous byte, count = bytes so far *)
Fixpoint encf (prev count : Z) (l : list Z) : list Z :=
  match l with
  | [] => []
  | c :: l' => chunk64 (count mod 3) prev c ++ encf c (count + 1) l'
  end.

Definition tail64 (ph lastb : Z) : list Z :=
  if ph =? 0 then [] else if ph =? 1 then [e64 (Z.land (Z.shiftl lastb 4) 48); PAD; PAD]
  else [e64 (Z.land (Z.shiftl lastb 2) 60); PAD].

Lemma Zlength_rev : forall (l : list Z), Zlength (rev l) = Zlength l.
Proof. intros. rewrite !Zlength_correct, rev_length. reflexivity. Qed.

Lemma last_cons_default : forall (l : list Z) a d, last (a :: l) d = last l a.
Proof.
  induction l as [|x l IH]; intros; [reflexivity|].
  change (last (a :: x :: l) d) with (last (x :: l) d). rewrite (IH x d), (IH x a). reflexivity.
Qed.

Lemma encf_app : forall l1 l2 prev count,
  encf prev count (l1 ++ l2) = encf prev count l1 ++ encf (last l1 prev) (count + Zlength l1) l2.
Proof.
  induction l1 as [|a l1 IH]; intros; cbn [app encf].
  - rewrite Zlength_nil, Z.add_0_r. reflexivity.
  - rewrite IH, <- app_assoc, Zlength_cons. f_equal.
    rewrite last_cons_default.
    replace (count + Z.succ (Zlength l1)) with (count + 1 + Zlength l1) by lia. reflexivity.
Qed.

Lemma land63 : forall x, 0 <= Z.land x 63 < 64.
Proof. intros. change 63 with (2 ^ 6 - 1). rewrite land_low by lia. lia. Qed.

Lemma rdo_e64 : forall site k, 0 <= k < 64 -> rdo site base64_encode_table k = Ok (e64 k).
Proof.
  intros site k Hk. unfold rdo, rd, e64. destruct (Z.ltb_spec k 0); [lia|].
  rewrite (nth_error_nth' base64_encode_table 0); [reflexivity|]. change (length base64_encode_table) with 65%nat. lia.
Qed.

Lemma tput64 : forall site cap n l k, 0 <= k < 64 -> 0 <= n < cap ->
  tput site base64_encode_table cap (n, l) k = Ok (n + 1, e64 k :: l).
Proof.
  intros. unfold tput. rewrite rdo_e64 by assumption. cbn [bind]. unfold wr.
  replace ((0 <=? n) && (n <? cap)) with true by lia. reflexivity.
Qed.

Lemma last_app_ne : forall (l1 l2 : list Z) d, l2 <> [] -> last (l1 ++ l2) d = last l2 d.
Proof.
  intros l1 l2 d H. destruct (exists_last H) as [p [a ->]]. rewrite app_assoc, !last_last. reflexivity.
Qed.

Lemma chunk64_len : forall ph last curr, 1 <= Zlength (chunk64 ph last curr) <= 2.
Proof. intros. unfold chunk64. destruct (ph =? 0); [|destruct (ph =? 1)]; cbn; lia. Qed.

(* the loop over one region; prev0 is what the look-back map of offset-1 yields *)
Lemma b64e_fold : forall d cap r offset prev0,
  0 <= offset -> (offset = 0 \/ get_last 959 d r offset 0 = Ok prev0) ->
  forall suf r1 count n l prev,
  r = r1 ++ suf -> count = offset + Zlength r1 -> count + Zlength suf < 2 ^ 63 ->
  prev = match r1 with [] => prev0 | _ => last r1 0 end ->
  n = Zlength l -> n + Zlength (encf prev count suf) <= cap ->
  foldi (b64e_char d cap r offset) (Zlength r1) suf (count, (n, l)) =
    Ok (count + Zlength suf, (n + Zlength (encf prev count suf), rev (encf prev count suf) ++ l)).
Proof.
  intros d cap r offset prev0 Hoff Hprev0.
  induction suf as [|c suf IH]; intros r1 count n l prev Hr Hcount Hbound Hprev Hn Hcap.
  - cbn [foldi encf rev app]. rewrite Zlength_nil, !Z.add_0_r. reflexivity.
  - cbn [foldi]. pose proof (Zlength_nonneg r1) as Hr1. pose proof (Zlength_nonneg suf) as Hsuf.
    pose proof (Zlength_nonneg l) as Hl. rewrite Zlength_cons in Hbound.
    cbn [encf] in Hcap. rewrite Zlength_app in Hcap.
    pose proof (Zlength_nonneg (encf c (count + 1) suf)) as Hrest.
    pose proof (chunk64_len (count mod 3) prev c) as Hch.
    assert (Hlast : count mod 3 <> 0 -> get_last 959 d r offset (Zlength r1) = Ok prev).
    { intros Hph. destruct r1 as [|z r1'].
      - rewrite Zlength_nil in *. destruct Hprev0 as [H0|H0]; [exfalso; apply Hph; rewrite Hcount, H0; reflexivity|].
        subst prev. exact H0.
      - assert (Hpos : 0 < Zlength (z :: r1')) by (rewrite Zlength_cons; pose proof (Zlength_nonneg r1'); lia).
        unfold get_last. replace (Zlength (z :: r1') =? 0) with false by lia.
        unfold rdo. subst r. rewrite rd_app_l by lia. rewrite rd_last by discriminate. subst prev. reflexivity. }
    assert (Hstep : b64e_char d cap r offset (Zlength r1) c (count, (n, l)) =
                    Ok (count + 1, (n + Zlength (chunk64 (count mod 3) prev c), rev (chunk64 (count mod 3) prev c) ++ l))).
    { unfold b64e_char. cbv zeta.
      destruct (Z.eqb_spec (count mod 3) 0) as [E0|E0].
      - assert (Hc1 : chunk64 (count mod 3) prev c = [e64 (Z.land (Z.shiftr c 2) 63)]).
        { unfold chunk64. destruct (Z.eqb_spec (count mod 3) 0); [reflexivity|contradiction]. }
        rewrite Hc1 in *. change (Zlength [e64 (Z.land (Z.shiftr c 2) 63)]) with 1 in *.
        cbn [bind]. rewrite tput64; [|apply land63|lia]. cbn [bind]. rewrite u64_id by lia. reflexivity.
      - rewrite (Hlast E0). cbn [bind].
        destruct (Z.eqb_spec (count mod 3) 1) as [E1|E1].
        + assert (Hc1 : chunk64 (count mod 3) prev c = [e64 (Z.land (Z.lor (Z.shiftl prev 4) (Z.shiftr c 4)) 63)]).
          { unfold chunk64. destruct (Z.eqb_spec (count mod 3) 0); [contradiction|].
            destruct (Z.eqb_spec (count mod 3) 1); [reflexivity|contradiction]. }
          rewrite Hc1 in *. change (Zlength [e64 (Z.land (Z.lor (Z.shiftl prev 4) (Z.shiftr c 4)) 63)]) with 1 in *.
          rewrite tput64; [|apply land63|lia]. cbn [bind]. rewrite u64_id by lia. reflexivity.
        + assert (Hc1 : chunk64 (count mod 3) prev c =
                        [e64 (Z.land (Z.lor (Z.shiftl prev 2) (Z.shiftr c 6)) 63); e64 (Z.land c 63)]).
          { unfold chunk64. destruct (Z.eqb_spec (count mod 3) 0); [contradiction|].
            destruct (Z.eqb_spec (count mod 3) 1); [contradiction|reflexivity]. }
          rewrite Hc1 in *.
          change (Zlength [e64 (Z.land (Z.lor (Z.shiftl prev 2) (Z.shiftr c 6)) 63); e64 (Z.land c 63)]) with 2 in *.
          rewrite tput64; [|apply land63|lia]. cbn [bind].
          rewrite tput64; [|apply land63|lia]. cbn [bind]. rewrite u64_id by lia.
          cbn [rev app]. replace (n + 1 + 1) with (n + 2) by lia. reflexivity. }
    rewrite Hstep. cbn [bind].
    specialize (IH (r1 ++ [c]) (count + 1) (n + Zlength (chunk64 (count mod 3) prev c))
                   (rev (chunk64 (count mod 3) prev c) ++ l) c).
    rewrite Zlength_snoc in IH. rewrite IH.
    + cbn [encf]. rewrite Zlength_cons, Zlength_app, rev_app_distr, <- app_assoc. f_equal. f_equal; [lia|]. f_equal. lia.
    + subst r. rewrite <- app_assoc. reflexivity.
    + lia.
    + lia.
    + rewrite last_last. destruct r1; reflexivity.
    + rewrite Zlength_app, Zlength_rev. lia.
    + lia.
Qed.
Lemma skipn_nth : forall (l : list Z) k x, nth_error l k = Some x -> exists tl, skipn k l = x :: tl.
Proof.
  induction l as [|a l IH]; destruct k; intros x H; cbn [nth_error] in H; try discriminate.
  - inversion H; subst. exists l. reflexivity.
  - change (skipn (S k) (a :: l)) with (skipn k l). apply IH; auto.
Qed.

Lemma region_rest_head : forall d off, 0 <= off < dsize d ->
  exists x tl, region_rest d off = x :: tl /\ nth_error (flat d) (Z.to_nat off) = Some x.
Proof.
  induction d as [|r d IH]; intros off H; unfold dsize in *; cbn [flat concat] in *.
  - rewrite Zlength_nil in H. lia.
  - cbn [region_rest]. rewrite Zlength_app in H. pose proof (Zlength_nonneg r). pose proof (Zlength_correct r) as Zr.
    destruct (Z.ltb_spec off (Zlength r)).
    + destruct (nth_error r (Z.to_nat off)) eqn:E.
      * destruct (skipn_nth _ _ _ E) as [tl Htl]. exists z, tl. split; auto.
        rewrite nth_error_app1; auto. lia.
      * apply nth_error_None in E. lia.
    + change (concat d) with (flat d) in *. destruct (IH (off - Zlength r)) as (x & tl & E1 & E2); [lia|].
      exists x, tl. split; auto. rewrite nth_error_app2 by lia.
      rewrite <- E2. f_equal. lia.
Qed.

Lemma Zlength_pos : forall (l : list Z), l <> [] -> 0 < Zlength l.
Proof. intros [|a l] H; [contradiction|]. rewrite Zlength_cons. pose proof (Zlength_nonneg l). lia. Qed.

(* the 1-byte map of offset-1 (transform.c:954) yields the last byte of everything before the region *)
Lemma get_last0 : forall site d r pre post, flat d = pre ++ r ++ post -> pre <> [] -> r <> [] -> Zlength pre < 2 ^ 63 ->
  get_last site d r (Zlength pre) 0 = Ok (last pre 0).
Proof.
  intros site d r pre post H H0 Hr Hlt. unfold get_last. change (0 =? 0) with true. cbv iota.
  pose proof (Zlength_pos pre H0). pose proof (Zlength_pos r Hr). pose proof (Zlength_nonneg post).
  rewrite u64_id by lia. unfold sub_map.
  assert (Hsz : dsize d = Zlength pre + Zlength r + Zlength post) by (unfold dsize; rewrite H, !Zlength_app; lia).
  replace ((Zlength pre - 1 <? dsize d) && (0 <? 1) && (1 <=? dsize d - (Zlength pre - 1))) with true by lia.
  destruct (region_rest_head d (Zlength pre - 1)) as (x & tl & E1 & E2); [lia|].
  rewrite E1. replace (1 <=? Zlength (x :: tl)) with true by (rewrite Zlength_cons; pose proof (Zlength_nonneg tl); lia).
  unfold rdo, rd. change (0 <? 0) with false. change (Z.to_nat 0) with 0%nat. cbn [nth_error]. f_equal.
  rewrite H in E2. destruct (exists_last H0) as [p [a ->]]. rewrite last_last.
  rewrite Zlength_snoc in E2. replace (Zlength p + 1 - 1) with (Zlength p) in E2 by lia.
  rewrite Zlength_correct, Nat2Z.id, <- app_assoc, nth_error_app2 in E2 by lia. rewrite Nat.sub_diag in E2.
  cbn [app nth_error] in E2. congruence.
Qed.

Definition enc_flat (l : list Z) : list Z := encf 0 0 l ++ tail64 (Zlength l mod 3) (last l 0).

Lemma wr_pad_ok : forall site cap k n l, 0 <= n -> n + Z.of_nat k <= cap ->
  wr_pad site cap k (n, l) = Ok (n + Z.of_nat k, repeat PAD k ++ l).
Proof.
  induction k as [|k IH]; intros n l Hn Hc; cbn [wr_pad repeat app].
  - rewrite Z.add_0_r. reflexivity.
  - unfold wr at 1. replace ((0 <=? n) && (n <? cap)) with true by lia. cbn [bind].
    rewrite IH by lia. f_equal. f_equal; [lia|].
    clear. induction k; cbn [repeat app]; [reflexivity|]. rewrite IHk. reflexivity.
Qed.

(* one region of the encoder, in the context flat d = pre ++ r ++ post *)
Lemma b64e_region_ok : forall d cap r pre post n l,
  flat d = pre ++ r ++ post -> r <> [] -> dsize d < 2 ^ 62 ->
  l = rev (encf 0 0 pre) -> n = Zlength l ->
  Zlength (enc_flat (flat d)) <= cap ->
  b64e_region d (dsize d) cap (Zlength pre, (n, l)) (Zlength pre) r =
    Ok (Zlength pre + Zlength r,
        if Zlength post =? 0 then (Zlength (enc_flat (flat d)), rev (enc_flat (flat d)))
        else (Zlength (encf 0 0 (pre ++ r)), rev (encf 0 0 (pre ++ r)))).
Proof.
  intros d cap r pre post n l H Hr Hsz Hl Hn Hcap.
  pose proof (Zlength_nonneg pre) as Hp0. pose proof (Zlength_pos r Hr) as Hr0. pose proof (Zlength_nonneg post) as Hq0.
  assert (Htot : dsize d = Zlength pre + Zlength r + Zlength post) by (unfold dsize; rewrite H, !Zlength_app; lia).
  assert (Hsplit : encf 0 0 (flat d) = encf 0 0 pre ++ encf (last pre 0) (Zlength pre) r ++
                                       encf (last r (last pre 0)) (Zlength pre + Zlength r) post).
  { rewrite H, encf_app, encf_app. rewrite Z.add_0_l. reflexivity. }
  unfold enc_flat in Hcap. rewrite Zlength_app, Hsplit, !Zlength_app in Hcap.
  pose proof (Zlength_nonneg (encf (last r (last pre 0)) (Zlength pre + Zlength r) post)).
  pose proof (Zlength_nonneg (tail64 (Zlength (flat d) mod 3) (last (flat d) 0))).
  unfold b64e_region.
  change (b64e_body d cap r (Zlength pre)) with
    (fun i s => do c <- rdo 949 r i; b64e_char d cap r (Zlength pre) i c s).
  rewrite iter_rdo0.
  assert (Hg : Zlength pre = 0 \/ get_last 959 d r (Zlength pre) 0 = Ok (last pre 0)).
  { destruct pre as [|z pre']; [left; reflexivity|right].
    apply (get_last0 959 d r (z :: pre') post H); [discriminate|exact Hr|lia]. }
  assert (HF := b64e_fold d cap r (Zlength pre) (last pre 0) Hp0 Hg r [] (Zlength pre) n l (last pre 0) eq_refl).
  rewrite Zlength_nil in HF. rewrite HF; [|lia|lia|reflexivity|subst n l; rewrite Zlength_rev; reflexivity|subst n l; rewrite Zlength_rev; lia].
  clear HF. cbn [bind].
  replace (u64 (Zlength pre + Zlength r)) with (Zlength pre + Zlength r) by (rewrite u64_id; lia).
  assert (Hacc : rev (encf (last pre 0) (Zlength pre) r) ++ l = rev (encf 0 0 (pre ++ r))).
  { subst l. rewrite encf_app, rev_app_distr, Z.add_0_l. reflexivity. }
  assert (Hnn : n + Zlength (encf (last pre 0) (Zlength pre) r) = Zlength (encf 0 0 (pre ++ r))).
  { subst n l. rewrite encf_app, Zlength_app, Zlength_rev, Z.add_0_l. reflexivity. }
  rewrite Hacc, Hnn.
  destruct (Z.eqb_spec (Zlength post) 0) as [Eq|Eq].
  - (* last region: padding *)
    apply Zlength_nil_inv in Eq. subst post. rewrite app_nil_r in *. rewrite Zlength_nil in *.
    replace (Zlength pre + Zlength r =? dsize d) with true by lia.
    assert (Hall : Zlength (flat d) = Zlength pre + Zlength r) by (fold (dsize d); lia).
    unfold enc_flat. rewrite Hall, <- H. unfold tail64 in *.
    rewrite Hall in Hcap.
    pose proof (Zlength_nonneg (encf 0 0 (flat d))) as He0.
    assert (He : Zlength (encf 0 0 pre) + Zlength (encf (last pre 0) (Zlength pre) r) = Zlength (encf 0 0 (flat d))).
    { rewrite H, encf_app, Zlength_app, Z.add_0_l. reflexivity. }
    destruct (Z.eqb_spec ((Zlength pre + Zlength r) mod 3) 0) as [E0|E0].
    + rewrite app_nil_r. reflexivity.
    + assert (Hlast : rdo 986 r (Zlength r - 1) = Ok (last (flat d) 0)).
      { unfold rdo. rewrite rd_last by exact Hr. rewrite H, last_app_ne by exact Hr. reflexivity. }
      rewrite Hlast. cbn [bind].
      destruct (Z.eqb_spec ((Zlength pre + Zlength r) mod 3) 1) as [E1|E1].
      * rewrite !Zlength_cons, Zlength_nil in Hcap.
        rewrite tput64; [|change 48 with (Z.land 48 63) | lia].
        2: { rewrite Z.land_assoc. apply land63. }
        cbn [bind]. rewrite wr_pad_ok; [|lia|first [change (Z.of_nat 2) with 2|change (Z.of_nat 1) with 1]; lia]. cbn [bind repeat app].
        rewrite Zlength_app, !Zlength_cons, Zlength_nil, rev_app_distr. cbn [rev app].
        f_equal. f_equal. f_equal. lia.
      * rewrite !Zlength_cons, Zlength_nil in Hcap.
        rewrite tput64; [|change 60 with (Z.land 60 63) | lia].
        2: { rewrite Z.land_assoc. apply land63. }
        cbn [bind]. rewrite wr_pad_ok; [|lia|first [change (Z.of_nat 2) with 2|change (Z.of_nat 1) with 1]; lia]. cbn [bind repeat app].
        rewrite Zlength_app, !Zlength_cons, Zlength_nil, rev_app_distr. cbn [rev app].
        f_equal. f_equal. f_equal. lia.
  - replace (Zlength pre + Zlength r =? dsize d) with false by lia. reflexivity.
Qed.

Lemma b64e_regions_ok : forall d cap rest pre,
  flat d = pre ++ flat rest -> Forall (fun r => r <> []) rest -> rest <> [] -> dsize d < 2 ^ 62 ->
  Zlength (enc_flat (flat d)) <= cap ->
  apply_regions (b64e_region d (dsize d) cap) rest (Zlength pre)
                (Zlength pre, (Zlength (encf 0 0 pre), rev (encf 0 0 pre))) =
    Ok (dsize d, (Zlength (enc_flat (flat d)), rev (enc_flat (flat d)))).
Proof.
  intros d cap rest. induction rest as [|r rest IH]; intros pre H Hne Hnn Hsz Hcap; [contradiction|].
  apply Forall_cons_iff in Hne. destruct Hne as [Hr Hrest].
  cbn [apply_regions]. change (flat (r :: rest)) with (r ++ flat rest) in H.
  rewrite (b64e_region_ok d cap r pre (flat rest) _ _ H Hr Hsz eq_refl (eq_sym (Zlength_rev _)) Hcap).
  cbn [bind].
  destruct rest as [|r2 rest].
  - cbn [flat concat apply_regions]. change (Zlength [] =? 0) with true. cbv iota.
    f_equal. f_equal. unfold dsize. rewrite H. cbn [flat concat]. rewrite app_nil_r, Zlength_app. reflexivity.
  - assert (Hr2 : r2 <> []) by (apply Forall_cons_iff in Hrest; tauto).
    assert (Hpos : 0 < Zlength (flat (r2 :: rest))).
    { change (flat (r2 :: rest)) with (r2 ++ flat rest). rewrite Zlength_app.
      pose proof (Zlength_pos r2 Hr2). pose proof (Zlength_nonneg (flat rest)). lia. }
    replace (Zlength (flat (r2 :: rest)) =? 0) with false by lia.
    rewrite <- Zlength_app.
    apply IH; auto; [rewrite <- app_assoc; exact H|discriminate].
Qed.

Lemma encf_len : forall l prev count, 0 <= count ->
  Zlength (encf prev count l) = (count + Zlength l) + (count + Zlength l) / 3 - (count + count / 3).
Proof.
  induction l as [|c l IH]; intros prev count Hc; cbn [encf].
  - rewrite Zlength_nil. lia.
  - rewrite Zlength_app, Zlength_cons, IH by lia. pose proof (Zlength_nonneg l).
    unfold chunk64. destruct (Z.eqb_spec (count mod 3) 0); [|destruct (Z.eqb_spec (count mod 3) 1)];
      rewrite ?Zlength_cons, Zlength_nil; lia.
Qed.

Lemma enc_flat_len : forall l, Zlength (enc_flat l) = howmany (Zlength l) 3 * 4.
Proof.
  intros. unfold enc_flat. rewrite Zlength_app, encf_len by lia. pose proof (Zlength_nonneg l).
  unfold tail64, howmany. destruct (Z.eqb_spec (Zlength l mod 3) 0); [|destruct (Z.eqb_spec (Zlength l mod 3) 1)];
    rewrite ?Zlength_cons, Zlength_nil; lia.
Qed.

(* the byte loop is the group-wise RFC 4648 encoder *)
Lemma encf_groups : forall n l, (length l <= n)%nat -> forall prev count, count mod 3 = 0 ->
  encf prev count l ++ tail64 (Zlength l mod 3) (last l prev) = b64_spec l.
Proof.
  induction n as [|n IH]; intros l Hn prev count Hc.
  { destruct l; [reflexivity|cbn in Hn; lia]. }
  destruct l as [|a [|b [|c r]]].
  - reflexivity.
  - cbn [encf b64_spec]. unfold chunk64. rewrite Hc. change (0 =? 0) with true. cbv iota.
    change (Zlength [a] mod 3) with 1. unfold tail64. change (1 =? 0) with false. change (1 =? 1) with true.
    reflexivity.
  - cbn [encf b64_spec]. unfold chunk64. rewrite Hc.
    replace ((count + 1) mod 3) with 1 by lia. change (0 =? 0) with true. change (1 =? 0) with false.
    change (1 =? 1) with true. cbv iota.
    change (Zlength [a; b] mod 3) with 2. unfold tail64. change (2 =? 0) with false. change (2 =? 1) with false.
    reflexivity.
  - cbn [encf b64_spec]. unfold chunk64 at 1 2 3. rewrite Hc.
    replace ((count + 1) mod 3) with 1 by lia. replace ((count + 1 + 1) mod 3) with 2 by lia.
    change (0 =? 0) with true. change (1 =? 0) with false. change (1 =? 1) with true.
    change (2 =? 0) with false. change (2 =? 1) with false. cbv iota. cbn [app].
    do 4 f_equal.
    rewrite !last_cons_default.
    replace (Zlength (a :: b :: c :: r) mod 3) with (Zlength r mod 3)
      by (rewrite !Zlength_cons; pose proof (Zlength_nonneg r); lia).
    apply IH; [cbn [length] in Hn; lia|lia].
Qed.

Lemma enc_flat_spec : forall l, enc_flat l = b64_spec l.
Proof. intros. unfold enc_flat. apply (encf_groups (length l) l (le_n _) 0 0 eq_refl). Qed.

(* the Base64 encoder on ANY split of a byte string into (non-empty) regions: never NULL, never out of bounds,
   and exactly the RFC 4648 encoding of the concatenation *)
Theorem to_base64_flat : forall d, Forall (fun r => r <> []) d -> dsize d < 2 ^ 62 ->
  to_base64 d = Ok (data_create (b64_spec (flat d))).
Proof.
  intros d Hne Hsz. unfold to_base64. pose proof (Zlength_nonneg (flat d)) as H0. fold (dsize d) in H0.
  replace (SIZE_MAX / 4 <? howmany (dsize d) 3) with false by (unfold SIZE_MAX, howmany; lia).
  destruct d as [|r d].
  - reflexivity.
  - assert (Hc : Zlength (enc_flat (flat (r :: d))) <= howmany (dsize (r :: d)) 3 * 4)
      by (rewrite enc_flat_len; unfold dsize; lia).
    assert (HR := b64e_regions_ok (r :: d) _ (r :: d) [] eq_refl Hne ltac:(discriminate) Hsz Hc).
    cbn [encf rev] in HR. change (Zlength (@nil Z)) with 0 in HR.
    unfold data in *. rewrite HR.
    cbn [bind]. rewrite enc_flat_len. unfold dsize. rewrite Z.eqb_refl, rev_involutive, enc_flat_spec. reflexivity.
Qed.

End B64enc.

(* ------------------------------------------------------------------------------------------------ through dispatch_data_create_with_transform *)

Lemma transform_none_b64 : forall d, transform d F_NONE F_BASE64 = if dsize d =? 0 then Ok d else to_base64 d.
Proof. reflexivity. Qed.
Lemma transform_b64_none : forall d,
  transform d F_BASE64 F_NONE = if dsize d =? 0 then Ok d else (do t <- from_base64 d; Ok t).
Proof. reflexivity. Qed.

Definition wf_data (d : data) : Prop := Forall (fun r => r <> []) d /\ bytes (flat d) /\ dsize d < 2 ^ 60.

Lemma wf_regions_small : forall d, dsize d < 2 ^ 60 -> Forall (fun r => Zlength r < 2 ^ 60) d.
Proof.
  induction d as [|r d IH]; intros H; constructor.
  - unfold dsize in H. cbn [flat concat] in H. rewrite Zlength_app in H. pose proof (Zlength_nonneg (concat d)). lia.
  - apply IH. unfold dsize in *. cbn [flat concat] in H. rewrite Zlength_app in H. pose proof (Zlength_nonneg r).
    change (concat d) with (flat d) in H. lia.
Qed.

Lemma b64_spec_nonempty : forall l, l <> [] -> b64_spec l <> [].
Proof. intros [|a [|b [|c r]]] H; try contradiction; cbn [b64_spec]; discriminate. Qed.

(* C20, Base64 clause, at full strength: for every byte string and every split of it into regions the encoder
   succeeds with the RFC 4648 encoding of the concatenation (so the result does not depend on the split), and
   for every split of THAT string into regions the decoder returns the original bytes *)
Theorem base64_roundtrip_all_splits : forall d, wf_data d ->
  exists e, transform d F_NONE F_BASE64 = Ok e /\ flat e = b64_spec (flat d) /\
    forall d', flat d' = flat e -> dsize d' < 2 ^ 60 ->
      flat_res (transform d' F_BASE64 F_NONE) = Ok (flat d).
Proof.
  intros d (Hne & Hb & Hsz). rewrite transform_none_b64.
  destruct (Z.eqb_spec (dsize d) 0) as [E|E].
  - exists d. assert (Hd : flat d = []) by (apply Zlength_nil_inv; exact E).
    split; [reflexivity|]. split; [rewrite Hd; reflexivity|].
    intros d' Hd' _. rewrite transform_b64_none.
    assert (E' : dsize d' = 0) by (unfold dsize; rewrite Hd', Hd; reflexivity).
    rewrite E'. change (0 =? 0) with true. cbv iota. cbn [flat_res]. rewrite Hd', Hd. reflexivity.
  - rewrite to_base64_flat by (auto; lia).
    eexists. split; [reflexivity|]. rewrite flat_create. split; [reflexivity|].
    intros d' Hd' Hsz'. rewrite transform_b64_none.
    assert (Hne' : flat d <> []) by (intro Hc; apply E; unfold dsize; rewrite Hc; reflexivity).
    assert (E' : dsize d' <> 0).
    { unfold dsize. rewrite Hd'. intro Hc. apply Zlength_nil_inv in Hc. revert Hc. apply b64_spec_nonempty, Hne'. }
    destruct (Z.eqb_spec (dsize d') 0); [contradiction|].
    assert (Hb' : bytes (flat d')).
    { rewrite Hd'. clear - Hb. 
      assert (He : forall k, byte (e64 k)).
      { intros k. unfold e64. destruct (Z_lt_le_dec k 0) as [Hk|Hk].
        - replace (Z.to_nat k) with 0%nat by lia. cbn. unfold byte; lia.
        - destruct (Z_lt_le_dec k 65) as [Hk2|Hk2].
          + assert (H : forallb (fun k => (0 <=? e64 k) && (e64 k <? 256)) (zrange 65) = true) by (vm_compute; reflexivity).
            pose proof (forallb_zrange 65 _ H k ltac:(lia)) as Hq. cbv beta in Hq. unfold e64 in Hq. unfold byte. lia.
          + rewrite nth_overflow by (change (length base64_encode_table) with 65%nat; lia). unfold byte; lia. }
      assert (Hp : byte PAD) by (unfold byte, PAD; lia).
      remember (length (flat d)) as n eqn:Hn. assert (Hl : (length (flat d) <= n)%nat) by lia. clear Hn.
      revert Hb Hl. generalize (flat d) as l. induction n as [|n IH]; intros l Hb Hl.
      - destruct l; [constructor|cbn in Hl; lia].
      - destruct l as [|a [|b [|c r]]]; cbn [b64_spec];
          repeat (apply Forall_cons; [first [apply He|exact Hp]|]); try (apply Forall_nil).
        apply IH; [|cbn [length] in Hl; lia].
        apply Forall_cons_iff in Hb. destruct Hb as [_ Hb]. apply Forall_cons_iff in Hb. destruct Hb as [_ Hb].
        apply Forall_cons_iff in Hb. tauto. }
    assert (HF := from_base64_flat d' Hb' (wf_regions_small d' Hsz')).
    rewrite Hd', roundtrip64_flat in HF by exact Hb.
    destruct (from_base64 d') as [t| |]; cbn [flat_res bind] in *; try discriminate. exact HF.
Qed.

(* C20, "NULL or accepted by the inverse" and "no access outside the objects", Base64 decoder, arbitrary input:
   whatever the bytes and the split, the decoder returns NULL or data, never touches memory outside its buffers,
   and its answer depends on the concatenation only; whatever it returns, the encoder accepts it *)
Theorem base64_decode_total : forall d, wf_data d ->
  flat_res (transform d F_BASE64 F_NONE) = (if dsize d =? 0 then Ok (flat d) else dec64_flat (flat d)) /\
  (forall site, transform d F_BASE64 F_NONE <> OOB site) /\
  (forall t, transform d F_BASE64 F_NONE = Ok t -> Forall (fun r => r <> []) t -> dsize t < 2 ^ 60 ->
             exists e, transform t F_NONE F_BASE64 = Ok e).
Proof.
  intros d (Hne & Hb & Hsz). rewrite transform_b64_none.
  assert (HF := from_base64_flat d Hb (wf_regions_small d Hsz)).
  assert (HO := fun site => from_base64_no_oob d site Hb (wf_regions_small d Hsz)).
  split; [|split].
  - destruct (dsize d =? 0); [reflexivity|]. rewrite <- HF. destruct (from_base64 d); reflexivity.
  - intros site. destruct (dsize d =? 0); [discriminate|].
    destruct (from_base64 d) eqn:E; cbn [bind]; try discriminate. intro Hc. inversion Hc; subst. eapply HO; eauto.
  - intros t _ Ht Hts. rewrite transform_none_b64. destruct (dsize t =? 0); [eauto|].
    rewrite to_base64_flat by (auto; lia). eauto.
Qed.

(* ------------------------------------------------------------------------------------------------ the object a decoder returns
   (needed when an encoder runs on it: Base -> other Base): no empty region, not longer than the input *)

Section B64out.
Local Ltac Zify.zify_post_hook ::= Z.div_mod_to_equations.

Definition nonempty_regions (d : data) : Prop := Forall (fun r => r <> []) d.

Lemma nonempty_create : forall l, nonempty_regions (data_create l).
Proof. intros [|a l]; constructor; [discriminate|constructor]. Qed.

Lemma apply_regions_nonempty {S : Type} (F : S * data -> Z -> list Z -> res (S * data)) :
  (forall s rv off r s' rv', F (s, rv) off r = Ok (s', rv') -> exists X, rv' = rv ++ data_create X) ->
  forall d off s rv s' rv', nonempty_regions rv -> apply_regions F d off (s, rv) = Ok (s', rv') -> nonempty_regions rv'.
Proof.
  intros HF. induction d as [|r d IH]; intros off s rv s' rv' Hrv H; cbn [apply_regions] in H.
  - inversion H; subst. exact Hrv.
  - destruct (F (s, rv) off r) as [[s1 rv1]| |] eqn:E; cbn [bind] in H; try discriminate.
    destruct (HF _ _ _ _ _ _ E) as [X ->]. eapply IH; [|exact H].
    apply Forall_app. split; [exact Hrv|apply nonempty_create].
Qed.

Lemma b64d_region_shape : forall s rv off r s' rv',
  b64d_region (s, rv) off r = Ok (s', rv') -> exists X, rv' = rv ++ data_create X.
Proof.
  intros s rv off r s' rv' H. unfold b64d_region in H.
  destruct (iter (Z.to_nat (Zlength r)) 0 (b64d_body (howmany (Zlength r) 4 * 3) r) (s, (0, []))) as [[[[x c] p] [n out]]| |];
    cbn [bind] in H; try discriminate.
  cbv zeta in H. destruct (howmany (Zlength r) 4 * 3 <? u64 n); [discriminate|]. inversion H; subst. eexists. reflexivity.
Qed.

Lemma from_base64_nonempty : forall d t, from_base64 d = Ok t -> nonempty_regions t.
Proof.
  intros d t H. unfold from_base64 in H.
  destruct (apply_regions b64d_region d 0 (0, 0, 0, [])) as [[s rv]| |] eqn:E; cbn [bind] in H; try discriminate.
  inversion H; subst. eapply (apply_regions_nonempty b64d_region b64d_region_shape); [|exact E]. constructor.
Qed.

Lemma skipn_len_le : forall (k : nat) (l : list Z), Zlength (skipn k l) <= Zlength l.
Proof. intros. rewrite !Zlength_correct, skipn_length. lia. Qed.

Lemma d64_step_len : forall c x count pad acc x' count' pad' acc',
  d64_step c ((x, count, pad), acc) = Ok ((x', count', pad'), acc') ->
  4 * Zlength acc' + 3 * (count' mod 4) <= 4 * Zlength acc + 3 * (count mod 4) + 3.
Proof.
  intros c x count pad acc x' count' pad' acc' H. unfold d64_step in H.
  destruct (is_ws c); [inversion H; subst; lia|].
  destruct (base64_decode_table_size <=? c); [discriminate|]. destruct (rd base64_decode_table c) as [v|]; [|discriminate].
  destruct (v =? -1); [discriminate|]. cbv zeta in H.
  assert (Hm : u64 (count + 1) mod 4 = (count + 1) mod 4) by (unfold u64; lia).
  destruct (v =? -2); rewrite land3, Hm in H;
    (destruct (Z.eqb_spec ((count + 1) mod 4) 0) as [E|E];
     [ match type of H with (if ?b then _ else _) = _ => destruct b; [discriminate|] end;
       inversion H; subst;
       match goal with |- context [skipn ?k ?l] => pose proof (skipn_len_le k l) as Hk end;
       rewrite !Zlength_cons in Hk; rewrite Hm; lia
     | inversion H; subst; rewrite Hm; lia ]).
Qed.

Lemma d64_fold_len : forall l i x count pad acc x' count' pad' acc',
  foldi (fun _ => d64_step) i l ((x, count, pad), acc) = Ok ((x', count', pad'), acc') ->
  4 * Zlength acc' + 3 * (count' mod 4) <= 4 * Zlength acc + 3 * (count mod 4) + 3 * Zlength l.
Proof.
  induction l as [|c l IH]; intros i x count pad acc x' count' pad' acc' H; cbn [foldi] in H.
  - inversion H; subst. rewrite Zlength_nil. lia.
  - destruct (d64_step c (x, count, pad, acc)) as [[[[x1 c1] p1] a1]| |] eqn:E; cbn [bind] in H; try discriminate.
    apply d64_step_len in E. apply IH in H. rewrite Zlength_cons. lia.
Qed.

Lemma dec64_flat_len : forall l V, dec64_flat l = Ok V -> Zlength V <= Zlength l.
Proof.
  intros l V H. unfold dec64_flat in H.
  destruct (foldi (fun _ : Z => d64_step) 0 l (0, 0, 0, [])) as [[[[x c] p] a]| |] eqn:E; try discriminate.
  inversion H; subst. apply d64_fold_len in E. rewrite Zlength_nil in E. rewrite Zlength_rev. pose proof (Zlength_nonneg l). lia.
Qed.
End B64out.
