(* Transform_proofs.v — theorems about Model/Transform.v (model of /repo/src/transform.c over region lists).
   Part 1: generic facts (partial reads, the index loop as a structural fold, one-byte look-back maps)
   Part 2: Base64 decoder = a fold over the flat character string, for every split; never out of bounds
   Part 3: Base64 encoder = the group-wise RFC 4648 encoder of the flat byte string, for every split
   Part 4: Base64 round trip *)
From Coq Require Import ZArith List Bool Lia ZifyBool.
From Verif Require Import Word Bits Transform.
Import ListNotations.
Local Open Scope Z_scope.

Arguments u64 : simpl never.
Arguments Z.shiftl : simpl never.
Arguments Z.shiftr : simpl never.
Arguments Z.land : simpl never.
Arguments Z.lor : simpl never.
Arguments Z.mul : simpl never.
Arguments Z.add : simpl never.
Arguments Z.sub : simpl never.
Arguments Z.div : simpl never.
Arguments Z.modulo : simpl never.
Arguments Z.ltb : simpl never.
Arguments Z.leb : simpl never.
Arguments Z.eqb : simpl never.
Arguments Z.to_nat : simpl never.
Arguments skipn : simpl never.

Definition byte (b : Z) : Prop := 0 <= b < 256.
Definition bytes (l : list Z) : Prop := Forall byte l.

Definition flat_res (r : res data) : res (list Z) :=
  match r with Ok d => Ok (flat d) | Null => Null | OOB s => OOB s end.

(* ------------------------------------------------------------------------------------------------ Part 1 *)

Lemma Zlength_nonneg : forall {A} (l : list A), 0 <= Zlength l.
Proof. intros. rewrite Zlength_correct. lia. Qed.
Lemma Zlength_app : forall {A} (l1 l2 : list A), Zlength (l1 ++ l2) = Zlength l1 + Zlength l2.
Proof. intros. rewrite !Zlength_correct, app_length. lia. Qed.

Lemma rd_app_mid : forall pre a suf, rd (pre ++ a :: suf) (Zlength pre) = Some a.
Proof.
  intros. unfold rd. pose proof (Zlength_nonneg pre).
  destruct (Z.ltb_spec (Zlength pre) 0); [lia|].
  rewrite Zlength_correct, Nat2Z.id, nth_error_app2 by lia. rewrite Nat.sub_diag. reflexivity.
Qed.

Lemma rd_app_l : forall l1 l2 i, 0 <= i < Zlength l1 -> rd (l1 ++ l2) i = rd l1 i.
Proof.
  intros. unfold rd. destruct (Z.ltb_spec i 0); [lia|].
  apply nth_error_app1. rewrite Zlength_correct in H. lia.
Qed.

Lemma Zlength_snoc : forall (l : list Z) a, Zlength (l ++ [a]) = Zlength l + 1.
Proof. intros. rewrite Zlength_app, Zlength_cons, Zlength_nil. lia. Qed.

Lemma rd_last : forall pre, pre <> [] -> rd pre (Zlength pre - 1) = Some (last pre 0).
Proof.
  intros pre H. destruct (exists_last H) as [p [a ->]].
  rewrite Zlength_snoc, last_last.
  replace (Zlength p + 1 - 1) with (Zlength p) by lia. apply rd_app_mid.
Qed.

(* the C loop `for (i = ..; i < size; i++) { c = bytes[i]; ... }` as a structural fold over the bytes *)
Fixpoint foldi {S : Type} (f : Z -> Z -> S -> res S) (i : Z) (l : list Z) (s : S) : res S :=
  match l with
  | [] => Ok s
  | c :: l' => do s' <- f i c s; foldi f (i + 1) l' s'
  end.

Lemma iter_rdo {S : Type} site r (f : Z -> Z -> S -> res S) : forall suf pre s,
  r = pre ++ suf ->
  iter (length suf) (Zlength pre) (fun i s => do c <- rdo site r i; f i c s) s = foldi f (Zlength pre) suf s.
Proof.
  induction suf as [|a suf IH]; intros pre s E; [reflexivity|].
  cbn [length iter foldi]. subst r. unfold rdo at 1. rewrite rd_app_mid. cbn [bind].
  destruct (f (Zlength pre) a s) as [s'| |]; cbn [bind]; try reflexivity.
  specialize (IH (pre ++ [a]) s'). rewrite Zlength_snoc in IH. rewrite <- IH.
  - reflexivity.
  - rewrite <- app_assoc. reflexivity.
Qed.

Lemma iter_rdo0 {S : Type} site r (f : Z -> Z -> S -> res S) s :
  iter (Z.to_nat (Zlength r)) 0 (fun i s => do c <- rdo site r i; f i c s) s = foldi f 0 r s.
Proof.
  rewrite Zlength_correct, Nat2Z.id. apply (iter_rdo site r f r [] s). reflexivity.
Qed.

Lemma foldi_app {S : Type} (f : Z -> Z -> S -> res S) : forall l1 l2 i s,
  foldi f i (l1 ++ l2) s = do s' <- foldi f i l1 s; foldi f (i + Zlength l1) l2 s'.
Proof.
  induction l1 as [|a l1 IH]; intros; cbn [app foldi bind].
  - rewrite Zlength_nil, Z.add_0_r. reflexivity.
  - destruct (f i a s); cbn [bind]; try reflexivity. rewrite IH, Zlength_cons. replace (i + Z.succ (Zlength l1)) with (i + 1 + Zlength l1) by lia. reflexivity.
Qed.

(* a fold whose step ignores the index does not depend on the start index *)
Lemma foldi_noindex {S : Type} (g : Z -> S -> res S) : forall l i j s,
  foldi (fun _ => g) i l s = foldi (fun _ => g) j l s.
Proof. induction l; intros; cbn [foldi]; [reflexivity|]. destruct (g a s); cbn [bind]; auto. Qed.

Lemma flat_app : forall a b, flat (a ++ b) = flat a ++ flat b.
Proof. intros. unfold flat. apply concat_app. Qed.
Lemma flat_create : forall l, flat (data_create l) = l.
Proof. destruct l; cbn; [reflexivity|]. rewrite app_nil_r. reflexivity. Qed.

(* ------------------------------------------------------------------------------------------------ Part 2 *)

Section B64dec.
Local Ltac Zify.zify_post_hook ::= Z.div_mod_to_equations.

(* one character of Base64 input on the flat string: state x/count/pad, output so far in reverse *)
Definition d64_step (c : Z) (s : dec_st * list Z) : res (dec_st * list Z) :=
  let '((x, count, pad), acc) := s in
  if is_ws c then Ok s
  else if base64_decode_table_size <=? c then Null
  else match rd base64_decode_table c with
       | None => Null
       | Some v =>
         if v =? -1 then Null
         else
           let count := u64 (count + 1) in
           let '(value, pad) := if v =? -2 then (0, u64 (pad + 1)) else (v, pad) in
           let x := u64 (u64 (Z.shiftl x 6) + u64 value) in
           if Z.land count 3 =? 0 then
             if 2 <? pad then Null
             else Ok ((x, count, 0),
                      skipn (Z.to_nat pad) (Z.land x 255 :: Z.land (Z.shiftr x 8) 255 :: Z.land (Z.shiftr x 16) 255 :: acc))
           else Ok ((x, count, pad), acc)
       end.

Definition dec64_flat (l : list Z) : res (list Z) :=
  match foldi (fun _ => d64_step) 0 l ((0, 0, 0), []) with
  | Ok (_, acc) => Ok (rev acc) | Null => Null | OOB s => OOB s
  end.

Lemma land3 : forall c, Z.land c 3 = c mod 4.
Proof. intros. change 3 with (2 ^ 2 - 1). rewrite land_low by lia. reflexivity. Qed.

Lemma rd_table_some : forall tbl c, 0 <= c -> (Zlength tbl <=? c) = false -> exists v, rd tbl c = Some v.
Proof.
  intros tbl c H0 H. unfold rd. destruct (Z.ltb_spec c 0); [lia|].
  destruct (nth_error tbl (Z.to_nat c)) eqn:E; [eauto|].
  apply nth_error_None in E. rewrite Zlength_correct in H. lia.
Qed.

(* relation between the region-local output buffer (n, l) and the flat accumulator l ++ acc0; the last clause
   is the capacity bookkeeping: R = number of characters of the region still to come *)
Definition rel64 (acc0 : list Z) (n count : Z) (a : res (dec_st * obuf)) (b : res (dec_st * list Z)) : Prop :=
  match a, b with
  | Ok (st1, (n1, l1)), Ok (st2, a2) =>
    st1 = st2 /\ a2 = l1 ++ acc0 /\ n1 = Zlength l1 /\ 0 <= snd st1 /\
    forall R, 0 <= R -> n1 + 3 * ((snd (fst st1) mod 4 + R) / 4) <= n + 3 * ((count mod 4 + R + 1) / 4)
  | Null, Null => True
  | _, _ => False
  end.

Lemma skipn_app_le : forall (k : nat) (l1 l2 : list Z), (k <= length l1)%nat -> skipn k (l1 ++ l2) = skipn k l1 ++ l2.
Proof. intros. rewrite skipn_app. replace (k - length l1)%nat with 0%nat by lia. reflexivity. Qed.

Lemma Zlength_skipn : forall (k : nat) (l : list Z), (k <= length l)%nat -> Zlength (skipn k l) = Zlength l - Z.of_nat k.
Proof. intros. rewrite !Zlength_correct, skipn_length. lia. Qed.

Lemma char_sim64 : forall cap c x count pad n l acc0,
  0 <= c -> n = Zlength l -> 0 <= pad ->
  ((count + 1) mod 4 = 0 -> n + 3 <= cap) ->
  rel64 acc0 n count (b64d_char cap c ((x, count, pad), (n, l))) (d64_step c ((x, count, pad), l ++ acc0)).
Proof.
  intros cap c x count pad n l acc0 Hc Hn Hpad Hcap.
  unfold b64d_char, d64_step.
  destruct (is_ws c).
  { cbn [rel64 fst snd]. repeat split; auto. intros; lia. }
  destruct (base64_decode_table_size <=? c) eqn:Hsz; [exact I|].
  destruct (rd_table_some base64_decode_table c Hc Hsz) as [v Hv].
  unfold rdo. rewrite Hv. cbn [bind].
  destruct (v =? -1); [exact I|].
  set (count' := u64 (count + 1)).
  assert (Hm : count' mod 4 = (count + 1) mod 4) by (unfold count', u64; lia).
  pose proof (Zlength_nonneg l) as Hl.
  assert (Hwr : forall pad', 0 <= pad' -> (2 <? pad') = false -> (count + 1) mod 4 = 0 -> forall xx,
    rel64 acc0 n count
      (do o <- wr 887 cap (n, l) (Z.land (Z.shiftr xx 16) 255);
       do o0 <- wr 888 cap o (Z.land (Z.shiftr xx 8) 255);
       do o1 <- wr 889 cap o0 (Z.land xx 255);
       Ok (xx, count', 0, (fst o1 - pad', skipn (Z.to_nat pad') (snd o1))))
      (Ok (xx, count', 0, skipn (Z.to_nat pad')
         (Z.land xx 255 :: Z.land (Z.shiftr xx 8) 255 :: Z.land (Z.shiftr xx 16) 255 :: l ++ acc0)))).
  { intros pad' Hp0 Hp E xx. specialize (Hcap E).
    unfold wr. cbn [bind fst snd].
    replace ((0 <=? n) && (n <? cap)) with true by lia. cbn [bind].
    replace ((0 <=? n + 1) && (n + 1 <? cap)) with true by lia. cbn [bind].
    replace ((0 <=? n + 1 + 1) && (n + 1 + 1 <? cap)) with true by lia. cbn [bind fst snd rel64].
    assert (Hk : (Z.to_nat pad' <= 3)%nat) by lia.
    split; [reflexivity|]. split.
    { change (?a :: ?b :: ?c :: l ++ acc0) with ((a :: b :: c :: l) ++ acc0).
      apply skipn_app_le. cbn [length]. lia. }
    split.
    { rewrite Zlength_skipn by (cbn [length]; lia). rewrite !Zlength_cons. lia. }
    split; [lia|]. intros R HR. rewrite Hm, E. lia. }
  destruct (v =? -2).
  - rewrite land3, Hm.
    destruct (Z.eqb_spec ((count + 1) mod 4) 0) as [E|E].
    + destruct (2 <? u64 (pad + 1)) eqn:Hp; [exact I|].
      apply Hwr; auto. unfold u64; lia.
    + cbn [rel64 fst snd]. repeat split; auto; [unfold u64; lia|]. intros R HR. rewrite Hm. lia.
  - rewrite land3, Hm.
    destruct (Z.eqb_spec ((count + 1) mod 4) 0) as [E|E].
    + destruct (2 <? pad) eqn:Hp; [exact I|]. apply Hwr; auto.
    + cbn [rel64 fst snd]. repeat split; auto. intros R HR. rewrite Hm. lia.
Qed.

(* one region *)
Definition relR (acc0 : list Z) (cap : Z) (a : res (dec_st * obuf)) (b : res (dec_st * list Z)) : Prop :=
  match a, b with
  | Ok (st1, (n1, l1)), Ok (st2, a2) => st1 = st2 /\ a2 = l1 ++ acc0 /\ n1 = Zlength l1 /\ n1 <= cap /\ 0 <= snd st1
  | Null, Null => True
  | _, _ => False
  end.

Lemma region_sim64 : forall cap r x count pad n l acc0 i j,
  bytes r -> n = Zlength l -> 0 <= pad ->
  n + 3 * ((count mod 4 + Zlength r) / 4) <= cap ->
  relR acc0 cap (foldi (fun _ => b64d_char cap) i r ((x, count, pad), (n, l)))
                (foldi (fun _ => d64_step) j r ((x, count, pad), l ++ acc0)).
Proof.
  intros cap r. induction r as [|c r IH]; intros x count pad n l acc0 i j Hb Hn Hpad Hcap.
  - cbn [foldi relR snd]. rewrite Zlength_nil in Hcap. repeat split; auto. lia.
  - cbn [foldi]. apply Forall_cons_iff in Hb; destruct Hb as [Hc Hr].
    rewrite Zlength_cons in Hcap. pose proof (Zlength_nonneg r) as Hlr.
    assert (H := char_sim64 cap c x count pad n l acc0 (proj1 Hc) Hn Hpad).
    assert (Hc3 : (count + 1) mod 4 = 0 -> n + 3 <= cap) by (intros; lia).
    specialize (H Hc3).
    destruct (b64d_char cap c (x, count, pad, (n, l))) as [[[[x1 c1] p1] [n1 l1]]| |];
      destruct (d64_step c (x, count, pad, l ++ acc0)) as [[[[x2 c2] p2] a2]| |]; cbn [rel64] in H; try contradiction.
    + destruct H as (E1 & E2 & E3 & E4 & E5). inversion E1; subst x2 c2 p2 a2. cbn [bind].
      cbn [fst snd] in E4, E5. apply IH; auto.
      specialize (E5 (Zlength r) Hlr). lia.
    + cbn [bind relR]. exact I.
Qed.
End B64dec.

