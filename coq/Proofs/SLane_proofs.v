(* SLane_proofs.v — invariants of the serial-lane model (Model/SLane.v): any number of pushers and workers, any
   interleaving.  The word-level facts come from Proofs/Lane_fields.v (specifications of the generated bodies). *)
From Coq Require Import ZArith Bool List Lia FinFun.
From Verif Require Import Word Bits Fields DqFields Conc Gen_consts Gen_dqstate Lane_fields SLane.
Import ListNotations.
Local Open Scope Z_scope.

Definition OWN := 18014398509481984 + 2199023255552 + 2147483648.

Definition locked_pc (p : pc) : bool :=
  match p with
  | PW_tail _ | PW_head _ | PW_pop _ | PW_run _ _ _ | PW_incall _ _ _ | PW_next _ _ | PW_unlock _ | PW_xor _ => true
  | _ => false
  end.
Definition token_pc (p : pc) : bool :=
  locked_pc p || match p with PW_lock _ | PA_rootpush => true | _ => false end.
Definition waker_pc (p : pc) : bool :=
  match p with PA_link _ true _ | PA_probe _ | PA_wake _ _ => true | _ => false end.
Definition unlocking_pc (p : pc) : bool := match p with PW_unlock _ | PW_xor _ => true | _ => false end.
Definition owned_of (p : pc) : option Z :=
  match p with
  | PW_tail o | PW_head o | PW_pop o | PW_run o _ _ | PW_incall o _ _ | PW_next o _ | PW_unlock o | PW_xor o => Some o
  | _ => None
  end.
Definition qos_of (p : pc) : option Z :=
  match p with PA_xchg q | PA_link _ _ q | PA_probe q | PA_wake q _ | PA_oprobe q | PA_owake q => Some q | _ => None end.

Definition thread_inv (s : gst) (t : Z) : Prop :=
  (token_pc (pcs s t) = true <-> token s = Some (Some t)) /\
  (waker_pc (pcs s t) = true <-> In t (wakers s)) /\
  (forall o, owned_of (pcs s t) = Some o -> o = OWN) /\
  (forall q, qos_of (pcs s t) = Some q -> 0 <= q < 8).

Definition free (r : dqf) : Prop := f_owner r = 0 /\ f_ib r = 0 /\ f_wq r = 4095.
Definition held (r : dqf) (w : Z) : Prop := f_owner r = w /\ f_ib r = 1 /\ f_wq r = 4096.

(* the item the lock holder has popped and not yet begun *)
Definition inflight_pc (p : pc) : list Z := match p with PW_run _ i _ => [i] | _ => [] end.
Definition inflight (s : gst) : list Z :=
  match token s with
  | Some (Some w) => inflight_pc (pcs s w)
  | _ => []
  end.
Definition running_pc (w : Z) (p : pc) : option (Z * Z) := match p with PW_incall _ i _ => Some (w, i) | _ => None end.

Definition zrange (n : Z) : list Z := map Z.of_nat (seq 0 (Z.to_nat n)).

Record ginv_r (s : gst) (r : dqf) : Prop := {
  g_enc : st s = enc r;
  g_wf : wfr r;
  g_tr : f_tr r = 0;
  g_em : f_em r = 0;
  g_pb : f_pb r = 0;
  g_hi : f_hi r = 0;
  g_role : f_role r < 2;
  g_enq : f_enq r = 1 <-> token s <> None;
  g_rootq : rootq s = (match token s with Some None => 1 | _ => 0 end);
  g_lock : match token s with
           | Some (Some w) => valid_tid w /\ (if locked_pc (pcs s w) then held r w else free r)
           | _ => free r
           end;
  (* a non-empty list always has somebody responsible for it *)
  g_nostrand : lst s <> [] -> token s <> None \/ wakers s <> [];
  (* ... and the drainer about to give the lane back cannot miss it: DIRTY is set *)
  g_dirty : forall w, token s = Some (Some w) -> unlocking_pc (pcs s w) = true -> lst s <> [] -> wakers s = [] -> f_d r = 1;
  g_nodup : NoDup (wakers s);
  g_nextid : 0 <= nextid s;
  g_order : rev (started s) ++ inflight s ++ map e_id (lst s) = zrange (nextid s);
  g_running : running s = (match token s with Some (Some w) => running_pc w (pcs s w) | _ => None end)
}.

Definition Inv (s : gst) : Prop := (exists r, ginv_r s r) /\ forall t, thread_inv s t.

Lemma Inv_init rb : 0 <= rb < 2 -> Inv (init_state rb).
Proof.
  intros Hrb. split.
  - exists (mk 0 0 0 0 0 rb 0 0 0 4095 0 0). unfold init_state.
    constructor; cbn [st token rootq lst wakers started nextid running pcs]; unfold mk; cbn [f_tr f_em f_pb f_hi f_role f_enq f_d];
      try lia; try congruence; try reflexivity.
    + rewrite enc_linear; cbn [f_owner f_tr f_enq f_mq f_ov f_role f_em f_d f_pb f_wq f_ib f_hi];
      rewrite Z.shiftl_mul_pow2 by lia; change (2^41) with 2199023255552; lia.
    + unfold wfr; cbn [f_owner f_tr f_enq f_mq f_ov f_role f_em f_d f_pb f_wq f_ib f_hi]; repeat split; lia.
    + split; [discriminate | congruence].
    + unfold free; cbn; auto.
    + constructor.
  - intros t. unfold thread_inv, init_state; cbn. repeat split; intros; try discriminate; try contradiction.
Qed.

(* ---------------------------------------------------------------- small list facts *)
Lemma in_remove_z t u l : In u (remove_z t l) <-> In u l /\ u <> t.
Proof.
  induction l as [|x l IH]; cbn [remove_z In]; [tauto|].
  destruct (Z.eqb_spec x t) as [->|Hx]; cbn [In]; rewrite IH; split.
  - intros [H1 H2]; auto.
  - intros [[H1|H1] H2]; [congruence|auto].
  - intros [H1|[H1 H2]]; [subst; auto|auto].
  - intros [[H1|H1] H2]; auto.
Qed.

Lemma nodup_remove_z t l : NoDup l -> NoDup (remove_z t l).
Proof.
  induction 1 as [|x l Hx Hl IH]; cbn [remove_z]; [constructor|].
  destruct (x =? t); [exact IH|]. constructor; [|exact IH]. rewrite in_remove_z. tauto.
Qed.

Lemma map_id_link l i : map e_id (link_id l i) = map e_id l.
Proof.
  induction l as [|e l IH]; cbn [link_id map]; [reflexivity|].
  destruct (Z.eqb_spec (e_id e) i) as [E|E]; cbn [map e_id]; [rewrite E; reflexivity | rewrite IH; reflexivity].
Qed.

Lemma link_nil_iff l i : link_id l i = [] <-> l = [].
Proof.
  destruct l as [|e l]; cbn [link_id]; [tauto|]. destruct (e_id e =? i); split; discriminate.
Qed.

Lemma zrange_succ n : 0 <= n -> zrange (n + 1) = zrange n ++ [n].
Proof.
  intros H. unfold zrange. replace (Z.to_nat (n + 1)) with (S (Z.to_nat n)) by lia.
  rewrite seq_S, map_app. cbn [map plus]. rewrite Z2Nat.id by lia. reflexivity.
Qed.

Lemma zrange_nodup n : NoDup (zrange n).
Proof.
  unfold zrange. apply FinFun.Injective_map_NoDup; [|apply seq_NoDup]. intros a b H. lia.
Qed.

Lemma in_zrange n x : In x (zrange n) <-> 0 <= x < n.
Proof.
  unfold zrange. rewrite in_map_iff. split.
  - intros [k [<- Hk]]. apply in_seq in Hk. lia.
  - intros H. exists (Z.to_nat x). split; [lia|]. apply in_seq. lia.
Qed.

(* ---------------------------------------------------------------- word facts in the shape the steps need *)
Lemma merged_same r q :
  f_owner (merged r q) = f_owner r /\ f_tr (merged r q) = f_tr r /\ f_enq (merged r q) = f_enq r /\
  f_role (merged r q) = f_role r /\ f_em (merged r q) = f_em r /\ f_d (merged r q) = f_d r /\
  f_pb (merged r q) = f_pb r /\ f_wq (merged r q) = f_wq r /\ f_ib (merged r q) = f_ib r /\ f_hi (merged r q) = f_hi r.
Proof. unfold merged. destruct (f_mq r <? q); cbn; repeat split; reflexivity. Qed.

Lemma enq_changed r1 r2 : wfr r1 -> wfr r2 ->
  (Z.land (Z.lxor (enc r1) (enc r2)) 2147483648 =? 0) = (f_enq r1 =? f_enq r2).
Proof.
  intros W1 W2. pose proof W1 as W1'. pose proof W2 as W2'. unfold wfr in W1', W2'.
  rewrite (enc_vec r1), (enc_vec r2). rewrite encode_lxor by wfv_tac. cbn [map2].
  assert (Hb : forall a b, 0 <= a < 2 -> 0 <= b < 2 -> 0 <= Z.lxor a b < 2).
  { intros a b Ha Hb. assert (a = 0 \/ a = 1) as [->| ->] by lia; assert (b = 0 \/ b = 1) as [->| ->] by lia; cbn; lia. }
  assert (Hx : 0 <= Z.lxor (f_enq r1) (f_enq r2) < 2) by (apply Hb; lia).
  assert (WV : wfv LAY [Z.lxor (f_owner r1) (f_owner r2); Z.lxor (f_tr r1) (f_tr r2); Z.lxor (f_enq r1) (f_enq r2);
                        Z.lxor (f_mq r1) (f_mq r2); Z.lxor (f_ov r1) (f_ov r2); Z.lxor (f_role r1) (f_role r2);
                        Z.lxor (f_em r1) (f_em r2); Z.lxor (f_d r1) (f_d r2); Z.lxor (f_pb r1) (f_pb r2);
                        Z.lxor (f_wq r1) (f_wq r2); Z.lxor (f_ib r1) (f_ib r2); Z.lxor (f_hi r1) (f_hi r2)]).
  { apply wfv12;
      [apply (lxor_small _ _ 30) | apply (lxor_small _ _ 1) | apply (lxor_small _ _ 1) | apply (lxor_small _ _ 3)
      | apply (lxor_small _ _ 1) | apply (lxor_small _ _ 2) | apply (lxor_small _ _ 1) | apply (lxor_small _ _ 1)
      | apply (lxor_small _ _ 1) | apply (lxor_small _ _ 13) | apply (lxor_small _ _ 1) | apply (lxor_small _ _ 9)];
      (change (2 ^ 30) with 1073741824 || change (2 ^ 1) with 2 || change (2 ^ 3) with 8 || change (2 ^ 2) with 4
       || change (2 ^ 13) with 8192 || change (2 ^ 9) with 512 || idtac); lia. }
  rewrite (land_vec_const _ 2147483648) by (exact WV || lia).
  let d := eval vm_compute in (decode LAY 2147483648) in change (decode LAY 2147483648) with d. cbn [map2].
  fsimp. rewrite vec_linear.
  assert (f_enq r1 = 0 \/ f_enq r1 = 1) as [E1|E1] by lia; assert (f_enq r2 = 0 \/ f_enq r2 = 1) as [E2|E2] by lia;
    rewrite E1, E2; reflexivity.
Qed.

(* ---------------------------------------------------------------- frame lemmas *)
Ltac sproj := cbn [st lst rootq pcs nextid started running token wakers set_pc set_st set_lst set_rootq set_token set_wakers].
Ltac sproj_in H := cbn [st lst rootq pcs nextid started running token wakers set_pc set_st set_lst set_rootq set_token set_wakers] in H.

Lemma not_holder s t : thread_inv s t -> token_pc (pcs s t) = false -> token s <> Some (Some t).
Proof. intros (T & _) H E. apply T in E. congruence. Qed.

Lemma holder s t : thread_inv s t -> token_pc (pcs s t) = true -> token s = Some (Some t).
Proof. intros (T & _) H. apply T. exact H. Qed.

(* a thread that does not hold the token changes its own pc only *)
Lemma ginv_set_pc_other s r t p : ginv_r s r -> token s <> Some (Some t) -> ginv_r (set_pc s t p) r.
Proof.
  intros G N. destruct G. unfold inflight in *.
  assert (P : forall w, token s = Some (Some w) -> upd (pcs s) t p w = pcs s w).
  { intros w E. apply upd_other. congruence. }
  constructor; sproj; auto.
  - destruct (token s) as [[w|]|]; auto. rewrite P by reflexivity. exact g_lock0.
  - intros w E. rewrite P by exact E. apply g_dirty0. exact E.
  - unfold inflight; sproj. destruct (token s) as [[w|]|]; auto. rewrite P by reflexivity. exact g_order0.
  - destruct (token s) as [[w|]|]; auto. rewrite P by reflexivity. exact g_running0.
Qed.

(* the other threads keep their thread invariant when t moves and the ghost sets change compatibly *)
Lemma thread_other s s' t u :
  u <> t -> thread_inv s u -> pcs s' u = pcs s u ->
  (token s' = Some (Some u) <-> token s = Some (Some u)) ->
  (In u (wakers s') <-> In u (wakers s)) ->
  thread_inv s' u.
Proof.
  intros N (T1 & T2 & T3 & T4) P K W. unfold thread_inv. rewrite P. rewrite K, W. auto.
Qed.

(* the token holder moves between two of its program points, shared state untouched *)
Lemma ginv_holder_move s r t p' :
  ginv_r s r -> token s = Some (Some t) ->
  locked_pc p' = locked_pc (pcs s t) ->
  (unlocking_pc p' = true -> unlocking_pc (pcs s t) = true \/ lst s = []) ->
  inflight_pc p' = inflight_pc (pcs s t) -> running_pc t p' = running_pc t (pcs s t) ->
  ginv_r (set_pc s t p') r.
Proof.
  intros G K L U I R. destruct G. unfold inflight in *. rewrite K in *.
  constructor; sproj; rewrite ?K; auto.
  - rewrite upd_same, L. exact g_lock0.
  - intros w E. injection E as <-. rewrite upd_same. intros Hu Hl Hw.
    destruct (U Hu) as [U'|U']; [|contradiction]. apply (g_dirty0 t); auto.
  - unfold inflight; sproj. rewrite K, upd_same, I. exact g_order0.
  - rewrite upd_same, R. exact g_running0.
Qed.

Lemma thread_self_holder s t p' :
  thread_inv s t -> token_pc (pcs s t) = true -> token_pc p' = true -> waker_pc p' = false ->
  (forall o, owned_of p' = Some o -> o = OWN) -> qos_of p' = None ->
  thread_inv (set_pc s t p') t.
Proof.
  intros (T1 & T2 & T3 & T4) H H' W O Q. unfold thread_inv. sproj. rewrite upd_same. repeat split; auto.
  - intros _. apply T1. exact H.
  - rewrite W. discriminate.
  - intros Hin. apply T2 in Hin. destruct (pcs s t); cbn in H, Hin; discriminate.
  - rewrite Q in H0. discriminate.
  - rewrite Q in H0. discriminate.
Qed.

Lemma Inv_holder_move s t p' :
  Inv s -> token_pc (pcs s t) = true -> token_pc p' = true ->
  locked_pc p' = locked_pc (pcs s t) ->
  (unlocking_pc p' = true -> unlocking_pc (pcs s t) = true \/ lst s = []) ->
  inflight_pc p' = inflight_pc (pcs s t) -> running_pc t p' = running_pc t (pcs s t) ->
  (forall o, owned_of p' = Some o -> o = OWN) ->
  Inv (set_pc s t p').
Proof.
  intros [[r G] T] H H' L U I R O. pose proof (holder s t (T t) H) as K. split.
  - exists r. apply ginv_holder_move; auto.
  - intros u. destruct (Z.eq_dec u t) as [->|N].
    + apply thread_self_holder; auto.
      * destruct p'; cbn in H' |- *; try discriminate; reflexivity.
      * destruct p'; cbn in H' |- *; try discriminate; reflexivity.
    + apply (thread_other s _ t u N (T u)); sproj; [apply upd_other; exact N | tauto | tauto].
Qed.

Lemma Inv_other_move s t p' :
  Inv s -> token_pc (pcs s t) = false -> token_pc p' = false ->
  waker_pc p' = waker_pc (pcs s t) ->
  (forall q, qos_of p' = Some q -> 0 <= q < 8) ->
  Inv (set_pc s t p').
Proof.
  intros [[r G] T] H H' W Q. pose proof (not_holder s t (T t) H) as K. split.
  - exists r. apply ginv_set_pc_other; auto.
  - intros u. destruct (Z.eq_dec u t) as [->|N].
    + destruct (T t) as (T1 & T2 & T3 & T4). unfold thread_inv. sproj. rewrite upd_same. repeat split.
      * rewrite H'. discriminate.
      * intros E. congruence.
      * rewrite W. apply T2.
      * rewrite W. apply T2.
      * intros o Ho. destruct p'; cbn in H', Ho; discriminate.
      * apply (Q q H0).
      * apply (Q q H0).
    + apply (thread_other s _ t u N (T u)); sproj; [apply upd_other; exact N | tauto | tauto].
Qed.

(* ---------------------------------------------------------------- the steps *)
Lemma begin_preserves s t c s' : Inv s -> valid_tid t -> begin s t c = Some s' -> Inv s'.
Proof.
  intros I V B. unfold begin in B. destruct (pcs s t) eqn:Hpc; try discriminate.
  destruct c as [qos|floor].
  - destruct ((0 <=? qos) && (qos <? 8)) eqn:Q; [|discriminate]. injection B as <-.
    apply andb_true_iff in Q. destruct Q as [Q1 Q2]. apply Z.leb_le in Q1. apply Z.ltb_lt in Q2.
    apply Inv_other_move; rewrite ?Hpc; auto.
    intros q Hq. injection Hq as <-. lia.
  - destruct (0 <? rootq s) eqn:R; [|discriminate]. injection B as <-. apply Z.ltb_lt in R.
    destruct I as [[r G] T]. pose proof G as G'. destruct G'.
    assert (K : token s = Some None).
    { destruct (token s) as [[w|]|]; try lia. reflexivity. }
    split.
    + exists r. unfold inflight in *. rewrite K in *. constructor; sproj; auto.
      * split; [intros _; discriminate | intros _; apply g_enq0; discriminate].
      * lia.
      * rewrite upd_same. cbn [locked_pc]. auto.
      * intros _. left. discriminate.
      * intros w E. injection E as <-. rewrite upd_same. discriminate.
      * unfold inflight; sproj. rewrite upd_same. exact g_order0.
      * rewrite upd_same. exact g_running0.
    + intros u. destruct (Z.eq_dec u t) as [->|N].
      * destruct (T t) as (T1 & T2 & T3 & T4). rewrite Hpc in *. unfold thread_inv. sproj. rewrite upd_same.
        repeat split; auto; try discriminate.
        intros Hin. apply T2 in Hin. discriminate.
      * apply (thread_other s _ t u N (T u)); sproj; [apply upd_other; exact N | | tauto].
        rewrite K. split; intros E; [injection E as E; congruence | discriminate].
Qed.

Lemma step_xchg s t q s' : Inv s -> pcs s t = PA_xchg q -> gstep s t = Some s' -> Inv s'.
Proof.
  intros [[r G] T] Hpc B. unfold gstep in B. rewrite Hpc in B. injection B as <-.
  pose proof (not_holder s t (T t)) as K. rewrite Hpc in K. specialize (K eq_refl).
  destruct (T t) as (T1 & T2 & T3 & T4). rewrite Hpc in T1, T2, T3, T4.
  assert (NW : ~ In t (wakers s)) by (intros Hin; apply T2 in Hin; discriminate).
  assert (P : forall w, token s = Some (Some w) -> upd (pcs s) t (PA_link (nextid s) match lst s with [] => true | _ => false end q) w = pcs s w).
  { intros w E. apply upd_other. congruence. }
  destruct G. split.
  - exists r. constructor; sproj; auto.
    + destruct (token s) as [[w|]|]; auto. rewrite P by reflexivity. exact g_lock0.
    + intros _. destruct (lst s) eqn:L; [right; discriminate|]. destruct g_nostrand0 as [H|H]; [discriminate|left; exact H|right; exact H].
    + intros w E. rewrite P by exact E. intros Hu _ Hw. destruct (lst s) eqn:L; [discriminate|].
      apply (g_dirty0 w); auto. discriminate.
    + destruct (lst s); [constructor; assumption | assumption].
    + lia.
    + unfold inflight in *; sproj. rewrite map_app. cbn [map e_id]. rewrite zrange_succ by assumption.
      rewrite <- g_order0. destruct (token s) as [[w|]|]; rewrite ?P by reflexivity; rewrite <- ?app_assoc; reflexivity.
    + destruct (token s) as [[w|]|]; auto. rewrite P by reflexivity. exact g_running0.
  - intros u. destruct (Z.eq_dec u t) as [->|N].
    + unfold thread_inv. sproj. rewrite upd_same. repeat split; try discriminate; auto.
      * destruct (lst s); cbn [waker_pc In]; [intros _; left; reflexivity | discriminate].
      * destruct (lst s); cbn [waker_pc In]; [reflexivity | intros Hin; contradiction].
      * cbn [qos_of] in H. injection H as <-. apply (T4 q eq_refl).
      * cbn [qos_of] in H. injection H as <-. apply (T4 q eq_refl).
    + apply (thread_other s _ t u N (T u)); sproj; [apply upd_other; exact N | tauto |].
      destruct (lst s); [|tauto]. cbn [In]. split; [intros [E|E]; [congruence|exact E] | auto].
Qed.

Lemma ginv_relink s r i : ginv_r s r -> ginv_r (set_lst s (link_id (lst s) i)) r.
Proof.
  intros G. destruct G. unfold inflight in *.
  constructor; sproj; auto.
  - rewrite link_nil_iff. exact g_nostrand0.
  - intros w E Hu. rewrite link_nil_iff. apply (g_dirty0 w); assumption.
  - unfold inflight; sproj. rewrite map_id_link. exact g_order0.
Qed.

Lemma thread_inv_relink s i u : thread_inv s u -> thread_inv (set_lst s (link_id (lst s) i)) u.
Proof. intros H. exact H. Qed.

Lemma step_link s t i we q s' : Inv s -> pcs s t = PA_link i we q -> gstep s t = Some s' -> Inv s'.
Proof.
  intros I Hpc B. unfold gstep in B. rewrite Hpc in B. injection B as <-.
  assert (I1 : Inv (set_lst s (link_id (lst s) i))).
  { destruct I as [[r G] T]. split; [exists r; apply ginv_relink; exact G | intros u; apply thread_inv_relink; apply T]. }
  destruct I as [_ T]. destruct (T t) as (_ & _ & _ & T4). rewrite Hpc in T4.
  apply Inv_other_move; sproj; rewrite ?Hpc; auto.
  - destruct we; reflexivity.
  - destruct we; reflexivity.
  - destruct we; cbn [qos_of]; [|discriminate]. intros q0 E. injection E as <-. apply (T4 q eq_refl).
Qed.

Lemma step_probe s t q s' : Inv s -> pcs s t = PA_probe q -> gstep s t = Some s' -> Inv s'.
Proof.
  intros I Hpc B. unfold gstep in B. rewrite Hpc in B. injection B as <-.
  destruct (lst s) eqn:L.
  - (* the drainer already took the item: nothing to wake *)
    destruct I as [[r G] T]. pose proof (not_holder s t (T t)) as K. rewrite Hpc in K. specialize (K eq_refl).
    assert (P : forall w, token s = Some (Some w) -> upd (pcs s) t Idle w = pcs s w).
    { intros w E. apply upd_other. congruence. }
    destruct G. split.
    + exists r. unfold inflight in *. constructor; sproj; auto.
      * destruct (token s) as [[w|]|]; auto. rewrite P by reflexivity. exact g_lock0.
      * intros w E _ Hl. rewrite L in Hl. congruence.
      * apply nodup_remove_z. exact g_nodup0.
      * unfold inflight; sproj. destruct (token s) as [[w|]|]; auto. rewrite P by reflexivity. exact g_order0.
      * destruct (token s) as [[w|]|]; auto. rewrite P by reflexivity. exact g_running0.
    + intros u. destruct (Z.eq_dec u t) as [->|N].
      * unfold thread_inv. sproj. rewrite upd_same. cbn [token_pc locked_pc waker_pc owned_of qos_of orb].
        repeat split; try discriminate.
        -- intros E. congruence.
        -- rewrite in_remove_z. intros [_ E]. congruence.
      * apply (thread_other s _ t u N (T u)); sproj; [apply upd_other; exact N | tauto |].
        rewrite in_remove_z. tauto.
  - destruct I as [IG T]. destruct (T t) as (_ & _ & _ & T4). rewrite Hpc in T4.
    apply Inv_other_move; rewrite ?Hpc; auto. split; [exact IG | exact T].
Qed.

Lemma wfr_mk a b c d e f g h i j k l :
  0 <= a < 1073741824 -> 0 <= b < 2 -> 0 <= c < 2 -> 0 <= d < 8 -> 0 <= e < 2 -> 0 <= f < 4 -> 0 <= g < 2 ->
  0 <= h < 2 -> 0 <= i < 2 -> 0 <= j < 8192 -> 0 <= k < 2 -> 0 <= l < 512 -> wfr (mk a b c d e f g h i j k l).
Proof. intros. unfold wfr, mk; cbn. repeat split; lia. Qed.

Lemma step_wake s t q tg s' : Inv s -> valid_tid t -> pcs s t = PA_wake q tg -> gstep s t = Some s' -> Inv s'.
Proof.
  intros [[r G] T] Vt Hpc B. unfold gstep in B. rewrite Hpc in B.
  pose proof (not_holder s t (T t)) as K. rewrite Hpc in K. specialize (K eq_refl).
  destruct (T t) as (T1 & T2 & T3 & T4). rewrite Hpc in T1, T2, T3, T4. pose proof (T4 q eq_refl) as Q.
  destruct G. pose proof g_wf0 as W. unfold wfr in W.
  rewrite g_enc0 in B. unfold ENQUEUED in B.
  rewrite (wakeup_fields r q 3 1 g_wf0 Q eq_refl) in B. cbv zeta in B.
  pose proof (merged_wf r q g_wf0 Q) as Wm. unfold wfr in Wm.
  destruct (merged_same r q) as (M1 & M2 & M3 & M4 & M5 & M6 & M7 & M8 & M9 & M10).
  set (m := merged r q) in *.
  set (e' := if can_enqueue r then 1 else f_enq m) in *.
  assert (He' : 0 <= e' < 2) by (subst e'; destruct (can_enqueue r); lia).
  set (r' := mk (f_owner m) (f_tr m) e' (f_mq m) (f_ov m) (f_role m) (f_em m) 1 (f_pb m) (f_wq m) (f_ib m) (f_hi m)) in *.
  assert (W' : wfr r') by (subst r'; apply wfr_mk; lia).
  cbv iota beta in B. rewrite (enq_changed r r' g_wf0 W') in B.
  assert (Fr : f_owner r' = f_owner r /\ f_ib r' = f_ib r /\ f_wq r' = f_wq r /\ f_enq r' = e' /\ f_d r' = 1 /\
               f_tr r' = 0 /\ f_em r' = 0 /\ f_pb r' = 0 /\ f_hi r' = 0 /\ f_role r' = f_role r).
  { subst r'. unfold mk; cbn. repeat split; congruence. }
  destruct Fr as (F1 & F2 & F3 & F4 & F5 & F6 & F7 & F8 & F9 & F10).
  assert (P : forall p w, token s = Some (Some w) -> upd (pcs s) t p w = pcs s w).
  { intros p w E. apply upd_other. congruence. }
  assert (Lk : forall x, (match x with Some (Some w) => valid_tid w /\ (if locked_pc (pcs s w) then held r w else free r) | _ => free r end) ->
                         (match x with Some (Some w) => valid_tid w /\ (if locked_pc (pcs s w) then held r' w else free r') | _ => free r' end)).
  { intros x. unfold held, free. rewrite F1, F2, F3. auto. }
  destruct (can_enqueue r) eqn:CE.
  - (* this wakeup takes the enqueued token and will push the lane on its target *)
    unfold can_enqueue in CE. rewrite !andb_true_iff in CE. destruct CE as [[[C1 C2] C3] C4]. apply Z.eqb_eq in C2.
    assert (Tk : token s = None).
    { destruct (token s) eqn:E; [|reflexivity]. assert (f_enq r = 1) by (apply g_enq0; congruence). lia. }
    assert (Ee : (f_enq r =? f_enq r') = false) by (rewrite F4; subst e'; rewrite C2; reflexivity).
    rewrite Ee in B. cbn [negb] in B. injection B as <-. rewrite Tk in *. split.
    + exists r'. constructor; sproj; try assumption; try lia.
      * rewrite F4. subst e'. split; [discriminate | reflexivity].
      * rewrite upd_same. cbn [locked_pc]. split; [|unfold free in *; rewrite F1, F2, F3; exact g_lock0].
        exact Vt.
      * intros _. left. discriminate.
      * apply nodup_remove_z. exact g_nodup0.
      * unfold inflight in *; sproj. rewrite Tk in g_order0. rewrite upd_same. exact g_order0.
      * rewrite upd_same. exact g_running0.
    + intros u. destruct (Z.eq_dec u t) as [->|N].
      * unfold thread_inv. sproj. rewrite upd_same. cbn [token_pc locked_pc waker_pc owned_of qos_of orb].
        repeat split; try discriminate; auto.
        rewrite in_remove_z. intros [_ E]. congruence.
      * apply (thread_other s _ t u N (T u)); sproj; [apply upd_other; exact N | | rewrite in_remove_z; tauto].
        rewrite Tk. split; intros E; [injection E as E; congruence | discriminate].
  - (* already enqueued, or locked: DIRTY alone tells the drainer *)
    assert (Ee : (f_enq r =? f_enq r') = true) by (rewrite F4; subst e'; rewrite M3; apply Z.eqb_refl).
    rewrite Ee in B. cbn [negb] in B. injection B as <-.
    assert (Resp : token s <> None).
    { unfold can_enqueue in CE. rewrite g_hi0, g_em0 in CE. cbn [Z.eqb andb] in CE.
      destruct (Z.eqb_spec (f_enq r) 0) as [E0|E0]; cbn [andb] in CE.
      - apply orb_false_iff in CE. destruct CE as [CE _].
        destruct (token s) as [[w|]|]; try discriminate.
        unfold free in g_lock0. destruct g_lock0 as (O & _). rewrite O in CE. discriminate.
      - apply g_enq0. lia. }
    split.
    + exists r'. constructor; sproj; try assumption; try lia.
      * rewrite F4. subst e'. rewrite M3. exact g_enq0.
      * specialize (Lk (token s) g_lock0). destruct (token s) as [[w|]|]; auto. rewrite P by reflexivity. exact Lk.
      * intros _. left. exact Resp.
      * apply nodup_remove_z. exact g_nodup0.
      * unfold inflight in *; sproj. destruct (token s) as [[w|]|]; auto. rewrite P by reflexivity. exact g_order0.
      * destruct (token s) as [[w|]|]; auto. rewrite P by reflexivity. exact g_running0.
    + intros u. destruct (Z.eq_dec u t) as [->|N].
      * unfold thread_inv. sproj. rewrite upd_same. cbn [token_pc locked_pc waker_pc owned_of qos_of orb].
        repeat split; try discriminate; auto.
        rewrite in_remove_z. intros [_ E]. congruence.
      * apply (thread_other s _ t u N (T u)); sproj; [apply upd_other; exact N | tauto | rewrite in_remove_z; tauto].
Qed.

(* ---- the override continuation of a push onto a non-empty list ---- *)
Lemma step_olink s t s' : Inv s -> ostep s t = Some s' -> Inv s'.
Proof.
  intros I B. unfold ostep in B. destruct (pcs s t) eqn:Hpc; try discriminate.
  destruct was_empty; [discriminate|]. injection B as <-.
  assert (I1 : Inv (set_lst s (link_id (lst s) i))).
  { destruct I as [[r G] T]. split; [exists r; apply ginv_relink; exact G | intros u; apply thread_inv_relink; apply T]. }
  destruct I as [_ T]. destruct (T t) as (_ & _ & _ & T4). rewrite Hpc in T4.
  apply Inv_other_move; sproj; rewrite ?Hpc; try reflexivity; try exact I1.
  intros q0 E. injection E as <-. apply (T4 qos eq_refl).
Qed.

Lemma step_oprobe s t q s' : Inv s -> pcs s t = PA_oprobe q -> gstep s t = Some s' -> Inv s'.
Proof.
  intros I Hpc B. unfold gstep in B. rewrite Hpc in B. injection B as <-.
  pose proof I as I0. destruct I0 as [_ T]. destruct (T t) as (_ & _ & _ & T4). rewrite Hpc in T4.
  destruct (lst s); apply Inv_other_move; rewrite ?Hpc; try reflexivity; try exact I.
  - intros q0 E. discriminate.
  - intros q0 E. injection E as <-. apply (T4 q eq_refl).
Qed.

Lemma step_owake s t q s' : Inv s -> valid_tid t -> pcs s t = PA_owake q -> gstep s t = Some s' -> Inv s'.
Proof.
  intros I Vt Hpc B. pose proof I as I0. destruct I0 as [[r G] T]. unfold gstep in B. rewrite Hpc in B.
  pose proof (not_holder s t (T t)) as K. rewrite Hpc in K. specialize (K eq_refl).
  destruct (T t) as (T1 & T2 & T3 & T4). rewrite Hpc in T1, T2, T3, T4. pose proof (T4 q eq_refl) as Q.
  destruct G. pose proof g_wf0 as W. unfold wfr in W.
  rewrite g_enc0 in B. unfold ENQUEUED in B.
  rewrite (wakeup_fields_plain r q 1 1 g_wf0 Q eq_refl) in B. cbv zeta in B.
  pose proof (merged_wf r q g_wf0 Q) as Wm. unfold wfr in Wm.
  destruct (merged_same r q) as (M1 & M2 & M3 & M4 & M5 & M6 & M7 & M8 & M9 & M10).
  set (m := merged r q) in *.
  set (e' := if can_enqueue r then 1 else f_enq m) in *.
  assert (He' : 0 <= e' < 2) by (subst e'; destruct (can_enqueue r); lia).
  set (r' := mk (f_owner m) (f_tr m) e' (f_mq m) (f_ov m) (f_role m) (f_em m) (f_d m) (f_pb m) (f_wq m) (f_ib m) (f_hi m)) in *.
  assert (W' : wfr r') by (subst r'; apply wfr_mk; lia).
  destruct (enc r' =? enc r).
  { (* nothing to change: give up *)
    injection B as <-. apply Inv_other_move; rewrite ?Hpc; try reflexivity; try exact I. intros q0 E. discriminate. }
  cbv iota beta in B. rewrite (enq_changed r r' g_wf0 W') in B.
  assert (Fr : f_owner r' = f_owner r /\ f_ib r' = f_ib r /\ f_wq r' = f_wq r /\ f_enq r' = e' /\ f_d r' = f_d r /\
               f_tr r' = 0 /\ f_em r' = 0 /\ f_pb r' = 0 /\ f_hi r' = 0 /\ f_role r' = f_role r).
  { subst r'. unfold mk; cbn. repeat split; congruence. }
  destruct Fr as (F1 & F2 & F3 & F4 & F5 & F6 & F7 & F8 & F9 & F10).
  assert (P : forall p w, token s = Some (Some w) -> upd (pcs s) t p w = pcs s w).
  { intros p w E. apply upd_other. congruence. }
  assert (Lk : forall x, (match x with Some (Some w) => valid_tid w /\ (if locked_pc (pcs s w) then held r w else free r) | _ => free r end) ->
                         (match x with Some (Some w) => valid_tid w /\ (if locked_pc (pcs s w) then held r' w else free r') | _ => free r' end)).
  { intros x. unfold held, free. rewrite F1, F2, F3. auto. }
  destruct (can_enqueue r) eqn:CE.
  - unfold can_enqueue in CE. rewrite !andb_true_iff in CE. destruct CE as [[[C1 C2] C3] C4]. apply Z.eqb_eq in C2.
    assert (Tk : token s = None).
    { destruct (token s) eqn:E; [|reflexivity]. assert (f_enq r = 1) by (apply g_enq0; congruence). lia. }
    assert (Ee : (f_enq r =? f_enq r') = false) by (rewrite F4; subst e'; rewrite C2; reflexivity).
    rewrite Ee in B. cbn [negb] in B. injection B as <-. rewrite Tk in *. split.
    + exists r'. constructor; sproj; try assumption; try lia.
      * rewrite F4. subst e'. split; [discriminate | reflexivity].
      * rewrite upd_same. cbn [locked_pc]. split; [exact Vt | unfold free in *; rewrite F1, F2, F3; exact g_lock0].
      * intros _. left. discriminate.
      * intros w E. injection E as <-. rewrite upd_same. discriminate.
      * unfold inflight in *; sproj. rewrite Tk in g_order0. rewrite upd_same. exact g_order0.
      * rewrite upd_same. exact g_running0.
    + intros u. destruct (Z.eq_dec u t) as [->|N].
      * unfold thread_inv. sproj. rewrite upd_same. cbn [token_pc locked_pc waker_pc owned_of qos_of orb].
        repeat split; try discriminate; auto.
        intros Hin. apply T2 in Hin. discriminate.
      * apply (thread_other s _ t u N (T u)); sproj; [apply upd_other; exact N | | tauto].
        rewrite Tk. split; intros E; [injection E as E; congruence | discriminate].
  - assert (Ee : (f_enq r =? f_enq r') = true) by (rewrite F4; subst e'; rewrite M3; apply Z.eqb_refl).
    rewrite Ee in B. cbn [negb] in B. injection B as <-. split.
    + exists r'. constructor; sproj; try assumption; try lia.
      * rewrite F4. subst e'. rewrite M3. exact g_enq0.
      * specialize (Lk (token s) g_lock0). destruct (token s) as [[w|]|]; auto. rewrite P by reflexivity. exact Lk.
      * intros w E. rewrite P by exact E. rewrite F5. apply (g_dirty0 w E).
      * unfold inflight in *; sproj. destruct (token s) as [[w|]|]; auto. rewrite P by reflexivity. exact g_order0.
      * destruct (token s) as [[w|]|]; auto. rewrite P by reflexivity. exact g_running0.
    + intros u. destruct (Z.eq_dec u t) as [->|N].
      * unfold thread_inv. sproj. rewrite upd_same. cbn [token_pc locked_pc waker_pc owned_of qos_of orb].
        repeat split; try discriminate; auto.
        intros Hin. apply T2 in Hin. discriminate.
      * apply (thread_other s _ t u N (T u)); sproj; [apply upd_other; exact N | tauto | tauto].
Qed.

Lemma step_rootpush s t s' : Inv s -> pcs s t = PA_rootpush -> gstep s t = Some s' -> Inv s'.
Proof.
  intros [[r G] T] Hpc B. unfold gstep in B. rewrite Hpc in B. injection B as <-.
  pose proof (holder s t (T t)) as K. rewrite Hpc in K. specialize (K eq_refl).
  destruct G. unfold inflight in *. rewrite K in *. rewrite Hpc in *. cbn [locked_pc] in g_lock0. split.
  - exists r. constructor; sproj; try assumption; try lia.
    + split; [discriminate | intros _; apply g_enq0; discriminate].
    + tauto.
    + intros _. left. discriminate.
    + discriminate.
  - intros u. destruct (Z.eq_dec u t) as [->|N].
    + unfold thread_inv. sproj. rewrite upd_same. cbn [token_pc locked_pc waker_pc owned_of qos_of orb].
      destruct (T t) as (_ & T2 & _). rewrite Hpc in T2. cbn [waker_pc] in T2.
      repeat split; try discriminate; auto. apply T2.
    + apply (thread_other s _ t u N (T u)); sproj; [apply upd_other; exact N | | tauto].
      rewrite K. split; intros E; [discriminate | injection E as E; congruence].
Qed.

Lemma OWN_from_lock : 18014398509481984 + 9007199254740992 + 2147483648 * 1 - 2199023255552 * 4095 = OWN.
Proof. reflexivity. Qed.

Lemma step_lock s t fl s' : Inv s -> pcs s t = PW_lock fl -> gstep s t = Some s' -> Inv s'.
Proof.
  intros [[r G] T] Hpc B. unfold gstep in B. rewrite Hpc in B.
  pose proof (holder s t (T t)) as K. rewrite Hpc in K. specialize (K eq_refl).
  pose proof G as G'. destruct G'. unfold inflight in *. rewrite K in *. rewrite Hpc in *. cbn [locked_pc] in g_lock0.
  destruct g_lock0 as [Vt (O & Ib & Wq)]. pose proof g_wf0 as W. unfold wfr in W.
  assert (En : f_enq r = 1) by (apply g_enq0; discriminate).
  rewrite g_enc0 in B. rewrite (lock_fields r t fl 0 g_wf0 Vt) in B.
  assert (LF : lock_free r = true).
  { unfold lock_free. rewrite O, g_em0, Ib, g_hi0, Wq. reflexivity. }
  rewrite LF in B.
  destruct ((f_role r mod 2 =? 1) && (fl <? f_mq r)) eqn:OV.
  - (* the lock would need a QoS override first: retry with the queue's max QoS as floor *)
    injection B as <-.
    apply Inv_holder_move; rewrite ?Hpc; try reflexivity; try discriminate.
    split; [exists r; exact G | exact T].
  - rewrite En, Wq in B. rewrite OWN_from_lock in B.
    change (OWN =? 0) with false in B. cbv iota in B. injection B as <-.
    set (r' := mk t 0 1 (f_mq r) 0 (f_role r) 0 0 0 4096 1 0) in *.
    split.
    + exists r'. subst r'. constructor; sproj; rewrite ?K; unfold mk; cbn [f_tr f_em f_pb f_hi f_role f_enq f_d];
        try assumption; try lia; try reflexivity.
      * apply wfr_mk; unfold valid_tid in Vt; lia.
      * split; [discriminate | reflexivity].
      * rewrite upd_same. cbn [locked_pc]. split; [exact Vt | unfold held; cbn; auto].
      * intros w E. injection E as <-. rewrite upd_same. discriminate.
      * unfold inflight; sproj. rewrite K, upd_same. exact g_order0.
      * rewrite upd_same. exact g_running0.
    + intros u. destruct (Z.eq_dec u t) as [->|N].
      * unfold thread_inv. sproj. rewrite upd_same. cbn [token_pc locked_pc waker_pc owned_of qos_of orb].
        destruct (T t) as (_ & T2 & _). rewrite Hpc in T2. cbn [waker_pc] in T2.
        repeat split; try discriminate; auto.
        -- apply T2.
        -- intros o E. injection E as <-. reflexivity.
      * apply (thread_other s _ t u N (T u)); sproj; [apply upd_other; exact N | tauto | tauto].
Qed.

Lemma OWN_unlock : Z.lor (Z.land OWN ENQUEUED) SERIAL_OWNED = OWN.
Proof. reflexivity. Qed.

Lemma owned_is_OWN s t o : Inv s -> owned_of (pcs s t) = Some o -> o = OWN.
Proof. intros [_ T] H. destruct (T t) as (_ & _ & T3 & _). apply T3. exact H. Qed.

Lemma step_tail s t o s' : Inv s -> pcs s t = PW_tail o -> gstep s t = Some s' -> Inv s'.
Proof.
  intros I Hpc B. unfold gstep in B. rewrite Hpc in B. injection B as <-.
  assert (o = OWN) by (apply (owned_is_OWN s t); [exact I | rewrite Hpc; reflexivity]). subst o.
  destruct (lst s) eqn:L.
  - rewrite ?OWN_unlock. apply Inv_holder_move; rewrite ?Hpc; try reflexivity; auto.
    intros o E. injection E as <-. reflexivity.
  - apply Inv_holder_move; rewrite ?Hpc; try reflexivity; auto; try discriminate.
    intros o E. injection E as <-. reflexivity.
Qed.

Lemma step_head s t o s' : Inv s -> pcs s t = PW_head o -> gstep s t = Some s' -> Inv s'.
Proof.
  intros I Hpc B. unfold gstep in B. rewrite Hpc in B.
  assert (o = OWN) by (apply (owned_is_OWN s t); [exact I | rewrite Hpc; reflexivity]). subst o.
  destruct (lst s) as [|e l]; [discriminate|]. destruct (e_linked e); [|discriminate]. injection B as <-.
  apply Inv_holder_move; rewrite ?Hpc; try reflexivity; auto; try discriminate.
  intros o E. injection E as <-. reflexivity.
Qed.

Lemma step_next s t o m s' : Inv s -> pcs s t = PW_next o m -> gstep s t = Some s' -> Inv s'.
Proof.
  intros I Hpc B. unfold gstep in B. rewrite Hpc in B.
  assert (o = OWN) by (apply (owned_is_OWN s t); [exact I | rewrite Hpc; reflexivity]). subst o.
  destruct m.
  - injection B as <-. apply Inv_holder_move; rewrite ?Hpc; try reflexivity; auto; try discriminate.
    intros o E. injection E as <-. reflexivity.
  - injection B as <-. destruct (lst s) eqn:L.
    + rewrite ?OWN_unlock. apply Inv_holder_move; rewrite ?Hpc; try reflexivity; auto.
      intros o E. injection E as <-. reflexivity.
    + apply Inv_holder_move; rewrite ?Hpc; try reflexivity; auto; try discriminate.
      intros o E. injection E as <-. reflexivity.
Qed.

(* a step of the token holder that changes ghost / list state: the other threads are unaffected *)
Lemma threads_after_holder_step s s' t p' :
  (forall u, thread_inv s u) -> token s = Some (Some t) -> token s' = Some (Some t) -> wakers s' = wakers s ->
  pcs s' = upd (pcs s) t p' -> token_pc p' = true -> (forall o, owned_of p' = Some o -> o = OWN) ->
  forall u, thread_inv s' u.
Proof.
  intros T K K' Wk P H O u. destruct (Z.eq_dec u t) as [->|N].
  - destruct (T t) as (T1 & T2 & T3 & T4). unfold thread_inv. rewrite P, upd_same, K', Wk. repeat split; auto.
    + destruct p'; cbn in H |- *; discriminate.
    + intros Hin. apply T2 in Hin. apply T1 in K. destruct (pcs s t); cbn in K, Hin; discriminate.
    + destruct p'; cbn in H, H0; discriminate.
    + destruct p'; cbn in H, H0; discriminate.
  - apply (thread_other s _ t u N (T u)); [rewrite P; apply upd_other; exact N | rewrite K, K'; tauto | rewrite Wk; tauto].
Qed.

Lemma step_pop s t o s' : Inv s -> pcs s t = PW_pop o -> gstep s t = Some s' -> Inv s'.
Proof.
  intros I Hpc B. unfold gstep in B. rewrite Hpc in B.
  assert (o = OWN) by (apply (owned_is_OWN s t); [exact I | rewrite Hpc; reflexivity]). subst o.
  destruct I as [[r G] T].
  pose proof (holder s t (T t)) as K. rewrite Hpc in K. specialize (K eq_refl).
  destruct G. unfold inflight in *. rewrite K in *. rewrite Hpc in *. cbn [locked_pc inflight_pc running_pc app] in *.
  destruct (lst s) as [|e [|e2 l']] eqn:L; [discriminate| |].
  - injection B as <-. split.
    + exists r. constructor; sproj; rewrite ?K, ?upd_same; try assumption; try lia.
      * congruence.
      * intros w _ _ E. congruence.
      * unfold inflight; sproj. rewrite K, upd_same. exact g_order0.
    + apply (threads_after_holder_step s _ t (PW_run OWN (e_id e) false)); auto.
      intros o E. injection E as <-. reflexivity.
  - destruct (e_linked e2); [|discriminate]. injection B as <-. split.
    + exists r. constructor; sproj; rewrite ?K, ?upd_same; try assumption; try lia.
      * intros _. left. discriminate.
      * intros w E. injection E as <-. rewrite upd_same. discriminate.
      * unfold inflight; sproj. rewrite K, upd_same. exact g_order0.
    + apply (threads_after_holder_step s _ t (PW_run OWN (e_id e) true)); auto.
      intros o E. injection E as <-. reflexivity.
Qed.

Lemma step_run s t o i m s' : Inv s -> pcs s t = PW_run o i m -> gstep s t = Some s' -> Inv s'.
Proof.
  intros I Hpc B. unfold gstep in B. rewrite Hpc in B. injection B as <-.
  assert (o = OWN) by (apply (owned_is_OWN s t); [exact I | rewrite Hpc; reflexivity]). subst o.
  destruct I as [[r G] T].
  pose proof (holder s t (T t)) as K. rewrite Hpc in K. specialize (K eq_refl).
  destruct G. unfold inflight in *. rewrite K in *. rewrite Hpc in *. cbn [locked_pc inflight_pc running_pc app] in *.
  split.
  - exists r. constructor; sproj; rewrite ?K, ?upd_same; try assumption; try lia; try reflexivity.
    + intros w E. injection E as <-. rewrite upd_same. discriminate.
    + unfold inflight; sproj. rewrite ?K, upd_same. cbn [rev inflight_pc app]. rewrite <- app_assoc. exact g_order0.
  - apply (threads_after_holder_step s _ t (PW_incall OWN i m)); auto.
    intros o E. injection E as <-. reflexivity.
Qed.

Lemma step_incall s t o i m s' : Inv s -> pcs s t = PW_incall o i m -> gstep s t = Some s' -> Inv s'.
Proof.
  intros I Hpc B. unfold gstep in B. rewrite Hpc in B. injection B as <-.
  assert (o = OWN) by (apply (owned_is_OWN s t); [exact I | rewrite Hpc; reflexivity]). subst o.
  destruct I as [[r G] T].
  pose proof (holder s t (T t)) as K. rewrite Hpc in K. specialize (K eq_refl).
  destruct G. unfold inflight in *. rewrite K in *. rewrite Hpc in *. cbn [locked_pc inflight_pc running_pc app] in *.
  split.
  - exists r. constructor; sproj; rewrite ?K, ?upd_same; try assumption; try lia; try reflexivity.
    + intros w E. injection E as <-. rewrite upd_same. discriminate.
    + unfold inflight; sproj. rewrite ?K, upd_same. exact g_order0.
  - apply (threads_after_holder_step s _ t (PW_next OWN m)); auto.
    intros o E. injection E as <-. reflexivity.
Qed.

Lemma step_unlock s t o s' : Inv s -> pcs s t = PW_unlock o -> gstep s t = Some s' -> Inv s'.
Proof.
  intros I Hpc B. unfold gstep in B. rewrite Hpc in B.
  assert (o = OWN) by (apply (owned_is_OWN s t); [exact I | rewrite Hpc; reflexivity]). subst o.
  pose proof I as I'. destruct I' as [[r G] T].
  pose proof (holder s t (T t)) as K. rewrite Hpc in K. specialize (K eq_refl).
  destruct G. unfold inflight in *. rewrite K in *. rewrite Hpc in *. cbn [locked_pc inflight_pc running_pc app] in *.
  destruct g_lock0 as [Vt (O & Ib & Wq)]. pose proof g_wf0 as W. unfold wfr in W.
  assert (En : f_enq r = 1) by (apply g_enq0; discriminate).
  rewrite g_enc0 in B.
  change OWN with (18014398509481984 + 2199023255552 + 2147483648 * 1) in B.
  rewrite (unlock_fields r 1 g_wf0 g_hi0 Ib Wq) in B by lia.
  destruct (Z.eqb_spec (f_d r) 1) as [D|D].
  - (* refused: somebody made the queue dirty; clear the bit and look again *)
    injection B as <-. change (18014398509481984 + 2199023255552 + 2147483648 * 1) with OWN.
    apply Inv_holder_move; rewrite ?Hpc; try reflexivity; auto.
    intros o E. injection E as <-. reflexivity.
  - injection B as <-.
    set (r' := mk 0 0 (f_enq r - 1) 0 0 (f_role r) (f_em r) 0 (f_pb r) 4095 0 0) in *.
    split.
    + exists r'. subst r'. constructor; sproj; unfold mk; cbn [f_tr f_em f_pb f_hi f_role f_enq f_d];
        try assumption; try lia; try reflexivity.
      * apply wfr_mk; lia.
      * rewrite En. split; [discriminate | congruence].
      * unfold free; cbn; auto.
      * intros Hl. right. intros Hw. apply D. apply (g_dirty0 t); auto. rewrite Hpc. reflexivity.
      * discriminate.
    + intros u. destruct (Z.eq_dec u t) as [->|N].
      * unfold thread_inv. sproj. rewrite upd_same. cbn [token_pc locked_pc waker_pc owned_of qos_of orb].
        destruct (T t) as (_ & T2 & _). rewrite Hpc in T2. cbn [waker_pc] in T2.
        repeat split; try discriminate; auto. apply T2.
      * apply (thread_other s _ t u N (T u)); sproj; [apply upd_other; exact N | | tauto].
        rewrite K. split; intros E; [discriminate | injection E as E; congruence].
Qed.

Lemma step_xor s t o s' : Inv s -> pcs s t = PW_xor o -> gstep s t = Some s' -> Inv s'.
Proof.
  intros I Hpc B. unfold gstep in B. rewrite Hpc in B. injection B as <-.
  assert (o = OWN) by (apply (owned_is_OWN s t); [exact I | rewrite Hpc; reflexivity]). subst o.
  destruct I as [[r G] T].
  pose proof (holder s t (T t)) as K. rewrite Hpc in K. specialize (K eq_refl).
  destruct G. unfold inflight in *. rewrite K in *. rewrite Hpc in *. cbn [locked_pc inflight_pc running_pc app] in *.
  pose proof g_wf0 as W. unfold wfr in W.
  unfold DIRTY. rewrite g_enc0. rewrite (xor_dirty_fields r g_wf0).
  set (r' := mk (f_owner r) (f_tr r) (f_enq r) (f_mq r) (f_ov r) (f_role r) (f_em r) (1 - f_d r) (f_pb r) (f_wq r) (f_ib r) (f_hi r)).
  split.
  - exists r'. subst r'. constructor; sproj; rewrite ?K, ?upd_same; unfold mk; cbn [f_tr f_em f_pb f_hi f_role f_enq f_d];
      try assumption; try lia; try reflexivity.
    + apply wfr_mk; lia.
    + intros w E. injection E as <-. rewrite upd_same. discriminate.
    + unfold inflight; sproj. rewrite ?K, upd_same. exact g_order0.
  - apply (threads_after_holder_step s _ t (PW_tail OWN)); auto.
    intros o E. injection E as <-. reflexivity.
Qed.

Theorem step_preserves s a s' : Inv s -> step s a s' -> Inv s'.
Proof.
  intros I H. destruct a as [t c|t|t]; destruct H as [V B].
  - exact (begin_preserves s t c s' I V B).
  - destruct (pcs s t) eqn:Hpc.
    + unfold gstep in B. rewrite Hpc in B. discriminate.
    + eapply step_xchg; eauto.
    + eapply step_link; eauto.
    + eapply step_probe; eauto.
    + eapply step_wake; eauto.
    + eapply step_rootpush; eauto.
    + eapply step_oprobe; eauto.
    + eapply step_owake; eauto.
    + eapply step_lock; eauto.
    + eapply step_tail; eauto.
    + eapply step_head; eauto.
    + eapply step_pop; eauto.
    + eapply step_run; eauto.
    + eapply step_incall; eauto.
    + eapply step_next; eauto.
    + eapply step_unlock; eauto.
    + eapply step_xor; eauto.
  - exact (step_olink s t s' I B).
Qed.

Theorem Inv_reachable rb s : 0 <= rb < 2 -> reach rb s -> Inv s.
Proof.
  intros Hrb. apply invariant_lift.
  - intros s0 ->. apply Inv_init. exact Hrb.
  - intros s1 a s2 I H. exact (step_preserves s1 a s2 I H).
Qed.

(* ---------------------------------------------------------------- what the invariant says to a client *)
(* the drain lock is exclusive: two threads inside the locked region are the same thread *)
Theorem lock_exclusive rb s t1 t2 :
  0 <= rb < 2 -> reach rb s -> locked_pc (pcs s t1) = true -> locked_pc (pcs s t2) = true -> t1 = t2.
Proof.
  intros Hrb R L1 L2. destruct (Inv_reachable rb s Hrb R) as [_ T].
  pose proof (holder s t1 (T t1)) as K1. pose proof (holder s t2 (T t2)) as K2.
  unfold token_pc in K1, K2. rewrite L1 in K1. rewrite L2 in K2. specialize (K1 eq_refl). specialize (K2 eq_refl). congruence.
Qed.

(* at most one work item of the lane is inside its callout, and the ghost "running" names it *)
Theorem callouts_exclusive rb s t1 t2 o1 i1 m1 o2 i2 m2 :
  0 <= rb < 2 -> reach rb s -> pcs s t1 = PW_incall o1 i1 m1 -> pcs s t2 = PW_incall o2 i2 m2 ->
  t1 = t2 /\ i1 = i2 /\ running s = Some (t1, i1).
Proof.
  intros Hrb R P1 P2.
  assert (E : t1 = t2) by (apply (lock_exclusive rb s t1 t2 Hrb R); [rewrite P1 | rewrite P2]; reflexivity).
  subst t2. rewrite P1 in P2. injection P2 as _ <- _. repeat split.
  destruct (Inv_reachable rb s Hrb R) as [[r G] T]. destruct G.
  pose proof (holder s t1 (T t1)) as K. rewrite P1 in K. specialize (K eq_refl).
  rewrite g_running0, K, P1. reflexivity.
Qed.

Lemma prefix_nodup {A} (l1 l2 l : list A) : l1 ++ l2 = l -> NoDup l -> NoDup l1.
Proof.
  intros <-. induction l1 as [|a l1 IH]; cbn [app]; intros H; [constructor|].
  inversion H as [|x l' Hx Hl]; subst. constructor; [|apply IH; exact Hl].
  intros Hin. apply Hx. apply in_or_app. left. exact Hin.
Qed.

(* callouts begin in tail-exchange (= submission) order, each item at most once, and only submitted items *)
Theorem started_in_order rb s :
  0 <= rb < 2 -> reach rb s ->
  exists rest, zrange (nextid s) = rev (started s) ++ rest /\ NoDup (started s) /\
               (forall i, In i (started s) -> 0 <= i < nextid s).
Proof.
  intros Hrb R. destruct (Inv_reachable rb s Hrb R) as [[r G] T]. destruct G.
  exists (inflight s ++ map e_id (lst s)). split; [symmetry; exact g_order0|].
  assert (ND : NoDup (rev (started s))) by (apply (prefix_nodup _ _ _ g_order0), zrange_nodup).
  split.
  - apply NoDup_rev in ND. rewrite rev_involutive in ND. exact ND.
  - intros i Hi. apply in_zrange. rewrite <- g_order0. apply in_or_app. left. apply in_rev in Hi. exact Hi.
Qed.

(* the k-th callout to begin is item k *)
Corollary kth_started_is_k rb s k :
  0 <= rb < 2 -> reach rb s -> (k < length (started s))%nat -> nth k (rev (started s)) (-1) = Z.of_nat k.
Proof.
  intros Hrb R Hk. destruct (started_in_order rb s Hrb R) as (rest & E & _ & _).
  assert (Hk' : (k < length (rev (started s)))%nat) by (rewrite rev_length; exact Hk).
  rewrite <- (app_nth1 (rev (started s)) rest (-1) Hk'). rewrite <- E. unfold zrange.
  assert (Hlen : (length (rev (started s)) <= length (zrange (nextid s)))%nat) by (rewrite E, app_length; lia).
  unfold zrange in Hlen. rewrite map_length, seq_length in Hlen.
  replace (-1) with (Z.of_nat 0 - 1) by reflexivity.
  change (Z.of_nat 0 - 1) with (-1).
  rewrite (nth_indep _ (-1) (Z.of_nat 0)) by (rewrite map_length, seq_length; lia).
  rewrite map_nth. rewrite seq_nth by lia. reflexivity.
Qed.

(* nothing is stranded: when no thread is inside an API call or a drain, a non-empty lane sits in its target
   queue (a worker of that queue can pick it up: `begin (CWorker _)` is enabled) *)
Definition quiescent (s : gst) : Prop := forall t, pcs s t = Idle.

Theorem not_stranded rb s :
  0 <= rb < 2 -> reach rb s -> quiescent s -> lst s <> [] -> rootq s = 1 /\ token s = Some None.
Proof.
  intros Hrb R Q L. destruct (Inv_reachable rb s Hrb R) as [[r G] T]. destruct G.
  assert (Wk : wakers s = []).
  { destruct (wakers s) as [|w l] eqn:E; [reflexivity|]. destruct (T w) as (_ & T2 & _). rewrite Q in T2.
    assert (In w (wakers s)) by (rewrite E; left; reflexivity). apply T2 in H. discriminate. }
  destruct (g_nostrand0 L) as [H|H]; [|congruence].
  destruct (token s) as [[w|]|] eqn:K; [| split; [rewrite g_rootq0; reflexivity | reflexivity] | congruence].
  destruct (T w) as (T1 & _). rewrite Q in T1. assert (token_pc Idle = true) by (apply T1; exact K). discriminate.
Qed.

(* ... and when moreover the lane is not enqueued anywhere, every submitted item has run, in order *)
Theorem quiescent_all_done rb s :
  0 <= rb < 2 -> reach rb s -> quiescent s -> rootq s = 0 ->
  lst s = [] /\ rev (started s) = zrange (nextid s) /\ running s = None.
Proof.
  intros Hrb R Q Z0.
  assert (L : lst s = []).
  { destruct (lst s) eqn:E; [reflexivity|]. assert (lst s <> []) by congruence.
    destruct (not_stranded rb s Hrb R Q H). lia. }
  destruct (Inv_reachable rb s Hrb R) as [[r G] T]. destruct G. split; [exact L|].
  assert (NH : forall w, token s <> Some (Some w)).
  { intros w K. destruct (T w) as (T1 & _). rewrite Q in T1. assert (token_pc Idle = true) by (apply T1; exact K). discriminate. }
  split.
  - rewrite <- g_order0, L. unfold inflight. destruct (token s) as [[w|]|] eqn:K; [exfalso; apply (NH w); reflexivity| |];
      cbn [map app]; rewrite app_nil_r; reflexivity.
  - rewrite g_running0. destruct (token s) as [[w|]|] eqn:K; [exfalso; apply (NH w); reflexivity| |]; reflexivity.
Qed.
