(* SLane_proofs.v — invariants of the serial-lane model (Model/SLane.v): any number of pushers and workers, any
   interleaving.  The word-level facts come from Proofs/Lane_fields.v (specifications of the generated bodies). *)
From Coq Require Import ZArith Bool List Lia.
From Verif Require Import Word Bits Fields DqFields Conc Gen_consts Gen_dqstate Lane_fields SLane.
Import ListNotations.
Local Open Scope Z_scope.

Definition OWN := 18014398509481984 + 2199023255552 + 2147483648.

Definition locked_pc (p : pc) : bool :=
  match p with
  | PW_tail _ | PW_head _ | PW_pop _ | PW_run _ _ _ | PW_incall _ _ _ | PW_next _ _ | PW_unlock _ | PW_xor _ => true
  | _ => false
  end.
Definition token_pc (p : pc) : bool :=
  locked_pc p || match p with PW_lock _ | PA_rootpush => true | _ => false end.
Definition waker_pc (p : pc) : bool :=
  match p with PA_link _ true _ | PA_probe _ | PA_wake _ _ => true | _ => false end.
Definition unlocking_pc (p : pc) : bool := match p with PW_unlock _ | PW_xor _ => true | _ => false end.
Definition owned_of (p : pc) : option Z :=
  match p with
  | PW_tail o | PW_head o | PW_pop o | PW_run o _ _ | PW_incall o _ _ | PW_next o _ | PW_unlock o | PW_xor o => Some o
  | _ => None
  end.
Definition qos_of (p : pc) : option Z :=
  match p with PA_xchg q | PA_link _ _ q | PA_probe q | PA_wake q _ => Some q | _ => None end.

Definition thread_inv (s : gst) (t : Z) : Prop :=
  (token_pc (pcs s t) = true <-> token s = Some (Some t)) /\
  (waker_pc (pcs s t) = true <-> In t (wakers s)) /\
  (forall o, owned_of (pcs s t) = Some o -> o = OWN) /\
  (forall q, qos_of (pcs s t) = Some q -> 0 <= q < 8).

Definition free (r : dqf) : Prop := f_owner r = 0 /\ f_ib r = 0 /\ f_wq r = 4095.
Definition held (r : dqf) (w : Z) : Prop := f_owner r = w /\ f_ib r = 1 /\ f_wq r = 4096.

Definition inflight (s : gst) : list Z :=
  match token s with
  | Some (Some w) => match pcs s w with PW_run _ i _ => [i] | _ => [] end
  | _ => []
  end.

Definition zrange (n : Z) : list Z := map Z.of_nat (seq 0 (Z.to_nat n)).

Definition ginv (s : gst) : Prop :=
  exists r, st s = enc r /\ wfr r /\
    f_tr r = 0 /\ f_em r = 0 /\ f_pb r = 0 /\ f_hi r = 0 /\ f_role r < 2 /\
    (f_enq r = 1 <-> token s <> None) /\
    rootq s = (match token s with Some None => 1 | _ => 0 end) /\
    (match token s with
     | Some (Some w) => valid_tid w /\ (if locked_pc (pcs s w) then held r w else free r)
     | _ => free r
     end) /\
    (lst s <> [] -> token s <> None \/ wakers s <> []) /\
    (forall w, token s = Some (Some w) -> unlocking_pc (pcs s w) = true -> lst s <> [] -> wakers s = [] -> f_d r = 1) /\
    NoDup (wakers s) /\
    0 <= nextid s /\
    rev (started s) ++ inflight s ++ map e_id (lst s) = zrange (nextid s) /\
    running s = (match token s with
                 | Some (Some w) => match pcs s w with PW_incall _ i _ => Some (w, i) | _ => None end
                 | _ => None
                 end).

Definition Inv (s : gst) : Prop := ginv s /\ forall t, thread_inv s t.

Lemma Inv_init rb : 0 <= rb < 2 -> Inv (init_state rb).
Proof.
  intros Hrb. split.
  - exists (mk 0 0 0 0 0 rb 0 0 0 4095 0 0). unfold init_state; cbn [st token rootq lst wakers started nextid running pcs].
    split; [rewrite enc_linear; unfold mk; cbn; rewrite Z.shiftl_mul_pow2 by lia; change (2^41) with 2199023255552; lia|].
    split; [unfold wfr, mk; cbn; repeat split; lia|].
    unfold mk; cbn. repeat split; try lia; try congruence; try (intros; congruence); try constructor.
    unfold free; cbn; auto.
  - intros t. unfold thread_inv, init_state; cbn. repeat split; intros; try discriminate; try contradiction.
Qed.
