(* SyncOrder_example.v — the overtake defect fixed by libdispatch 43b9c73, replayed in the model.
   Schedule (threads: 6 = the client V, 5 = another client U, 8 = a root-queue worker O), as in harness/c04_overtake.c:
     V   dispatch_async(z0): first item, wakeup, the lane goes to the root queue               (call 0)
     O   locks the lane, runs z0, finds the list empty, loads dq_state for drain_try_unlock (max_qos still set)
     U   dispatch_async(x1): exchanges dq_items_tail (list was empty: U owes the wakeup) and stalls  (call 1)
     V   dispatch_async(x2): list not empty, _dispatch_queue_need_override false: no wakeup; the call RETURNS  (call 2)
     O   the unlock commits: dq_state is the idle word although x1 and x2 are on the list
     V   dispatch_sync(b)                                                                          (call 3)
   With the fast path as it was (tstep_old: compare-exchange from the idle word alone) b's callout begins while x2 --
   submitted earlier BY THE SAME THREAD, its call returned -- has not run: order_ok fails (overtake_old_fast_path).
   With the tail test (tstep) the same prefix is a run of the model, the fast path is refused at S_ftail (the plain read
   of dq_items_tail sees x2), b's context is queued behind x1 and x2, and the run completes in order
   (overtake_refused_with_tail_test); by SyncOrder_proofs.v this holds for every run. *)
From Coq Require Import ZArith Bool List Lia.
From Verif Require Import Word Conc Gen_consts Gen_dqstate Gen_lanesites SyncWait SyncWait_word SyncWait_inv SyncWait_proofs
  SyncWait_example SyncOrder SyncOrder_proofs.
Import ListNotations.
Local Open Scope Z_scope.

Lemma xrun_xreach tr : forall s h s' h', xreach s h -> Forall (fun x : Z * (gst -> event) => valid_tid (fst x)) tr ->
  xrun_with tstep s h tr = Some (s', h') -> xreach s' h'.
Proof.
  induction tr as [|[t f] tr IH]; intros s h s' h' X V H; cbn [xrun_with] in H.
  - injection H as <- <-. exact X.
  - inversion V as [|? ? Vt Vl]; subst. cbn [fst] in Vt.
    change (gstep_with tstep s t (f s)) with (gstep s t (f s)) in H.
    destruct (gstep s t (f s)) as [s1|] eqn:E; [|discriminate H].
    apply (IH s1 (hstep_with tstep s h t (f s))); auto. exact (xr_step s h t (f s) s1 X Vt E).
Qed.

Definition ot_prefix : list (Z * (gst -> event)) :=
  [ (6, e_call 4); (6, e_xchgt 1000); (6, e_storeh 1000); (6, e_loadt); (6, e_loadq); (6, e_casq 3 (fun v => b_wakeup 3 v 4));
    (6, e_tau 0); (6, e_ret);
    (8, e_loadq); (8, e_casq 2 (b_lock 8 7)); (8, e_tau 1); (8, e_loadh); (8, e_loadq); (8, e_storeh 0); (8, e_cast 1);
    (8, e_begin 0); (8, e_end 0); (8, e_tau 0); (8, e_loadq);
    (5, e_call 4); (5, e_xchgt 2000);
    (6, e_call 4); (6, e_xchgt 3000); (6, e_tau 0); (6, e_ret);
    (8, e_casq 3 (b_dunlock OWN));
    (6, e_call 1) ].
(* the old fast path: load, compare-exchange from the idle word, callout *)
Definition ot_old : list (Z * (gst -> event)) := [ (6, e_loadq); (6, e_casq 2 (b_fast 6)); (6, e_begin 6) ].
(* with the tail test: slow path; U goes on, a worker runs x1, x2 and hands the lane to V, which runs b *)
Definition ot_new : list (Z * (gst -> event)) :=
  [ (6, e_tau 1); (6, e_loadq); (6, e_xchgt 4000); (6, e_tau 0); (6, e_sub 6); (6, e_eload 6); (6, e_fwait 6);
    (5, e_storeh 2000); (5, e_loadt); (5, e_loadq); (5, e_casq 3 (fun v => b_wakeup 3 v 4)); (5, e_tau 0); (5, e_ret);
    (8, e_loadq); (8, e_casq 2 (b_lock 8 7)); (8, e_tau 1); (8, e_loadh); (8, e_loadq); (8, e_storeh 3000);
    (8, e_begin 0); (8, e_end 0); (8, e_loadq); (8, e_storeh 4000); (8, e_begin 0); (8, e_end 0);
    (8, e_loadq); (8, e_storeh 0); (8, e_cast 1); (8, e_loadq); (8, e_casq 3 (fun v => b_dbw ENQ v 6)); (8, e_add 6); (8, e_fwake 6);
    (6, e_fret 6); (6, e_eload 6); (6, e_begin 6); (6, e_end 6); (6, e_tau 0); (6, e_loadq); (6, e_casq 3 (fun v => b_cbc 0 v 0));
    (6, e_ret) ].

(* the defect: on the old fast path, b (call 3) starts although x2 (call 2, same thread, returned) has not run *)
Theorem overtake_old_fast_path :
  exists s h, xrun_with tstep_old init_state h0 (ot_prefix ++ ot_old) = Some (s, h) /\
    caller h 2 = 6 /\ caller h 3 = 6 /\ In 2 (returned h) /\ In 2 (pre h 3) /\
    In 3 (started h) /\ ~ In 2 (finished h) /\ ~ In 2 (started h) /\ running s = Some 6 /\
    length (lst s) = 2%nat /\ ~ order_ok h.
Proof.
  destruct (xrun_with tstep_old init_state h0 (ot_prefix ++ ot_old)) as [[s h]|] eqn:E; [|vm_compute in E; discriminate E].
  exists s, h. split; [reflexivity|]. vm_compute in E. injection E as <- <-.
  assert (N : ~ In 2 [0]) by (intros [X|[]]; discriminate X).
  repeat split; try (vm_compute; tauto); try exact N.
  - cbn. intros [X|[X|[]]]; discriminate X.
  - intros O. apply N. apply (O 3); cbn; tauto.
Qed.

(* just before V's dispatch_sync: dq_state is the idle word, two items are queued *)
Theorem overtake_idle_word_with_items :
  exists s h, xrun_with tstep init_state h0 ot_prefix = Some (s, h) /\ xreach s h /\
    st s = init_word /\ holder s = None /\ length (lst s) = 2%nat /\ pcs s 6 = S_ftail KS /\
    (* the fast path is refused: the plain read of dq_items_tail cannot see an empty list *)
    gstep s 6 (tau 0) = None.
Proof.
  destruct (xrun_with tstep init_state h0 ot_prefix) as [[s h]|] eqn:E; [|vm_compute in E; discriminate E].
  exists s, h. split; [reflexivity|]. split.
  - apply (xrun_xreach ot_prefix init_state h0); [constructor| |exact E].
    unfold ot_prefix. repeat (constructor; [cbn; unfold valid_tid, OWNER_MASK, DLOCK_OWNER_MASK; lia|]). constructor.
  - vm_compute in E. injection E as <- <-. vm_compute. repeat split.
Qed.

(* with the tail test the run goes through the slow path and every item starts after what had returned before it *)
Theorem overtake_refused_with_tail_test :
  exists s h, xrun_with tstep init_state h0 (ot_prefix ++ ot_new) = Some (s, h) /\ xreach s h /\
    started h = [3; 2; 1; 0] /\ finished h = [3; 2; 1; 0] /\ order_okb h = true /\ st s = init_word /\ lst s = [] /\
    pcs s 6 = Idle.
Proof.
  destruct (xrun_with tstep init_state h0 (ot_prefix ++ ot_new)) as [[s h]|] eqn:E; [|vm_compute in E; discriminate E].
  exists s, h. split; [reflexivity|]. split.
  - apply (xrun_xreach (ot_prefix ++ ot_new) init_state h0); [constructor| |exact E].
    unfold ot_prefix, ot_new. cbn [app].
    repeat (constructor; [cbn; unfold valid_tid, OWNER_MASK, DLOCK_OWNER_MASK; lia|]). constructor.
  - vm_compute in E. injection E as <- <-. vm_compute. repeat split.
Qed.

Lemma overtake_fixed :
  (exists s h, xrun_with tstep init_state h0 ot_prefix = Some (s, h) /\ xreach s h /\
     st s = init_word /\ holder s = None /\ length (lst s) = 2%nat /\ pcs s 6 = S_ftail KS /\ gstep s 6 (tau 0) = None) /\
  (exists s h, xrun_with tstep init_state h0 (ot_prefix ++ ot_new) = Some (s, h) /\ xreach s h /\
     started h = [3; 2; 1; 0] /\ finished h = [3; 2; 1; 0] /\ order_okb h = true /\ st s = init_word /\ lst s = [] /\
     pcs s 6 = Idle).
Proof. exact (conj overtake_idle_word_with_items overtake_refused_with_tail_test). Qed.
