(* MainQ_steps4.v — preservation of the invariant of Model/MainQ.v by the steps of a synchronous caller
   (dispatch_sync_f / dispatch_async_and_wait_f onto the thread-bound main queue from another thread). *)
From Coq Require Import ZArith Bool List Lia.
From Verif Require Import Word Bits Fields DqFields Conc Gen_consts Gen_dqstate Lane_fields SLane SLane_proofs SLane_progress
  MainQ MainQ_fields MainQ_inv MainQ_frames MainQ_steps1 MainQ_steps2.
Import ListNotations.
Local Open Scope Z_scope.

(* synchronous calls are in flight only while the queue is thread-bound and dispatch_main() has not been called *)
Lemma sync_pre s t : Inv s -> In t (syncers s) -> c_lane (mcl s) = false /\ c_clean (mcl s) = false.
Proof.
  intros (T & Y & V & G) Hin. destruct (c_lane (mcl s)).
  - destruct G as [_ G2]. rewrite (b_sync s G2) in Hin. contradiction.
  - split; [reflexivity|]. destruct G as [r G]. destruct (c_clean (mcl s)) eqn:C; [|reflexivity].
    rewrite (a_nosync s r G C) in Hin. contradiction.
Qed.

Ltac sync_open I Hpc T1 T2 T3 T4 T5 T6 CL CC Hlp :=
  let T := fresh "T" in
  pose proof I as (T & _);
  match type of Hpc with mpcs ?s ?t = _ =>
    destruct (T t) as (T1 & T2 & T3 & T4 & T5 & T6); rewrite Hpc in T3, T4, T5;
    assert (Hin : In t (syncers s)) by (apply T5; reflexivity);
    destruct (sync_pre s t I Hin) as [CL CC];
    pose proof (lane_of_plain s t _ I Hpc Logic.I) as Hlp
  end; clear T.

Lemma step_MS_prep s t q s' : Inv s -> mpcs s t = MS_prep q -> mstep s t = Some s' -> Inv s'.
Proof.
  intros I Hpc B. unfold mstep in B. rewrite Hpc in B.
  destruct (wait_prepare_loop 0 (st (lane s))); try discriminate. injection B as <-.
  sync_open I Hpc T1 T2 T3 T4 T5 T6 CL CC Hlp.
  set (w' := {| w_dte := 0; w_wok := false; w_null := false; w_sigd := false; w_item := w_item (ws s t) |}).
  apply (Inv_ext (set_mpc (set_syncers (set_ws (set_lane s (set_wakers (set_pc (lane s) t (PA_xchg q))
           (if false then remove_z t (wakers (lane s)) else wakers (lane s)))) t w') (syncers s)) t (MP_push KWait))).
  { msim_tac. }
  apply (Inv_local_pre s t (PA_xchg q) false (MP_push KWait) w' (syncers s) I CL); rewrite ?Hpc, ?Hlp; try reflexivity;
    try (intros; discriminate); try tauto;
    try (intros C0; rewrite C0 in CC; discriminate); try (cbn [sync_pc kont]; tauto).
  - unfold sinv. cbv zeta. mproj. lproj. rewrite !upd_same. cbn [stage w_dte w_null w_sigd w'].
    repeat split; intros; try lia; try discriminate.
  - intros i P. exfalso. apply (not_parked_stage s t i P). rewrite Hpc, Hlp. cbn. lia.
Qed.

Lemma mod32_dec x : 0 <= x < 4294967296 -> (x - 1) mod 4294967296 = if x =? 0 then MAXV else x - 1.
Proof.
  intros H. destruct (Z.eqb_spec x 0) as [->|N]; [reflexivity|]. apply Z.mod_small. lia.
Qed.

Lemma step_MS_dec s t s' : Inv s -> mpcs s t = MS_dec -> mstep s t = Some s' -> Inv s'.
Proof.
  intros I Hpc B. unfold mstep in B. rewrite Hpc in B. injection B as <-.
  sync_open I Hpc T1 T2 T3 T4 T5 T6 CL CC Hlp.
  unfold sinv in T6. rewrite Hpc, Hlp in T6. cbn [stage] in T6. destruct T6 as (S2 & S3 & S4 & S5 & S6).
  specialize (S3 eq_refl).
  set (v := (w_dte (ws s t) - 1) mod 4294967296).
  assert (Ev : v = if w_sigd (ws s t) then 0 else MAXV).
  { unfold v. rewrite S3. destruct (w_sigd (ws s t)); reflexivity. }
  set (p' := if v =? 0 then MS_woken else MS_load).
  apply (Inv_ext (set_mpc (set_syncers (set_ws (set_lane s (set_wakers (set_pc (lane s) t (pcs (lane s) t))
           (if false then remove_z t (wakers (lane s)) else wakers (lane s)))) t (wset_dte (ws s t) v)) (syncers s)) t p')).
  { msim_tac. }
  apply (Inv_local_pre s t (pcs (lane s) t) false p' (wset_dte (ws s t) v) (syncers s) I CL); rewrite ?Hpc, ?Hlp; try reflexivity;
    try (intros; discriminate); try tauto;
    try (intros C0; rewrite C0 in CC; discriminate); try (cbn [sync_pc kont]; tauto).
  - subst p'. destruct (v =? 0); reflexivity.
  - subst p'. destruct (v =? 0); intros; discriminate.
  - subst p'. destruct (v =? 0); intros; discriminate.
  - subst p'. destruct (v =? 0); cbn [sync_pc kont]; tauto.
  - unfold sinv. cbv zeta. mproj. lproj. rewrite !upd_same, ?Hlp. cbn [w_dte w_null w_sigd w_item wset_dte]. subst p'. rewrite Ev.
    destruct (w_sigd (ws s t)) eqn:Sg; cbn [Z.eqb stage MAXV]; repeat split; intros; try lia; try discriminate; try reflexivity;
      try (apply S6; [lia | assumption]).
  - intros i (P1 & P2 & P3). rewrite Hpc, Hlp in P1. cbn [stage] in P1. unfold parked. mproj. lproj. rewrite !upd_same, ?Hlp.
    subst p'. rewrite Ev, P3. cbn [Z.eqb MAXV stage w_item w_sigd w_null wset_dte]. repeat split; try lia; assumption.
  - subst p'. destruct (v =? 0); reflexivity.
Qed.

Lemma step_MS_load_woken s t s' :
  Inv s -> mpcs s t = MS_load -> (w_dte (ws s t) =? 0) = true -> mstep s t = Some s' -> Inv s'.
Proof.
  intros I Hpc Hd B. unfold mstep in B. rewrite Hpc, Hd in B. injection B as <-.
  sync_open I Hpc T1 T2 T3 T4 T5 T6 CL CC Hlp. apply Z.eqb_eq in Hd.
  unfold sinv in T6. rewrite Hpc, Hlp in T6. cbn [stage] in T6. destruct T6 as (S2 & S3 & S4 & S5 & S6).
  specialize (S4 eq_refl).
  assert (Sg : w_sigd (ws s t) = true) by (destruct (w_sigd (ws s t)); [reflexivity | rewrite Hd in S4; discriminate]).
  apply (Inv_ext (set_mpc (set_syncers (set_ws (set_lane s (set_wakers (set_pc (lane s) t (pcs (lane s) t))
           (if false then remove_z t (wakers (lane s)) else wakers (lane s)))) t (ws s t)) (syncers s)) t MS_woken)).
  { msim_tac. }
  apply (Inv_local_pre s t (pcs (lane s) t) false MS_woken (ws s t) (syncers s) I CL); rewrite ?Hpc, ?Hlp; try reflexivity;
    try (intros; discriminate); try tauto;
    try (intros C0; rewrite C0 in CC; discriminate); try (cbn [sync_pc kont]; tauto).
  - unfold sinv. cbv zeta. mproj. lproj. rewrite !upd_same, ?Hlp. cbn [stage].
    repeat split; intros; try lia; try discriminate; try assumption; apply S6; (lia || assumption).
  - intros i (P1 & P2 & P3). congruence.
Qed.

Lemma step_MS_load s t s' : Inv s -> mpcs s t = MS_load -> mstep s t = Some s' -> Inv s'.
Proof.
  intros I Hpc B. destruct (w_dte (ws s t) =? 0) eqn:Hd.
  - exact (step_MS_load_woken s t s' I Hpc Hd B).
  - exact (step_MS_load_futex s t s' I Hpc Hd B).
Qed.

Lemma step_MS_futex s t s' : Inv s -> mpcs s t = MS_futex -> mstep s t = Some s' -> Inv s'.
Proof.
  intros I Hpc B. destruct (w_dte (ws s t) =? MAXV) eqn:Hd; [|exact (step_MS_futex_again s t s' I Hpc Hd B)].
  unfold mstep in B. rewrite Hpc, Hd in B. injection B as <-.
  sync_open I Hpc T1 T2 T3 T4 T5 T6 CL CC Hlp.
  unfold sinv in T6. rewrite Hpc, Hlp in T6. cbn [stage] in T6.
  apply (Inv_ext (set_mpc (set_syncers (set_ws (set_lane s (set_wakers (set_pc (lane s) t (pcs (lane s) t))
           (if false then remove_z t (wakers (lane s)) else wakers (lane s)))) t (wset_wok (ws s t) false)) (syncers s)) t MS_sleep)).
  { msim_tac. }
  apply (Inv_local_pre s t (pcs (lane s) t) false MS_sleep (wset_wok (ws s t) false) (syncers s) I CL); rewrite ?Hpc, ?Hlp; try reflexivity;
    try (intros; discriminate); try tauto;
    try (intros C0; rewrite C0 in CC; discriminate); try (cbn [sync_pc kont]; tauto).
  - unfold sinv. cbv zeta. mproj. lproj. rewrite !upd_same, ?Hlp. cbn [stage w_dte w_null w_sigd w_item wset_wok]. exact T6.
  - intros i (P1 & P2 & P3). rewrite Hpc, Hlp in P1. unfold parked. mproj. lproj. rewrite !upd_same, ?Hlp.
    cbn [stage w_item w_sigd w_null wset_wok] in *. repeat split; try lia; assumption.
Qed.

Lemma step_MS_woken s t s' : Inv s -> mpcs s t = MS_woken -> mstep s t = Some s' -> Inv s'.
Proof.
  intros I Hpc B. unfold mstep in B. rewrite Hpc in B. destruct (w_null (ws s t)); [|discriminate]. injection B as <-.
  sync_open I Hpc T1 T2 T3 T4 T5 T6 CL CC Hlp.
  apply (Inv_ext (set_mpc (set_syncers (set_ws (set_lane s (set_wakers (set_pc (lane s) t (pcs (lane s) t))
           (if false then remove_z t (wakers (lane s)) else wakers (lane s)))) t (ws s t)) (remove_z t (syncers s))) t MIdle)).
  { msim_tac. }
  apply (Inv_local_pre s t (pcs (lane s) t) false MIdle (ws s t) (remove_z t (syncers s)) I CL); rewrite ?Hpc, ?Hlp; try reflexivity;
    try (intros; discriminate); try tauto;
    try (intros C0; rewrite C0 in CC; discriminate); try (cbn [sync_pc kont]; tauto).
  - cbn [sync_pc kont]. rewrite in_remove_z. split; [discriminate | intros [_ E]; congruence].
  - intros u N. rewrite in_remove_z. tauto.
  - unfold sinv. cbv zeta. mproj. lproj. rewrite !upd_same, ?Hlp. cbn [stage kont]. repeat split; intros; try lia; discriminate.
  - intros i P. exfalso. destruct P as (P1 & _). rewrite Hpc, Hlp in P1. cbn [stage] in P1. lia.
Qed.

Lemma step_sync_begin s t aaw q s' : Inv s -> valid_tid t -> mbegin s t (MSync aaw q) = Some s' -> Inv s'.
Proof.
  intros I Vt B. unfold mbegin in B. destruct (pcs (lane s) t) eqn:Hlp; try discriminate.
  destruct (mpcs s t) eqn:Hpc; try discriminate.
  destruct (qos_ok q && negb (t =? mtid s) && negb (mainstarted s)) eqn:C; [|discriminate]. injection B as <-.
  apply andb_true_iff in C as [C C3]. apply andb_true_iff in C as [C1 C2].
  apply negb_true_iff in C2, C3. apply Z.eqb_neq in C2. unfold qos_ok in C1. apply andb_true_iff in C1 as [Q1 Q2].
  apply Z.leb_le in Q1. apply Z.ltb_lt in Q2.
  pose proof I as (T & Y & V & G). destruct (T t) as (T1 & T2 & T3 & T4 & T5 & T6). rewrite Hpc in T3, T4, T5.
  assert (Pre : c_lane (mcl s) = false /\ c_clean (mcl s) = false).
  { destruct (c_lane (mcl s)).
    - destruct G as [_ G2]. rewrite (b_main s G2) in C3. discriminate.
    - split; [reflexivity|]. destruct G as [r G]. rewrite <- (a_main s r G). exact C3. }
  destruct Pre as [CL CC].
  set (p' := if aaw then MS_aaw q else MS_fast q).
  apply (Inv_ext (set_mpc (set_syncers (set_ws (set_lane s (set_wakers (set_pc (lane s) t (pcs (lane s) t))
           (if false then remove_z t (wakers (lane s)) else wakers (lane s)))) t (ws s t)) (t :: syncers s)) t p')).
  { msim_tac. }
  apply (Inv_local_pre s t (pcs (lane s) t) false p' (ws s t) (t :: syncers s) I CL); rewrite ?Hpc, ?Hlp; try reflexivity;
    try (intros; discriminate); try tauto;
    try (intros C0; rewrite C0 in CC; discriminate); subst p'.
  - destruct aaw; reflexivity.
  - destruct aaw; intros; discriminate.
  - destruct aaw; intros q0 E; injection E as <-; lia.
  - destruct aaw; cbn [sync_pc In]; tauto.
  - intros u N. cbn [In]. split; [intros [E|E]; [congruence|exact E] | auto].
  - unfold sinv. cbv zeta. mproj. lproj. rewrite !upd_same, ?Hlp. destruct aaw; cbn [stage]; repeat split; intros; try lia; discriminate.
  - intros i P. exfalso. destruct P as (P1 & _). rewrite Hpc, Hlp in P1. cbn [stage kont] in P1. lia.
  - destruct aaw; reflexivity.
Qed.
