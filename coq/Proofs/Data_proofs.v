(* Data_proofs.v — theorems about Model/Data.v (C13).  Structural induction over record lists / operation
   histories: no bound on depth, fragmentation, sizes; offsets and lengths range over all of size_t. *)
From Coq Require Import ZArith List Bool Lia Permutation.
From Verif Require Import Word Data.
Import ListNotations.
Local Open Scope Z_scope.

(* ================================================================= slices *)
Section Slices.
Context {A : Type}.
Implicit Types a b buf : list A.

Lemma skipn_skipn_add : forall buf m n, skipn m (skipn n buf) = skipn (n + m) buf.
Proof.
  induction buf as [|x t IH]; intros m n.
  - now rewrite !skipn_nil.
  - destruct n as [|n]; [reflexivity|]. simpl. apply IH.
Qed.

Definition nslice buf (m n : nat) : list A := firstn n (skipn m buf).

Lemma nslice_app : forall a b m n,
  nslice (a ++ b) m n = nslice a m n ++ nslice b (m - length a) (n - (length a - m)).
Proof.
  intros. unfold nslice. rewrite skipn_app, firstn_app, skipn_length. reflexivity.
Qed.

Lemma nslice_nslice : forall buf f k m n, (m + n <= k)%nat ->
  nslice (nslice buf f k) m n = nslice buf (f + m) n.
Proof.
  intros. unfold nslice. rewrite skipn_firstn_comm, firstn_firstn, skipn_skipn_add.
  f_equal. lia.
Qed.

Lemma nslice_length : forall buf m n, (m + n <= length buf)%nat -> length (nslice buf m n) = n.
Proof. intros. unfold nslice. rewrite firstn_length, skipn_length. lia. Qed.

Lemma nslice_all : forall buf n, (length buf <= n)%nat -> nslice buf 0 n = buf.
Proof. intros. unfold nslice. rewrite skipn_O. now apply firstn_all2. Qed.

Lemma nslice_none : forall buf m n, (length buf <= m)%nat -> nslice buf m n = [].
Proof. intros. unfold nslice. rewrite skipn_all2 by assumption. apply firstn_nil. Qed.

Lemma nslice_zero : forall buf m, nslice buf m 0 = [].
Proof. reflexivity. Qed.

Lemma nslice_clamp : forall buf m n n', (length buf - m <= n)%nat -> (length buf - m <= n')%nat ->
  nslice buf m n = nslice buf m n'.
Proof.
  intros. unfold nslice. rewrite !firstn_all2; try reflexivity; rewrite skipn_length; lia.
Qed.
End Slices.

Lemma slice_nslice : forall (buf : list byte) from len, slice buf from len = nslice buf (Z.to_nat from) (Z.to_nat len).
Proof. reflexivity. Qed.

Lemma slice_length : forall (buf : list byte) from len,
  0 <= from -> 0 <= len -> from + len <= Z.of_nat (length buf) -> Z.of_nat (length (slice buf from len)) = len.
Proof. intros. rewrite slice_nslice, nslice_length; lia. Qed.

Lemma slice_slice : forall (buf : list byte) f k m n, 0 <= f -> 0 <= m -> 0 <= n -> m + n <= k ->
  slice (slice buf f k) m n = slice buf (f + m) n.
Proof.
  intros. rewrite !slice_nslice, nslice_nslice by lia. f_equal. lia.
Qed.

(* a slice that starts beyond the first part *)
Lemma slice_app_r : forall (a b : list byte) off len, Z.of_nat (length a) <= off ->
  slice (a ++ b) off len = slice b (off - Z.of_nat (length a)) len.
Proof.
  intros. rewrite !slice_nslice, nslice_app.
  rewrite (nslice_none a) by lia. simpl.
  replace (length a - Z.to_nat off)%nat with 0%nat by lia. f_equal; lia.
Qed.

(* a slice inside the first part *)
Lemma slice_app_l : forall (a b : list byte) off len, 0 <= off -> off + len <= Z.of_nat (length a) ->
  slice (a ++ b) off len = slice a off len.
Proof.
  intros. rewrite !slice_nslice, nslice_app.
  replace (Z.to_nat len - (length a - Z.to_nat off))%nat with 0%nat by lia.
  rewrite nslice_zero. apply app_nil_r.
Qed.

(* a slice that starts in the first part and goes on *)
Lemma slice_app_cross : forall (a b : list byte) off len n, Z.of_nat (length a) = n -> 0 <= off <= n -> n <= off + len ->
  slice (a ++ b) off len = slice a off (n - off) ++ slice b 0 (len - (n - off)).
Proof.
  intros. rewrite !slice_nslice, nslice_app. f_equal.
  - apply nslice_clamp; lia.
  - f_equal; lia.
Qed.

Lemma slice_all : forall (buf : list byte) len, Z.of_nat (length buf) <= len -> slice buf 0 len = buf.
Proof. intros. rewrite slice_nslice. apply nslice_all. lia. Qed.

Lemma slice_none : forall (buf : list byte) off len, Z.of_nat (length buf) <= off -> slice buf off len = [].
Proof. intros. rewrite slice_nslice. apply nslice_none. lia. Qed.

Lemma slice_zero : forall (buf : list byte) off len, len <= 0 -> slice buf off len = [].
Proof. intros. rewrite slice_nslice. replace (Z.to_nat len) with 0%nat by lia. reflexivity. Qed.

Lemma slice_clamp : forall (buf : list byte) off len len', 0 <= off ->
  Z.of_nat (length buf) - off <= len -> Z.of_nat (length buf) - off <= len' -> slice buf off len = slice buf off len'.
Proof. intros. rewrite !slice_nslice. apply nslice_clamp; lia. Qed.

Lemma read_ok : forall buf from len, 0 <= from -> 0 <= len -> from + len <= Z.of_nat (length buf) ->
  read buf from len = Some (slice buf from len).
Proof.
  intros. unfold read.
  replace (0 <=? from) with true by (symmetry; apply Z.leb_le; lia).
  replace (0 <=? len) with true by (symmetry; apply Z.leb_le; lia).
  replace (from + len <=? Z.of_nat (length buf)) with true by (symmetry; apply Z.leb_le; lia).
  reflexivity.
Qed.

Lemma u64_small : forall x, 0 <= x < M64 -> u64 x = x.
Proof. intros. apply u64_id. unfold M64 in *. lia. Qed.

(* ================================================================= size, denotation of record lists *)
Notation D := (flat_map denote_rec).

Lemma sum_len_app : forall a b, sum_len (a ++ b) = sum_len a + sum_len b.
Proof. induction a; intros; simpl; [reflexivity|]. rewrite IHa. lia. Qed.

Lemma sum_len_nonneg : forall rs, Forall wf_rec rs -> 0 <= sum_len rs.
Proof. induction 1; simpl; [lia|]. destruct H as (_ & _ & ? & _). lia. Qed.

Lemma sum_len_pos : forall rs, Forall wf_rec rs -> rs <> [] -> 0 < sum_len rs.
Proof.
  intros rs H Hn. destruct H; [congruence|]. simpl.
  pose proof (sum_len_nonneg _ H0). destruct H as (_ & _ & ? & _). lia.
Qed.

Lemma denote_rec_length : forall r, wf_rec r -> Z.of_nat (length (denote_rec r)) = r_len r.
Proof.
  intros r (Hl & Hf & Hn & Hb). unfold denote_rec. apply slice_length; unfold leaf_size in Hb; lia.
Qed.

Lemma D_length : forall rs, Forall wf_rec rs -> Z.of_nat (length (D rs)) = sum_len rs.
Proof.
  induction 1; simpl; [reflexivity|].
  rewrite app_length, Nat2Z.inj_add, IHForall, denote_rec_length by assumption. reflexivity.
Qed.

Theorem size_denote : forall d, wf d -> size d = Z.of_nat (length (denote d)).
Proof.
  intros [l | id fl sz recs]; simpl.
  - reflexivity.
  - intros (_ & _ & HF & Hs & _). rewrite D_length by assumption. assumption.
Qed.

Lemma size_nonneg : forall d, wf d -> 0 <= size d < M64.
Proof.
  intros d H. pose proof (size_denote d H). destruct d; simpl in *.
  - destruct H. unfold leaf_size in *. lia.
  - destruct H as (_ & _ & HF & Hs & Hlt & _). lia.
Qed.

Lemma size_zero_empty : forall d, wf d -> size d = 0 -> d = empty.
Proof.
  intros [l | id fl sz recs] H Hz; simpl in *.
  - destruct l as [i bs]. destruct H as [_ [H1 _]]. unfold leaf_size in Hz. simpl in *.
    destruct bs; [|simpl in Hz; lia]. rewrite (H1 eq_refl). reflexivity.
  - destruct H as (_ & Hn & HF & Hs & _). pose proof (sum_len_pos _ HF Hn). lia.
Qed.

Lemma wf_empty : wf empty.
Proof. simpl. split; [vm_compute; reflexivity|]. split; reflexivity. Qed.

Lemma denote_empty : denote empty = [].
Proof. reflexivity. Qed.

(* a leaf seen as one record (concat) *)
Lemma records_of_wf : forall d, wf d -> size d <> 0 -> Forall wf_rec (records_of d).
Proof.
  intros [l | id fl sz recs] H Hz; simpl in *.
  - constructor; [|constructor]. split; [assumption|]. simpl. destruct H. unfold leaf_size in *. lia.
  - tauto.
Qed.

Lemma records_of_denote : forall d, D (records_of d) = denote d.
Proof.
  intros [l | id fl sz recs]; simpl; [|reflexivity].
  rewrite app_nil_r. unfold denote_rec. simpl. apply slice_all. unfold leaf_size. lia.
Qed.

Lemma records_of_sum : forall d, wf d -> sum_len (records_of d) = size d.
Proof.
  intros [l | id fl sz recs] H; simpl in *; [lia|]. destruct H as (_ & _ & _ & Hs & _). congruence.
Qed.

(* ================================================================= concat *)
Theorem denote_concat : forall fresh a b d, wf a -> wf b -> concat fresh a b = Some d ->
  denote d = denote a ++ denote b.
Proof.
  intros fresh a b d Ha Hb. unfold concat.
  destruct (Z.eqb_spec (size a) 0) as [Ea|Ea].
  - intro E; inversion E; subst. rewrite (size_zero_empty a Ha Ea). reflexivity.
  - destruct (Z.eqb_spec (size b) 0) as [Eb|Eb].
    + intro E; inversion E; subst. rewrite (size_zero_empty b Hb Eb). simpl. now rewrite app_nil_r.
    + destruct (M64 <=? size a + size b); [discriminate|]. intro E; inversion E; subst.
      simpl. rewrite flat_map_app, !records_of_denote. reflexivity.
Qed.

Theorem wf_concat : forall fresh a b d, wf a -> wf b -> fresh <> EMPTY_ID -> concat fresh a b = Some d ->
  wf d /\ size d = size a + size b.
Proof.
  intros fresh a b d Ha Hb Hf. unfold concat.
  pose proof (size_nonneg a Ha). pose proof (size_nonneg b Hb).
  destruct (Z.eqb_spec (size a) 0) as [Ea|Ea]; [intro E; inversion E; subst; split; [assumption|lia]|].
  destruct (Z.eqb_spec (size b) 0) as [Eb|Eb]; [intro E; inversion E; subst; split; [assumption|lia]|].
  destruct (Z.leb_spec M64 (size a + size b)); [discriminate|]. intro E; inversion E; subst.
  split; [|reflexivity].
  split; [assumption|]. split.
  - destruct a; simpl; discriminate || (destruct Ha as (_ & Hn & _); destruct recs; [congruence|discriminate]).
  - split; [apply Forall_app; split; apply records_of_wf; assumption|].
    split; [rewrite sum_len_app, !records_of_sum by assumption; reflexivity|].
    split; [simpl; lia|discriminate].
Qed.

(* an object is returned exactly when the total size fits in size_t (or an operand is empty) *)
Theorem concat_total : forall fresh a b, wf a -> wf b ->
  (size a + size b < M64 -> exists d, concat fresh a b = Some d) /\
  (size a <> 0 -> size b <> 0 -> M64 <= size a + size b -> concat fresh a b = None).
Proof.
  intros fresh a b Ha Hb. unfold concat. split.
  - intro Hlt. destruct (size a =? 0); [eauto|]. destruct (size b =? 0); [eauto|].
    destruct (Z.leb_spec M64 (size a + size b)); [lia|eauto].
  - intros Ea Eb Hge. destruct (Z.eqb_spec (size a) 0); [contradiction|]. destruct (Z.eqb_spec (size b) 0); [contradiction|].
    destruct (Z.leb_spec M64 (size a + size b)); [reflexivity|lia].
Qed.

(* ================================================================= subrange *)
Lemma wf_rec_intro : forall l f n, wf_leaf l -> 0 <= f -> 0 < n -> f + n <= leaf_size l -> wf_rec (mkRec l f n).
Proof. intros. unfold wf_rec. simpl. tauto. Qed.

Lemma wf_comp_intro : forall id sz recs, id <> EMPTY_ID -> recs <> [] -> Forall wf_rec recs -> sz = sum_len recs -> sz < M64 ->
  wf (DComp id false sz recs).
Proof. intros. simpl. repeat split; try assumption. discriminate. Qed.

Lemma skip_records_spec : forall recs off, Forall wf_rec recs -> 0 <= off < sum_len recs -> sum_len recs < M64 ->
  exists pre r rest off', skip_records recs off = (r :: rest, off') /\ recs = pre ++ r :: rest /\
     off = sum_len pre + off' /\ 0 <= off' < r_len r.
Proof.
  induction recs as [|r t IH]; intros off HF Hoff Hlt; simpl in *; [lia|].
  inversion HF as [|? ? Hr Ht]; subst. pose proof (sum_len_nonneg _ Ht). destruct Hr as (Hl & Hf & Hn & Hb).
  rewrite Z.geb_leb. destruct (Z.leb_spec (r_len r) off).
  - rewrite u64_small by lia.
    destruct (IH (off - r_len r) Ht ltac:(lia) ltac:(lia)) as (pre & r0 & rest & off' & E & Er & Eo & Hb').
    exists (r :: pre), r0, rest, off'. rewrite E. subst t. simpl. repeat split; try lia. 
  - exists [], r, t, off. simpl. repeat split; lia.
Qed.

Lemma find_last_spec : forall rest c ll, Forall wf_rec rest -> 0 < ll -> ll <= sum_len rest -> sum_len rest < M64 ->
  exists mid rl post ll', find_last rest c ll = Some ((c + S (length mid))%nat, ll') /\ rest = mid ++ rl :: post /\
     ll = sum_len mid + ll' /\ 0 < ll' <= r_len rl.
Proof.
  induction rest as [|r t IH]; intros c ll HF Hll Hle Hlt; simpl in *; [lia|].
  inversion HF as [|? ? Hr Ht]; subst. pose proof (sum_len_nonneg _ Ht). destruct Hr as (Hl & Hf & Hn & Hb).
  destruct (Z.leb_spec ll (r_len r)).
  - exists [], r, t, ll. simpl. repeat split; try lia. f_equal. f_equal. lia.
  - rewrite u64_small by lia. destruct t as [|r2 t]; [simpl in *; lia|].
    destruct (IH (S c) (ll - r_len r) Ht ltac:(lia) ltac:(lia) ltac:(lia)) as (mid & rl & post & ll' & E & Er & Eo & Hb').
    exists (r :: mid), rl, post, ll'. rewrite E. rewrite Er. simpl. repeat split; try lia. f_equal. f_equal. lia.
Qed.

Lemma upd_first_shape : forall off r t, wf_rec r -> 0 <= off < r_len r ->
  exists r', upd_first off (r :: t) = r' :: t /\ wf_rec r' /\ r_len r' = r_len r - off /\ r_obj r' = r_obj r /\
     denote_rec r' = slice (denote_rec r) off (r_len r - off).
Proof.
  intros off r t Hr Ho. pose proof Hr as (Hl & Hf & Hn & Hb). unfold upd_first.
  pose proof Hl as [Hl1 _].
  destruct (Z.eqb_spec off 0).
  - subst. exists r. split; [reflexivity|]. split; [assumption|]. split; [lia|]. split; [reflexivity|].
    unfold denote_rec. rewrite slice_slice by lia. f_equal; lia.
  - eexists. split; [reflexivity|]. rewrite !u64_small by lia.
    split; [apply wf_rec_intro; simpl; try assumption; lia|]. split; [reflexivity|]. split; [reflexivity|].
    unfold denote_rec. simpl. rewrite slice_slice by lia. reflexivity.
Qed.

Lemma set_last_len_snoc : forall ll m y, set_last_len ll (m ++ [y]) = m ++ [mkRec (r_obj y) (r_from y) ll].
Proof.
  induction m as [|x m IH]; intros; simpl; [reflexivity|].
  rewrite IH. destruct (m ++ [y]) eqn:E; [destruct m; discriminate|reflexivity].
Qed.

Lemma firstn_snoc : forall (mid : list rrec) rl post, firstn (S (length mid)) (mid ++ rl :: post) = mid ++ [rl].
Proof. induction mid; intros; simpl; [reflexivity|]. f_equal. apply IHmid. Qed.

Lemma firstn_mid : forall (r : rrec) mid rl post, firstn (1 + S (length mid)) (r :: mid ++ rl :: post) = r :: mid ++ [rl].
Proof. intros. change (1 + S (length mid))%nat with (S (S (length mid))). cbn [firstn]. f_equal. apply firstn_snoc. Qed.

Lemma subrange_leaf_spec : forall fresh l off len, wf_leaf l -> fresh <> EMPTY_ID -> 0 <= off < M64 -> 0 <= len < M64 ->
  exists d', subrange_leaf fresh l off len = Some d' /\ wf d' /\ denote d' = slice (l_bytes l) off len /\
     (forall id, obj_id d' = id -> id = EMPTY_ID \/ id = l_id l \/ id = fresh).
Proof.
  intros fresh l off len Hl Hf Ho Hn. pose proof Hl as [Hl1 Hl2].
  unfold subrange_leaf, subrange_body. cbn [size].
  rewrite Z.geb_leb. destruct (Z.leb_spec (leaf_size l) off); cbn [orb].
  { eexists; split; [reflexivity|]. split; [apply wf_empty|]. split; [|simpl; auto].
    simpl. symmetry. apply slice_none. unfold leaf_size in *; lia. }
  destruct (Z.eqb_spec len 0).
  { eexists; split; [reflexivity|]. split; [apply wf_empty|]. split; [|simpl; auto]. simpl. symmetry. apply slice_zero. lia. }
  cbv zeta. rewrite u64_small by lia. rewrite Z.gtb_ltb.
  destruct (Z.ltb_spec (leaf_size l - off) len); cbn [negb andb].
  - eexists; split; [reflexivity|]. split; [|split; [|simpl; auto]].
    + apply wf_comp_intro; try assumption; try discriminate; [|simpl; lia|lia].
      constructor; [|constructor]. apply wf_rec_intro; try assumption; lia.
    + simpl. rewrite app_nil_r. unfold denote_rec. simpl. apply slice_clamp; unfold leaf_size in *; lia.
  - destruct (Z.eqb_spec len (leaf_size l)).
    + eexists; split; [reflexivity|]. split; [assumption|]. split; [|simpl; auto]. simpl.
      assert (off = 0) by lia. subst off. symmetry. apply slice_all. unfold leaf_size in *. lia.
    + eexists; split; [reflexivity|]. split; [|split; [|simpl; auto]].
      * apply wf_comp_intro; try assumption; try discriminate; [|simpl; lia|lia].
        constructor; [|constructor]. apply wf_rec_intro; try assumption; lia.
      * simpl. rewrite app_nil_r. reflexivity.
Qed.

Lemma subrange_on_leaf : forall fresh l off len, subrange fresh (DLeaf l) off len = subrange_leaf fresh l off len.
Proof.
  intros. unfold subrange, subrange_leaf, subrange_body.
  repeat match goal with |- context [if ?b then _ else _] => destruct b end; reflexivity.
Qed.

Lemma subrange_comp_spec : forall fresh recs sz off len, Forall wf_rec recs -> sz = sum_len recs -> sz < M64 ->
  fresh <> EMPTY_ID -> 0 <= off -> 0 < len -> off + len <= sz ->
  exists d', subrange_comp subrange_leaf fresh sz recs off len = Some d' /\ wf d' /\ denote d' = slice (D recs) off len /\
     (obj_id d' = EMPTY_ID \/ obj_id d' = fresh \/ exists r, In r recs /\ obj_id d' = l_id (r_obj r)).
Proof.
  intros fresh recs sz off len HF Hs Hlt Hf Ho Hn Hle. unfold subrange_comp.
  rewrite (u64_small (off + len)) by lia.
  destruct (skip_records_spec recs off HF ltac:(lia) ltac:(lia)) as (pre & r & rest & off' & E & Er & Eo & Hb').
  rewrite E. subst recs.
  apply Forall_app in HF as [HFp HFr]. inversion HFr as [|? ? Hr HFt]; subst.
  pose proof (sum_len_nonneg _ HFp). pose proof (sum_len_nonneg _ HFt).
  rewrite sum_len_app in *. simpl in Hle, Hlt.
  pose proof Hr as (Hl & Hfr & Hnr & Hbr). pose proof Hl as [Hl1 _].
  rewrite (u64_small (off' + len)) by lia.
  assert (Hspec : slice (D (pre ++ r :: rest)) (sum_len pre + off') len = slice (denote_rec r ++ D rest) off' len).
  { rewrite flat_map_app. rewrite slice_app_r by (rewrite ?D_length by assumption; lia).
    rewrite D_length by assumption. simpl. f_equal. lia. }
  rewrite Hspec.
  destruct (Z.leb_spec (off' + len) (r_len r)).
  - (* everything from a single record: recursion on the leaf *)
    rewrite u64_small by lia.
    destruct (subrange_leaf_spec fresh (r_obj r) (r_from r + off') len Hl Hf ltac:(lia) ltac:(lia)) as (d' & Ed & Hw & Hd & Hid).
    exists d'. split; [assumption|]. split; [assumption|]. split.
    + rewrite Hd. rewrite slice_app_l by (rewrite ?denote_rec_length by assumption; lia).
      unfold denote_rec. rewrite slice_slice by lia. reflexivity.
    + destruct (Hid _ eq_refl) as [?|[?|?]]; [left; assumption| |right; left; assumption].
      right; right. exists r. split; [apply in_or_app; right; left; reflexivity|assumption].
  - destruct (upd_first_shape off' r) with (t := rest) as (r' & Eu & Hwr' & Hlr' & Hor' & Hdr'); [assumption|lia|].
    assert (Hcross : slice (denote_rec r ++ D rest) off' len =
                     slice (denote_rec r) off' (r_len r - off') ++ slice (D rest) 0 (len - (r_len r - off'))).
    { apply slice_app_cross; [apply denote_rec_length; assumption|lia|lia]. }
    rewrite Hcross.
    match goal with |- context [?a =? ?b] => destruct (Z.eqb_spec a b) as [Eend|Eend] end; simpl in Eend.
    + (* to the end *)
      cbv zeta iota beta. rewrite firstn_all. rewrite Eu.
      eexists. split; [reflexivity|]. split; [|split; [|right; left; reflexivity]].
      * apply wf_comp_intro; try assumption; try discriminate; [constructor; assumption|simpl; lia|lia].
      * simpl. rewrite Hdr'. f_equal. symmetry. apply slice_all. rewrite D_length by assumption. lia.
    + rewrite (u64_small (r_len r - off')) by lia. rewrite u64_small by lia.
      destruct (find_last_spec rest 1%nat (len - (r_len r - off')) HFt ltac:(lia) ltac:(lia) ltac:(lia))
        as (mid & rl & post & ll' & Efl & Erest & Ell & Hll').
      cbv zeta iota beta. rewrite Efl. subst rest. rewrite firstn_mid.
      destruct (upd_first_shape off' r) with (t := mid ++ [rl]) as (r'' & Eu2 & _ & _ & _ & _); [assumption|lia|].
      assert (r'' = r').
      { unfold upd_first in Eu, Eu2. destruct (off' =? 0); congruence. }
      subst r''. rewrite Eu2.
      change (r' :: mid ++ [rl]) with ((r' :: mid) ++ [rl]). rewrite set_last_len_snoc.
      apply Forall_app in HFt as [HFm HFl]. inversion HFl as [|? ? Hrl HFpost]; subst.
      pose proof Hrl as (Hll & Hfl & Hnl & Hbl). pose proof (sum_len_nonneg _ HFm).
      eexists. split; [reflexivity|]. split; [|split; [|right; left; reflexivity]].
      * apply wf_comp_intro; try assumption; try discriminate; [| |lia].
        -- constructor; [assumption|]. apply Forall_app. split; [assumption|].
           constructor; [|constructor]. apply wf_rec_intro; try assumption; lia.
        -- simpl. rewrite sum_len_app. simpl. lia.
      * simpl. rewrite Hdr'. f_equal. rewrite !flat_map_app. simpl. rewrite app_nil_r.
        rewrite (slice_app_cross (D mid) _ 0 _ (sum_len mid)); [|apply D_length; assumption|lia|lia].
        rewrite slice_all by (rewrite ?D_length by assumption; lia).
        f_equal. rewrite slice_app_l by (rewrite ?denote_rec_length by assumption; lia).
        unfold denote_rec. simpl. rewrite slice_slice by lia. f_equal; lia.
Qed.

Theorem subrange_spec : forall fresh d off len, wf d -> fresh <> EMPTY_ID -> 0 <= off < M64 -> 0 <= len < M64 ->
  exists d', subrange fresh d off len = Some d' /\ wf d' /\ denote d' = slice (denote d) off len.
Proof.
  intros fresh d off len Hw Hf Ho Hn. destruct d as [l | id fl sz recs].
  - rewrite subrange_on_leaf. destruct (subrange_leaf_spec fresh l off len Hw Hf Ho Hn) as (d' & ? & ? & ? & _).
    exists d'. auto.
  - pose proof Hw as (Hid & Hne & HF & Hs & Hlt & Hfl).
    pose proof (sum_len_pos _ HF Hne).
    unfold subrange, subrange_body. cbn [size].
    rewrite Z.geb_leb. destruct (Z.leb_spec sz off); cbn [orb].
    { eexists; split; [reflexivity|]. split; [apply wf_empty|]. simpl. symmetry. apply slice_none.
      rewrite D_length by assumption. lia. }
    destruct (Z.eqb_spec len 0).
    { eexists; split; [reflexivity|]. split; [apply wf_empty|]. simpl. symmetry. apply slice_zero. lia. }
    cbv zeta. rewrite u64_small by lia. rewrite Z.gtb_ltb.
    destruct (Z.ltb_spec (sz - off) len); cbn [negb andb].
    + destruct (subrange_comp_spec fresh recs sz off (sz - off) HF Hs Hlt Hf ltac:(lia) ltac:(lia) ltac:(lia))
        as (d' & E & Hw' & Hd & _).
      exists d'. split; [assumption|]. split; [assumption|]. rewrite Hd. simpl.
      apply slice_clamp; rewrite ?D_length by assumption; lia.
    + destruct (Z.eqb_spec len sz).
      * eexists; split; [reflexivity|]. split; [assumption|]. assert (off = 0) by lia. subst off.
        symmetry. apply slice_all. simpl. rewrite D_length by assumption. lia.
      * destruct (subrange_comp_spec fresh recs sz off len HF Hs Hlt Hf ltac:(lia) ltac:(lia) ltac:(lia))
          as (d' & E & Hw' & Hd & _).
        exists d'. auto.
Qed.

(* ================================================================= apply, flatten, map *)
Lemma take_until_true : forall gs, take_until (fun _ => true) gs = gs.
Proof. induction gs; simpl; congruence. Qed.

Lemma apply_leaf_spec : forall r off f, wf_rec r ->
  apply_leaf (r_obj r) off (r_from r) (r_len r) f =
  Some (f (mkRegion (l_id (r_obj r)) off (denote_rec r)), [mkRegion (l_id (r_obj r)) off (denote_rec r)]).
Proof.
  intros r off f (Hl & Hf & Hn & Hb). unfold apply_leaf.
  rewrite read_ok by (unfold leaf_size in *; lia). reflexivity.
Qed.

Lemma apply_records_spec : forall recs off f, Forall wf_rec recs -> 0 <= off -> off + sum_len recs < M64 ->
  apply_records recs off f = Some (forallb f (rec_regions off recs), take_until f (rec_regions off recs)).
Proof.
  induction recs as [|r t IH]; intros off f HF Ho Hlt; [reflexivity|].
  inversion HF as [|? ? Hr Ht]; subst. pose proof (sum_len_nonneg _ Ht). pose proof Hr as (Hl & Hf & Hn & Hb).
  simpl in Hlt. cbn [apply_records rec_regions forallb take_until].
  rewrite apply_leaf_spec by assumption.
  destruct (f _); [|reflexivity].
  rewrite u64_small by lia. rewrite IH by (assumption || lia). reflexivity.
Qed.

Lemma rec_regions_tiles : forall recs off, Forall wf_rec recs -> tiles off (rec_regions off recs).
Proof.
  induction recs as [|r t IH]; intros off HF; simpl; [exact I|].
  inversion HF as [|? ? Hr Ht]; subst. pose proof (denote_rec_length r Hr) as E. destruct Hr as (Hl & Hf & Hn & Hb).
  split; [reflexivity|]. split.
  - intro Hnil. rewrite Hnil in E. simpl in E. lia.
  - rewrite E. apply IH. assumption.
Qed.

Lemma rec_regions_bytes : forall recs off, List.concat (List.map g_bytes (rec_regions off recs)) = D recs.
Proof. induction recs; intros; simpl; [reflexivity|]. now rewrite IHrecs. Qed.

Lemma write_fold : forall rs off done junk, Forall wf_rec rs -> Z.of_nat (length done) = off ->
  Z.of_nat (length junk) = sum_len rs ->
  fold_left (fun acc g => match acc with None => None | Some b => write b (g_off g) (g_bytes g) end)
            (rec_regions off rs) (Some (done ++ junk)) = Some (done ++ D rs).
Proof.
  induction rs as [|r t IH]; intros off done junk HF Hd Hj; simpl in *.
  - destruct junk; [reflexivity|simpl in Hj; lia].
  - inversion HF as [|? ? Hr Ht]; subst. pose proof (sum_len_nonneg _ Ht). pose proof (denote_rec_length r Hr) as E.
    unfold write.
    replace (0 <=? Z.of_nat (length done)) with true by (symmetry; apply Z.leb_le; lia).
    replace (Z.of_nat (length done) + Z.of_nat (length (denote_rec r)) <=? Z.of_nat (length (done ++ junk))) with true
      by (symmetry; apply Z.leb_le; rewrite app_length; lia).
    cbn [andb].
    rewrite Nat2Z.id.
    rewrite firstn_app, Nat.sub_diag, firstn_O, app_nil_r, firstn_all.
    rewrite skipn_app. rewrite (skipn_all2 done) by lia. cbn [app].
    replace (length done + length (denote_rec r) - length done)%nat with (length (denote_rec r)) by lia.
    rewrite (app_assoc done). rewrite (IH (Z.of_nat (length done) + r_len r)); try assumption.
    + now rewrite <- app_assoc.
    + rewrite app_length. lia.
    + rewrite skipn_length. lia.
Qed.

Lemma flatten_recs_spec : forall recs sz, Forall wf_rec recs -> sz = sum_len recs -> sz < M64 ->
  flatten_recs sz recs = Some (D recs).
Proof.
  intros recs sz HF Hs Hlt. unfold flatten_recs.
  rewrite apply_records_spec by (assumption || lia). rewrite take_until_true.
  apply (write_fold recs 0 [] (repeat 0 (Z.to_nat sz))); [assumption|reflexivity|].
  rewrite repeat_length. pose proof (sum_len_nonneg _ HF). lia.
Qed.

(* the two situations after _dispatch_data_map_direct(dd, 0, ...) on a non-empty object *)
Lemma map_direct_cases : forall d, wf d -> size d <> 0 ->
  (exists d1 o buf base, map_direct d 0 = Some (d1, o, Some (buf, base)) /\
       read buf base (size d) = Some (denote d) /\ 0 <= base < M64)
  \/ (exists id sz recs, d = DComp id false sz recs /\ map_direct d 0 = Some (d, 0, None)).
Proof.
  intros d Hw Hz. pose proof (size_denote d Hw) as Hsd. destruct d as [l | id fl sz recs].
  - left. exists (DLeaf l), 0, (l_bytes l), 0. split; [reflexivity|]. simpl in *.
    split; [|unfold M64; lia]. rewrite read_ok by (unfold leaf_size in *; lia).
    f_equal. apply slice_all. unfold leaf_size. lia.
  - pose proof Hw as (Hid & Hne & HF & Hs & Hlt & Hfl).
    destruct recs as [|r [|r2 t]]; [congruence| |].
    + left. inversion HF as [|? ? Hr _]; subst. pose proof Hr as (Hl & Hf & Hn & Hb). destruct Hl as [Hl1 _].
      exists (DLeaf (r_obj r)), (r_from r), (l_bytes (r_obj r)), (r_from r).
      unfold map_direct. rewrite Z.add_0_l, u64_small by lia.
      split; [reflexivity|]. split; [|lia]. simpl. rewrite Z.add_0_r, app_nil_r.
      apply read_ok; unfold leaf_size in *; lia.
    + destruct fl.
      * left. exists (DComp id true sz (r :: r2 :: t)), 0, (D (r :: r2 :: t)), 0.
        unfold map_direct. rewrite flatten_recs_spec by assumption.
        split; [reflexivity|]. split; [|unfold M64; lia]. cbn [size denote].
        rewrite read_ok; [f_equal; apply slice_all| | |]; rewrite ?D_length by assumption; pose proof (sum_len_nonneg _ HF); lia.
      * right. exists id, sz, (r :: r2 :: t). split; reflexivity.
Qed.

Theorem apply_spec : forall d, wf d ->
  exists gs, regions d = Some gs /\ tiles 0 gs /\ List.concat (List.map g_bytes gs) = denote d /\
    forall f, apply d f = Some (forallb f gs, take_until f gs).
Proof.
  intros d Hw. unfold regions, apply.
  destruct (Z.eqb_spec (size d) 0) as [Ez|Ez].
  - exists []. rewrite (size_zero_empty d Hw Ez). repeat split.
  - destruct (map_direct_cases d Hw Ez) as [(d1 & o & buf & base & Em & Er & Hb) | (id & sz & recs & Ed & Em)].
    + pose proof (size_denote d Hw) as Hsd.
      exists [mkRegion (obj_id d) 0 (denote d)]. unfold apply_obj. rewrite Em.
      rewrite Z.add_0_r, u64_small, Er by assumption.
      split; [reflexivity|]. split; [|split].
      * simpl. repeat split. intro Hn. rewrite Hn in Hsd. simpl in Hsd. lia.
      * simpl. apply app_nil_r.
      * intro f. simpl. destruct (f _); reflexivity.
    + subst d. pose proof Hw as (Hid & Hne & HF & Hs & Hlt & Hfl).
      exists (rec_regions 0 recs). unfold apply_obj. rewrite Em. cbn [records_of].
      rewrite !apply_records_spec by (assumption || lia). rewrite take_until_true.
      split; [reflexivity|]. split; [apply rec_regions_tiles; assumption|].
      split; [apply rec_regions_bytes|]. intro f. rewrite apply_records_spec by (assumption || lia). reflexivity.
Qed.

Theorem map_spec : forall fresh d, wf d -> fresh <> EMPTY_ID ->
  exists d', map_bytes fresh d = Some (d', denote d) /\ wf d' /\ denote d' = denote d /\
    (d' = d \/ d' = DLeaf (mkLeaf fresh (denote d))).
Proof.
  intros fresh d Hw Hf. unfold map_bytes, map.
  destruct (Z.eqb_spec (size d) 0) as [Ez|Ez].
  - exists empty. rewrite (size_zero_empty d Hw Ez). repeat split; auto; try apply wf_empty.
  - destruct (map_direct_cases d Hw Ez) as [(d1 & o & buf & base & Em & Er & Hb) | (id & sz & recs & Ed & Em)].
    + exists d. rewrite Em, Er. auto.
    + subst d. pose proof Hw as (Hid & Hne & HF & Hs & Hlt & Hfl). rewrite Em.
      unfold flatten. cbn [size records_of]. rewrite flatten_recs_spec by assumption.
      pose proof (D_length recs HF) as HL. pose proof (sum_len_pos _ HF Hne).
      exists (DLeaf (mkLeaf fresh (D recs))). rewrite read_ok by lia.
      cbn [denote]. split; [do 2 f_equal; apply slice_all; lia|]. split; [|split; [reflexivity|right; reflexivity]].
      simpl. split; [unfold leaf_size; simpl; lia|]. simpl. split; intro Hx; [|contradiction].
      rewrite Hx in HL. simpl in HL. lia.
Qed.

(* ================================================================= copy_region *)
Lemma copy_region_leaf_spec : forall fresh l from sz loc acc, wf_leaf l -> fresh <> EMPTY_ID ->
  0 <= from -> 0 < sz -> from + sz <= leaf_size l ->
  exists r, copy_region_leaf fresh l from sz loc acc = Some (r, acc) /\ wf r /\ size r = sz /\
     denote r = slice (l_bytes l) from sz /\ (r = DLeaf l \/ obj_id r = fresh).
Proof.
  intros fresh l from sz loc acc Hl Hf Hfr Hsz Hb. pose proof Hl as [Hl1 _].
  unfold copy_region_leaf, copy_region_body, map_direct. cbn [size].
  destruct (Z.eqb_spec from 0) as [E0|E0]; destruct (Z.eqb_spec sz (leaf_size l)) as [E1|E1]; cbn [andb].
  - exists (DLeaf l). subst. split; [reflexivity|]. split; [assumption|]. split; [reflexivity|]. split; [|left; reflexivity].
    simpl. symmetry. apply slice_all. unfold leaf_size. lia.
  - eexists. split; [reflexivity|]. split; [|split; [reflexivity|split; [|right; reflexivity]]].
    + apply wf_comp_intro; try assumption; try discriminate; [|simpl; lia|lia].
      constructor; [|constructor]. apply wf_rec_intro; try assumption; lia.
    + simpl. apply app_nil_r.
  - eexists. split; [reflexivity|]. split; [|split; [reflexivity|split; [|right; reflexivity]]].
    + apply wf_comp_intro; try assumption; try discriminate; [|simpl; lia|lia].
      constructor; [|constructor]. apply wf_rec_intro; try assumption; lia.
    + simpl. apply app_nil_r.
  - eexists. split; [reflexivity|]. split; [|split; [reflexivity|split; [|right; reflexivity]]].
    + apply wf_comp_intro; try assumption; try discriminate; [|simpl; lia|lia].
      constructor; [|constructor]. apply wf_rec_intro; try assumption; lia.
    + simpl. apply app_nil_r.
Qed.

Lemma copy_walk_spec : forall fresh recs offset loc acc, Forall wf_rec recs -> fresh <> EMPTY_ID ->
  0 <= offset -> offset <= loc < offset + sum_len recs -> 0 <= acc -> acc + offset + sum_len recs < M64 ->
  exists pre rk post r, recs = pre ++ rk :: post /\
    copy_walk copy_region_leaf fresh recs 0 offset loc acc = Some (r, acc + offset + sum_len pre) /\
    offset + sum_len pre <= loc < offset + sum_len pre + r_len rk /\
    wf r /\ size r = r_len rk /\ denote r = denote_rec rk /\ (r = DLeaf (r_obj rk) \/ obj_id r = fresh).
Proof.
  induction recs as [|r t IH]; intros offset loc acc HF Hf Ho Hloc Ha Hlt; simpl in Hloc; [lia|].
  inversion HF as [|? ? Hr Ht]; subst. pose proof (sum_len_nonneg _ Ht). pose proof Hr as (Hl & Hfr & Hn & Hb).
  pose proof Hl as [Hl1 _]. simpl in Hlt. cbn [copy_walk].
  rewrite Z.geb_leb. destruct (Z.leb_spec (r_len r) 0); [lia|].
  rewrite Z.sub_0_r. rewrite (u64_small (r_len r)) by lia. rewrite (u64_small (offset + r_len r)) by lia.
  rewrite Z.geb_leb. destruct (Z.leb_spec (offset + r_len r) loc).
  - destruct (IH (offset + r_len r) loc acc Ht Hf ltac:(lia) ltac:(lia) Ha ltac:(lia))
      as (pre & rk & post & r' & Er & Ew & Hb' & Hw & Hs & Hd & Hi).
    exists (r :: pre), rk, post, r'. subst t. simpl. rewrite Ew.
    split; [reflexivity|]. split; [f_equal; f_equal; lia|]. split; [lia|]. auto.
  - rewrite Z.add_0_l. rewrite (u64_small (r_from r)), (u64_small (acc + offset)) by lia.
    destruct (copy_region_leaf_spec fresh (r_obj r) (r_from r) (r_len r) (u64 (loc - offset)) (acc + offset) Hl Hf Hfr Hn Hb)
      as (r' & Ec & Hw & Hs & Hd & Hi).
    exists [], r, t, r'. simpl. rewrite Ec.
    split; [reflexivity|]. split; [f_equal; f_equal; lia|]. split; [lia|]. auto.
Qed.

Theorem copy_region_spec : forall fresh d loc, wf d -> fresh <> EMPTY_ID -> 0 <= loc < M64 ->
  exists r off, copy_region fresh d loc = Some (r, off) /\ wf r /\
    (size d <= loc -> r = empty /\ off = size d) /\
    (loc < size d -> off <= loc < off + size r /\ denote r = slice (denote d) off (size r)).
Proof.
  intros fresh d loc Hw Hf Hloc. unfold copy_region. pose proof (size_nonneg d Hw) as Hsn.
  rewrite Z.geb_leb. destruct (Z.leb_spec (size d) loc).
  - exists empty, (size d). split; [reflexivity|]. split; [apply wf_empty|]. split; [auto|lia].
  - assert (Ez : size d <> 0) by lia. pose proof (size_denote d Hw) as Hsd.
    unfold copy_region_body. rewrite Z.eqb_refl, Z.eqb_refl. cbn [andb].
    destruct (map_direct_cases d Hw Ez) as [(d1 & o & buf & base & Em & Er & Hb) | (id & sz & recs & Ed & Em)].
    + rewrite Em. exists d, 0. split; [reflexivity|]. split; [assumption|]. split; [lia|]. intros _. split; [lia|].
      symmetry. apply slice_all. lia.
    + rewrite Em. subst d. pose proof Hw as (Hid & Hne & HF & Hs & Hlt & Hfl). cbn [records_of size] in *.
      destruct (copy_walk_spec fresh recs 0 loc 0 HF Hf ltac:(lia) ltac:(lia) ltac:(lia) ltac:(lia))
        as (pre & rk & post & r' & Er & Ew & Hb' & Hw' & Hs' & Hd' & Hi).
      exists r', (0 + 0 + sum_len pre). split; [assumption|]. split; [assumption|]. split; [lia|]. intros _.
      split; [lia|]. subst recs. apply Forall_app in HF as [HFp HFr]. inversion HFr as [|? ? Hrk HFpost]; subst.
      rewrite Hd', Hs'. cbn [denote]. rewrite flat_map_app.
      rewrite slice_app_r by (rewrite ?D_length by assumption; lia). rewrite D_length by assumption.
      cbn [flat_map]. rewrite slice_app_l by (rewrite ?denote_rec_length by assumption; lia).
      replace (0 + 0 + sum_len pre - sum_len pre) with 0 by lia.
      symmetry. apply slice_all. rewrite denote_rec_length by assumption. lia.
Qed.

(* ================================================================= no fault; closure under all operation trees *)
Theorem no_fault : forall fresh d off len loc f, wf d -> fresh <> EMPTY_ID ->
  0 <= off < M64 -> 0 <= len < M64 -> 0 <= loc < M64 ->
  subrange fresh d off len <> None /\ apply d f <> None /\ regions d <> None /\ map_bytes fresh d <> None /\
  copy_region fresh d loc <> None.
Proof.
  intros fresh d off len loc f Hw Hf Ho Hn Hl.
  destruct (subrange_spec fresh d off len Hw Hf Ho Hn) as (? & E1 & _).
  destruct (apply_spec d Hw) as (? & E2 & _ & _ & E3).
  destruct (map_spec fresh d Hw Hf) as (? & E4 & _).
  destruct (copy_region_spec fresh d loc Hw Hf Hl) as (? & ? & E5 & _).
  rewrite E1, E2, E3, E4, E5. repeat split; discriminate.
Qed.

Lemma flatten_priv_spec : forall d, wf d -> wf (flatten_priv d) /\ denote (flatten_priv d) = denote d /\
  size (flatten_priv d) = size d /\ obj_id (flatten_priv d) = obj_id d.
Proof.
  intros d Hw. unfold flatten_priv. destruct (size d =? 0); [auto|].
  destruct d as [l | id fl sz recs]; [auto|]. destruct fl; [auto|].
  pose proof Hw as (Hid & Hne & HF & Hs & Hlt & Hfl).
  destruct recs as [|r [|r2 t]]; [congruence|auto|].
  split; [|auto]. simpl. split; [assumption|]. split; [assumption|]. split; [assumption|]. split; [assumption|].
  split; [assumption|]. intros _. simpl. lia.
Qed.

Theorem built_wf : forall d, built d -> wf d.
Proof.
  induction 1.
  - apply wf_empty.
  - simpl. split; [assumption|]. simpl. split; intro; contradiction.
  - exact (proj1 (wf_concat f a b d IHbuilt1 IHbuilt2 H1 H2)).
  - destruct (subrange_spec f a off len IHbuilt H0 H1 H2) as (d' & E & Hw & _). congruence.
  - destruct (map_spec f a IHbuilt H0) as (d' & E & Hw & _). congruence.
  - destruct (copy_region_spec f a loc IHbuilt H0 H1) as (r & o & E & Hw & _). congruence.
  - apply flatten_priv_spec. assumption.
Qed.

(* ================================================================= ownership: a destructor never runs twice *)
(* J: every id whose destructor has been called is gone from the heap, and dlog has no duplicates *)
Definition dinv (st : state) : Prop := NoDup (dlog st) /\ forall k, In k (dlog st) -> heap st k = None.

Lemma hupd_same : forall h k e, hupd h k e k = e.
Proof. intros. unfold hupd. now rewrite Z.eqb_refl. Qed.
Lemma hupd_other : forall h k e j, j <> k -> hupd h k e j = h j.
Proof. intros. unfold hupd. destruct (Z.eqb_spec j k); congruence. Qed.

Lemma NoDup_snoc : forall (l : list Z) x, NoDup l -> ~ In x l -> NoDup (l ++ [x]).
Proof.
  induction l as [|y t IH]; intros x Hn Hx; simpl; [constructor; [tauto|constructor]|].
  inversion Hn; subst. constructor.
  - rewrite in_app_iff. simpl. intros [?|[?|[]]]; [tauto|]. subst. apply Hx. now left.
  - apply IH; [assumption|]. intro. apply Hx. now right.
Qed.

Lemma dinv_upd_live : forall st k e e', dinv st -> heap st k = Some e ->
  dinv (mkState (hupd (heap st) k (Some e')) (dlog st) (flog st)).
Proof.
  intros st k e e' [Hn Hd] Hk. split; [assumption|]. simpl. intros j Hj.
  destruct (Z.eq_dec j k) as [->|Hne]; [rewrite (Hd k Hj) in Hk; discriminate|].
  rewrite hupd_other by assumption. auto.
Qed.

Lemma dinv_retain : forall st id, dinv st -> dinv (retain_id st id).
Proof.
  intros st id H. unfold retain_id. destruct (id =? EMPTY_ID); [assumption|].
  destruct (heap st id) eqn:E; [|assumption]. eapply dinv_upd_live; eassumption.
Qed.

Lemma dinv_release_leaf : forall st id, dinv st -> dinv (release_leaf st id).
Proof.
  intros st id H. unfold release_leaf. destruct (id =? EMPTY_ID); [assumption|].
  destruct (heap st id) as [e|] eqn:E; [|assumption].
  assert (Hfree : dinv (mkState (hupd (heap st) id None) (dlog st ++ [id]) (flog st ++ [id]))).
  { destruct H as [Hn Hd]. split; simpl.
    - apply NoDup_snoc; [assumption|]. intro Hi. rewrite (Hd _ Hi) in E. discriminate.
    - intros j Hj. apply in_app_or in Hj. destruct Hj as [Hj|[<-|[]]].
      + destruct (Z.eq_dec j id) as [->|Hne]; [apply hupd_same|]. rewrite hupd_other by assumption. auto.
      + apply hupd_same. }
  destruct (e_rc e) as [|[|n]]; try assumption. eapply dinv_upd_live; eassumption.
Qed.

Lemma dinv_fold_release : forall recs st, dinv st ->
  dinv (fold_left (fun s r => release_leaf s (l_id (r_obj r))) recs st).
Proof. induction recs; intros; simpl; [assumption|]. apply IHrecs. apply dinv_release_leaf. assumption. Qed.

Lemma dinv_fold_retain : forall recs st, dinv st ->
  dinv (fold_left (fun s r => retain_id s (l_id (r_obj r))) recs st).
Proof. induction recs; intros; simpl; [assumption|]. apply IHrecs. apply dinv_retain. assumption. Qed.

Lemma dinv_release : forall st id, dinv st -> dinv (release_id st id).
Proof.
  intros st id H. unfold release_id. destruct (id =? EMPTY_ID); [assumption|].
  destruct (heap st id) as [e|] eqn:E; [|assumption].
  assert (Hgone : forall recs, dinv (fold_left (fun s r => release_leaf s (l_id (r_obj r))) recs
                    (mkState (hupd (heap st) id None) (dlog st) (flog st ++ [id])))).
  { intro recs. apply dinv_fold_release. destruct H as [Hn Hd]. split; [assumption|]. simpl. intros j Hj.
    destruct (Z.eq_dec j id) as [->|Hne]; [apply hupd_same|]. rewrite hupd_other by assumption. auto. }
  destruct (e_rc e) as [|[|n]].
  - destruct (e_obj e); [apply dinv_release_leaf; assumption|apply Hgone].
  - destruct (e_obj e); [apply dinv_release_leaf; assumption|apply Hgone].
  - eapply dinv_upd_live; eassumption.
Qed.

(* an object that is not yet in the heap may only be adopted under an id that was never destroyed *)
Lemma dinv_adopt : forall st d, dinv st -> (heap st (obj_id d) = None -> ~ In (obj_id d) (dlog st)) -> dinv (adopt st d).
Proof.
  intros st d H Hfresh. unfold adopt. destruct (obj_id d =? EMPTY_ID); [assumption|].
  destruct (heap st (obj_id d)) eqn:E; [apply dinv_retain; assumption|].
  assert (Hnew : dinv (mkState (hupd (heap st) (obj_id d) (Some (mkEntry d 1%nat))) (dlog st) (flog st))).
  { destruct H as [Hn Hd]. split; [assumption|]. simpl. intros j Hj.
    destruct (Z.eq_dec j (obj_id d)) as [->|Hne]; [exfalso; apply (Hfresh eq_refl); assumption|].
    rewrite hupd_other by assumption. auto. }
  destruct d; [assumption|]. apply dinv_fold_retain. assumption.
Qed.


Lemma dinv_st0 : dinv st0.
Proof. split; [constructor|]. intros k []. Qed.

(* ================================================================= ownership: the reference-count invariant *)
Definition cnt (k : Z) (ids : list Z) : nat := count_occ Z.eq_dec ids k.
(* the objects in the heap, without their counts *)
Definition objs (st : state) : Z -> option data := fun k => option_map e_obj (heap st k).
(* number of records of object j that point at x; sum over a finite support *)
Definition ment (o : Z -> option data) (x j : Z) : nat := match o j with Some d => cnt x (rids d) | None => 0%nat end.
Definition inrefs (o : Z -> option data) (dom : list Z) (x : Z) : nat := list_sum (List.map (ment o x) dom).

Lemma cnt_cons_ne : forall j k l, j <> k -> cnt j (k :: l) = cnt j l.
Proof. intros. unfold cnt. simpl. destruct (Z.eq_dec k j); [congruence|reflexivity]. Qed.
Lemma cnt_cons_eq : forall k l, cnt k (k :: l) = S (cnt k l).
Proof. intros. unfold cnt. simpl. destruct (Z.eq_dec k k); [reflexivity|congruence]. Qed.
Lemma cnt_zero : forall k l, ~ In k l -> cnt k l = 0%nat.
Proof. intros. unfold cnt. apply count_occ_not_In. assumption. Qed.
Lemma cnt_zero_inv : forall k l, cnt k l = 0%nat -> ~ In k l.
Proof. intros k l H. unfold cnt in H. apply (count_occ_not_In Z.eq_dec). assumption. Qed.

Lemma inrefs_ext : forall o o' dom x, (forall j, o' j = o j) -> inrefs o' dom x = inrefs o dom x.
Proof. intros. unfold inrefs. f_equal. apply map_ext. intro j. unfold ment. now rewrite H. Qed.

Lemma inrefs_upd_notin : forall o o' dom x k, ~ In k dom -> (forall j, j <> k -> o' j = o j) ->
  inrefs o' dom x = inrefs o dom x.
Proof.
  intros. unfold inrefs. f_equal. apply map_ext_in. intros j Hj. unfold ment. rewrite H0; [reflexivity|].
  intro; subst; contradiction.
Qed.

Lemma inrefs_upd_in : forall o o' dom x k, NoDup dom -> In k dom -> (forall j, j <> k -> o' j = o j) ->
  (inrefs o' dom x + ment o x k = inrefs o dom x + ment o' x k)%nat.
Proof.
  induction dom as [|a t IH]; intros x k Hn Hi He; [contradiction|].
  inversion Hn as [|? ? Ha Ht]; subst. unfold inrefs in *. simpl.
  destruct (Z.eq_dec a k) as [->|Hne].
  - pose proof (inrefs_upd_notin o o' t x k Ha He) as E. unfold inrefs in E. rewrite E. lia.
  - destruct Hi as [?|Hi]; [congruence|]. specialize (IH x k Ht Hi He).
    assert (ment o' x a = ment o x a) as -> by (unfold ment; now rewrite He). lia.
Qed.

Lemma list_sum_zero : forall l, list_sum l = 0%nat -> forall n, In n l -> n = 0%nat.
Proof. induction l; simpl; intros H n Hn; [contradiction|]. destruct Hn; [lia|]. apply IHl; [lia|assumption]. Qed.

Lemma no_mention : forall o dom x j d, inrefs o dom x = 0%nat -> In j dom -> o j = Some d -> ~ In x (rids d).
Proof.
  intros o dom x j d H Hj Ho. apply cnt_zero_inv.
  assert (ment o x j = 0%nat) as E by (apply (list_sum_zero _ H); apply in_map; assumption).
  unfold ment in E. now rewrite Ho in E.
Qed.

Lemma objs_upd : forall st k v dl fl j,
  objs (mkState (hupd (heap st) k v) dl fl) j = if j =? k then option_map e_obj v else objs st j.
Proof. intros. unfold objs, hupd. simpl. destruct (j =? k); reflexivity. Qed.

Lemma objs_heap : forall st k d, objs st k = Some d -> exists e, heap st k = Some e /\ e_obj e = d.
Proof. intros st k d H. unfold objs in H. destruct (heap st k) as [e|]; [|discriminate]. exists e. simpl in H. split; congruence. Qed.
Lemma heap_objs : forall st k e, heap st k = Some e -> objs st k = Some (e_obj e).
Proof. intros. unfold objs. now rewrite H. Qed.
Lemma objs_none : forall st k, objs st k = None <-> heap st k = None.
Proof. intros. unfold objs. destruct (heap st k); simpl; split; congruence. Qed.

(* GInv st held created dom pr pl: pr = retains the library still has to perform, pl = releases it still has to perform
   (inside dispatch_data_create_* after the new object was linked / inside _dispatch_data_dispose) *)
Record GInv (st : state) (held : Z -> nat) (created dom pr pl : list Z) : Prop := mkGInv {
  gi_nodup : NoDup dom;
  gi_obj : forall k d, objs st k = Some d -> In k dom /\ k <> EMPTY_ID /\ obj_id d = k;
  gi_domfl : forall k, In k dom -> objs st k <> None \/ In k (flog st);
  gi_rc : forall k e, heap st k = Some e ->
     (e_rc e + cnt k pr = held k + inrefs (objs st) dom k + cnt k pl)%nat /\ (0 < e_rc e)%nat;
  gi_dead : forall k, objs st k = None -> held k = 0%nat /\ inrefs (objs st) dom k = 0%nat;
  gi_recs : forall j d r, objs st j = Some d -> In r (crecs d) -> objs st (l_id (r_obj r)) = Some (DLeaf (r_obj r));
  gi_pend : forall k, In k (pr ++ pl) -> exists l, objs st k = Some (DLeaf l);
  gi_dinv : dinv st;
  gi_cr : NoDup created /\ forall k, In k created <-> (In k (dlog st) \/ exists l, objs st k = Some (DLeaf l))
}.

(* two objects that differ at most in the flat flag *)
Definition sim (d d' : data) : Prop :=
  obj_id d' = obj_id d /\ crecs d' = crecs d /\ (forall l, d' = DLeaf l <-> d = DLeaf l).
Lemma sim_refl : forall d, sim d d.
Proof. intro. repeat split; auto. Qed.
Lemma sim_rids : forall d d', sim d d' -> rids d' = rids d.
Proof. intros d d' (_ & E & _). unfold rids. now rewrite E. Qed.

(* replace the entry of a live object k by (d', n) with d' similar to the old object *)
Lemma ginv_update : forall st held held' cr dom pr pl pr' pl' k e d' n,
  GInv st held cr dom pr pl -> heap st k = Some e -> sim (e_obj e) d' ->
  (forall j, j <> k -> held' j = held j /\ cnt j pr' = cnt j pr /\ cnt j pl' = cnt j pl) ->
  (n + cnt k pr' = held' k + inrefs (objs st) dom k + cnt k pl')%nat -> (0 < n)%nat ->
  (forall j, In j (pr' ++ pl') -> In j (pr ++ pl)) ->
  GInv (mkState (hupd (heap st) k (Some (mkEntry d' n))) (dlog st) (flog st)) held' cr dom pr' pl'.
Proof.
  intros st held held' cr dom pr pl pr' pl' k e d' n G Hk Hs Hoth Heq Hn Hincl.
  set (st' := mkState (hupd (heap st) k (Some (mkEntry d' n))) (dlog st) (flog st)).
  pose proof (heap_objs _ _ _ Hk) as Hok. destruct Hs as (Hsid & Hsrecs & Hsleaf).
  assert (Eo : forall j, j <> k -> objs st' j = objs st j).
  { intros j Hj. unfold st'. rewrite objs_upd. destruct (Z.eqb_spec j k); [contradiction|reflexivity]. }
  assert (Ek : objs st' k = Some d').
  { unfold st'. rewrite objs_upd, Z.eqb_refl. reflexivity. }
  assert (Ement : forall x j, ment (objs st') x j = ment (objs st) x j).
  { intros x j. unfold ment. destruct (Z.eq_dec j k) as [->|Hj]; [|now rewrite Eo].
    rewrite Ek, Hok. unfold rids. now rewrite Hsrecs. }
  assert (Ein : forall x, inrefs (objs st') dom x = inrefs (objs st) dom x).
  { intro x. unfold inrefs. f_equal. apply map_ext. intro j. apply Ement. }
  assert (Eleaf : forall j, (exists l, objs st' j = Some (DLeaf l)) <-> (exists l, objs st j = Some (DLeaf l))).
  { intro j. destruct (Z.eq_dec j k) as [->|Hj]; [|now rewrite Eo].
    rewrite Ek, Hok. split; intros [l E]; exists l.
    - assert (E' : d' = DLeaf l) by congruence. f_equal. apply (proj1 (Hsleaf l)). assumption.
    - assert (E' : e_obj e = DLeaf l) by congruence. f_equal. apply (proj2 (Hsleaf l)). assumption. }
  destruct G as [Gn Go Gd Gr Gde Grec Gp Gdi Gc].
  constructor.
  - assumption.
  - intros j d Hj. destruct (Z.eq_dec j k) as [->|Hne].
    + rewrite Ek in Hj. inversion Hj; subst. destruct (Go k _ Hok) as (A & B & C). repeat split; try assumption. congruence.
    + rewrite Eo in Hj by assumption. auto.
  - intros j Hj. destruct (Z.eq_dec j k) as [->|Hne]; [left; rewrite Ek; discriminate|].
    rewrite Eo by assumption. simpl. auto.
  - intros j ej Hj. rewrite Ein. simpl in Hj. destruct (Z.eq_dec j k) as [->|Hne].
    + rewrite hupd_same in Hj. inversion Hj; subst. simpl. split; assumption.
    + rewrite hupd_other in Hj by assumption. destruct (Hoth j Hne) as (-> & -> & ->). auto.
  - intros j Hj. rewrite Ein. destruct (Z.eq_dec j k) as [->|Hne]; [rewrite Ek in Hj; discriminate|].
    rewrite Eo in Hj by assumption. destruct (Hoth j Hne) as (-> & _). auto.
  - intros j d r Hj Hr.
    assert (Hold : objs st (l_id (r_obj r)) = Some (DLeaf (r_obj r))).
    { destruct (Z.eq_dec j k) as [->|Hne].
      - rewrite Ek in Hj. inversion Hj; subst. apply (Grec k (e_obj e)); [assumption|]. now rewrite <- Hsrecs.
      - rewrite Eo in Hj by assumption. eapply Grec; eassumption. }
    destruct (Z.eq_dec (l_id (r_obj r)) k) as [Ekk|Hne]; [|now rewrite Eo].
    rewrite Ekk in *. rewrite Ek. rewrite Hok in Hold. assert (Hd : e_obj e = DLeaf (r_obj r)) by congruence.
    f_equal. apply (proj2 (Hsleaf (r_obj r))). assumption.
  - intros j Hj. apply Eleaf. apply Gp. apply Hincl. assumption.
  - eapply dinv_upd_live; eassumption.
  - destruct Gc as [Gc1 Gc2]. split; [assumption|]. intro j. rewrite Eleaf. apply Gc2.
Qed.

Lemma dinv_free_leaf : forall st k e, dinv st -> heap st k = Some e ->
  dinv (mkState (hupd (heap st) k None) (dlog st ++ [k]) (flog st ++ [k])).
Proof.
  intros st k e [Hn Hd] E. split; simpl.
  - apply NoDup_snoc; [assumption|]. intro Hi. rewrite (Hd _ Hi) in E. discriminate.
  - intros j Hj. apply in_app_or in Hj. destruct Hj as [Hj|[<-|[]]].
    + destruct (Z.eq_dec j k) as [->|Hne]; [apply hupd_same|]. rewrite hupd_other by assumption. auto.
    + apply hupd_same.
Qed.

Lemma dinv_free_comp : forall st k fl, dinv st -> dinv (mkState (hupd (heap st) k None) (dlog st) fl).
Proof.
  intros st k fl [Hn Hd]. split; [assumption|]. simpl. intros j Hj.
  destruct (Z.eq_dec j k) as [->|Hne]; [apply hupd_same|]. rewrite hupd_other by assumption. auto.
Qed.

Lemma dinv_insert : forall st f e, dinv st -> ~ In f (dlog st) ->
  dinv (mkState (hupd (heap st) f (Some e)) (dlog st) (flog st)).
Proof.
  intros st f e [Hn Hd] Hf. split; [assumption|]. simpl. intros j Hj.
  destruct (Z.eq_dec j f) as [->|Hne]; [contradiction|]. rewrite hupd_other by assumption. auto.
Qed.

(* a leaf whose count reaches zero is removed and its destructor is logged *)
Lemma ginv_remove_leaf : forall st held held' cr dom pr pl pr' pl' k l,
  GInv st held cr dom pr pl -> objs st k = Some (DLeaf l) ->
  (forall j, j <> k -> held' j = held j /\ cnt j pr' = cnt j pr /\ cnt j pl' = cnt j pl) ->
  held' k = 0%nat -> inrefs (objs st) dom k = 0%nat -> ~ In k (pr' ++ pl') ->
  (forall j, In j (pr' ++ pl') -> In j (pr ++ pl)) ->
  GInv (mkState (hupd (heap st) k None) (dlog st ++ [k]) (flog st ++ [k])) held' cr dom pr' pl'.
Proof.
  intros st held held' cr dom pr pl pr' pl' k l G Hok Hoth Hh Hin Hnp Hincl.
  set (st' := mkState (hupd (heap st) k None) (dlog st ++ [k]) (flog st ++ [k])).
  destruct (objs_heap _ _ _ Hok) as (e & Hk & He).
  assert (Eo : forall j, j <> k -> objs st' j = objs st j).
  { intros j Hj. unfold st'. rewrite objs_upd. destruct (Z.eqb_spec j k); [contradiction|reflexivity]. }
  assert (Ek : objs st' k = None).
  { unfold st'. rewrite objs_upd, Z.eqb_refl. reflexivity. }
  destruct G as [Gn Go Gd Gr Gde Grec Gp Gdi Gc].
  destruct (Go _ _ Hok) as (Hkd & Hk0 & _).
  assert (Ein : forall x, inrefs (objs st') dom x = inrefs (objs st) dom x).
  { intro x. pose proof (inrefs_upd_in (objs st) (objs st') dom x k Gn Hkd Eo) as E.
    unfold ment in E at 1 2. rewrite Hok, Ek in E. unfold rids in E. simpl in E. unfold cnt in E. simpl in E. lia. }
  constructor.
  - assumption.
  - intros j d Hj. destruct (Z.eq_dec j k) as [->|Hne]; [rewrite Ek in Hj; discriminate|].
    rewrite Eo in Hj by assumption. auto.
  - intros j Hj. destruct (Z.eq_dec j k) as [->|Hne]; [right; simpl; apply in_or_app; right; left; reflexivity|].
    rewrite Eo by assumption. simpl. destruct (Gd j Hj); [left; assumption|right; apply in_or_app; left; assumption].
  - intros j ej Hj. rewrite Ein. simpl in Hj. destruct (Z.eq_dec j k) as [->|Hne]; [rewrite hupd_same in Hj; discriminate|].
    rewrite hupd_other in Hj by assumption. destruct (Hoth j Hne) as (-> & -> & ->). auto.
  - intros j Hj. rewrite Ein. destruct (Z.eq_dec j k) as [->|Hne]; [split; assumption|].
    rewrite Eo in Hj by assumption. destruct (Hoth j Hne) as (-> & _). auto.
  - intros j d r Hj Hr. destruct (Z.eq_dec j k) as [->|Hne]; [rewrite Ek in Hj; discriminate|].
    rewrite Eo in Hj by assumption. pose proof (Grec j d r Hj Hr) as Hold.
    destruct (Go _ _ Hj) as (Hjd & _).
    assert (l_id (r_obj r) <> k).
    { intro Ekk. apply (no_mention _ _ _ _ _ Hin Hjd Hj). rewrite <- Ekk. unfold rids.
      apply (in_map (fun r => l_id (r_obj r))). assumption. }
    now rewrite Eo.
  - intros j Hj. assert (j <> k) by (intro; subst; contradiction). rewrite Eo by assumption.
    apply Gp. apply Hincl. assumption.
  - eapply dinv_free_leaf; eassumption.
  - destruct Gc as [Gc1 Gc2]. split; [assumption|]. intro j. simpl. rewrite Gc2.
    destruct (Z.eq_dec j k) as [->|Hne].
    + rewrite Ek. split; intros _; [left; apply in_or_app; right; left; reflexivity|right; eauto].
    + rewrite Eo by assumption. rewrite in_app_iff. simpl. intuition congruence.
Qed.

(* a composite whose count reaches zero is unlinked; its records become pending releases *)
Lemma ginv_remove_comp : forall st held cr dom k e,
  GInv st held cr dom [] [] -> heap st k = Some e -> (forall l, e_obj e <> DLeaf l) ->
  e_rc e = 1%nat -> held k = 1%nat ->
  GInv (mkState (hupd (heap st) k None) (dlog st) (flog st ++ [k])) (hdec held k) cr dom [] (rids (e_obj e)).
Proof.
  intros st held cr dom k e G Hk Hnl Hrc Hh.
  set (st' := mkState (hupd (heap st) k None) (dlog st) (flog st ++ [k])).
  pose proof (heap_objs _ _ _ Hk) as Hok.
  assert (Eo : forall j, j <> k -> objs st' j = objs st j).
  { intros j Hj. unfold st'. rewrite objs_upd. destruct (Z.eqb_spec j k); [contradiction|reflexivity]. }
  assert (Ek : objs st' k = None).
  { unfold st'. rewrite objs_upd, Z.eqb_refl. reflexivity. }
  destruct G as [Gn Go Gd Gr Gde Grec Gp Gdi Gc].
  destruct (Go _ _ Hok) as (Hkd & Hk0 & _).
  assert (Ein : forall x, inrefs (objs st) dom x = (inrefs (objs st') dom x + cnt x (rids (e_obj e)))%nat).
  { intro x. pose proof (inrefs_upd_in (objs st) (objs st') dom x k Gn Hkd Eo) as E.
    unfold ment in E at 1 2. rewrite Hok, Ek in E. lia. }
  assert (Hd : forall j, j <> k -> hdec held k j = held j).
  { intros j Hj. unfold hdec. destruct (Z.eqb_spec j k); [contradiction|reflexivity]. }
  assert (Hdk : hdec held k k = 0%nat) by (unfold hdec; rewrite Z.eqb_refl, Hh; reflexivity).
  destruct (Gr _ _ Hk) as (Hrk & _). simpl in Hrk. rewrite Hrc, Hh in Hrk.
  constructor.
  - assumption.
  - intros j d Hj. destruct (Z.eq_dec j k) as [->|Hne]; [rewrite Ek in Hj; discriminate|].
    rewrite Eo in Hj by assumption. auto.
  - intros j Hj. destruct (Z.eq_dec j k) as [->|Hne]; [right; simpl; apply in_or_app; right; left; reflexivity|].
    rewrite Eo by assumption. simpl. destruct (Gd j Hj); [left; assumption|right; apply in_or_app; left; assumption].
  - intros j ej Hj. simpl in Hj. destruct (Z.eq_dec j k) as [->|Hne]; [rewrite hupd_same in Hj; discriminate|].
    rewrite hupd_other in Hj by assumption. destruct (Gr _ _ Hj) as (A & B). simpl in A.
    rewrite Hd by assumption. rewrite (Ein j) in A. split; [simpl; lia|assumption].
  - intros j Hj. destruct (Z.eq_dec j k) as [->|Hne].
    + split; [assumption|]. pose proof (Ein k). lia.
    + rewrite Eo in Hj by assumption. destruct (Gde _ Hj) as (A & B). rewrite Hd by assumption.
      pose proof (Ein j). split; [assumption|lia].
  - intros j d r Hj Hr. destruct (Z.eq_dec j k) as [->|Hne]; [rewrite Ek in Hj; discriminate|].
    rewrite Eo in Hj by assumption. pose proof (Grec j d r Hj Hr) as Hold.
    assert (l_id (r_obj r) <> k).
    { intro Ekk. rewrite Ekk, Hok in Hold. inversion Hold as [Hx]. apply (Hnl _ Hx). }
    now rewrite Eo.
  - intros j Hj. simpl in Hj. unfold rids in Hj. apply in_map_iff in Hj. destruct Hj as (r & <- & Hr).
    pose proof (Grec k _ r Hok Hr) as Hold.
    assert (l_id (r_obj r) <> k).
    { intro Ekk. rewrite Ekk, Hok in Hold. inversion Hold as [Hx]. apply (Hnl _ Hx). }
    exists (r_obj r). now rewrite Eo.
  - apply dinv_free_comp. assumption.
  - destruct Gc as [Gc1 Gc2]. split; [assumption|]. intro j. simpl. rewrite Gc2.
    destruct (Z.eq_dec j k) as [->|Hne]; [|now rewrite Eo].
    rewrite Ek, Hok. split; intros [A|[l A]]; auto; try discriminate. inversion A as [Hx]. exfalso. apply (Hnl _ Hx).
Qed.

(* a new object is linked under a never-used id; the retains of its records are pending *)
Lemma ginv_insert : forall st held cr dom f d,
  GInv st held cr dom [] [] -> f <> EMPTY_ID -> objs st f = None -> ~ In f (dlog st) -> ~ In f (flog st) ->
  obj_id d = f -> (forall r, In r (crecs d) -> objs st (l_id (r_obj r)) = Some (DLeaf (r_obj r))) ->
  GInv (mkState (hupd (heap st) f (Some (mkEntry d 1%nat))) (dlog st) (flog st)) (hinc held f)
       (match d with DLeaf _ => cr ++ [f] | _ => cr end) (f :: dom) (rids d) [].
Proof.
  intros st held cr dom f d G Hf0 Hof Hfd Hff Hid Hrecs.
  set (st' := mkState (hupd (heap st) f (Some (mkEntry d 1%nat))) (dlog st) (flog st)).
  assert (Eo : forall j, j <> f -> objs st' j = objs st j).
  { intros j Hj. unfold st'. rewrite objs_upd. destruct (Z.eqb_spec j f); [contradiction|reflexivity]. }
  assert (Ek : objs st' f = Some d).
  { unfold st'. rewrite objs_upd, Z.eqb_refl. reflexivity. }
  destruct G as [Gn Go Gd Gr Gde Grec Gp Gdi Gc].
  assert (Hfdom : ~ In f dom).
  { intro Hi. destruct (Gd _ Hi); [congruence|contradiction]. }
  assert (Hlive : forall j, In j (rids d) -> exists l, objs st j = Some (DLeaf l)).
  { intros j Hj. unfold rids in Hj. apply in_map_iff in Hj. destruct Hj as (r & <- & Hr). eauto. }
  assert (Hnf : forall j, objs st j = None -> cnt j (rids d) = 0%nat).
  { intros j Hj. apply cnt_zero. intro Hi. destruct (Hlive _ Hi) as [l E]. congruence. }
  assert (Ein : forall x, inrefs (objs st') (f :: dom) x = (cnt x (rids d) + inrefs (objs st) dom x)%nat).
  { intro x. unfold inrefs at 1. simpl. unfold ment at 1. rewrite Ek. f_equal.
    apply (inrefs_upd_notin (objs st) (objs st') dom x f Hfdom Eo). }
  assert (Hh : forall j, j <> f -> hinc held f j = held j).
  { intros j Hj. unfold hinc. destruct (Z.eqb_spec j f); [contradiction|reflexivity]. }
  destruct (Gde _ Hof) as (Hhf & Hif).
  constructor.
  - constructor; assumption.
  - intros j d0 Hj. destruct (Z.eq_dec j f) as [->|Hne].
    + rewrite Ek in Hj. assert (d0 = d) by congruence. subst d0. repeat split; auto. now left.
    + rewrite Eo in Hj by assumption. destruct (Go _ _ Hj) as (A & B & C). repeat split; auto. now right.
  - intros j [<-|Hj]; [left; rewrite Ek; discriminate|].
    assert (j <> f) by (intro; subst; contradiction). rewrite Eo by assumption. simpl. auto.
  - intros j ej Hj. rewrite Ein. simpl in Hj. destruct (Z.eq_dec j f) as [->|Hne].
    + rewrite hupd_same in Hj. assert (ej = mkEntry d 1%nat) by congruence. subst ej. simpl. unfold hinc. rewrite Z.eqb_refl, Hhf, Hif.
      rewrite (Hnf f Hof). split; lia.
    + rewrite hupd_other in Hj by assumption. destruct (Gr _ _ Hj) as (A & B). simpl in A.
      rewrite Hh by assumption. split; [simpl; lia|assumption].
  - intros j Hj. destruct (Z.eq_dec j f) as [->|Hne]; [rewrite Ek in Hj; discriminate|].
    rewrite Eo in Hj by assumption. destruct (Gde _ Hj) as (A & B). rewrite Hh by assumption. rewrite Ein, (Hnf j Hj). auto.
  - intros j d0 r Hj Hr.
    assert (Hold : objs st (l_id (r_obj r)) = Some (DLeaf (r_obj r))).
    { destruct (Z.eq_dec j f) as [->|Hne].
      - rewrite Ek in Hj. assert (d0 = d) by congruence. subst d0. auto.
      - rewrite Eo in Hj by assumption. eapply Grec; eassumption. }
    assert (l_id (r_obj r) <> f) by (intro Ekk; rewrite Ekk in Hold; congruence).
    now rewrite Eo.
  - intros j Hj. rewrite app_nil_r in Hj. destruct (Hlive _ Hj) as [l E].
    assert (j <> f) by (intro; subst; congruence). exists l. now rewrite Eo.
  - apply dinv_insert; assumption.
  - destruct Gc as [Gc1 Gc2].
    assert (Hfc : ~ In f cr).
    { intro Hi. apply Gc2 in Hi. destruct Hi as [?|[l E]]; [contradiction|congruence]. }
    destruct d as [l|id fl sz rs].
    + split; [apply NoDup_snoc; assumption|]. intro j. simpl. rewrite in_app_iff, Gc2. simpl.
      destruct (Z.eq_dec j f) as [->|Hne].
      * rewrite Ek. split; intros _; [right; eauto|right; left; reflexivity].
      * rewrite Eo by assumption. intuition congruence.
    + split; [assumption|]. intro j. simpl. rewrite Gc2.
      destruct (Z.eq_dec j f) as [->|Hne]; [|now rewrite Eo].
      rewrite Ek, Hof. split; intros [A|[l A]]; auto; discriminate.
Qed.

Lemma fold_left_map_eq : forall (A B S : Type) (g : S -> B -> S) (f : A -> B) l s,
  fold_left (fun s r => g s (f r)) l s = fold_left g (List.map f l) s.
Proof. induction l; intros; simpl; [reflexivity|apply IHl]. Qed.

Lemma retain_pending : forall st held cr dom k pr,
  GInv st held cr dom (k :: pr) [] -> GInv (retain_id st k) held cr dom pr [].
Proof.
  intros st held cr dom k pr G.
  destruct (gi_pend _ _ _ _ _ _ G k ltac:(left; reflexivity)) as [l Hok].
  destruct (objs_heap _ _ _ Hok) as (e & Hk & He).
  destruct (gi_obj _ _ _ _ _ _ G _ _ Hok) as (_ & Hk0 & _).
  destruct (gi_rc _ _ _ _ _ _ G _ _ Hk) as (Heq & Hpos). rewrite cnt_cons_eq in Heq.
  unfold retain_id. destruct (Z.eqb_spec k EMPTY_ID); [contradiction|]. rewrite Hk.
  eapply ginv_update; try eassumption.
  - apply sim_refl.
  - intros j Hj. rewrite cnt_cons_ne by assumption. auto.
  - simpl in *. lia.
  - lia.
  - intros j Hj. rewrite app_nil_r in *. now right.
Qed.

Lemma ginv_fold_retain : forall pr st held cr dom,
  GInv st held cr dom pr [] -> GInv (fold_left retain_id pr st) held cr dom [] [].
Proof.
  induction pr as [|k pr IH]; intros st held cr dom G; simpl; [assumption|].
  apply IH. apply retain_pending. assumption.
Qed.

Lemma release_pending : forall st held cr dom k pl,
  GInv st held cr dom [] (k :: pl) -> GInv (release_leaf st k) held cr dom [] pl.
Proof.
  intros st held cr dom k pl G.
  destruct (gi_pend _ _ _ _ _ _ G k ltac:(left; reflexivity)) as [l Hok].
  destruct (objs_heap _ _ _ Hok) as (e & Hk & He).
  destruct (gi_obj _ _ _ _ _ _ G _ _ Hok) as (_ & Hk0 & _).
  destruct (gi_rc _ _ _ _ _ _ G _ _ Hk) as (Heq & Hpos). rewrite cnt_cons_eq in Heq. simpl in Heq.
  unfold release_leaf. destruct (Z.eqb_spec k EMPTY_ID); [contradiction|]. rewrite Hk.
  assert (Hrm : e_rc e = 1%nat ->
    GInv (mkState (hupd (heap st) k None) (dlog st ++ [k]) (flog st ++ [k])) held cr dom [] pl).
  { intro E1. rewrite E1 in Heq. eapply ginv_remove_leaf; try eassumption.
    - intros j Hj. rewrite cnt_cons_ne by assumption. auto.
    - lia.
    - lia.
    - simpl. apply cnt_zero_inv. lia.
    - intros j Hj. simpl in *. now right. }
  destruct (e_rc e) as [|[|m]] eqn:Erc; [lia|apply Hrm; reflexivity|].
  eapply ginv_update; try eassumption.
  - apply sim_refl.
  - intros j Hj. rewrite cnt_cons_ne by assumption. auto.
  - simpl in *. lia.
  - lia.
  - intros j Hj. simpl in *. now right.
Qed.

Lemma ginv_fold_release : forall pl st held cr dom,
  GInv st held cr dom [] pl -> GInv (fold_left release_leaf pl st) held cr dom [] [].
Proof.
  induction pl as [|k pl IH]; intros st held cr dom G; simpl; [assumption|].
  apply IH. apply release_pending. assumption.
Qed.

Lemma hinc_same : forall held k, hinc held k k = S (held k).
Proof. intros. unfold hinc. now rewrite Z.eqb_refl. Qed.
Lemma hinc_other : forall held k j, j <> k -> hinc held k j = held j.
Proof. intros. unfold hinc. destruct (Z.eqb_spec j k); [contradiction|reflexivity]. Qed.
Lemma hdec_same : forall held k, hdec held k k = pred (held k).
Proof. intros. unfold hdec. now rewrite Z.eqb_refl. Qed.
Lemma hdec_other : forall held k j, j <> k -> hdec held k j = held j.
Proof. intros. unfold hdec. destruct (Z.eqb_spec j k); [contradiction|reflexivity]. Qed.

(* dispatch_retain by the client *)
Lemma ginv_retain_client : forall st held cr dom a e,
  GInv st held cr dom [] [] -> heap st a = Some e -> a <> EMPTY_ID ->
  GInv (retain_id st a) (hinc held a) cr dom [] [].
Proof.
  intros st held cr dom a e G Hk Ha.
  destruct (gi_rc _ _ _ _ _ _ G _ _ Hk) as (Heq & Hpos). simpl in Heq.
  unfold retain_id. destruct (Z.eqb_spec a EMPTY_ID); [contradiction|]. rewrite Hk.
  eapply ginv_update; try eassumption.
  - apply sim_refl.
  - intros j Hj. rewrite hinc_other by assumption. auto.
  - rewrite hinc_same. simpl. lia.
  - lia.
  - auto.
Qed.

(* dispatch_release by the client, who holds a reference *)
Lemma ginv_release_client : forall st held cr dom a,
  GInv st held cr dom [] [] -> a <> EMPTY_ID -> (0 < held a)%nat ->
  GInv (release_id st a) (hdec held a) cr dom [] [].
Proof.
  intros st held cr dom a G Ha Hh.
  destruct (heap st a) as [e|] eqn:Hk.
  2: { apply objs_none in Hk. destruct (gi_dead _ _ _ _ _ _ G _ Hk). lia. }
  destruct (gi_rc _ _ _ _ _ _ G _ _ Hk) as (Heq & Hpos). simpl in Heq.
  pose proof (heap_objs _ _ _ Hk) as Hok.
  unfold release_id. destruct (Z.eqb_spec a EMPTY_ID); [contradiction|]. rewrite Hk.
  destruct (e_rc e) as [|[|m]] eqn:Erc; [lia| |].
  - (* last reference *)
    assert (Hh1 : held a = 1%nat) by lia. assert (Hi0 : inrefs (objs st) dom a = 0%nat) by lia.
    destruct (e_obj e) as [l|id fl sz recs] eqn:Eobj.
    + unfold release_leaf. destruct (Z.eqb_spec a EMPTY_ID); [contradiction|]. rewrite Hk, Erc.
      eapply ginv_remove_leaf; try eassumption.
      * intros j Hj. rewrite hdec_other by assumption. auto.
      * rewrite hdec_same, Hh1. reflexivity.
      * simpl. tauto.
      * auto.
    + rewrite fold_left_map_eq.
      change (List.map (fun r => l_id (r_obj r)) recs) with (rids (DComp id fl sz recs)). rewrite <- Eobj.
      apply ginv_fold_release. apply ginv_remove_comp; try assumption.
      intros l E. rewrite Eobj in E. discriminate.
  - eapply ginv_update; try eassumption.
    + apply sim_refl.
    + intros j Hj. rewrite hdec_other by assumption. auto.
    + rewrite hdec_same. simpl. lia.
    + lia.
    + auto.
Qed.

(* what adopt needs to know about the object a deriving call returns *)
Definition okres (st : state) (d : data) : Prop :=
  obj_id d = EMPTY_ID \/ objs st (obj_id d) <> None \/
  (objs st (obj_id d) = None /\ ~ In (obj_id d) (dlog st) /\ ~ In (obj_id d) (flog st) /\
   forall r, In r (crecs d) -> objs st (l_id (r_obj r)) = Some (DLeaf (r_obj r))).

Lemma ginv_adopt : forall st held cr dom d,
  GInv st held cr dom [] [] -> okres st d ->
  exists dom', GInv (adopt st d) (hinc0 held (obj_id d))
                    (if new_leaf st d then cr ++ [obj_id d] else cr) dom' [] [].
Proof.
  intros st held cr dom d G Hok. unfold adopt, hinc0.
  destruct (Z.eqb_spec (obj_id d) EMPTY_ID) as [E0|E0].
  - exists dom. assert (new_leaf st d = false) as ->; [|assumption].
    destruct d as [l|]; [|reflexivity]. simpl in *. rewrite E0. reflexivity.
  - destruct (heap st (obj_id d)) as [e|] eqn:Hk.
    + exists dom. assert (new_leaf st d = false) as ->.
      { destruct d as [l|]; [|reflexivity]. simpl in *. rewrite Hk. apply andb_false_r. }
      eapply ginv_retain_client; eassumption.
    + pose proof (proj2 (objs_none _ _) Hk) as Hon.
      destruct Hok as [?|[?|(_ & Hd & Hf & Hrecs)]]; [contradiction|contradiction|].
      exists (obj_id d :: dom).
      pose proof (ginv_insert st held cr dom (obj_id d) d G E0 Hon Hd Hf eq_refl Hrecs) as G1.
      destruct d as [l|id fl sz recs].
      * simpl in *. rewrite Hk. destruct (Z.eqb_spec (l_id l) EMPTY_ID); [contradiction|]. simpl. exact G1.
      * simpl new_leaf. cbv iota. rewrite fold_left_map_eq. apply ginv_fold_retain. exact G1.
Qed.

(* ================================================================= where the records of a result come from (syntactic) *)
Definition leaves_of (d : data) : list leaf := List.map r_obj (records_of d).
Definition shape (d : data) (f : Z) (ops : list data) : Prop :=
  d = empty \/ In d ops \/ (exists l o, In o ops /\ In l (leaves_of o) /\ d = DLeaf l) \/
  (obj_id d = f /\ forall r, In r (crecs d) -> exists o, In o ops /\ o <> empty /\ In (r_obj r) (leaves_of o)).

Lemma concat_shape : forall f a b d, concat f a b = Some d -> shape d f [a; b].
Proof.
  intros f a b d. unfold concat.
  destruct (Z.eqb_spec (size a) 0) as [Ea|Ea]; [intro E; inversion E; subst; right; left; simpl; auto|].
  destruct (Z.eqb_spec (size b) 0) as [Eb|Eb]; [intro E; inversion E; subst; right; left; simpl; auto|].
  destruct (M64 <=? size a + size b); [discriminate|]. intro E; inversion E; subst.
  right; right; right. split; [reflexivity|]. simpl. intros r Hr. apply in_app_or in Hr. destruct Hr as [Hr|Hr].
  - exists a. split; [simpl; auto|]. split; [intro; subst; apply Ea; reflexivity|]. apply in_map. assumption.
  - exists b. split; [simpl; auto|]. split; [intro; subst; apply Eb; reflexivity|]. apply in_map. assumption.
Qed.

Lemma subrange_leaf_shape : forall f l off len d, subrange_leaf f l off len = Some d ->
  d = empty \/ d = DLeaf l \/ (obj_id d = f /\ forall r, In r (crecs d) -> r_obj r = l).
Proof.
  intros f l off len d. unfold subrange_leaf, subrange_body. cbn [size].
  destruct ((off >=? leaf_size l) || (len =? 0)); [intro E; inversion E; auto|].
  cbv zeta. destruct (negb _ && _); intro E; inversion E; subst; [auto|].
  right; right. split; [reflexivity|]. simpl. intros r [<-|[]]. reflexivity.
Qed.

Lemma robj_upd_first : forall o rs, List.map r_obj (upd_first o rs) = List.map r_obj rs.
Proof. intros. unfold upd_first. destruct (o =? 0); [reflexivity|]. destruct rs; reflexivity. Qed.
Lemma robj_set_last : forall ll rs, List.map r_obj (set_last_len ll rs) = List.map r_obj rs.
Proof.
  induction rs as [|r t IH]; [reflexivity|]. destruct t as [|r2 t]; [reflexivity|].
  simpl in *. f_equal. exact IH.
Qed.
Lemma skip_records_suffix : forall recs off rs off', skip_records recs off = (rs, off') -> exists pre, recs = pre ++ rs.
Proof.
  induction recs as [|r t IH]; intros off rs off' E; simpl in E.
  - inversion E. exists []. reflexivity.
  - destruct (off >=? r_len r).
    + destruct (IH _ _ _ E) as [pre ->]. exists (r :: pre). reflexivity.
    + inversion E. exists []. reflexivity.
Qed.
Lemma In_firstn_own : forall (A : Type) n (l : list A) x, In x (firstn n l) -> In x l.
Proof. induction n; intros l x H; [contradiction|]. destruct l; [contradiction|]. simpl in H. destruct H; [left|right]; auto. Qed.

Lemma subrange_comp_shape : forall f sz recs off len d, subrange_comp subrange_leaf f sz recs off len = Some d ->
  d = empty \/ (exists r, In r recs /\ d = DLeaf (r_obj r)) \/
  (obj_id d = f /\ forall r', In r' (crecs d) -> In (r_obj r') (List.map r_obj recs)).
Proof.
  intros f sz recs off len d. unfold subrange_comp.
  destruct (skip_records recs off) as [rs off'] eqn:Es. destruct (skip_records_suffix _ _ _ _ Es) as [pre ->].
  destruct rs as [|r rest]; [discriminate|].
  destruct (u64 (off' + len) <=? r_len r).
  - intro E. destruct (subrange_leaf_shape _ _ _ _ _ E) as [?|[?|[Hi Hr]]]; [auto| |].
    + right; left. exists r. split; [apply in_or_app; right; left; reflexivity|assumption].
    + right; right. split; [assumption|]. intros r' Hr'. rewrite (Hr _ Hr'). apply in_map. apply in_or_app; right; left; reflexivity.
  - cbv zeta. destruct (u64 (off + len) =? sz).
    + cbv beta iota. rewrite firstn_all. intro E; inversion E; subst. right; right. split; [reflexivity|]. cbn [crecs].
      intros r' Hr'. apply (in_map r_obj) in Hr'. rewrite robj_upd_first in Hr'.
      rewrite map_app. apply in_or_app; right. assumption.
    + destruct (find_last rest 1 _) as [[count ll]|]; [|discriminate].
      intro E; inversion E; subst. right; right. split; [reflexivity|]. cbn [crecs]. intros r' Hr'.
      apply (in_map r_obj) in Hr'. rewrite robj_set_last, robj_upd_first in Hr'. rewrite <- firstn_map in Hr'.
      apply In_firstn_own in Hr'. rewrite map_app. apply in_or_app; right. assumption.
Qed.

Lemma subrange_shape : forall f a off len d, 0 <= off -> subrange f a off len = Some d -> shape d f [a].
Proof.
  intros f a off len d Ho. unfold subrange, subrange_body.
  destruct ((off >=? size a) || (len =? 0)) eqn:C1; [intro E; inversion E; left; reflexivity|].
  apply orb_false_iff in C1. destruct C1 as [C1 _]. rewrite Z.geb_leb in C1. apply Z.leb_gt in C1.
  assert (Hne : a <> empty) by (intro; subst; simpl in C1; unfold leaf_size in C1; simpl in C1; lia).
  cbv zeta. destruct (negb _ && _); [intro E; inversion E; subst; right; left; simpl; auto|].
  destruct a as [l|id fl sz recs].
  - intro E; inversion E; subst. right; right; right. split; [reflexivity|]. simpl. intros r [<-|[]].
    exists (DLeaf l). split; [simpl; auto|]. split; [assumption|]. simpl. auto.
  - intro E. destruct (subrange_comp_shape _ _ _ _ _ _ E) as [?|[(r & Hr & ->)|[Hi Hr]]]; [left; assumption| |].
    + right; right; left. exists (r_obj r), (DComp id fl sz recs). split; [simpl; auto|]. split; [|reflexivity].
      unfold leaves_of. simpl. apply in_map. assumption.
    + right; right; right. split; [assumption|]. intros r' Hr'. exists (DComp id fl sz recs).
      split; [simpl; auto|]. split; [assumption|]. apply Hr. assumption.
Qed.

Lemma copy_region_leaf_shape : forall f l from sz loc acc d o, copy_region_leaf f l from sz loc acc = Some (d, o) ->
  d = DLeaf l \/ (obj_id d = f /\ forall r, In r (crecs d) -> r_obj r = l).
Proof.
  intros f l from sz loc acc d o. unfold copy_region_leaf, copy_region_body, map_direct. cbn [size].
  destruct ((from =? 0) && (sz =? leaf_size l)); [intro E; inversion E; auto|].
  intro E; inversion E; subst. right. split; [reflexivity|]. simpl. intros r [<-|[]]. reflexivity.
Qed.

Lemma copy_walk_shape : forall f recs from offset loc acc d o,
  copy_walk copy_region_leaf f recs from offset loc acc = Some (d, o) ->
  exists r, In r recs /\ (d = DLeaf (r_obj r) \/ (obj_id d = f /\ forall r', In r' (crecs d) -> r_obj r' = r_obj r)).
Proof.
  induction recs as [|r t IH]; intros from offset loc acc d o E; simpl in E; [discriminate|].
  destruct (from >=? r_len r).
  - destruct (IH _ _ _ _ _ _ E) as (r0 & Hr0 & H). exists r0. split; [now right|assumption].
  - destruct (loc >=? u64 (offset + u64 (r_len r - from))).
    + destruct (IH _ _ _ _ _ _ E) as (r0 & Hr0 & H). exists r0. split; [now right|assumption].
    + exists r. split; [now left|]. eapply copy_region_leaf_shape. eassumption.
Qed.

Lemma map_direct_null : forall a off dd1 from1, map_direct a off = Some (dd1, from1, None) ->
  dd1 = a /\ exists id sz recs, a = DComp id false sz recs.
Proof.
  intros a off dd1 from1. unfold map_direct. destruct a as [l|id fl sz recs]; [discriminate|].
  destruct recs as [|r [|r2 t]]; destruct fl; cbv beta iota zeta;
    try (destruct (flatten_recs _ _)); intro E; inversion E; eauto.
Qed.

Lemma copy_region_shape : forall f a loc d o, 0 <= loc -> copy_region f a loc = Some (d, o) -> shape d f [a].
Proof.
  intros f a loc d o Hl. unfold copy_region.
  destruct (loc >=? size a) eqn:C1; [intro E; inversion E; left; reflexivity|].
  rewrite Z.geb_leb in C1. apply Z.leb_gt in C1.
  assert (Hne : a <> empty) by (intro; subst; simpl in C1; unfold leaf_size in C1; simpl in C1; lia).
  unfold copy_region_body. rewrite !Z.eqb_refl. cbn [andb].
  destruct (map_direct a 0) as [[[dd1 from1] [p|]]|] eqn:Em; [intro E; inversion E; subst; right; left; simpl; auto| |discriminate].
  destruct (map_direct_null _ _ _ _ Em) as (-> & id & sz & recs & Ea).
  intro E. destruct (copy_walk_shape _ _ _ _ _ _ _ _ E) as (r & Hr & H). subst a. simpl in Hr.
  destruct H as [->|[Hi Hrr]].
  - right; right; left. exists (r_obj r), (DComp id false sz recs). split; [simpl; auto|]. split; [|reflexivity].
    unfold leaves_of. simpl. apply in_map. assumption.
  - right; right; right. split; [assumption|]. intros r' Hr'. exists (DComp id false sz recs).
    split; [simpl; auto|]. split; [assumption|]. rewrite (Hrr _ Hr'). unfold leaves_of. simpl. apply in_map. assumption.
Qed.

Lemma map_shape : forall f a d p sz, map f a = Some (d, p, sz) -> shape d f [a].
Proof.
  intros f a d p sz. unfold map. destruct (size a =? 0); [intro E; inversion E; left; reflexivity|].
  destruct (map_direct a 0) as [[[dd1 from1] [q|]]|]; [intro E; inversion E; subst; right; left; simpl; auto| |discriminate].
  destruct (flatten a); [|discriminate]. intro E; inversion E; subst.
  right; right; right. split; [reflexivity|]. simpl. intros r [].
Qed.

(* ================================================================= one call preserves the invariant *)
Lemma leaves_live : forall st held cr dom k d0, GInv st held cr dom [] [] -> objs st k = Some d0 ->
  forall l, In l (leaves_of d0) -> objs st (l_id l) = Some (DLeaf l).
Proof.
  intros st held cr dom k d0 G Hk l Hl. destruct d0 as [l0|id fl sz recs].
  - simpl in Hl. destruct Hl as [<-|[]]. destruct (gi_obj _ _ _ _ _ _ G _ _ Hk) as (_ & _ & E). simpl in E. now rewrite E.
  - unfold leaves_of in Hl. simpl in Hl. apply in_map_iff in Hl. destruct Hl as (r & <- & Hr).
    eapply (gi_recs _ _ _ _ _ _ G); eassumption.
Qed.

Lemma shape_okres : forall st held cr dom f d ops, GInv st held cr dom [] [] ->
  objs st f = None -> ~ In f (dlog st) -> ~ In f (flog st) ->
  (forall o, In o ops -> o = empty \/ objs st (obj_id o) = Some o) -> shape d f ops -> okres st d.
Proof.
  intros st held cr dom f d ops G Hf Hfd Hff Hops Hs. unfold okres.
  destruct Hs as [->|[Hin|[(l & o & Ho & Hl & ->)|[Hid Hr]]]].
  - left. reflexivity.
  - destruct (Hops _ Hin) as [->|E]; [left; reflexivity|right; left; congruence].
  - destruct (Hops _ Ho) as [->|E].
    + simpl in Hl. destruct Hl as [<-|[]]. left. reflexivity.
    + right; left. simpl. rewrite (leaves_live _ _ _ _ _ _ G E l Hl). discriminate.
  - right; right. rewrite Hid. split; [assumption|]. split; [assumption|]. split; [assumption|].
    intros r Hrr. destruct (Hr _ Hrr) as (o & Ho & Hne & Hl). destruct (Hops _ Ho) as [?|E]; [contradiction|].
    apply (leaves_live _ _ _ _ _ _ G E _ Hl).
Qed.

Lemma operand_ok : forall st held cr dom a da, GInv st held cr dom [] [] -> get st a = Some da ->
  da = empty \/ objs st (obj_id da) = Some da.
Proof.
  intros st held cr dom a da G Hg. unfold get in Hg. destruct (a =? EMPTY_ID); [inversion Hg; auto|].
  destruct (heap st a) as [e|] eqn:Hk; [|discriminate]. inversion Hg; subst. right.
  pose proof (heap_objs _ _ _ Hk) as Hok. destruct (gi_obj _ _ _ _ _ _ G _ _ Hok) as (_ & _ & E). now rewrite E.
Qed.

Lemma ginv_create_empty : forall st held cr dom id, GInv st held cr dom [] [] -> heap st id = None -> ~ In id (dlog st) ->
  GInv (mkState (heap st) (dlog st ++ [id]) (flog st)) held (cr ++ [id]) dom [] [].
Proof.
  intros st held cr dom id [Gn Go Gd Gr Gde Grec Gp Gdi Gc] Hh Hd.
  constructor; try assumption.
  - destruct Gdi as [Dn Dd]. split; simpl; [apply NoDup_snoc; assumption|].
    intros j Hj. apply in_app_or in Hj. destruct Hj as [Hj|[<-|[]]]; auto.
  - destruct Gc as [Gc1 Gc2].
    assert (~ In id cr).
    { intro Hi. apply Gc2 in Hi. destruct Hi as [?|[l E]]; [contradiction|].
      apply (proj2 (objs_none _ _)) in Hh. unfold objs in *. congruence. }
    split; [apply NoDup_snoc; assumption|]. intro j. simpl. rewrite !in_app_iff, Gc2. simpl.
    change (objs (mkState (heap st) (dlog st ++ [id]) (flog st)) j) with (objs st j). tauto.
Qed.

Lemma flatten_priv_sim : forall d, sim d (flatten_priv d).
Proof.
  intro d. unfold flatten_priv. destruct (size d =? 0); [apply sim_refl|].
  destruct d as [l|id fl sz recs]; [apply sim_refl|]. destruct fl; [apply sim_refl|].
  destruct recs as [|r [|r2 t]]; try apply sim_refl; (split; [reflexivity|split; [reflexivity|intro l; split; discriminate]]).
Qed.

Definition GI (g : gstate) : Prop := exists dom, GInv (g_st g) (g_held g) (g_created g) dom [] [].

Lemma GI_g0 : GI g0.
Proof.
  exists []. constructor; simpl; try (intros; discriminate); try (intros; contradiction).
  - constructor.
  - intros. split; reflexivity.
  - apply dinv_st0.
  - split; [constructor|]. intro k. simpl. split; [intros []|intros [[]|[l E]]; discriminate].
Qed.

Lemma derive_step : forall g f d ops, GI g -> fresh_id g f ->
  (forall o, In o ops -> o = empty \/ objs (g_st g) (obj_id o) = Some o) -> shape d f ops ->
  GI (mkG (adopt (g_st g) d) (hinc0 (g_held g) (obj_id d))
          (if new_leaf (g_st g) d then g_created g ++ [obj_id d] else g_created g)).
Proof.
  intros g f d ops [dom G] (Hf0 & Hfh & Hfd & Hff) Hops Hs.
  assert (Hok : okres (g_st g) d).
  { eapply shape_okres; try eassumption. apply objs_none. assumption. }
  destruct (ginv_adopt _ _ _ _ d G Hok) as [dom' G']. exists dom'. exact G'.
Qed.

Theorem gstep_inv : forall g o g', GI g -> legal g o -> gstep g o = Some g' -> GI g'.
Proof.
  intros g o g' HG Hl Hs. unfold gstep in Hs.
  destruct (step (g_st g) o) as [[st' d]|] eqn:Es; [|discriminate].
  destruct o; simpl in Es, Hl; inversion Hs; subst; clear Hs.
  - (* create *)
    destruct HG as [dom G]. destruct Hl as ((Hf0 & Hfh & Hfd & Hff) & _). unfold create in Es.
    destruct bytes as [|b bs]; inversion Es; subst; clear Es.
    + exists dom. simpl. apply ginv_create_empty; assumption.
    + exists (id :: dom). simpl. unfold hinc0. destruct (Z.eqb_spec id EMPTY_ID); [contradiction|].
      apply (ginv_insert _ _ _ _ id (DLeaf (mkLeaf id (b :: bs))) G); try assumption; try reflexivity.
      * apply objs_none. assumption.
      * intros r [].
  - (* concat *)
    destruct Hl as (Hfr & _ & _). destruct HG as [dom G].
    destruct (get (g_st g) a) as [da|] eqn:Ea; [|discriminate]. destruct (get (g_st g) b) as [db|] eqn:Eb; [|discriminate].
    destruct (concat fresh da db) as [d0|] eqn:Ec; [|discriminate]. inversion Es; subst; clear Es.
    apply (derive_step g fresh d [da; db]); [exists dom; assumption|assumption| |apply concat_shape; assumption].
    intros o [<-|[<-|[]]]; eapply operand_ok; eassumption.
  - (* subrange *)
    destruct Hl as (Hfr & _ & Ho & _). destruct HG as [dom G].
    destruct (get (g_st g) a) as [da|] eqn:Ea; [|discriminate].
    destruct (subrange fresh da off len) as [d0|] eqn:Ec; [|discriminate]. inversion Es; subst; clear Es.
    apply (derive_step g fresh d [da]); [exists dom; assumption|assumption| |eapply subrange_shape; [|eassumption]; lia].
    intros o [<-|[]]; eapply operand_ok; eassumption.
  - (* map *)
    destruct Hl as (Hfr & _). destruct HG as [dom G].
    destruct (get (g_st g) a) as [da|] eqn:Ea; [|discriminate].
    destruct (map fresh da) as [[[d0 p] sz]|] eqn:Ec; [|discriminate]. inversion Es; subst; clear Es.
    apply (derive_step g fresh d [da]); [exists dom; assumption|assumption| |eapply map_shape; eassumption].
    intros o [<-|[]]; eapply operand_ok; eassumption.
  - (* copy_region *)
    destruct Hl as (Hfr & _ & Ho). destruct HG as [dom G].
    destruct (get (g_st g) a) as [da|] eqn:Ea; [|discriminate].
    destruct (copy_region fresh da loc) as [[d0 off]|] eqn:Ec; [|discriminate]. inversion Es; subst; clear Es.
    apply (derive_step g fresh d [da]); [exists dom; assumption|assumption| |eapply copy_region_shape; [|eassumption]; lia].
    intros o [<-|[]]; eapply operand_ok; eassumption.
  - (* flatten *)
    destruct HG as [dom G]. destruct (get (g_st g) a) as [da|] eqn:Ea; [|discriminate].
    destruct (Z.eqb_spec a EMPTY_ID); [inversion Es; subst; exists dom; assumption|].
    destruct (heap (g_st g) a) as [e|] eqn:Hk; [|discriminate]. inversion Es; subst; clear Es.
    assert (da = e_obj e) by (unfold get in Ea; destruct (Z.eqb_spec a EMPTY_ID); [contradiction|]; rewrite Hk in Ea; congruence).
    subst da. exists dom. simpl.
    destruct (gi_rc _ _ _ _ _ _ G _ _ Hk) as (Heq & Hpos).
    eapply ginv_update; try eassumption; auto. apply flatten_priv_sim.
  - (* retain *)
    destruct HG as [dom G]. destruct (get (g_st g) a) as [da|] eqn:Ea; [|discriminate]. inversion Es; subst; clear Es.
    exists dom. simpl. unfold hinc0. destruct (Z.eqb_spec a EMPTY_ID) as [->|Ha].
    + unfold retain_id. simpl. assumption.
    + unfold get in Ea. destruct (Z.eqb_spec a EMPTY_ID); [contradiction|].
      destruct (heap (g_st g) a) as [e|] eqn:Hk; [|discriminate]. eapply ginv_retain_client; eassumption.
  - (* release *)
    destruct HG as [dom G]. destruct (get (g_st g) a) as [da|] eqn:Ea; [|discriminate]. inversion Es; subst; clear Es.
    exists dom. simpl. unfold hdec0. destruct (Z.eqb_spec a EMPTY_ID) as [->|Ha].
    + unfold release_id. simpl. assumption.
    + destruct Hl as [?|Hh]; [contradiction|]. apply ginv_release_client; assumption.
Qed.

Theorem grun_inv : forall ops g g', GI g -> glegal g ops -> grun g ops = Some g' -> GI g'.
Proof.
  induction ops as [|o rest IH]; intros g g' HG Hl Hr; simpl in *.
  - inversion Hr; subst. assumption.
  - destruct Hl as (Hlo & Hrest). destruct (gstep g o) as [g1|] eqn:E; [|discriminate].
    apply (IH g1 g'); [eapply gstep_inv; eassumption|assumption|assumption].
Qed.

(* ================================================================= the ownership theorems *)
Lemma inrefs_pos : forall o dom x, (0 < inrefs o dom x)%nat -> exists j d, In j dom /\ o j = Some d /\ In x (rids d).
Proof.
  induction dom as [|a t IH]; intros x H; unfold inrefs in *; simpl in H; [lia|].
  destruct (ment o x a) eqn:Em.
  - destruct (IH x ltac:(simpl in H; lia)) as (j & d & Hj & Ho & Hx). exists j, d. split; [now right|auto].
  - unfold ment in Em. destruct (o a) as [d|] eqn:Eo; [|discriminate]. exists a, d. split; [now left|]. split; [assumption|].
    apply (count_occ_In Z.eq_dec). unfold cnt in Em. lia.
Qed.

(* a destroyed buffer: its object is gone, the client holds no reference to it, and no live object has a record on it *)
Theorem destructor_only_after_release : forall ops g, glegal g0 ops -> grun g0 ops = Some g ->
  forall k, In k (dlog (g_st g)) ->
    heap (g_st g) k = None /\ g_held g k = 0%nat /\
    (forall j e, heap (g_st g) j = Some e -> ~ In k (rids (e_obj e))).
Proof.
  intros ops g Hl Hr k Hk. destruct (grun_inv ops g0 g GI_g0 Hl Hr) as [dom G].
  destruct (gi_dinv _ _ _ _ _ _ G) as [_ Hd]. pose proof (Hd _ Hk) as Hnone.
  destruct (gi_dead _ _ _ _ _ _ G k (proj2 (objs_none _ _) Hnone)) as (Hh & Hi).
  split; [assumption|]. split; [assumption|]. intros j e Hj.
  pose proof (heap_objs _ _ _ Hj) as Hoj. destruct (gi_obj _ _ _ _ _ _ G _ _ Hoj) as (Hjd & _).
  eapply no_mention; eassumption.
Qed.

(* conversely: whatever the client holds, and whatever a live object's records point at, is alive and unchanged *)
Theorem live_while_referenced : forall ops g, glegal g0 ops -> grun g0 ops = Some g ->
  (forall k, (0 < g_held g k)%nat -> heap (g_st g) k <> None /\ ~ In k (dlog (g_st g))) /\
  (forall j e r, heap (g_st g) j = Some e -> In r (crecs (e_obj e)) ->
     ~ In (l_id (r_obj r)) (dlog (g_st g)) /\
     exists e', heap (g_st g) (l_id (r_obj r)) = Some e' /\ e_obj e' = DLeaf (r_obj r)).
Proof.
  intros ops g Hl Hr. destruct (grun_inv ops g0 g GI_g0 Hl Hr) as [dom G].
  destruct (gi_dinv _ _ _ _ _ _ G) as [_ Hd]. split.
  - intros k Hk. assert (heap (g_st g) k <> None).
    { intro Hn. destruct (gi_dead _ _ _ _ _ _ G k (proj2 (objs_none _ _) Hn)). lia. }
    split; [assumption|]. intro Hi. apply H. apply Hd. assumption.
  - intros j e r Hj Hrr. pose proof (gi_recs _ _ _ _ _ _ G j _ r (heap_objs _ _ _ Hj) Hrr) as Ho.
    destruct (objs_heap _ _ _ Ho) as (e' & He' & Eo). split; [|eauto].
    intro Hi. rewrite (Hd _ Hi) in He'. discriminate.
Qed.

(* every destructor call belongs to a created buffer and happens at most once; when the client has released all its
   references (balanced history) nothing is left in the heap and every created buffer was destroyed exactly once *)
Theorem destructor_exactly_once : forall ops g, glegal g0 ops -> grun g0 ops = Some g ->
  NoDup (dlog (g_st g)) /\ NoDup (g_created g) /\
  (forall k, In k (dlog (g_st g)) -> In k (g_created g)) /\
  ((forall k, g_held g k = 0%nat) ->
     (forall k, heap (g_st g) k = None) /\ Permutation (g_created g) (dlog (g_st g))).
Proof.
  intros ops g Hl Hr. destruct (grun_inv ops g0 g GI_g0 Hl Hr) as [dom G].
  destruct (gi_dinv _ _ _ _ _ _ G) as [Hnd Hd]. destruct (gi_cr _ _ _ _ _ _ G) as [Hnc Hc].
  split; [assumption|]. split; [assumption|]. split; [intros k Hk; apply Hc; now left|].
  intro Hbal.
  assert (Hempty : forall k, heap (g_st g) k = None).
  { intro k. destruct (heap (g_st g) k) as [e|] eqn:Hk; [exfalso|reflexivity].
    destruct (gi_rc _ _ _ _ _ _ G _ _ Hk) as (Heq & Hpos). simpl in Heq. rewrite Hbal in Heq.
    destruct (inrefs_pos (objs (g_st g)) dom k ltac:(lia)) as (j & dj & Hjd & Hoj & Hkj).
    destruct (objs_heap _ _ _ Hoj) as (ej & Hj & Eej).
    destruct (gi_rc _ _ _ _ _ _ G _ _ Hj) as (Heqj & Hposj). simpl in Heqj. rewrite Hbal in Heqj.
    destruct (inrefs_pos (objs (g_st g)) dom j ltac:(lia)) as (j2 & d2 & Hj2d & Hoj2 & Hjj2).
    unfold rids in Hjj2. apply in_map_iff in Hjj2. destruct Hjj2 as (r & Er & Hrr).
    pose proof (gi_recs _ _ _ _ _ _ G j2 d2 r Hoj2 Hrr) as Hleaf. rewrite Er, Hoj in Hleaf.
    assert (Ed : dj = DLeaf (r_obj r)) by congruence. rewrite Ed in Hkj. unfold rids in Hkj. simpl in Hkj. contradiction. }
  split; [assumption|]. apply NoDup_Permutation; try assumption.
  intro k. rewrite Hc. split; [|auto]. intros [?|[l E]]; [assumption|].
  destruct (objs_heap _ _ _ E) as (e & He & _). rewrite Hempty in He. discriminate.
Qed.

(* ================================================================= legal histories never fault; every live object is wf *)
Definition WFH (st : state) : Prop := forall k d, objs st k = Some d -> wf d.

Lemma objs_retain : forall st a k, objs (retain_id st a) k = objs st k.
Proof.
  intros. unfold retain_id. destruct (a =? EMPTY_ID); [reflexivity|].
  destruct (heap st a) as [e|] eqn:E; [|reflexivity]. rewrite objs_upd.
  destruct (Z.eqb_spec k a); [subst; unfold objs; rewrite E; reflexivity|reflexivity].
Qed.

Lemma objs_fold_retain : forall ids st k, objs (fold_left retain_id ids st) k = objs st k.
Proof. induction ids; intros; simpl; [reflexivity|]. rewrite IHids. apply objs_retain. Qed.

Lemma objs_release_leaf : forall st a k d, objs (release_leaf st a) k = Some d -> objs st k = Some d.
Proof.
  intros st a k d. unfold release_leaf. destruct (a =? EMPTY_ID); [auto|].
  destruct (heap st a) as [e|] eqn:E; [|auto].
  destruct (e_rc e) as [|[|m]]; rewrite objs_upd; destruct (Z.eqb_spec k a); try discriminate; auto;
    subst; unfold objs; rewrite E; auto.
Qed.

Lemma objs_fold_release : forall ids st k d, objs (fold_left release_leaf ids st) k = Some d -> objs st k = Some d.
Proof. induction ids; intros st k d H; simpl in H; [assumption|]. apply IHids in H. eapply objs_release_leaf; eassumption. Qed.

Lemma objs_release : forall st a k d, objs (release_id st a) k = Some d -> objs st k = Some d.
Proof.
  intros st a k d. unfold release_id. destruct (a =? EMPTY_ID); [auto|].
  destruct (heap st a) as [e|] eqn:E; [|auto].
  assert (Hdec : forall m, objs (mkState (hupd (heap st) a (Some (mkEntry (e_obj e) m))) (dlog st) (flog st)) k = Some d ->
                           objs st k = Some d).
  { intros m. rewrite objs_upd. destruct (Z.eqb_spec k a); [subst; unfold objs; rewrite E; auto|auto]. }
  destruct (e_rc e) as [|[|m]]; try apply Hdec;
    (destruct (e_obj e); [apply objs_release_leaf|];
     rewrite fold_left_map_eq; intro H; apply objs_fold_release in H; rewrite objs_upd in H;
     destruct (Z.eqb_spec k a); [discriminate|assumption]).
Qed.

Lemma objs_adopt : forall st d0 k d, objs (adopt st d0) k = Some d -> objs st k = Some d \/ d = d0.
Proof.
  intros st d0 k d. unfold adopt. destruct (obj_id d0 =? EMPTY_ID); [auto|].
  destruct (heap st (obj_id d0)) eqn:E; [rewrite objs_retain; auto|].
  assert (Hins : objs (mkState (hupd (heap st) (obj_id d0) (Some (mkEntry d0 1%nat))) (dlog st) (flog st)) k = Some d ->
                 objs st k = Some d \/ d = d0).
  { rewrite objs_upd. destruct (Z.eqb_spec k (obj_id d0)); [simpl; intro H; inversion H; auto|auto]. }
  destruct d0; [assumption|]. rewrite fold_left_map_eq, objs_fold_retain. assumption.
Qed.

Lemma get_wf : forall st a da, WFH st -> get st a = Some da -> wf da.
Proof.
  intros st a da H Hg. unfold get in Hg. destruct (a =? EMPTY_ID); [inversion Hg; apply wf_empty|].
  destruct (heap st a) as [e|] eqn:E; [|discriminate]. inversion Hg; subst. apply (H a). unfold objs. now rewrite E.
Qed.

Lemma map_of_map_bytes : forall f d d' bs, map_bytes f d = Some (d', bs) -> exists p sz, map f d = Some (d', p, sz).
Proof.
  intros f d d' bs. unfold map_bytes. destruct (map f d) as [[[d0 [[buf base]|]] sz]|]; [| |discriminate].
  - destruct (read buf base sz); [|discriminate]. intro E; inversion E; subst. eauto.
  - intro E; inversion E; subst. eauto.
Qed.

Lemma wfh_step : forall g o st' d, WFH (g_st g) -> legal g o -> step (g_st g) o = Some (st', d) -> WFH st'.
Proof.
  intros g o st' d H Hl Es. destruct o; simpl in Es, Hl.
  - destruct Hl as ((Hf0 & _) & Hsz). unfold create in Es. destruct bytes as [|b bs]; inversion Es; subst; [exact H|].
    intros k d0. rewrite objs_upd. destruct (Z.eqb_spec k id); [|apply H].
    simpl. intro E; inversion E; subst. simpl. split; [exact Hsz|]. simpl. split; [discriminate|contradiction].
  - destruct Hl as ((Hf0 & _) & _). destruct (get (g_st g) a) as [da|] eqn:Ea; [|discriminate].
    destruct (get (g_st g) b) as [db|] eqn:Eb; [|discriminate].
    destruct (concat fresh da db) as [d0|] eqn:Ec; [|discriminate]. inversion Es; subst.
    intros k d0 Hk. destruct (objs_adopt _ _ _ _ Hk) as [?| ->]; [eapply H; eassumption|].
    eapply proj1. eapply (wf_concat fresh da db); eauto using get_wf.
  - destruct Hl as ((Hf0 & _) & _ & Ho & Hn). destruct (get (g_st g) a) as [da|] eqn:Ea; [|discriminate].
    destruct (subrange fresh da off len) as [d0|] eqn:Ec; [|discriminate]. inversion Es; subst.
    intros k d0 Hk. destruct (objs_adopt _ _ _ _ Hk) as [?| ->]; [eapply H; eassumption|].
    destruct (subrange_spec fresh da off len (get_wf _ _ _ H Ea) Hf0 Ho Hn) as (d' & E & Hw & _). congruence.
  - destruct Hl as ((Hf0 & _) & _). destruct (get (g_st g) a) as [da|] eqn:Ea; [|discriminate].
    destruct (map fresh da) as [[[d0 p] sz]|] eqn:Ec; [|discriminate]. inversion Es; subst.
    intros k d0 Hk. destruct (objs_adopt _ _ _ _ Hk) as [?| ->]; [eapply H; eassumption|].
    destruct (map_spec fresh da (get_wf _ _ _ H Ea) Hf0) as (d' & E & Hw & _).
    destruct (map_of_map_bytes _ _ _ _ E) as (p' & sz' & E'). congruence.
  - destruct Hl as ((Hf0 & _) & _ & Ho). destruct (get (g_st g) a) as [da|] eqn:Ea; [|discriminate].
    destruct (copy_region fresh da loc) as [[d0 off]|] eqn:Ec; [|discriminate]. inversion Es; subst.
    intros k d0 Hk. destruct (objs_adopt _ _ _ _ Hk) as [?| ->]; [eapply H; eassumption|].
    destruct (copy_region_spec fresh da loc (get_wf _ _ _ H Ea) Hf0 Ho) as (r & o & E & Hw & _). congruence.
  - destruct (get (g_st g) a) as [da|] eqn:Ea; [|discriminate].
    destruct (a =? EMPTY_ID); [inversion Es; subst; exact H|].
    destruct (heap (g_st g) a) as [e|] eqn:Hk; [|discriminate]. inversion Es; subst.
    intros k d0. rewrite objs_upd. destruct (Z.eqb_spec k a); [|apply H].
    simpl. intro E; inversion E; subst. apply flatten_priv_spec. eapply get_wf; eassumption.
  - destruct (get (g_st g) a) as [da|] eqn:Ea; [|discriminate]. inversion Es; subst.
    intros k d0. rewrite objs_retain. apply H.
  - destruct (get (g_st g) a) as [da|] eqn:Ea; [|discriminate]. inversion Es; subst.
    intros k d0 Hk. apply objs_release in Hk. eapply H; eassumption.
Qed.

Lemma wfh_gstep : forall g o g', WFH (g_st g) -> legal g o -> gstep g o = Some g' -> WFH (g_st g').
Proof.
  intros g o g' H Hl Hs. unfold gstep in Hs. destruct (step (g_st g) o) as [[st' d]|] eqn:Es; [|discriminate].
  assert (g_st g' = st') by (destruct o; inversion Hs; reflexivity). subst st'. eapply wfh_step; eassumption.
Qed.

Lemma holds_get : forall g a, GI g -> holds g a -> exists da, get (g_st g) a = Some da.
Proof.
  intros g a [dom G] [->|Hh]; [exists empty; reflexivity|]. unfold get.
  destruct (a =? EMPTY_ID); [eauto|]. destruct (heap (g_st g) a) as [e|] eqn:E; [eauto|].
  destruct (gi_dead _ _ _ _ _ _ G a (proj2 (objs_none _ _) E)). lia.
Qed.

(* a call of a well-behaved client fails to return an object only in one case: a concat whose total does not fit *)
Theorem legal_step_total : forall g o, GI g -> WFH (g_st g) -> legal g o -> gstep g o = None ->
  exists f a b da db, o = OConcat f a b /\ get (g_st g) a = Some da /\ get (g_st g) b = Some db /\
     size da <> 0 /\ size db <> 0 /\ M64 <= size da + size db.
Proof.
  intros g o HG HW Hl Hn. unfold gstep in Hn. destruct (step (g_st g) o) as [[st' d]|] eqn:Es; [discriminate|]. clear Hn.
  destruct o; simpl in Es, Hl.
  - discriminate.
  - destruct Hl as (_ & Ha & Hb). destruct (holds_get g a HG Ha) as [da Ea]. destruct (holds_get g b HG Hb) as [db Eb].
    rewrite Ea, Eb in Es. destruct (concat fresh da db) as [d0|] eqn:Ec; [discriminate|].
    exists fresh, a, b, da, db. split; [reflexivity|]. split; [assumption|]. split; [assumption|].
    unfold concat in Ec. destruct (Z.eqb_spec (size da) 0); [discriminate|]. destruct (Z.eqb_spec (size db) 0); [discriminate|].
    destruct (Z.leb_spec M64 (size da + size db)); [auto|discriminate].
  - destruct Hl as ((Hf0 & _) & Ha & Ho & Hlen). destruct (holds_get g a HG Ha) as [da Ea]. rewrite Ea in Es.
    destruct (subrange_spec fresh da off len (get_wf _ _ _ HW Ea) Hf0 Ho Hlen) as (d' & E & _). rewrite E in Es. discriminate.
  - destruct Hl as ((Hf0 & _) & Ha). destruct (holds_get g a HG Ha) as [da Ea]. rewrite Ea in Es.
    destruct (map_spec fresh da (get_wf _ _ _ HW Ea) Hf0) as (d' & E & _).
    destruct (map_of_map_bytes _ _ _ _ E) as (p & sz & E'). rewrite E' in Es. discriminate.
  - destruct Hl as ((Hf0 & _) & Ha & Ho). destruct (holds_get g a HG Ha) as [da Ea]. rewrite Ea in Es.
    destruct (copy_region_spec fresh da loc (get_wf _ _ _ HW Ea) Hf0 Ho) as (r & o & E & _). rewrite E in Es. discriminate.
  - destruct (holds_get g a HG Hl) as [da Ea]. rewrite Ea in Es. destruct (Z.eqb_spec a EMPTY_ID); [discriminate|].
    unfold get in Ea. destruct (Z.eqb_spec a EMPTY_ID); [contradiction|]. destruct (heap (g_st g) a); discriminate.
  - destruct (holds_get g a HG Hl) as [da Ea]. rewrite Ea in Es. discriminate.
  - destruct (holds_get g a HG Hl) as [da Ea]. rewrite Ea in Es. discriminate.
Qed.

Lemma grun_wfh : forall ops g g', WFH (g_st g) -> glegal g ops -> grun g ops = Some g' -> WFH (g_st g').
Proof.
  induction ops as [|o rest IH]; intros g g' H Hl Hr; simpl in *.
  - inversion Hr; subst. assumption.
  - destruct Hl as (Hlo & Hrest). destruct (gstep g o) as [g1|] eqn:E; [|discriminate].
    apply (IH g1 g'); [eapply wfh_gstep; eassumption|assumption|assumption].
Qed.

(* in every state a legal history reaches, every live object satisfies the representation invariant (so all the
   theorems above apply to every object a client can ever hold), and the next legal call returns an object unless it is
   a concat whose total size does not fit in size_t *)
Theorem reachable_wf : forall ops g, glegal g0 ops -> grun g0 ops = Some g ->
  (forall k e, heap (g_st g) k = Some e -> wf (e_obj e)) /\
  (forall o, legal g o -> gstep g o = None ->
     exists f a b da db, o = OConcat f a b /\ get (g_st g) a = Some da /\ get (g_st g) b = Some db /\
       size da <> 0 /\ size db <> 0 /\ M64 <= size da + size db).
Proof.
  intros ops g Hl Hr.
  assert (HW : WFH (g_st g)).
  { apply (grun_wfh ops g0 g); [intros k d E; discriminate|assumption|assumption]. }
  split.
  - intros k e Hk. apply (HW k). apply heap_objs. assumption.
  - intros o Hlo Hn. apply legal_step_total; try assumption. eapply grun_inv; [apply GI_g0|eassumption|eassumption].
Qed.
