(* Data_proofs.v — theorems about Model/Data.v (C13).  Structural induction over record lists / operation
   histories: no bound on depth, fragmentation, sizes; offsets and lengths range over all of size_t. *)
From Coq Require Import ZArith List Bool Lia.
From Verif Require Import Word Data.
Import ListNotations.
Local Open Scope Z_scope.

(* ================================================================= slices *)
Section Slices.
Context {A : Type}.
Implicit Types a b buf : list A.

Lemma skipn_skipn_add : forall buf m n, skipn m (skipn n buf) = skipn (n + m) buf.
Proof.
  induction buf as [|x t IH]; intros m n.
  - now rewrite !skipn_nil.
  - destruct n as [|n]; [reflexivity|]. simpl. apply IH.
Qed.

Definition nslice buf (m n : nat) : list A := firstn n (skipn m buf).

Lemma nslice_app : forall a b m n,
  nslice (a ++ b) m n = nslice a m n ++ nslice b (m - length a) (n - (length a - m)).
Proof.
  intros. unfold nslice. rewrite skipn_app, firstn_app, skipn_length. reflexivity.
Qed.

Lemma nslice_nslice : forall buf f k m n, (m + n <= k)%nat ->
  nslice (nslice buf f k) m n = nslice buf (f + m) n.
Proof.
  intros. unfold nslice. rewrite skipn_firstn_comm, firstn_firstn, skipn_skipn_add.
  f_equal. lia.
Qed.

Lemma nslice_length : forall buf m n, (m + n <= length buf)%nat -> length (nslice buf m n) = n.
Proof. intros. unfold nslice. rewrite firstn_length, skipn_length. lia. Qed.

Lemma nslice_all : forall buf n, (length buf <= n)%nat -> nslice buf 0 n = buf.
Proof. intros. unfold nslice. rewrite skipn_O. now apply firstn_all2. Qed.

Lemma nslice_none : forall buf m n, (length buf <= m)%nat -> nslice buf m n = [].
Proof. intros. unfold nslice. rewrite skipn_all2 by assumption. apply firstn_nil. Qed.

Lemma nslice_zero : forall buf m, nslice buf m 0 = [].
Proof. reflexivity. Qed.

Lemma nslice_clamp : forall buf m n n', (length buf - m <= n)%nat -> (length buf - m <= n')%nat ->
  nslice buf m n = nslice buf m n'.
Proof.
  intros. unfold nslice. rewrite !firstn_all2; try reflexivity; rewrite skipn_length; lia.
Qed.
End Slices.

Lemma slice_nslice : forall (buf : list byte) from len, slice buf from len = nslice buf (Z.to_nat from) (Z.to_nat len).
Proof. reflexivity. Qed.

Lemma slice_length : forall (buf : list byte) from len,
  0 <= from -> 0 <= len -> from + len <= Z.of_nat (length buf) -> Z.of_nat (length (slice buf from len)) = len.
Proof. intros. rewrite slice_nslice, nslice_length; lia. Qed.

Lemma slice_slice : forall (buf : list byte) f k m n, 0 <= f -> 0 <= m -> 0 <= n -> m + n <= k ->
  slice (slice buf f k) m n = slice buf (f + m) n.
Proof.
  intros. rewrite !slice_nslice, nslice_nslice by lia. f_equal. lia.
Qed.

(* a slice that starts beyond the first part *)
Lemma slice_app_r : forall (a b : list byte) off len, Z.of_nat (length a) <= off ->
  slice (a ++ b) off len = slice b (off - Z.of_nat (length a)) len.
Proof.
  intros. rewrite !slice_nslice, nslice_app.
  rewrite (nslice_none a) by lia. simpl.
  replace (length a - Z.to_nat off)%nat with 0%nat by lia. f_equal; lia.
Qed.

(* a slice inside the first part *)
Lemma slice_app_l : forall (a b : list byte) off len, 0 <= off -> off + len <= Z.of_nat (length a) ->
  slice (a ++ b) off len = slice a off len.
Proof.
  intros. rewrite !slice_nslice, nslice_app.
  replace (Z.to_nat len - (length a - Z.to_nat off))%nat with 0%nat by lia.
  rewrite nslice_zero. apply app_nil_r.
Qed.

(* a slice that starts in the first part and goes on *)
Lemma slice_app_cross : forall (a b : list byte) off len n, Z.of_nat (length a) = n -> 0 <= off <= n -> n <= off + len ->
  slice (a ++ b) off len = slice a off (n - off) ++ slice b 0 (len - (n - off)).
Proof.
  intros. rewrite !slice_nslice, nslice_app. f_equal.
  - apply nslice_clamp; lia.
  - f_equal; lia.
Qed.

Lemma slice_all : forall (buf : list byte) len, Z.of_nat (length buf) <= len -> slice buf 0 len = buf.
Proof. intros. rewrite slice_nslice. apply nslice_all. lia. Qed.

Lemma slice_none : forall (buf : list byte) off len, Z.of_nat (length buf) <= off -> slice buf off len = [].
Proof. intros. rewrite slice_nslice. apply nslice_none. lia. Qed.

Lemma slice_zero : forall (buf : list byte) off len, len <= 0 -> slice buf off len = [].
Proof. intros. rewrite slice_nslice. replace (Z.to_nat len) with 0%nat by lia. reflexivity. Qed.

Lemma slice_clamp : forall (buf : list byte) off len len', 0 <= off ->
  Z.of_nat (length buf) - off <= len -> Z.of_nat (length buf) - off <= len' -> slice buf off len = slice buf off len'.
Proof. intros. rewrite !slice_nslice. apply nslice_clamp; lia. Qed.

Lemma read_ok : forall buf from len, 0 <= from -> 0 <= len -> from + len <= Z.of_nat (length buf) ->
  read buf from len = Some (slice buf from len).
Proof.
  intros. unfold read.
  replace (0 <=? from) with true by (symmetry; apply Z.leb_le; lia).
  replace (0 <=? len) with true by (symmetry; apply Z.leb_le; lia).
  replace (from + len <=? Z.of_nat (length buf)) with true by (symmetry; apply Z.leb_le; lia).
  reflexivity.
Qed.

Lemma u64_small : forall x, 0 <= x < M64 -> u64 x = x.
Proof. intros. apply u64_id. unfold M64 in *. lia. Qed.

(* ================================================================= size, denotation of record lists *)
Notation D := (flat_map denote_rec).

Lemma sum_len_app : forall a b, sum_len (a ++ b) = sum_len a + sum_len b.
Proof. induction a; intros; simpl; [reflexivity|]. rewrite IHa. lia. Qed.

Lemma sum_len_nonneg : forall rs, Forall wf_rec rs -> 0 <= sum_len rs.
Proof. induction 1; simpl; [lia|]. destruct H as (_ & _ & ? & _). lia. Qed.

Lemma sum_len_pos : forall rs, Forall wf_rec rs -> rs <> [] -> 0 < sum_len rs.
Proof.
  intros rs H Hn. destruct H; [congruence|]. simpl.
  pose proof (sum_len_nonneg _ H0). destruct H as (_ & _ & ? & _). lia.
Qed.

Lemma denote_rec_length : forall r, wf_rec r -> Z.of_nat (length (denote_rec r)) = r_len r.
Proof.
  intros r (Hl & Hf & Hn & Hb). unfold denote_rec. apply slice_length; unfold leaf_size in Hb; lia.
Qed.

Lemma D_length : forall rs, Forall wf_rec rs -> Z.of_nat (length (D rs)) = sum_len rs.
Proof.
  induction 1; simpl; [reflexivity|].
  rewrite app_length, Nat2Z.inj_add, IHForall, denote_rec_length by assumption. reflexivity.
Qed.

Theorem size_denote : forall d, wf d -> size d = Z.of_nat (length (denote d)).
Proof.
  intros [l | id fl sz recs]; simpl.
  - reflexivity.
  - intros (_ & _ & HF & Hs & _). rewrite D_length by assumption. assumption.
Qed.

Lemma size_nonneg : forall d, wf d -> 0 <= size d < M64.
Proof.
  intros d H. pose proof (size_denote d H). destruct d; simpl in *.
  - destruct H. unfold leaf_size in *. lia.
  - destruct H as (_ & _ & HF & Hs & Hlt & _). lia.
Qed.

Lemma size_zero_empty : forall d, wf d -> size d = 0 -> d = empty.
Proof.
  intros [l | id fl sz recs] H Hz; simpl in *.
  - destruct l as [i bs]. destruct H as [_ [H1 _]]. unfold leaf_size in Hz. simpl in *.
    destruct bs; [|simpl in Hz; lia]. rewrite (H1 eq_refl). reflexivity.
  - destruct H as (_ & Hn & HF & Hs & _). pose proof (sum_len_pos _ HF Hn). lia.
Qed.

Lemma wf_empty : wf empty.
Proof. simpl. split; [vm_compute; reflexivity|]. split; reflexivity. Qed.

Lemma denote_empty : denote empty = [].
Proof. reflexivity. Qed.

(* a leaf seen as one record (concat) *)
Lemma records_of_wf : forall d, wf d -> size d <> 0 -> Forall wf_rec (records_of d).
Proof.
  intros [l | id fl sz recs] H Hz; simpl in *.
  - constructor; [|constructor]. split; [assumption|]. simpl. destruct H. unfold leaf_size in *. lia.
  - tauto.
Qed.

Lemma records_of_denote : forall d, D (records_of d) = denote d.
Proof.
  intros [l | id fl sz recs]; simpl; [|reflexivity].
  rewrite app_nil_r. unfold denote_rec. simpl. apply slice_all. unfold leaf_size. lia.
Qed.

Lemma records_of_sum : forall d, wf d -> sum_len (records_of d) = size d.
Proof.
  intros [l | id fl sz recs] H; simpl in *; [lia|]. destruct H as (_ & _ & _ & Hs & _). congruence.
Qed.

(* ================================================================= concat *)
Theorem denote_concat : forall fresh a b d, wf a -> wf b -> concat fresh a b = Some d ->
  denote d = denote a ++ denote b.
Proof.
  intros fresh a b d Ha Hb. unfold concat.
  destruct (Z.eqb_spec (size a) 0) as [Ea|Ea].
  - intro E; inversion E; subst. rewrite (size_zero_empty a Ha Ea). reflexivity.
  - destruct (Z.eqb_spec (size b) 0) as [Eb|Eb].
    + intro E; inversion E; subst. rewrite (size_zero_empty b Hb Eb). simpl. now rewrite app_nil_r.
    + destruct (M64 <=? size a + size b); [discriminate|]. intro E; inversion E; subst.
      simpl. rewrite flat_map_app, !records_of_denote. reflexivity.
Qed.

Theorem wf_concat : forall fresh a b d, wf a -> wf b -> fresh <> EMPTY_ID -> concat fresh a b = Some d ->
  wf d /\ size d = size a + size b.
Proof.
  intros fresh a b d Ha Hb Hf. unfold concat.
  pose proof (size_nonneg a Ha). pose proof (size_nonneg b Hb).
  destruct (Z.eqb_spec (size a) 0) as [Ea|Ea]; [intro E; inversion E; subst; split; [assumption|lia]|].
  destruct (Z.eqb_spec (size b) 0) as [Eb|Eb]; [intro E; inversion E; subst; split; [assumption|lia]|].
  destruct (Z.leb_spec M64 (size a + size b)); [discriminate|]. intro E; inversion E; subst.
  split; [|reflexivity].
  split; [assumption|]. split.
  - destruct a; simpl; discriminate || (destruct Ha as (_ & Hn & _); destruct recs; [congruence|discriminate]).
  - split; [apply Forall_app; split; apply records_of_wf; assumption|].
    split; [rewrite sum_len_app, !records_of_sum by assumption; reflexivity|].
    split; [simpl; lia|discriminate].
Qed.

(* an object is returned exactly when the total size fits in size_t (or an operand is empty) *)
Theorem concat_total : forall fresh a b, wf a -> wf b ->
  (size a + size b < M64 -> exists d, concat fresh a b = Some d) /\
  (size a <> 0 -> size b <> 0 -> M64 <= size a + size b -> concat fresh a b = None).
Proof.
  intros fresh a b Ha Hb. unfold concat. split.
  - intro Hlt. destruct (size a =? 0); [eauto|]. destruct (size b =? 0); [eauto|].
    destruct (Z.leb_spec M64 (size a + size b)); [lia|eauto].
  - intros Ea Eb Hge. destruct (Z.eqb_spec (size a) 0); [contradiction|]. destruct (Z.eqb_spec (size b) 0); [contradiction|].
    destruct (Z.leb_spec M64 (size a + size b)); [reflexivity|lia].
Qed.

(* ================================================================= subrange *)
Lemma wf_rec_intro : forall l f n, wf_leaf l -> 0 <= f -> 0 < n -> f + n <= leaf_size l -> wf_rec (mkRec l f n).
Proof. intros. unfold wf_rec. simpl. tauto. Qed.

Lemma wf_comp_intro : forall id sz recs, id <> EMPTY_ID -> recs <> [] -> Forall wf_rec recs -> sz = sum_len recs -> sz < M64 ->
  wf (DComp id false sz recs).
Proof. intros. simpl. repeat split; try assumption. discriminate. Qed.

Lemma skip_records_spec : forall recs off, Forall wf_rec recs -> 0 <= off < sum_len recs -> sum_len recs < M64 ->
  exists pre r rest off', skip_records recs off = (r :: rest, off') /\ recs = pre ++ r :: rest /\
     off = sum_len pre + off' /\ 0 <= off' < r_len r.
Proof.
  induction recs as [|r t IH]; intros off HF Hoff Hlt; simpl in *; [lia|].
  inversion HF as [|? ? Hr Ht]; subst. pose proof (sum_len_nonneg _ Ht). destruct Hr as (Hl & Hf & Hn & Hb).
  rewrite Z.geb_leb. destruct (Z.leb_spec (r_len r) off).
  - rewrite u64_small by lia.
    destruct (IH (off - r_len r) Ht ltac:(lia) ltac:(lia)) as (pre & r0 & rest & off' & E & Er & Eo & Hb').
    exists (r :: pre), r0, rest, off'. rewrite E. subst t. simpl. repeat split; try lia. 
  - exists [], r, t, off. simpl. repeat split; lia.
Qed.

Lemma find_last_spec : forall rest c ll, Forall wf_rec rest -> 0 < ll -> ll <= sum_len rest -> sum_len rest < M64 ->
  exists mid rl post ll', find_last rest c ll = Some ((c + S (length mid))%nat, ll') /\ rest = mid ++ rl :: post /\
     ll = sum_len mid + ll' /\ 0 < ll' <= r_len rl.
Proof.
  induction rest as [|r t IH]; intros c ll HF Hll Hle Hlt; simpl in *; [lia|].
  inversion HF as [|? ? Hr Ht]; subst. pose proof (sum_len_nonneg _ Ht). destruct Hr as (Hl & Hf & Hn & Hb).
  destruct (Z.leb_spec ll (r_len r)).
  - exists [], r, t, ll. simpl. repeat split; try lia. f_equal. f_equal. lia.
  - rewrite u64_small by lia. destruct t as [|r2 t]; [simpl in *; lia|].
    destruct (IH (S c) (ll - r_len r) Ht ltac:(lia) ltac:(lia) ltac:(lia)) as (mid & rl & post & ll' & E & Er & Eo & Hb').
    exists (r :: mid), rl, post, ll'. rewrite E. rewrite Er. simpl. repeat split; try lia. f_equal. f_equal. lia.
Qed.

Lemma upd_first_shape : forall off r t, wf_rec r -> 0 <= off < r_len r ->
  exists r', upd_first off (r :: t) = r' :: t /\ wf_rec r' /\ r_len r' = r_len r - off /\ r_obj r' = r_obj r /\
     denote_rec r' = slice (denote_rec r) off (r_len r - off).
Proof.
  intros off r t Hr Ho. pose proof Hr as (Hl & Hf & Hn & Hb). unfold upd_first.
  pose proof Hl as [Hl1 _].
  destruct (Z.eqb_spec off 0).
  - subst. exists r. split; [reflexivity|]. split; [assumption|]. split; [lia|]. split; [reflexivity|].
    unfold denote_rec. rewrite slice_slice by lia. f_equal; lia.
  - eexists. split; [reflexivity|]. rewrite !u64_small by lia.
    split; [apply wf_rec_intro; simpl; try assumption; lia|]. split; [reflexivity|]. split; [reflexivity|].
    unfold denote_rec. simpl. rewrite slice_slice by lia. reflexivity.
Qed.

Lemma set_last_len_snoc : forall ll m y, set_last_len ll (m ++ [y]) = m ++ [mkRec (r_obj y) (r_from y) ll].
Proof.
  induction m as [|x m IH]; intros; simpl; [reflexivity|].
  rewrite IH. destruct (m ++ [y]) eqn:E; [destruct m; discriminate|reflexivity].
Qed.

Lemma firstn_snoc : forall (mid : list rrec) rl post, firstn (S (length mid)) (mid ++ rl :: post) = mid ++ [rl].
Proof. induction mid; intros; simpl; [reflexivity|]. f_equal. apply IHmid. Qed.

Lemma firstn_mid : forall (r : rrec) mid rl post, firstn (1 + S (length mid)) (r :: mid ++ rl :: post) = r :: mid ++ [rl].
Proof. intros. change (1 + S (length mid))%nat with (S (S (length mid))). cbn [firstn]. f_equal. apply firstn_snoc. Qed.

Lemma subrange_leaf_spec : forall fresh l off len, wf_leaf l -> fresh <> EMPTY_ID -> 0 <= off < M64 -> 0 <= len < M64 ->
  exists d', subrange_leaf fresh l off len = Some d' /\ wf d' /\ denote d' = slice (l_bytes l) off len /\
     (forall id, obj_id d' = id -> id = EMPTY_ID \/ id = l_id l \/ id = fresh).
Proof.
  intros fresh l off len Hl Hf Ho Hn. pose proof Hl as [Hl1 Hl2].
  unfold subrange_leaf, subrange_body. cbn [size].
  rewrite Z.geb_leb. destruct (Z.leb_spec (leaf_size l) off); cbn [orb].
  { eexists; split; [reflexivity|]. split; [apply wf_empty|]. split; [|simpl; auto].
    simpl. symmetry. apply slice_none. unfold leaf_size in *; lia. }
  destruct (Z.eqb_spec len 0).
  { eexists; split; [reflexivity|]. split; [apply wf_empty|]. split; [|simpl; auto]. simpl. symmetry. apply slice_zero. lia. }
  cbv zeta. rewrite u64_small by lia. rewrite Z.gtb_ltb.
  destruct (Z.ltb_spec (leaf_size l - off) len); cbn [negb andb].
  - eexists; split; [reflexivity|]. split; [|split; [|simpl; auto]].
    + apply wf_comp_intro; try assumption; try discriminate; [|simpl; lia|lia].
      constructor; [|constructor]. apply wf_rec_intro; try assumption; lia.
    + simpl. rewrite app_nil_r. unfold denote_rec. simpl. apply slice_clamp; unfold leaf_size in *; lia.
  - destruct (Z.eqb_spec len (leaf_size l)).
    + eexists; split; [reflexivity|]. split; [assumption|]. split; [|simpl; auto]. simpl.
      assert (off = 0) by lia. subst off. symmetry. apply slice_all. unfold leaf_size in *. lia.
    + eexists; split; [reflexivity|]. split; [|split; [|simpl; auto]].
      * apply wf_comp_intro; try assumption; try discriminate; [|simpl; lia|lia].
        constructor; [|constructor]. apply wf_rec_intro; try assumption; lia.
      * simpl. rewrite app_nil_r. reflexivity.
Qed.

Lemma subrange_on_leaf : forall fresh l off len, subrange fresh (DLeaf l) off len = subrange_leaf fresh l off len.
Proof.
  intros. unfold subrange, subrange_leaf, subrange_body.
  repeat match goal with |- context [if ?b then _ else _] => destruct b end; reflexivity.
Qed.

Lemma subrange_comp_spec : forall fresh recs sz off len, Forall wf_rec recs -> sz = sum_len recs -> sz < M64 ->
  fresh <> EMPTY_ID -> 0 <= off -> 0 < len -> off + len <= sz ->
  exists d', subrange_comp subrange_leaf fresh sz recs off len = Some d' /\ wf d' /\ denote d' = slice (D recs) off len /\
     (obj_id d' = EMPTY_ID \/ obj_id d' = fresh \/ exists r, In r recs /\ obj_id d' = l_id (r_obj r)).
Proof.
  intros fresh recs sz off len HF Hs Hlt Hf Ho Hn Hle. unfold subrange_comp.
  rewrite (u64_small (off + len)) by lia.
  destruct (skip_records_spec recs off HF ltac:(lia) ltac:(lia)) as (pre & r & rest & off' & E & Er & Eo & Hb').
  rewrite E. subst recs.
  apply Forall_app in HF as [HFp HFr]. inversion HFr as [|? ? Hr HFt]; subst.
  pose proof (sum_len_nonneg _ HFp). pose proof (sum_len_nonneg _ HFt).
  rewrite sum_len_app in *. simpl in Hle, Hlt.
  pose proof Hr as (Hl & Hfr & Hnr & Hbr). pose proof Hl as [Hl1 _].
  rewrite (u64_small (off' + len)) by lia.
  assert (Hspec : slice (D (pre ++ r :: rest)) (sum_len pre + off') len = slice (denote_rec r ++ D rest) off' len).
  { rewrite flat_map_app. rewrite slice_app_r by (rewrite ?D_length by assumption; lia).
    rewrite D_length by assumption. simpl. f_equal. lia. }
  rewrite Hspec.
  destruct (Z.leb_spec (off' + len) (r_len r)).
  - (* everything from a single record: recursion on the leaf *)
    rewrite u64_small by lia.
    destruct (subrange_leaf_spec fresh (r_obj r) (r_from r + off') len Hl Hf ltac:(lia) ltac:(lia)) as (d' & Ed & Hw & Hd & Hid).
    exists d'. split; [assumption|]. split; [assumption|]. split.
    + rewrite Hd. rewrite slice_app_l by (rewrite ?denote_rec_length by assumption; lia).
      unfold denote_rec. rewrite slice_slice by lia. reflexivity.
    + destruct (Hid _ eq_refl) as [?|[?|?]]; [left; assumption| |right; left; assumption].
      right; right. exists r. split; [apply in_or_app; right; left; reflexivity|assumption].
  - destruct (upd_first_shape off' r) with (t := rest) as (r' & Eu & Hwr' & Hlr' & Hor' & Hdr'); [assumption|lia|].
    assert (Hcross : slice (denote_rec r ++ D rest) off' len =
                     slice (denote_rec r) off' (r_len r - off') ++ slice (D rest) 0 (len - (r_len r - off'))).
    { apply slice_app_cross; [apply denote_rec_length; assumption|lia|lia]. }
    rewrite Hcross.
    match goal with |- context [?a =? ?b] => destruct (Z.eqb_spec a b) as [Eend|Eend] end; simpl in Eend.
    + (* to the end *)
      cbv zeta iota beta. rewrite firstn_all. rewrite Eu.
      eexists. split; [reflexivity|]. split; [|split; [|right; left; reflexivity]].
      * apply wf_comp_intro; try assumption; try discriminate; [constructor; assumption|simpl; lia|lia].
      * simpl. rewrite Hdr'. f_equal. symmetry. apply slice_all. rewrite D_length by assumption. lia.
    + rewrite (u64_small (r_len r - off')) by lia. rewrite u64_small by lia.
      destruct (find_last_spec rest 1%nat (len - (r_len r - off')) HFt ltac:(lia) ltac:(lia) ltac:(lia))
        as (mid & rl & post & ll' & Efl & Erest & Ell & Hll').
      cbv zeta iota beta. rewrite Efl. subst rest. rewrite firstn_mid.
      destruct (upd_first_shape off' r) with (t := mid ++ [rl]) as (r'' & Eu2 & _ & _ & _ & _); [assumption|lia|].
      assert (r'' = r').
      { unfold upd_first in Eu, Eu2. destruct (off' =? 0); congruence. }
      subst r''. rewrite Eu2.
      change (r' :: mid ++ [rl]) with ((r' :: mid) ++ [rl]). rewrite set_last_len_snoc.
      apply Forall_app in HFt as [HFm HFl]. inversion HFl as [|? ? Hrl HFpost]; subst.
      pose proof Hrl as (Hll & Hfl & Hnl & Hbl). pose proof (sum_len_nonneg _ HFm).
      eexists. split; [reflexivity|]. split; [|split; [|right; left; reflexivity]].
      * apply wf_comp_intro; try assumption; try discriminate; [| |lia].
        -- constructor; [assumption|]. apply Forall_app. split; [assumption|].
           constructor; [|constructor]. apply wf_rec_intro; try assumption; lia.
        -- simpl. rewrite sum_len_app. simpl. lia.
      * simpl. rewrite Hdr'. f_equal. rewrite !flat_map_app. simpl. rewrite app_nil_r.
        rewrite (slice_app_cross (D mid) _ 0 _ (sum_len mid)); [|apply D_length; assumption|lia|lia].
        rewrite slice_all by (rewrite ?D_length by assumption; lia).
        f_equal. rewrite slice_app_l by (rewrite ?denote_rec_length by assumption; lia).
        unfold denote_rec. simpl. rewrite slice_slice by lia. f_equal; lia.
Qed.

Theorem subrange_spec : forall fresh d off len, wf d -> fresh <> EMPTY_ID -> 0 <= off < M64 -> 0 <= len < M64 ->
  exists d', subrange fresh d off len = Some d' /\ wf d' /\ denote d' = slice (denote d) off len.
Proof.
  intros fresh d off len Hw Hf Ho Hn. destruct d as [l | id fl sz recs].
  - rewrite subrange_on_leaf. destruct (subrange_leaf_spec fresh l off len Hw Hf Ho Hn) as (d' & ? & ? & ? & _).
    exists d'. auto.
  - pose proof Hw as (Hid & Hne & HF & Hs & Hlt & Hfl).
    pose proof (sum_len_pos _ HF Hne).
    unfold subrange, subrange_body. cbn [size].
    rewrite Z.geb_leb. destruct (Z.leb_spec sz off); cbn [orb].
    { eexists; split; [reflexivity|]. split; [apply wf_empty|]. simpl. symmetry. apply slice_none.
      rewrite D_length by assumption. lia. }
    destruct (Z.eqb_spec len 0).
    { eexists; split; [reflexivity|]. split; [apply wf_empty|]. simpl. symmetry. apply slice_zero. lia. }
    cbv zeta. rewrite u64_small by lia. rewrite Z.gtb_ltb.
    destruct (Z.ltb_spec (sz - off) len); cbn [negb andb].
    + destruct (subrange_comp_spec fresh recs sz off (sz - off) HF Hs Hlt Hf ltac:(lia) ltac:(lia) ltac:(lia))
        as (d' & E & Hw' & Hd & _).
      exists d'. split; [assumption|]. split; [assumption|]. rewrite Hd. simpl.
      apply slice_clamp; rewrite ?D_length by assumption; lia.
    + destruct (Z.eqb_spec len sz).
      * eexists; split; [reflexivity|]. split; [assumption|]. assert (off = 0) by lia. subst off.
        symmetry. apply slice_all. simpl. rewrite D_length by assumption. lia.
      * destruct (subrange_comp_spec fresh recs sz off len HF Hs Hlt Hf ltac:(lia) ltac:(lia) ltac:(lia))
          as (d' & E & Hw' & Hd & _).
        exists d'. auto.
Qed.

(* ================================================================= apply, flatten, map *)
Lemma take_until_true : forall gs, take_until (fun _ => true) gs = gs.
Proof. induction gs; simpl; congruence. Qed.

Lemma apply_leaf_spec : forall r off f, wf_rec r ->
  apply_leaf (r_obj r) off (r_from r) (r_len r) f =
  Some (f (mkRegion (l_id (r_obj r)) off (denote_rec r)), [mkRegion (l_id (r_obj r)) off (denote_rec r)]).
Proof.
  intros r off f (Hl & Hf & Hn & Hb). unfold apply_leaf.
  rewrite read_ok by (unfold leaf_size in *; lia). reflexivity.
Qed.

Lemma apply_records_spec : forall recs off f, Forall wf_rec recs -> 0 <= off -> off + sum_len recs < M64 ->
  apply_records recs off f = Some (forallb f (rec_regions off recs), take_until f (rec_regions off recs)).
Proof.
  induction recs as [|r t IH]; intros off f HF Ho Hlt; [reflexivity|].
  inversion HF as [|? ? Hr Ht]; subst. pose proof (sum_len_nonneg _ Ht). pose proof Hr as (Hl & Hf & Hn & Hb).
  simpl in Hlt. cbn [apply_records rec_regions forallb take_until].
  rewrite apply_leaf_spec by assumption.
  destruct (f _); [|reflexivity].
  rewrite u64_small by lia. rewrite IH by (assumption || lia). reflexivity.
Qed.

Lemma rec_regions_tiles : forall recs off, Forall wf_rec recs -> tiles off (rec_regions off recs).
Proof.
  induction recs as [|r t IH]; intros off HF; simpl; [exact I|].
  inversion HF as [|? ? Hr Ht]; subst. pose proof (denote_rec_length r Hr) as E. destruct Hr as (Hl & Hf & Hn & Hb).
  split; [reflexivity|]. split.
  - intro Hnil. rewrite Hnil in E. simpl in E. lia.
  - rewrite E. apply IH. assumption.
Qed.

Lemma rec_regions_bytes : forall recs off, List.concat (List.map g_bytes (rec_regions off recs)) = D recs.
Proof. induction recs; intros; simpl; [reflexivity|]. now rewrite IHrecs. Qed.

Lemma write_fold : forall rs off done junk, Forall wf_rec rs -> Z.of_nat (length done) = off ->
  Z.of_nat (length junk) = sum_len rs ->
  fold_left (fun acc g => match acc with None => None | Some b => write b (g_off g) (g_bytes g) end)
            (rec_regions off rs) (Some (done ++ junk)) = Some (done ++ D rs).
Proof.
  induction rs as [|r t IH]; intros off done junk HF Hd Hj; simpl in *.
  - destruct junk; [reflexivity|simpl in Hj; lia].
  - inversion HF as [|? ? Hr Ht]; subst. pose proof (sum_len_nonneg _ Ht). pose proof (denote_rec_length r Hr) as E.
    unfold write.
    replace (0 <=? Z.of_nat (length done)) with true by (symmetry; apply Z.leb_le; lia).
    replace (Z.of_nat (length done) + Z.of_nat (length (denote_rec r)) <=? Z.of_nat (length (done ++ junk))) with true
      by (symmetry; apply Z.leb_le; rewrite app_length; lia).
    cbn [andb].
    rewrite Nat2Z.id.
    rewrite firstn_app, Nat.sub_diag, firstn_O, app_nil_r, firstn_all.
    rewrite skipn_app. rewrite (skipn_all2 done) by lia. cbn [app].
    replace (length done + length (denote_rec r) - length done)%nat with (length (denote_rec r)) by lia.
    rewrite (app_assoc done). rewrite (IH (Z.of_nat (length done) + r_len r)); try assumption.
    + now rewrite <- app_assoc.
    + rewrite app_length. lia.
    + rewrite skipn_length. lia.
Qed.

Lemma flatten_recs_spec : forall recs sz, Forall wf_rec recs -> sz = sum_len recs -> sz < M64 ->
  flatten_recs sz recs = Some (D recs).
Proof.
  intros recs sz HF Hs Hlt. unfold flatten_recs.
  rewrite apply_records_spec by (assumption || lia). rewrite take_until_true.
  apply (write_fold recs 0 [] (repeat 0 (Z.to_nat sz))); [assumption|reflexivity|].
  rewrite repeat_length. pose proof (sum_len_nonneg _ HF). lia.
Qed.

(* the two situations after _dispatch_data_map_direct(dd, 0, ...) on a non-empty object *)
Lemma map_direct_cases : forall d, wf d -> size d <> 0 ->
  (exists d1 o buf base, map_direct d 0 = Some (d1, o, Some (buf, base)) /\
       read buf base (size d) = Some (denote d) /\ 0 <= base < M64)
  \/ (exists id sz recs, d = DComp id false sz recs /\ map_direct d 0 = Some (d, 0, None)).
Proof.
  intros d Hw Hz. pose proof (size_denote d Hw) as Hsd. destruct d as [l | id fl sz recs].
  - left. exists (DLeaf l), 0, (l_bytes l), 0. split; [reflexivity|]. simpl in *.
    split; [|unfold M64; lia]. rewrite read_ok by (unfold leaf_size in *; lia).
    f_equal. apply slice_all. unfold leaf_size. lia.
  - pose proof Hw as (Hid & Hne & HF & Hs & Hlt & Hfl).
    destruct recs as [|r [|r2 t]]; [congruence| |].
    + left. inversion HF as [|? ? Hr _]; subst. pose proof Hr as (Hl & Hf & Hn & Hb). destruct Hl as [Hl1 _].
      exists (DLeaf (r_obj r)), (r_from r), (l_bytes (r_obj r)), (r_from r).
      unfold map_direct. rewrite Z.add_0_l, u64_small by lia.
      split; [reflexivity|]. split; [|lia]. simpl. rewrite Z.add_0_r, app_nil_r.
      apply read_ok; unfold leaf_size in *; lia.
    + destruct fl.
      * left. exists (DComp id true sz (r :: r2 :: t)), 0, (D (r :: r2 :: t)), 0.
        unfold map_direct. rewrite flatten_recs_spec by assumption.
        split; [reflexivity|]. split; [|unfold M64; lia]. cbn [size denote].
        rewrite read_ok; [f_equal; apply slice_all| | |]; rewrite ?D_length by assumption; pose proof (sum_len_nonneg _ HF); lia.
      * right. exists id, sz, (r :: r2 :: t). split; reflexivity.
Qed.

Theorem apply_spec : forall d, wf d ->
  exists gs, regions d = Some gs /\ tiles 0 gs /\ List.concat (List.map g_bytes gs) = denote d /\
    forall f, apply d f = Some (forallb f gs, take_until f gs).
Proof.
  intros d Hw. unfold regions, apply.
  destruct (Z.eqb_spec (size d) 0) as [Ez|Ez].
  - exists []. rewrite (size_zero_empty d Hw Ez). repeat split.
  - destruct (map_direct_cases d Hw Ez) as [(d1 & o & buf & base & Em & Er & Hb) | (id & sz & recs & Ed & Em)].
    + pose proof (size_denote d Hw) as Hsd.
      exists [mkRegion (obj_id d) 0 (denote d)]. unfold apply_obj. rewrite Em.
      rewrite Z.add_0_r, u64_small, Er by assumption.
      split; [reflexivity|]. split; [|split].
      * simpl. repeat split. intro Hn. rewrite Hn in Hsd. simpl in Hsd. lia.
      * simpl. apply app_nil_r.
      * intro f. simpl. destruct (f _); reflexivity.
    + subst d. pose proof Hw as (Hid & Hne & HF & Hs & Hlt & Hfl).
      exists (rec_regions 0 recs). unfold apply_obj. rewrite Em. cbn [records_of].
      rewrite !apply_records_spec by (assumption || lia). rewrite take_until_true.
      split; [reflexivity|]. split; [apply rec_regions_tiles; assumption|].
      split; [apply rec_regions_bytes|]. intro f. rewrite apply_records_spec by (assumption || lia). reflexivity.
Qed.

Theorem map_spec : forall fresh d, wf d -> fresh <> EMPTY_ID ->
  exists d', map_bytes fresh d = Some (d', denote d) /\ wf d' /\ denote d' = denote d /\
    (d' = d \/ d' = DLeaf (mkLeaf fresh (denote d))).
Proof.
  intros fresh d Hw Hf. unfold map_bytes, map.
  destruct (Z.eqb_spec (size d) 0) as [Ez|Ez].
  - exists empty. rewrite (size_zero_empty d Hw Ez). repeat split; auto; try apply wf_empty.
  - destruct (map_direct_cases d Hw Ez) as [(d1 & o & buf & base & Em & Er & Hb) | (id & sz & recs & Ed & Em)].
    + exists d. rewrite Em, Er. auto.
    + subst d. pose proof Hw as (Hid & Hne & HF & Hs & Hlt & Hfl). rewrite Em.
      unfold flatten. cbn [size records_of]. rewrite flatten_recs_spec by assumption.
      pose proof (D_length recs HF) as HL. pose proof (sum_len_pos _ HF Hne).
      exists (DLeaf (mkLeaf fresh (D recs))). rewrite read_ok by lia.
      cbn [denote]. split; [do 2 f_equal; apply slice_all; lia|]. split; [|split; [reflexivity|right; reflexivity]].
      simpl. split; [unfold leaf_size; simpl; lia|]. simpl. split; intro Hx; [|contradiction].
      rewrite Hx in HL. simpl in HL. lia.
Qed.

(* ================================================================= copy_region *)
Lemma copy_region_leaf_spec : forall fresh l from sz loc acc, wf_leaf l -> fresh <> EMPTY_ID ->
  0 <= from -> 0 < sz -> from + sz <= leaf_size l ->
  exists r, copy_region_leaf fresh l from sz loc acc = Some (r, acc) /\ wf r /\ size r = sz /\
     denote r = slice (l_bytes l) from sz /\ (r = DLeaf l \/ obj_id r = fresh).
Proof.
  intros fresh l from sz loc acc Hl Hf Hfr Hsz Hb. pose proof Hl as [Hl1 _].
  unfold copy_region_leaf, copy_region_body, map_direct. cbn [size].
  destruct (Z.eqb_spec from 0) as [E0|E0]; destruct (Z.eqb_spec sz (leaf_size l)) as [E1|E1]; cbn [andb].
  - exists (DLeaf l). subst. split; [reflexivity|]. split; [assumption|]. split; [reflexivity|]. split; [|left; reflexivity].
    simpl. symmetry. apply slice_all. unfold leaf_size. lia.
  - eexists. split; [reflexivity|]. split; [|split; [reflexivity|split; [|right; reflexivity]]].
    + apply wf_comp_intro; try assumption; try discriminate; [|simpl; lia|lia].
      constructor; [|constructor]. apply wf_rec_intro; try assumption; lia.
    + simpl. apply app_nil_r.
  - eexists. split; [reflexivity|]. split; [|split; [reflexivity|split; [|right; reflexivity]]].
    + apply wf_comp_intro; try assumption; try discriminate; [|simpl; lia|lia].
      constructor; [|constructor]. apply wf_rec_intro; try assumption; lia.
    + simpl. apply app_nil_r.
  - eexists. split; [reflexivity|]. split; [|split; [reflexivity|split; [|right; reflexivity]]].
    + apply wf_comp_intro; try assumption; try discriminate; [|simpl; lia|lia].
      constructor; [|constructor]. apply wf_rec_intro; try assumption; lia.
    + simpl. apply app_nil_r.
Qed.

Lemma copy_walk_spec : forall fresh recs offset loc acc, Forall wf_rec recs -> fresh <> EMPTY_ID ->
  0 <= offset -> offset <= loc < offset + sum_len recs -> 0 <= acc -> acc + offset + sum_len recs < M64 ->
  exists pre rk post r, recs = pre ++ rk :: post /\
    copy_walk copy_region_leaf fresh recs 0 offset loc acc = Some (r, acc + offset + sum_len pre) /\
    offset + sum_len pre <= loc < offset + sum_len pre + r_len rk /\
    wf r /\ size r = r_len rk /\ denote r = denote_rec rk /\ (r = DLeaf (r_obj rk) \/ obj_id r = fresh).
Proof.
  induction recs as [|r t IH]; intros offset loc acc HF Hf Ho Hloc Ha Hlt; simpl in Hloc; [lia|].
  inversion HF as [|? ? Hr Ht]; subst. pose proof (sum_len_nonneg _ Ht). pose proof Hr as (Hl & Hfr & Hn & Hb).
  pose proof Hl as [Hl1 _]. simpl in Hlt. cbn [copy_walk].
  rewrite Z.geb_leb. destruct (Z.leb_spec (r_len r) 0); [lia|].
  rewrite Z.sub_0_r. rewrite (u64_small (r_len r)) by lia. rewrite (u64_small (offset + r_len r)) by lia.
  rewrite Z.geb_leb. destruct (Z.leb_spec (offset + r_len r) loc).
  - destruct (IH (offset + r_len r) loc acc Ht Hf ltac:(lia) ltac:(lia) Ha ltac:(lia))
      as (pre & rk & post & r' & Er & Ew & Hb' & Hw & Hs & Hd & Hi).
    exists (r :: pre), rk, post, r'. subst t. simpl. rewrite Ew.
    split; [reflexivity|]. split; [f_equal; f_equal; lia|]. split; [lia|]. auto.
  - rewrite Z.add_0_l. rewrite (u64_small (r_from r)), (u64_small (acc + offset)) by lia.
    destruct (copy_region_leaf_spec fresh (r_obj r) (r_from r) (r_len r) (u64 (loc - offset)) (acc + offset) Hl Hf Hfr Hn Hb)
      as (r' & Ec & Hw & Hs & Hd & Hi).
    exists [], r, t, r'. simpl. rewrite Ec.
    split; [reflexivity|]. split; [f_equal; f_equal; lia|]. split; [lia|]. auto.
Qed.

Theorem copy_region_spec : forall fresh d loc, wf d -> fresh <> EMPTY_ID -> 0 <= loc < M64 ->
  exists r off, copy_region fresh d loc = Some (r, off) /\ wf r /\
    (size d <= loc -> r = empty /\ off = size d) /\
    (loc < size d -> off <= loc < off + size r /\ denote r = slice (denote d) off (size r)).
Proof.
  intros fresh d loc Hw Hf Hloc. unfold copy_region. pose proof (size_nonneg d Hw) as Hsn.
  rewrite Z.geb_leb. destruct (Z.leb_spec (size d) loc).
  - exists empty, (size d). split; [reflexivity|]. split; [apply wf_empty|]. split; [auto|lia].
  - assert (Ez : size d <> 0) by lia. pose proof (size_denote d Hw) as Hsd.
    unfold copy_region_body. rewrite Z.eqb_refl, Z.eqb_refl. cbn [andb].
    destruct (map_direct_cases d Hw Ez) as [(d1 & o & buf & base & Em & Er & Hb) | (id & sz & recs & Ed & Em)].
    + rewrite Em. exists d, 0. split; [reflexivity|]. split; [assumption|]. split; [lia|]. intros _. split; [lia|].
      symmetry. apply slice_all. lia.
    + rewrite Em. subst d. pose proof Hw as (Hid & Hne & HF & Hs & Hlt & Hfl). cbn [records_of size] in *.
      destruct (copy_walk_spec fresh recs 0 loc 0 HF Hf ltac:(lia) ltac:(lia) ltac:(lia) ltac:(lia))
        as (pre & rk & post & r' & Er & Ew & Hb' & Hw' & Hs' & Hd' & Hi).
      exists r', (0 + 0 + sum_len pre). split; [assumption|]. split; [assumption|]. split; [lia|]. intros _.
      split; [lia|]. subst recs. apply Forall_app in HF as [HFp HFr]. inversion HFr as [|? ? Hrk HFpost]; subst.
      rewrite Hd', Hs'. cbn [denote]. rewrite flat_map_app.
      rewrite slice_app_r by (rewrite ?D_length by assumption; lia). rewrite D_length by assumption.
      cbn [flat_map]. rewrite slice_app_l by (rewrite ?denote_rec_length by assumption; lia).
      replace (0 + 0 + sum_len pre - sum_len pre) with 0 by lia.
      symmetry. apply slice_all. rewrite denote_rec_length by assumption. lia.
Qed.

(* ================================================================= no fault; closure under all operation trees *)
Theorem no_fault : forall fresh d off len loc f, wf d -> fresh <> EMPTY_ID ->
  0 <= off < M64 -> 0 <= len < M64 -> 0 <= loc < M64 ->
  subrange fresh d off len <> None /\ apply d f <> None /\ regions d <> None /\ map_bytes fresh d <> None /\
  copy_region fresh d loc <> None.
Proof.
  intros fresh d off len loc f Hw Hf Ho Hn Hl.
  destruct (subrange_spec fresh d off len Hw Hf Ho Hn) as (? & E1 & _).
  destruct (apply_spec d Hw) as (? & E2 & _ & _ & E3).
  destruct (map_spec fresh d Hw Hf) as (? & E4 & _).
  destruct (copy_region_spec fresh d loc Hw Hf Hl) as (? & ? & E5 & _).
  rewrite E1, E2, E3, E4, E5. repeat split; discriminate.
Qed.

Lemma flatten_priv_spec : forall d, wf d -> wf (flatten_priv d) /\ denote (flatten_priv d) = denote d /\
  size (flatten_priv d) = size d /\ obj_id (flatten_priv d) = obj_id d.
Proof.
  intros d Hw. unfold flatten_priv. destruct (size d =? 0); [auto|].
  destruct d as [l | id fl sz recs]; [auto|]. destruct fl; [auto|].
  pose proof Hw as (Hid & Hne & HF & Hs & Hlt & Hfl).
  destruct recs as [|r [|r2 t]]; [congruence|auto|].
  split; [|auto]. simpl. split; [assumption|]. split; [assumption|]. split; [assumption|]. split; [assumption|].
  split; [assumption|]. intros _. simpl. lia.
Qed.

Theorem built_wf : forall d, built d -> wf d.
Proof.
  induction 1.
  - apply wf_empty.
  - simpl. split; [assumption|]. simpl. split; intro; contradiction.
  - exact (proj1 (wf_concat f a b d IHbuilt1 IHbuilt2 H1 H2)).
  - destruct (subrange_spec f a off len IHbuilt H0 H1 H2) as (d' & E & Hw & _). congruence.
  - destruct (map_spec f a IHbuilt H0) as (d' & E & Hw & _). congruence.
  - destruct (copy_region_spec f a loc IHbuilt H0 H1) as (r & o & E & Hw & _). congruence.
  - apply flatten_priv_spec. assumption.
Qed.

(* ================================================================= ownership: a destructor never runs twice *)
(* J: every id whose destructor has been called is gone from the heap, and dlog has no duplicates *)
Definition dinv (st : state) : Prop := NoDup (dlog st) /\ forall k, In k (dlog st) -> heap st k = None.

Lemma hupd_same : forall h k e, hupd h k e k = e.
Proof. intros. unfold hupd. now rewrite Z.eqb_refl. Qed.
Lemma hupd_other : forall h k e j, j <> k -> hupd h k e j = h j.
Proof. intros. unfold hupd. destruct (Z.eqb_spec j k); congruence. Qed.

Lemma NoDup_snoc : forall (l : list Z) x, NoDup l -> ~ In x l -> NoDup (l ++ [x]).
Proof.
  induction l as [|y t IH]; intros x Hn Hx; simpl; [constructor; [tauto|constructor]|].
  inversion Hn; subst. constructor.
  - rewrite in_app_iff. simpl. intros [?|[?|[]]]; [tauto|]. subst. apply Hx. now left.
  - apply IH; [assumption|]. intro. apply Hx. now right.
Qed.

Lemma dinv_upd_live : forall st k e e', dinv st -> heap st k = Some e ->
  dinv (mkState (hupd (heap st) k (Some e')) (dlog st) (flog st)).
Proof.
  intros st k e e' [Hn Hd] Hk. split; [assumption|]. simpl. intros j Hj.
  destruct (Z.eq_dec j k) as [->|Hne]; [rewrite (Hd k Hj) in Hk; discriminate|].
  rewrite hupd_other by assumption. auto.
Qed.

Lemma dinv_retain : forall st id, dinv st -> dinv (retain_id st id).
Proof.
  intros st id H. unfold retain_id. destruct (id =? EMPTY_ID); [assumption|].
  destruct (heap st id) eqn:E; [|assumption]. eapply dinv_upd_live; eassumption.
Qed.

Lemma dinv_release_leaf : forall st id, dinv st -> dinv (release_leaf st id).
Proof.
  intros st id H. unfold release_leaf. destruct (id =? EMPTY_ID); [assumption|].
  destruct (heap st id) as [e|] eqn:E; [|assumption].
  assert (Hfree : dinv (mkState (hupd (heap st) id None) (dlog st ++ [id]) (flog st ++ [id]))).
  { destruct H as [Hn Hd]. split; simpl.
    - apply NoDup_snoc; [assumption|]. intro Hi. rewrite (Hd _ Hi) in E. discriminate.
    - intros j Hj. apply in_app_or in Hj. destruct Hj as [Hj|[<-|[]]].
      + destruct (Z.eq_dec j id) as [->|Hne]; [apply hupd_same|]. rewrite hupd_other by assumption. auto.
      + apply hupd_same. }
  destruct (e_rc e) as [|[|n]]; try assumption. eapply dinv_upd_live; eassumption.
Qed.

Lemma dinv_fold_release : forall recs st, dinv st ->
  dinv (fold_left (fun s r => release_leaf s (l_id (r_obj r))) recs st).
Proof. induction recs; intros; simpl; [assumption|]. apply IHrecs. apply dinv_release_leaf. assumption. Qed.

Lemma dinv_fold_retain : forall recs st, dinv st ->
  dinv (fold_left (fun s r => retain_id s (l_id (r_obj r))) recs st).
Proof. induction recs; intros; simpl; [assumption|]. apply IHrecs. apply dinv_retain. assumption. Qed.

Lemma dinv_release : forall st id, dinv st -> dinv (release_id st id).
Proof.
  intros st id H. unfold release_id. destruct (id =? EMPTY_ID); [assumption|].
  destruct (heap st id) as [e|] eqn:E; [|assumption].
  assert (Hgone : forall recs, dinv (fold_left (fun s r => release_leaf s (l_id (r_obj r))) recs
                    (mkState (hupd (heap st) id None) (dlog st) (flog st ++ [id])))).
  { intro recs. apply dinv_fold_release. destruct H as [Hn Hd]. split; [assumption|]. simpl. intros j Hj.
    destruct (Z.eq_dec j id) as [->|Hne]; [apply hupd_same|]. rewrite hupd_other by assumption. auto. }
  destruct (e_rc e) as [|[|n]].
  - destruct (e_obj e); [apply dinv_release_leaf; assumption|apply Hgone].
  - destruct (e_obj e); [apply dinv_release_leaf; assumption|apply Hgone].
  - eapply dinv_upd_live; eassumption.
Qed.

(* an object that is not yet in the heap may only be adopted under an id that was never destroyed *)
Lemma dinv_adopt : forall st d, dinv st -> (heap st (obj_id d) = None -> ~ In (obj_id d) (dlog st)) -> dinv (adopt st d).
Proof.
  intros st d H Hfresh. unfold adopt. destruct (obj_id d =? EMPTY_ID); [assumption|].
  destruct (heap st (obj_id d)) eqn:E; [apply dinv_retain; assumption|].
  assert (Hnew : dinv (mkState (hupd (heap st) (obj_id d) (Some (mkEntry d 1%nat))) (dlog st) (flog st))).
  { destruct H as [Hn Hd]. split; [assumption|]. simpl. intros j Hj.
    destruct (Z.eq_dec j (obj_id d)) as [->|Hne]; [exfalso; apply (Hfresh eq_refl); assumption|].
    rewrite hupd_other by assumption. auto. }
  destruct d; [assumption|]. apply dinv_fold_retain. assumption.
Qed.

(* ids handed to the library for new objects have never been used for a destroyed buffer *)
Definition op_fresh_ok (st : state) (o : op) : Prop :=
  match o with
  | OCreate id _ | OConcat id _ _ | OSubrange id _ _ _ | OMap id _ | OCopyRegion id _ _ =>
      ~ In id (dlog st) /\ heap st id = None
  | _ => True
  end.

Lemma get_live : forall st a d, get st a = Some d -> a <> EMPTY_ID -> exists e, heap st a = Some e /\ e_obj e = d.
Proof.
  intros st a d H Hne. unfold get in H. destruct (Z.eqb_spec a EMPTY_ID); [congruence|].
  destruct (heap st a) as [e|]; [|discriminate]. exists e. split; congruence.
Qed.

(* the object a deriving call returns is live, or carries an id that was never destroyed.  For results that are new
   objects (id = fresh) this is op_fresh_ok; for results that are the operand it is liveness of the operand; for results
   that are a record's leaf (subrange / copy_region hitting a whole leaf) it needs the reference-count invariant
   rc = handles + records, which is NOT proved here (see Properties_C13.v). *)
Definition result_ok (st : state) (o : op) : Prop :=
  match step st o with
  | Some (_, d) => heap st (obj_id d) = None -> ~ In (obj_id d) (dlog st)
  | None => True
  end.

Lemma dinv_step : forall st o st' d, dinv st -> op_fresh_ok st o -> result_ok st o -> step st o = Some (st', d) -> dinv st'.
Proof.
  intros st o st' d H Hf Hr Hs. unfold result_ok in Hr. rewrite Hs in Hr.
  destruct o; simpl in Hs, Hf.
  - (* create *) unfold create in Hs. destruct bytes; inversion Hs; subst; clear Hs.
    + destruct H as [Hn Hd]. destruct Hf as [Hf1 Hf2]. split; simpl; [apply NoDup_snoc; assumption|].
      intros j Hj. apply in_app_or in Hj. destruct Hj as [Hj|[<-|[]]]; auto.
    + destruct H as [Hn Hd]. destruct Hf as [Hf1 Hf2]. split; [assumption|]. simpl. intros j Hj.
      destruct (Z.eq_dec j id) as [->|Hne]; [contradiction|]. rewrite hupd_other by assumption. auto.
  - destruct (get st a), (get st b); try discriminate. destruct (concat fresh d0 d1); try discriminate.
    inversion Hs; subst. apply dinv_adopt; assumption.
  - destruct (get st a); try discriminate. destruct (subrange fresh d0 off len); try discriminate.
    inversion Hs; subst. apply dinv_adopt; assumption.
  - destruct (get st a); try discriminate. destruct (map fresh d0) as [[[? ?] ?]|]; try discriminate.
    inversion Hs; subst. apply dinv_adopt; assumption.
  - destruct (get st a); try discriminate. destruct (copy_region fresh d0 loc) as [[? ?]|]; try discriminate.
    inversion Hs; subst. apply dinv_adopt; assumption.
  - destruct (get st a); try discriminate. destruct (a =? EMPTY_ID); [inversion Hs; subst; assumption|].
    destruct (heap st a) eqn:E; try discriminate. inversion Hs; subst. eapply dinv_upd_live; eassumption.
  - destruct (get st a); try discriminate. inversion Hs; subst. apply dinv_retain. assumption.
  - destruct (get st a); try discriminate. inversion Hs; subst. apply dinv_release. assumption.
Qed.

(* histories: every step uses a never-used id for a new object and returns a live-or-never-destroyed object *)
Fixpoint history_ok (st : state) (ops : list op) : Prop :=
  match ops with
  | [] => True
  | o :: rest => op_fresh_ok st o /\ result_ok st o /\
                 match step st o with Some (st', _) => history_ok st' rest | None => True end
  end.

Theorem destructor_at_most_once : forall ops st st', dinv st -> history_ok st ops -> run st ops = Some st' ->
  NoDup (dlog st') /\ forall k, In k (dlog st') -> heap st' k = None.
Proof.
  induction ops as [|o rest IH]; intros st st' H Hh Hr; simpl in *.
  - inversion Hr; subst. exact H.
  - destruct Hh as (Hf & Hres & Hrest). destruct (step st o) as [[st1 d]|] eqn:E; [|discriminate].
    apply (IH st1 st'); [eapply dinv_step; eassumption|assumption|assumption].
Qed.

Lemma dinv_st0 : dinv st0.
Proof. split; [constructor|]. intros k []. Qed.
