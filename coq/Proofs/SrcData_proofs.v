(* SrcData_proofs.v — invariants of the pending-data protocol of custom data sources (Model/SrcData.v), for any number
   of merging threads, any interleaving with the drain side, suspension, resumption and cancellation. *)
From Coq Require Import ZArith Bool List Lia.
From Verif Require Import Word Bits Conc Gen_consts Gen_fields Gen_dqstate Gen_srcdata SrcData.
Import ListNotations.
Local Open Scope Z_scope.

(* ---- ties to the generated definitions ---- *)
Lemma sites_merge_data : model_sites_merge_data = dispatch_source_merge_data_sites.
Proof. reflexivity. Qed.
Lemma sites_latch_and_call : model_sites_latch_and_call = f_dispatch_source_latch_and_call_sites.
Proof. reflexivity. Qed.
Lemma sites_get_data : model_sites_get_data = dispatch_source_get_data_sites.
Proof. reflexivity. Qed.
Lemma wakeup_order_release : wakeup_loop_order = Release.
Proof. reflexivity. Qed.

(* interface lemma about the generated rmw body of _dispatch_queue_wakeup: called with DISPATCH_WAKEUP_MAKE_DIRTY it
   always commits, and the committed word carries DISPATCH_QUEUE_DIRTY — for every old word and every qos *)
Lemma land_lor_same x d : Z.land (Z.lor x d) d = d.
Proof.
  apply Z.bits_inj'. intros n Hn. rewrite Z.land_spec, Z.lor_spec. destruct (Z.testbit x n), (Z.testbit d n); reflexivity.
Qed.
Lemma wake_body_dirty q old : exists new, wake_body q old = Commit new 0 /\ word_dirty new = true.
Proof.
  unfold wake_body, wakeup_loop, wake_flags. change (nz (Z.land (Z.lor DISPATCH_WAKEUP_MAKE_DIRTY DISPATCH_WAKEUP_CONSUME_2) 2)) with true.
  cbv iota. eexists. split; [reflexivity|]. unfold word_dirty, f_dq_state_is_dirty. rewrite land_lor_same. reflexivity.
Qed.
Lemma wake_commits_dirty old new : wake_commits old new = true -> word_dirty new = true.
Proof.
  unfold wake_commits. intros H. apply existsb_exists in H as (q & _ & H).
  destruct (wake_body_dirty q old) as (n & E & D). rewrite E in H. apply Z.eqb_eq in H. subst. exact D.
Qed.

(* ---- small facts about the model's helper functions ---- *)
Lemma latch_next_cases k x : (x = 0 /\ latch_next k x = PPost) \/ (x <> 0 /\ latch_next k x = PCall x).
Proof.
  unfold latch_next. destruct (Z.eqb_spec x 0) as [->|N]; [left|right]; split; auto. destruct (is_replace k); reflexivity.
Qed.
Lemma latch_val k x : match latch_next k x with PCall prev => prev | _ => 0 end = x.
Proof. destruct (latch_next_cases k x) as [[-> ->]|[_ ->]]; reflexivity. Qed.

Definition drain_pc (p : pc) : bool :=
  match p with PD0 | PDSaw _ | PDNone | PCall _ | PInCall | PPost | PDReq => true | _ => false end.
Definition waking (p : pc) : bool := match p with PWFlags | PWPend | PWState | PWBody _ => true | _ => false end.
Definition recheck (p : pc) : bool := match p with PD0 | PDSaw _ | PDReq => true | _ => false end.
Definition M64 := 18446744073709551616.

(* ---- invariant 1: the drain lock ---- *)
Definition own_inv (s : gst) : Prop :=
  match owner s with
  | None => latched s = 0 /\ running s = 0
  | Some o => drain_pc (pcs s o) = true /\
      match pcs s o with
      | PCall p => latched s = p /\ p <> 0 /\ running s = 0
      | PInCall => latched s = 0 /\ running s = 1
      | _ => latched s = 0 /\ running s = 0
      end
  end.
Definition thr_inv (s : gst) (t : Z) : Prop := drain_pc (pcs s t) = true -> owner s = Some t.
Definition Inv1 (s : gst) : Prop := own_inv s /\ forall t, thr_inv s t.

(* ---- invariant 2: the data ---- *)
Definition data_inv (k : dkind) (s : gst) : Prop :=
  Forall (fun d => d <> 0) (delivered s) /\
  (cancelled s = false -> dropped s = []) /\
  match k with
  | KindAdd => (zsum (delivered s) + latched s + pend s) mod M64 = zsum (merged s) mod M64
  | KindOr => Z.lor (zlor (delivered s)) (Z.lor (latched s) (pend s)) = zlor (merged s)
  | KindReplace =>
      Forall (fun d => In d (merged s)) (delivered s) /\
      (latched s = 0 \/ In (latched s) (merged s)) /\ (pend s = 0 \/ In (pend s) (merged s)) /\
      (pend s = hd 0 (merged s) \/
       (pend s = 0 /\ (latched s = hd 0 (merged s) \/ (latched s = 0 /\ hd 0 (delivered s) = hd 0 (merged s)))))
  end.

(* ---- invariant 3: pending data is never left behind ---- *)
Definition ns_inv (s : gst) : Prop :=
  pend s <> 0 -> cancelled s = false ->
  rq s = true \/ (exists u, waking (pcs s u) = true) \/ (exists o, owner s = Some o /\ recheck (pcs s o) = true).

Definition Inv (c : cfg) (s : gst) : Prop := Inv1 s /\ data_inv (ck c) s /\ ns_inv s.

Lemma Inv_init c : Inv c init_state.
Proof.
  unfold Inv, Inv1, own_inv, thr_inv, data_inv, ns_inv, init_state; cbn. repeat split; auto; try discriminate.
  destruct (ck c); cbn; repeat split; auto.
Qed.

(* ---- preservation lemmas for invariant 1 ---- *)
Lemma inv1_nondrain s s' t p' :
  Inv1 s -> drain_pc (pcs s t) = false -> drain_pc p' = false -> pcs s' = upd (pcs s) t p' ->
  owner s' = owner s -> latched s' = latched s -> running s' = running s -> Inv1 s'.
Proof.
  intros [HO HT] D D' Ep Eo El Er. split.
  - unfold own_inv in *. rewrite Eo, El, Er, Ep. destruct (owner s) as [o|]; [|exact HO].
    destruct (Z.eq_dec o t) as [->|N].
    + destruct HO as [X _]. congruence.
    + rewrite upd_other by exact N. exact HO.
  - intros u. unfold thr_inv. rewrite Ep, Eo. destruct (Z.eq_dec u t) as [->|N].
    + rewrite upd_same. congruence.
    + rewrite upd_other by exact N. apply HT.
Qed.

Lemma inv1_drain s s' t p' :
  Inv1 s -> drain_pc (pcs s t) = true -> drain_pc p' = true -> pcs s' = upd (pcs s) t p' -> owner s' = owner s ->
  match p' with
  | PCall p => latched s' = p /\ p <> 0 /\ running s' = 0
  | PInCall => latched s' = 0 /\ running s' = 1
  | _ => latched s' = 0 /\ running s' = 0
  end -> Inv1 s'.
Proof.
  intros [HO HT] D D' Ep Eo H. pose proof (HT t D) as Ot. split.
  - unfold own_inv. rewrite Eo, Ot, Ep, upd_same. split; [exact D'|exact H].
  - intros u. unfold thr_inv. rewrite Ep, Eo. destruct (Z.eq_dec u t) as [->|N].
    + intros _. exact Ot.
    + rewrite upd_other by exact N. apply HT.
Qed.

Lemma inv1_lock s s' t :
  Inv1 s -> drain_pc (pcs s t) = false -> owner s = None -> pcs s' = upd (pcs s) t PD0 -> owner s' = Some t ->
  latched s' = latched s -> running s' = running s -> Inv1 s'.
Proof.
  intros [HO HT] D On Ep Eo El Er. split.
  - unfold own_inv in *. rewrite Eo, El, Er, Ep, upd_same. rewrite On in HO. split; [reflexivity|exact HO].
  - intros u. unfold thr_inv. rewrite Ep, Eo. destruct (Z.eq_dec u t) as [->|N]; [reflexivity|].
    rewrite upd_other by exact N. intros X. specialize (HT u X). congruence.
Qed.

Lemma inv1_unlock s s' t :
  Inv1 s -> drain_pc (pcs s t) = true -> (forall p, pcs s t <> PCall p) -> pcs s t <> PInCall ->
  pcs s' = upd (pcs s) t PIdle -> owner s' = None -> latched s' = latched s -> running s' = running s -> Inv1 s'.
Proof.
  intros [HO HT] D NC NI Ep Eo El Er. pose proof (HT t D) as Ot. split.
  - unfold own_inv in *. rewrite Eo, El, Er. rewrite Ot in HO. destruct HO as [_ HO].
    destruct (pcs s t); try exact HO; [exfalso; eapply NC; reflexivity | contradiction].
  - intros u. unfold thr_inv. rewrite Ep, Eo. destruct (Z.eq_dec u t) as [->|N].
    + rewrite upd_same. discriminate.
    + rewrite upd_other by exact N. intros X. specialize (HT u X). congruence.
Qed.

(* what invariant 1 says about the stepping thread *)
Lemma own_at s t : Inv1 s -> drain_pc (pcs s t) = true ->
  owner s = Some t /\
  match pcs s t with
  | PCall p => latched s = p /\ p <> 0 /\ running s = 0
  | PInCall => latched s = 0 /\ running s = 1
  | _ => latched s = 0 /\ running s = 0
  end.
Proof.
  intros [HO HT] D. pose proof (HT t D) as Ot. split; [exact Ot|]. unfold own_inv in HO. rewrite Ot in HO. apply HO.
Qed.

(* ---- preservation lemmas for invariant 3 ---- *)
Lemma ns_frame s s' t p' :
  ns_inv s -> pcs s' = upd (pcs s) t p' -> pend s' = pend s -> cancelled s' = cancelled s ->
  (rq s = true -> rq s' = true) -> owner s' = owner s ->
  (waking (pcs s t) = true -> waking p' = true) -> (recheck (pcs s t) = true -> recheck p' = true) -> ns_inv s'.
Proof.
  intros HN Ep Epe Ec Er Eo Hw Hr. unfold ns_inv in *. rewrite Epe, Ec, Ep, Eo. intros A B.
  destruct (HN A B) as [R|[[u Hu]|[o [Ho Hc]]]].
  - left. auto.
  - right; left. exists u. destruct (Z.eq_dec u t) as [->|N]; [rewrite upd_same; auto | rewrite upd_other by exact N; exact Hu].
  - right; right. exists o. split; [exact Ho|].
    destruct (Z.eq_dec o t) as [->|N]; [rewrite upd_same; auto | rewrite upd_other by exact N; exact Hc].
Qed.
Lemma ns_pend0 s : pend s = 0 -> ns_inv s.
Proof. intros E A. contradiction. Qed.
Lemma ns_rq s : rq s = true -> ns_inv s.
Proof. intros E _ _. left. exact E. Qed.
Lemma ns_cancel s : cancelled s = true -> ns_inv s.
Proof. intros E _ B. congruence. Qed.
Lemma ns_wake s t : waking (pcs s t) = true -> ns_inv s.
Proof. intros E _ _. right; left. exists t. exact E. Qed.
Lemma ns_recheck s t : owner s = Some t -> recheck (pcs s t) = true -> ns_inv s.
Proof. intros E R _ _. right; right. exists t. auto. Qed.
(* the drain lock is given back with the source neither enqueued nor dirty: somebody else must be about to wake it *)
Lemma ns_unlock0 s s' t :
  ns_inv s -> rq s = false -> owner s = Some t -> recheck (pcs s t) = false -> waking (pcs s t) = false ->
  pcs s' = upd (pcs s) t PIdle -> pend s' = pend s -> cancelled s' = cancelled s -> ns_inv s'.
Proof.
  intros HN R Ot Rc Wk Ep Epe Ec. unfold ns_inv in *. rewrite Epe, Ec, Ep. intros A B.
  destruct (HN A B) as [X|[[u Hu]|[o [Ho Hc]]]]; [congruence| |].
  - right; left. exists u. destruct (Z.eq_dec u t) as [->|N]; [congruence|]. rewrite upd_other by exact N. exact Hu.
  - assert (o = t) by congruence. subst o. congruence.
Qed.

(* ---- preservation lemmas for invariant 2 ---- *)
Ltac lor_solve :=
  apply Z.bits_inj'; intros ?n ?Hn; rewrite ?Z.lor_spec, ?Z.bits_0;
  repeat match goal with |- context [Z.testbit ?x ?n] => destruct (Z.testbit x n) end; reflexivity.

Lemma data_merge k s s' v :
  data_inv k s -> pend s' = apply_merge k (pend s) v -> merged s' = v :: merged s -> latched s' = latched s ->
  delivered s' = delivered s -> dropped s' = dropped s -> cancelled s' = cancelled s -> data_inv k s'.
Proof.
  intros (A & B & C) Ep Em El Ed Edr Ec. unfold data_inv. rewrite Ep, Em, El, Ed, Edr, Ec.
  split; [exact A|]. split; [exact B|]. destruct k; cbn [apply_merge zsum zlor].
  - unfold u64. fold M64. rewrite Zplus_mod_idemp_r.
    replace (zsum (delivered s) + latched s + (pend s + v)) with ((zsum (delivered s) + latched s + pend s) + v) by ring.
    rewrite Zplus_mod, C, <- Zplus_mod. f_equal. ring.
  - rewrite <- C. lor_solve.
  - destruct C as (C1 & C2 & C3 & C4). split; [|split; [|split]].
    + eapply Forall_impl; [|exact C1]. intros a Ha. right. exact Ha.
    + destruct C2 as [C2|C2]; [left; exact C2 | right; right; exact C2].
    + right. left. reflexivity.
    + left. reflexivity.
Qed.

Lemma data_latch k s s' :
  data_inv k s -> latched s = 0 -> pend s' = 0 -> latched s' = pend s -> merged s' = merged s ->
  delivered s' = delivered s -> dropped s' = dropped s -> cancelled s' = cancelled s -> data_inv k s'.
Proof.
  intros (A & B & C) L0 Ep El Em Ed Edr Ec. unfold data_inv. rewrite Ep, Em, El, Ed, Edr, Ec.
  split; [exact A|]. split; [exact B|]. rewrite L0 in C. destruct k.
  - rewrite <- C. f_equal. ring.
  - rewrite <- C. lor_solve.
  - destruct C as (C1 & C2 & C3 & C4). split; [exact C1|]. split; [exact C3|]. split; [left; reflexivity|].
    right. split; [reflexivity|]. destruct C4 as [C4|(P0 & [C4|(_ & C4)])].
    + left. exact C4.
    + left. rewrite P0. exact C4.
    + right. split; [exact P0|exact C4].
Qed.

Lemma data_deliver k s s' prev :
  data_inv k s -> latched s = prev -> prev <> 0 -> latched s' = 0 -> delivered s' = prev :: delivered s ->
  pend s' = pend s -> merged s' = merged s -> dropped s' = dropped s -> cancelled s' = cancelled s -> data_inv k s'.
Proof.
  intros (A & B & C) L N El Ed Ep Em Edr Ec. unfold data_inv. rewrite Ep, Em, El, Ed, Edr, Ec.
  split; [constructor; [exact N|exact A]|]. split; [exact B|]. rewrite L in C. destruct k; cbn [zsum zlor hd].
  - rewrite <- C. f_equal. ring.
  - rewrite <- C. lor_solve.
  - destruct C as (C1 & C2 & C3 & C4). split; [|split; [|split]].
    + constructor; [|exact C1]. destruct C2 as [C2|C2]; [contradiction|exact C2].
    + left. reflexivity.
    + exact C3.
    + destruct C4 as [C4|(P0 & [C4|(C4 & _)])]; [left; exact C4 | | contradiction].
      right. split; [exact P0|]. right. split; [reflexivity|exact C4].
Qed.

Lemma data_cancel k s s' :
  data_inv k s -> cancelled s' = true -> pend s' = pend s -> latched s' = latched s -> merged s' = merged s ->
  delivered s' = delivered s -> data_inv k s'.
Proof.
  intros (A & B & C) Ec Ep El Em Ed. unfold data_inv. rewrite Ep, Em, El, Ed, Ec.
  split; [exact A|]. split; [discriminate|exact C].
Qed.

(* ---- the step lemma ---- *)
Ltac split_hyp H :=
  repeat match type of H with
  | context [if ?c then _ else _] => let E := fresh "E" in destruct c eqn:E; try discriminate H
  | context [match ?x with _ => _ end] => let E := fresh "E" in destruct x eqn:E; try discriminate H
  end.

Ltac t_inv1 s t H1 Hpc :=
  lazymatch goal with
  | |- Inv1 {| pend := _; cancelled := _; susp := _; rq := _; owner := _; pcs := upd _ _ ?p; latched := _; running := _;
              merged := _; dropped := _; delivered := _ |} =>
  first
  [ solve [apply (inv1_nondrain s _ t p H1); [rewrite Hpc; reflexivity | reflexivity | reflexivity | reflexivity | reflexivity | reflexivity]]
  | solve [apply (inv1_lock s _ t H1); [rewrite Hpc; reflexivity | assumption | reflexivity | reflexivity | reflexivity | reflexivity]]
  | solve [apply (inv1_unlock s _ t H1); [rewrite Hpc; reflexivity | rewrite Hpc; discriminate | rewrite Hpc; discriminate | reflexivity | reflexivity | reflexivity | reflexivity]]
  | solve [apply (inv1_drain s _ t p H1); [rewrite Hpc; reflexivity | reflexivity | reflexivity | reflexivity | cbn; auto]] ]
  end.
Ltac t_ns s t HN Hpc :=
  first
  [ solve [eapply (ns_frame s _ t _ HN); [reflexivity | reflexivity | reflexivity | cbn; auto | reflexivity
                                          | rewrite Hpc; intros X; try discriminate X; reflexivity
                                          | rewrite Hpc; intros X; try discriminate X; reflexivity]]
  | solve [apply ns_rq; reflexivity]
  | solve [apply ns_cancel; reflexivity]
  | solve [apply ns_pend0; cbn; first [reflexivity | congruence | lia]]
  | solve [apply (ns_wake _ t); cbn; rewrite upd_same; reflexivity]
  | solve [apply (ns_recheck _ t); cbn; [first [reflexivity | assumption] | rewrite upd_same; reflexivity]] ].

Lemma step_preserves c s t e s' : Inv c s -> gstep c s t e = Some s' -> Inv c s'.
Proof.
  intros (H1 & HD & HN) Hs. unfold gstep in Hs.
  destruct (tstep c (pcs s t) e) as [p'|] eqn:Hts; [|discriminate].
  pose proof (own_at s t H1) as OA.
  destruct (pcs s t) eqn:Hpc; cbn [tstep] in Hts; cbv beta iota zeta in Hs;
    cbn [drain_pc] in OA; try (specialize (OA eq_refl); destruct OA as [Ot OA]).
  all: try rewrite latch_val in Hs.
  all: unfold pend_seen in Hts.
  all: split_hyp Hs.
  all: try (injection Hs as <-).
  all: split_hyp Hts.
  all: try (injection Hts as <-).
  all: split; [try t_inv1 s t H1 Hpc | split; [try exact HD | try t_ns s t HN Hpc]].
  - (* PIdle, cancel *) eapply data_cancel; [exact HD|..]; reflexivity.
  - (* PMFlags: the cancel flag was seen; the value is dropped *)
    destruct HD as (A & B & C). split; [exact A|]. split; [|exact C]. cbn.
    match goal with H : Bool.eqb true (cancelled s) = true |- _ => apply eqb_prop in H; rewrite <- H end. discriminate.
  - (* PMOp: the merge itself *) eapply (data_merge _ s _ v HD); reflexivity.
  - (* PWFlags: cancel seen by the wakeup *)
    apply ns_cancel. cbn. match goal with H : Bool.eqb true (cancelled s) = true |- _ => apply eqb_prop in H; auto end.
  - (* PWBody: the wakeup commits a DIRTY word *)
    apply ns_rq. cbn.
    match goal with H : _ && wake_commits _ _ = true |- _ => apply andb_true_iff in H as [_ H]; rewrite (wake_commits_dirty _ _ H) end.
    apply orb_true_r.
  - (* PD0: unlock without examining pending data happens only on a cancelled source *)
    apply ns_cancel. cbn. match goal with H : cancelled s && _ = true |- _ => apply andb_true_iff in H as [H _]; exact H end.
  - (* PDSaw: the exchange, lock side *)
    destruct OA as [L0 R0]. destruct (latch_next_cases (ck c) (ea e)) as [[Z0 ->]|[NZ ->]].
    + apply (inv1_drain s _ t PPost H1); [rewrite Hpc; reflexivity | reflexivity | reflexivity | reflexivity | cbn; auto].
    + apply (inv1_drain s _ t (PCall (ea e)) H1); [rewrite Hpc; reflexivity | reflexivity | reflexivity | reflexivity | cbn; auto].
  - (* PDSaw: the exchange, data side *)
    destruct OA as [L0 R0]. eapply (data_latch _ s _ HD L0); try reflexivity. cbn.
    match goal with H : (ea e =? pend s) = true |- _ => apply Z.eqb_eq in H; exact H end.
  - (* PDNone: clean unlock *)
    match goal with H : true && negb (rq s) = true |- _ => cbn in H; apply negb_true_iff in H;
      eapply (ns_unlock0 s _ t HN H Ot); [rewrite Hpc; reflexivity | rewrite Hpc; reflexivity | reflexivity | reflexivity | reflexivity] end.
  - (* PCall: handler begins, lock side *)
    destruct OA as (L & N & R0).
    apply (inv1_drain s _ t PInCall H1); [rewrite Hpc; reflexivity | reflexivity | reflexivity | reflexivity | cbn; split; [reflexivity|lia]].
  - (* PCall: handler begins, data side *)
    destruct OA as (L & N & R0). eapply (data_deliver _ s _ prev HD L N); reflexivity.
  - (* PInCall: handler ends *)
    destruct OA as (L & R1).
    apply (inv1_drain s _ t PPost H1); [rewrite Hpc; reflexivity | reflexivity | reflexivity | reflexivity | cbn; split; [exact L|lia]].
  - (* PPost: clean unlock *)
    match goal with H : true && negb (rq s) = true |- _ => cbn in H; apply negb_true_iff in H;
      eapply (ns_unlock0 s _ t HN H Ot); [rewrite Hpc; reflexivity | rewrite Hpc; reflexivity | reflexivity | reflexivity | reflexivity] end.
Qed.

(* ---- consequences ---- *)
Theorem inv_reach c s : reach c s -> Inv c s.
Proof.
  apply invariant_lift.
  - intros ? ->. apply Inv_init.
  - intros s0 [t e] s1 HI [_ Hs]. cbn in *. eapply step_preserves; eauto.
Qed.

Lemma quiescent_unlocked s : Inv1 s -> quiescent s -> owner s = None /\ latched s = 0 /\ running s = 0.
Proof.
  intros [HO _] Q. unfold own_inv in HO. destruct (owner s) as [o|]; [|auto].
  destruct HO as [X _]. rewrite (Q o) in X. discriminate.
Qed.

(* ADD: nothing is lost or duplicated, at every moment; at rest with nothing pending the sums agree *)
Lemma add_conservation c s : reach c s -> ck c = KindAdd ->
  (zsum (delivered s) + latched s + pend s) mod 2 ^ 64 = zsum (merged s) mod 2 ^ 64 /\
  (quiescent s -> pend s = 0 -> zsum (delivered s) mod 2 ^ 64 = zsum (merged s) mod 2 ^ 64) /\
  (cancelled s = false -> dropped s = []).
Proof.
  intros R K. destruct (inv_reach c s R) as (H1 & (A & B & C) & _). rewrite K in C. change M64 with (2 ^ 64) in C.
  split; [exact C|]. split; [|exact B]. intros Q P0. destruct (quiescent_unlocked s H1 Q) as (_ & L0 & _).
  rewrite <- C, L0, P0. f_equal. ring.
Qed.

Lemma or_union c s : reach c s -> ck c = KindOr ->
  Z.lor (zlor (delivered s)) (Z.lor (latched s) (pend s)) = zlor (merged s) /\
  (quiescent s -> pend s = 0 -> zlor (delivered s) = zlor (merged s)) /\
  (cancelled s = false -> dropped s = []).
Proof.
  intros R K. destruct (inv_reach c s R) as (H1 & (A & B & C) & _). rewrite K in C.
  split; [exact C|]. split; [|exact B]. intros Q P0. destruct (quiescent_unlocked s H1 Q) as (_ & L0 & _).
  rewrite <- C, L0, P0. rewrite !Z.lor_0_r. reflexivity.
Qed.

Lemma replace_spec c s : reach c s -> ck c = KindReplace ->
  Forall (fun d => In d (merged s)) (delivered s) /\
  (latched s = 0 \/ In (latched s) (merged s)) /\ (pend s = 0 \/ In (pend s) (merged s)) /\
  (forall v l, merged s = v :: l -> v <> 0 -> pend s = 0 -> latched s = 0 -> exists d, delivered s = v :: d) /\
  (forall v l, quiescent s -> merged s = v :: l -> v <> 0 -> pend s = 0 -> exists d, delivered s = v :: d) /\
  (cancelled s = false -> dropped s = []).
Proof.
  intros R K. destruct (inv_reach c s R) as (H1 & (A & B & C) & _). rewrite K in C. destruct C as (C1 & C2 & C3 & C4).
  assert (F : forall v l, merged s = v :: l -> v <> 0 -> pend s = 0 -> latched s = 0 -> exists d, delivered s = v :: d).
  { intros v l Em Nv P0 L0. rewrite Em in C4. cbn [hd] in C4.
    destruct C4 as [X|(_ & [X|(_ & X)])]; [congruence|congruence|].
    destruct (delivered s) as [|d0 d]; cbn [hd] in X; [congruence|]. exists d. congruence. }
  repeat split; auto.
  intros v l Q Em Nv P0. destruct (quiescent_unlocked s H1 Q) as (_ & L0 & _). eauto.
Qed.

Lemma never_zero c s : reach c s ->
  Forall (fun d => d <> 0) (delivered s) /\ (forall t prev, pcs s t = PCall prev -> prev <> 0 /\ latched s = prev).
Proof.
  intros R. destruct (inv_reach c s R) as (H1 & (A & _) & _). split; [exact A|].
  intros t prev Hp. assert (D : drain_pc (pcs s t) = true) by (rewrite Hp; reflexivity).
  destruct (own_at s t H1 D) as [_ X]. rewrite Hp in X. tauto.
Qed.

(* the handler-call step reports exactly the latched, non-zero value *)
Lemma callout_reports_latched c s t e s' : reach c s -> gstep c s t e = Some s' -> ev_kind e DVU_CALLOUT_BEGIN = true ->
  ea e <> 0 /\ delivered s' = ea e :: delivered s.
Proof.
  intros R Hs Hk. unfold gstep in Hs. destruct (tstep c (pcs s t) e) as [p'|] eqn:Hts; [|discriminate].
  unfold ev_kind in Hk. apply Z.eqb_eq in Hk.
  destruct (pcs s t) eqn:Hpc; cbn [tstep] in Hts;
    try (unfold ev_lock, ev_unlock, ev_reloop, ev_kind, ev_is, pend_seen in Hts; rewrite Hk in Hts; cbn in Hts; discriminate).
  - unfold ev_kind, ev_is in Hts. rewrite Hk in Hts. destruct (ck c); cbn in Hts; discriminate.
  - destruct (ev_kind e DVU_CALLOUT_BEGIN && (ea e =? prev)) eqn:X; [|discriminate]. apply andb_true_iff in X as [_ X].
    apply Z.eqb_eq in X. cbv beta iota zeta in Hs. injection Hs as <-. cbn. rewrite X.
    destruct (never_zero c s R) as [_ NZ]. destruct (NZ t prev Hpc). auto.
Qed.

(* pending data is never left behind: at rest, an uncancelled source with pending data is enqueued-or-dirty *)
Lemma pending_is_runnable c s : reach c s -> quiescent s -> pend s <> 0 -> cancelled s = false ->
  rq s = true /\ owner s = None.
Proof.
  intros R Q P C. destruct (inv_reach c s R) as (H1 & _ & HN). destruct (quiescent_unlocked s H1 Q) as (On & _).
  split; [|exact On]. destruct (HN P C) as [X|[[u Hu]|[o [Ho _]]]]; [exact X| |congruence].
  rewrite (Q u) in Hu. discriminate.
Qed.
(* ... and in general (threads anywhere): somebody is on the way to wake it or to look at it again *)
Lemma pending_has_waker c s : reach c s -> pend s <> 0 -> cancelled s = false ->
  rq s = true \/ (exists u, waking (pcs s u) = true) \/ (exists o, owner s = Some o /\ recheck (pcs s o) = true).
Proof. intros R. apply (inv_reach c s R). Qed.

(* a drain pass on an unsuspended, unlocked source with pending data is enabled and delivers the data *)
Definition ev0 k ord off a b ok := mkEv k ord 0 off 8 a b ok.
Definition drain_pass (old new v : Z) : list event :=
  [ ev0 DVX_LOCK 0 0 old new 1; ev0 DV_LOAD MO_RELAXED OFF_PEND v v 1; ev0 DV_XCHG MO_RELAXED OFF_PEND v 0 1;
    ev0 DVU_CALLOUT_BEGIN 0 0 v 0 1 ].
Lemma gstep_lock c s t old new :
  lock_commits (cself c) old new = true -> pcs s t = PIdle -> owner s = None -> susp s = 0 ->
  gstep c s t (ev0 DVX_LOCK 0 0 old new 1) =
  Some {| pend := pend s; cancelled := cancelled s; susp := susp s; rq := false; owner := Some t; pcs := upd (pcs s) t PD0;
          latched := latched s; running := running s; merged := merged s; dropped := dropped s; delivered := delivered s |}.
Proof.
  intros L Hpc On S0. unfold gstep. rewrite Hpc. cbn [tstep].
  set (e := ev0 DVX_LOCK 0 0 old new 1).
  assert (E1 : ev_kind e DVU_CALL = false) by reflexivity.
  assert (E2 : ev_lock c e = true) by (unfold ev_lock; subst e; unfold ev0; cbn [ea eb]; rewrite L; reflexivity).
  rewrite E1, E2. cbv beta iota zeta. rewrite ?E1, ?E2, On, S0. reflexivity.
Qed.
Lemma drain_delivers c s t old new v :
  lock_commits (cself c) old new = true ->
  pcs s t = PIdle -> owner s = None -> susp s = 0 -> pend s = v -> v <> 0 ->
  exists s', grun c s (map (fun e => (t, e)) (drain_pass old new v)) = Some s' /\
             delivered s' = v :: delivered s /\ pend s' = 0 /\ pcs s' t = PInCall.
Proof.
  intros L Hpc On S0 P N. unfold drain_pass. cbn [map grun].
  assert (Nb : (v =? 0) = false) by (apply Z.eqb_neq; exact N).
  rewrite (gstep_lock c s t old new L Hpc On S0).
  unfold gstep at 1. cbn [pcs]. rewrite upd_same. cbn [tstep]. cbn. rewrite P, Z.eqb_refl. unfold pend_seen. cbn. rewrite Nb.
  unfold gstep at 1. cbn [pcs]. rewrite upd_same. cbn [tstep]. cbn. rewrite Z.eqb_refl.
  unfold latch_next. rewrite Nb. cbn.
  unfold gstep at 1. cbn [pcs]. rewrite upd_same. cbn [tstep]. cbn. rewrite Z.eqb_refl. cbn.
  eexists. split; [reflexivity|]. cbn. rewrite upd_same. auto.
Qed.

(* the handler is never running on two threads; the exchange and the handler happen under the (ghost) drain lock *)
Lemma handler_exclusive c s : reach c s ->
  (forall t u, pcs s t = PInCall -> pcs s u = PInCall -> t = u) /\ 0 <= running s <= 1 /\
  (forall t, drain_pc (pcs s t) = true -> owner s = Some t).
Proof.
  intros R. destruct (inv_reach c s R) as ((HO & HT) & _ & _). split; [|split].
  - intros t u Ht Hu. assert (owner s = Some t) by (apply HT; rewrite Ht; reflexivity).
    assert (owner s = Some u) by (apply HT; rewrite Hu; reflexivity). congruence.
  - unfold own_inv in HO. destruct (owner s) as [o|]; [|lia]. destruct HO as [_ HO]. destruct (pcs s o); lia.
  - exact HT.
Qed.

Lemma gstep_tstep c s t e s' : gstep c s t e = Some s' -> tstep c (pcs s t) e = Some (pcs s' t).
Proof.
  unfold gstep. destruct (tstep c (pcs s t) e) as [p'|]; [|discriminate]. intros Hs. f_equal.
  destruct (pcs s t); cbv beta iota zeta in Hs; split_hyp Hs; injection Hs as <-; cbn; rewrite upd_same; reflexivity.
Qed.
