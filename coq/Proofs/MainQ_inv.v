(* MainQ_inv.v — the invariant of the main-queue model (Model/MainQ.v) and its frame lemmas.
   Inv s = for every thread: SLane's thread invariant on the lane component + the coupling between the main-queue
           program point and the lane program point + the state of its synchronous call;
           bookkeeping of the queued synchronous contexts;
           and, depending on where the bound thread is:
             before the lane is released (thread-bound phase and _dispatch_queue_cleanup2): ginv1 — the word keeps the
               bound thread as owner, nobody holds the enqueued token, the order equation includes the bound thread's
               private snapshot, "a non-empty list has a pending poke" (a_strand), "cleanup2 releasing a non-empty
               list sees DIRTY" (a_dirty);
             afterwards: SLane_proofs.Inv (lane s) — the queue is an ordinary serial lane. *)
From Coq Require Import ZArith Bool List Lia.
From Verif Require Import Word Bits Fields DqFields Conc Gen_consts Gen_dqstate Lane_fields SLane SLane_proofs SLane_progress
  MainQ MainQ_fields.
Import ListNotations.
Local Open Scope Z_scope.

(* ------------------------------------------------------------------ classification of program points *)
Definition kont (p : mpc) : option cont :=
  match p with
  | MP_push k | MW_bound _ _ k | MW_rel _ _ k | MW_or _ k | MW_probe _ k | MW_merge _ k | MW_write k | MW_reset k
  | MW_probe2 _ k | MW_ret k => Some k
  | _ => None
  end.
Definition sync_pc (p : mpc) : bool :=
  match p with
  | MS_aaw _ | MS_fast _ | MS_prep _ | MS_dec | MS_load | MS_futex | MS_sleep | MS_woken => true
  | _ => match kont p with Some KWait => true | _ => false end
  end.
Definition only_main (p : mpc) : bool :=
  match p with
  | MB_tail | MB_bound | MB_state | MB_head | MB_clr | MB_snap | MB_next | MB_run _ _ _ | MB_incall _ _ _ | MB_sig _ _
  | MB_fwake _ _ | MB_loop _ | MB_ret | MC_rmw | MC_clr | MC_tail | MC_susp | MC_head | MC_cbc _ | MC_xor | MC_flags
  | MC_push | MC_close | MC_gone => true
  | _ => match kont p with Some KDrain | Some (KCall _ _ _) => true | _ => false end
  end.
Definition mq_of (p : mpc) : option Z :=
  match p with
  | MW_bound q _ _ | MW_rel q _ _ | MW_or q _ | MW_probe q _ | MW_merge q _ | MW_probe2 q _
  | MS_aaw q | MS_fast q | MS_prep q => Some q
  | _ => None
  end.
Definition lane_ok (p : mpc) (lp : pc) : bool :=
  match p with
  | MIdle => match lp with PA_xchg _ | PA_link _ _ _ => false | _ => true end
  | MP_push _ => match lp with PA_xchg _ | PA_link _ _ _ => true | _ => false end
  | MW_bound q true _ => match lp with PA_probe q' => q' =? q | _ => false end
  | MC_push => match lp with PA_rootpush => true | _ => false end
  | _ => match lp with Idle => true | _ => false end
  end.
(* stage of a synchronous call: 1 before the context is set up, 2 set up and not pushed, 3 pushed and the event not
   yet decremented, 4 decremented (waiting), 5 the wait is over *)
Definition stage (p : mpc) (lp : pc) : Z :=
  match p with
  | MS_aaw _ | MS_fast _ | MS_prep _ => 1
  | MS_dec => 3
  | MS_load | MS_futex | MS_sleep => 4
  | MS_woken => 5
  | MP_push KWait => match lp with PA_xchg _ => 2 | _ => 3 end
  | _ => match kont p with Some KWait => 3 | _ => 0 end
  end.
(* a thread that is bound to test dq_items_tail and to write the eventfd if it finds items *)
Definition poker_pc (p : mpc) (lp : pc) : bool :=
  match p with
  | MW_bound _ _ _ | MW_rel _ _ _ | MW_or _ _ | MW_probe _ _ | MW_probe2 _ _ | MW_merge _ _ | MW_write _ => true
  | MP_push _ => match lp with PA_link _ true _ => true | _ => false end
  | _ => false
  end.

Inductive bview := VNone | VRun (i w : Z) | VIn (i w : Z) | VSig (w : Z).
Record mcls := {
  c_held : bool;      (* cleanup2 holds IN_BARRIER + the width *)
  c_unb : bool;       (* DQF_THREAD_BOUND is cleared *)
  c_clean : bool;     (* dispatch_main() was called and the lane is not released yet *)
  c_lane : bool;      (* the lane is released: an ordinary serial lane *)
  c_gone : bool;      (* the handle is closed *)
  c_snap : bool;      (* the private snapshot is not empty *)
  c_incb : bool;      (* inside the callback *)
  c_see : bool;       (* inside the drain, before its exit wakeup *)
  c_cbcf : bool;      (* about to release the lane with target NONE *)
  c_ne : bool;        (* the drain saw a non-empty list and has not captured it yet *)
  c_view : bview
}.
Definition mclass (p : mpc) : mcls :=
  let z := {| c_held := false; c_unb := false; c_clean := false; c_lane := false; c_gone := false; c_snap := false;
              c_incb := false; c_see := false; c_cbcf := false; c_ne := false; c_view := VNone |} in
  let b (sn ne : bool) (v : bview) :=
    {| c_held := false; c_unb := false; c_clean := false; c_lane := false; c_gone := false; c_snap := sn;
       c_incb := true; c_see := true; c_cbcf := false; c_ne := ne; c_view := v |} in
  let c (h u f : bool) :=
    {| c_held := h; c_unb := u; c_clean := true; c_lane := false; c_gone := false; c_snap := false;
       c_incb := false; c_see := false; c_cbcf := f; c_ne := false; c_view := VNone |} in
  let l (g : bool) :=
    {| c_held := false; c_unb := true; c_clean := false; c_lane := true; c_gone := g; c_snap := false;
       c_incb := false; c_see := false; c_cbcf := false; c_ne := false; c_view := VNone |} in
  let d := {| c_held := false; c_unb := false; c_clean := false; c_lane := false; c_gone := false; c_snap := false;
              c_incb := true; c_see := false; c_cbcf := false; c_ne := false; c_view := VNone |} in
  match p with
  | MB_tail => b false false VNone
  | MB_bound | MB_state | MB_head | MB_clr | MB_snap => b false true VNone
  | MB_next => b true false VNone
  | MB_run i w more => b more false (VRun i w)
  | MB_incall i w more => b more false (VIn i w)
  | MB_sig w more => b more false (VSig w)
  | MB_fwake _ more | MB_loop more => b more false VNone
  | MB_ret => d
  | MC_rmw => c false false false
  | MC_clr => c true false false
  | MC_tail | MC_susp | MC_head | MC_cbc true | MC_xor | MC_flags => c true true false
  | MC_cbc false => c true true true
  | MC_push | MC_close => l false
  | MC_gone => l true
  | _ => match kont p with Some KDrain => d | Some (KCall i w more) => b more false (VIn i w) | _ => z end
  end.
Definition bitem (c : mcls) : list Z := match c_view c with VRun i _ => [i] | _ => [] end.
Definition brun (c : mcls) : option Z := match c_view c with VIn i _ => Some i | _ => None end.

Definition ids (l : list entry) : list Z := map e_id l.
Definition mcl (s : mst) : mcls := mclass (mpcs s (mtid s)).
Definition poker (s : mst) (t : Z) : Prop := poker_pc (mpcs s t) (pcs (lane s) t) = true.

(* ------------------------------------------------------------------ before the lane is released *)
Record ginv1 (s : mst) (r : dqf) : Prop := {
  a_enc : st (lane s) = enc r;
  a_wf : wfr r;
  a_tr : f_tr r = 0;
  a_em : f_em r = 0;
  a_pb : f_pb r = 0;
  a_hi : f_hi r = 0;
  a_role : f_role r < 2;
  a_enq : f_enq r = 0;
  a_owner : f_owner r = mtid s;
  a_shape : if c_held (mcl s) then f_ib r = 1 /\ f_wq r = 4096 else f_ib r = 0 /\ f_wq r = 4095;
  a_token : token (lane s) = None;
  a_rootq : rootq (lane s) = 0;
  a_bound : bound s = negb (c_unb (mcl s));
  a_hopen : hopen s = true;
  a_main : mainstarted s = c_clean (mcl s);
  a_nosync : c_clean (mcl s) = true -> syncers s = [];
  a_nodup : NoDup (wakers (lane s));
  a_nextid : 0 <= nextid (lane s);
  a_order : rev (started (lane s)) ++ bitem (mcl s) ++ ids (snap s) ++ ids (lst (lane s)) = zrange (nextid (lane s));
  a_running : running (lane s) = match brun (mcl s) with Some i => Some (mtid s, i) | None => None end;
  a_runin : forall i, brun (mcl s) = Some i -> In i (started (lane s));
  a_snap : match snap s with [] => c_snap (mcl s) = false | _ => c_snap (mcl s) = true end;
  a_ne : c_ne (mcl s) = true -> lst (lane s) <> [];
  a_incb : incb s = c_incb (mcl s);
  a_evfd : 0 <= evfd s;
  (* thread-bound phase: a non-empty list always has a pending wake-up of the bound thread *)
  a_strand : c_clean (mcl s) = false -> lst (lane s) <> [] ->
             0 < evfd s \/ c_see (mcl s) = true \/ exists t, poker s t;
  (* cleanup2 about to release the lane without enqueueing it: a non-empty list is announced by DIRTY *)
  a_dirty : c_cbcf (mcl s) = true -> lst (lane s) <> [] -> wakers (lane s) = [] -> f_d r = 1
}.

(* ------------------------------------------------------------------ after it *)
Record ginv2 (s : mst) : Prop := {
  b_bound : bound s = false;
  b_snap : snap s = [];
  b_sync : syncers s = [];
  b_main : mainstarted s = true;
  b_incb : incb s = false;
  b_hopen : hopen s = negb (c_gone (mcl s))
}.

(* ------------------------------------------------------------------ per thread *)
Definition sinv (s : mst) (t : Z) : Prop :=
  let w := ws s t in
  let g := stage (mpcs s t) (pcs (lane s) t) in
  (g = 2 -> w_dte w = 0 /\ w_null w = false /\ w_sigd w = false) /\
  (g = 3 -> w_dte w = b2z (w_sigd w)) /\
  (g = 4 -> w_dte w = (if w_sigd w then 0 else MAXV)) /\
  (g = 5 -> w_sigd w = true) /\
  (3 <= g -> w_sigd w = true -> w_null w = true /\ In (w_item w) (finished s) /\ In (w_item w) (mainran s)).

Definition tinv (s : mst) (t : Z) : Prop :=
  thread_inv (lane s) t /\
  lane_ok (mpcs s t) (pcs (lane s) t) = true /\
  (only_main (mpcs s t) = true -> t = mtid s) /\
  (forall q, mq_of (mpcs s t) = Some q -> 0 <= q < 8) /\
  (sync_pc (mpcs s t) = true <-> In t (syncers s)) /\
  sinv s t.

(* a caller whose context is queued (or being run) and not signalled *)
Definition parked (s : mst) (w i : Z) : Prop :=
  3 <= stage (mpcs s w) (pcs (lane s) w) <= 4 /\ w_item (ws s w) = i /\ w_sigd (ws s w) = false.

Definition pending (s : mst) : list Z := inflight (lane s) ++ ids (snap s) ++ ids (lst (lane s)).

Record syinv (s : mst) : Prop := {
  y_ent : forall i, In i (pending s) -> waiter_of s i <> 0 ->
          parked s (waiter_of s i) i /\ w_null (ws s (waiter_of s i)) = false;
  y_run : forall i w, (c_view (mcl s) = VRun i w \/ c_view (mcl s) = VIn i w) ->
          w = waiter_of s i /\ (w <> 0 -> parked s w i /\ w_null (ws s w) = false);
  y_sig : forall w, c_view (mcl s) = VSig w ->
          parked s w (w_item (ws s w)) /\ w_null (ws s w) = true /\
          In (w_item (ws s w)) (finished s) /\ In (w_item (ws s w)) (mainran s);
  y_ran : forall i, In i (started (lane s)) -> waiter_of s i <> 0 -> In i (mainran s)
}.

Definition Inv (s : mst) : Prop :=
  (forall t, tinv s t) /\ syinv s /\ valid_tid (mtid s) /\
  (if c_lane (mcl s) then SLane_proofs.Inv (lane s) /\ ginv2 s else exists r, ginv1 s r).

(* ------------------------------------------------------------------ small facts *)
Ltac mproj :=
  cbn [lane mpcs mtid mprio bound incb evfd hopen snap ws waiter_of finished mainran syncers mainstarted
       set_lane set_mpc set_bound set_incb set_evfd set_hopen set_snap set_ws set_waiter set_finished set_mainran
       set_syncers set_mainstarted].
Ltac mproj_in H :=
  cbn [lane mpcs mtid mprio bound incb evfd hopen snap ws waiter_of finished mainran syncers mainstarted
       set_lane set_mpc set_bound set_incb set_evfd set_hopen set_snap set_ws set_waiter set_finished set_mainran
       set_syncers set_mainstarted] in H.
Ltac lproj := cbn [st lst rootq pcs nextid started running token wakers set_pc set_st set_lst set_rootq set_token set_wakers
                   lane_callout_begin lane_callout_end].

Lemma mcl_set_mpc_other s t p : t <> mtid s -> mcl (set_mpc s t p) = mcl s.
Proof. intros N. unfold mcl. mproj. rewrite upd_other by congruence. reflexivity. Qed.
Lemma mcl_set_mpc_same s p : mcl (set_mpc s (mtid s) p) = mclass p.
Proof. unfold mcl. mproj. rewrite upd_same. reflexivity. Qed.
Lemma mcl_set_mpc s t p : mclass p = mclass (mpcs s t) -> mcl (set_mpc s t p) = mcl s.
Proof.
  intros E. destruct (Z.eq_dec t (mtid s)) as [->|N]; [rewrite mcl_set_mpc_same; exact E | apply mcl_set_mpc_other; exact N].
Qed.

Lemma only_main_class p : only_main p = false -> mclass p = mclass MIdle.
Proof. destruct p; cbn; try discriminate; try reflexivity; destruct k; cbn; try discriminate; reflexivity. Qed.

Lemma ids_app l1 l2 : ids (l1 ++ l2) = ids l1 ++ ids l2.
Proof. unfold ids. apply map_app. Qed.

Lemma nodup_app_disjoint {A} (l1 l2 : list A) x : NoDup (l1 ++ l2) -> In x l1 -> ~ In x l2.
Proof.
  induction l1 as [|a l1 IH]; cbn [app In]; intros ND H1 H2; [contradiction|].
  inversion ND as [|y l' Hy Hl']; subst. destruct H1 as [<-|H1].
  - apply Hy. apply in_or_app. right. exact H2.
  - exact (IH Hl' H1 H2).
Qed.

Lemma in_started_not_pending l1 l2 n x : l1 ++ l2 = zrange n -> In x l1 -> ~ In x l2.
Proof. intros E. apply nodup_app_disjoint. rewrite E. apply zrange_nodup. Qed.
Ltac lproj_in H := cbn [st lst rootq pcs nextid started running token wakers set_pc set_st set_lst set_rootq set_token set_wakers
                        lane_callout_begin lane_callout_end] in H.

Ltac fr :=
  mproj; lproj; rewrite ?upd_same; repeat rewrite upd_other by (assumption || congruence);
  try reflexivity; try tauto; try apply incl_refl.
