(* MainQ_steps6.v — preservation of the invariant of Model/MainQ.v by the beginning of calls and by
   dispatch_main() -> _dispatch_queue_cleanup2: the hand-over of the main queue to the ordinary lane protocol. *)
From Coq Require Import ZArith Bool List Lia.
From Verif Require Import Word Bits Fields DqFields Conc Gen_consts Gen_dqstate Lane_fields SLane SLane_proofs SLane_progress
  MainQ MainQ_fields MainQ_inv MainQ_frames MainQ_steps1 MainQ_steps2 MainQ_steps3 MainQ_steps4 MainQ_steps5.
Import ListNotations.
Local Open Scope Z_scope.

(* ------------------------------------------------------------------ once the lane is released: thread t replaces the
   lane by l' (a step of the lane protocol) and moves its main-queue program point to p' *)
Lemma Inv_local_lane s t l' p' :
  Inv s -> c_lane (mcl s) = true ->
  SLane_proofs.Inv l' -> nextid l' = nextid (lane s) -> incl (started (lane s)) (started l') ->
  (forall u, u <> t -> pcs l' u = pcs (lane s) u) ->
  lane_ok p' (pcs l' t) = true ->
  (only_main p' = true -> t = mtid s) ->
  (forall q, mq_of p' = Some q -> 0 <= q < 8) ->
  sync_pc p' = false -> sync_pc (mpcs s t) = false ->
  mclass p' = mclass (mpcs s t) ->
  Inv (set_mpc (set_lane s l') t p').
Proof.
  intros I CL I' En Is Fr Hl Hm Hq Hs Hs0 Hc. pose proof I as (T & Y & V & G). rewrite CL in G. destruct G as [I2 G2].
  match goal with |- Inv ?x => set (s1 := x) end.
  assert (Em : mcl s1 = mcl s).
  { unfold s1. rewrite (mcl_set_mpc (set_lane s l') t p'); [reflexivity|]. mproj. exact Hc. }
  assert (Pi : forall i, In i (pending s1) -> In i (pending s)).
  { intros i Hi. unfold pending in *. subst s1. mproj_in Hi. rewrite (b_snap s G2) in *. cbn [ids map app] in *.
    apply (lane_pending_incl (lane s) l' I2 I' En Is i Hi). }
  assert (NoSync : forall w i, ~ parked s w i).
  { intros w i P. pose proof (parked_sync s w i P) as Hs'. destruct (T w) as (_ & _ & _ & _ & T5 & _).
    apply T5 in Hs'. rewrite (b_sync s G2) in Hs'. contradiction. }
  assert (St0 : forall p lp, sync_pc p = false -> stage p lp = 0).
  { intros p lp E. destruct (Z.eq_dec (stage p lp) 0) as [E0|N0]; [exact E0|]. exfalso.
    assert (1 <= stage p lp).
    { destruct p; cbn [stage kont] in *; try lia; destruct k; cbn [stage kont] in *; try lia; destruct lp; lia. }
    rewrite (stage_sync p lp H) in E. discriminate. }
  split; [|split; [|split]].
  - intros u. destruct (T u) as (T1 & T2 & T3 & T4 & T5 & T6). destruct I' as [_ T'].
    unfold tinv. subst s1. mproj. split; [apply T'|]. destruct (Z.eq_dec u t) as [->|N].
    + rewrite upd_same. split; [exact Hl|]. split; [exact Hm|]. split; [exact Hq|]. split.
      * rewrite Hs, (b_sync s G2). split; [discriminate | contradiction].
      * unfold sinv. mproj. rewrite upd_same, (St0 p' _ Hs). repeat split; intros; try lia; discriminate.
    + rewrite upd_other by exact N. rewrite (Fr u N). split; [exact T2|]. split; [exact T3|]. split; [exact T4|]. split; [exact T5|].
      unfold sinv in *. mproj. rewrite upd_other by exact N. rewrite (Fr u N). exact T6.
  - apply (syinv_keep s s1 I (f_equal c_view Em)).
    + intros i Hi. left. apply Pi. exact Hi.
    + intros i _. reflexivity.
    + intros i Hi. subst s1. mproj_in Hi.
      destruct (lane_started_new (lane s) l' I2 I' En i Hi) as [H|H]; [left; exact H|].
      right. assert (Hp : In i (pending s)) by (unfold pending; rewrite (b_snap s G2); cbn [ids map app]; exact H).
      split; [exact Hp|]. destruct (Z.eq_dec (waiter_of s i) 0) as [E|E]; [exact E|].
      destruct Y as [Ye _ _ _]. destruct (Ye i Hp E) as [P _]. destruct (NoSync _ _ P).
    + apply incl_refl.
    + apply incl_refl.
    + intros w i P. destruct (NoSync _ _ P).
  - exact V.
  - rewrite Em, CL. split; [exact I'|]. destruct G2. constructor; rewrite ?Em; subst s1; fr; assumption.
Qed.

(* ------------------------------------------------------------------ dispatch_async_f begins *)
Lemma step_async_begin s t q s' : Inv s -> valid_tid t -> mbegin s t (MAsync q) = Some s' -> Inv s'.
Proof.
  intros I Vt B. unfold mbegin in B. destruct (pcs (lane s) t) eqn:Hlp; try discriminate.
  destruct (mpcs s t) eqn:Hpc; try discriminate; (destruct (qos_ok q) eqn:Q; [|discriminate]); injection B as <-;
  unfold qos_ok in Q; apply andb_true_iff in Q as [Q1 Q2]; apply Z.leb_le in Q1; apply Z.ltb_lt in Q2;
  pose proof I as (T & Y & V & G).
  { destruct (c_lane (mcl s)) eqn:CL.
  - destruct G as [I2 G2].
    apply (Inv_local_lane s t (set_pc (lane s) t (PA_xchg q)) (MP_push KRet) I CL); lproj; rewrite ?upd_same, ?Hpc; try reflexivity;
      try (intros; discriminate); try apply incl_refl.
    + apply (step_preserves (lane s) (ABegin t (CAsync q)) _ I2). split; [exact Vt|]. unfold begin. rewrite Hlp.
      assert (E : (0 <=? q) && (q <? 8) = true) by (apply andb_true_iff; split; [apply Z.leb_le | apply Z.ltb_lt]; lia).
      rewrite E. reflexivity.
    + intros u N. apply upd_other. exact N.
  - apply (Inv_ext (set_mpc (set_syncers (set_ws (set_lane s (set_wakers (set_pc (lane s) t (PA_xchg q))
             (if false then remove_z t (wakers (lane s)) else wakers (lane s)))) t (ws s t)) (syncers s)) t (MP_push KRet))).
    { msim_tac. }
    destruct (T t) as (T1 & T2 & T3 & T4 & T5 & T6). rewrite Hpc in T5.
    apply (Inv_local_pre s t (PA_xchg q) false (MP_push KRet) (ws s t) (syncers s) I CL); rewrite ?Hpc, ?Hlp; try reflexivity;
      try (intros; discriminate); try tauto.
    + intros q0 E. injection E as <-. lia.
    + destruct G as [r G]. exact (a_nosync s r G).
    + unfold sinv. cbv zeta. mproj. lproj. rewrite !upd_same. cbn [stage kont]. repeat split; intros; try lia; discriminate.
    + intros i0 P. exfalso. apply (not_parked_stage s t i0 P). rewrite Hpc, Hlp. cbn. lia. }
  (* a work item on the bound thread submits to the main queue from inside its callout *)
  destruct (T t) as (T1 & T2 & T3 & T4 & T5 & T6). rewrite Hpc in T3, T5.
  assert (Et : t = mtid s) by (apply T3; reflexivity).
  assert (CL : c_lane (mcl s) = false) by (unfold mcl; rewrite <- Et, Hpc; reflexivity).
  apply (Inv_ext (set_mpc (set_syncers (set_ws (set_lane s (set_wakers (set_pc (lane s) t (PA_xchg q))
           (if false then remove_z t (wakers (lane s)) else wakers (lane s)))) t (ws s t)) (syncers s)) t (MP_push (KCall i w more)))).
  { msim_tac. }
  apply (Inv_local_pre s t (PA_xchg q) false (MP_push (KCall i w more)) (ws s t) (syncers s) I CL); rewrite ?Hpc, ?Hlp; try reflexivity;
    try (intros; discriminate); try tauto.
  + intros q0 E. injection E as <-. lia.
  + rewrite CL in G. destruct G as [r G]. exact (a_nosync s r G).
  + unfold sinv. cbv zeta. mproj. lproj. rewrite !upd_same. cbn [stage kont]. repeat split; intros; try lia; discriminate.
  + intros i0 P. exfalso. apply (not_parked_stage s t i0 P). rewrite Hpc, Hlp. cbn. lia.
Qed.

(* ------------------------------------------------------------------ the bound thread services the handle *)
Lemma Inv_evfd_see s n :
  Inv s -> 0 <= n -> (c_lane (mcl s) = false -> c_clean (mcl s) = false -> c_see (mcl s) = true) -> Inv (set_evfd s n).
Proof.
  intros (T & Y & V & G) Hn Hs. split; [|split; [|split]].
  - intros u. specialize (T u). unfold tinv, sinv, thread_inv in *. mproj. exact T.
  - destruct Y as [y_ent0 y_run0 y_sig0 y_ran0]. constructor; unfold parked, pending, inflight, mcl in *; mproj; assumption.
  - exact V.
  - unfold mcl in *. mproj. destruct (c_lane (mclass (mpcs s (mtid s)))).
    + destruct G as [I2 G2]. split; [exact I2|]. destruct G2. constructor; unfold mcl; mproj; assumption.
    + destruct G as [r G]. exists r. destruct G. constructor; unfold mcl, poker in *; mproj; try assumption.
      intros C Hl. right. left. apply Hs; [reflexivity | exact C].
Qed.

Lemma callback_preserves s t n : Inv s -> 0 <= n -> t = mtid s ->
  (mpcs s t = MIdle \/ exists i w m, mpcs s t = MB_incall i w m) ->
  pcs (lane s) t = Idle -> Inv (callback (set_evfd s n) t).
Proof.
  intros I Hn Et Hp Hlp. unfold callback. mproj. pose proof I as (T & Y & V & G).
  destruct Hp as [Hpc|(i & w & m & Hpc)].
  - assert (Ec : mcl s = mclass MIdle) by (unfold mcl; rewrite <- Et, Hpc; reflexivity).
    rewrite Ec in G. cbn [mclass kont c_lane] in G. destruct G as [r G].
    assert (Hi : incb s = false) by (rewrite (a_incb s r G), Ec; reflexivity). rewrite Hi.
    match goal with |- Inv ?x => set (s1 := x) end.
    assert (Em : mcl s1 = mclass MB_tail) by (unfold s1, mcl; mproj; rewrite <- Et, upd_same; reflexivity).
    split; [|split; [|split]].
    + own_and_others T t s s1 Hpc Hlp.
    + apply (syinv_keep0 s s1 I); [rewrite Em, Ec; reflexivity | subst s1; fr ..|].
      apply (parked_keep_nosync s s1 t); [rewrite Hpc, Hlp; reflexivity | intros w N; subst s1; fr | intros w; subst s1; fr].
    + exact V.
    + rewrite Em. cls. exists r. pose proof (a_order s r G) as AO. pose proof (a_snap s r G) as ASn. rewrite Ec in AO, ASn. cls.
      destruct G. ginv1_fields Em Ec s1.
  - assert (Ec : mcl s = mclass (MB_incall i w m)) by (unfold mcl; rewrite <- Et, Hpc; reflexivity).
    rewrite Ec in G. cbn [mclass kont c_lane] in G. destruct G as [r G].
    assert (Hi : incb s = true) by (rewrite (a_incb s r G), Ec; reflexivity). rewrite Hi.
    apply Inv_evfd_see; [exact I | exact Hn|]. intros _ _. rewrite Ec. reflexivity.
Qed.

Lemma step_service_begin s t s' : Inv s -> mbegin s t MService = Some s' -> Inv s'.
Proof.
  intros I B. unfold mbegin in B. destruct (pcs (lane s) t) eqn:Hlp; try discriminate.
  assert (X : (mpcs s t = MIdle \/ exists i w m, mpcs s t = MB_incall i w m) /\
              (t =? mtid s) && (0 <? evfd s) && hopen s = true /\ s' = callback (set_evfd s 0) t).
  { destruct (mpcs s t) eqn:Hpc; try discriminate;
      (destruct ((t =? mtid s) && (0 <? evfd s) && hopen s) eqn:C; [|discriminate]); injection B as <-;
      (split; [|split; reflexivity]); [left; reflexivity | right; eexists _, _, _; reflexivity]. }
  clear B. destruct X as (Hp & C & ->). apply andb_true_iff in C as [C _]. apply andb_true_iff in C as [C _]. apply Z.eqb_eq in C.
  apply callback_preserves; try assumption. lia.
Qed.

Lemma step_callback_begin s t s' : Inv s -> mbegin s t MCallback = Some s' -> Inv s'.
Proof.
  intros I B. unfold mbegin in B. destruct (pcs (lane s) t) eqn:Hlp; try discriminate.
  assert (X : (mpcs s t = MIdle \/ exists i w m, mpcs s t = MB_incall i w m) /\ (t =? mtid s) = true /\ s' = callback s t).
  { destruct (mpcs s t) eqn:Hpc; try discriminate; (destruct (t =? mtid s) eqn:C; [|discriminate]); injection B as <-;
      (split; [|split; reflexivity]); [left; reflexivity | right; eexists _, _, _; reflexivity]. }
  clear B. destruct X as (Hp & C & ->). apply Z.eqb_eq in C.
  assert (E0 : 0 <= evfd s \/ c_lane (mcl s) = true).
  { destruct I as (_ & _ & _ & G). destruct (c_lane (mcl s)); [right; reflexivity|]. destruct G as [r G]. left. exact (a_evfd s r G). }
  destruct E0 as [E0|CL].
  - apply (Inv_ext (callback (set_evfd s (evfd s)) t)).
    + unfold callback. mproj. destruct (incb s); msim_tac.
    + apply callback_preserves; assumption.
  - (* the main thread is gone by then: it is at none of these program points *)
    exfalso. unfold mcl in CL. rewrite <- C in CL. destruct Hp as [Hpc|(i & w & m & Hpc)]; rewrite Hpc in CL; discriminate CL.
Qed.

(* ------------------------------------------------------------------ dispatch_main() *)
Lemma step_main_begin s t s' : Inv s -> mbegin s t MMain = Some s' -> Inv s'.
Proof.
  intros I B. unfold mbegin in B. destruct (pcs (lane s) t) eqn:Hlp; try discriminate.
  destruct (mpcs s t) eqn:Hpc; try discriminate. destruct (syncers s) eqn:Sy; try discriminate.
  destruct (t =? mtid s) eqn:C; [|discriminate]. injection B as <-. apply Z.eqb_eq in C.
  pose proof I as (T & Y & V & G).
  assert (Ec : mcl s = mclass MIdle) by (unfold mcl; rewrite <- C, Hpc; reflexivity).
  rewrite Ec in G. cbn [mclass kont c_lane] in G. destruct G as [r G].
  match goal with |- Inv ?x => set (s1 := x) end.
  assert (Em : mcl s1 = mclass MC_rmw) by (unfold s1, mcl; mproj; rewrite <- C, upd_same; reflexivity).
  split; [|split; [|split]].
  - own_and_others T t s s1 Hpc Hlp.
  - apply (syinv_keep0 s s1 I); [rewrite Em, Ec; reflexivity | subst s1; fr ..|].
    apply (parked_keep_nosync s s1 t); [rewrite Hpc, Hlp; reflexivity | intros w N; subst s1; fr | intros w; subst s1; fr].
  - exact V.
  - rewrite Em. cls. exists r. pose proof (a_order s r G) as AO. pose proof (a_snap s r G) as ASn. rewrite Ec in AO, ASn. cls.
    destruct G. ginv1_fields Em Ec s1. intros _. exact Sy.
Qed.

(* ------------------------------------------------------------------ _dispatch_queue_cleanup2 *)
Ltac cleanup_open I Hpc Et Ec Hlp T Y V G r :=
  main_open I Hpc Et Ec;
  match type of Hpc with mpcs ?s ?t = _ => pose proof (lane_of_plain s t _ I Hpc Logic.I) as Hlp end;
  pose proof I as (T & Y & V & G); rewrite Ec in G; cbn [mclass c_lane] in G; destruct G as [r G].

Lemma clean_facts p lp :
  c_clean (mclass p) = true -> lane_ok p lp = true ->
  lp = Idle /\ stage p lp = 0 /\ sync_pc p = false /\ c_snap (mclass p) = false /\ c_incb (mclass p) = false.
Proof.
  intros C L. destruct p; cbn [mclass kont c_clean] in C; try discriminate C; try (destruct k; discriminate C);
    cbn [lane_ok] in L; destruct lp; try discriminate L; repeat split; try reflexivity; destruct tgt; reflexivity.
Qed.

(* a step of the bound thread inside cleanup2 that changes the word to enc r' (owner, enqueued, role ... unchanged)
   and / or the thread-bound flag *)
Lemma cleanup_word_step s t p p' r' bd :
  Inv s -> mpcs s t = p -> only_main p = true -> only_main p' = true ->
  c_lane (mclass p) = false -> c_lane (mclass p') = false -> c_clean (mclass p) = true -> c_clean (mclass p') = true ->
  c_snap (mclass p') = false -> c_incb (mclass p') = false -> c_ne (mclass p') = false ->
  c_view (mclass p) = VNone -> c_view (mclass p') = VNone -> mq_of p' = None -> sync_pc p' = false ->
  (forall lp, stage p' lp = 0) -> lane_ok p' Idle = true ->
  bd = negb (c_unb (mclass p')) ->
  wfr r' ->
  (forall r, st (lane s) = enc r -> wfr r ->
     f_owner r' = f_owner r /\ f_tr r' = f_tr r /\ f_enq r' = f_enq r /\ f_role r' = f_role r /\ f_em r' = f_em r /\
     f_pb r' = f_pb r /\ f_hi r' = f_hi r /\
     (if c_held (mclass p') then f_ib r' = 1 /\ f_wq r' = 4096 else f_ib r' = 0 /\ f_wq r' = 4095) /\
     (c_cbcf (mclass p') = true -> lst (lane s) <> [] -> wakers (lane s) = [] -> f_d r' = 1)) ->
  Inv (set_mpc (set_bound (set_lane s (set_st (lane s) (enc r'))) bd) t p').
Proof.
  intros I Hpc Ho Ho' CL CL' CC CC' Csn Cin Cne Cv Cv' Hq Hs Hg Hl Hb W' Hr.
  destruct (main_thread s t p I Hpc Ho) as [Et Ec].
  pose proof I as (T & Y & V & G). rewrite Ec, CL in G. destruct G as [r G].
  destruct (T t) as (_ & T2 & _). rewrite Hpc in T2.
  destruct (clean_facts p (pcs (lane s) t) CC T2) as (Hlp' & Hg0' & Hs0 & Csn0 & Cin0).
  match goal with |- Inv ?x => set (s1 := x) end.
  assert (Em : mcl s1 = mclass p') by (unfold s1, mcl; mproj; rewrite <- Et, upd_same; reflexivity).
  assert (Hg0 : stage (mpcs s t) (pcs (lane s) t) = 0) by (rewrite Hpc; exact Hg0').
  destruct (Hr r (a_enc s r G) (a_wf s r G)) as (E1 & E2 & E3 & E4 & E5 & E6 & E7 & E8 & E9).
  split; [|split; [|split]].
  - intros u. destruct (Z.eq_dec u t) as [->|N].
    + destruct (T t) as (T1 & _).
      apply (tinv_self_keep s s1 t (T t)); subst s1; fr; rewrite ?Hpc, ?Hlp'; try assumption; try (intros; congruence).
    + apply (tinv_other s s1 t u N (T u)); subst s1; fr.
  - apply (syinv_keep0 s s1 I); [rewrite Em, Ec, Cv, Cv'; reflexivity | subst s1; fr ..|].
    apply (parked_keep_nosync s s1 t Hg0); [intros w N; subst s1; fr | intros w; subst s1; fr].
  - exact V.
  - rewrite Em, CL'. exists r'. pose proof (a_order s r G) as AO. pose proof (a_snap s r G) as ASn.
    pose proof (a_nosync s r G) as ANS. pose proof (a_main s r G) as AM. rewrite Ec in *.
    assert (Sn : snap s = []) by (destruct (snap s); [reflexivity | congruence]).
    assert (Bi : bitem (mclass p) = [] /\ bitem (mclass p') = [] /\ brun (mclass p) = None /\ brun (mclass p') = None).
    { unfold bitem, brun. rewrite Cv, Cv'. auto. }
    destruct Bi as (B1 & B2 & B3 & B4).
    destruct G. rewrite Ec in *. rewrite B1, B3 in *.
    constructor; rewrite ?Em; subst s1; mproj; lproj; rewrite ?B2, ?B4, ?CC', ?Csn, ?Cin, ?Cne, ?Sn in *;
      try assumption; try congruence; try reflexivity; try (intros; discriminate).
    intros _. apply ANS. exact CC.
Qed.

Lemma step_MC_rmw s t s' : Inv s -> mpcs s t = MC_rmw -> mstep s t = Some s' -> Inv s'.
Proof.
  intros I Hpc B. unfold mstep in B. rewrite Hpc in B.
  cleanup_open I Hpc Et Ec Hlp T Y V G r.
  pose proof (a_enc s r G) as AE. pose proof (a_wf s r G) as AW. pose proof AW as AW'. unfold wfr in AW'.
  pose proof (a_shape s r G) as ASh. rewrite Ec in ASh. cbn [mclass c_held] in ASh. destruct ASh as [Hib Hwq].
  rewrite AE, (cleanup2_fields r AW Hib Hwq) in B. injection B as <-.
  set (r' := mk (f_owner r) (f_tr r) (f_enq r) (f_mq r) (f_ov r) (f_role r) (f_em r) 0 (f_pb r) 4096 1 (f_hi r)).
  apply (Inv_ext (set_mpc (set_bound (set_lane s (set_st (lane s) (enc r'))) true) t MC_clr)).
  { pose proof (a_bound s r G) as AB. rewrite Ec in AB. cbn in AB. msim_tac. }
  apply (cleanup_word_step s t MC_rmw MC_clr r' true I Hpc); try reflexivity.
  - apply wfr_mk'; lia.
  - intros r0 E0 W0. assert (r0 = r) by (apply (wf_enc_eq r r0 AW W0); congruence). subst r0.
    unfold r', mk; cbn. repeat split; try reflexivity. intros; discriminate.
Qed.

Lemma step_MC_clr s t s' : Inv s -> mpcs s t = MC_clr -> mstep s t = Some s' -> Inv s'.
Proof.
  intros I Hpc B. unfold mstep in B. rewrite Hpc in B. injection B as <-.
  cleanup_open I Hpc Et Ec Hlp T Y V G r.
  pose proof (a_enc s r G) as AE. pose proof (a_wf s r G) as AW.
  pose proof (a_shape s r G) as ASh. rewrite Ec in ASh. cbn [mclass c_held] in ASh.
  apply (Inv_ext (set_mpc (set_bound (set_lane s (set_st (lane s) (enc r))) false) t MC_tail)).
  { msim_tac. }
  apply (cleanup_word_step s t MC_clr MC_tail r false I Hpc); try reflexivity; try exact AW.
  intros r0 E0 W0. assert (r0 = r) by (apply (wf_enc_eq r r0 AW W0); congruence). subst r0.
  cbn [mclass c_held c_cbcf]. repeat split; try reflexivity; try tauto. intros; discriminate.
Qed.

Lemma step_MC_tail s t s' : Inv s -> mpcs s t = MC_tail -> mstep s t = Some s' -> Inv s'.
Proof.
  intros I Hpc B. destruct (lst (lane s)) eqn:L; [|apply (step_MC_tail_items s t s' I Hpc); [congruence | exact B]].
  unfold mstep in B. rewrite Hpc, L in B. injection B as <-.
  cleanup_open I Hpc Et Ec Hlp T Y V G r.
  pose proof (a_enc s r G) as AE. pose proof (a_wf s r G) as AW.
  pose proof (a_shape s r G) as ASh. rewrite Ec in ASh. cbn [mclass c_held] in ASh.
  pose proof (a_bound s r G) as AB. rewrite Ec in AB. cbn in AB.
  apply (Inv_ext (set_mpc (set_bound (set_lane s (set_st (lane s) (enc r))) false) t (MC_cbc false))).
  { msim_tac. }
  apply (cleanup_word_step s t MC_tail (MC_cbc false) r false I Hpc); try reflexivity; try exact AW.
  intros r0 E0 W0. assert (r0 = r) by (apply (wf_enc_eq r r0 AW W0); congruence). subst r0.
  cbn [mclass c_held c_cbcf]. repeat split; try reflexivity; try tauto; intros _ Hne; congruence.
Qed.

Lemma step_MC_susp s t s' : Inv s -> mpcs s t = MC_susp -> mstep s t = Some s' -> Inv s'.
Proof.
  intros I Hpc B. unfold mstep in B. rewrite Hpc in B.
  cleanup_open I Hpc Et Ec Hlp T Y V G r.
  rewrite (a_enc s r G), (is_suspended_f r (a_wf s r G)), (a_hi s r G) in B. cbn [Z.ltb Z.compare] in B. injection B as <-.
  destruct (T t) as (T1 & T2 & T3 & T4 & T5 & T6). rewrite Hpc in T3, T4, T5.
  apply Inv_ctl; rewrite ?Hpc, ?Hlp; try exact I; try reflexivity; try assumption; intros; try discriminate.
Qed.

Lemma step_MC_xor s t s' : Inv s -> mpcs s t = MC_xor -> mstep s t = Some s' -> Inv s'.
Proof.
  intros I Hpc B. unfold mstep in B. rewrite Hpc in B.
  cleanup_open I Hpc Et Ec Hlp T Y V G r.
  pose proof (a_enc s r G) as AE. pose proof (a_wf s r G) as AW. pose proof AW as AW'. unfold wfr in AW'.
  pose proof (a_shape s r G) as ASh. rewrite Ec in ASh. cbn [mclass c_held] in ASh.
  pose proof (a_bound s r G) as AB. rewrite Ec in AB. cbn in AB.
  rewrite AE, (xor_dirty_op_fields r AW) in B. injection B as <-.
  set (r' := mk (f_owner r) (f_tr r) (f_enq r) (f_mq r) (f_ov r) (f_role r) (f_em r) (1 - f_d r) (f_pb r) (f_wq r) (f_ib r) (f_hi r)).
  apply (Inv_ext (set_mpc (set_bound (set_lane s (set_st (lane s) (enc r'))) false) t MC_flags)).
  { msim_tac. }
  apply (cleanup_word_step s t MC_xor MC_flags r' false I Hpc); try reflexivity.
  - apply wfr_mk'; lia.
  - intros r0 E0 W0. assert (r0 = r) by (apply (wf_enc_eq r r0 AW W0); congruence). subst r0.
    unfold r', mk; cbn. repeat split; try reflexivity; try tauto. intros; discriminate.
Qed.

(* ------------------------------------------------------------------ the hand-over: _dispatch_lane_class_barrier_complete
   commits; from here on the lane component satisfies the invariant of the ordinary serial lane (SLane_proofs.Inv) *)
Lemma handoff s t tgt (enq : bool) r' :
  Inv s -> mpcs s t = MC_cbc tgt -> wfr r' ->
  f_owner r' = 0 -> f_tr r' = 0 -> f_enq r' = (if enq then 1 else 0) -> f_role r' < 2 -> f_em r' = 0 -> f_pb r' = 0 ->
  f_wq r' = 4095 -> f_ib r' = 0 -> f_hi r' = 0 ->
  (enq = false -> lst (lane s) <> [] -> wakers (lane s) <> []) ->
  Inv (set_mpc (set_lane s (if enq then set_token (set_pc (set_st (lane s) (enc r')) t PA_rootpush) (Some (Some t))
                            else set_st (lane s) (enc r'))) t (if enq then MC_push else MC_close)).
Proof.
  intros I Hpc W' R1 R2 R3 R4 R5 R6 R7 R8 R9 Hns.
  assert (Ho : only_main (MC_cbc tgt) = true) by reflexivity.
  destruct (main_thread s t _ I Hpc Ho) as [Et Ec].
  pose proof (lane_of_plain s t _ I Hpc Logic.I) as Hlp.
  pose proof I as (T & Y & V & G). rewrite Ec in G.
  assert (CL : c_lane (mclass (MC_cbc tgt)) = false) by (destruct tgt; reflexivity). rewrite CL in G. destruct G as [r G].
  assert (Tk : token (lane s) = None) by exact (a_token s r G).
  match goal with |- Inv ?x => set (s1 := x) end.
  assert (Em : mcl s1 = mclass MC_push).
  { unfold s1, mcl. mproj. rewrite <- Et, upd_same. destruct enq; reflexivity. }
  assert (Vt : valid_tid t) by (rewrite Et; exact V).
  assert (TI : forall u, thread_inv (lane s1) u).
  { intros u. destruct (T u) as (T1 & _). destruct enq; subst s1; mproj.
    - destruct (Z.eq_dec u t) as [->|N].
      + unfold thread_inv. lproj. rewrite upd_same. cbn [token_pc locked_pc waker_pc owned_of qos_of orb].
        destruct T1 as (_ & Tw & _). rewrite Hlp in Tw. cbn [waker_pc] in Tw.
        split; [tauto|]. split; [exact Tw|]. split; intros; discriminate.
      + apply (thread_other (lane s) _ t u N T1); lproj; [apply upd_other; exact N | | tauto].
        rewrite Tk. split; intros E; [injection E as E; congruence | discriminate].
    - unfold thread_inv in *. lproj. exact T1. }
  assert (IF : inflight (lane s1) = []).
  { unfold inflight. destruct enq; subst s1; mproj; lproj; [rewrite upd_same; reflexivity | rewrite Tk; reflexivity]. }
  assert (Ep : pending s1 = pending s).
  { unfold pending. rewrite IF. unfold inflight. rewrite Tk. destruct enq; subst s1; mproj; lproj; reflexivity. }
  assert (Hg : stage (mpcs s t) (pcs (lane s) t) = 0) by (rewrite Hpc, Hlp; reflexivity).
  assert (Sn : snap s = []).
  { pose proof (a_snap s r G) as A. rewrite Ec in A. destruct (snap s); [reflexivity|]. destruct tgt; discriminate A. }
  split; [|split; [|split]].
  - intros u. destruct (T u) as (T1 & T2 & T3 & T4 & T5 & T6). unfold tinv. split; [apply TI|].
    destruct (Z.eq_dec u t) as [->|N].
    + assert (Pm : mpcs s1 t = if enq then MC_push else MC_close) by (subst s1; mproj; apply upd_same).
      assert (Pl : pcs (lane s1) t = if enq then PA_rootpush else Idle).
      { destruct enq; subst s1; mproj; lproj; [apply upd_same | exact Hlp]. }
      rewrite Pm, Pl. rewrite Hpc in T5.
      split; [destruct enq; reflexivity|]. split; [intros _; exact Et|]. split; [destruct enq; intros; discriminate|].
      split; [change (syncers s1) with (syncers s); destruct enq; exact T5|].
      unfold sinv. rewrite Pm, Pl. destruct enq; cbn [stage kont]; repeat split; intros; try lia; discriminate.
    + assert (Pm : mpcs s1 u = mpcs s u) by (subst s1; mproj; apply upd_other; exact N).
      assert (Pl : pcs (lane s1) u = pcs (lane s) u).
      { destruct enq; subst s1; mproj; lproj; [apply upd_other; exact N | reflexivity]. }
      rewrite Pm, Pl. change (mtid s1) with (mtid s). change (syncers s1) with (syncers s).
      split; [exact T2|]. split; [exact T3|]. split; [exact T4|]. split; [exact T5|].
      unfold sinv in *. rewrite Pm, Pl. change (ws s1 u) with (ws s u). change (finished s1) with (finished s).
      change (mainran s1) with (mainran s). exact T6.
  - apply (syinv_keep0 s s1 I).
    + rewrite Em, Ec. destruct tgt; reflexivity.
    + exact Ep.
    + intros i. reflexivity.
    + destruct enq; subst s1; mproj; lproj; reflexivity.
    + apply incl_refl.
    + apply incl_refl.
    + apply (parked_keep_nosync s s1 t Hg).
      * intros w N. split; [subst s1; mproj; apply upd_other; exact N|].
        destruct enq; subst s1; mproj; lproj; [apply upd_other; exact N | reflexivity].
      * intros w. reflexivity.
  - exact V.
  - rewrite Em. cbn [mclass c_lane]. split.
    + split; [|exact TI]. exists r'.
      pose proof (a_order s r G) as AO. rewrite Ec, Sn in AO.
      assert (AO' : rev (started (lane s)) ++ map e_id (lst (lane s)) = zrange (nextid (lane s))).
      { destruct tgt; exact AO. }
      pose proof (a_running s r G) as AR. rewrite Ec in AR.
      assert (AR' : running (lane s) = None) by (destruct tgt; exact AR).
      pose proof (a_rootq s r G) as AQ. pose proof (a_nodup s r G) as AN. pose proof (a_nextid s r G) as AX.
      destruct enq; subst s1; mproj; constructor; lproj; rewrite ?upd_same; cbn [locked_pc unlocking_pc inflight_pc running_pc];
        try assumption; try reflexivity; try lia; try (unfold free; tauto).
      * rewrite R3. split; [discriminate | reflexivity].
      * intros _. left. discriminate.
      * intros w E. injection E as <-. rewrite upd_same. discriminate.
      * unfold inflight. lproj. rewrite upd_same. exact AO'.
      * rewrite R3, Tk. split; [discriminate | congruence].
      * rewrite Tk. exact AQ.
      * rewrite Tk. unfold free. tauto.
      * unfold inflight. lproj. rewrite Tk. exact AO'.
      * rewrite Tk. exact AR'.
    + pose proof (a_bound s r G) as AB. pose proof (a_nosync s r G) as ANS. pose proof (a_main s r G) as AM.
      pose proof (a_incb s r G) as AI. pose proof (a_hopen s r G) as AH. rewrite Ec in *.
      constructor; rewrite ?Em; cbn [mclass c_gone negb]; destruct enq; subst s1; mproj; try assumption;
        destruct tgt; cbn in *; try assumption; try reflexivity; apply ANS; reflexivity.
Qed.

Lemma step_MC_cbc s t tgt s' : Inv s -> mpcs s t = MC_cbc tgt -> mstep s t = Some s' -> Inv s'.
Proof.
  intros I Hpc B. unfold mstep in B. rewrite Hpc in B.
  assert (Ho : only_main (MC_cbc tgt) = true) by reflexivity.
  destruct (main_thread s t _ I Hpc Ho) as [Et Ec].
  pose proof I as (T & Y & V & G). rewrite Ec in G.
  assert (CL : c_lane (mclass (MC_cbc tgt)) = false) by (destruct tgt; reflexivity). rewrite CL in G. destruct G as [r G].
  pose proof (a_enc s r G) as AE. pose proof (a_wf s r G) as AW. pose proof AW as AW'. unfold wfr in AW'.
  pose proof (a_shape s r G) as ASh. rewrite Ec in ASh.
  assert (Sh : f_ib r = 1 /\ f_wq r = 4096) by (destruct tgt; exact ASh). destruct Sh as [Hib Hwq].
  pose proof (a_hi s r G) as Hhi. pose proof (a_enq s r G) as Henq. pose proof (a_em s r G) as Hem.
  pose proof (a_tr s r G) as Htr. pose proof (a_pb s r G) as Hpb. pose proof (a_role s r G) as Hro.
  assert (Q0 : 0 <= 0 < 8) by lia.
  rewrite AE in B. unfold SERIAL_OWNED, ENQUEUED in B. destruct tgt.
  - (* the list was not empty: ENQUEUED is set, the lane goes to its root queue *)
    rewrite (cbc_fields_enq r 0 0 1 AW Hib Hwq Hhi Q0) in B. cbv zeta in B.
    rewrite Henq, Hem in B. cbn [Z.eqb andb] in B.
    set (r' := mk 0 0 1 (f_mq (merged (unown r) 0)) 0 (f_role r) 0 (f_d r) (f_pb r) 4095 0 0) in *.
    assert (W' : wfr r').
    { pose proof (merged_wf (unown r) 0 (unown_wf r AW) Q0) as Wm. unfold wfr in Wm. apply wfr_mk'; lia. }
    rewrite (enq_changed r r' AW W') in B. rewrite Henq in B. cbn [f_enq r' mk Z.eqb negb] in B. injection B as <-.
    apply (handoff s t true true r' I Hpc W'); unfold r', mk; cbn [f_owner f_tr f_enq f_role f_em f_pb f_wq f_ib f_hi];
      try reflexivity; try assumption; try lia; intros; discriminate.
  - rewrite (cbc_fields_none r 0 0 0 AW Hib Hwq Hhi Q0) in B.
    destruct (Z.eqb_spec (f_d r) 1) as [D|D].
    + (* DIRTY: look again *)
      injection B as <-.
      pose proof (a_bound s r G) as AB. rewrite Ec in AB. cbn in AB.
      apply (Inv_ext (set_mpc (set_bound (set_lane s (set_st (lane s) (enc r))) false) t MC_xor)).
      { msim_tac. }
      apply (cleanup_word_step s t (MC_cbc false) MC_xor r false I Hpc); try reflexivity; try exact AW.
      intros r0 E0 W0. assert (r0 = r) by (apply (wf_enc_eq r r0 AW W0); congruence). subst r0.
      cbn [mclass c_held c_cbcf]. repeat split; try reflexivity; try tauto; intros; discriminate.
    + (* released, not enqueued *)
      set (r' := mk 0 0 (f_enq r) 0 0 (f_role r) (f_em r) 0 (f_pb r) 4095 0 0) in *.
      assert (W' : wfr r') by (apply wfr_mk'; lia).
      rewrite (enq_changed r r' AW W') in B. cbn [f_enq r' mk] in B. rewrite Z.eqb_refl in B. cbn [negb] in B. injection B as <-.
      apply (handoff s t false false r' I Hpc W'); unfold r', mk; cbn [f_owner f_tr f_enq f_role f_em f_pb f_wq f_ib f_hi];
        try reflexivity; try assumption; try lia.
      intros _ Hne Hw. apply D. apply (a_dirty s r G); [rewrite Ec; reflexivity | exact Hne | exact Hw].
Qed.

Lemma step_MC_push s t s' : Inv s -> valid_tid t -> mpcs s t = MC_push -> mstep s t = Some s' -> Inv s'.
Proof.
  intros I Vt Hpc B. unfold mstep in B. rewrite Hpc in B. unfold lane_step in B.
  destruct (gstep (lane s) t) as [l'|] eqn:GS; [|discriminate]. injection B as <-.
  main_open I Hpc Et Ec.
  pose proof I as (T & Y & V & G). rewrite Ec in G. cbn [mclass c_lane] in G. destruct G as [I2 G2].
  destruct (T t) as (_ & T2 & _). rewrite Hpc in T2. cbn [lane_ok] in T2.
  destruct (pcs (lane s) t) eqn:Hlp; try discriminate T2.
  assert (CL : c_lane (mcl s) = true) by (rewrite Ec; reflexivity).
  assert (I' : SLane_proofs.Inv l') by (apply (step_preserves (lane s) (AStep t) l' I2); split; assumption).
  unfold gstep in GS. rewrite Hlp in GS. injection GS as <-.
  apply (Inv_local_lane s t _ MC_close I CL I'); lproj; rewrite ?upd_same, ?Hpc; try reflexivity; try (intros; discriminate);
    try apply incl_refl.
  - intros u N. apply upd_other. exact N.
  - intros _. exact Et.
Qed.

Lemma step_MC_close s t s' : Inv s -> mpcs s t = MC_close -> mstep s t = Some s' -> Inv s'.
Proof.
  intros I Hpc B. unfold mstep in B. rewrite Hpc in B. injection B as <-.
  main_open I Hpc Et Ec. pose proof (lane_of_plain s t _ I Hpc Logic.I) as Hlp.
  pose proof I as (T & Y & V & G). rewrite Ec in G. cbn [mclass c_lane] in G. destruct G as [I2 G2].
  match goal with |- Inv ?x => set (s1 := x) end.
  assert (Em : mcl s1 = mclass MC_gone) by (unfold s1, mcl; mproj; rewrite <- Et, upd_same; reflexivity).
  split; [|split; [|split]].
  - own_and_others T t s s1 Hpc Hlp.
  - apply (syinv_keep0 s s1 I); [rewrite Em, Ec; reflexivity | subst s1; fr ..|].
    apply (parked_keep_nosync s s1 t); [rewrite Hpc, Hlp; reflexivity | intros w N; subst s1; fr | intros w; subst s1; fr].
  - exact V.
  - rewrite Em. cbn [mclass c_lane]. split; [exact I2|]. destruct G2. constructor; rewrite ?Em; subst s1; mproj; try assumption; reflexivity.
Qed.
