(* CLane_steps4.v — preservation of the invariant by a worker that drains the lane
   (_dispatch_queue_class_invoke / _dispatch_lane_drain in redirecting mode). *)
From Coq Require Import ZArith Bool List Lia.
From Verif Require Import Word Bits Fields DqFields Conc Gen_consts Gen_dqstate Lane_fields CLane_fields CLane CLane_inv CLane_proofs
  CLane_steps2 CLane_steps3.
Import ListNotations.
Local Open Scope Z_scope.

(* ---- _dispatch_queue_drain_try_lock ---- *)
Lemma step_W_lock W s t floor s' : Inv W s -> valid_tid t -> pcs s t = W_lock floor -> gstep W s t = Some s' -> Inv W s'.
Proof.
  intros HI Vt Hpc Hs. unfold gstep in Hs. rewrite Hpc in Hs.
  pose proof HI as (HW & (r & G) & T). pose proof (g_wf _ _ _ G) as Wf. pose proof Wf as Wf'. unfold wfr in Wf'.
  pose proof (g_wt _ _ _ G) as Gwt. pose proof (g_enq _ _ _ G) as [Henq Hrq].
  pose proof (not_waiting_grant W s t (T t)) as Gt. rewrite Hpc in Gt. specialize (Gt eq_refl).
  destruct (T t) as [T1 T2 T3 T4 T5 T6]. rewrite Hpc, Gt in *. cbn [holds owns toks waitpc] in *.
  assert (Tk : tokh s = Some t) by (apply T3; reflexivity). rewrite Tk in Henq.
  assert (E1 : f_enq r = 1) by lia. assert (R0 : rootq s = 0) by lia.
  rewrite (g_enc _ _ _ G) in Hs. rewrite lock_fields_w in Hs by (assumption || lia || (unfold valid_tid in Vt; lia)).
  destruct (lock_free r) eqn:LF.
  - destruct ((f_role r mod 2 =? 1) && (floor <? f_mq r)).
    { injection Hs as <-. pc_only_tac HI Hpc. }
    unfold lock_free in LF. rewrite !andb_true_iff in LF. destruct LF as [[[[L1 L2] L3] L4] L5].
    apply Z.eqb_eq in L1, L2, L4, L5. apply Z.ltb_lt in L3.
    pose proof (lock_none W s r G L1) as LN. pose proof (g_dw _ _ _ G) as [D0 DN]. destruct (DN LN) as [Dw0 Bm0].
    pose proof (g_wq _ _ _ G) as Hwq. rewrite Dw0 in Hwq. pose proof (U_nonneg s) as Un. pose proof (g_pbU _ _ _ G LN) as HpU.
    assert (P0 : f_pb r = 0) by (destruct (Z.eq_dec (f_pb r) 1) as [E|E]; [specialize (HpU E); rewrite E in Hwq; lia | lia]).
    rewrite P0 in Hwq.
    set (ibn := lock_ib r W) in *.
    assert (Hibn : ibn = if U s =? 0 then 1 else 0).
    { subst ibn. unfold lock_ib. rewrite P0. cbn [Z.eqb orb].
      destruct (Z.ltb_spec (f_wq r + W - 1) 4096); destruct (Z.eqb_spec (U s) 0); try reflexivity; lia. }
    set (ow := 18014398509481984 * ibn + 9007199254740992 + 2147483648 * f_enq r - 2199023255552 * f_wq r) in *.
    assert (Eow : ow = ENQUEUED + (W - U s) * INTERVAL + IN_BARRIER * ibn)
      by (subst ow; unfold ENQUEUED, INTERVAL, IN_BARRIER; rewrite E1; lia).
    assert (Ib01 : 0 <= ibn <= 1) by (rewrite Hibn; destruct (U s =? 0); lia).
    assert (Dr : 0 <= W - U s <= 4096) by lia.
    assert (Ow0 : (ow =? 0) = false) by (apply Z.eqb_neq; rewrite Eow; unfold ENQUEUED, INTERVAL, IN_BARRIER; lia).
    rewrite Ow0 in Hs.
    assert (InB : nz (f_dq_state_is_in_barrier ow) = (ibn =? 1)) by (rewrite Eow; apply op_in_barrier; lia).
    assert (Wd : Z.land ow WIDTH_MASK / INTERVAL = W - U s).
    { rewrite Eow, op_width by lia. unfold INTERVAL. apply Z.div_mul. lia. }
    rewrite InB, Wd in Hs. injection Hs as <-.
    assert (Wn : wfr (mk t 0 (f_enq r) (f_mq r) 0 (f_role r) 0 0 0 4096 ibn 0)) by (unfold valid_tid in Vt; wf_mk).
    assert (Hib2 : (ibn = 1 /\ U s = 0) \/ (ibn = 0 /\ U s <> 0)).
    { rewrite Hibn. destruct (Z.eqb_spec (U s) 0); [left|right]; auto. }
    assert (Dw' : (if ibn =? 1 then W else W - U s) = W - U s).
    { destruct Hib2 as [(-> & E)|(-> & E)]; [change (1 =? 1) with true | change (0 =? 1) with false]; cbv iota; lia. }
    rewrite Dw'.
    split; [exact HW|]. split.
    + eexists. destruct G. constructor; try reflexivity; try exact Wn; unfold U in *; gcbn; fcbn; try assumption; try lia.
      * intros t0 X. injection X as <-. exact Vt.
      * destruct Hib2 as [(-> & E)|(-> & E)]; reflexivity.
      * destruct Hib2 as [(-> & E)|(-> & E)].
        -- intros _. split; [discriminate|]. split; [lia|]. split; [exact E|reflexivity].
        -- change (0 =? 1) with false. intros X. discriminate X.
      * split; [lia|]. discriminate.
      * apply g_wt_setpc; [exact Gwt | rewrite Hpc; discriminate].
    + intros u. destruct (Z.eq_dec u t) as [->|Ne].
      * constructor; gcbn; rewrite ?upd_same, ?Gt; cbn [holds owns toks waitpc pcinv].
        -- exact T1.
        -- split; auto.
        -- split; auto.
        -- intros X; contradiction.
        -- intros X; discriminate.
        -- intros _. exists (W - U s), ibn. split; [exact Eow|]. split; [lia|]. gcbn.
           destruct Hib2 as [(Ei & E)|(Ei & E)].
           ++ left. split; [exact Ei|]. split; [rewrite Ei; reflexivity|lia].
           ++ right. split; [exact Ei|]. split; [rewrite Ei; reflexivity|]. split; [reflexivity|].
              intros X. exfalso. revert X. match goal with |- pb ?s2 = 1 -> _ => rewrite (pb_st s2 _ eq_refl Wn) end. discriminate.
      * apply (other_thread_free W s _ t u Ne T LN); gcbn; try reflexivity.
        -- apply upd_other; exact Ne.
        -- intros X. congruence.
  - (* cannot be drained now: the enqueued bit is given back *)
    set (r' := mk (f_owner r) (f_tr r) (1 - f_enq r) (f_mq r) (f_ov r) (f_role r) (f_em r) (f_d r) (f_pb r) (f_wq r) (f_ib r) (f_hi r)).
    assert (Wn : wfr r') by (subst r'; wf_mk).
    change (0 =? 0) with true in Hs. cbv iota in Hs. injection Hs as <-.
    split; [exact HW|]. split.
    + exists r'. destruct G. subst r'. constructor; try reflexivity; unfold U in *; gcbn; fcbn; try assumption; try lia.
      apply g_wt_setpc; [exact Gwt | rewrite Hpc; discriminate].
    + intros u. destruct (Z.eq_dec u t) as [->|Ne].
      * eapply (self_plain' W s _ t Idle (T t)); rewrite ?Hpc; gcbn; rewrite ?upd_same; try reflexivity.
        split; discriminate.
      * apply (other_thread W s _ t u Ne T); gcbn; try reflexivity.
        -- apply upd_other; exact Ne.
        -- rewrite Tk. split; [discriminate | intros X; congruence].
        -- intros v Lv Nv. unfold stable_for_owner; gcbn. split; [reflexivity|]. split; [reflexivity|].
           split; [eapply pb_eq; [exact (g_enc _ _ _ G)|exact Wf|gcbn; reflexivity|exact Wn|reflexivity]|].
           split; [left; unfold U; gcbn; lia|]. split; [left; reflexivity|].
           split; [intros v' Nv'; split; [apply upd_other; exact Nv'|reflexivity]|].
           split; [intros _ X; rewrite Hpc in X; discriminate X|]. split; [intros X; left; exact X|].
           right. split; [unfold U; gcbn; lia|].
           eapply dirty_eq; [exact (g_enc _ _ _ G)|exact Wf|gcbn; reflexivity|exact Wn|reflexivity].
Qed.

(* ---- _dispatch_queue_try_upgrade_full_width ---- *)
Lemma step_W_upg W s t op owned s' : Inv W s -> valid_tid t -> pcs s t = W_upg op owned -> gstep W s t = Some s' -> Inv W s'.
Proof.
  intros HI Vt Hpc Hs. unfold gstep in Hs. rewrite Hpc in Hs.
  inv_pc HI t Hpc. destruct Hi as (E & Bm & Ow & Pd & Hb).
  pose proof HI as (HW & (r & G) & T). pose proof (g_wf _ _ _ G) as Wf. pose proof Wf as Wf'. unfold wfr in Wf'.
  pose proof (g_wt _ _ _ G) as Gwt. pose proof (dw_range W s r G) as Dr. rewrite (pb_of W s r G) in Pd.
  pose proof (g_wq _ _ _ G) as Hwq. pose proof (U_nonneg s) as Un. pose proof (g_bound _ _ _ G) as Hbd.
  pose proof (g_ib _ _ _ G) as Hib. rewrite Bm in Hib. pose proof (g_hi _ _ _ G) as Hhi.
  assert (Pb01 : f_pb r = 0 \/ f_pb r = 1) by lia.
  assert (Uq : upg_wq r (dw s) W = 4095 + U s).
  { unfold upg_wq. destruct (Z.eqb_spec (f_pb r) 1) as [P|P].
    - rewrite P in Hwq. rewrite (Pd P) in *. lia.
    - assert (P0 : f_pb r = 0) by lia. rewrite P0 in Hwq. lia. }
  rewrite (g_enc _ _ _ G) in Hs. subst owned. unfold INTERVAL in Hs.
  rewrite upgrade_fields in Hs by (assumption || lia).
  unfold upg_rec in Hs. rewrite Uq in Hs.
  destruct (Z.ltb_spec (4095 + U s) 4096) as [Hu|Hu].
  - (* no reader left: the drainer becomes the barrier owner *)
    change (nz 1) with true in Hs. cbv iota in Hs. apply Some_inj in Hs. subst s'.
    assert (U0 : U s = 0) by lia.
    assert (Wn : wfr (mk (f_owner r) (f_tr r) (f_enq r) (f_mq r) (f_ov r) (f_role r) (f_em r) 0 0 (4095 + U s + 1) 1 0)) by wf_mk.
    split; [exact HW|]. split.
    + eexists. destruct G. constructor; try reflexivity; try exact Wn; unfold U in *; gcbn; fcbn; try assumption; try lia.
      * intros _. split; [rewrite Ho; discriminate|]. split; [reflexivity|]. split; [lia|reflexivity].
      * split; [lia|]. intros X. rewrite Ho in X. discriminate X.
      * apply g_wt_setpc; [exact Gwt | rewrite Hpc; discriminate].
    + intros u. destruct (Z.eq_dec u t) as [->|Ne].
      * eapply (owner_keeps W s _ t (W_head op IN_BARRIER) (T t)); rewrite ?Hpc; gcbn; rewrite ?upd_same; try reflexivity.
        cbn [pcinv]. gcbn. split; [exact E|]. left. split; reflexivity.
      * apply (other_thread_owner W s _ t u Ne T Ho); gcbn; try reflexivity.
        -- apply upd_other; exact Ne.
        -- rewrite Ho. intros X. congruence.
  - (* readers are still running: park with PENDING_BARRIER and give the lock back *)
    change (nz 0) with false in Hs. cbv iota in Hs. apply Some_inj in Hs. subst s'.
    assert (U1 : 1 <= U s) by lia.
    assert (Wn : wfr (mk (f_owner r) (f_tr r) (f_enq r) (f_mq r) (f_ov r) (f_role r) (f_em r) 0 1 (4095 + U s) 0 0)) by wf_mk.
    split; [exact HW|]. split.
    + eexists. destruct G. constructor; try reflexivity; try exact Wn; unfold U in *; gcbn; fcbn; try assumption; try lia.
      * rewrite Bm. discriminate.
      * split; [lia|]. intros X. rewrite Ho in X. discriminate X.
      * apply g_wt_setpc; [exact Gwt | rewrite Hpc; discriminate].
      * intros _. unfold head_bar in *. gcbn. exact Hb.
    + intros u. destruct (Z.eq_dec u t) as [->|Ne].
      * eapply (owner_keeps W s _ t (W_unlock (Z.land op ENQ_BITS) 0) (T t)); rewrite ?Hpc; gcbn; rewrite ?upd_same; try reflexivity.
        cbn [pcinv]. rewrite E. split.
        -- exists 0, 0. split; [unfold ENQUEUED, INTERVAL, IN_BARRIER; lia|]. split; [lia|]. right. gcbn. auto.
        -- intros _. left. unfold U in *. gcbn. lia.
      * apply (other_thread_owner W s _ t u Ne T Ho); gcbn; try reflexivity.
        -- apply upd_other; exact Ne.
        -- rewrite Ho. intros X. congruence.
Qed.

Lemma step_W_xorib W s t op s' : Inv W s -> valid_tid t -> pcs s t = W_xorib op -> gstep W s t = Some s' -> Inv W s'.
Proof.
  intros HI Vt Hpc Hs. unfold gstep in Hs. rewrite Hpc in Hs. injection Hs as <-.
  inv_pc HI t Hpc. destruct Hi as (E & Bm & Hn).
  pose proof HI as (HW & (r & G) & T). pose proof (g_wf _ _ _ G) as Wf. pose proof Wf as Wf'. unfold wfr in Wf'.
  pose proof (g_wt _ _ _ G) as Gwt. destruct (g_bm _ _ _ G Bm) as (_ & Dw & U0 & P0).
  pose proof (g_ib _ _ _ G) as Hib. rewrite Bm in Hib. pose proof (g_dw _ _ _ G) as [D0 _].
  rewrite (g_enc _ _ _ G). unfold IN_BARRIER. rewrite xor_ib_fields by exact Wf. rewrite Hib.
  set (r' := mk (f_owner r) (f_tr r) (f_enq r) (f_mq r) (f_ov r) (f_role r) (f_em r) (f_d r) (f_pb r) (f_wq r) (1 - 1) (f_hi r)).
  assert (Wn : wfr r') by (subst r'; wf_mk).
  split; [exact HW|]. split.
  - exists r'. destruct G. subst r'. constructor; unfold U in *; gcbn; fcbn; try assumption; try lia; try (intros; discriminate);
      try (split; [lia | intros X; rewrite Ho in X; discriminate X]).
    apply g_wt_setpc; [exact Gwt | rewrite Hpc; discriminate].
  - intros u. destruct (Z.eq_dec u t) as [->|Ne].
    + eapply (owner_keeps W s _ t (W_head op (u64 (W * INTERVAL))) (T t)); rewrite ?Hpc; gcbn; rewrite ?upd_same; try reflexivity.
      cbn [pcinv]. gcbn. split; [exact E|]. right. split; [reflexivity|].
      split; [rewrite Dw; apply u64_id''; unfold INTERVAL; lia|].
      intros X. exfalso. revert X. pb_now r' Wn. subst r'. fcbn. rewrite P0. discriminate.
    + apply (other_thread_owner W s _ t u Ne T Ho); gcbn; try reflexivity.
      * apply upd_other; exact Ne.
      * rewrite Ho. intros X. congruence.
Qed.

Lemma step_W_addw W s t op s' : Inv W s -> valid_tid t -> pcs s t = W_addw op -> gstep W s t = Some s' -> Inv W s'.
Proof.
  intros HI Vt Hpc Hs. unfold gstep in Hs. rewrite Hpc in Hs. apply Some_inj in Hs. subst s'.
  inv_pc HI t Hpc. destruct Hi as (E & Bm & Dw & P0 & Hn & Hw & HU).
  pose proof HI as (HW & (r & G) & T). pose proof (g_wf _ _ _ G) as Wf. pose proof Wf as Wf'. unfold wfr in Wf'.
  pose proof (g_wt _ _ _ G) as Gwt. rewrite (pb_of W s r G) in P0.
  pose proof (g_wq _ _ _ G) as Hwq. rewrite Dw, P0 in Hwq. pose proof (U_nonneg s) as Un.
  rewrite (g_enc _ _ _ G). unfold INTERVAL. change 2199023255552 with (1 * 2199023255552). rewrite add_wq by (assumption || lia).
  assert (Wn : wfr (set_wq r (f_wq r + 1))) by (apply set_wq_wf; [exact Wf|lia]).
  split; [exact HW|]. split.
  - exists (set_wq r (f_wq r + 1)). destruct G. constructor; unfold U in *; gcbn; fcbn; try assumption; try lia.
    + rewrite Bm. discriminate.
    + split; [lia|]. intros X. rewrite Ho in X. discriminate X.
    + apply g_wt_setpc; [exact Gwt | rewrite Hpc; cbn [waitpc]; auto].
  - intros u. destruct (Z.eq_dec u t) as [->|Ne].
    + eapply (owner_keeps W s _ t (W_popn op (1 * 2199023255552)) (T t)); rewrite ?Hpc; gcbn; rewrite ?upd_same; try reflexivity.
      cbn [pcinv]. gcbn. split; [exact E|]. split; [exact Bm|]. split; [unfold INTERVAL; lia|]. split; [lia|].
      split; [pb_now (set_wq r (f_wq r + 1)) Wn; exact P0 | exact Hn].
    + apply (other_thread_owner W s _ t u Ne T Ho); gcbn; try reflexivity.
      * apply upd_other; exact Ne.
      * rewrite Ho. intros X. congruence.
Qed.

Lemma step_W_acq W s t op s' : Inv W s -> valid_tid t -> pcs s t = W_acq op -> gstep W s t = Some s' -> Inv W s'.
Proof.
  intros HI Vt Hpc Hs. unfold gstep in Hs. rewrite Hpc in Hs.
  inv_pc HI t Hpc. destruct Hi as (E & Bm & Dw & P0 & Hn).
  pose proof HI as (HW & (r & G) & T). pose proof (g_wf _ _ _ G) as Wf. pose proof Wf as Wf'. unfold wfr in Wf'.
  pose proof (g_wt _ _ _ G) as Gwt.
  rewrite (g_enc _ _ _ G) in Hs. rewrite acquire_async_fields in Hs by assumption.
  destruct (async_ok r) eqn:OK.
  2:{ apply Some_inj in Hs. subst s'. pc_only_tac HI Hpc. rewrite E. split; [|intros X; rewrite P0 in X; discriminate X].
      exists 0, 0. split; [unfold ENQUEUED, INTERVAL, IN_BARRIER; lia|]. split; [lia|]. right.
      split; [reflexivity|]. split; [exact Bm|]. split; [symmetry; exact Dw|]. intros _. exact Dw. }
  apply Some_inj in Hs. subst s'.
  unfold async_ok in OK. rewrite !andb_true_iff in OK. destruct OK as [[[[O1 O2] O3] O4] O5].
  apply Z.ltb_lt in O3.
  rewrite (pb_of W s r G) in P0. pose proof (g_wq _ _ _ G) as Hwq. rewrite Dw, P0 in Hwq. pose proof (U_nonneg s) as Un.
  assert (Wn : wfr (set_wq r (f_wq r + 1))) by (apply set_wq_wf; [exact Wf|lia]).
  split; [exact HW|]. split.
  - exists (set_wq r (f_wq r + 1)). destruct G. constructor; unfold U in *; gcbn; fcbn; try assumption; try lia.
    + rewrite Bm. discriminate.
    + split; [lia|]. intros X. rewrite Ho in X. discriminate X.
    + apply g_wt_setpc; [exact Gwt | rewrite Hpc; cbn [waitpc]; auto].
  - intros u. destruct (Z.eq_dec u t) as [->|Ne].
    + eapply (owner_keeps W s _ t (W_popn op INTERVAL) (T t)); rewrite ?Hpc; gcbn; rewrite ?upd_same; try reflexivity.
      cbn [pcinv]. gcbn. split; [exact E|]. split; [exact Bm|]. split; [unfold INTERVAL; lia|]. split; [lia|].
      split; [pb_now (set_wq r (f_wq r + 1)) Wn; exact P0 | exact Hn].
    + apply (other_thread_owner W s _ t u Ne T Ho); gcbn; try reflexivity.
      * apply upd_other; exact Ne.
      * rewrite Ho. intros X. congruence.
Qed.

Lemma step_W_xor W s t op s' : Inv W s -> valid_tid t -> pcs s t = W_xor op -> gstep W s t = Some s' -> Inv W s'.
Proof.
  intros HI Vt Hpc Hs. unfold gstep in Hs. rewrite Hpc in Hs. apply Some_inj in Hs. subst s'.
  inv_pc HI t Hpc.
  apply owner_xor_dirty; auto; rewrite ?Hpc; try reflexivity.
  intros s2 B2 D2 P2 _ _ _. cbn [pcinv]. unfold opform in *. rewrite B2, D2, P2. exact Hi.
Qed.

Lemma step_W_popb W s t op s' : Inv W s -> valid_tid t -> pcs s t = W_popb op -> gstep W s t = Some s' -> Inv W s'.
Proof.
  intros HI Vt Hpc Hs. unfold gstep in Hs. rewrite Hpc in Hs.
  inv_pc HI t Hpc. destruct Hi as (E & Bm & Hb).
  pose proof HI as (HW & (r & G) & T). pose proof (g_wt _ _ _ G) as Gwt. pose proof (g_wtnd _ _ _ G) as Gnd.
  destruct (g_bm _ _ _ G Bm) as (_ & _ & _ & P0).
  unfold head_bar in Hb. destruct (lst s) as [|x l'] eqn:Hl; [contradiction|]. apply Some_inj in Hs. subst s'.
  assert (Nd' : NoDup (waiters l')).
  { rewrite waiters_cons in Gnd. destruct (i_wt x =? 0); [exact Gnd|]. inversion Gnd; assumption. }
  split; [exact HW|]. split.
  - exists r. destruct G. constructor; unfold U in *; gcbn; try assumption; try lia; try (intros X; lia).
    apply (g_wt_setpc s t _ l' (grant s)); [|rewrite Hpc; discriminate].
    intros z Hz Nz. apply Gwt; [right; exact Hz|exact Nz].
  - intros u. destruct (Z.eq_dec u t) as [->|Ne].
    + eapply (owner_keeps W s _ t (W_call op (i_id x)) (T t)); rewrite ?Hpc; gcbn; rewrite ?upd_same; try reflexivity.
      cbn [pcinv]. gcbn. auto.
    + apply (other_thread_owner W s _ t u Ne T Ho); gcbn; try reflexivity.
      * apply upd_other; exact Ne.
      * rewrite Ho. intros X. congruence.
Qed.

Lemma step_W_popn W s t op owned s' : Inv W s -> valid_tid t -> pcs s t = W_popn op owned -> gstep W s t = Some s' -> Inv W s'.
Proof.
  intros HI Vt Hpc Hs. unfold gstep in Hs. rewrite Hpc in Hs.
  inv_pc HI t Hpc. destruct Hi as (E & Bm & Ow & D1 & P0 & Hn).
  pose proof HI as (HW & (r & G) & T). pose proof (g_wt _ _ _ G) as Gwt. pose proof (g_wtnd _ _ _ G) as Gnd.
  pose proof (dw_range W s r G) as Dr. pose proof P0 as P0'. rewrite (pb_of W s r G) in P0'.
  unfold head_nb in Hn. destruct (lst s) as [|x l'] eqn:Hl; [contradiction|].
  assert (Gwt1 : forall z, In z l' -> i_wt z <> 0 -> valid_tid (i_wt z) /\ grant s (i_wt z) = GNone /\ waitpc (pcs s (i_wt z)) = true)
    by (intros z Hz Nz; apply Gwt; [right; exact Hz|exact Nz]).
  assert (Ow' : u64 (owned - INTERVAL) = (dw s - 1) * INTERVAL) by (subst owned; unfold INTERVAL; rewrite u64_id'' by lia; lia).
  rewrite Ow' in Hs.
  destruct (Z.eqb_spec (i_wt x) 0) as [Ew|Ew]; apply Some_inj in Hs; subst s'.
  - rewrite waiters_cons, Ew in Gnd. cbn [Z.eqb] in Gnd.
    split; [exact HW|]. split.
    + exists r. destruct G.
      ginv_owner Bm Ho ltac:(apply (g_wt_setpc s t _ l' (grant s)); [exact Gwt1 | rewrite Hpc; discriminate]).
    + intros u. destruct (Z.eq_dec u t) as [->|Ne].
      * eapply (owner_keeps W s _ t (W_next op ((dw s - 1) * INTERVAL)) (T t)); rewrite ?Hpc; gcbn; rewrite ?upd_same; try reflexivity.
        cbn [pcinv]. gcbn. split; [exact E|]. right. split; [exact Bm|]. split; [reflexivity|].
        intros X. rewrite (pb_same s) in X by reflexivity. rewrite P0 in X. discriminate X.
      * apply (other_thread_owner W s _ t u Ne T Ho); gcbn; try reflexivity.
        -- apply upd_other; exact Ne.
        -- rewrite Ho. intros X. congruence.
  - destruct (Gwt x (or_introl eq_refl) Ew) as (Vu & Gu & Wu).
    rewrite waiters_cons in Gnd. destruct (Z.eqb_spec (i_wt x) 0) as [|_]; [contradiction|]. inversion Gnd as [|? ? Nin Nd']; subst.
    assert (NH : ~ In (i_wt x) (holders s)).
    { intros X. destruct (T (i_wt x)) as [U1 _ _ _ _ _]. apply U1 in X. rewrite Gu in X.
      destruct X as [X|X]; [|discriminate]. destruct (pcs s (i_wt x)); discriminate. }
    assert (Gwt2 : forall z, In z l' -> i_wt z <> 0 ->
              valid_tid (i_wt z) /\ upd (grant s) (i_wt x) GReader (i_wt z) = GNone /\ waitpc (pcs s (i_wt z)) = true).
    { intros z Hz Nz. destruct (Gwt1 z Hz Nz) as (V & Gn & Wp). split; [exact V|]. split; [|exact Wp].
      rewrite upd_other; [exact Gn|]. intros E'. apply Nin. apply in_waiters. exists z.
      split; [exact Hz|]. split; [exact E'|]. rewrite <- E'. exact Nz. }
    assert (Nut : i_wt x <> t).
    { intros E'. rewrite E', Hpc in Wu. discriminate Wu. }
    split; [exact HW|]. split.
    + exists r. destruct G.
      ginv_owner Bm Ho ltac:(apply (g_wt_setpc s t _ l' _); [exact Gwt2 | rewrite Hpc; discriminate]).
    + intros v. destruct (Z.eq_dec v t) as [->|Nt].
      * destruct (T t) as [T1 T2 T3 T4 T5 T6]. rewrite Hpc in *. cbn [holds owns toks waitpc] in *.
        constructor; gcbn; rewrite ?upd_same, ?(upd_other _ _ _ _ (not_eq_sym Nut)); cbn [holds owns toks waitpc pcinv].
        -- rewrite <- T1. apply in_cons_other. auto.
        -- exact T2.
        -- exact T3.
        -- exact T4.
        -- exact T5.
        -- intros _. gcbn. split; [exact E|]. split; [exact Bm|]. split; [reflexivity|].
           rewrite (pb_same s) by reflexivity. exact P0.
      * destruct (Z.eq_dec v (i_wt x)) as [->|Nu'].
        -- destruct (T (i_wt x)) as [U1 U2 U3 U4 U5 U6].
           constructor; gcbn; rewrite ?upd_same, ?(upd_other _ _ _ _ Nt); cbn [In].
           ++ split; auto.
           ++ rewrite U2, Gu. split; intros [X|X]; auto; discriminate.
           ++ exact U3.
           ++ intros _. exact Wu.
           ++ intros X; discriminate.
           ++ intros X. exfalso. assert (lockh s = Some (i_wt x)) by (apply U2; auto). congruence.
        -- apply (other_thread_owner W s _ t v Nt T Ho); gcbn; try reflexivity.
           ++ apply upd_other; exact Nt.
           ++ apply upd_other; exact Nu'.
           ++ apply in_cons_other. exact Nu'.
           ++ rewrite Ho. intros X. congruence.
Qed.

(* ---- _dispatch_queue_drain_try_unlock ---- *)
Lemma step_W_unlock W s t op done s' : Inv W s -> valid_tid t -> pcs s t = W_unlock op done -> gstep W s t = Some s' -> Inv W s'.
Proof.
  intros HI Vt Hpc Hs. unfold gstep in Hs. rewrite Hpc in Hs.
  inv_pc HI t Hpc. destruct Hi as (Hop & HpU).
  pose proof HI as (HW & (r & G) & T). pose proof (g_wf _ _ _ G) as Wf. pose proof Wf as Wf'. unfold wfr in Wf'.
  pose proof (g_wt _ _ _ G) as Gwt. pose proof (g_enq _ _ _ G) as [Henq Hrq]. pose proof (g_hi _ _ _ G) as Hhi.
  pose proof (g_wq _ _ _ G) as Hwq. pose proof (g_ib _ _ _ G) as Hib. pose proof (U_nonneg s) as Un.
  pose proof (dw_range W s r G) as Dr. rewrite (pb_of W s r G) in HpU. rewrite (dirty_st s r (g_enc _ _ _ G) Wf) in HpU.
  destruct (T t) as [T1 T2 T3 T4 T5 T6]. rewrite Hpc in *. cbn [holds owns toks waitpc] in *.
  assert (Tk : tokh s = Some t) by (apply T3; reflexivity). rewrite Tk in Henq. assert (E1 : f_enq r = 1) by lia.
  assert (Gt : grant s t = GNone) by (destruct (grant s t) eqn:Eg; [reflexivity| |]; exfalso; assert (X : false = true) by (apply T4; discriminate); discriminate X).
  (* the word once the owned amount is subtracted *)
  assert (Sub : exists r0, wfr r0 /\ u64 (enc r - op) = enc r0 /\ f_enq r0 = 0 /\ f_ib r0 = 0 /\ f_hi r0 = 0 /\
                           f_wq r0 = 4096 - W + U s + (W - 1) * f_pb r /\ f_pb r0 = f_pb r /\ f_role r0 = f_role r /\
                           f_em r0 = f_em r /\ f_d r0 = f_d r).
  { destruct Hop as (d & b & -> & Hd & [(-> & Bm & ->)|(-> & Bm & -> & Pd)]).
    - destruct (g_bm _ _ _ G Bm) as (_ & Dw & U0 & P0). rewrite Bm in Hib. rewrite Dw, U0, P0 in Hwq.
      exists (mk (f_owner r) (f_tr r) 0 (f_mq r) (f_ov r) (f_role r) (f_em r) (f_d r) (f_pb r) (4096 - W) 0 (f_hi r)).
      split; [wf_mk|]. split.
      + rewrite !enc_linear. unfold mk, ENQUEUED, INTERVAL, IN_BARRIER. cbn [f_owner f_tr f_enq f_mq f_ov f_role f_em f_d f_pb f_wq f_ib f_hi].
        rewrite E1, Hib. rewrite u64_id'' by lia. lia.
      + fcbn. repeat split; try reflexivity; try assumption; lia.
    - rewrite Bm in Hib.
      exists (mk (f_owner r) (f_tr r) 0 (f_mq r) (f_ov r) (f_role r) (f_em r) (f_d r) (f_pb r) (f_wq r - dw s) 0 (f_hi r)).
      split; [wf_mk|]. split.
      + rewrite !enc_linear. unfold mk, ENQUEUED, INTERVAL, IN_BARRIER. cbn [f_owner f_tr f_enq f_mq f_ov f_role f_em f_d f_pb f_wq f_ib f_hi].
        rewrite E1, Hib. rewrite u64_id'' by lia. lia.
      + fcbn. repeat split; try reflexivity; try assumption; lia. }
  destruct Sub as (r0 & W0 & E0 & F1 & F2 & F3 & F4 & F5 & F6 & F7 & F8). pose proof W0 as W0'. unfold wfr in W0'.
  rewrite (g_enc _ _ _ G) in Hs. rewrite (unlock_fields_w r r0) in Hs by assumption.
  destruct (Z.eqb_spec (f_d r) 1) as [Hd|Hd].
  { apply Some_inj in Hs. subst s'. pc_only_tac HI Hpc. exact Hop. }
  apply Some_inj in Hs. subst s'.
  set (r' := if nz done
             then mk 0 0 (f_enq r0) 0 0 (f_role r0) (f_em r0) (f_d r0) (f_pb r0) (f_wq r0) (f_ib r0) (f_hi r0)
             else mk 0 0 (f_enq r0) (f_mq r0) 0 (f_role r0) (f_em r0) 1 (f_pb r0) (f_wq r0) (f_ib r0) (f_hi r0)).
  assert (Wn : wfr r') by (subst r'; destruct (nz done); wf_mk).
  assert (R' : f_owner r' = 0 /\ f_tr r' = 0 /\ f_enq r' = 0 /\ f_role r' = f_role r /\ f_em r' = f_em r /\ f_pb r' = f_pb r /\
               f_wq r' = 4096 - W + U s + (W - 1) * f_pb r /\ f_ib r' = 0 /\ f_hi r' = 0)
    by (subst r'; destruct (nz done); fcbn; repeat split; congruence).
  destruct R' as (R1 & R2 & R3 & R4 & R5 & R6 & R7 & R8 & R9).
  split; [exact HW|]. split.
  - exists r'. pose proof (g_pbh _ _ _ G) as Gph. destruct G.
    constructor; unfold U in *; gcbn; try assumption; try lia; try reflexivity; try congruence.
    + apply g_wt_setpc; [exact Gwt | rewrite Hpc; discriminate].
    + intros X. unfold head_bar in *. gcbn. apply Gph. congruence.
  - intros u. destruct (Z.eq_dec u t) as [->|Ne].
    + constructor; gcbn; rewrite ?upd_same, ?Gt; cbn [holds owns toks waitpc pcinv].
      * rewrite Gt in T1. exact T1.
      * split; [discriminate | intros [X|X]; discriminate].
      * split; discriminate.
      * intros X; contradiction.
      * intros X; discriminate.
      * discriminate.
    + apply (other_thread_owner W s _ t u Ne T Ho); gcbn; try reflexivity.
      * apply upd_other; exact Ne.
      * discriminate.
      * rewrite Tk. split; [discriminate | intros X; congruence].
Qed.
